(* C11 property theorems.  Statements only; proofs are in Proofs.v (sender /
   receiver / nonces), TamperProofs.v (authenticity) and HsProofs.v
   (handshake).  Every crypto function is universally quantified; each
   hypothesis on it is spelled out in the theorem that needs it.

   Every definition used in a statement lives in Model.v (the model of
   noise.go / conn.go) or Spec.v (specification-side definitions: lex_lt,
   total_len, chain, slot_plain, no_forgery, hs_honest, act3_ct, act3_tag,
   cop / crun_all / committed_all / returned, spec_reads, delivered, mop / proj /
   strip / proc_run / releases_idle); both
   files contain definitions only. *)
From Coq Require Import List NArith Sorted.
From LV Require Import Noise.Model Noise.Spec.
From LV Require Noise.Proofs Noise.TamperProofs Noise.HsProofs Noise.ConnProofs Noise.MultiProofs.
Import ListNotations.
Local Open Scope N_scope.

(* For any two static and two ephemeral key pairs: if the initiator dials the
   responder's real static key, acts one..three are all accepted, each side's
   send cipher state (key, salt, nonce) equals the other's receive state, and
   the responder learns the initiator's static key.
   Hypotheses: Open(Seal p) = p, |Seal p| = |p| + 16, ECDH commutes,
   parse(ser) = id, |ser| = 33, plain bytes survive the wire. *)
Theorem C11_handshake_agrees :
  forall (K W SK PK : Type) (wb : N -> W) (wv : W -> option N)
         (enc : K -> N -> option K -> list N -> list W)
         (dec : K -> N -> option K -> list W -> option (list N)) (hkdf : K -> option K -> K * K)
         (zeroK h0 : K) (mixb : K -> list N -> K) (mixc : K -> list W -> K)
         (pub : SK -> PK) (dh : SK -> PK -> K) (ser : PK -> list N) (parse : list N -> option PK),
    (forall n : N, wv (wb n) = Some n) ->
    (forall k n ad p, dec k n ad (enc k n ad p) = Some p) ->
    (forall k n ad p, len (enc k n ad p) = len p + mac_size) ->
    (forall p : PK, length (ser p) = 33%nat) ->
    (forall p : PK, parse (ser p) = Some p) ->
    (forall a b : SK, dh a (pub b) = dh b (pub a)) ->
    forall ls rs ei er : SK,
    exists (a1 a2 a3 : list W) (i3 r3 : machine K W SK PK),
      hs_honest K W SK PK wb wv enc dec hkdf zeroK h0 mixb mixc pub dh ser parse ls rs ei er
                (pub rs) = Ok (a1, a2, a3, i3, r3) /\
      m_send K W SK PK i3 = m_recv K W SK PK r3 /\
      m_recv K W SK PK i3 = m_send K W SK PK r3 /\
      m_remote_static K W SK PK r3 = Some (pub ls) /\
      length a1 = 50%nat /\ length a2 = 50%nat /\ length a3 = 66%nat.
Proof. exact HsProofs.handshake_agrees. Qed.

(* Under an ideal, key-binding AEAD and injective ECDH / HKDF:
   (a) dialling any static key other than the responder's makes RecvActOne fail;
   (b) a version byte other than 0 makes every Recv fail;
   (c) act one / act two whose 16 MAC bytes differ in any way from the honest
       ones are refused; (d) act one / act two whose ephemeral key is replaced
       while the MAC is kept are refused.
   Act three (act3_ct m P / act3_tag m le P: the 49 + 16 bytes a responder in
   state m with ephemeral le expects from an initiator with static key P):
   (e) an ACCEPTED act three is byte for byte act3_ct ++ act3_tag of one key
       P, and P is the static key the responder records; so every other 66
       byte string with version 0 is refused;
   (f) the encrypted static key (ciphertext or its MAC) changed in any way,
       final MAC kept: refused (MAC error, or the decrypted key does not parse);
   (g) the final MAC changed in any way: refused.
   Extra hypotheses for (e)-(g): Open(Seal p) = p and a 33-byte string parses
   to at most one point (compressed encoding is canonical). *)
Theorem C11_handshake_rejects :
  forall (K W SK PK : Type) (wb : N -> W) (wv : W -> option N)
         (enc : K -> N -> option K -> list N -> list W)
         (dec : K -> N -> option K -> list W -> option (list N)) (hkdf : K -> option K -> K * K)
         (zeroK h0 : K) (mixb : K -> list N -> K) (mixc : K -> list W -> K)
         (pub : SK -> PK) (dh : SK -> PK -> K) (ser : PK -> list N) (parse : list N -> option PK),
    (forall n : N, wv (wb n) = Some n) ->
    (forall k n ad c p, dec k n ad c = Some p -> c = enc k n ad p) ->
    (forall (k k' : K) n ad ad' p p', enc k n ad p = enc k' n ad' p' -> k = k') ->
    (forall k n ad p, len (enc k n ad p) = len p + mac_size) ->
    (forall p : PK, length (ser p) = 33%nat) ->
    (forall p : PK, parse (ser p) = Some p) ->
    (forall a b : SK, dh a (pub b) = dh b (pub a)) ->
    (forall (a : SK) (P P' : PK), dh a P = dh a P' -> P = P') ->
    (forall s a b : K, snd (hkdf s (Some a)) = snd (hkdf s (Some b)) -> a = b) ->
    (forall k n ad p, dec k n ad (enc k n ad p) = Some p) ->
    (forall (a b : list N) (P : PK),
        length a = 33%nat -> length b = 33%nat -> parse a = Some P -> parse b = Some P -> a = b) ->
    (forall (ls rs ei : SK) (target : PK) (a1 : list W) (i1 : machine K W SK PK),
        target <> pub rs ->
        gen_act_one K W SK PK wb enc hkdf mixb mixc pub dh ser
                    (new_initiator K W SK PK zeroK h0 mixb ser ls target) ei = Ok (a1, i1) ->
        recv_act_one K W SK PK wv dec hkdf mixb mixc dh ser parse
                     (new_responder K W SK PK zeroK h0 mixb pub ser rs) a1 = Err EMac) /\
    (forall (m : machine K W SK PK) (w : W) (rest : list W),
        wv w <> Some handshake_version ->
        recv_act_one K W SK PK wv dec hkdf mixb mixc dh ser parse m (w :: rest) = Err EVersion /\
        recv_act_two K W SK PK wv dec hkdf mixb mixc dh ser parse m (w :: rest) = Err EVersion /\
        recv_act_three K W SK PK wv dec hkdf mixc dh parse m (w :: rest) = Err EVersion) /\
    (forall (m : machine K W SK PK) (e : PK) (tag' : list W),
        length tag' = 16%nat ->
        tag' <> fst (encrypt_and_hash K W enc hkdf mixc
                       (mix_key K hkdf (mix_hash_b K mixb (m_sym K W SK PK m) (ser e))
                                (dh (m_local_static K W SK PK m) e)) nil) ->
        recv_act_one K W SK PK wv dec hkdf mixb mixc dh ser parse m
                     (wb handshake_version :: map wb (ser e) ++ tag') = Err EMac) /\
    (forall (m : machine K W SK PK) (le : SK) (e : PK) (tag' : list W),
        m_local_eph K W SK PK m = Some le ->
        length tag' = 16%nat ->
        tag' <> fst (encrypt_and_hash K W enc hkdf mixc
                       (mix_key K hkdf (mix_hash_b K mixb (m_sym K W SK PK m) (ser e)) (dh le e)) nil) ->
        recv_act_two K W SK PK wv dec hkdf mixb mixc dh ser parse m
                     (wb handshake_version :: map wb (ser e) ++ tag') = Err EMac) /\
    (forall (m : machine K W SK PK) (e e' : PK) (tag : list W),
        e' <> e ->
        tag = fst (encrypt_and_hash K W enc hkdf mixc
                     (mix_key K hkdf (mix_hash_b K mixb (m_sym K W SK PK m) (ser e))
                              (dh (m_local_static K W SK PK m) e)) nil) ->
        recv_act_one K W SK PK wv dec hkdf mixb mixc dh ser parse m
                     (wb handshake_version :: map wb (ser e') ++ tag) = Err EMac) /\
    (forall (m : machine K W SK PK) (le : SK) (e e' : PK) (tag : list W),
        m_local_eph K W SK PK m = Some le ->
        e' <> e ->
        tag = fst (encrypt_and_hash K W enc hkdf mixc
                     (mix_key K hkdf (mix_hash_b K mixb (m_sym K W SK PK m) (ser e)) (dh le e)) nil) ->
        recv_act_two K W SK PK wv dec hkdf mixb mixc dh ser parse m
                     (wb handshake_version :: map wb (ser e') ++ tag) = Err EMac) /\
    (forall (m : machine K W SK PK) (le : SK) (c' t' : list W) (m' : machine K W SK PK),
        m_local_eph K W SK PK m = Some le ->
        length c' = 49%nat -> length t' = 16%nat ->
        recv_act_three K W SK PK wv dec hkdf mixc dh parse m (wb handshake_version :: c' ++ t') = Ok m' ->
        exists P : PK,
          c' = act3_ct K W SK PK enc hkdf mixc ser m P /\
          t' = act3_tag K W SK PK enc hkdf mixc dh ser m le P /\
          m_remote_static K W SK PK m' = Some P) /\
    (forall (m : machine K W SK PK) (le : SK) (P : PK) (c' : list W),
        m_local_eph K W SK PK m = Some le ->
        length c' = 49%nat ->
        c' <> act3_ct K W SK PK enc hkdf mixc ser m P ->
        exists e : err,
          recv_act_three K W SK PK wv dec hkdf mixc dh parse m
            (wb handshake_version :: c' ++ act3_tag K W SK PK enc hkdf mixc dh ser m le P) = Err e /\
          (e = EMac \/ e = EParse)) /\
    (forall (m : machine K W SK PK) (le : SK) (P : PK) (t' : list W),
        m_local_eph K W SK PK m = Some le ->
        length t' = 16%nat ->
        t' <> act3_tag K W SK PK enc hkdf mixc dh ser m le P ->
        recv_act_three K W SK PK wv dec hkdf mixc dh parse m
          (wb handshake_version :: act3_ct K W SK PK enc hkdf mixc ser m P ++ t') = Err EMac).
Proof. exact HsProofs.handshake_rejects. Qed.

(* For EVERY interleaving of WriteMessage calls (any sizes; longer than 65535
   or issued while a message is pending = refused) and Flush calls against a
   writer that takes any number of bytes per Write call and may time out
   (ops : list sop), from any cipher state (any number of key rotations):
   - bytes taken by the writer ++ bytes still buffered = the honest encoding
     (header_i ++ body_i, in order) of the accepted messages: nothing lost,
     duplicated or re-encrypted;
   - the counts returned by Flush sum to the plaintext handed over so far;
   - a peer holding the same cipher state reads back exactly the accepted
     messages, in order; with a message still partly buffered it reads all
     earlier ones and then gets an error, never data.
   Hypotheses: Open(Seal p) = p and |Seal p| = |p| + 16. *)
Theorem C11_stream_roundtrip :
  forall (K W : Type) (enc : K -> N -> option K -> list N -> list W)
         (dec : K -> N -> option K -> list W -> option (list N)) (hkdf : K -> option K -> K * K),
    (forall k n ad p, len (enc k n ad p) = len p + mac_size) ->
    (forall k n ad p, dec k n ad (enc k n ad p) = Some p) ->
    forall (c : cstate K) (ops : list sop),
      let r := srun_all K W enc hkdf c ops in
      let s := r_snd K W r in
      r_wire K W r ++ sn_hdr s ++ sn_body s = fst (ideal_stream K W enc hkdf c (r_accepted K W r)) /\
      sn_cs s = snd (ideal_stream K W enc hkdf c (r_accepted K W r)) /\
      r_counted K W r + (len (sn_body s) - mac_size) = total_len (r_accepted K W r) /\
      (sn_hdr s = nil -> sn_body s = nil ->
       read_n K W dec hkdf (length (r_accepted K W r)) c (r_wire K W r) =
       Some (r_accepted K W r, sn_cs s, nil)) /\
      (sn_hdr s ++ sn_body s <> nil ->
       exists (ms : list (list N)) (p : list N) (part : list W) (c1 : cstate K),
         r_accepted K W r = ms ++ p :: nil /\
         read_n K W dec hkdf (length ms) c (r_wire K W r) = Some (ms, c1, part) /\
         (exists c2 : cstate K, read_message K W dec hkdf c1 part = (Err EEof, c2, nil))).
Proof. exact Proofs.stream_roundtrip. Qed.

(* Over any send history the (rotation epoch, nonce) pairs handed to Seal are
   strictly increasing lexicographically, every nonce is below the rotation
   interval, hence no (epoch, nonce) is used twice.  No hypothesis on the
   crypto.  (Equal KEYS in different epochs would be an HKDF collision.) *)
Theorem C11_nonce_unique :
  forall (K W : Type) (enc : K -> N -> option K -> list N -> list W)
         (dec : K -> N -> option K -> list W -> option (list N))
         (hkdf : K -> option K -> K * K) (c : cstate K) (ops : list sop),
    cs_nonce c < key_rotation_interval ->
    let r := srun_all K W enc hkdf c ops in
    StronglySorted lex_lt (r_used K W r) /\
    Forall (fun p : N * N => snd p < key_rotation_interval) (r_used K W r) /\
    NoDup (r_used K W r).
Proof. intros K W enc dec hkdf. exact (Proofs.nonce_unique K W enc dec hkdf). Qed.

(* Under an ideal AEAD, for ANY byte stream S' handed to the reader (modified,
   truncated, re-ordered, replayed, reflected, spliced ...) that contains no
   forgery (no_forgery: a Seal output under the t-th (key, nonce) of this
   direction occurring in S' is the sender's own t-th one):
   (1) j successful reads return exactly the first j messages sent, and the
       bytes consumed are exactly their honest frames;
   (2) if S' carries the honest frames of the first i messages and then
       anything that does not begin with the honest frame of message i, the
       (i+1)-th read fails: the first affected read never yields data. *)
Theorem C11_tamper_rejected :
  forall (K W : Type) (enc : K -> N -> option K -> list N -> list W)
         (dec : K -> N -> option K -> list W -> option (list N)) (hkdf : K -> option K -> K * K),
    (forall k n ad c p, dec k n ad c = Some p -> c = enc k n ad p) ->
    (forall (j : nat) (c0 : cstate K) (msgs : list (list N)) (S' : list W)
            (qs : list (list N)) (c' : cstate K) (rest : list W),
        no_forgery K W enc hkdf c0 msgs S' (2 * j) ->
        read_n K W dec hkdf j c0 S' = Some (qs, c', rest) ->
        qs = firstn j msgs /\ (j <= length msgs)%nat /\
        S' = fst (ideal_stream K W enc hkdf c0 qs) ++ rest /\
        c' = snd (ideal_stream K W enc hkdf c0 qs)) /\
    (forall (i : nat) (c0 : cstate K) (msgs : list (list N)) (X : list W),
        no_forgery K W enc hkdf c0 msgs
                   (fst (ideal_stream K W enc hkdf c0 (firstn i msgs)) ++ X) (2 * S i) ->
        (forall (m : list N) (rest : list W),
            nth_error msgs i = Some m ->
            X <> fst (frame K W enc hkdf (snd (ideal_stream K W enc hkdf c0 (firstn i msgs))) m) ++ rest) ->
        read_n K W dec hkdf (S i) c0 (fst (ideal_stream K W enc hkdf c0 (firstn i msgs)) ++ X) = None).
Proof.
  intros K W enc dec hkdf H. split.
  - exact (TamperProofs.read_authentic K W enc dec hkdf H).
  - exact (TamperProofs.first_affected_read_fails K W enc dec hkdf H).
Qed.

(* brontide.Conn (conn.go) over the Machine.  For EVERY sequence of
   Conn.Write(b) (any length: one record up to 65535 bytes, else the chunking
   loop), Conn.WriteMessage(b) and Conn.Flush() calls against a net.Conn that
   takes any number of bytes per Write call and may time out at any point
   (ops : list cop), from any cipher state (any number of key rotations):
   (1) bytes taken by the net.Conn ++ bytes still buffered = the honest
       encoding of the records handed to WriteMessage (cn_msgs), in order;
   (2) the counts returned by Write / Flush add up to the plaintext sent;
   (3) one result per call, and the model's chunk loop never runs out of fuel
       (Conn.Write terminates);
   (4) if every call handed over all of its bytes (committed_all), the records
       concatenate to exactly the byte strings written, in order;
   (5) with nothing pending, the peer's Conn.Read calls with ANY sequence of
       buffer sizes ks return what spec_reads computes on the plaintext
       (at most k bytes of the current record, the rest is kept, never across
       a record boundary); the bytes delivered are a prefix of the bytes sent
       and, given enough non-empty reads, all of them.
   Second clause, for a single Conn.Write(b): the records are at most 65535
   bytes, concatenate to a prefix of b, to all of b when no error is returned
   (then the count is len b and nothing stays buffered) or when a one-record
   write is cut short by the net.Conn.
   Hypotheses: Open(Seal p) = p and |Seal p| = |p| + 16. *)
Theorem C11_conn_stream_roundtrip :
  forall (K W : Type) (enc : K -> N -> option K -> list N -> list W)
         (dec : K -> N -> option K -> list W -> option (list N)) (hkdf : K -> option K -> K * K),
    (forall k n ad p, len (enc k n ad p) = len p + mac_size) ->
    (forall k n ad p, dec k n ad (enc k n ad p) = Some p) ->
    (forall (c : cstate K) (ops : list cop),
      let r := crun_all K W enc hkdf c ops in
      let s := cn_snd K W r in
      cn_wire K W r ++ sn_hdr s ++ sn_body s = fst (ideal_stream K W enc hkdf c (cn_msgs K W r)) /\
      sn_cs s = snd (ideal_stream K W enc hkdf c (cn_msgs K W r)) /\
      returned (cn_results K W r) + (len (sn_body s) - mac_size) = len (concat (cn_msgs K W r)) /\
      length (cn_results K W r) = length ops /\
      Forall (fun x : N * cerr => snd x <> CFuel) (cn_results K W r) /\
      (Forall2 committed_all ops (cn_results K W r) ->
       concat (cn_msgs K W r) = concat (map payload ops)) /\
      (sn_hdr s = nil -> sn_body s = nil ->
       forall ks : list N,
         let outs := fst (conn_reads K W dec hkdf ks (mkCR K W c nil (cn_wire K W r))) in
         outs = spec_reads ks nil (cn_msgs K W r) /\
         (exists rest : list N, concat (cn_msgs K W r) = delivered outs ++ rest) /\
         (Forall (fun k : N => 0 < k) ks ->
          (length (concat (cn_msgs K W r)) + length (cn_msgs K W r) <= length ks)%nat ->
          delivered outs = concat (cn_msgs K W r)))) /\
    (forall (s : sender K W) (b : list N) (rs : list wresp),
      let o := conn_write K W enc hkdf s b rs in
      cw_err K W o <> CFuel /\
      Forall (fun m : list N => len m <= max_uint16) (cw_msgs K W o) /\
      exists tail : list N,
        b = concat (cw_msgs K W o) ++ tail /\
        (cw_err K W o = CNone \/ (cw_err K W o = CWriter /\ len b <= max_uint16) -> tail = nil) /\
        (cw_err K W o = CNone ->
         cw_n K W o = len b /\
         (sn_hdr s = nil -> sn_body s = nil ->
          sn_hdr (cw_snd K W o) = nil /\ sn_body (cw_snd K W o) = nil))).
Proof.
  intros K W enc dec hkdf Hlen Hdec. split.
  - exact (ConnProofs.conn_stream_roundtrip K W enc dec hkdf Hlen Hdec).
  - exact (ConnProofs.conn_write_commit K W enc dec hkdf Hlen).
Qed.

(* Several sessions alive in one process.  The process is a list of sender runs
   (one per session, cipher states cs); a schedule is ANY list of (session,
   step), a step being WriteMessage p, Flush with any answers of the writer, or
   releaseBuffers (Conn.ClearPendingSend).  For every session i:
   (1) its state after the whole schedule is the state after its OWN steps
       (proj i sched) alone: nothing another session does - writing, flushing
       partially, releasing, giving a half sent record up - has any influence;
   (2) if each of ITS releases happens with nothing buffered (the redundant
       releases: writeHandler's ClearPendingSend after a message is out), it is
       exactly the single session run of its WriteMessage / Flush calls, so the
       bytes its writer took plus what is still buffered are the honest stream
       of the messages it accepted, and with nothing buffered the peer reads
       back exactly those messages, in order.
   The buffer pools of noise.go are process-wide state OUTSIDE this model;
   the correspondence run (multi-session cases of props/c11.py) is what ties
   the real code to this pool-free behaviour.
   Hypotheses: Open(Seal p) = p and |Seal p| = |p| + 16. *)
Theorem C11_sessions_independent :
  forall (K W : Type) (enc : K -> N -> option K -> list N -> list W)
         (dec : K -> N -> option K -> list W -> option (list N)) (hkdf : K -> option K -> K * K),
    (forall k n ad p, len (enc k n ad p) = len p + mac_size) ->
    (forall k n ad p, dec k n ad (enc k n ad p) = Some p) ->
    forall (cs : list (cstate K)) (sched : list (nat * mop)) (i : nat) (c : cstate K),
      nth_error cs i = Some c ->
      let st := proc_run K W enc hkdf (map (srun_init K W) cs) sched in
      let mine := proj i sched in
      nth_error st i = Some (fold_left (mrun_step K W enc hkdf) mine (srun_init K W c)) /\
      (releases_idle K W enc hkdf (srun_init K W c) mine ->
       let r := srun_all K W enc hkdf c (strip mine) in
       let s := r_snd K W r in
       nth_error st i = Some r /\
       r_wire K W r ++ sn_hdr s ++ sn_body s = fst (ideal_stream K W enc hkdf c (r_accepted K W r)) /\
       (sn_hdr s = nil -> sn_body s = nil ->
        read_n K W dec hkdf (length (r_accepted K W r)) c (r_wire K W r) =
        Some (r_accepted K W r, sn_cs s, nil))).
Proof. exact MultiProofs.sessions_independent. Qed.
