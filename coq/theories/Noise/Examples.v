(* Non-vacuity for the hypothesis-carrying C11 theorems.

   1. The tagging AEAD of Exec.v (the one the correspondence run executes)
      satisfies every AEAD hypothesis: Open(Seal) = id, length, ideal
      (Open succeeds only on the Seal output), key binding.
   2. With a small key universe (bool) and an injective toy HKDF / ECDH all
      hypotheses of C11_handshake_agrees and C11_handshake_rejects
      hold simultaneously; the theorems are instantiated and the conclusions
      are checked not to be trivial by evaluating concrete handshakes.
   3. A concrete replayed stream satisfies no_forgery, C11_tamper_rejected
      applies to it and the read fails.
   6. C11_sessions_independent instantiated; a concrete two-session schedule
      (session 1 gives a half sent record up, session 0 only releases
      redundantly) satisfies releases_idle for session 0 and not for 1.
   5. C11_conn_stream_roundtrip instantiated; a concrete Conn run with a
      chunked write cut short by the net.Conn, a Flush retry, the remainder
      written, and reads in odd buffer sizes. *)
From Coq Require Import List NArith ZArith Bool Lia.
From Coq Require Import ZifyBool ZifyN ZifyNat.
From LV Require Import Noise.Model Noise.Spec Noise.Exec Noise.Proofs Noise.TamperProofs
     Noise.HsProofs Noise.Props.
Import ListNotations.
Local Open Scope N_scope.

(* ---------------- 1. the tagging AEAD ---------------- *)
Lemma bytes_eqb_eq : forall a b, bytes_eqb a b = true <-> a = b.
Proof.
  induction a as [| x a IH]; intros [| y b]; cbn; split; intros H; try discriminate; auto.
  - apply andb_true_iff in H. destruct H as (H1 & H2). apply N.eqb_eq in H1.
    apply IH in H2. subst; reflexivity.
  - inversion H; subst. rewrite N.eqb_refl. cbn. apply IH. reflexivity.
Qed.

Lemma optN_eqb_eq : forall a b, optN_eqb a b = true <-> a = b.
Proof.
  intros [x |] [y |]; cbn; split; intros H; try discriminate; auto.
  - apply N.eqb_eq in H. subst; reflexivity.
  - inversion H. apply N.eqb_refl.
Qed.

Lemma wsym_eqb_eq : forall a b, wsym_eqb a b = true <-> a = b.
Proof.
  intros a b; split.
  - destruct a, b; cbn; intros H; try discriminate; auto.
    + apply N.eqb_eq in H. subst; reflexivity.
    + repeat (apply andb_true_iff in H; destruct H as (H & ?)).
      repeat match goal with X : N.eqb _ _ = true |- _ => apply N.eqb_eq in X end.
      subst; reflexivity.
    + repeat (apply andb_true_iff in H; destruct H as (H & ?)).
      repeat match goal with X : N.eqb _ _ = true |- _ => apply N.eqb_eq in X end.
      match goal with X : optN_eqb _ _ = true |- _ => apply optN_eqb_eq in X end.
      match goal with X : bytes_eqb _ _ = true |- _ => apply bytes_eqb_eq in X end.
      subst; reflexivity.
  - intros <-. destruct a; cbn; rewrite ?N.eqb_refl; cbn; auto.
    assert (E1 : optN_eqb ad ad = true) by (apply optN_eqb_eq; reflexivity).
    assert (E2 : bytes_eqb p p = true) by (apply bytes_eqb_eq; reflexivity).
    rewrite E1, E2. reflexivity.
Qed.

Lemma wlist_eqb_eq : forall a b, wlist_eqb a b = true <-> a = b.
Proof.
  induction a as [| x a IH]; intros [| y b]; cbn; split; intros H; try discriminate; auto.
  - apply andb_true_iff in H. destruct H as (H1 & H2). apply wsym_eqb_eq in H1.
    apply IH in H2. subst; reflexivity.
  - inversion H; subst. apply andb_true_iff. split; [apply wsym_eqb_eq | apply IH]; reflexivity.
Qed.

Lemma enc_body_length : forall p k n i, length (enc_body k n i p) = length p.
Proof. induction p as [| b p IH]; intros; cbn; [reflexivity |]. rewrite IH. reflexivity. Qed.

Lemma dec_body_enc_body : forall p k n i, dec_body k n i (enc_body k n i p) = Some p.
Proof.
  induction p as [| b p IH]; intros; cbn; [reflexivity |].
  rewrite !N.eqb_refl. cbn. rewrite IH. reflexivity.
Qed.

Lemma dec_body_sound : forall ws k n i p, dec_body k n i ws = Some p -> ws = enc_body k n i p.
Proof.
  induction ws as [| w ws IH]; intros k n i p H; cbn in H.
  - inversion H; reflexivity.
  - destruct w as [b | k' n' i' b | |]; try discriminate.
    destruct (N.eqb_spec k k'); [| discriminate]. destruct (N.eqb_spec n n'); [| discriminate].
    destruct (N.eqb_spec i i'); [| discriminate]. cbn in H.
    destruct (dec_body k n (i + 1) ws) as [bs |] eqn:E; [| discriminate].
    inversion H; subst. cbn. f_equal. apply IH. exact E.
Qed.

Lemma t_enc_length : forall k n ad p, length (t_enc k n ad p) = (length p + 16)%nat.
Proof. intros. unfold t_enc. rewrite app_length, enc_body_length, map_length. reflexivity. Qed.

Lemma t_enc_len : forall k n ad p, len (t_enc k n ad p) = len p + mac_size.
Proof. intros. unfold len, mac_size. rewrite t_enc_length. lia. Qed.

Lemma t_dec_enc : forall k n ad p, t_dec k n ad (t_enc k n ad p) = Some p.
Proof.
  intros k n ad p. unfold t_dec. rewrite t_enc_length.
  destruct (Nat.ltb_spec (length p + 16) 16); [lia |].
  replace (length p + 16 - 16)%nat with (length (enc_body k n 0 p))
    by (rewrite enc_body_length; lia).
  unfold t_enc. rewrite firstn_app_len, skipn_app_len by reflexivity.
  rewrite dec_body_enc_body.
  assert (E : wlist_eqb (map (WM k n ad p) mac_idx) (map (WM k n ad p) mac_idx) = true)
    by (apply wlist_eqb_eq; reflexivity).
  rewrite E. reflexivity.
Qed.

Lemma t_ideal : forall k n ad c p, t_dec k n ad c = Some p -> c = t_enc k n ad p.
Proof.
  intros k n ad c p H. unfold t_dec in H.
  destruct (Nat.ltb (length c) 16); [discriminate |].
  destruct (dec_body k n 0 (firstn (length c - 16) c)) as [p' |] eqn:Eb; [| discriminate].
  destruct (wlist_eqb (skipn (length c - 16) c) (map (WM k n ad p') mac_idx)) eqn:Em;
    [| discriminate].
  inversion H; subst p'. apply dec_body_sound in Eb. apply wlist_eqb_eq in Em.
  unfold t_enc. rewrite <- Eb, <- Em. symmetry. apply firstn_skipn.
Qed.

Definition wsym_key (w : wsym) : option N :=
  match w with WE k _ _ _ => Some k | WM k _ _ _ _ => Some k | _ => None end.

Lemma t_enc_hd_key : forall k n ad p, option_map wsym_key (hd_error (t_enc k n ad p)) = Some (Some k).
Proof. intros k n ad [| b p]; reflexivity. Qed.

Lemma t_enc_key_inj : forall k k' n ad ad' p p', t_enc k n ad p = t_enc k' n ad' p' -> k = k'.
Proof.
  intros k k' n ad ad' p p' H.
  pose proof (t_enc_hd_key k n ad p) as H1. rewrite H, t_enc_hd_key in H1.
  inversion H1; reflexivity.
Qed.

(* the hypotheses of C11_stream_roundtrip hold for what Exec.v runs *)
Example ex_stream_roundtrip :=
  C11_stream_roundtrip N wsym t_enc t_dec t_hkdf t_enc_len t_dec_enc.

(* a concrete sender run: two messages, a writer that takes the header in two
   pieces and times out inside the MAC; the wire carries the honest stream and
   the peer reads both messages back *)
Definition ex_c0 : cstate N := mkCS 998 5 6 0.     (* two Seal calls before a rotation *)
Definition ex_ops : list sop :=
  [SWrite [1; 2; 3]; SFlush (7, false) (0, false); SFlush (100, false) (10, false);
   SWrite [9]; SFlush (100, false) (100, false); SWrite [4; 4]; SFlush (100, false) (100, false)].
Example ex_run_nontrivial :
  let r := srun_all N wsym t_enc t_hkdf ex_c0 ex_ops in
  r_accepted N wsym r = [[1; 2; 3]; [4; 4]] /\ r_counted N wsym r = 5 /\
  map fst (r_used N wsym r) = [0; 0; 1; 1] /\ map snd (r_used N wsym r) = [998; 999; 0; 1] /\
  read_n N wsym t_dec t_hkdf 2 ex_c0 (r_wire N wsym r)
  = Some ([[1; 2; 3]; [4; 4]], sn_cs (r_snd N wsym r), []).
Proof. vm_compute. repeat split; reflexivity. Qed.

(* ---------------- 2. handshake hypotheses, jointly ---------------- *)
Definition e_hkdf (s : N) (i : option N) : N * N :=
  match i with None => (s + 1, 0) | Some a => (s + 2 * a + 5, a + 1) end.
Definition e_pub (b : bool) : bool := b.
Definition e_dh (a P : bool) : N := if xorb a P then 1 else 0.
Definition e_ser (P : bool) : list N := (if P then 3 else 2) :: repeat 0 32.
Definition e_parse (bs : list N) : option bool :=
  if bytes_eqb bs (e_ser false) then Some false
  else if bytes_eqb bs (e_ser true) then Some true else None.

Lemma e_wv_wb : forall n, t_wv (t_wb n) = Some n. Proof. reflexivity. Qed.
Lemma e_ser_len : forall p, length (e_ser p) = 33%nat. Proof. intros []; reflexivity. Qed.
Lemma e_parse_ser : forall p, e_parse (e_ser p) = Some p. Proof. intros []; reflexivity. Qed.
Lemma e_dh_comm : forall a b, e_dh a (e_pub b) = e_dh b (e_pub a).
Proof. intros [] []; reflexivity. Qed.
Lemma e_dh_inj : forall a P P', e_dh a P = e_dh a P' -> P = P'.
Proof. intros [] [] []; cbn; intros H; try reflexivity; discriminate. Qed.
Lemma e_hkdf_inj : forall s a b, snd (e_hkdf s (Some a)) = snd (e_hkdf s (Some b)) -> a = b.
Proof. intros s a b H. cbn in H. lia. Qed.

Example ex_handshake_agrees :=
  C11_handshake_agrees N wsym bool bool t_wb t_wv t_enc t_dec e_hkdf t_zero t_h0 t_mixb t_mixc
                       e_pub e_dh e_ser e_parse
                       e_wv_wb t_dec_enc t_enc_len e_ser_len e_parse_ser e_dh_comm.

Lemma e_parse_inj : forall (a b : list N) (P : bool),
    length a = 33%nat -> length b = 33%nat -> e_parse a = Some P -> e_parse b = Some P -> a = b.
Proof.
  assert (H : forall a P, e_parse a = Some P -> a = e_ser P).
  { intros a P. unfold e_parse.
    destruct (bytes_eqb a (e_ser false)) eqn:E1.
    - intros H; inversion H; subst. apply bytes_eqb_eq. exact E1.
    - destruct (bytes_eqb a (e_ser true)) eqn:E2; [| discriminate].
      intros H; inversion H; subst. apply bytes_eqb_eq. exact E2. }
  intros a b P _ _ Ha Hb. rewrite (H a P Ha), (H b P Hb). reflexivity.
Qed.

Example ex_handshake_rejects :=
  C11_handshake_rejects N wsym bool bool t_wb t_wv t_enc t_dec e_hkdf t_zero t_h0
                        t_mixb t_mixc e_pub e_dh e_ser e_parse
                        e_wv_wb t_ideal t_enc_key_inj t_enc_len e_ser_len e_parse_ser
                        e_dh_comm e_dh_inj e_hkdf_inj t_dec_enc e_parse_inj.

(* the conclusions are not trivially true: the handshake does run, the keys
   are non-zero and differ per direction; dialling the other key fails at act
   one with a MAC error *)
Definition e_hs target :=
  hs_honest N wsym bool bool t_wb t_wv t_enc t_dec e_hkdf t_zero t_h0 t_mixb t_mixc
            e_pub e_dh e_ser e_parse true false true false target.

Example ex_hs_runs :
  match e_hs (e_pub false) with
  | Ok (a1, a2, a3, i3, r3) =>
    cs_key (m_send _ _ _ _ i3) <> cs_key (m_recv _ _ _ _ i3) /\
    cs_key (m_send _ _ _ _ i3) = cs_key (m_recv _ _ _ _ r3) /\
    cs_key (m_send _ _ _ _ i3) <> 0
  | Err _ => False
  end.
Proof. vm_compute. repeat split; discriminate. Qed.

Example ex_hs_wrong_key : e_hs (e_pub true) = Err EMac.
Proof. vm_compute. reflexivity. Qed.

(* act three: the honest initiator's act three IS wb 0 :: act3_ct ++ act3_tag
   of its static key, computed from the responder's state after act two (so
   clauses (e)-(g) of C11_handshake_rejects speak about the real act); with one
   byte of the final MAC / of the encrypted key changed it is refused *)
Definition e_r2_a3 : option (machine N wsym bool bool * list wsym) :=
  match gen_act_one N wsym bool bool t_wb t_enc e_hkdf t_mixb t_mixc e_pub e_dh e_ser
          (new_initiator N wsym bool bool t_zero t_h0 t_mixb e_ser true (e_pub false)) true with
  | Ok (a1, i1) =>
    match recv_act_one N wsym bool bool t_wv t_dec e_hkdf t_mixb t_mixc e_dh e_ser e_parse
            (new_responder N wsym bool bool t_zero t_h0 t_mixb e_pub e_ser false) a1 with
    | Ok r1 =>
      match gen_act_two N wsym bool bool t_wb t_enc e_hkdf t_mixb t_mixc e_pub e_dh e_ser r1 false with
      | Ok (a2, r2) =>
        match recv_act_two N wsym bool bool t_wv t_dec e_hkdf t_mixb t_mixc e_dh e_ser e_parse i1 a2 with
        | Ok i2 =>
          match gen_act_three N wsym bool bool t_wb t_enc e_hkdf t_mixc e_pub e_dh e_ser i2 with
          | Ok (a3, _) => Some (r2, a3)
          | Err _ => None
          end
        | Err _ => None
        end
      | Err _ => None
      end
    | Err _ => None
    end
  | Err _ => None
  end.

Example ex_act3_shape :
  match e_r2_a3 with
  | Some (r2, a3) =>
    m_local_eph _ _ _ _ r2 = Some false /\
    a3 = t_wb 0 :: act3_ct N wsym bool bool t_enc e_hkdf t_mixc e_ser r2 (e_pub true)
                ++ act3_tag N wsym bool bool t_enc e_hkdf t_mixc e_dh e_ser r2 false (e_pub true) /\
    (exists r3, recv_act_three N wsym bool bool t_wv t_dec e_hkdf t_mixc e_dh e_parse r2 a3 = Ok r3) /\
    recv_act_three N wsym bool bool t_wv t_dec e_hkdf t_mixc e_dh e_parse r2 (set_nth 65 WX a3) = Err EMac /\
    recv_act_three N wsym bool bool t_wv t_dec e_hkdf t_mixc e_dh e_parse r2 (set_nth 1 WX a3) = Err EMac /\
    recv_act_three N wsym bool bool t_wv t_dec e_hkdf t_mixc e_dh e_parse r2 (set_nth 49 WX a3) = Err EMac
  | None => False
  end.
Proof. vm_compute. repeat split; try reflexivity. eexists; reflexivity. Qed.

(* ---------------- 3. a replayed frame ---------------- *)
Definition ex_msgs : list (list N) := [[1; 2]; [3]].
Definition ex_k0 : cstate N := mkCS 0 5 6 0.
Definition ex_frame0 : list wsym := fst (frame N wsym t_enc t_hkdf ex_k0 [1; 2]).
(* frame 0 followed by frame 0 again instead of frame 1 *)
Definition ex_replayed : list wsym := ex_frame0 ++ ex_frame0.

Lemma ex_no_forgery : no_forgery N wsym t_enc t_hkdf ex_k0 ex_msgs ex_replayed 4.
Proof.
  intros t pre post p Ht E.
  assert (Hin : In (WM (cs_key (chain N t_hkdf ex_k0 t)) (cs_nonce (chain N t_hkdf ex_k0 t)) None p 0)
                   ex_replayed).
  { rewrite E. apply in_or_app; right. apply in_or_app; left. unfold t_enc.
    apply in_or_app; right. cbn. left; reflexivity. }
  destruct t as [| [| [| [| t]]]]; [| | | | lia];
    vm_compute in Hin;
    repeat (destruct Hin as [Hin | Hin]; [try discriminate; try (inversion Hin; subst; reflexivity) |]);
    try contradiction.
Qed.

(* C11_tamper_rejected applies: the second read (of the replayed frame) fails *)
Example ex_replay_rejected : read_n N wsym t_dec t_hkdf 2 ex_k0 ex_replayed = None.
Proof.
  destruct (C11_tamper_rejected N wsym t_enc t_dec t_hkdf t_ideal) as (_ & H).
  specialize (H 1%nat ex_k0 ex_msgs ex_frame0).
  apply H.
  - exact ex_no_forgery.
  - intros m rest Hm. inversion Hm; subst m. intros E.
    assert (Hh : hd_error ex_frame0
                 = hd_error (fst (frame N wsym t_enc t_hkdf
                                        (snd (ideal_stream N wsym t_enc t_hkdf ex_k0 (firstn 1 ex_msgs)))
                                        [3]) ++ rest)).
    { rewrite <- E. reflexivity. }
    vm_compute in Hh. discriminate.
Qed.

(* the first read of the same stream does return message 0 *)
Example ex_replay_first_ok :
  exists c rest, read_n N wsym t_dec t_hkdf 1 ex_k0 ex_replayed = Some ([[1; 2]], c, rest).
Proof. vm_compute. eauto. Qed.

(* ---------------- 4. what is NOT true: reads after a failed read ---------------- *)
(* C11_tamper_rejected speaks about the reads up to and including the first
   failing one.  The stronger clause "no LATER read ever returns bytes that
   were not sent as a message" is refuted by the faithful model: after a
   corrupted length header the next ReadMessage decrypts the 18-byte body of
   the 2-byte message [0;2] as a header and then returns the next header's
   plaintext.  Replayed on the real Machine by the harness ("confusion" case,
   every run).  lnd's peer closes the connection on the first read error. *)
Definition ex_conf_msgs : list (list N) := [[0; 2]; [7; 7; 7]].
Definition ex_conf_stream : list wsym :=
  set_nth 0 WX (fst (ideal_stream N wsym t_enc t_hkdf ex_k0 ex_conf_msgs)).

Example C11_later_reads_authentic_refuted :
  exists c1 rest1 c2 rest2 q,
    read_message N wsym t_dec t_hkdf ex_k0 ex_conf_stream = (Err EMac, c1, rest1) /\
    read_message N wsym t_dec t_hkdf c1 rest1 = (Ok q, c2, rest2) /\
    ~ In q ex_conf_msgs.
Proof.
  do 5 eexists. split; [vm_compute; reflexivity |]. split; [vm_compute; reflexivity |].
  cbn. intros [H | [H | []]]; discriminate.
Qed.

(* ---------------- 5. brontide.Conn ---------------- *)
Example ex_conn_stream_roundtrip :=
  C11_conn_stream_roundtrip N wsym t_enc t_dec t_hkdf t_enc_len t_dec_enc.

(* Conn.Write of 65540 bytes: the net.Conn takes the first header and 30 bytes
   of the first body, then times out (count 30, error); Conn.Flush sends the
   rest of the record (count 65505); the caller writes the remaining 5 bytes,
   then 3 more.  Two Seal calls before a key rotation at the start.  The peer
   reads with buffer sizes 10, 70000, 70000, 2, 70000, 1: it gets 10 bytes,
   the remaining 65525 of the first record (never more than one record), the
   5-byte record, 2 bytes, 1 byte, and io.EOF. *)
Definition ex_b1 : list N := seq_bytes (N.to_nat 65540) 0.
Definition ex_cops : list cop :=
  [CoWrite ex_b1 [(100, false); (30, false)]; CoFlush [];
   CoWrite (skipN 65535 ex_b1) []; CoWrite [1; 2; 3] []].
Definition cerr_eqb (a b : cerr) : bool := N.eqb (cerr_code a) (cerr_code b).
Fixpoint results_eqb (a b : list (N * cerr)) : bool :=
  match a, b with
  | [], [] => true
  | (n, e) :: a', (n', e') :: b' => N.eqb n n' && cerr_eqb e e' && results_eqb a' b'
  | _, _ => false
  end.
Definition ex_conn_check : bool :=
  let r := crun_all N wsym t_enc t_hkdf ex_c0 ex_cops in
  let outs := fst (conn_reads N wsym t_dec t_hkdf [10; 70000; 70000; 2; 70000; 1]
                              (mkCR N wsym ex_c0 [] (cn_wire N wsym r))) in
  results_eqb (cn_results N wsym r) [(30, CWriter); (65505, CNone); (5, CNone); (3, CNone)] &&
  bytes_eqb (map (@len N) (cn_msgs N wsym r)) [65535; 5; 3] &&
  N.eqb (len (sn_hdr (cn_snd N wsym r)) + len (sn_body (cn_snd N wsym r))) 0 &&
  N.eqb (cs_epoch (sn_cs (cn_snd N wsym r))) 1 &&
  bytes_eqb (map (fun o => match o with Ok p => len p + 1 | Err _ => 0 end) outs)
            [11; 65526; 6; 3; 2; 0] &&
  bytes_eqb (delivered outs) (ex_b1 ++ [1; 2; 3]).
Example ex_conn_run : ex_conn_check = true.
Proof. vm_compute. reflexivity. Qed.

(* ---------------- 6. several sessions in one process ---------------- *)
Example ex_sessions_independent :=
  C11_sessions_independent N wsym t_enc t_dec t_hkdf t_enc_len t_dec_enc.

(* session 0: write, flush, redundant release, write, header + 1 body byte,
   [session 1 writes and flushes 5 header bytes, then gives the record up],
   resumed flush, redundant release.  Session 0's releases are idle, session
   1's is not; session 0's peer reads both messages; session 1 is torn. *)
Definition ex_sched : list (nat * mop) :=
  [(0%nat, MOp (SWrite [1; 2])); (0%nat, MOp (SFlush (100, false) (100, false))); (0%nat, MRelease);
   (0%nat, MOp (SWrite [3; 4; 5])); (0%nat, MOp (SFlush (100, false) (1, false)));
   (1%nat, MOp (SWrite [7; 7])); (1%nat, MOp (SFlush (5, false) (0, false))); (1%nat, MRelease);
   (0%nat, MOp (SFlush (100, false) (100, false))); (0%nat, MRelease); (0%nat, MOp (SFlush (100, false) (100, false)))].
Definition ex_cs : list (cstate N) := [mkCS 998 5 6 0; mkCS 0 8 9 0].

Example ex_sched_idle :
  releases_idle N wsym t_enc t_hkdf (srun_init N wsym (mkCS 998 5 6 0)) (proj 0 ex_sched) /\
  ~ releases_idle N wsym t_enc t_hkdf (srun_init N wsym (mkCS 0 8 9 0)) (proj 1 ex_sched).
Proof.
  split.
  - vm_compute. repeat split; reflexivity.
  - vm_compute. intros (_ & _ & (H & _) & _). discriminate H.
Qed.

Example ex_sched_run :
  match proc_run N wsym t_enc t_hkdf (map (srun_init N wsym) ex_cs) ex_sched with
  | [r0; r1] =>
    r_accepted N wsym r0 = [[1; 2]; [3; 4; 5]] /\
    read_n N wsym t_dec t_hkdf 2 (mkCS 998 5 6 0) (r_wire N wsym r0)
    = Some ([[1; 2]; [3; 4; 5]], sn_cs (r_snd N wsym r0), []) /\
    length (r_wire N wsym r1) = 5%nat /\ sn_body (r_snd N wsym r1) = []
  | _ => False
  end.
Proof. vm_compute. repeat split; reflexivity. Qed.
