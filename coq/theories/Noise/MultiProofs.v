(* C11: several sessions alive in one process.  The model has no state shared
   between sessions, so the run of a process is, session by session, the run
   of that session's own steps; redundant releases can be erased; hence
   C11_stream_roundtrip holds for every session whatever the others do. *)
From Coq Require Import List NArith Bool Arith.
From LV Require Import Noise.Model Noise.Spec Noise.Proofs.
Import ListNotations.
Local Open Scope N_scope.

Lemma upd_nth_same : forall A (f : A -> A) (l : list A) i,
    nth_error (upd_nth i f l) i = option_map f (nth_error l i).
Proof.
  induction l as [| x l IH]; intros [| i]; cbn; auto.
Qed.

Lemma upd_nth_other : forall A (f : A -> A) (l : list A) i j,
    i <> j -> nth_error (upd_nth j f l) i = nth_error l i.
Proof.
  induction l as [| x l IH]; intros [| i] [| j] Hne; cbn; auto.
  - congruence.
Qed.

Section MultiProofs.
  Variables (K W : Type).
  Variable enc : K -> N -> option K -> list N -> list W.
  Variable dec : K -> N -> option K -> list W -> option (list N).
  Variable hkdf : K -> option K -> K * K.

  Lemma proc_run_proj : forall sched (st : list (srun K W)) i r,
      nth_error st i = Some r ->
      nth_error (proc_run K W enc hkdf st sched) i =
      Some (fold_left (mrun_step K W enc hkdf) (proj i sched) r).
  Proof.
    induction sched as [| [j o] sched IH]; intros st i r Hn; [exact Hn |].
    unfold proc_run in *. cbn [fold_left]. unfold proj. cbn [filter fst].
    destruct (Nat.eqb j i) eqn:E.
    - apply Nat.eqb_eq in E. subst j. cbn [map snd fold_left].
      apply IH. unfold proc_step. cbn [fst snd]. rewrite upd_nth_same, Hn. reflexivity.
    - apply Nat.eqb_neq in E. apply IH. unfold proc_step. cbn [fst snd].
      rewrite upd_nth_other by congruence. exact Hn.
  Qed.

  Lemma release_idle_id : forall r : srun K W,
      sn_hdr (r_snd K W r) = [] -> sn_body (r_snd K W r) = [] -> srun_release K W r = r.
  Proof.
    intros [[c h b] w a n u] Hh Hb. cbn in *. subst. reflexivity.
  Qed.

  Lemma strip_run : forall ops (r : srun K W),
      releases_idle K W enc hkdf r ops ->
      fold_left (mrun_step K W enc hkdf) ops r = fold_left (srun_step K W enc hkdf) (strip ops) r.
  Proof.
    induction ops as [| [o |] ops IH]; intros r H; [reflexivity | |].
    - cbn [fold_left strip]. apply IH. exact (proj2 H).
    - destruct H as ((Hh & Hb) & Hr). cbn [fold_left strip mrun_step] in *.
      rewrite (release_idle_id r Hh Hb) in *. apply IH. exact Hr.
  Qed.

  Hypothesis enc_len : forall k n ad p, len (enc k n ad p) = len p + mac_size.
  Hypothesis dec_enc : forall k n ad p, dec k n ad (enc k n ad p) = Some p.

  Theorem sessions_independent :
    forall (cs : list (cstate K)) (sched : list (nat * mop)) (i : nat) (c : cstate K),
      nth_error cs i = Some c ->
      let st := proc_run K W enc hkdf (map (srun_init K W) cs) sched in
      let mine := proj i sched in
      nth_error st i = Some (fold_left (mrun_step K W enc hkdf) mine (srun_init K W c)) /\
      (releases_idle K W enc hkdf (srun_init K W c) mine ->
       let r := srun_all K W enc hkdf c (strip mine) in
       let s := r_snd K W r in
       nth_error st i = Some r /\
       r_wire K W r ++ sn_hdr s ++ sn_body s = fst (ideal_stream K W enc hkdf c (r_accepted K W r)) /\
       (sn_hdr s = nil -> sn_body s = nil ->
        read_n K W dec hkdf (length (r_accepted K W r)) c (r_wire K W r) =
        Some (r_accepted K W r, sn_cs s, nil))).
  Proof.
    intros cs sched i c Hc st mine.
    assert (Hst : nth_error st i =
                  Some (fold_left (mrun_step K W enc hkdf) mine (srun_init K W c))).
    { apply proc_run_proj. rewrite nth_error_map, Hc. reflexivity. }
    split; [exact Hst |].
    intros Hidle r s.
    pose proof (stream_roundtrip K W enc dec hkdf enc_len dec_enc c (strip mine)) as SR.
    cbv zeta in SR. destruct SR as (S1 & _ & _ & S4 & _).
    split; [| split].
    - rewrite Hst. f_equal. apply strip_run. exact Hidle.
    - exact S1.
    - exact S4.
  Qed.
End MultiProofs.
