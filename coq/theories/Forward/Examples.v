(* C08 — non-vacuity: the hypotheses of the theorems are satisfiable by
   concrete, non-trivial runs (evaluated with an identity-like toy hash). *)
From Coq Require Import List NArith ZArith Bool.
From LV Require Import Forward.Model.
Import ListNotations.
Local Open Scope N_scope.

Definition Ht (p : N) : N := p + 1000.
Definition b0 (ch : N) : Z := match ch with 1 => 5000000%Z | 2 => 3000000%Z | _ => 0%Z end.

(* circuit A: forwarded 1->2, settled downstream, settled upstream (fee 1000);
   circuit B: forwarded 2->1, failed downstream, failed back;
   circuit C: rejected by the switch (never committed), failed back;
   circuit D: outgoing add lost in a restart, re-forward fails it back. *)
Definition evs : list event := [
  ELockIn (1,0) (Ht 7) 101000 100000 2;
  ELockIn (2,0) (Ht 9) 51000 50000 1;
  ELockIn (1,1) (Ht 11) 4000 3000 2;
  ECirc (1,0) (AFwd FAdd); ECirc (2,0) (AFwd FAdd); ECirc (1,1) (AFwd FAdd);
  ECirc (1,1) ASwitchFail;
  ECirc (1,0) (AOutAdd (2,0)); ECirc (2,0) (AOutAdd (1,0));
  ECirc (1,0) (AOpen (2,0)); ESig 2;
  ECirc (2,0) (AOpen (1,0)); ESig 1;
  ECirc (1,1) AInFail;
  ECirc (1,0) (AOutSettle (2,0) 7);
  ECirc (1,0) (AClose (2,0));
  ECirc (2,0) (AOutFail (1,0));
  ECirc (2,0) (AClose (1,0));
  ECirc (1,0) (AInSettle 7); ECirc (2,0) AInFail;
  ESig 1; ESig 2;
  ELockIn (1,2) (Ht 13) 8000 7000 2;
  ECirc (1,2) (AFwd FAdd); ECirc (1,2) (AOutAdd (2,1));
  ERestart;
  ECirc (1,2) (AFwd FFail); ECirc (1,2) AInFail; ESig 1
].

Definition final := run Ht (init b0) evs.

Example accepted_and_quiescent :
  match final with Some st => quiescent st | None => false end = true.
Proof. vm_compute. reflexivity. Qed.

Example four_circuits_one_success :
  match final with
  | Some st => (length (circs st), fees_earned st, bal st 1, bal st 2)
  | None => (O, 0%Z, 0%Z, 0%Z)
  end = (4%nat, 1000%Z, 5101000%Z, 2900000%Z).
Proof. vm_compute. reflexivity. Qed.

(* hypotheses of C08_settle_needs_preimage / C08_fail_back_* are inhabited *)
Example has_settled_and_failed :
  match final with
  | Some st => (existsb succeeded (circs st), existsb in_failed (circs st))
  | None => (false, false)
  end = (true, true).
Proof. vm_compute. reflexivity. Qed.

(* the guards bite: settling upstream before the downstream settle, failing
   back a committed live HTLC, or signing without a keystone are rejected *)
Example early_settle_rejected :
  run Ht (init b0) [ELockIn (1,0) (Ht 7) 101000 100000 2; ECirc (1,0) (AFwd FAdd);
                    ECirc (1,0) (AOutAdd (2,0)); ECirc (1,0) (AOpen (2,0)); ESig 2;
                    ECirc (1,0) (AInSettle 7)] = None.
Proof. vm_compute. reflexivity. Qed.

Example wrong_preimage_rejected :
  run Ht (init b0) [ELockIn (1,0) (Ht 7) 101000 100000 2; ECirc (1,0) (AFwd FAdd);
                    ECirc (1,0) (AOutAdd (2,0)); ECirc (1,0) (AOpen (2,0)); ESig 2;
                    ECirc (1,0) (AOutSettle (2,0) 8)] = None.
Proof. vm_compute. reflexivity. Qed.

Example early_fail_rejected :
  run Ht (init b0) [ELockIn (1,0) (Ht 7) 101000 100000 2; ECirc (1,0) (AFwd FAdd);
                    ECirc (1,0) (AOutAdd (2,0)); ECirc (1,0) (AOpen (2,0)); ESig 2;
                    ECirc (1,0) (AClose (2,0))] = None.
Proof. vm_compute. reflexivity. Qed.

Example sig_without_keystone_rejected :
  run Ht (init b0) [ELockIn (1,0) (Ht 7) 101000 100000 2; ECirc (1,0) (AFwd FAdd);
                    ECirc (1,0) (AOutAdd (2,0)); ESig 2] = None.
Proof. vm_compute. reflexivity. Qed.

(* ---- single-link restarts (peer disconnect / reconnect): the switch, circuit
   map and mailboxes survive.  Circuit (1,0): its unsigned outgoing add is lost
   with the restart of link 2 (keystone trimmed), re-delivered by the mailbox
   and added again under the same HTLC id; after the downstream settle the
   unsigned upstream settle is lost with the restart of link 1 and applied
   again from the mailbox; the retransmitted update_fulfill is idempotent. *)
Definition evs_link : list event := [
  ELockIn (1,0) (Ht 7) 101000 100000 2;
  ECirc (1,0) (AFwd FAdd); ECirc (1,0) (AOutAdd (2,0)); ECirc (1,0) (AOpen (2,0));
  ELinkRestart 2;
  ECirc (1,0) (AOutAdd (2,0)); ECirc (1,0) (AOpen (2,0)); ESig 2;
  ELinkRestart 1; ECirc (1,0) (AFwd FDrop);
  ECirc (1,0) (AOutSettle (2,0) 7); ECirc (1,0) (AClose (2,0));
  ECirc (1,0) (AInSettle 7);
  ELinkRestart 1;
  ELinkRestart 2; ECirc (1,0) (AOutSettle (2,0) 7);
  ECirc (1,0) (AInSettle 7); ESig 1
].

Example link_restarts_accepted_quiescent_balanced :
  match run Ht (init b0) evs_link with
  | Some st => (quiescent st, fees_earned st, bal st 1, bal st 2)
  | None => (false, 0%Z, 0%Z, 0%Z)
  end = (true, 1000%Z, 5101000%Z, 2900000%Z).
Proof. vm_compute. reflexivity. Qed.

(* after the restart of the outgoing link the lost add is really gone: a
   signature cannot commit it before it has been added again *)
Example lost_add_not_committed :
  match run Ht (init b0) [ELockIn (1,0) (Ht 7) 101000 100000 2; ECirc (1,0) (AFwd FAdd);
                          ECirc (1,0) (AOutAdd (2,0)); ECirc (1,0) (AOpen (2,0));
                          ELinkRestart 2; ESig 2] with
  | Some st => map os (circs st)
  | None => []
  end = [ONone].
Proof. vm_compute. reflexivity. Qed.

(* ... and a retransmitted update_fulfill with a DIFFERENT preimage is refused *)
Example other_preimage_on_retransmit_rejected :
  run Ht (init b0) [ELockIn (1,0) (Ht 7) 101000 100000 2; ECirc (1,0) (AFwd FAdd);
                    ECirc (1,0) (AOutAdd (2,0)); ECirc (1,0) (AOpen (2,0)); ESig 2;
                    ECirc (1,0) (AOutSettle (2,0) 7); ELinkRestart 2;
                    ECirc (1,0) (AOutSettle (2,0) 8)] = None.
Proof. vm_compute. reflexivity. Qed.

(* C08-F2 repair: the packet of a freshly committed circuit is abandoned when
   the incoming link stops, the circuit is removed again and the replay
   forwards the add afresh; an abandon is refused once the packet has reached
   the outgoing link. *)
Example abandon_then_forward_again :
  match run Ht (init b0) [ELockIn (1,0) (Ht 7) 101000 100000 2; ECirc (1,0) (AFwd FAdd);
                          ECirc (1,0) AAbandon; ELinkRestart 1; ECirc (1,0) (AFwd FAdd);
                          ECirc (1,0) (AOutAdd (2,0)); ECirc (1,0) (AOpen (2,0)); ESig 2;
                          ECirc (1,0) (AOutSettle (2,0) 7); ECirc (1,0) (AClose (2,0));
                          ECirc (1,0) (AInSettle 7); ESig 1] with
  | Some st => (quiescent st, fees_earned st)
  | None => (false, 0%Z)
  end = (true, 1000%Z).
Proof. vm_compute. reflexivity. Qed.

Example abandon_after_add_rejected :
  run Ht (init b0) [ELockIn (1,0) (Ht 7) 101000 100000 2; ECirc (1,0) (AFwd FAdd);
                    ECirc (1,0) (AOutAdd (2,0)); ECirc (1,0) AAbandon] = None.
Proof. vm_compute. reflexivity. Qed.
