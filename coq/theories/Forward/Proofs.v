(* C08 — invariants of the forwarding model and the lemmas behind Props.v. *)
From Coq Require Import List NArith ZArith Bool Lia.
From LV Require Import Forward.Model.
Import ListNotations.
Local Open Scope N_scope.

Lemma key_eqb_eq : forall a b : key, key_eqb a b = true <-> a = b.
Proof.
  intros [a1 a2] [b1 b2]; unfold key_eqb; cbn [fst snd].
  rewrite andb_true_iff, !N.eqb_eq. split.
  - intros [-> ->]; reflexivity.
  - intros E; inversion E; auto.
Qed.

Lemma key_eqb_refl : forall a, key_eqb a a = true.
Proof. intros; apply key_eqb_eq; reflexivity. Qed.

Section Proofs.
  Variable H : N -> N.

  Notation act := (act H).
  Notation step := (step H).
  Notation run := (run H).

  (* ---------------- per-circuit invariant ---------------- *)

  Definition wf (c : circ) : Prop :=
    (forall ok p, os c = OSettled ok p -> H p = chash c) /\
    (forall p, mb c = RSettle p -> exists ok, os c = OSettled ok p) /\
    (forall p, ist c = ISettledU p \/ ist c = ISettledC p -> exists ok, os c = OSettled ok p) /\
    (mb c = RFail \/ ist c = IFailedU \/ ist c = IFailedC -> out_dead c = true /\ pk c = false) /\
    (cs c = CNone -> os c = ONone /\ pk c = false /\ mb c = RNone) /\
    (cs c = CHalf -> os c = ONone \/ exists ok, os c = OAdded ok) /\
    (cs c = COpen -> os c <> ONone) /\
    (os c <> ONone -> pk c = false) /\
    (loaded c = true -> cs c = CHalf -> os c = ONone /\ pk c = false) /\
    (resolved c = true -> (cs c = CNone \/ cs c = CDeleted) /\ mb c = RNone) /\
    (cs c = CDeleted -> resolved c = true) /\
    (fwd c = false -> cs c = CNone).

  Ltac brk :=
    repeat match goal with
           | Hx : context [match ?x with _ => _ end] |- _ =>
             let E := fresh "E" in destruct x eqn:E; try discriminate
           | Hx : Some _ = Some _ |- _ => inversion Hx; clear Hx; subst
           | Hx : (_, _) = (_, _) |- _ => inversion Hx; clear Hx; subst
           | Hx : _ && _ = true |- _ => apply andb_true_iff in Hx; destruct Hx
           | Hx : negb _ = true |- _ => apply negb_true_iff in Hx
           | Hx : key_eqb _ _ = true |- _ => apply key_eqb_eq in Hx; subst
           | Hx : N.eqb _ _ = true |- _ => apply N.eqb_eq in Hx
           end.

  Ltac fin :=
    repeat split; intros;
    repeat match goal with
           | Hx : _ \/ _ |- _ => destruct Hx
           | Hx : exists _, _ |- _ => destruct Hx
           | Hx : _ /\ _ |- _ => destruct Hx
           end;
    try discriminate; try congruence; eauto;
    try (left; congruence); try (right; congruence);
    try (right; eexists; eassumption).

  Lemma new_circ_wf : forall k h ai ao oc, wf (new_circ k h ai ao oc).
  Proof. intros; unfold wf, new_circ; cbn; fin. Qed.

  Ltac unwf Hw :=
    destruct Hw as (W1 & W2 & W3 & W4 & W5 & W6 & W7 & W8 & W9 & W10 & W11 & W12).

  Ltac use_all :=
    repeat match goal with
           | W : ?P -> _, E : ?P |- _ => specialize (W E)
           | W : ?a = ?b -> _ |- _ =>
             match goal with
             | E : a = b |- _ => specialize (W E)
             end
           end.

  Lemma act_static : forall c a c' d, act c a = Some (c', d) ->
    ck c' = ck c /\ chash c' = chash c /\ ain c' = ain c /\ aout c' = aout c /\ ochan c' = ochan c.
  Proof.
    intros c a c' d Ha. destruct a; cbn in Ha;
      unfold pkt_live, is_locked, mb_none, os_none, cs_half in Ha; brk; cbn; auto.
  Qed.

  Lemma act_wf : forall c a c' d, act c a = Some (c', d) -> wf c -> wf c'.
  Proof.
    intros c a c' d Ha Hw. unwf Hw.
    destruct c as [k h ai ao oc fw ld cl pkk s o m i].
    destruct a; cbn in Ha; unfold pkt_live, is_locked, mb_none, os_none, cs_half in Ha;
      cbn in *; brk; cbn in *; subst;
      unfold wf, out_dead, resolved in *; cbn in *.
    all: try (destruct fw; [|specialize (W12 eq_refl); try discriminate]).
    all: repeat match goal with
                | W : ?x = ?x -> _ |- _ => specialize (W eq_refl)
                | W : true = false -> _ |- _ => clear W
                | W : false = true -> _ |- _ => clear W
                end.
    all: try solve [fin].
    all: try solve [repeat split; intros; try discriminate; try congruence;
                    try (exfalso; destruct W4 as [? ?]; [auto|discriminate]);
                    try (destruct W2 with (p := p) as [? ?]; [assumption|discriminate]);
                    fin].
  Qed.

End Proofs.
