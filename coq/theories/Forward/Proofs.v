(* C08 — invariants of the forwarding model and the lemmas behind Props.v. *)
From Coq Require Import List NArith ZArith Bool Lia.
From LV Require Import Forward.Model.
Import ListNotations.
Local Open Scope N_scope.

Lemma key_eqb_eq : forall a b : key, key_eqb a b = true <-> a = b.
Proof.
  intros [a1 a2] [b1 b2]; unfold key_eqb; cbn [fst snd].
  rewrite andb_true_iff, !N.eqb_eq. split.
  - intros [-> ->]; reflexivity.
  - intros E; inversion E; auto.
Qed.

Lemma key_eqb_refl : forall a, key_eqb a a = true.
Proof. intros; apply key_eqb_eq; reflexivity. Qed.

Section Proofs.
  Variable H : N -> N.

  Notation act := (act H).
  Notation step := (step H).
  Notation run := (run H).

  (* ---------------- per-circuit invariant ---------------- *)

  Definition out_added (c : circ) : bool :=
    match os c with OAdded _ => true | _ => false end.

  Definition wf (c : circ) : Prop :=
    (forall ok p, os c = OSettled ok p -> H p = chash c) /\
    (forall p, mb c = RSettle p -> exists ok, os c = OSettled ok p) /\
    (forall p, ist c = ISettledU p \/ ist c = ISettledC p -> exists ok, os c = OSettled ok p) /\
    (mb c = RFail \/ ist c = IFailedU \/ ist c = IFailedC -> out_dead c = true /\ pk c = false) /\
    (cs c = CNone -> os c = ONone /\ pk c = false /\ mb c = RNone) /\
    (cs c = CHalf -> os c = ONone \/ exists ok, os c = OAdded ok) /\
    (cs c = COpen -> os c <> ONone) /\
    (os c <> ONone -> pk c = false) /\
    (loaded c = true -> cs c = CHalf -> os c = ONone /\ pk c = false) /\
    (resolved c = true -> (cs c = CNone \/ cs c = CDeleted) /\ mb c = RNone) /\
    (cs c = CDeleted -> resolved c = true) /\
    (fwd c = false -> cs c = CNone) /\
    (loaded c = true -> out_added c = false).

  Ltac brk :=
    repeat match goal with
           | Hx : context [match ?x with _ => _ end] |- _ =>
             let E := fresh "E" in destruct x eqn:E; try discriminate
           | Hx : Some _ = Some _ |- _ => inversion Hx; clear Hx; subst
           | Hx : (_, _) = (_, _) |- _ => inversion Hx; clear Hx; subst
           | Hx : _ && _ = true |- _ => apply andb_true_iff in Hx; destruct Hx
           | Hx : negb _ = true |- _ => apply negb_true_iff in Hx
           | Hx : key_eqb _ _ = true |- _ => apply key_eqb_eq in Hx; subst
           | Hx : N.eqb _ _ = true |- _ => apply N.eqb_eq in Hx
           end.

  Ltac brk2 :=
    repeat match goal with
           | Hx : _ \/ _ |- _ => destruct Hx
           | Hx : exists _, _ |- _ => destruct Hx
           | Hx : _ /\ _ |- _ => destruct Hx
           end; subst; try discriminate.

  Ltac sat :=
    repeat match goal with
           | W : ?P -> _ |- _ =>
             let Hp := fresh in
             assert (Hp : P) by
                 (solve [reflexivity | assumption | congruence | left; congruence
                        | right; left; congruence | right; right; congruence]);
             specialize (W Hp); clear Hp
           end.

  Ltac inst :=
    repeat match goal with
           | W : forall p : N, _ -> exists _, _ |- _ =>
             let x := fresh in
             let Hx := fresh in
             edestruct W as [x Hx];
             [solve [reflexivity | eassumption | left; reflexivity | right; reflexivity
                    | left; eassumption | right; eassumption]|];
             clear W; try discriminate Hx
           end.

  Ltac fin :=
    repeat split; intros; brk2; sat; brk2; inst; cbn in *;
    repeat match goal with
           | Hx : RSettle _ = RSettle _ |- _ => inversion Hx; clear Hx; subst
           | Hx : ISettledU _ = ISettledU _ |- _ => inversion Hx; clear Hx; subst
           | Hx : ISettledC _ = ISettledC _ |- _ => inversion Hx; clear Hx; subst
           | Hx : OSettled _ _ = OSettled _ _ |- _ => inversion Hx; clear Hx; subst
           end;
    try congruence;
    try solve [reflexivity | eauto | left; congruence | right; eauto
              | eexists; reflexivity | exfalso; congruence].

  Lemma new_circ_wf : forall k h ai ao oc, wf (new_circ k h ai ao oc).
  Proof. intros; unfold wf, out_added, new_circ; cbn; fin. Qed.

  Ltac unwf Hw :=
    destruct Hw as (W1 & W2 & W3 & W4 & W5 & W6 & W7 & W8 & W9 & W10 & W11 & W12 & W13).

  Ltac use_all :=
    repeat match goal with
           | W : ?P -> _, E : ?P |- _ => specialize (W E)
           | W : ?a = ?b -> _ |- _ =>
             match goal with
             | E : a = b |- _ => specialize (W E)
             end
           end.

  Lemma act_static : forall c a c' d, act c a = Some (c', d) ->
    ck c' = ck c /\ chash c' = chash c /\ ain c' = ain c /\ aout c' = aout c /\ ochan c' = ochan c.
  Proof.
    intros c a c' d Ha. destruct a; cbn in Ha;
      unfold pkt_live, is_locked, mb_none, os_none, cs_half in Ha; brk; cbn; auto.
  Qed.

  Lemma act_wf : forall c a c' d, act c a = Some (c', d) -> wf c -> wf c'.
  Proof.
    intros c a c' d Ha Hw. unwf Hw.
    destruct c as [k h ai ao oc fw ld cl pkk s o m i].
    destruct a; cbn in Ha; unfold pkt_live, is_locked, mb_none, os_none, cs_half in Ha;
      cbn in *; brk; cbn in *; subst;
      unfold wf, out_dead, out_added, resolved in *; cbn in *.
    all: fin.
  Qed.


  Lemma restart1_static : forall c,
    ck (restart1 c) = ck c /\ chash (restart1 c) = chash c /\ ain (restart1 c) = ain c /\
    aout (restart1 c) = aout c /\ ochan (restart1 c) = ochan c.
  Proof. intros c; unfold restart1; destruct (cs c), (os c); cbn; auto. Qed.

  Lemma restart1_wf : forall c, wf c -> wf (restart1 c).
  Proof.
    intros c Hw. unwf Hw.
    destruct c as [k h ai ao oc fw ld cl pkk s o m i].
    unfold restart1, wf, out_dead, out_added, resolved in *; cbn in *.
    destruct s, o, i; cbn in *.
    all: fin.
  Qed.

  Lemma lrestart1_static : forall ch c,
    ck (lrestart1 ch c) = ck c /\ chash (lrestart1 ch c) = chash c /\
    ain (lrestart1 ch c) = ain c /\ aout (lrestart1 ch c) = aout c /\
    ochan (lrestart1 ch c) = ochan c.
  Proof.
    intros ch c; unfold lrestart1, lrestart_in, lrestart_out.
    destruct (N.eqb (ochan c) ch); [destruct (os c)|]; cbn;
      match goal with |- context [N.eqb ?a ?b] => destruct (N.eqb a b) end;
      try match goal with |- context [match ist ?x with _ => _ end] => destruct (ist x) end;
      cbn; auto.
  Qed.

  Lemma lrestart_out_wf : forall ch c, wf c -> wf (lrestart_out ch c).
  Proof.
    intros ch c Hw. unfold lrestart_out.
    destruct (N.eqb (ochan c) ch); [|exact Hw].
    destruct (os c) eqn:Eo; try exact Hw.
    unwf Hw. destruct c as [k h ai ao oc fw ld cl pkk s o m i].
    unfold wf, out_dead, out_added, resolved in *; cbn in *; subst.
    destruct s; cbn in *; fin.
  Qed.

  Lemma lrestart_in_wf : forall ch c, wf c -> wf (lrestart_in ch c).
  Proof.
    intros ch c Hw. unfold lrestart_in.
    destruct (N.eqb (fst (ck c)) ch); [|exact Hw].
    destruct (ist c) eqn:Ei; try exact Hw;
    unwf Hw; destruct c as [k h ai ao oc fw ld cl pkk s o m i];
    unfold wf, out_dead, out_added, resolved in *; cbn in *; subst; fin.
  Qed.

  Lemma lrestart1_wf : forall ch c, wf c -> wf (lrestart1 ch c).
  Proof. intros; unfold lrestart1; apply lrestart_in_wf, lrestart_out_wf; assumption. Qed.

  Lemma sig_out_static : forall ch c,
    ck (fst (sig_out ch c)) = ck c /\ chash (fst (sig_out ch c)) = chash c /\
    ain (fst (sig_out ch c)) = ain c /\ aout (fst (sig_out ch c)) = aout c /\
    ochan (fst (sig_out ch c)) = ochan c.
  Proof.
    intros ch c; unfold sig_out; destruct (N.eqb (ochan c) ch), (os c), (cs c); cbn; auto.
  Qed.

  Lemma sig_in_static : forall ch c,
    ck (fst (sig_in ch c)) = ck c /\ chash (fst (sig_in ch c)) = chash c /\
    ain (fst (sig_in ch c)) = ain c /\ aout (fst (sig_in ch c)) = aout c /\
    ochan (fst (sig_in ch c)) = ochan c.
  Proof.
    intros ch c; unfold sig_in; destruct (N.eqb (fst (ck c)) ch), (ist c); cbn; auto.
  Qed.

  Lemma sig_out_wf : forall ch c, wf c -> wf (fst (sig_out ch c)).
  Proof.
    intros ch c Hw. unfold sig_out.
    destruct (N.eqb (ochan c) ch); [|exact Hw].
    destruct (os c) eqn:Eo; try exact Hw.
    destruct (cs c) eqn:Ec; try exact Hw.
    unwf Hw. destruct c as [k h ai ao oc fw ld cl pkk s o m i].
    unfold wf, out_dead, out_added, resolved in *; cbn in *; subst.
    fin.
  Qed.

  Lemma sig_in_wf : forall ch c, wf c -> wf (fst (sig_in ch c)).
  Proof.
    intros ch c Hw. unfold sig_in.
    destruct (N.eqb (fst (ck c)) ch); [|exact Hw].
    destruct (ist c) eqn:Ei; try exact Hw;
    unwf Hw; destruct c as [k h ai ao oc fw ld cl pkk s o m i];
    unfold wf, out_dead, out_added, resolved, commit_in, cs_closed in *; cbn in *; subst;
    destruct s; cbn in *; fin.
  Qed.

  Lemma sig1_fst : forall ch c, fst (sig1 ch c) = fst (sig_in ch (fst (sig_out ch c))).
  Proof.
    intros; unfold sig1. destruct (sig_out ch c) as [c1 d1]; cbn.
    destruct (sig_in ch c1); reflexivity.
  Qed.

  Lemma sig1_snd : forall ch c,
    snd (sig1 ch c) = (snd (sig_out ch c) + snd (sig_in ch (fst (sig_out ch c))))%Z.
  Proof.
    intros; unfold sig1. destruct (sig_out ch c) as [c1 d1]; cbn.
    destruct (sig_in ch c1); reflexivity.
  Qed.

  Lemma sig1_wf : forall ch c, wf c -> wf (fst (sig1 ch c)).
  Proof. intros; rewrite sig1_fst; apply sig_in_wf, sig_out_wf; assumption. Qed.

  Lemma sig1_static : forall ch c,
    ck (fst (sig1 ch c)) = ck c /\ chash (fst (sig1 ch c)) = chash c /\
    ain (fst (sig1 ch c)) = ain c /\ aout (fst (sig1 ch c)) = aout c /\
    ochan (fst (sig1 ch c)) = ochan c.
  Proof.
    intros. rewrite sig1_fst.
    destruct (sig_in_static ch (fst (sig_out ch c))) as (a1 & a2 & a3 & a4 & a5).
    destruct (sig_out_static ch c) as (b1 & b2 & b3 & b4 & b5).
    repeat split; congruence.
  Qed.

  (* ---------------- ledger contribution of one circuit ---------------- *)

  Definition holds (c : circ) : bool :=
    match os c with OCommitted _ => true | OSettled _ _ => true | _ => false end.

  Definition contrib (ch : N) (c : circ) : Z :=
    ((if in_chan ch c && succeeded c then zin c else 0) -
     (if out_chan ch c && holds c then zout c else 0))%Z.

  Ltac neq :=
    repeat match goal with
           | |- context [N.eqb ?a ?b] =>
             let E := fresh "Q" in destruct (N.eqb_spec a b) as [E|E]
           end.

  Lemma act_contrib : forall c a c' d ch, act c a = Some (c', d) ->
    contrib ch c' = (contrib ch c + (if out_chan ch c then d else 0))%Z.
  Proof.
    intros c a c' d ch Ha.
    destruct c as [k h ai ao oc fw ld cl pkk s o m i].
    destruct a; cbn in Ha; unfold pkt_live, is_locked, mb_none, os_none, cs_half in Ha;
      cbn in *; brk; cbn in *;
      unfold contrib, in_chan, out_chan, succeeded, holds, zin, zout; cbn;
      neq; cbn; try lia; try congruence;
      try (destruct i; cbn; lia).
  Qed.

  Lemma restart1_contrib : forall ch c, wf c -> contrib ch (restart1 c) = contrib ch c.
  Proof.
    intros ch c Hw.
    destruct c as [k h ai ao oc fw ld cl pkk s o m i].
    unfold restart1, contrib, in_chan, out_chan, succeeded, holds, zin, zout; cbn.
    destruct s, o, i; cbn; reflexivity.
  Qed.

  Lemma lrestart1_contrib : forall ch ch' c, contrib ch' (lrestart1 ch c) = contrib ch' c.
  Proof.
    intros ch ch' c.
    destruct c as [k h ai ao oc fw ld cl pkk s o m i].
    unfold lrestart1, lrestart_in, lrestart_out, contrib, in_chan, out_chan, succeeded, holds,
      zin, zout; cbn.
    destruct (N.eqb oc ch); [destruct o|]; cbn; destruct (N.eqb (fst k) ch); cbn;
      try reflexivity; destruct i; cbn; reflexivity.
  Qed.

  Lemma sig_out_contrib : forall ch ch' c,
    contrib ch' (fst (sig_out ch c)) =
    (contrib ch' c + (if N.eqb ch' ch then snd (sig_out ch c) else 0))%Z.
  Proof.
    intros ch ch' c. unfold sig_out.
    destruct (N.eqb_spec (ochan c) ch) as [E|E].
    2:{ cbn. destruct (N.eqb ch' ch); lia. }
    destruct (os c) eqn:Eo; cbn; try (destruct (N.eqb ch' ch); lia).
    destruct (cs c) eqn:Ec; cbn; try (destruct (N.eqb ch' ch); lia).
    unfold contrib, in_chan, out_chan, succeeded, holds, zin, zout; cbn. rewrite Eo, E.
    destruct (N.eqb_spec ch' ch) as [F|F].
    - subst ch'. rewrite N.eqb_refl. cbn. lia.
    - destruct (N.eqb_spec ch ch') as [G|G]; [congruence|]. cbn. lia.
  Qed.

  Lemma sig_in_contrib : forall ch ch' c,
    contrib ch' (fst (sig_in ch c)) =
    (contrib ch' c + (if N.eqb ch' ch then snd (sig_in ch c) else 0))%Z.
  Proof.
    intros ch ch' c. unfold sig_in.
    destruct (N.eqb_spec (fst (ck c)) ch) as [E|E].
    2:{ cbn. destruct (N.eqb ch' ch); lia. }
    destruct (ist c) eqn:Ei; cbn; try (destruct (N.eqb ch' ch); lia).
    - unfold contrib, in_chan, out_chan, succeeded, holds, zin, zout, commit_in; cbn.
      rewrite Ei, E.
      destruct (N.eqb_spec ch' ch) as [F|F].
      + subst ch'. rewrite N.eqb_refl. cbn. lia.
      + destruct (N.eqb_spec ch ch') as [G|G]; [congruence|]. cbn. lia.
    - unfold contrib, in_chan, out_chan, succeeded, holds, zin, zout, commit_in; cbn.
      rewrite Ei. rewrite andb_false_r. cbn. destruct (N.eqb ch' ch); lia.
  Qed.

  Lemma sig1_contrib : forall ch ch' c,
    contrib ch' (fst (sig1 ch c)) =
    (contrib ch' c + (if N.eqb ch' ch then snd (sig1 ch c) else 0))%Z.
  Proof.
    intros ch ch' c. rewrite sig1_fst, sig1_snd, sig_in_contrib, sig_out_contrib.
    destruct (N.eqb ch' ch); lia.
  Qed.


  (* ---------------- list plumbing ---------------- *)

  Lemma find_some : forall k l c, find k l = Some c -> In c l /\ ck c = k.
  Proof.
    induction l as [|a r IH]; cbn; intros c Hf; [discriminate|].
    destruct (key_eqb k (ck a)) eqn:E.
    - inversion Hf; subst. apply key_eqb_eq in E. auto.
    - destruct (IH _ Hf); auto.
  Qed.

  Lemma find_none : forall k l, find k l = None -> ~ In k (map ck l).
  Proof.
    induction l as [|a r IH]; cbn; intros Hf; [tauto|].
    destruct (key_eqb k (ck a)) eqn:E; [discriminate|].
    intros [Hx|Hx]; [|exact (IH Hf Hx)].
    subst k. rewrite key_eqb_refl in E. discriminate.
  Qed.

  Lemma upd_keys : forall k c' l, ck c' = k -> map ck (upd k c' l) = map ck l.
  Proof.
    induction l as [|a r IH]; cbn; intros Hk; [reflexivity|].
    destruct (key_eqb k (ck a)) eqn:E; cbn.
    - apply key_eqb_eq in E. congruence.
    - rewrite IH; auto.
  Qed.

  Lemma upd_forall : forall (P : circ -> Prop) k c' l,
    Forall P l -> P c' -> Forall P (upd k c' l).
  Proof.
    induction l as [|a r IH]; cbn; intros Hl Hc; [constructor|].
    inversion Hl; subst. destruct (key_eqb k (ck a)); constructor; auto.
  Qed.

  Lemma upd_sum : forall (g : circ -> Z) k c c' l, find k l = Some c ->
    sumZ (map g (upd k c' l)) = (sumZ (map g l) - g c + g c')%Z.
  Proof.
    induction l as [|a r IH]; cbn; intros Hf; [discriminate|].
    destruct (key_eqb k (ck a)) eqn:E; cbn.
    - inversion Hf; subst. lia.
    - rewrite (IH Hf). lia.
  Qed.

  Lemma upd_in : forall k c c' l, In c l -> In c (upd k c' l) \/ find k l = Some c.
  Proof.
    induction l as [|a r IH]; cbn; intros Hi; [tauto|].
    destruct (key_eqb k (ck a)) eqn:E; cbn.
    - destruct Hi as [->|Hi]; auto.
    - destruct Hi as [->|Hi]; auto. destruct (IH Hi); auto.
  Qed.

  Lemma upd_in_new : forall k c c' l, find k l = Some c -> In c' (upd k c' l).
  Proof.
    induction l as [|a r IH]; cbn; intros Hf; [discriminate|].
    destruct (key_eqb k (ck a)) eqn:E; cbn; auto.
  Qed.

  (* ---------------- global invariant ---------------- *)

  Definition sumc (ch : N) (l : list circ) : Z := sumZ (map (contrib ch) l).

  Record inv (b0 : N -> Z) (st : state) : Prop := mkInv {
    inv_nodup : NoDup (map ck (circs st));
    inv_wf : Forall wf (circs st);
    inv_bal : forall ch, bal st ch = (b0 ch + sumc ch (circs st))%Z }.

  Lemma inv_init : forall b0, inv b0 (init b0).
  Proof.
    intros; constructor; cbn; [constructor|constructor|intros; unfold sumc; cbn; lia].
  Qed.

  Lemma contrib_new : forall ch k h ai ao oc, contrib ch (new_circ k h ai ao oc) = 0%Z.
  Proof.
    intros; unfold contrib, new_circ, succeeded, holds; cbn. rewrite !andb_false_r. reflexivity.
  Qed.

  Lemma sig_map_sum : forall ch ch' l,
    sumZ (map (contrib ch') (map (fun c => fst (sig1 ch c)) l)) =
    (sumZ (map (contrib ch') l) +
     (if N.eqb ch' ch then sumZ (map (fun c => snd (sig1 ch c)) l) else 0))%Z.
  Proof.
    induction l as [|a r IH]; cbn.
    - destruct (N.eqb ch' ch); reflexivity.
    - rewrite IH, sig1_contrib. destruct (N.eqb ch' ch); lia.
  Qed.

  Lemma restart_map_sum : forall ch l, Forall wf l ->
    sumZ (map (contrib ch) (map restart1 l)) = sumZ (map (contrib ch) l).
  Proof.
    induction 1 as [|a r Ha Hr IH]; cbn; [reflexivity|].
    rewrite IH, restart1_contrib; auto.
  Qed.

  Lemma lrestart_map_sum : forall ch ch' l,
    sumZ (map (contrib ch') (map (lrestart1 ch) l)) = sumZ (map (contrib ch') l).
  Proof.
    induction l as [|a r IH]; cbn; [reflexivity|].
    rewrite IH, lrestart1_contrib; reflexivity.
  Qed.

  Lemma map_keys_eq : forall (f : circ -> circ) l,
    (forall c, ck (f c) = ck c) -> map ck (map f l) = map ck l.
  Proof.
    intros f l Hf. rewrite map_map. apply map_ext. exact Hf.
  Qed.

  Lemma forall_map_wf : forall (f : circ -> circ) l,
    (forall c, wf c -> wf (f c)) -> Forall wf l -> Forall wf (map f l).
  Proof.
    intros f l Hf Hl. induction Hl; cbn; constructor; auto.
  Qed.

  Lemma step_inv : forall b0 st e st', inv b0 st -> step st e = Some st' -> inv b0 st'.
  Proof.
    intros b0 st e st' [Hn Hw Hb] Hs. destruct e as [k h ai ao oc|k a|ch| |ch]; cbn in Hs.
    - destruct (find k (circs st)) eqn:Ef; [discriminate|]. inversion Hs; subst; clear Hs.
      constructor; cbn.
      + constructor; [apply find_none; assumption|assumption].
      + constructor; [apply new_circ_wf|assumption].
      + intros x. unfold sumc in *. cbn. rewrite contrib_new, Hb. lia.
    - destruct (find k (circs st)) as [c|] eqn:Ef; [|discriminate].
      destruct (act c a) as [[c' d]|] eqn:Ea; [|discriminate].
      inversion Hs; subst; clear Hs.
      destruct (find_some _ _ _ Ef) as [Hin Hk].
      destruct (act_static _ _ _ _ Ea) as (S1 & _).
      assert (Hwc : wf c) by (rewrite Forall_forall in Hw; auto).
      constructor; cbn.
      + rewrite upd_keys; [assumption|congruence].
      + apply upd_forall; [assumption|]. eapply act_wf; eassumption.
      + intros x. unfold sumc, badd in *.
        rewrite (upd_sum (contrib x) k c c' _ Ef), (act_contrib _ _ _ _ x Ea), Hb.
        unfold out_chan. rewrite (N.eqb_sym x (ochan c)).
        destruct (N.eqb (ochan c) x); lia.
    - destruct (existsb (unsafe_sig ch) (circs st)); [discriminate|].
      inversion Hs; subst; clear Hs. constructor; cbn.
      + rewrite map_keys_eq; [assumption|]. intros c. apply sig1_static.
      + apply forall_map_wf; [|assumption]. intros c. apply sig1_wf.
      + intros x. unfold sumc, badd in *. rewrite sig_map_sum, Hb.
        destruct (N.eqb x ch); lia.
    - inversion Hs; subst; clear Hs. constructor; cbn.
      + rewrite map_keys_eq; [assumption|]. intros c. apply restart1_static.
      + apply forall_map_wf; [|assumption]. exact restart1_wf.
      + intros x. unfold sumc in *. rewrite restart_map_sum, Hb; auto.
    - inversion Hs; subst; clear Hs. constructor; cbn.
      + rewrite map_keys_eq; [assumption|]. intros c. apply lrestart1_static.
      + apply forall_map_wf; [|assumption]. intros c. apply lrestart1_wf.
      + intros x. unfold sumc in *. rewrite lrestart_map_sum, Hb; auto.
  Qed.

  Lemma run_inv : forall b0 evs st st', inv b0 st -> run st evs = Some st' -> inv b0 st'.
  Proof.
    induction evs as [|e r IH]; cbn; intros st st' Hi Hr.
    - inversion Hr; subst; assumption.
    - destruct (step st e) as [s1|] eqn:Es; [|discriminate].
      eapply IH; [eapply step_inv; eassumption|assumption].
  Qed.

  Lemma run_app : forall a b st,
    run st (a ++ b) = match run st a with Some s => run s b | None => None end.
  Proof.
    induction a as [|e r IH]; cbn; intros; [reflexivity|].
    destruct (step st e); [apply IH|reflexivity].
  Qed.


  (* ---------------- the property lemmas ---------------- *)

  Lemma settle_needs_preimage : forall b0 evs st c p,
    run (init b0) evs = Some st -> In c (circs st) ->
    ist c = ISettledU p \/ ist c = ISettledC p ->
    H p = chash c /\ exists ok, os c = OSettled ok p.
  Proof.
    intros b0 evs st c p Hr Hin Hs.
    destruct (run_inv _ _ _ _ (inv_init b0) Hr) as [_ Hw _].
    rewrite Forall_forall in Hw. specialize (Hw _ Hin). unwf Hw.
    destruct (W3 _ Hs) as [ok Ho]. split; eauto.
  Qed.

  Lemma dead_cases : forall c, out_dead c = true ->
    os c = ONone \/ exists ok, os c = OFailed ok.
  Proof. intros c; unfold out_dead; destruct (os c); intros; try discriminate; eauto. Qed.

  Lemma fail_back_safe : forall b0 evs st c,
    run (init b0) evs = Some st -> In c (circs st) ->
    ist c = IFailedU \/ ist c = IFailedC ->
    (os c = ONone \/ exists ok, os c = OFailed ok) /\ pk c = false.
  Proof.
    intros b0 evs st c Hr Hin Hs.
    destruct (run_inv _ _ _ _ (inv_init b0) Hr) as [_ Hw _].
    rewrite Forall_forall in Hw. specialize (Hw _ Hin). unwf Hw.
    destruct W4 as [Hd Hp]; [tauto|]. split; [apply dead_cases|]; assumption.
  Qed.

  (* a signed fail-back is final and the outgoing twin stays dead *)
  Lemma act_frozen : forall c a c' d, act c a = Some (c', d) -> wf c ->
    ist c = IFailedC -> ist c' = IFailedC /\ os c' = os c.
  Proof.
    intros c a c' d Ha Hw Hi. unwf Hw.
    destruct c as [k h ai ao oc fw ld cl pkk s o m i].
    cbn in Hi; subst i.
    unfold out_dead, resolved in *; cbn in *.
    destruct W4 as [Hd Hp]; [tauto|]. destruct W10 as [Hc Hm]; [reflexivity|].
    destruct a; cbn in Ha; unfold pkt_live, is_locked, mb_none, os_none, cs_half in Ha;
      cbn in *; brk; cbn in *; subst; try discriminate;
      try (destruct Hc; discriminate); auto.
  Qed.

  Lemma sig1_frozen : forall ch c, wf c -> ist c = IFailedC ->
    ist (fst (sig1 ch c)) = IFailedC /\ os (fst (sig1 ch c)) = os c.
  Proof.
    intros ch c Hw Hi. unwf Hw. rewrite sig1_fst.
    destruct W4 as [Hd Hp]; [tauto|].
    destruct c as [k h ai ao oc fw ld cl pkk s o m i]. cbn in *; subst i.
    unfold sig_out, sig_in, out_dead in *; cbn in *.
    destruct (N.eqb oc ch); cbn; destruct o; try discriminate; cbn;
      destruct (N.eqb (fst k) ch); cbn; auto.
  Qed.

  Lemma restart1_frozen : forall c, wf c -> ist c = IFailedC ->
    ist (restart1 c) = IFailedC /\ os (restart1 c) = os c.
  Proof.
    intros c Hw Hi. unwf Hw. destruct W4 as [Hd Hp]; [tauto|].
    destruct c as [k h ai ao oc fw ld cl pkk s o m i]. cbn in *; subst i.
    unfold restart1, out_dead in *; cbn in *.
    destruct s, o; try discriminate; cbn; auto.
  Qed.

  Lemma lrestart1_frozen : forall ch c, wf c -> ist c = IFailedC ->
    ist (lrestart1 ch c) = IFailedC /\ os (lrestart1 ch c) = os c.
  Proof.
    intros ch c Hw Hi. unwf Hw. destruct W4 as [Hd Hp]; [tauto|].
    destruct c as [k h ai ao oc fw ld cl pkk s o m i]. cbn in *; subst i.
    unfold lrestart1, lrestart_in, lrestart_out, out_dead in *; cbn in *.
    destruct (N.eqb oc ch); [destruct o; try discriminate|]; cbn;
      destruct (N.eqb (fst k) ch); cbn; auto.
  Qed.

  Lemma step_frozen : forall b0 st e st' c, inv b0 st -> step st e = Some st' ->
    In c (circs st) -> ist c = IFailedC ->
    exists c', In c' (circs st') /\ ck c' = ck c /\ ist c' = IFailedC /\ os c' = os c.
  Proof.
    intros b0 st e st' c [Hn Hw Hb] Hs Hin Hi.
    assert (Hwc : wf c) by (rewrite Forall_forall in Hw; auto).
    destruct e as [k h ai ao oc|k a|ch| |ch]; cbn in Hs.
    - destruct (find k (circs st)); [discriminate|]. inversion Hs; subst; clear Hs.
      exists c; cbn; auto.
    - destruct (find k (circs st)) as [c1|] eqn:Ef; [|discriminate].
      destruct (act c1 a) as [[c1' d]|] eqn:Ea; [|discriminate].
      inversion Hs; subst; clear Hs. cbn.
      destruct (upd_in k c c1' _ Hin) as [Hx|Hx].
      + exists c; auto.
      + rewrite Ef in Hx. inversion Hx; subst c1.
        destruct (act_frozen _ _ _ _ Ea Hwc Hi) as [F1 F2].
        destruct (act_static _ _ _ _ Ea) as (S1 & _).
        exists c1'. split; [eapply upd_in_new; eassumption|auto].
    - destruct (existsb (unsafe_sig ch) (circs st)); [discriminate|].
      inversion Hs; subst; clear Hs. cbn.
      destruct (sig1_frozen ch c Hwc Hi) as [F1 F2].
      exists (fst (sig1 ch c)). split; [apply (in_map (fun c => fst (sig1 ch c))); assumption|].
      split; [apply sig1_static|auto].
    - inversion Hs; subst; clear Hs. cbn.
      destruct (restart1_frozen c Hwc Hi) as [F1 F2].
      exists (restart1 c). split; [apply in_map; assumption|].
      split; [apply restart1_static|auto].
    - inversion Hs; subst; clear Hs. cbn.
      destruct (lrestart1_frozen ch c Hwc Hi) as [F1 F2].
      exists (lrestart1 ch c). split; [apply in_map; assumption|].
      split; [apply lrestart1_static|auto].
  Qed.

  Lemma run_frozen : forall b0 evs st st' c, inv b0 st -> run st evs = Some st' ->
    In c (circs st) -> ist c = IFailedC ->
    exists c', In c' (circs st') /\ ck c' = ck c /\ ist c' = IFailedC /\ os c' = os c.
  Proof.
    induction evs as [|e r IH]; cbn; intros st st' c Hv Hr Hin Hi.
    - inversion Hr; subst. exists c; auto.
    - destruct (step st e) as [s1|] eqn:Es; [|discriminate].
      destruct (step_frozen _ _ _ _ _ Hv Es Hin Hi) as (c1 & I1 & K1 & F1 & O1).
      destruct (IH s1 st' c1 (step_inv _ _ _ _ Hv Es) Hr I1 F1) as (c2 & I2 & K2 & F2 & O2).
      exists c2. repeat split; auto; congruence.
  Qed.

  Lemma fail_back_final : forall b0 evs evs' st st' c,
    run (init b0) evs = Some st -> In c (circs st) -> ist c = IFailedC ->
    run st evs' = Some st' ->
    exists c', In c' (circs st') /\ ck c' = ck c /\ ist c' = IFailedC /\ os c' = os c /\
               (os c' = ONone \/ exists ok, os c' = OFailed ok).
  Proof.
    intros b0 evs evs' st st' c Hr Hin Hi Hr'.
    pose proof (run_inv _ _ _ _ (inv_init b0) Hr) as Hv.
    destruct (run_frozen _ _ _ _ _ Hv Hr' Hin Hi) as (c' & I & K & F & O).
    exists c'. repeat split; auto. rewrite O.
    destruct (fail_back_safe _ _ _ _ Hr Hin (or_intror Hi)); assumption.
  Qed.

  (* ---------------- quiescence ---------------- *)

  Lemma resolved_facts : forall c, wf c -> resolved c = true ->
    (succeeded c = true <-> out_settled c = true) /\ out_active c = false /\
    pk c = false /\ mb c = RNone /\ circ_pending c = false /\
    holds c = succeeded c /\ in_settled c = succeeded c /\ out_settled c = succeeded c.
  Proof.
    intros c Hw Hr. unwf Hw.
    destruct W10 as [Hc Hm]; [assumption|].
    destruct c as [k h ai ao oc fw ld cl pkk s o m i].
    unfold resolved, succeeded, out_settled, out_active, circ_pending, holds, in_settled,
      out_dead in *; cbn in *.
    destruct i; try discriminate.
    - destruct (W3 p) as [ok Ho]; [auto|]. subst o.
      rewrite W8 by discriminate.
      repeat split; auto; destruct Hc; subst; auto.
    - destruct W4 as [Hd Hp]; [auto|]. subst pkk.
      destruct o; try discriminate; repeat split; auto; try discriminate;
        destruct Hc; subst; auto.
  Qed.

  Lemma count_zero : forall (f : circ -> bool) (l : list circ), (forall c, In c l -> f c = false) -> count f l = 0.
  Proof.
    intros f l Hf. unfold count. induction l as [|a r IH]; cbn; [reflexivity|].
    rewrite (Hf a (or_introl eq_refl)). apply IH. intros; apply Hf; right; assumption.
  Qed.

  Lemma sum_over_ext : forall (f f' : circ -> bool) (g g' : circ -> Z) (l : list circ),
    (forall c, In c l -> (if f c then g c else 0%Z) = (if f' c then g' c else 0%Z)) ->
    sum_over f g l = sum_over f' g' l.
  Proof.
    intros f f' g g' l Hx. unfold sum_over. induction l as [|a r IH]; cbn; [reflexivity|].
    rewrite (Hx a (or_introl eq_refl)), IH; [reflexivity|]. intros; apply Hx; right; assumption.
  Qed.

  Lemma sumc_quiet : forall ch l, (forall c, In c l -> holds c = succeeded c) ->
    sumc ch l = (sum_over (fun c => in_chan ch c && succeeded c) zin l -
                 sum_over (fun c => out_chan ch c && succeeded c) zout l)%Z.
  Proof.
    intros ch l Hx. unfold sumc, sum_over. induction l as [|a r IH]; cbn; [reflexivity|].
    rewrite IH by (intros; apply Hx; right; assumption).
    unfold contrib. rewrite (Hx a (or_introl eq_refl)). lia.
  Qed.

  Lemma sum_over_fee : forall l,
    sum_over succeeded fee l = (sum_over succeeded zin l - sum_over succeeded zout l)%Z.
  Proof.
    unfold sum_over, fee. induction l as [|a r IH]; cbn; [reflexivity|].
    rewrite IH. destruct (succeeded a); lia.
  Qed.

  Lemma quiescent_balance : forall b0 evs st,
    run (init b0) evs = Some st -> quiescent st = true ->
    (forall c, In c (circs st) ->
       (succeeded c = true <-> out_settled c = true) /\ out_active c = false /\
       pk c = false /\ mb c = RNone /\ circ_pending c = false) /\
    num_pending st = 0 /\ num_open st = 0 /\
    (forall ch, bal st ch = expected_bal b0 st ch) /\
    sender_debits st = (receiver_credits st + fees_earned st)%Z.
  Proof.
    intros b0 evs st Hr Hq.
    destruct (run_inv _ _ _ _ (inv_init b0) Hr) as [_ Hw Hb].
    rewrite Forall_forall in Hw. unfold quiescent in Hq. rewrite forallb_forall in Hq.
    assert (HF : forall c, In c (circs st) ->
              (succeeded c = true <-> out_settled c = true) /\ out_active c = false /\
              pk c = false /\ mb c = RNone /\ circ_pending c = false /\
              holds c = succeeded c /\ in_settled c = succeeded c /\
              out_settled c = succeeded c).
    { intros c Hin. apply resolved_facts; auto. }
    split; [|split; [|split; [|split]]].
    - intros c Hin. destruct (HF c Hin) as (a1 & a2 & a3 & a4 & a5 & _). auto.
    - apply count_zero. intros c Hin. apply (HF c Hin).
    - apply count_zero. intros c Hin. destruct (HF c Hin) as (_ & _ & _ & _ & a5 & _).
      unfold circ_pending, circ_open in *. destruct (cs c); auto; discriminate.
    - intros ch. rewrite Hb. unfold expected_bal.
      rewrite sumc_quiet; [lia|]. intros c Hin. apply (HF c Hin).
    - unfold sender_debits, receiver_credits, fees_earned.
      rewrite sum_over_fee.
      rewrite (sum_over_ext in_settled succeeded zin zin).
      2:{ intros c Hin. destruct (HF c Hin) as (_ & _ & _ & _ & _ & _ & a7 & _).
          rewrite a7; reflexivity. }
      rewrite (sum_over_ext out_settled succeeded zout zout).
      2:{ intros c Hin. destruct (HF c Hin) as (_ & _ & _ & _ & _ & _ & _ & a8).
          rewrite a8; reflexivity. }
      lia.
  Qed.

  Lemma sum_partition : forall (sel : N -> circ -> bool) (proj : circ -> N) g c1 c2 l,
    (forall ch c, sel ch c = N.eqb (proj c) ch) -> c1 <> c2 ->
    (forall c, In c l -> proj c = c1 \/ proj c = c2) ->
    (sum_over (fun c => sel c1 c && succeeded c) g l +
     sum_over (fun c => sel c2 c && succeeded c) g l)%Z = sum_over succeeded g l.
  Proof.
    intros sel proj g c1 c2 l Hsel Hne Hx. unfold sum_over.
    induction l as [|a r IH]; cbn; [reflexivity|].
    assert (IH' := IH (fun c Hc => Hx c (or_intror Hc))).
    rewrite !Hsel.
    destruct (Hx a (or_introl eq_refl)) as [E|E]; rewrite E.
    - rewrite N.eqb_refl. destruct (N.eqb_spec c1 c2); [contradiction|].
      cbn. destruct (succeeded a); lia.
    - rewrite N.eqb_refl. destruct (N.eqb_spec c2 c1); [congruence|].
      cbn. destruct (succeeded a); lia.
  Qed.

  Lemma quiescent_total : forall b0 evs st c1 c2,
    run (init b0) evs = Some st -> quiescent st = true -> c1 <> c2 ->
    (forall c, In c (circs st) ->
       (fst (ck c) = c1 \/ fst (ck c) = c2) /\ (ochan c = c1 \/ ochan c = c2)) ->
    (bal st c1 + bal st c2 = b0 c1 + b0 c2 + fees_earned st)%Z.
  Proof.
    intros b0 evs st c1 c2 Hr Hq Hne Hx.
    destruct (quiescent_balance _ _ _ Hr Hq) as (_ & _ & _ & Hb & _).
    rewrite !Hb. unfold expected_bal, fees_earned. rewrite sum_over_fee.
    pose proof (sum_partition in_chan (fun c => fst (ck c)) zin c1 c2 (circs st)
                  (fun ch c => eq_refl) Hne (fun c Hc => proj1 (Hx c Hc))) as P1.
    pose proof (sum_partition out_chan ochan zout c1 c2 (circs st)
                  (fun ch c => eq_refl) Hne (fun c Hc => proj2 (Hx c Hc))) as P2.
    lia.
  Qed.


  (* ---------------- trace-level form of the settle clause ---------------- *)

  Lemma act_settled_origin : forall c a c' d ok p, act c a = Some (c', d) ->
    os c' = OSettled ok p -> a = AOutSettle ok p \/ os c = OSettled ok p.
  Proof.
    intros c a c' d ok p Ha Ho.
    destruct c as [k h ai ao oc fw ld cl pkk s o m i].
    destruct a; cbn in Ha; unfold pkt_live, is_locked, mb_none, os_none, cs_half in Ha;
      cbn in *; brk; cbn in *; try discriminate; auto.
    inversion Ho; subst; auto.
  Qed.

  Lemma upd_in_inv : forall k c' x l, In x (upd k c' l) -> x = c' \/ In x l.
  Proof.
    induction l as [|a r IH]; cbn; intros Hi; [tauto|].
    destruct (key_eqb k (ck a)); cbn in Hi.
    - destruct Hi; auto.
    - destruct Hi as [->|Hi]; auto. destruct (IH Hi); auto.
  Qed.

  Lemma step_settled_origin : forall st e st' c' ok p, step st e = Some st' ->
    In c' (circs st') -> os c' = OSettled ok p ->
    e = ECirc (ck c') (AOutSettle ok p) \/
    exists c, In c (circs st) /\ ck c = ck c' /\ os c = OSettled ok p.
  Proof.
    intros st e st' c' ok p Hs Hin Ho.
    destruct e as [k h ai ao oc|k a|ch| |ch]; cbn in Hs.
    - destruct (find k (circs st)); [discriminate|]. inversion Hs; subst; clear Hs.
      cbn in Hin. destruct Hin as [<-|Hin]; [cbn in Ho; discriminate|]. right; eauto.
    - destruct (find k (circs st)) as [c1|] eqn:Ef; [|discriminate].
      destruct (act c1 a) as [[c1' d]|] eqn:Ea; [|discriminate].
      inversion Hs; subst; clear Hs. cbn in Hin.
      destruct (find_some _ _ _ Ef) as [Hi1 Hk1].
      destruct (act_static _ _ _ _ Ea) as (S1 & _).
      destruct (upd_in_inv _ _ _ _ Hin) as [->|Hx]; [|right; eauto].
      destruct (act_settled_origin _ _ _ _ _ _ Ea Ho) as [->|Hp].
      + left. congruence.
      + right. exists c1. auto.
    - destruct (existsb (unsafe_sig ch) (circs st)); [discriminate|].
      inversion Hs; subst; clear Hs. cbn in Hin.
      apply in_map_iff in Hin. destruct Hin as (c & <- & Hc).
      right. exists c. split; [assumption|]. split; [symmetry; apply sig1_static|].
      rewrite sig1_fst in Ho. unfold sig_in, sig_out in Ho.
      destruct (N.eqb (ochan c) ch); cbn in Ho.
      + destruct (os c) eqn:Eo; cbn in Ho;
          try (destruct (cs c); cbn in Ho);
          repeat match type of Ho with
                 | context [if ?b then _ else _] => destruct b; cbn in Ho
                 | context [match ist ?x with _ => _ end] => destruct (ist x); cbn in Ho
                 end; try rewrite Eo in Ho; try discriminate; auto.
      + repeat match type of Ho with
               | context [if ?b then _ else _] => destruct b; cbn in Ho
               | context [match ist ?x with _ => _ end] => destruct (ist x); cbn in Ho
               end; auto.
    - inversion Hs; subst; clear Hs. cbn in Hin.
      apply in_map_iff in Hin. destruct Hin as (c & <- & Hc).
      right. exists c. split; [assumption|]. split; [symmetry; apply restart1_static|].
      unfold restart1 in Ho. destruct (cs c), (os c); cbn in Ho; try discriminate; auto.
    - inversion Hs; subst; clear Hs. cbn in Hin.
      apply in_map_iff in Hin. destruct Hin as (c & <- & Hc).
      right. exists c. split; [assumption|]. split; [symmetry; apply lrestart1_static|].
      unfold lrestart1, lrestart_in, lrestart_out in Ho.
      destruct (N.eqb (ochan c) ch); [destruct (os c) eqn:Eo|]; cbn in Ho;
        repeat match type of Ho with
               | context [if ?b then _ else _] => destruct b; cbn in Ho
               | context [match ist ?x with _ => _ end] => destruct (ist x); cbn in Ho
               end; try rewrite Eo in Ho; try discriminate; auto.
  Qed.

  Lemma run_settled_origin : forall evs st st' c' ok p, run st evs = Some st' ->
    In c' (circs st') -> os c' = OSettled ok p ->
    In (ECirc (ck c') (AOutSettle ok p)) evs \/
    exists c, In c (circs st) /\ ck c = ck c' /\ os c = OSettled ok p.
  Proof.
    induction evs as [|e r IH]; cbn; intros st st' c' ok p Hr Hin Ho.
    - inversion Hr; subst. right; eauto.
    - destruct (step st e) as [s1|] eqn:Es; [|discriminate].
      destruct (IH _ _ _ _ _ Hr Hin Ho) as [Hx|(c1 & I1 & K1 & O1)]; [auto|].
      destruct (step_settled_origin _ _ _ _ _ _ Es I1 O1) as [->|(c0 & I0 & K0 & O0)].
      + left. left. congruence.
      + right. exists c0. repeat split; auto; congruence.
  Qed.

  Lemma settle_needs_preimage_trace : forall b0 evs st k p,
    run (init b0) (evs ++ [ECirc k (AInSettle p)]) = Some st ->
    exists ok, In (ECirc k (AOutSettle ok p)) evs.
  Proof.
    intros b0 evs st k p Hr.
    rewrite run_app in Hr. destruct (run (init b0) evs) as [s1|] eqn:E1; [|discriminate].
    assert (Hs : step s1 (ECirc k (AInSettle p)) = Some st).
    { cbn [Model.run] in Hr. destruct (step s1 (ECirc k (AInSettle p))); [|discriminate].
      inversion Hr; reflexivity. }
    clear Hr. unfold Model.step in Hs.
    destruct (find k (circs s1)) as [c|] eqn:Ef; [|discriminate].
    destruct (act c (AInSettle p)) as [[c' d]|] eqn:Ea; [|discriminate].
    destruct (find_some _ _ _ Ef) as [Hin Hk].
    destruct (run_inv _ _ _ _ (inv_init b0) E1) as [_ Hw _].
    rewrite Forall_forall in Hw. specialize (Hw _ Hin). unwf Hw.
    cbn in Ea. destruct (ist c); try discriminate. destruct (mb c) eqn:Em; try discriminate.
    destruct (N.eqb_spec p p0) as [->|]; [|discriminate].
    destruct (W2 _ eq_refl) as [ok Ho]. exists ok.
    destruct (run_settled_origin _ _ _ _ _ _ E1 Hin Ho) as [Hx|(c0 & I0 & _)].
    - rewrite Hk in Hx. exact Hx.
    - cbn in I0. contradiction.
  Qed.

End Proofs.
