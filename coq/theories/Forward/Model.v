(* C08 — the forwarding node's logic as an event-driven state machine.

   One record per payment circuit (keyed by the INCOMING circuit key), holding
   the forwarder's view of
     - the incoming HTLC on the incoming link        (ist)
     - the forwarding decision persisted in the FwdPkg (fwd  = FwdFilter bit)
     - the switch's circuit-map entry                (cs, loaded, closing)
     - the add packet travelling to the outgoing link (pk  = switch / mailbox)
     - the outgoing twin HTLC on the outgoing link   (os)
     - the response waiting in the incoming mailbox  (mb)
   plus a ledger: the forwarder's committed balance per channel.

   Anchors (lnd):
     ELockIn      UpdateAddHTLC locked in, FwdPkg written (link.go processRemoteRevokeAndAck)
     AReject      link.go sendHTLCError from processRemoteAdds
     AFwd r       link.go processRemoteAdds -> forwardBatch -> switch.go ForwardPackets
                  -> circuit_map.go CommitCircuits, r = Adds/Drops/Fails classification
     ASwitchFail  switch.go handlePacketAdd -> failAddPacket
     AAbandon     switch.go ForwardPackets: routeAsync gave up on linkQuit, circuit deleted
                  again (C08-F2 repair)
     AOutAddFail  link.go handleDownstreamUpdateAdd AddHTLC error -> mailbox FailAdd
                  -> switch.go closeCircuit (hasSource) -> FailCircuit
     AOutAdd      link.go handleDownstreamUpdateAdd AddHTLC ok (NotifyForwardingEvent)
     AOpen        link.go updateCommitTx -> Circuits.OpenCircuits (keystone on disk)
     ESig ch      link.go updateCommitTx: SignNextCommitment (CommitDiff persisted with
                  Source/DestRef acks) + ackDownStreamPackets (DeleteCircuits, mailbox acks)
     AOutSettle   link.go processRemoteUpdateFulfillHTLC (lock-in check + preimage check
                  in lnwallet ReceiveHTLCSettle), settle pipelined to the switch
     AOutFail     link.go processRemoteSettleFails: update_fail locked in on both commitments
     AClose       switch.go handlePacketSettle/Fail -> closeCircuit -> CloseCircuit
     AInSettle    link.go processLocalUpdateFulfillHTLC (SettleHTLC with refs + circuit key)
     AInFail      link.go processLocalUpdateFailHTLC
     ERestart     node restart: volatile state lost, circuits reloaded (LoadedFromDisk),
                  unsigned updates dropped, keystones above the committed index trimmed.
     ELinkRestart ch  the link of channel ch is stopped and started again (peer
                  disconnect / reconnect: link.go Stop, Start, resumeLink); the switch,
                  its circuit map and the mailboxes SURVIVE.  The link's unsigned updates
                  are lost (the channel state is reloaded from disk), keystones above the
                  committed index are trimmed (Start: TrimOpenCircuits), the mailbox
                  re-delivers every packet that was not acked by a signature
                  (Stop: mailBox.ResetPackets).

   Definitions only; proofs are in Proofs.v. *)
From Coq Require Import List NArith ZArith Bool.
Import ListNotations.
Local Open Scope N_scope.

Definition key := (N * N)%type.          (* (short channel id, htlc id) *)

Definition key_eqb (a b : key) : bool :=
  N.eqb (fst a) (fst b) && N.eqb (snd a) (snd b).

Inductive istate :=
| ILocked                 (* incoming HTLC active, no response in the update log *)
| ISettledU (p : N)       (* SettleHTLC in the update log, not yet signed (volatile) *)
| IFailedU                (* FailHTLC in the update log, not yet signed (volatile) *)
| ISettledC (p : N)       (* settle signed: CommitDiff persisted, circuit deleted *)
| IFailedC.               (* fail signed *)

Inductive cstate := CNone | CHalf | COpen | CDeleted.

Inductive ostate :=
| ONone                          (* no outgoing HTLC exists *)
| OAdded (ok : key)              (* in the outgoing update log, unsigned (volatile) *)
| OCommitted (ok : key)          (* signed into a commitment *)
| OSettled (ok : key) (p : N)    (* a preimage was received for it *)
| OFailed (ok : key).            (* its removal is locked in on both commitments *)

Inductive resp := RNone | RSettle (p : N) | RFail.

Record circ := mkCirc {
  ck : key; chash : N; ain : N; aout : N; ochan : N;
  fwd : bool; loaded : bool; closing : bool; pk : bool;
  cs : cstate; os : ostate; mb : resp; ist : istate }.

Inductive fwdres := FAdd | FDrop | FFail.

Inductive action :=
| AReject
| AFwd (r : fwdres)
| ASwitchFail
| AAbandon
| AOutAddFail
| AOutAdd (ok : key)
| AOpen (ok : key)
| AOutSettle (ok : key) (p : N)
| AOutFail (ok : key)
| AClose (ok : key)
| AInSettle (p : N)
| AInFail.

Inductive event :=
| ELockIn (k : key) (h ai ao oc : N)
| ECirc (k : key) (a : action)
| ESig (ch : N)
| ERestart
| ELinkRestart (ch : N).

Definition set_ist (c : circ) (x : istate) : circ :=
  mkCirc (ck c) (chash c) (ain c) (aout c) (ochan c) (fwd c) (loaded c) (closing c) (pk c)
         (cs c) (os c) (mb c) x.
Definition set_os (c : circ) (x : ostate) : circ :=
  mkCirc (ck c) (chash c) (ain c) (aout c) (ochan c) (fwd c) (loaded c) (closing c) (pk c)
         (cs c) x (mb c) (ist c).
Definition set_cs (c : circ) (x : cstate) : circ :=
  mkCirc (ck c) (chash c) (ain c) (aout c) (ochan c) (fwd c) (loaded c) (closing c) (pk c)
         x (os c) (mb c) (ist c).
Definition set_mb (c : circ) (x : resp) : circ :=
  mkCirc (ck c) (chash c) (ain c) (aout c) (ochan c) (fwd c) (loaded c) (closing c) (pk c)
         (cs c) (os c) x (ist c).
Definition set_pk (c : circ) (x : bool) : circ :=
  mkCirc (ck c) (chash c) (ain c) (aout c) (ochan c) (fwd c) (loaded c) (closing c) x
         (cs c) (os c) (mb c) (ist c).
Definition set_closing (c : circ) (x : bool) : circ :=
  mkCirc (ck c) (chash c) (ain c) (aout c) (ochan c) (fwd c) (loaded c) x (pk c)
         (cs c) (os c) (mb c) (ist c).

Definition is_locked (c : circ) : bool :=
  match ist c with ILocked => true | _ => false end.
Definition mb_none (c : circ) : bool :=
  match mb c with RNone => true | _ => false end.
Definition os_none (c : circ) : bool :=
  match os c with ONone => true | _ => false end.
Definition cs_half (c : circ) : bool :=
  match cs c with CHalf => true | _ => false end.

Section Model.
  (* payment hash function: external, arbitrary *)
  Variable H : N -> N.

  (* guard shared by the three ways an add packet leaves the switch/mailbox *)
  Definition pkt_live (c : circ) : bool :=
    pk c && cs_half c && os_none c && negb (closing c).

  (* One circuit, one action.  Result: new record and the amount credited to
     the forwarder's balance on the OUTGOING channel (non-zero only when a
     committed outgoing HTLC is irrevocably failed). *)
  Definition act (c : circ) (a : action) : option (circ * Z) :=
    match a with
    | AReject =>
      if is_locked c && negb (fwd c) then Some (set_ist c IFailedU, 0%Z) else None
    | AFwd r =>
      (* forwardBatch skips adds that already have a response in the mailbox
         (HasPacket), but that check is not atomic with CommitCircuits: the
         switch may deliver the response in between.  A Drop changes nothing,
         a repeated Fail of a circuit that already carries a fail neither. *)
      if is_locked c then
        match cs c, r with
        | CNone, FAdd =>
          if mb_none c then
            Some (mkCirc (ck c) (chash c) (ain c) (aout c) (ochan c) true false false true
                         CHalf (os c) (mb c) (ist c), 0%Z)
          else None
        | COpen, FDrop => Some (c, 0%Z)
        | CHalf, FDrop => if loaded c then None else Some (c, 0%Z)
        | CHalf, FFail =>
          if loaded c then
            match mb c with RSettle _ => None | _ => Some (set_mb c RFail, 0%Z) end
          else None
        | _, _ => None
        end
      else None
    | ASwitchFail =>
      if pkt_live c then Some (set_mb (set_pk c false) RFail, 0%Z) else None
    | AAbandon =>
      (* ForwardPackets could not hand the packet to the switch because the
         incoming link is stopping: the freshly committed circuit is removed
         again, the replay after the link restart forwards the add afresh
         (only in trees carrying the C08-F2 repair; without it the circuit
         stays half-open and its packet is gone, see notes/C08.md) *)
      if pkt_live c && is_locked c && mb_none c
      then Some (set_cs (set_pk c false) CNone, 0%Z) else None
    | AOutAddFail =>
      if pkt_live c then Some (set_mb (set_closing (set_pk c false) true) RFail, 0%Z)
      else None
    | AOutAdd ok =>
      if pkt_live c && N.eqb (fst ok) (ochan c)
      then Some (set_os (set_pk c false) (OAdded ok), 0%Z) else None
    | AOpen ok =>
      match os c, cs c with
      | OAdded ok', CHalf => if key_eqb ok ok' then Some (set_cs c COpen, 0%Z) else None
      | _, _ => None
      end
    | AOutSettle ok p =>
      match os c with
      | OCommitted ok' =>
        if key_eqb ok ok' && N.eqb (H p) (chash c)
        then Some (set_os c (OSettled ok p), 0%Z) else None
      | OSettled ok' p' =>
        (* the peer retransmits an update_fulfill that was not yet covered by
           its signature when the connection was lost: same HTLC, same preimage *)
        if key_eqb ok ok' && N.eqb p p' then Some (c, 0%Z) else None
      | _ => None
      end
    | AOutFail ok =>
      match os c with
      | OCommitted ok' =>
        if key_eqb ok ok' then Some (set_os c (OFailed ok), Z.of_N (aout c)) else None
      | _ => None
      end
    | AClose ok =>
      match cs c, closing c, os c with
      | COpen, false, OSettled ok' p =>
        if key_eqb ok ok' then Some (set_mb (set_closing c true) (RSettle p), 0%Z) else None
      | COpen, false, OFailed ok' =>
        if key_eqb ok ok' then Some (set_mb (set_closing c true) RFail, 0%Z) else None
      | _, _, _ => None
      end
    | AInSettle p =>
      match ist c, mb c with
      | ILocked, RSettle p' =>
        if N.eqb p p' then Some (set_ist c (ISettledU p), 0%Z) else None
      | _, _ => None
      end
    | AInFail =>
      match ist c, mb c with
      | ILocked, RFail => Some (set_ist c IFailedU, 0%Z)
      | _, _ => None
      end
    end.

  (* A commitment signature on channel ch commits every pending update of
     that link: outgoing adds whose keystone is on disk, and incoming
     settles/fails (whose circuits are deleted and mailbox entries acked with
     it).  Signing an outgoing add whose keystone is not on disk is refused. *)
  Definition unsafe_sig (ch : N) (c : circ) : bool :=
    N.eqb (ochan c) ch &&
    match os c, cs c with OAdded _, COpen => false | OAdded _, _ => true | _, _ => false end.

  Definition cs_closed (x : cstate) : cstate :=
    match x with CNone => CNone | _ => CDeleted end.

  Definition sig_out (ch : N) (c : circ) : circ * Z :=
    if N.eqb (ochan c) ch then
      match os c, cs c with
      | OAdded ok, COpen => (set_os c (OCommitted ok), (- Z.of_N (aout c))%Z)
      | _, _ => (c, 0%Z)
      end
    else (c, 0%Z).

  Definition commit_in (c : circ) (x : istate) : circ :=
    mkCirc (ck c) (chash c) (ain c) (aout c) (ochan c) (fwd c) (loaded c) false (pk c)
           (cs_closed (cs c)) (os c) RNone x.

  Definition sig_in (ch : N) (c : circ) : circ * Z :=
    if N.eqb (fst (ck c)) ch then
      match ist c with
      | ISettledU p => (commit_in c (ISettledC p), Z.of_N (ain c))
      | IFailedU => (commit_in c IFailedC, 0%Z)
      | _ => (c, 0%Z)
      end
    else (c, 0%Z).

  Definition sig1 (ch : N) (c : circ) : circ * Z :=
    let '(c1, d1) := sig_out ch c in
    let '(c2, d2) := sig_in ch c1 in
    (c2, (d1 + d2)%Z).

  (* Node restart. *)
  Definition restart1 (c : circ) : circ :=
    let i := match ist c with
             | ISettledU _ => ILocked | IFailedU => ILocked | x => x end in
    let '(s, o) := match cs c, os c with
                   | COpen, OAdded _ => (CHalf, ONone)     (* keystone trimmed *)
                   | x, OAdded _ => (x, ONone)
                   | x, y => (x, y)
                   end in
    let ld := match s with CHalf => true | COpen => true | _ => false end in
    mkCirc (ck c) (chash c) (ain c) (aout c) (ochan c) (fwd c) ld false false s o RNone i.

  (* Restart of the single link of channel ch.  Incoming side: unsigned
     settle/fail lost, the response is still in the mailbox.  Outgoing side:
     an unsigned add is lost, its keystone trimmed, and the add packet is back
     in the mailbox (it is acked only by the signature that commits it). *)
  Definition lrestart_in (ch : N) (c : circ) : circ :=
    if N.eqb (fst (ck c)) ch then
      match ist c with
      | ISettledU _ => set_ist c ILocked
      | IFailedU => set_ist c ILocked
      | _ => c
      end
    else c.

  Definition lrestart_out (ch : N) (c : circ) : circ :=
    if N.eqb (ochan c) ch then
      match os c with
      | OAdded _ =>
        mkCirc (ck c) (chash c) (ain c) (aout c) (ochan c) (fwd c) (loaded c) (closing c) true
               (match cs c with COpen => CHalf | x => x end) ONone (mb c) (ist c)
      | _ => c
      end
    else c.

  Definition lrestart1 (ch : N) (c : circ) : circ := lrestart_in ch (lrestart_out ch c).

  Record state := mkState { circs : list circ; bal : N -> Z }.

  Fixpoint find (k : key) (l : list circ) : option circ :=
    match l with
    | [] => None
    | c :: r => if key_eqb k (ck c) then Some c else find k r
    end.

  Fixpoint upd (k : key) (c' : circ) (l : list circ) : list circ :=
    match l with
    | [] => []
    | c :: r => if key_eqb k (ck c) then c' :: r else c :: upd k c' r
    end.

  Definition badd (b : N -> Z) (ch : N) (d : Z) : N -> Z :=
    fun x => if N.eqb x ch then (b x + d)%Z else b x.

  Fixpoint sumZ (l : list Z) : Z :=
    match l with [] => 0%Z | x :: r => (x + sumZ r)%Z end.

  Definition new_circ (k : key) (h ai ao oc : N) : circ :=
    mkCirc k h ai ao oc false false false false CNone ONone RNone ILocked.

  Definition step (st : state) (e : event) : option state :=
    match e with
    | ELockIn k h ai ao oc =>
      match find k (circs st) with
      | Some _ => None
      | None => Some (mkState (new_circ k h ai ao oc :: circs st) (bal st))
      end
    | ECirc k a =>
      match find k (circs st) with
      | None => None
      | Some c =>
        match act c a with
        | None => None
        | Some (c', d) => Some (mkState (upd k c' (circs st)) (badd (bal st) (ochan c) d))
        end
      end
    | ESig ch =>
      if existsb (unsafe_sig ch) (circs st) then None
      else Some (mkState (map (fun c => fst (sig1 ch c)) (circs st))
                         (badd (bal st) ch (sumZ (map (fun c => snd (sig1 ch c)) (circs st)))))
    | ERestart => Some (mkState (map restart1 (circs st)) (bal st))
    | ELinkRestart ch => Some (mkState (map (lrestart1 ch) (circs st)) (bal st))
    end.

  Fixpoint run (st : state) (evs : list event) : option state :=
    match evs with
    | [] => Some st
    | e :: r => match step st e with None => None | Some st' => run st' r end
    end.

  Definition init (b0 : N -> Z) : state := mkState [] b0.

  (* ---- observables / property predicates (executable) ---- *)

  Definition in_settled (c : circ) : bool :=
    match ist c with ISettledU _ => true | ISettledC _ => true | _ => false end.
  Definition in_failed (c : circ) : bool :=
    match ist c with IFailedU => true | IFailedC => true | _ => false end.
  Definition succeeded (c : circ) : bool :=
    match ist c with ISettledC _ => true | _ => false end.
  Definition resolved (c : circ) : bool :=
    match ist c with ISettledC _ => true | IFailedC => true | _ => false end.
  Definition out_settled (c : circ) : bool :=
    match os c with OSettled _ _ => true | _ => false end.
  Definition out_dead (c : circ) : bool :=
    match os c with ONone => true | OFailed _ => true | _ => false end.
  Definition out_active (c : circ) : bool :=
    match os c with OAdded _ => true | OCommitted _ => true | _ => false end.
  Definition circ_pending (c : circ) : bool :=
    match cs c with CHalf => true | COpen => true | _ => false end.
  Definition circ_open (c : circ) : bool :=
    match cs c with COpen => true | _ => false end.

  (* every incoming HTLC has been resolved by a signed commitment *)
  Definition quiescent (st : state) : bool := forallb resolved (circs st).

  Definition count (f : circ -> bool) (l : list circ) : N :=
    N.of_nat (length (filter f l)).
  Definition num_pending (st : state) : N := count circ_pending (circs st).
  Definition num_open (st : state) : N := count circ_open (circs st).

  Definition sum_over (f : circ -> bool) (g : circ -> Z) (l : list circ) : Z :=
    sumZ (map (fun c => if f c then g c else 0%Z) l).

  Definition zin (c : circ) : Z := Z.of_N (ain c).
  Definition zout (c : circ) : Z := Z.of_N (aout c).
  Definition fee (c : circ) : Z := (zin c - zout c)%Z.

  Definition in_chan (ch : N) (c : circ) : bool := N.eqb (fst (ck c)) ch.
  Definition out_chan (ch : N) (c : circ) : bool := N.eqb (ochan c) ch.

  Definition sender_debits (st : state) : Z := sum_over in_settled zin (circs st).
  Definition receiver_credits (st : state) : Z := sum_over out_settled zout (circs st).
  Definition fees_earned (st : state) : Z := sum_over succeeded fee (circs st).

  (* expected balance of the forwarder on channel ch at quiescence *)
  Definition expected_bal (b0 : N -> Z) (st : state) (ch : N) : Z :=
    (b0 ch + sum_over (fun c => in_chan ch c && succeeded c) zin (circs st)
           - sum_over (fun c => out_chan ch c && succeeded c) zout (circs st))%Z.

End Model.
