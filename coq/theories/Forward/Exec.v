(* C08 trace recogniser: the model instantiated with SHA-256 must ACCEPT the
   event trace observed on the real three-hop fixture (every event enabled in
   the model state it is applied to), and the model's end state must agree
   with the observed end state (balances of the forwarder's two channel ends,
   NumPending / NumOpen of the circuit map, quiescence). *)
From Coq Require Import List NArith ZArith Bool.
From LV Require Import Common.Sha256 Forward.Model.
Import ListNotations.
Local Open Scope N_scope.

Fixpoint of_be (bs : list N) (acc : N) : N :=
  match bs with [] => acc | b :: r => of_be r (acc * 256 + b) end.

(* payment hash of a 32-byte preimage given as a big-endian number *)
Definition Hx (p : N) : N := of_be (sha256 (be_bytes 32 p)) 0.

Definition xact := act Hx.
Definition xstep := step Hx.
Definition xrun := run Hx.

Fixpoint alookup (l : list (N * Z)) (ch : N) : Z :=
  match l with
  | [] => 0%Z
  | (c, v) :: r => if N.eqb c ch then v else alookup r ch
  end.

(* index of the first rejected event, or the final state *)
Fixpoint accept (st : state) (evs : list event) (i : N) : N + state :=
  match evs with
  | [] => inr st
  | e :: r =>
    match xstep st e with
    | None => inl i
    | Some st' => accept st' r (i + 1)
    end
  end.

(* end-state observation: forwarder balances per channel, NumPending, NumOpen,
   whether the harness reached quiescence *)
Definition obs := (list (N * Z) * N * N * bool)%type.
Definition tcase := (list (N * Z) * list event * obs)%type.

Definition all_resolved (st : state) : bool := quiescent st.
Definition no_active (st : state) : bool :=
  forallb (fun c => negb (out_active c) && negb (pk c) &&
                    match mb c with RNone => true | _ => false end) (circs st).

Definition check_case (c : tcase) : list N :=
  let '(b0, evs, (fb, np, no, q)) := c in
  let n := N.of_nat (length evs) in
  match accept (init (alookup b0)) evs 0 with
  | inl i => [i]
  | inr st =>
    if q then
      (if all_resolved st && no_active st then [] else [n]) ++
      (if forallb (fun cv => Z.eqb (bal st (fst cv)) (snd cv)) fb then [] else [n + 1]) ++
      (if forallb (fun cv => Z.eqb (expected_bal (alookup b0) st (fst cv)) (snd cv)) fb
       then [] else [n + 2]) ++
      (if N.eqb (num_pending st) np then [] else [n + 3]) ++
      (if N.eqb (num_open st) no then [] else [n + 4])
    else []
  end.

Fixpoint mismatches (cases : list tcase) (i : N) : list (N * list N) :=
  match cases with
  | [] => []
  | c :: r =>
    match check_case c with
    | [] => mismatches r (i + 1)
    | bad => (i, bad) :: mismatches r (i + 1)
    end
  end.
