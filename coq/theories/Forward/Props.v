(* C08 — property theorems of the forwarding model (statements only; proofs in
   Proofs.v).  H is the payment-hash function: arbitrary, no hypothesis.
   All theorems quantify over EVERY event sequence accepted by the model from
   the empty initial state (any interleaving of lock-ins, forwards, switch /
   link failures, outgoing adds, keystone writes, signatures, downstream
   settles / fails, circuit closes, incoming settles / fails and node
   restarts, over any number of circuits and channels). *)
From Coq Require Import List NArith ZArith Bool.
From LV Require Import Forward.Model Forward.Proofs.
Import ListNotations.
Local Open Scope N_scope.

(* An incoming HTLC is settled (in the update log or signed) only with a
   preimage p that hashes to its payment hash and that was delivered by a
   settle of its paired outgoing HTLC. *)
Theorem C08_settle_needs_preimage :
  forall (H : N -> N) (b0 : N -> Z) (evs : list event) (st : state) (c : circ) (p : N),
    run H (init b0) evs = Some st -> In c (circs st) ->
    ist c = ISettledU p \/ ist c = ISettledC p ->
    H p = chash c /\ exists ok, os c = OSettled ok p.
Proof. exact settle_needs_preimage. Qed.

(* Trace form: whenever the incoming link settles circuit k with p, an
   update_fulfill with that very p was received earlier on k's outgoing HTLC. *)
Theorem C08_settle_needs_preimage_trace :
  forall (H : N -> N) (b0 : N -> Z) (evs : list event) (st : state) (k : key) (p : N),
    run H (init b0) (evs ++ [ECirc k (AInSettle p)]) = Some st ->
    exists ok, In (ECirc k (AOutSettle ok p)) evs.
Proof. exact settle_needs_preimage_trace. Qed.

(* An incoming HTLC is failed back (update log or signed) only while its
   outgoing twin either does not exist (never committed: no HTLC in the
   outgoing update log, no add packet in flight) or has been irrevocably
   removed (fail locked in). *)
Theorem C08_fail_back_safe :
  forall (H : N -> N) (b0 : N -> Z) (evs : list event) (st : state) (c : circ),
    run H (init b0) evs = Some st -> In c (circs st) ->
    ist c = IFailedU \/ ist c = IFailedC ->
    (os c = ONone \/ exists ok, os c = OFailed ok) /\ pk c = false.
Proof. exact fail_back_safe. Qed.

(* ... and once the fail-back is signed, whatever happens afterwards the
   circuit stays failed and its outgoing twin never comes (back) to life. *)
Theorem C08_fail_back_final :
  forall (H : N -> N) (b0 : N -> Z) (evs evs' : list event) (st st' : state) (c : circ),
    run H (init b0) evs = Some st -> In c (circs st) -> ist c = IFailedC ->
    run H st evs' = Some st' ->
    exists c', In c' (circs st') /\ ck c' = ck c /\ ist c' = IFailedC /\ os c' = os c /\
               (os c' = ONone \/ exists ok, os c' = OFailed ok).
Proof. exact fail_back_final. Qed.

(* In every reachable state in which all incoming HTLCs are resolved by a
   signed commitment: hops settled together (incoming settled <-> outgoing
   settled), nothing dangles (no active outgoing HTLC, no packet in flight,
   empty mailboxes, NumPending = NumOpen = 0), the forwarder's balance on
   every channel is its initial balance plus what succeeded forwards brought
   in minus what they paid out, and sender debits = receiver credits + fees. *)
Theorem C08_quiescent_balance :
  forall (H : N -> N) (b0 : N -> Z) (evs : list event) (st : state),
    run H (init b0) evs = Some st -> quiescent st = true ->
    (forall c, In c (circs st) ->
       (succeeded c = true <-> out_settled c = true) /\ out_active c = false /\
       pk c = false /\ mb c = RNone /\ circ_pending c = false) /\
    num_pending st = 0 /\ num_open st = 0 /\
    (forall ch, bal st ch = expected_bal b0 st ch) /\
    sender_debits st = (receiver_credits st + fees_earned st)%Z.
Proof. exact quiescent_balance. Qed.

(* Two-channel corollary: forwarder total = initial total + exactly the fees
   of the forwards that succeeded. *)
Theorem C08_quiescent_total :
  forall (H : N -> N) (b0 : N -> Z) (evs : list event) (st : state) (c1 c2 : N),
    run H (init b0) evs = Some st -> quiescent st = true -> c1 <> c2 ->
    (forall c, In c (circs st) ->
       (fst (ck c) = c1 \/ fst (ck c) = c2) /\ (ochan c = c1 \/ ochan c = c2)) ->
    (bal st c1 + bal st c2 = b0 c1 + b0 c2 + fees_earned st)%Z.
Proof. exact quiescent_total. Qed.
