(* C18 bridge (tie T1): the integer helpers of the sweeper REGENERATED from the
   lnd tree (Gen/GenArith.v: calcCurrentConfTarget, SatPerKWeight.FeeForWeight)
   equal the hand-written model Sweep/Model.v that the C18 theorems are stated
   about.  A source edit of sweep/fee_bumper.go calcCurrentConfTarget or of
   lnwallet/chainfee FeeForWeight changes the generated side and breaks a
   lemma here. *)
From Coq Require Import ZArith Bool Lia.
From LV Require Import Sweep.Model.
From LV Require Import Gen.GenConsts Gen.GenArith.
From LV Require Common.GoInt.
Local Open Scope Z_scope.

Lemma gen_wrap32s_eq x : GoInt.wrap_i32 x = wrap32s x.
Proof. reflexivity. Qed.

Lemma gen_wrap64_eq x : GoInt.wrap_i64 x = wrap64 x.
Proof. reflexivity. Qed.

(* calcCurrentConfTarget(currentHeight, deadline): int32 subtraction, capped
   at 0, converted to uint32 (the conversion is exact on the non-negative arm) *)
Lemma gen_calc_conf_target_eq : forall cur deadline : Z,
  sweep_calcCurrentConfTarget cur deadline = calc_conf_target cur deadline.
Proof.
  intros. unfold sweep_calcCurrentConfTarget, calc_conf_target.
  rewrite gen_wrap32s_eq. set (d := wrap32s (deadline - cur)).
  destruct (Z.ltb_spec d 0) as [|Hd]; [reflexivity|].
  apply GoInt.wrap_u32_small.
  pose proof (GoInt.wrap_i32_range (deadline - cur)) as Hr.
  rewrite gen_wrap32s_eq in Hr. fold d in Hr.
  unfold GoInt.in_i32 in Hr. unfold GoInt.in_u32. lia.
Qed.

(* SatPerKWeight.FeeForWeight(wu): int64(s) * int64(wu) / 1000 for a weight
   below 2^63 (the uint64 -> int64 conversion of the weight is then exact) *)
Lemma gen_fee_for_weight_eq : forall rate w : Z,
  0 <= w < 9223372036854775808 ->
  chainfee_SatPerKWeight_FeeForWeight rate w = fee_for_weight rate w.
Proof.
  intros rate w Hw. unfold chainfee_SatPerKWeight_FeeForWeight, fee_for_weight.
  rewrite (GoInt.wrap_i64_small w) by (unfold GoInt.in_i64; lia).
  rewrite gen_wrap64_eq. reflexivity.
Qed.

(* The non-vacuity examples of Sweep/Examples.v use the relay fee floor 253
   sat/kw; it is chainfee.FeePerKwFloor of the tree, and the premises of the
   C18 theorems hold at the generated value. *)
From LV Require Sweep.Final Sweep.Examples.

Lemma gen_ex_premises_at_floor :
  Sweep.Final.ff_premises 10000 10 chainfee_FeePerKwFloor None.
Proof. exact Sweep.Examples.ex_premises. Qed.

Lemma gen_floor_order : chainfee_AbsoluteFeePerKwFloor <= chainfee_FeePerKwFloor.
Proof. discriminate. Qed.
