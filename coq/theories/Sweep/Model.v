(* Executable model of lnd/sweep's fee function and sweep-tx fee/budget/dust
   arithmetic (C18).  Definitions only; proofs in Proofs.v / FloatProofs.v,
   property theorems in Props.v.

   Anchors (lnd):
     sweep/fee_function.go   NewLinearFeeFunction, feeRateAtPosition,
                             Increment, IncreaseFeeRate, increaseFeeRate,
                             estimateFeeRate
     sweep/walletsweep.go    FeeEstimateInfo.Estimate (conf-target arm)
     sweep/fee_bumper.go     BumpRequest.MaxFeeRateAllowed, calcCurrentConfTarget,
                             prepareSweepTx, createSweepTx (in/out layout),
                             createAndCheckTx (budget guard),
                             createRBFCompliantTx (retry loop), handleFeeBumpTx
     lnwallet/chainfee/rates.go  NewSatPerKWeight, FeeForWeight
     btcutil/amount.go       Amount.MulF64, round

   float64 is Flocq's binary_float 53 1024 (BinarySingleNaN: NaN payloads
   are irrelevant here), rounding mode nearest-even, exactly as Go. *)
From Coq Require Import ZArith List Bool.
From Flocq Require Import Core IEEE754.BinarySingleNaN.
Import ListNotations.
Local Open Scope Z_scope.

(* ------------------------------------------------------------------ *)
(* float64                                                             *)

#[global] Instance Hprec64 : Prec_gt_0 53 := eq_refl.
#[global] Instance Hemax64 : Prec_lt_emax 53 1024 := eq_refl.
Definition f64 := binary_float 53 1024.

(* Go: float64(x) for an integer x (int64 / uint32 / uint64 < 2^63) *)
Definition f_of_Z (z : Z) : f64 := binary_normalize 53 1024 _ _ mode_NE z 0 false.
Definition f_mul : f64 -> f64 -> f64 := Bmult mode_NE.
Definition f_div : f64 -> f64 -> f64 := Bdiv mode_NE.
Definition f_add : f64 -> f64 -> f64 := Bplus mode_NE.
Definition f_sub : f64 -> f64 -> f64 := Bminus mode_NE.
Definition f_zero : f64 := B754_zero false.
Definition f_half : f64 := f_div (f_of_Z 1) (f_of_Z 2).
Definition f_1000 : f64 := f_of_Z 1000.

(* btcutil: func round(f float64) Amount {
     if f < 0 { return Amount(f - 0.5) }; return Amount(f + 0.5) }
   Amount(float) truncates toward zero (in int64 range; see in_i64). *)
Definition go_round (f : f64) : Z :=
  if Bltb f f_zero then Btrunc (f_sub f f_half) else Btrunc (f_add f f_half).

(* btcutil: func (a Amount) MulF64(f float64) Amount { return round(float64(a) * f) } *)
Definition mulf64 (a : Z) (f : f64) : Z := go_round (f_mul (f_of_Z a) f).

(* Amount(x).MulF64(1000 / float64(w)):
     fee_function.go:162  delta := Amount(end-start).MulF64(1000/float64(l.width))
     rates.go:64          NewSatPerKWeight(fee, wu) *)
Definition f_scale_delta (diff w : Z) : Z := mulf64 diff (f_div f_1000 (f_of_Z w)).

(* fee_function.go:276  Amount(l.deltaFeeRate).MulF64(float64(p) / 1000) *)
Definition f_scale_pos (delta p : Z) : Z := mulf64 delta (f_div (f_of_Z p) f_1000).

(* ------------------------------------------------------------------ *)
(* fixed-width integers                                                *)

Definition wrap64 (z : Z) : Z := (z + 2 ^ 63) mod 2 ^ 64 - 2 ^ 63.   (* int64 *)
Definition wrap32s (z : Z) : Z := (z + 2 ^ 31) mod 2 ^ 32 - 2 ^ 31.  (* int32 *)
Definition in_i64 (z : Z) : bool := (- 2 ^ 63 <=? z) && (z <? 2 ^ 63).

Inductive err :=
| ErrMaxPosition        (* sweep.ErrMaxPosition *)
| ErrZeroFeeRateDelta   (* sweep.ErrZeroFeeRateDelta *)
| ErrEstimator          (* estimator.EstimateFeePerKW failed *)
| ErrFeeTooLow          (* sweep.ErrFeePreferenceTooLow *)
| ErrNotEnoughInputs    (* sweep.ErrNotEnoughInputs *)
| ErrTxNoOutput         (* sweep.ErrTxNoOutput *)
| ErrNotEnoughBudget    (* sweep.ErrNotEnoughBudget *)
| ErrMempoolOther       (* non fee-related testmempoolaccept failure *)
| ErrOutOfFuel.         (* model artefact: verdict script exhausted *)

Inductive res (A : Type) := Ok (a : A) | Err (e : err).
Arguments Ok {A} a.
Arguments Err {A} e.

(* chainfee.Estimator answers for one EstimateFeePerKW call *)
Inductive est_answer := EstOk (r : Z) | EstErr.

Definition max_block_target : Z := 1008.     (* chainfee.MaxBlockTarget *)

(* fee function state: LinearFeeFunction *)
Record ff := mkFF {
  ff_start : Z;   (* startingFeeRate, sat/kw *)
  ff_end : Z;     (* endingFeeRate *)
  ff_cur : Z;     (* currentFeeRate *)
  ff_width : Z;   (* uint32 *)
  ff_pos : Z;     (* uint32 *)
  ff_delta : Z    (* deltaFeeRate, msat/kw *)
}.

Section Generic.
  (* The two float64 scalings.  The integer-level development is generic in
     them; Exec.v and Props.v instantiate f_scale_delta / f_scale_pos. *)
  Variable sdelta : Z -> Z -> Z.
  Variable spos : Z -> Z -> Z.

  (* walletsweep.go FeeEstimateInfo{ConfTarget: c}.Estimate(estimator, maxFeeRate), c <> 0 *)
  Definition estimate (relay : Z) (ans : est_answer) (maxr : Z) : res Z :=
    match ans with
    | EstErr => Err ErrEstimator
    | EstOk r =>
      if r <? relay then Err ErrFeeTooLow
      else if negb (maxr =? 0) && (maxr <? r) then Ok maxr
      else Ok r
    end.

  (* fee_function.go estimateFeeRate *)
  Definition estimate_fee_rate (relay : Z) (ans : est_answer) (conf endr : Z) : res Z :=
    if max_block_target <=? conf then Ok relay else estimate relay ans endr.

  (* fee_function.go NewLinearFeeFunction *)
  Definition new_ff (maxr conf relay : Z) (ans : est_answer) (start_opt : option Z) : res ff :=
    if conf <=? 1 then Ok (mkFF maxr maxr maxr 0 0 0)
    else
      let width := conf - 1 in
      match (match start_opt with
             | Some s => Ok s
             | None => estimate_fee_rate relay ans conf maxr
             end) with
      | Err e => Err e
      | Ok start0 =>
        (* fee_function.go (lnd commit 1567bc7): if start > end { start = end }
           - applies to the supplied start, the relay fee used for conf
           targets >= 1008 and the estimate left unclamped when end = 0 *)
        let start := if maxr <? start0 then maxr else start0 in
        let delta := sdelta (wrap64 (maxr - start)) width in
        if (delta =? 0) && negb (width =? 1) then Err ErrZeroFeeRateDelta
        else Ok (mkFF start maxr start width 0 delta)
      end.

  (* fee_function.go feeRateAtPosition *)
  Definition rate_at_pos (f : ff) (p : Z) : Z :=
    if ff_width f <=? p then ff_end f
    else
      let r := wrap64 (ff_start f + spos (ff_delta f) p) in
      if ff_end f <? r then ff_end f else r.

  (* fee_function.go increaseFeeRate(position) *)
  Definition increase_to (f : ff) (p : Z) : res (ff * bool) :=
    if ff_width f <=? ff_pos f then Err ErrMaxPosition
    else
      let r := rate_at_pos f p in
      Ok (mkFF (ff_start f) (ff_end f) r (ff_width f) p (ff_delta f), ff_cur f <? r).

  Definition increment (f : ff) : res (ff * bool) := increase_to f (ff_pos f + 1).

  (* fee_function.go IncreaseFeeRate(confTarget) *)
  Definition increase_by_conf (f : ff) (conf : Z) : res (ff * bool) :=
    let newp := if conf <? ff_width f + 1 then ff_width f + 1 - conf else 0 in
    if newp <=? ff_pos f then Ok (f, false) else increase_to f newp.

  (* fee_bumper.go calcCurrentConfTarget (int32 arithmetic) *)
  Definition calc_conf_target (cur deadline : Z) : Z :=
    let d := wrap32s (deadline - cur) in
    if d <? 0 then 0 else d.

  (* fee_bumper.go MaxFeeRateAllowed, given the tx weight *)
  Definition max_fee_rate_allowed (budget size maxr : Z) : Z :=
    let r := sdelta budget size in
    if maxr <? r then maxr else r.

  (* rates.go FeeForWeight: Amount(s) * Amount(wu) / 1000 (int64, truncating) *)
  Definition fee_for_weight (rate w : Z) : Z := Z.quot (wrap64 (rate * w)) 1000.

  (* ---- sweep tx ---- *)
  (* an input: value of the spent output, optional required output value *)
  Record inp := mkInp { in_id : Z; in_value : Z; in_req : option Z }.

  Definition has_req (i : inp) : bool := match in_req i with Some _ => true | None => false end.
  Definition req_val (i : inp) : Z := match in_req i with Some v => v | None => 0 end.
  Definition sumZ (l : list Z) : Z := fold_right Z.add 0 l.
  Definition total_in (ins : list inp) : Z := sumZ (map in_value ins).
  Definition total_req (ins : list inp) : Z := sumZ (map req_val ins).

  Record stx := mkTx {
    tx_ins : list inp;      (* inputs in tx order *)
    tx_outs : list Z;       (* required outputs (in order) then change *)
    tx_change : option Z;   (* change output value, if any *)
    tx_fee : Z              (* fee reported by prepareSweepTx *)
  }.

  (* fee_bumper.go prepareSweepTx + createSweepTx's in/out layout;
     weight comes from the real weight estimator (input of the model) *)
  Definition create_sweep_tx (ins : list inp) (weight rate floor : Z) : res stx :=
    let fee := fee_for_weight rate weight in
    let tin := total_in ins in
    let treq := total_req ins in
    if tin <? treq + fee then Err ErrNotEnoughInputs
    else
      let change := tin - treq - fee in
      let ordered := filter has_req ins ++ filter (fun i => negb (has_req i)) ins in
      let reqouts := map req_val (filter has_req ins) in
      if change <? floor then
        if treq =? 0 then Err ErrTxNoOutput
        else Ok (mkTx ordered reqouts None (fee + change))
      else Ok (mkTx ordered (reqouts ++ [change]) (Some change) fee).

  (* mempool verdict on a candidate tx (oracle) *)
  Inductive verdict := VAccept | VFee | VOther.

  (* fee_bumper.go createAndCheckTx up to the budget guard (the mempool
     verdict is consumed by the callers below) *)
  Definition create_checked (ins : list inp) (weight floor budget rate : Z) : res stx :=
    match create_sweep_tx ins weight rate floor with
    | Err e => Err e
    | Ok tx => if budget <? tx_fee tx then Err ErrNotEnoughBudget else Ok tx
    end.

  (* inner loop of createRBFCompliantTx: for !increased { increased, err = f.Increment() } *)
  Fixpoint bump_until_increased (fuel : nat) (f : ff) : res ff :=
    match fuel with
    | O => Err ErrOutOfFuel
    | S k =>
      match increment f with
      | Err e => Err e
      | Ok (f', true) => Ok f'
      | Ok (f', false) => bump_until_increased k f'
      end
    end.

  (* fee_bumper.go createRBFCompliantTx; one mempool verdict is consumed per
     candidate that passes the budget guard *)
  Fixpoint rbf_loop (vs : list verdict) (ins : list inp) (weight floor budget : Z) (f : ff)
    : res (ff * stx) :=
    match create_checked ins weight floor budget (ff_cur f) with
    | Err e => Err e
    | Ok tx =>
      match vs with
      | [] => Err ErrOutOfFuel
      | VAccept :: _ => Ok (f, tx)
      | VOther :: _ => Err ErrMempoolOther
      | VFee :: vs' =>
        match bump_until_increased (Z.to_nat (ff_width f) + 1) f with
        | Err e => Err e
        | Ok f' => rbf_loop vs' ins weight floor budget f'
        end
      end
    end.

  (* fee_bumper.go handleFeeBumpTx + createAndPublishTx at a new block:
     None = nothing published (not increased / fee-related rejection / error) *)
  Definition bump_at_block (ins : list inp) (weight floor budget : Z) (f : ff)
             (height deadline : Z) (v : verdict) : ff * option stx :=
    match increase_by_conf f (calc_conf_target height deadline) with
    | Err _ => (f, None)
    | Ok (f', false) => (f', None)
    | Ok (f', true) =>
      match create_checked ins weight floor budget (ff_cur f') with
      | Err _ => (f', None)
      | Ok tx => match v with VAccept => (f', Some tx) | _ => (f', None) end
      end
    end.

  (* fee_bumper.go handleInitialBroadcast: initializeFeeFunction
     (MaxFeeRateAllowed, calcCurrentConfTarget, NewLinearFeeFunction) then
     createRBFCompliantTx; Ok = the tx handed to PublishTransaction *)
  Definition initial_broadcast (ins : list inp) (weight floor budget maxrate h0 deadline relay : Z)
             (ans : est_answer) (start_opt : option Z) (vs : list verdict) : res (ff * stx) :=
    let endr := max_fee_rate_allowed budget weight maxrate in
    let conf := calc_conf_target h0 deadline in
    match new_ff endr conf relay ans start_opt with
    | Err e => Err e
    | Ok f => rbf_loop vs ins weight floor budget f
    end.
End Generic.

(* ------------------------------------------------------------------ *)
(* tx_input_set.go: BudgetInputSet budget / wallet-input top-up        *)

Record binp := mkB { b_value : Z; b_budget : Z; b_req : bool }.

(* NeedWalletInput: budgetNeeded (extraBudget + budgets of required-output
   inputs) vs budgetBorrowable (value - budget of the other inputs) *)
Definition budget_needed (extra : Z) (l : list binp) : Z :=
  extra + sumZ (map (fun i => if b_req i then b_budget i else 0) l).
Definition budget_borrowable (l : list binp) : Z :=
  sumZ (map (fun i => if b_req i then 0 else b_value i - b_budget i) l).
Definition need_wallet_input (extra : Z) (l : list binp) : bool :=
  budget_borrowable l <? budget_needed extra l.

(* Budget() and inputAmts()'s spendable amount *)
Definition set_budget (extra : Z) (l : list binp) : Z := sumZ (map b_budget l) + extra.
Definition spendable (l : list binp) : Z :=
  sumZ (map (fun i => if b_req i then 0 else b_value i) l).

Inductive topup := TopSatisfied | TopExhausted | TopNotEnoughInputs.

(* AddWalletInputs over the wallet utxo values sorted ascending: wallet
   inputs carry budget 0 and no required output *)
Fixpoint add_wallet_inputs (extra : Z) (l : list binp) (utxos : list Z) : list binp * topup :=
  match utxos with
  | [] => (l, if existsb (fun i => negb (b_req i)) l then TopExhausted else TopNotEnoughInputs)
  | u :: r =>
    let l' := l ++ [mkB u 0 false] in
    if need_wallet_input extra l' then add_wallet_inputs extra l' r else (l', TopSatisfied)
  end.

(* ------------------------------------------------------------------ *)
(* sweeper.go / tx_input_set.go: where a BumpRequest's StartingFeeRate   *)
(* comes from                                                            *)

(* tx_input_set.go BudgetInputSet.StartingFeeRate():
     maxFeeRate := 0; startingFeeRate := None
     for inp in inputs { feerate := inp.params.StartingFeeRate.UnwrapOr(0)
                         if feerate > maxFeeRate { maxFeeRate = feerate
                                                   startingFeeRate = Some(maxFeeRate) } }
   i.e. the largest POSITIVE per-input starting rate; an input without one -
   and an input carrying Some 0 - does not contribute (the set then has no
   starting rate and the fee function asks the estimator). *)
Definition set_start_step (acc : Z * option Z) (o : option Z) : Z * option Z :=
  let fr := match o with Some r => r | None => 0 end in
  if fst acc <? fr then (fr, Some fr) else acc.
Definition set_starting_fee_rate (starts : list (option Z)) : option Z :=
  snd (fold_left set_start_step starts (0, None)).

(* sweeper.go markInputsPublishFailed: every input of the failed set gets
     pi.params.StartingFeeRate = fn.Some(result.FeeRate)
   where result.FeeRate is 0 when the attempt failed before a tx existed
   (ErrZeroFeeRateDelta, ErrTxNoOutput: handleInitialTxError leaves it unset)
   and the fee function's (next) rate otherwise. *)
Definition retry_start (result_rate : Z) : option Z := Some result_rate.

(* the same with the previously stored rate made explicit: it is IGNORED (the
   real code overwrites it unconditionally, also with 0 - finding C18-F2) *)
Definition mark_publish_failed (stored : option Z) (result_rate : Z) : option Z :=
  retry_start result_rate.

(* fee_bumper.go: the FeeRate carried by the TxFailed result of an attempt.
     handleInitialTxError: ErrZeroFeeRateDelta / ErrTxNoOutput  -> left at 0 (no tx existed)
     broadcast() with a PublishTransaction error                -> the fee function's rate *)
Inductive attempt_failure := FailNoTx | FailAtRate (rate : Z).
Definition failed_result_rate (a : attempt_failure) : Z :=
  match a with FailNoTx => 0 | FailAtRate r => r end.

(* ------------------------------------------------------------------ *)
(* weight_estimator.go: child-pays-for-parent                           *)

(* an input's unconfirmed parent (input.UnconfParent()): the parent tx (keyed
   by the input's outpoint hash), its fee and its weight *)
Record parent := mkPar { par_tx : Z; par_fee : Z; par_weight : Z }.

(* weightEstimator.tryAddParent over the inputs in order: a parent tx is
   counted once; parentFeeRate = fee * 1000 / weight (int64, truncating); a
   parent paying at least the sweep's fee rate is ignored *)
Fixpoint add_parents (rate : Z) (ps : list (option parent)) (seen : list Z) (pf pw : Z) : Z * Z :=
  match ps with
  | [] => (pf, pw)
  | None :: r => add_parents rate r seen pf pw
  | Some p :: r =>
    if existsb (Z.eqb (par_tx p)) seen then add_parents rate r seen pf pw
    else if rate <=? Z.quot (wrap64 (par_fee p * 1000)) (par_weight p)
         then add_parents rate r seen pf pw
         else add_parents rate r (par_tx p :: seen) (pf + par_fee p) (pw + par_weight p)
  end.

(* weightEstimator.fee(): parents are NOT taken into account *)
Definition west_fee (rate w : Z) : Z := Z.quot (wrap64 (rate * w)) 1000.

(* weightEstimator.feeWithParent(): fee of the package minus what the parents
   paid, at least the child's own fee, clamped to maxFeeRate * childWeight
   unless maxFeeRate = 0 *)
Definition west_fee_with_parent (rate maxr w pf pw : Z) : Z :=
  let cf := west_fee rate w in
  let fee0 := west_fee rate (w + pw) - pf in
  let fee := if fee0 <? cf then cf else fee0 in
  if maxr =? 0 then fee
  else let mf := west_fee maxr w in if mf <? fee then mf else fee.

(* fee_bumper.go prepareSweepTx - the fee of EVERY tx the TxPublisher makes:
     _, estimator, _ := getWeightEstimate(inputs, nil, feeRate, 0, changePkScripts)
     txFee := estimator.fee()
   whatever unconfirmed parents the inputs have.  (feeWithParent is used only by
   txgenerator.go createSweepTx = walletsweep.go CraftSweepAllTx, which passes its
   own maxFeeRate; the publisher's estimator is built with maxFeeRate 0, i.e.
   WITHOUT the clamp.) *)
Definition prepare_fee (rate w : Z) (ps : list (option parent)) : Z := west_fee rate w.

(* concrete instances used by Exec.v and Props.v *)
Definition new_ff64 := new_ff f_scale_delta.
Definition rate_at_pos64 := rate_at_pos f_scale_pos.
Definition increment64 := increment f_scale_pos.
Definition increase_by_conf64 := increase_by_conf f_scale_pos.
Definition max_fee_rate_allowed64 := max_fee_rate_allowed f_scale_delta.
Definition rbf_loop64 := rbf_loop f_scale_pos.
Definition bump_at_block64 := bump_at_block f_scale_pos.
Definition initial_broadcast64 := initial_broadcast f_scale_delta f_scale_pos.
