(* Non-vacuity: the hypotheses of the C18 theorems are satisfied by concrete,
   non-trivial states, and the conclusions are not trivially true. *)
From Coq Require Import ZArith List Bool Lia.
From LV Require Import Sweep.Model Sweep.Proofs Sweep.Final.
Import ListNotations.
Local Open Scope Z_scope.

(* estimator path: ceiling 10000, conf target 10, relay 253, estimate 1000 *)
Example ex_premises : ff_premises 10000 10 253 None.
Proof. unfold ff_premises, start_ok, RMAX, WMAX. lia. Qed.

Example ex_new : exists f0, new_ff64 10000 10 253 (EstOk 1000) None = Ok f0 /\
  ff_cur f0 = 1000 /\ ff_delta f0 = 1000000 /\ ff_width f0 = 9.
Proof. eexists. split; [vm_compute; reflexivity|]. repeat split. Qed.

(* a real ramp: 9 blocks with one skipped height, ends exactly on the ceiling *)
Example ex_ramp :
  match new_ff64 10000 10 253 (EstOk 1000) None with
  | Ok f0 => map (fun ops => ff_cur (frun64 f0 ops))
                 [[]; [FConf 9]; [FConf 9; FConf 8]; [FConf 9; FConf 8; FConf 5];
                  [FConf 9; FConf 8; FConf 5; FConf 1]]
  | Err _ => []
  end = [1000; 2000; 3000; 6000; 10000].
Proof. vm_compute. reflexivity. Qed.

(* a supplied start ABOVE the ceiling satisfies the premises too (it is capped):
   the former refutation witness 500 / 10 / Some 1000 now starts at 500 *)
Example ex_premises_supplied : ff_premises 500 10 253 (Some 1000).
Proof. unfold ff_premises, start_ok, RMAX, WMAX. lia. Qed.

Example ex_clamped :
  match new_ff64 500 2 253 (EstOk 253) (Some 1000) with
  | Ok f0 => [ff_cur f0; ff_delta f0; ff_cur (fstep64 f0 FInc)]
  | Err _ => []
  end = [500; 0; 500].
Proof. vm_compute. reflexivity. Qed.

(* with width <> 1 the capped start has delta 0: ErrZeroFeeRateDelta, as on the
   estimator path *)
Example ex_clamped_zero_delta :
  new_ff64 500 10 253 (EstOk 253) (Some 1000) = Err ErrZeroFeeRateDelta.
Proof. vm_compute. reflexivity. Qed.

(* publisher: budget 20000 sat over 1000 wu, MaxFeeRate 250000; the mempool
   first asks for more fee, then accepts; three blocks follow *)
Definition ex_ins := [mkInp 0 100000 None; mkInp 1 50000 (Some 49000)].

Example ex_pub_nonempty :
  map (fun e => (fst e, tx_fee (snd e), tx_outs (snd e)))
      (pub_trace64 ex_ins 1000 330 20000 250000 100 110 253 (EstOk 1000) None
                   [VFee; VAccept] [(101, VAccept); (104, VAccept); (109, VAccept)])
  = [(3111, 3111, [49000; 97889]); (9444, 9444, [49000; 91556]); (20000, 20000, [49000; 81000])].
Proof. vm_compute. reflexivity. Qed.

Example ex_pub_premises :
  0 <= 20000 <= BMAX /\ 1 <= 1000 < WMAX /\ 0 <= 250000 <= RMAX /\
  start_ok 253 None.
Proof.
  unfold BMAX, WMAX, RMAX, start_ok. lia.
Qed.

(* the dust branch: change below the floor goes to the fee, no change output *)
Example ex_dust :
  create_checked [mkInp 0 1000 None; mkInp 1 5000 (Some 5000)] 1000 330 2000 800
  = Ok (mkTx [mkInp 1 5000 (Some 5000); mkInp 0 1000 None] [5000] None 1000).
Proof. vm_compute. reflexivity. Qed.

(* top-up: a second-level input (required output) with budget 3000 next to a
   1000-sat input with budget 200: needs 2200 more; wallet utxos 500, 1500, 9000 *)
Example ex_topup :
  add_wallet_inputs 0 [mkB 20000 3000 true; mkB 1000 200 false] [500; 1500; 9000]
  = ([mkB 20000 3000 true; mkB 1000 200 false; mkB 500 0 false; mkB 1500 0 false;
      mkB 9000 0 false], TopSatisfied).
Proof. vm_compute. reflexivity. Qed.

(* composed start (C18_retry_start_floor is not vacuous): a set made of an input
   whose first attempt failed before a tx existed (Some 0), a fresh input (None)
   and an input that failed at 1500 sat/kw restarts at 1500; a set with only
   Some 0 / None has no starting rate and starts at the estimate *)
Example ex_set_start :
  [set_starting_fee_rate [Some 0; None; Some 1500; Some 700];
   set_starting_fee_rate [Some 0; None]; set_starting_fee_rate []]
  = [Some 1500; None; None].
Proof. vm_compute. reflexivity. Qed.

Example ex_retry_premises : Forall (start_val_ok 253) [Some 0; None; Some 1500; Some 700].
Proof. repeat constructor; cbn; lia. Qed.

Example ex_retry_start :
  match new_ff64 10000 10 253 (EstOk 1000) (set_starting_fee_rate [Some 0; None]),
        new_ff64 10000 10 253 (EstOk 1000) (set_starting_fee_rate [Some 0; Some 1500]) with
  | Ok f, Ok g => [ff_cur f; ff_cur g]
  | _, _ => []
  end = [1000; 1500].
Proof. vm_compute. reflexivity. Qed.

(* why Some 0 must count as unset: handed to NewLinearFeeFunction verbatim it
   starts at 0 sat/kw, below the relay floor (the hypothesis start_val_ok of
   C18_retry_start_floor is about the stored rates, not about the set's rate) *)
Example ex_some0_verbatim_below_floor :
  match new_ff64 10000 10 253 (EstOk 1000) (Some 0) with
  | Ok f => ff_cur f | Err _ => -1 end = 0.
Proof. vm_compute. reflexivity. Qed.

(* C18_retry_monotone is not vacuous: an input whose wallet-refused tx was at
   1500 sat/kw, re-clustered with an input that failed before a tx existed:
   the retry starts at 1500, and at the (lower) new ceiling 1200 when re-clustering
   shrank budget/size *)
Example ex_retry_monotone :
  match new_ff64 10000 8 253 (EstOk 600)
          (set_starting_fee_rate [mark_publish_failed (Some 900) (failed_result_rate (FailAtRate 1500));
                                  mark_publish_failed None (failed_result_rate FailNoTx)]),
        new_ff64 1200 2 253 (EstOk 600)
          (set_starting_fee_rate [mark_publish_failed None (failed_result_rate (FailAtRate 1500))]) with
  | Ok f, Ok g => [ff_cur f; ff_cur g]
  | _, _ => []
  end = [1500; 1200].
Proof. vm_compute. reflexivity. Qed.
