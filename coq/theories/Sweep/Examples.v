From LV Require Import Sweep.Model.
