(* Integer-level proofs for C18, generic in the two float64 scalings
   (sdelta, spos) under the hypothesis [scalings_ok]; FloatProofs.v proves
   [scalings_ok] for the Flocq binary64 instances. *)
From Coq Require Import ZArith List Bool Lia Permutation Sorted.
From LV Require Import Sweep.Model.
Import ListNotations.
Local Open Scope Z_scope.

(* domain constants: rates up to 2^30 sat/kw (about 4.3 million sat/vbyte),
   widths / positions are uint32 *)
Definition RMAX : Z := 1073741824.             (* 2^30 *)
Definition DMAX : Z := 1099511627776.          (* 2^40 >= 1000 * 2^30 + 1 *)
Definition WMAX : Z := 4294967296.             (* 2^32 *)
Definition SPMAX : Z := 4722368356437458944.   (* 2^40 * 4294969  (< 2^63 - 2^30) *)
Definition BMAX : Z := 4611686018427387904.    (* 2^62: budgets *)

(* What the integer-level development needs to know about the float64
   scalings.  Proved for the Flocq instances in FloatProofs.v. *)
Definition scalings_ok (sdelta spos : Z -> Z -> Z) : Prop :=
  (forall d w, 0 <= d <= BMAX -> 1 <= w < WMAX -> 0 <= sdelta d w) /\
  (forall d w, 0 <= d <= RMAX -> 1 <= w < WMAX -> sdelta d w <= DMAX) /\
  (forall delta p, 0 <= delta <= DMAX -> 0 <= p < WMAX -> 0 <= spos delta p <= SPMAX) /\
  (forall delta p q, 0 <= delta <= DMAX -> 0 <= p <= q -> q < WMAX ->
                     spos delta p <= spos delta q).

Lemma wrap64_id : forall z, - 9223372036854775808 <= z < 9223372036854775808 -> wrap64 z = z.
Proof.
  intros z Hz. unfold wrap64.
  change (2 ^ 63) with 9223372036854775808.
  change (2 ^ 64) with 18446744073709551616.
  rewrite Z.mod_small by lia. lia.
Qed.

Lemma wrap32s_id : forall z, - 2147483648 <= z < 2147483648 -> wrap32s z = z.
Proof.
  intros z Hz. unfold wrap32s.
  change (2 ^ 31) with 2147483648.
  change (2 ^ 32) with 4294967296.
  rewrite Z.mod_small by lia. lia.
Qed.

(* ------------------------------------------------------------------ *)
(* op sequences on a fee function                                      *)

Inductive fop := FInc | FConf (c : Z).

Section Int.
  Variable sdelta : Z -> Z -> Z.
  Variable spos : Z -> Z -> Z.
  Hypothesis Hsc : scalings_ok sdelta spos.

  Let rate_at := rate_at_pos spos.

  Definition fstep (f : ff) (o : fop) : ff :=
    match (match o with
           | FInc => increment spos f
           | FConf c => increase_by_conf spos f c
           end) with
    | Ok (f', _) => f'
    | Err _ => f
    end.

  Definition frun (f : ff) (ops : list fop) : ff := fold_left fstep ops f.

  (* well-formed state inside the stated domain *)
  Definition wf (f : ff) : Prop :=
    0 <= ff_start f <= ff_end f /\ ff_end f <= RMAX /\
    0 <= ff_delta f <= DMAX /\ 0 <= ff_width f < WMAX /\ 0 <= ff_pos f.

  (* the invariant carried along every op sequence *)
  Definition inv (f : ff) : Prop :=
    wf f /\
    ff_start f <= ff_cur f <= ff_end f /\
    (forall q, ff_pos f < q -> ff_cur f <= rate_at f q) /\
    (ff_width f <= ff_pos f -> ff_cur f = ff_end f).

  Ltac psplit :=
    try (match goal with |- inv _ /\ _ => split; [solve [auto]|] end); repeat split.

  Lemma rate_at_cap : forall f p, rate_at f p <= ff_end f.
  Proof.
    intros f p. unfold rate_at, rate_at_pos.
    destruct (ff_width f <=? p); [lia|].
    destruct (ff_end f <? _) eqn:E; [lia|]. apply Z.ltb_ge in E. exact E.
  Qed.

  Lemma rate_at_nowrap : forall f p, wf f -> 0 <= p < ff_width f ->
    rate_at f p = Z.min (ff_end f) (ff_start f + spos (ff_delta f) p).
  Proof.
    intros f p (Hs & He & Hd & Hw & Hp) Hpw.
    destruct Hsc as (_ & _ & Hr & _).
    unfold rate_at, rate_at_pos.
    destruct (ff_width f <=? p) eqn:E; [apply Z.leb_le in E; lia|].
    assert (Hsp : 0 <= spos (ff_delta f) p <= SPMAX) by (apply Hr; lia).
    rewrite wrap64_id by (unfold RMAX, SPMAX in *; lia).
    destruct (ff_end f <? _) eqn:E2.
    - apply Z.ltb_lt in E2. lia.
    - apply Z.ltb_ge in E2. lia.
  Qed.

  Lemma rate_at_ge_width : forall f p, ff_width f <= p -> rate_at f p = ff_end f.
  Proof.
    intros f p H. unfold rate_at, rate_at_pos.
    destruct (ff_width f <=? p) eqn:E; [reflexivity|]. apply Z.leb_gt in E. lia.
  Qed.

  Lemma rate_at_mono : forall f p q, wf f -> 0 <= p <= q -> rate_at f p <= rate_at f q.
  Proof.
    intros f p q Hwf Hpq.
    destruct (Z_lt_le_dec q (ff_width f)) as [Hq|Hq].
    - rewrite !rate_at_nowrap by (auto; lia).
      destruct Hwf as (Hs & He & Hd & Hw & Hp).
      destruct Hsc as (_ & _ & _ & Hm).
      assert (spos (ff_delta f) p <= spos (ff_delta f) q) by (apply Hm; lia).
      lia.
    - rewrite (rate_at_ge_width f q) by lia. apply rate_at_cap.
  Qed.

  Lemma rate_at_ge_start : forall f p, wf f -> 0 <= p -> ff_start f <= rate_at f p.
  Proof.
    intros f p Hwf Hp.
    destruct (Z_lt_le_dec p (ff_width f)) as [Hq|Hq].
    - rewrite rate_at_nowrap by (auto; lia).
      destruct Hwf as (Hs & He & Hd & Hw & Hp').
      destruct Hsc as (_ & _ & Hr & _).
      assert (0 <= spos (ff_delta f) p <= SPMAX) by (apply Hr; lia). lia.
    - rewrite rate_at_ge_width by lia. destruct Hwf; lia.
  Qed.

  Lemma increase_to_inv : forall f p f' b,
    inv f -> ff_pos f < p -> increase_to spos f p = Ok (f', b) ->
    inv f' /\ ff_cur f <= ff_cur f' /\ b = (ff_cur f <? ff_cur f') /\ ff_pos f' = p /\
    ff_end f' = ff_end f /\ ff_width f' = ff_width f /\ ff_cur f' = rate_at f p.
  Proof.
    intros f p f' b (Hwf & Hc & Hq & Hw) Hp H.
    unfold increase_to in H.
    destruct (ff_width f <=? ff_pos f) eqn:E; [discriminate|].
    inversion H; subst; clear H. cbn [ff_cur ff_pos ff_end ff_width].
    fold (rate_at f p).
    assert (Hwf' : wf (mkFF (ff_start f) (ff_end f) (rate_at f p) (ff_width f) p (ff_delta f))).
    { destruct Hwf as (Hs & He & Hd & Hw' & Hp'). repeat split; cbn; try lia. }
    assert (Hp0 : 0 <= p) by (destruct Hwf as (_ & _ & _ & _ & ?); lia).
    split; [|split; [apply Hq; exact Hp|repeat split; auto]].
    unfold inv. split; [exact Hwf'|].
    cbn [ff_start ff_end ff_cur ff_pos ff_width ff_delta].
    split; [split|split].
    - apply rate_at_ge_start; auto.
    - apply rate_at_cap.
    - intros q Hq'. change (rate_at f p <= rate_at f q). apply rate_at_mono; auto. lia.
    - intros Hge. change (rate_at f p = ff_end f). apply rate_at_ge_width. exact Hge.
  Qed.

  Lemma fstep_inv : forall f o, inv f -> inv (fstep f o) /\ ff_cur f <= ff_cur (fstep f o) /\
                                 ff_end (fstep f o) = ff_end f /\ ff_width (fstep f o) = ff_width f.
  Proof.
    intros f o Hi. unfold fstep.
    destruct o as [|c].
    - unfold increment.
      destruct (increase_to spos f (ff_pos f + 1)) as [[f' b]|e] eqn:E.
      + destruct (increase_to_inv _ _ _ _ Hi (Z.lt_succ_diag_r (ff_pos f)) E) as (H1 & H2 & _ & _ & H3 & H4 & _). auto.
      + psplit; auto; try lia; apply Hi.
    - unfold increase_by_conf.
      set (newp := if c <? ff_width f + 1 then ff_width f + 1 - c else 0).
      destruct (newp <=? ff_pos f) eqn:E1.
      + psplit; auto; try lia; apply Hi.
      + apply Z.leb_gt in E1.
        destruct (increase_to spos f newp) as [[f' b]|e] eqn:E.
        * destruct (increase_to_inv _ _ _ _ Hi E1 E) as (H1 & H2 & _ & _ & H3 & H4 & _). auto.
        * psplit; auto; try lia; apply Hi.
  Qed.

  Lemma frun_inv : forall ops f, inv f -> inv (frun f ops) /\ ff_cur f <= ff_cur (frun f ops) /\
                                  ff_end (frun f ops) = ff_end f /\
                                  ff_width (frun f ops) = ff_width f.
  Proof.
    induction ops as [|o ops IH]; intros f Hi; cbn.
    - psplit; auto; lia.
    - destruct (fstep_inv f o Hi) as (H1 & H2 & H3 & H4).
      destruct (IH _ H1) as (H5 & H6 & H7 & H8).
      fold (frun (fstep f o) ops).
      psplit; auto; try lia; try congruence.
  Qed.

  (* a conf target <= 1 always lands on the ceiling *)
  Lemma conf_le1_reaches : forall f c, inv f -> 0 <= c <= 1 ->
    ff_cur (fstep f (FConf c)) = ff_end f.
  Proof.
    intros f c Hi Hc. unfold fstep, increase_by_conf.
    assert (Hw : 0 <= ff_width f) by (destruct Hi as ((_ & _ & _ & ? & _) & _); lia).
    assert (Hp : 0 <= ff_pos f) by (destruct Hi as ((_ & _ & _ & _ & ?) & _); lia).
    destruct (c <? ff_width f + 1) eqn:Ec.
    2:{ apply Z.ltb_ge in Ec.
        assert (E0 : (0 <=? ff_pos f) = true) by (apply Z.leb_le; lia).
        rewrite E0. destruct Hi as (_ & _ & _ & Hge). apply Hge. lia. }
    apply Z.ltb_lt in Ec.
    destruct (ff_width f + 1 - c <=? ff_pos f) eqn:E1.
    - apply Z.leb_le in E1. destruct Hi as (_ & _ & _ & Hge). apply Hge. lia.
    - apply Z.leb_gt in E1.
      unfold increase_to.
      destruct (ff_width f <=? ff_pos f) eqn:E2.
      + apply Z.leb_le in E2. destruct Hi as (_ & _ & _ & Hge). apply Hge. lia.
      + cbn [ff_cur]. fold (rate_at f (ff_width f + 1 - c)). apply rate_at_ge_width. lia.
  Qed.

  (* ---- construction ---- *)

  (* the only requirement on the caller-supplied start / the relay fee: they
     are not negative.  NewLinearFeeFunction caps the start at the ceiling. *)
  Definition start_ok (relay : Z) (start_opt : option Z) : Prop :=
    match start_opt with
    | Some s => 0 <= s
    | None => 0 <= relay
    end.

  Lemma estimate_range : forall relay ans maxr r,
    0 <= relay -> 0 <= maxr -> estimate relay ans maxr = Ok r -> Z.min relay maxr <= r.
  Proof.
    intros relay ans maxr r Hr Hm H. unfold estimate in H.
    destruct ans as [x|]; [|discriminate].
    destruct (x <? relay) eqn:E1; [discriminate|]. apply Z.ltb_ge in E1.
    destruct (negb (maxr =? 0) && (maxr <? x)); inversion H; subst; lia.
  Qed.

  Lemma new_ff_inv : forall maxr conf relay ans so f,
    0 <= maxr <= RMAX -> 0 <= conf < WMAX -> start_ok relay so ->
    new_ff sdelta maxr conf relay ans so = Ok f ->
    inv f /\ ff_end f = maxr /\ ff_pos f = 0 /\
    (conf <= 1 -> ff_cur f = maxr) /\
    (1 < conf -> ff_width f = conf - 1 /\
       match so with
       | Some s => ff_cur f = Z.min s maxr
       | None => Z.min relay maxr <= ff_cur f
       end).
  Proof.
    intros maxr conf relay ans so f Hm Hc Hs H. unfold new_ff in H.
    destruct (conf <=? 1) eqn:E.
    - apply Z.leb_le in E. inversion H; subst; clear H. cbn.
      split; [|repeat split; auto; lia].
      unfold inv. split; [unfold wf; cbn; unfold RMAX, DMAX, WMAX in *; lia|].
      cbn [ff_start ff_cur ff_end ff_pos ff_width]. split; [lia|]. split; [|reflexivity].
      intros q Hq. rewrite rate_at_ge_width by (cbn; lia). cbn. lia.
    - apply Z.leb_gt in E.
      assert (Hst : exists s0, (match so with Some s => Ok s
                                | None => estimate_fee_rate relay ans conf maxr end) = Ok s0 /\
                               0 <= s0 /\
                               match so with Some s' => s0 = s' | None => Z.min relay maxr <= s0 end).
      { destruct so as [s|]; cbn in Hs.
        - exists s. auto.
        - unfold estimate_fee_rate in *.
          destruct (max_block_target <=? conf).
          + exists relay. repeat split; auto; lia.
          + destruct (estimate relay ans maxr) as [r|e] eqn:Ee; [|discriminate].
            exists r. assert (Hm0 : 0 <= maxr) by lia.
            pose proof (estimate_range _ _ _ _ Hs Hm0 Ee). repeat split; auto; lia. }
      destruct Hst as (s0 & Hse & Hs0 & Hsm). rewrite Hse in H.
      set (s := if maxr <? s0 then maxr else s0) in *.
      assert (Hsr : 0 <= s <= maxr /\ s = Z.min s0 maxr).
      { subst s. destruct (maxr <? s0) eqn:El; [apply Z.ltb_lt in El|apply Z.ltb_ge in El]; lia. }
      destruct Hsr as (Hsr & Hsmin).
      rewrite wrap64_id in H by (unfold RMAX in *; lia).
      destruct ((sdelta (maxr - s) (conf - 1) =? 0) && negb (conf - 1 =? 1)); [discriminate|].
      inversion H; subst f; clear H. cbn [ff_end ff_pos ff_cur ff_width].
      destruct Hsc as (Hn & Hu & _ & _).
      assert (0 <= sdelta (maxr - s) (conf - 1)) by (apply Hn; unfold BMAX, RMAX, WMAX in *; lia).
      assert (sdelta (maxr - s) (conf - 1) <= DMAX) by (apply Hu; unfold RMAX, WMAX in *; lia).
      assert (Hwf : wf (mkFF s maxr s (conf - 1) 0 (sdelta (maxr - s) (conf - 1)))).
      { unfold wf; cbn. repeat split; try lia. }
      split; [|split; [reflexivity|split; [reflexivity|split; [intros; lia|]]]].
      + unfold inv. split; [exact Hwf|].
        cbn [ff_start ff_cur ff_end ff_pos ff_width]. split; [lia|]. split.
        * intros q Hq. apply (rate_at_ge_start _ q Hwf). lia.
        * intros Hx. lia.
      + intros _. split; [reflexivity|]. destruct so; lia.
  Qed.

  (* ---- sweep tx arithmetic ---- *)

  Lemma sumZ_app : forall a b, sumZ (a ++ b) = sumZ a + sumZ b.
  Proof. unfold sumZ. induction a as [|x a IH]; intros b; cbn; [lia|]. rewrite IH. lia. Qed.

  Lemma filter_split_perm : forall (A : Type) (p : A -> bool) (l : list A),
    Permutation (filter p l ++ filter (fun x => negb (p x)) l) l.
  Proof.
    induction l as [|x l IH]; cbn; [constructor|].
    destruct (p x); cbn.
    - constructor. exact IH.
    - apply Permutation_sym. apply Permutation_cons_app. apply Permutation_sym. exact IH.
  Qed.

  Lemma total_req_filter : forall ins, sumZ (map req_val (filter has_req ins)) = total_req ins.
  Proof.
    unfold total_req, sumZ. induction ins as [|i ins IH]; cbn; [reflexivity|].
    destruct (has_req i) eqn:E; cbn; [lia|].
    unfold has_req in E. unfold req_val at 2. destruct (in_req i); [discriminate|]. lia.
  Qed.

  Definition tx_ok (ins : list inp) (floor budget : Z) (t : stx) : Prop :=
    tx_fee t <= budget /\
    Permutation (tx_ins t) ins /\
    total_in ins - sumZ (tx_outs t) = tx_fee t /\
    (exists chg, tx_outs t = map req_val (filter has_req ins) ++ chg /\
       match tx_change t with
       | Some c => chg = [c] /\ floor <= c
       | None => chg = [] /\ total_req ins <> 0
       end).

  Lemma create_checked_ok : forall ins weight floor budget rate t,
    create_checked ins weight floor budget rate = Ok t -> tx_ok ins floor budget t.
  Proof.
    intros ins weight floor budget rate t H. unfold create_checked in H.
    destruct (create_sweep_tx ins weight rate floor) as [t0|e] eqn:E; [|discriminate].
    destruct (budget <? tx_fee t0) eqn:Eb; [discriminate|]. inversion H; subst t0; clear H.
    apply Z.ltb_ge in Eb. unfold create_sweep_tx in E.
    destruct (total_in ins <? total_req ins + fee_for_weight rate weight) eqn:E1; [discriminate|].
    destruct (total_in ins - total_req ins - fee_for_weight rate weight <? floor) eqn:E2.
    - destruct (total_req ins =? 0) eqn:E3; [discriminate|]. apply Z.eqb_neq in E3.
      inversion E; subst t; clear E. unfold tx_ok; cbn in *.
      repeat split; auto.
      + apply filter_split_perm.
      + rewrite total_req_filter. lia.
      + exists []. rewrite app_nil_r. auto.
    - apply Z.ltb_ge in E2. inversion E; subst t; clear E. unfold tx_ok; cbn in *.
      repeat split; auto.
      + apply filter_split_perm.
      + rewrite sumZ_app, total_req_filter. cbn. lia.
      + eexists. split; [reflexivity|]. split; [reflexivity|lia].
  Qed.

  (* fee paid is at least rate*weight/1000 and never negative inside the domain *)
  Lemma create_checked_fee_lb : forall ins weight floor budget rate t,
    0 <= rate <= RMAX -> 0 <= weight < WMAX ->
    create_checked ins weight floor budget rate = Ok t ->
    0 <= rate * weight / 1000 <= tx_fee t.
  Proof.
    intros ins weight floor budget rate t Hr Hw H. unfold create_checked in H.
    destruct (create_sweep_tx ins weight rate floor) as [t0|e] eqn:E; [|discriminate].
    destruct (budget <? tx_fee t0); [discriminate|]. inversion H; subst t0; clear H.
    unfold create_sweep_tx, fee_for_weight in E.
    assert (Hp : 0 <= rate * weight < 9223372036854775808) by (unfold RMAX, WMAX in *; nia).
    rewrite wrap64_id in E by lia.
    rewrite Z.quot_div_nonneg in E by lia.
    assert (0 <= rate * weight / 1000) by (apply Z.div_pos; lia).
    destruct (total_in ins <? total_req ins + rate * weight / 1000) eqn:E1; [discriminate|].
    apply Z.ltb_ge in E1.
    destruct (_ <? floor).
    - destruct (total_req ins =? 0); [discriminate|]. inversion E; subst; cbn. lia.
    - inversion E; subst; cbn. lia.
  Qed.

  (* ---- publisher ---- *)

  Lemma bump_until_inv : forall fuel f f',
    inv f -> bump_until_increased spos fuel f = Ok f' ->
    inv f' /\ ff_cur f <= ff_cur f' /\ ff_end f' = ff_end f /\ ff_width f' = ff_width f.
  Proof.
    induction fuel as [|k IH]; intros f f' Hi H; cbn in H; [discriminate|].
    unfold increment in H.
    destruct (increase_to spos f (ff_pos f + 1)) as [[f1 b]|e] eqn:E; [|discriminate].
    destruct (increase_to_inv _ _ _ _ Hi (Z.lt_succ_diag_r (ff_pos f)) E) as (H1 & H2 & _ & _ & H3 & H4 & _).
    destruct b.
    - inversion H; subst. auto.
    - destruct (IH _ _ H1 H) as (H5 & H6 & H7 & H8). psplit; auto; try lia; congruence.
  Qed.

  Lemma rbf_loop_inv : forall vs ins weight floor budget f f' t,
    inv f -> rbf_loop spos vs ins weight floor budget f = Ok (f', t) ->
    inv f' /\ ff_cur f <= ff_cur f' /\ ff_end f' = ff_end f /\ ff_width f' = ff_width f /\
    create_checked ins weight floor budget (ff_cur f') = Ok t.
  Proof.
    induction vs as [|v vs IH]; intros ins weight floor budget f f' t Hi H; cbn in H.
    - destruct (create_checked ins weight floor budget (ff_cur f)); discriminate.
    - destruct (create_checked ins weight floor budget (ff_cur f)) as [t0|e] eqn:E; [|discriminate].
      destruct v.
      + inversion H; subst. psplit; auto; lia.
      + destruct (bump_until_increased spos (Z.to_nat (ff_width f) + 1) f) as [f1|e] eqn:Eb;
          [|discriminate].
        destruct (bump_until_inv _ _ _ Hi Eb) as (H1 & H2 & H3 & H4).
        destruct (IH _ _ _ _ _ _ _ H1 H) as (H5 & H6 & H7 & H8 & H9).
        psplit; auto; try lia; congruence.
      + discriminate.
  Qed.

  Lemma bump_at_block_inv : forall ins weight floor budget f h dl v f' o,
    inv f -> bump_at_block spos ins weight floor budget f h dl v = (f', o) ->
    inv f' /\ ff_cur f <= ff_cur f' /\ ff_end f' = ff_end f /\ ff_width f' = ff_width f /\
    f' = fstep f (FConf (calc_conf_target h dl)) /\
    (forall t, o = Some t -> create_checked ins weight floor budget (ff_cur f') = Ok t).
  Proof.
    intros ins weight floor budget f h dl v f' o Hi H.
    destruct (fstep_inv f (FConf (calc_conf_target h dl)) Hi) as (H1 & H2 & H3 & H4).
    unfold bump_at_block in H. unfold fstep in *.
    destruct (increase_by_conf spos f (calc_conf_target h dl)) as [[f1 b]|e].
    - destruct b.
      + destruct (create_checked ins weight floor budget (ff_cur f1)) as [t0|e] eqn:E.
        * destruct v; inversion H; subst; psplit; auto; try discriminate.
          intros t Ht. inversion Ht; subst. exact E.
        * inversion H; subst. psplit; auto; discriminate.
      + inversion H; subst. psplit; auto; discriminate.
    - inversion H; subst. psplit; auto; discriminate.
  Qed.

  (* the published trace: (fee rate at publication, tx) *)
  Fixpoint blocks (ins : list inp) (weight floor budget dl : Z) (f : ff)
           (bl : list (Z * verdict)) : list (Z * stx) :=
    match bl with
    | [] => []
    | (h, v) :: r =>
      let '(f', o) := bump_at_block spos ins weight floor budget f h dl v in
      (match o with Some t => [(ff_cur f', t)] | None => [] end)
        ++ blocks ins weight floor budget dl f' r
    end.

  Definition pub_trace (ins : list inp) (weight floor budget maxrate h0 dl relay : Z)
             (ans : est_answer) (so : option Z) (vs : list verdict) (bl : list (Z * verdict))
    : list (Z * stx) :=
    match initial_broadcast sdelta spos ins weight floor budget maxrate h0 dl relay ans so vs with
    | Err _ => []
    | Ok (f, t) => (ff_cur f, t) :: blocks ins weight floor budget dl f bl
    end.

  Definition entry_ok (ins : list inp) (floor budget maxrate : Z) (e : Z * stx) : Prop :=
    fst e <= maxrate /\ tx_ok ins floor budget (snd e).

  Lemma blocks_ok : forall ins weight floor budget dl bl f,
    inv f ->
    Forall (fun e => ff_cur f <= fst e <= ff_end f /\ tx_ok ins floor budget (snd e))
           (blocks ins weight floor budget dl f bl) /\
    Sorted Z.le (map fst (blocks ins weight floor budget dl f bl)) .
  Proof.
    induction bl as [|[h v] bl IH]; intros f Hi; cbn.
    - split; constructor.
    - destruct (bump_at_block spos ins weight floor budget f h dl v) as [f' o] eqn:E.
      destruct (bump_at_block_inv _ _ _ _ _ _ _ _ _ _ Hi E) as (H1 & H2 & H3 & H4 & _ & H5).
      destruct (IH f' H1) as (IHa & IHb).
      assert (IHa' : Forall (fun e => ff_cur f <= fst e <= ff_end f /\
                                      tx_ok ins floor budget (snd e))
                            (blocks ins weight floor budget dl f' bl)).
      { eapply Forall_impl; [|exact IHa]. cbn. intros e (Ha & Hb). split; auto. lia. }
      destruct o as [t|]; cbn.
      + split.
        * constructor; auto. cbn. split.
          -- destruct H1 as (_ & ? & _). lia.
          -- eapply create_checked_ok. apply H5. reflexivity.
        * constructor; auto.
          destruct (blocks ins weight floor budget dl f' bl) as [|e0 rest] eqn:Eb; cbn; constructor.
          inversion IHa; subst. cbn in *. lia.
      + split; auto.
  Qed.
End Int.

(* ------------------------------------------------------------------ *)
(* BudgetInputSet: wallet-input top-up                                 *)

Lemma sumZ_app' : forall a b, sumZ (a ++ b) = sumZ a + sumZ b.
Proof. unfold sumZ. induction a as [|x a IH]; intros b; cbn; [lia|]. rewrite IH. lia. Qed.

(* spendable - budget = borrowable - needed: the two sides NeedWalletInput
   compares differ from (spendable, Budget()) by the same amount *)
Lemma need_balance : forall extra l,
  spendable l - set_budget extra l = budget_borrowable l - budget_needed extra l.
Proof.
  intros extra l. unfold spendable, set_budget, budget_borrowable, budget_needed, sumZ.
  induction l as [|i l IH]; cbn; [lia|]. destruct (b_req i); lia.
Qed.

Lemma no_need_covers_budget : forall extra l,
  need_wallet_input extra l = false -> set_budget extra l <= spendable l.
Proof.
  intros extra l H. unfold need_wallet_input in H. apply Z.ltb_ge in H.
  pose proof (need_balance extra l). lia.
Qed.

Lemma add_wallet_inputs_spec : forall extra utxos l l' st,
  add_wallet_inputs extra l utxos = (l', st) ->
  (exists k, l' = l ++ map (fun u => mkB u 0 false) (firstn k utxos)) /\
  set_budget extra l' = set_budget extra l /\
  (st = TopSatisfied -> need_wallet_input extra l' = false) /\
  (st = TopNotEnoughInputs -> forall i, In i l' -> b_req i = true).
Proof.
  intros extra utxos. induction utxos as [|u r IH]; intros l l' st H; cbn in H.
  - inversion H; subst; clear H. split; [exists O; cbn; rewrite app_nil_r; reflexivity|].
    split; [reflexivity|]. split.
    + destruct (existsb _ l'); discriminate.
    + destruct (existsb (fun i => negb (b_req i)) l') eqn:E; [discriminate|]. intros _ i Hi.
      destruct (b_req i) eqn:Er; [reflexivity|].
      assert (existsb (fun i => negb (b_req i)) l' = true).
      { apply existsb_exists. exists i. rewrite Er. auto. }
      congruence.
  - assert (Hb : set_budget extra (l ++ [mkB u 0 false]) = set_budget extra l).
    { unfold set_budget. rewrite map_app, sumZ_app'. cbn. lia. }
    destruct (need_wallet_input extra (l ++ [mkB u 0 false])) eqn:En.
    + destruct (IH _ _ _ H) as ((k & Hk) & H2 & H3 & H4).
      split; [exists (S k); cbn; rewrite Hk, <- app_assoc; reflexivity|].
      split; [lia|]. auto.
    + inversion H; subst; clear H.
      split; [exists 1%nat; reflexivity|]. split; [exact Hb|]. split; [auto|discriminate].
Qed.
