(* C18 property theorems (statements only; proofs are in Final.v).
   Model: Sweep/Model.v with float64 = Flocq binary64.  Domain constants
   (Proofs.v): RMAX = 2^30 sat/kw, WMAX = 2^32, BMAX = 2^62 sat.

   ff_premises maxr conf relay so :=
     0 <= maxr <= RMAX /\ 0 <= conf < WMAX /\ start_ok relay so
   start_ok relay (Some s) := 0 <= s       (ANY caller-supplied start)
   start_ok relay None     := 0 <= relay   (estimator path, any answers)
   (lnd commit 1567bc7 caps the start at the ceiling; before it these theorems
   needed start <= ceiling and were refuted otherwise, see notes/C18.md)
   frun f ops = the fee function after any sequence of Increment (FInc) /
   IncreaseFeeRate c (FConf c) calls, errors leaving the state unchanged. *)
From Coq Require Import ZArith List Bool Permutation Sorted.
From LV Require Import Sweep.Model Sweep.Proofs Sweep.FloatProofs Sweep.Final.
Import ListNotations.
Local Open Scope Z_scope.

(* the two float64 scalings are non-negative, bounded and monotone on the domain *)
Theorem C18_float_scalings_monotone : scalings_ok f_scale_delta f_scale_pos.
Proof. exact float_scalings_ok. Qed.

(* the offered rate never exceeds the ceiling, after any op sequence, for any
   estimator answer; feeRateAtPosition itself is capped at every position *)
Theorem C18_cap : forall maxr conf relay ans so f0 ops,
  ff_premises maxr conf relay so -> new_ff64 maxr conf relay ans so = Ok f0 ->
  ff_cur (frun64 f0 ops) <= maxr /\
  (forall p, rate_at_pos64 (frun64 f0 ops) p <= maxr).
Proof. exact c18_cap. Qed.

(* the offered rate never decreases: per op, across any suffix, and
   feeRateAtPosition is monotone in the position *)
Theorem C18_monotone : forall maxr conf relay ans so f0,
  ff_premises maxr conf relay so -> new_ff64 maxr conf relay ans so = Ok f0 ->
  (forall ops o, ff_cur (frun64 f0 ops) <= ff_cur (fstep64 (frun64 f0 ops) o)) /\
  (forall ops ops', ff_cur (frun64 f0 ops) <= ff_cur (frun64 f0 (ops ++ ops'))) /\
  (forall p q, 0 <= p <= q -> rate_at_pos64 f0 p <= rate_at_pos64 f0 q).
Proof. exact c18_monotone. Qed.

(* conf target <= 1 starts at the ceiling; any IncreaseFeeRate with conf target
   <= 1 (in particular the block at deadline-1, also after skipped heights)
   puts the rate on the ceiling and it stays there *)
Theorem C18_reaches_ceiling : forall maxr conf relay ans so f0,
  ff_premises maxr conf relay so -> new_ff64 maxr conf relay ans so = Ok f0 ->
  (conf <= 1 -> ff_cur f0 = maxr) /\
  (forall ops c ops', 0 <= c <= 1 -> ff_cur (frun64 f0 (ops ++ FConf c :: ops')) = maxr) /\
  (forall ops h dl ops', - 2147483648 <= dl - h < 2147483648 -> dl - 1 <= h ->
     ff_cur (frun64 f0 (ops ++ FConf (calc_conf_target h dl) :: ops')) = maxr).
Proof. exact c18_reaches_ceiling. Qed.

(* estimator path: start is at least the relay floor whenever floor <= ceiling *)
Theorem C18_floor : forall maxr conf relay ans f0,
  0 <= maxr <= RMAX -> 1 < conf < WMAX -> 0 <= relay <= maxr ->
  new_ff64 maxr conf relay ans None = Ok f0 ->
  relay <= ff_cur f0 <= maxr.
Proof. exact c18_floor. Qed.

(* a supplied start above the ceiling is capped: the initial rate is the ceiling *)
Theorem C18_start_clamped : forall maxr conf relay ans s f0,
  1 < conf -> maxr < s ->
  new_ff64 maxr conf relay ans (Some s) = Ok f0 ->
  ff_cur f0 = maxr /\ ff_start f0 = maxr /\ ff_end f0 = maxr.
Proof. exact c18_start_clamped. Qed.

(* estimator path for ANY relay fee / answer / conf target (incl. >= 1008 and
   ceiling 0): the start lies between min(relay, ceiling) and the ceiling *)
Theorem C18_estimated_start_clamped : forall maxr conf relay ans f0,
  0 <= maxr <= RMAX -> 1 < conf < WMAX -> 0 <= relay ->
  new_ff64 maxr conf relay ans None = Ok f0 ->
  Z.min relay maxr <= ff_cur f0 <= maxr.
Proof. exact c18_estimated_start_clamped. Qed.

(* every tx that passes createAndCheckTx's budget guard: fee <= budget, spends
   exactly the requested inputs, pays exactly in - out, reproduces the required
   outputs, and its change (if any) is >= the dust limit *)
Theorem C18_budget : forall ins weight floor budget rate t,
  create_checked ins weight floor budget rate = Ok t ->
  tx_ok ins floor budget t /\
  (0 <= rate <= RMAX -> 0 <= weight < WMAX -> 0 <= rate * weight / 1000 <= tx_fee t).
Proof. exact c18_budget. Qed.

(* publisher: for ANY estimator answer, mempool verdicts and block heights the
   published (rate, tx) sequence is within MaxFeeRate and budget, spends all
   inputs, has no dust change, and its rates never decrease *)
Theorem C18_published_trace_ok :
  forall ins weight floor budget maxrate h0 dl relay ans so vs bl,
  0 <= budget <= BMAX -> 1 <= weight < WMAX -> 0 <= maxrate <= RMAX ->
  start_ok relay so ->
  let tr := pub_trace64 ins weight floor budget maxrate h0 dl relay ans so vs bl in
  Forall (entry_ok ins floor budget maxrate) tr /\ Sorted Z.le (map fst tr).
Proof. exact c18_published_trace_ok. Qed.

(* BudgetInputSet top-up: AddWalletInputs keeps the requested inputs, only
   appends zero-budget wallet inputs (smallest first), leaves Budget()
   unchanged, and once no more wallet input is needed the whole budget is
   covered by inputs that can pay fees; the error case has no such input *)
Theorem C18_topup : forall extra utxos l l' st,
  add_wallet_inputs extra l utxos = (l', st) ->
  (exists k, l' = l ++ map (fun u => mkB u 0 false) (firstn k utxos)) /\
  set_budget extra l' = set_budget extra l /\
  (st = TopSatisfied -> set_budget extra l' <= spendable l') /\
  (st = TopNotEnoughInputs -> forall i, In i l' -> b_req i = true).
Proof. exact c18_topup. Qed.

(* BudgetInputSet.StartingFeeRate (the StartingFeeRate of every BumpRequest the
   sweeper makes): the largest POSITIVE starting rate stored on the set's
   inputs; None - the fee function then asks the estimator - iff no input
   carries a positive one (an input carrying Some 0 counts as unset) *)
Theorem C18_set_start_max : forall l,
  match set_starting_fee_rate l with
  | None => forall s, In (Some s) l -> s <= 0
  | Some m => 0 < m /\ In (Some m) l /\ forall s, In (Some s) l -> s <= m
  end.
Proof. exact set_start_spec. Qed.

(* composition sweeper -> input set -> publisher -> fee function, over retries:
   if every starting rate stored on the inputs is absent, 0 (markInputsPublishFailed
   after an attempt that failed before a tx existed) or >= the relay floor, then
   for ANY estimator answer and conf target the fee function built from the set's
   starting rate starts at or above the relay floor (floor <= ceiling), stays
   there under any Increment / IncreaseFeeRate sequence, and the rate a failed
   attempt stores back on the inputs (retry_start) satisfies the same condition
   again - the invariant of the whole retry chain *)
Theorem C18_retry_start_floor : forall relay l maxr conf ans f0,
  Forall (start_val_ok relay) l ->
  0 <= maxr <= RMAX -> 0 <= conf < WMAX -> 0 <= relay <= maxr ->
  new_ff64 maxr conf relay ans (set_starting_fee_rate l) = Ok f0 ->
  relay <= ff_cur f0 <= maxr /\
  (forall ops, relay <= ff_cur (frun64 f0 ops) <= maxr) /\
  (forall ops, start_val_ok relay (retry_start (ff_cur (frun64 f0 ops)))) /\
  start_val_ok relay (retry_start 0).
Proof. exact c18_retry_start_floor. Qed.

(* retry monotonicity - what holds: if the last failure of some input of the
   retried set carried a fee rate r > 0 (markInputsPublishFailed stored it; the
   previously stored value is irrelevant), then for ANY other stored rates,
   estimator answer, ceiling and conf target the next fee function starts and
   stays at or above min(r, new ceiling): the offered rate does not decrease
   across the retry *)
Theorem C18_retry_monotone : forall l stored r maxr conf relay ans f,
  In (mark_publish_failed stored (failed_result_rate (FailAtRate r))) l -> 0 < r ->
  0 <= maxr <= RMAX -> 0 <= conf < WMAX ->
  new_ff64 maxr conf relay ans (set_starting_fee_rate l) = Ok f ->
  Z.min r maxr <= ff_cur f /\ (forall ops, Z.min r maxr <= ff_cur (frun64 f ops)).
Proof. exact c18_retry_monotone. Qed.

(* retry monotonicity - what does NOT hold of the code that exists (known
   finding C18-F2, replayed on the real sweeper by the harness): when a failure
   that happens before a tx exists (ErrZeroFeeRateDelta / ErrTxNoOutput, result
   FeeRate 0) intervenes, markInputsPublishFailed overwrites the stored positive
   rate with 0, StartingFeeRate() treats it as unset and the next attempt
   restarts from the estimator, strictly below the rate already offered *)
Theorem C18_retry_monotone_refuted :
  exists maxr relay conf1 ans1 f0 ops conf2 conf3 ans3 f2,
    new_ff64 maxr conf1 relay ans1 (set_starting_fee_rate [None]) = Ok f0 /\
    let r1 := ff_cur (frun64 f0 ops) in
    let stored1 := mark_publish_failed None (failed_result_rate (FailAtRate r1)) in
    new_ff64 maxr conf2 relay ans1 (set_starting_fee_rate [stored1]) = Err ErrZeroFeeRateDelta /\
    let stored2 := mark_publish_failed stored1 (failed_result_rate FailNoTx) in
    new_ff64 maxr conf3 relay ans3 (set_starting_fee_rate [stored2]) = Ok f2 /\
    0 < r1 <= maxr /\ relay <= ff_cur f2 /\ ff_cur f2 < r1 /\ ff_cur f2 < Z.min r1 maxr.
Proof. exact c18_retry_monotone_refuted. Qed.

(* CPFP inputs (input.UnconfParent() <> nil, e.g. the anchor of a still
   unconfirmed commitment tx): the fee of every tx the TxPublisher builds
   (prepareSweepTx: estimator.fee()) is the fee of the offered rate on the
   CHILD's weight alone, for ANY parents - so a rate within MaxFeeRate gives a
   fee within MaxFeeRate * weight, exactly as for parentless inputs *)
Theorem C18_cpfp_publisher_fee : forall rate maxr w ps,
  0 <= rate <= maxr -> maxr <= RMAX -> 0 <= w < WMAX ->
  prepare_fee rate w ps = fee_for_weight rate w /\
  0 <= prepare_fee rate w ps <= fee_for_weight maxr w.
Proof. exact c18_cpfp_publisher_fee. Qed.

(* weightEstimator.feeWithParent (used by walletsweep's createSweepTx only): with
   a configured max fee rate it is clamped to maxFeeRate * childWeight and is at
   least the child's own fee, for any parent fee / weight *)
Theorem C18_fee_with_parent_clamped : forall rate maxr w pf pw,
  maxr <> 0 ->
  west_fee_with_parent rate maxr w pf pw <= west_fee maxr w /\
  (west_fee rate w <= west_fee maxr w -> west_fee rate w <= west_fee_with_parent rate maxr w pf pw).
Proof. exact c18_fee_with_parent_clamped. Qed.

(* without the clamp (maxFeeRate 0 - how prepareSweepTx builds its estimator)
   feeWithParent exceeds the cap although the offered rate is within it: the
   publisher must not use it (witness of seeded change C18-5) *)
Theorem C18_fee_with_parent_unclamped_refuted :
  exists rate maxr w p,
    0 <= rate <= maxr /\
    let '(pf, pw) := add_parents rate [Some p] [] 0 0 in
    prepare_fee rate w [Some p] <= west_fee maxr w /\
    west_fee maxr w < west_fee_with_parent rate 0 w pf pw.
Proof. exact c18_fee_with_parent_unclamped_refuted. Qed.
