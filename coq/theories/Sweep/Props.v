(* placeholder: property theorems are added with Proofs.v *)
From LV Require Import Sweep.Model.
