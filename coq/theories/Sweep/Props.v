(* C18 property theorems (statements only; proofs are in Final.v).
   Model: Sweep/Model.v with float64 = Flocq binary64.  Domain constants
   (Proofs.v): RMAX = 2^30 sat/kw, WMAX = 2^32, BMAX = 2^62 sat.

   ff_premises maxr conf relay so :=
     0 <= maxr <= RMAX /\ 0 <= conf < WMAX /\ start_ok relay so
   start_ok relay (Some s) := 0 <= s       (ANY caller-supplied start)
   start_ok relay None     := 0 <= relay   (estimator path, any answers)
   (lnd commit 1567bc7 caps the start at the ceiling; before it these theorems
   needed start <= ceiling and were refuted otherwise, see notes/C18.md)
   frun f ops = the fee function after any sequence of Increment (FInc) /
   IncreaseFeeRate c (FConf c) calls, errors leaving the state unchanged. *)
From Coq Require Import ZArith List Bool Permutation Sorted.
From LV Require Import Sweep.Model Sweep.Proofs Sweep.FloatProofs Sweep.Final.
Import ListNotations.
Local Open Scope Z_scope.

(* the two float64 scalings are non-negative, bounded and monotone on the domain *)
Theorem C18_float_scalings_monotone : scalings_ok f_scale_delta f_scale_pos.
Proof. exact float_scalings_ok. Qed.

(* the offered rate never exceeds the ceiling, after any op sequence, for any
   estimator answer; feeRateAtPosition itself is capped at every position *)
Theorem C18_cap : forall maxr conf relay ans so f0 ops,
  ff_premises maxr conf relay so -> new_ff64 maxr conf relay ans so = Ok f0 ->
  ff_cur (frun64 f0 ops) <= maxr /\
  (forall p, rate_at_pos64 (frun64 f0 ops) p <= maxr).
Proof. exact c18_cap. Qed.

(* the offered rate never decreases: per op, across any suffix, and
   feeRateAtPosition is monotone in the position *)
Theorem C18_monotone : forall maxr conf relay ans so f0,
  ff_premises maxr conf relay so -> new_ff64 maxr conf relay ans so = Ok f0 ->
  (forall ops o, ff_cur (frun64 f0 ops) <= ff_cur (fstep64 (frun64 f0 ops) o)) /\
  (forall ops ops', ff_cur (frun64 f0 ops) <= ff_cur (frun64 f0 (ops ++ ops'))) /\
  (forall p q, 0 <= p <= q -> rate_at_pos64 f0 p <= rate_at_pos64 f0 q).
Proof. exact c18_monotone. Qed.

(* conf target <= 1 starts at the ceiling; any IncreaseFeeRate with conf target
   <= 1 (in particular the block at deadline-1, also after skipped heights)
   puts the rate on the ceiling and it stays there *)
Theorem C18_reaches_ceiling : forall maxr conf relay ans so f0,
  ff_premises maxr conf relay so -> new_ff64 maxr conf relay ans so = Ok f0 ->
  (conf <= 1 -> ff_cur f0 = maxr) /\
  (forall ops c ops', 0 <= c <= 1 -> ff_cur (frun64 f0 (ops ++ FConf c :: ops')) = maxr) /\
  (forall ops h dl ops', - 2147483648 <= dl - h < 2147483648 -> dl - 1 <= h ->
     ff_cur (frun64 f0 (ops ++ FConf (calc_conf_target h dl) :: ops')) = maxr).
Proof. exact c18_reaches_ceiling. Qed.

(* estimator path: start is at least the relay floor whenever floor <= ceiling *)
Theorem C18_floor : forall maxr conf relay ans f0,
  0 <= maxr <= RMAX -> 1 < conf < WMAX -> 0 <= relay <= maxr ->
  new_ff64 maxr conf relay ans None = Ok f0 ->
  relay <= ff_cur f0 <= maxr.
Proof. exact c18_floor. Qed.

(* a supplied start above the ceiling is capped: the initial rate is the ceiling *)
Theorem C18_start_clamped : forall maxr conf relay ans s f0,
  1 < conf -> maxr < s ->
  new_ff64 maxr conf relay ans (Some s) = Ok f0 ->
  ff_cur f0 = maxr /\ ff_start f0 = maxr /\ ff_end f0 = maxr.
Proof. exact c18_start_clamped. Qed.

(* estimator path for ANY relay fee / answer / conf target (incl. >= 1008 and
   ceiling 0): the start lies between min(relay, ceiling) and the ceiling *)
Theorem C18_estimated_start_clamped : forall maxr conf relay ans f0,
  0 <= maxr <= RMAX -> 1 < conf < WMAX -> 0 <= relay ->
  new_ff64 maxr conf relay ans None = Ok f0 ->
  Z.min relay maxr <= ff_cur f0 <= maxr.
Proof. exact c18_estimated_start_clamped. Qed.

(* every tx that passes createAndCheckTx's budget guard: fee <= budget, spends
   exactly the requested inputs, pays exactly in - out, reproduces the required
   outputs, and its change (if any) is >= the dust limit *)
Theorem C18_budget : forall ins weight floor budget rate t,
  create_checked ins weight floor budget rate = Ok t ->
  tx_ok ins floor budget t /\
  (0 <= rate <= RMAX -> 0 <= weight < WMAX -> 0 <= rate * weight / 1000 <= tx_fee t).
Proof. exact c18_budget. Qed.

(* publisher: for ANY estimator answer, mempool verdicts and block heights the
   published (rate, tx) sequence is within MaxFeeRate and budget, spends all
   inputs, has no dust change, and its rates never decrease *)
Theorem C18_published_trace_ok :
  forall ins weight floor budget maxrate h0 dl relay ans so vs bl,
  0 <= budget <= BMAX -> 1 <= weight < WMAX -> 0 <= maxrate <= RMAX ->
  start_ok relay so ->
  let tr := pub_trace64 ins weight floor budget maxrate h0 dl relay ans so vs bl in
  Forall (entry_ok ins floor budget maxrate) tr /\ Sorted Z.le (map fst tr).
Proof. exact c18_published_trace_ok. Qed.

(* BudgetInputSet top-up: AddWalletInputs keeps the requested inputs, only
   appends zero-budget wallet inputs (smallest first), leaves Budget()
   unchanged, and once no more wallet input is needed the whole budget is
   covered by inputs that can pay fees; the error case has no such input *)
Theorem C18_topup : forall extra utxos l l' st,
  add_wallet_inputs extra l utxos = (l', st) ->
  (exists k, l' = l ++ map (fun u => mkB u 0 false) (firstn k utxos)) /\
  set_budget extra l' = set_budget extra l /\
  (st = TopSatisfied -> set_budget extra l' <= spendable l') /\
  (st = TopNotEnoughInputs -> forall i, In i l' -> b_req i = true).
Proof. exact c18_topup. Qed.
