(* C18 lemmas on the concrete (Flocq binary64) model: the generic integer
   development of Proofs.v instantiated with FloatProofs.float_scalings_ok. *)
From Coq Require Import ZArith List Bool Lia Permutation Sorted.
From LV Require Import Sweep.Model Sweep.Proofs Sweep.FloatProofs.
Import ListNotations.
Local Open Scope Z_scope.

Notation frun64 := (frun f_scale_pos).
Notation fstep64 := (fstep f_scale_pos).
Notation pub_trace64 := (pub_trace f_scale_delta f_scale_pos).
Notation Hok := float_scalings_ok.

Definition ff_premises (maxr conf relay : Z) (so : option Z) : Prop :=
  0 <= maxr <= RMAX /\ 0 <= conf < WMAX /\ start_ok relay so.

Lemma c18_inv0 : forall maxr conf relay ans so f0,
  ff_premises maxr conf relay so -> new_ff64 maxr conf relay ans so = Ok f0 ->
  inv f_scale_pos f0 /\ ff_end f0 = maxr.
Proof.
  intros maxr conf relay ans so f0 (Hm & Hc & Hs) H.
  destruct (new_ff_inv _ _ Hok _ _ _ _ _ _ Hm Hc Hs H) as (Hi & He & _). auto.
Qed.

Lemma c18_cap : forall maxr conf relay ans so f0 ops,
  ff_premises maxr conf relay so -> new_ff64 maxr conf relay ans so = Ok f0 ->
  ff_cur (frun64 f0 ops) <= maxr /\
  (forall p, rate_at_pos64 (frun64 f0 ops) p <= maxr).
Proof.
  intros maxr conf relay ans so f0 ops Hp H.
  destruct (c18_inv0 _ _ _ _ _ _ Hp H) as (Hi & He).
  destruct (frun_inv _ _ Hok ops f0 Hi) as ((_ & Hc & _) & _ & He' & _).
  split; [lia|]. intros p. rewrite <- He, <- He'. apply rate_at_cap.
Qed.

Lemma c18_monotone : forall maxr conf relay ans so f0,
  ff_premises maxr conf relay so -> new_ff64 maxr conf relay ans so = Ok f0 ->
  (forall ops o, ff_cur (frun64 f0 ops) <= ff_cur (fstep64 (frun64 f0 ops) o)) /\
  (forall ops ops', ff_cur (frun64 f0 ops) <= ff_cur (frun64 f0 (ops ++ ops'))) /\
  (forall p q, 0 <= p <= q -> rate_at_pos64 f0 p <= rate_at_pos64 f0 q).
Proof.
  intros maxr conf relay ans so f0 Hp H.
  destruct (c18_inv0 _ _ _ _ _ _ Hp H) as (Hi & He).
  repeat split.
  - intros ops o. destruct (frun_inv _ _ Hok ops f0 Hi) as (Hi' & _).
    apply (fstep_inv _ _ Hok _ o Hi').
  - intros ops ops'. unfold frun. rewrite fold_left_app.
    destruct (frun_inv _ _ Hok ops f0 Hi) as (Hi' & _).
    apply (frun_inv _ _ Hok ops' _ Hi').
  - intros p q Hpq. apply (rate_at_mono _ _ Hok); auto. apply Hi.
Qed.

Lemma wrap32s_range : forall z, - 2147483648 <= wrap32s z < 2147483648.
Proof.
  intros z. unfold wrap32s.
  change (2 ^ 31) with 2147483648. change (2 ^ 32) with 4294967296.
  assert (H0 : 0 < 4294967296) by lia.
  pose proof (Z.mod_pos_bound (z + 2147483648) 4294967296 H0). lia.
Qed.

Lemma calc_conf_range : forall h dl, 0 <= calc_conf_target h dl < WMAX.
Proof.
  intros h dl. unfold calc_conf_target, WMAX.
  pose proof (wrap32s_range (dl - h)).
  destruct (wrap32s (dl - h) <? 0) eqn:E; [lia|]. apply Z.ltb_ge in E. lia.
Qed.

Lemma calc_conf_le1 : forall h dl, - 2147483648 <= dl - h < 2147483648 -> dl - 1 <= h ->
  0 <= calc_conf_target h dl <= 1.
Proof.
  intros h dl Hr Hh. unfold calc_conf_target. rewrite wrap32s_id by lia.
  destruct (dl - h <? 0) eqn:E; [lia|]. apply Z.ltb_ge in E. lia.
Qed.

Lemma c18_reaches_ceiling : forall maxr conf relay ans so f0,
  ff_premises maxr conf relay so -> new_ff64 maxr conf relay ans so = Ok f0 ->
  (conf <= 1 -> ff_cur f0 = maxr) /\
  (forall ops c ops', 0 <= c <= 1 -> ff_cur (frun64 f0 (ops ++ FConf c :: ops')) = maxr) /\
  (forall ops h dl ops', - 2147483648 <= dl - h < 2147483648 -> dl - 1 <= h ->
     ff_cur (frun64 f0 (ops ++ FConf (calc_conf_target h dl) :: ops')) = maxr).
Proof.
  intros maxr conf relay ans so f0 Hp H.
  destruct (c18_inv0 _ _ _ _ _ _ Hp H) as (Hi & He).
  assert (Hmain : forall ops c ops', 0 <= c <= 1 ->
            ff_cur (frun64 f0 (ops ++ FConf c :: ops')) = maxr).
  { intros ops c ops' Hc. unfold frun. rewrite fold_left_app. cbn [fold_left].
    fold (frun64 f0 ops).
    destruct (frun_inv _ _ Hok ops f0 Hi) as (Hi1 & _ & He1 & _).
    pose proof (conf_le1_reaches _ _ c Hi1 Hc) as Hr.
    destruct (fstep_inv _ _ Hok _ (FConf c) Hi1) as (Hi2 & _ & He2 & _).
    fold (frun64 (fstep64 (frun64 f0 ops) (FConf c)) ops').
    destruct (frun_inv _ _ Hok ops' _ Hi2) as ((_ & Hc3 & _) & Hm3 & He3 & _).
    lia. }
  repeat split.
  - destruct Hp as (Hm & Hc & Hs).
    destruct (new_ff_inv _ _ Hok _ _ _ _ _ _ Hm Hc Hs H) as (_ & _ & _ & Hx & _). exact Hx.
  - exact Hmain.
  - intros ops h dl ops' Hr Hh. apply Hmain. apply calc_conf_le1; auto.
Qed.

Lemma c18_floor : forall maxr conf relay ans f0,
  0 <= maxr <= RMAX -> 1 < conf < WMAX -> 0 <= relay <= maxr ->
  new_ff64 maxr conf relay ans None = Ok f0 ->
  relay <= ff_cur f0 <= maxr.
Proof.
  intros maxr conf relay ans f0 Hm Hc Hr H.
  assert (Hs : start_ok relay None) by (cbn; lia).
  assert (Hc0 : 0 <= conf < WMAX) by lia.
  assert (Hc1 : 1 < conf) by lia.
  destruct (new_ff_inv _ _ Hok _ _ _ _ _ _ Hm Hc0 Hs H) as (Hi & He & _ & _ & Hx).
  destruct (Hx Hc1) as (_ & Hge).
  destruct Hi as (_ & Hc' & _). lia.
Qed.

(* a start above the ceiling (supplied, relay fee at conf >= 1008, or an
   estimate with ceiling 0) is capped: the initial rate IS the ceiling *)
Lemma c18_start_clamped : forall maxr conf relay ans s f0,
  1 < conf -> maxr < s ->
  new_ff64 maxr conf relay ans (Some s) = Ok f0 ->
  ff_cur f0 = maxr /\ ff_start f0 = maxr /\ ff_end f0 = maxr.
Proof.
  intros maxr conf relay ans s f0 Hc Hs H. unfold new_ff64, new_ff in H.
  assert (E1 : (conf <=? 1) = false) by (apply Z.leb_gt; lia). rewrite E1 in H.
  assert (E2 : (maxr <? s) = true) by (apply Z.ltb_lt; lia). rewrite E2 in H.
  destruct (_ && _); [discriminate|]. inversion H; subst. cbn. auto.
Qed.

Lemma c18_estimated_start_clamped : forall maxr conf relay ans f0,
  0 <= maxr <= RMAX -> 1 < conf < WMAX -> 0 <= relay ->
  new_ff64 maxr conf relay ans None = Ok f0 ->
  Z.min relay maxr <= ff_cur f0 <= maxr.
Proof.
  intros maxr conf relay ans f0 Hm Hc Hr H.
  assert (Hs : start_ok relay None) by (cbn; lia).
  assert (Hc0 : 0 <= conf < WMAX) by lia.
  assert (Hc1 : 1 < conf) by lia.
  destruct (new_ff_inv _ _ Hok _ _ _ _ _ _ Hm Hc0 Hs H) as (Hi & He & _ & _ & Hx).
  destruct (Hx Hc1) as (_ & Hge).
  destruct Hi as (_ & Hc' & _). lia.
Qed.

Lemma c18_budget : forall ins weight floor budget rate t,
  create_checked ins weight floor budget rate = Ok t ->
  tx_ok ins floor budget t /\
  (0 <= rate <= RMAX -> 0 <= weight < WMAX -> 0 <= rate * weight / 1000 <= tx_fee t).
Proof.
  intros ins weight floor budget rate t H. split.
  - eapply create_checked_ok; eauto.
  - intros Hr Hw. eapply create_checked_fee_lb; eauto.
Qed.

Lemma ceiling_range : forall budget weight maxrate,
  0 <= budget <= BMAX -> 1 <= weight < WMAX -> 0 <= maxrate <= RMAX ->
  0 <= max_fee_rate_allowed64 budget weight maxrate <= maxrate.
Proof.
  intros budget weight maxrate Hb Hw Hm. unfold max_fee_rate_allowed64, max_fee_rate_allowed.
  destruct Hok as (Hn & _). pose proof (Hn budget weight Hb Hw).
  destruct (maxrate <? f_scale_delta budget weight) eqn:E; [lia|]. apply Z.ltb_ge in E. lia.
Qed.

Lemma c18_published_trace_ok :
  forall ins weight floor budget maxrate h0 dl relay ans so vs bl,
  0 <= budget <= BMAX -> 1 <= weight < WMAX -> 0 <= maxrate <= RMAX ->
  start_ok relay so ->
  let tr := pub_trace64 ins weight floor budget maxrate h0 dl relay ans so vs bl in
  Forall (entry_ok ins floor budget maxrate) tr /\ Sorted Z.le (map fst tr).
Proof.
  intros ins weight floor budget maxrate h0 dl relay ans so vs bl Hb Hw Hm Hs tr.
  subst tr. unfold pub_trace, initial_broadcast.
  pose proof (ceiling_range _ _ _ Hb Hw Hm) as Hc.
  fold (max_fee_rate_allowed64 budget weight maxrate).
  set (ceil := max_fee_rate_allowed64 budget weight maxrate) in *.
  destruct (new_ff f_scale_delta ceil (calc_conf_target h0 dl) relay ans so) as [f0|e] eqn:E0;
    [|split; constructor].
  assert (Hc' : 0 <= ceil <= RMAX) by lia.
  destruct (new_ff_inv _ _ Hok _ _ _ _ _ _ Hc' (calc_conf_range h0 dl) Hs E0) as (Hi0 & He0 & _).
  destruct (rbf_loop f_scale_pos vs ins weight floor budget f0) as [[f1 t1]|e] eqn:E1;
    [|split; constructor].
  destruct (rbf_loop_inv _ _ Hok _ _ _ _ _ _ _ _ Hi0 E1) as (Hi1 & _ & He1 & _ & Hck).
  destruct (blocks_ok _ _ Hok ins weight floor budget dl bl f1 Hi1) as (Hall & Hsorted).
  assert (Hcur1 : ff_cur f1 <= ff_end f1) by (destruct Hi1 as (_ & ? & _); lia).
  split.
  - constructor.
    + split; cbn [fst snd]; [lia|]. eapply create_checked_ok; eauto.
    + eapply Forall_impl; [|exact Hall]. intros e (Hr & Htx). split; auto. lia.
  - cbn [map fst]. constructor; auto.
    destruct (blocks f_scale_pos ins weight floor budget dl f1 bl) as [|e0 rest]; cbn; constructor.
    inversion Hall; subst. cbn in *. lia.
Qed.

Lemma c18_topup : forall extra utxos l l' st,
  add_wallet_inputs extra l utxos = (l', st) ->
  (exists k, l' = l ++ map (fun u => mkB u 0 false) (firstn k utxos)) /\
  set_budget extra l' = set_budget extra l /\
  (st = TopSatisfied -> set_budget extra l' <= spendable l') /\
  (st = TopNotEnoughInputs -> forall i, In i l' -> b_req i = true).
Proof.
  intros extra utxos l l' st H.
  destruct (add_wallet_inputs_spec _ _ _ _ _ H) as (H1 & H2 & H3 & H4).
  repeat split; auto. intros Hs. apply no_need_covers_budget. auto.
Qed.
