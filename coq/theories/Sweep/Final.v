(* C18 lemmas on the concrete (Flocq binary64) model: the generic integer
   development of Proofs.v instantiated with FloatProofs.float_scalings_ok. *)
From Coq Require Import ZArith List Bool Lia Permutation Sorted.
From LV Require Import Sweep.Model Sweep.Proofs Sweep.FloatProofs.
Import ListNotations.
Local Open Scope Z_scope.

Notation frun64 := (frun f_scale_pos).
Notation fstep64 := (fstep f_scale_pos).
Notation pub_trace64 := (pub_trace f_scale_delta f_scale_pos).
Notation Hok := float_scalings_ok.

Definition ff_premises (maxr conf relay : Z) (so : option Z) : Prop :=
  0 <= maxr <= RMAX /\ 0 <= conf < WMAX /\ start_ok relay so.

Lemma c18_inv0 : forall maxr conf relay ans so f0,
  ff_premises maxr conf relay so -> new_ff64 maxr conf relay ans so = Ok f0 ->
  inv f_scale_pos f0 /\ ff_end f0 = maxr.
Proof.
  intros maxr conf relay ans so f0 (Hm & Hc & Hs) H.
  destruct (new_ff_inv _ _ Hok _ _ _ _ _ _ Hm Hc Hs H) as (Hi & He & _). auto.
Qed.

Lemma c18_cap : forall maxr conf relay ans so f0 ops,
  ff_premises maxr conf relay so -> new_ff64 maxr conf relay ans so = Ok f0 ->
  ff_cur (frun64 f0 ops) <= maxr /\
  (forall p, rate_at_pos64 (frun64 f0 ops) p <= maxr).
Proof.
  intros maxr conf relay ans so f0 ops Hp H.
  destruct (c18_inv0 _ _ _ _ _ _ Hp H) as (Hi & He).
  destruct (frun_inv _ _ Hok ops f0 Hi) as ((_ & Hc & _) & _ & He' & _).
  split; [lia|]. intros p. rewrite <- He, <- He'. apply rate_at_cap.
Qed.

Lemma c18_monotone : forall maxr conf relay ans so f0,
  ff_premises maxr conf relay so -> new_ff64 maxr conf relay ans so = Ok f0 ->
  (forall ops o, ff_cur (frun64 f0 ops) <= ff_cur (fstep64 (frun64 f0 ops) o)) /\
  (forall ops ops', ff_cur (frun64 f0 ops) <= ff_cur (frun64 f0 (ops ++ ops'))) /\
  (forall p q, 0 <= p <= q -> rate_at_pos64 f0 p <= rate_at_pos64 f0 q).
Proof.
  intros maxr conf relay ans so f0 Hp H.
  destruct (c18_inv0 _ _ _ _ _ _ Hp H) as (Hi & He).
  repeat split.
  - intros ops o. destruct (frun_inv _ _ Hok ops f0 Hi) as (Hi' & _).
    apply (fstep_inv _ _ Hok _ o Hi').
  - intros ops ops'. unfold frun. rewrite fold_left_app.
    destruct (frun_inv _ _ Hok ops f0 Hi) as (Hi' & _).
    apply (frun_inv _ _ Hok ops' _ Hi').
  - intros p q Hpq. apply (rate_at_mono _ _ Hok); auto. apply Hi.
Qed.

Lemma wrap32s_range : forall z, - 2147483648 <= wrap32s z < 2147483648.
Proof.
  intros z. unfold wrap32s.
  change (2 ^ 31) with 2147483648. change (2 ^ 32) with 4294967296.
  assert (H0 : 0 < 4294967296) by lia.
  pose proof (Z.mod_pos_bound (z + 2147483648) 4294967296 H0). lia.
Qed.

Lemma calc_conf_range : forall h dl, 0 <= calc_conf_target h dl < WMAX.
Proof.
  intros h dl. unfold calc_conf_target, WMAX.
  pose proof (wrap32s_range (dl - h)).
  destruct (wrap32s (dl - h) <? 0) eqn:E; [lia|]. apply Z.ltb_ge in E. lia.
Qed.

Lemma calc_conf_le1 : forall h dl, - 2147483648 <= dl - h < 2147483648 -> dl - 1 <= h ->
  0 <= calc_conf_target h dl <= 1.
Proof.
  intros h dl Hr Hh. unfold calc_conf_target. rewrite wrap32s_id by lia.
  destruct (dl - h <? 0) eqn:E; [lia|]. apply Z.ltb_ge in E. lia.
Qed.

Lemma c18_reaches_ceiling : forall maxr conf relay ans so f0,
  ff_premises maxr conf relay so -> new_ff64 maxr conf relay ans so = Ok f0 ->
  (conf <= 1 -> ff_cur f0 = maxr) /\
  (forall ops c ops', 0 <= c <= 1 -> ff_cur (frun64 f0 (ops ++ FConf c :: ops')) = maxr) /\
  (forall ops h dl ops', - 2147483648 <= dl - h < 2147483648 -> dl - 1 <= h ->
     ff_cur (frun64 f0 (ops ++ FConf (calc_conf_target h dl) :: ops')) = maxr).
Proof.
  intros maxr conf relay ans so f0 Hp H.
  destruct (c18_inv0 _ _ _ _ _ _ Hp H) as (Hi & He).
  assert (Hmain : forall ops c ops', 0 <= c <= 1 ->
            ff_cur (frun64 f0 (ops ++ FConf c :: ops')) = maxr).
  { intros ops c ops' Hc. unfold frun. rewrite fold_left_app. cbn [fold_left].
    fold (frun64 f0 ops).
    destruct (frun_inv _ _ Hok ops f0 Hi) as (Hi1 & _ & He1 & _).
    pose proof (conf_le1_reaches _ _ c Hi1 Hc) as Hr.
    destruct (fstep_inv _ _ Hok _ (FConf c) Hi1) as (Hi2 & _ & He2 & _).
    fold (frun64 (fstep64 (frun64 f0 ops) (FConf c)) ops').
    destruct (frun_inv _ _ Hok ops' _ Hi2) as ((_ & Hc3 & _) & Hm3 & He3 & _).
    lia. }
  repeat split.
  - destruct Hp as (Hm & Hc & Hs).
    destruct (new_ff_inv _ _ Hok _ _ _ _ _ _ Hm Hc Hs H) as (_ & _ & _ & Hx & _). exact Hx.
  - exact Hmain.
  - intros ops h dl ops' Hr Hh. apply Hmain. apply calc_conf_le1; auto.
Qed.

Lemma c18_floor : forall maxr conf relay ans f0,
  0 <= maxr <= RMAX -> 1 < conf < WMAX -> 0 <= relay <= maxr ->
  new_ff64 maxr conf relay ans None = Ok f0 ->
  relay <= ff_cur f0 <= maxr.
Proof.
  intros maxr conf relay ans f0 Hm Hc Hr H.
  assert (Hs : start_ok relay None) by (cbn; lia).
  assert (Hc0 : 0 <= conf < WMAX) by lia.
  assert (Hc1 : 1 < conf) by lia.
  destruct (new_ff_inv _ _ Hok _ _ _ _ _ _ Hm Hc0 Hs H) as (Hi & He & _ & _ & Hx).
  destruct (Hx Hc1) as (_ & Hge).
  destruct Hi as (_ & Hc' & _). lia.
Qed.

(* a start above the ceiling (supplied, relay fee at conf >= 1008, or an
   estimate with ceiling 0) is capped: the initial rate IS the ceiling *)
Lemma c18_start_clamped : forall maxr conf relay ans s f0,
  1 < conf -> maxr < s ->
  new_ff64 maxr conf relay ans (Some s) = Ok f0 ->
  ff_cur f0 = maxr /\ ff_start f0 = maxr /\ ff_end f0 = maxr.
Proof.
  intros maxr conf relay ans s f0 Hc Hs H. unfold new_ff64, new_ff in H.
  assert (E1 : (conf <=? 1) = false) by (apply Z.leb_gt; lia). rewrite E1 in H.
  assert (E2 : (maxr <? s) = true) by (apply Z.ltb_lt; lia). rewrite E2 in H.
  destruct (_ && _); [discriminate|]. inversion H; subst. cbn. auto.
Qed.

Lemma c18_estimated_start_clamped : forall maxr conf relay ans f0,
  0 <= maxr <= RMAX -> 1 < conf < WMAX -> 0 <= relay ->
  new_ff64 maxr conf relay ans None = Ok f0 ->
  Z.min relay maxr <= ff_cur f0 <= maxr.
Proof.
  intros maxr conf relay ans f0 Hm Hc Hr H.
  assert (Hs : start_ok relay None) by (cbn; lia).
  assert (Hc0 : 0 <= conf < WMAX) by lia.
  assert (Hc1 : 1 < conf) by lia.
  destruct (new_ff_inv _ _ Hok _ _ _ _ _ _ Hm Hc0 Hs H) as (Hi & He & _ & _ & Hx).
  destruct (Hx Hc1) as (_ & Hge).
  destruct Hi as (_ & Hc' & _). lia.
Qed.

Lemma c18_budget : forall ins weight floor budget rate t,
  create_checked ins weight floor budget rate = Ok t ->
  tx_ok ins floor budget t /\
  (0 <= rate <= RMAX -> 0 <= weight < WMAX -> 0 <= rate * weight / 1000 <= tx_fee t).
Proof.
  intros ins weight floor budget rate t H. split.
  - eapply create_checked_ok; eauto.
  - intros Hr Hw. eapply create_checked_fee_lb; eauto.
Qed.

Lemma ceiling_range : forall budget weight maxrate,
  0 <= budget <= BMAX -> 1 <= weight < WMAX -> 0 <= maxrate <= RMAX ->
  0 <= max_fee_rate_allowed64 budget weight maxrate <= maxrate.
Proof.
  intros budget weight maxrate Hb Hw Hm. unfold max_fee_rate_allowed64, max_fee_rate_allowed.
  destruct Hok as (Hn & _). pose proof (Hn budget weight Hb Hw).
  destruct (maxrate <? f_scale_delta budget weight) eqn:E; [lia|]. apply Z.ltb_ge in E. lia.
Qed.

Lemma c18_published_trace_ok :
  forall ins weight floor budget maxrate h0 dl relay ans so vs bl,
  0 <= budget <= BMAX -> 1 <= weight < WMAX -> 0 <= maxrate <= RMAX ->
  start_ok relay so ->
  let tr := pub_trace64 ins weight floor budget maxrate h0 dl relay ans so vs bl in
  Forall (entry_ok ins floor budget maxrate) tr /\ Sorted Z.le (map fst tr).
Proof.
  intros ins weight floor budget maxrate h0 dl relay ans so vs bl Hb Hw Hm Hs tr.
  subst tr. unfold pub_trace, initial_broadcast.
  pose proof (ceiling_range _ _ _ Hb Hw Hm) as Hc.
  fold (max_fee_rate_allowed64 budget weight maxrate).
  set (ceil := max_fee_rate_allowed64 budget weight maxrate) in *.
  destruct (new_ff f_scale_delta ceil (calc_conf_target h0 dl) relay ans so) as [f0|e] eqn:E0;
    [|split; constructor].
  assert (Hc' : 0 <= ceil <= RMAX) by lia.
  destruct (new_ff_inv _ _ Hok _ _ _ _ _ _ Hc' (calc_conf_range h0 dl) Hs E0) as (Hi0 & He0 & _).
  destruct (rbf_loop f_scale_pos vs ins weight floor budget f0) as [[f1 t1]|e] eqn:E1;
    [|split; constructor].
  destruct (rbf_loop_inv _ _ Hok _ _ _ _ _ _ _ _ Hi0 E1) as (Hi1 & _ & He1 & _ & Hck).
  destruct (blocks_ok _ _ Hok ins weight floor budget dl bl f1 Hi1) as (Hall & Hsorted).
  assert (Hcur1 : ff_cur f1 <= ff_end f1) by (destruct Hi1 as (_ & ? & _); lia).
  split.
  - constructor.
    + split; cbn [fst snd]; [lia|]. eapply create_checked_ok; eauto.
    + eapply Forall_impl; [|exact Hall]. intros e (Hr & Htx). split; auto. lia.
  - cbn [map fst]. constructor; auto.
    destruct (blocks f_scale_pos ins weight floor budget dl f1 bl) as [|e0 rest]; cbn; constructor.
    inversion Hall; subst. cbn in *. lia.
Qed.

Lemma c18_topup : forall extra utxos l l' st,
  add_wallet_inputs extra l utxos = (l', st) ->
  (exists k, l' = l ++ map (fun u => mkB u 0 false) (firstn k utxos)) /\
  set_budget extra l' = set_budget extra l /\
  (st = TopSatisfied -> set_budget extra l' <= spendable l') /\
  (st = TopNotEnoughInputs -> forall i, In i l' -> b_req i = true).
Proof.
  intros extra utxos l l' st H.
  destruct (add_wallet_inputs_spec _ _ _ _ _ H) as (H1 & H2 & H3 & H4).
  repeat split; auto. intros Hs. apply no_need_covers_budget. auto.
Qed.

(* ------------------------------------------------------------------ *)
(* composition sweeper -> input set -> publisher -> fee function:       *)
(* where the starting fee rate of a (retried) sweep comes from           *)

(* a starting rate stored on a sweeper input is acceptable when it is absent,
   the "no tx existed" marker 0, or at least the relay floor *)
Definition start_val_ok (relay : Z) (o : option Z) : Prop :=
  match o with None => True | Some s => s = 0 \/ relay <= s end.

Lemma set_start_fold : forall l mx so,
  (so = None /\ mx = 0 \/ so = Some mx /\ 0 < mx) ->
  let r := fold_left set_start_step l (mx, so) in
  (snd r = None /\ fst r = 0 \/ snd r = Some (fst r) /\ 0 < fst r) /\
  mx <= fst r /\
  (forall s, In (Some s) l -> s <= fst r) /\
  (fst r = mx \/ In (Some (fst r)) l).
Proof.
  induction l as [|o l IH]; intros mx so Hacc; cbn [fold_left].
  - cbn. split; [exact Hacc|]. split; [lia|]. split; [intros s []|]. left; reflexivity.
  - set (acc' := set_start_step (mx, so) o).
    assert (Hstep : (snd acc' = None /\ fst acc' = 0 \/ snd acc' = Some (fst acc') /\ 0 < fst acc') /\
                    mx <= fst acc' /\
                    (forall s, o = Some s -> s <= fst acc') /\
                    (fst acc' = mx \/ o = Some (fst acc'))).
    { subst acc'. unfold set_start_step. cbn [fst snd].
      destruct o as [r|]; cbn [fst snd].
      - destruct (mx <? r) eqn:E; cbn [fst snd].
        + apply Z.ltb_lt in E.
          split; [right; split; [reflexivity|lia]|].
          split; [lia|].
          split; [intros s Hs; inversion Hs; lia|].
          right; reflexivity.
        + apply Z.ltb_ge in E.
          split; [exact Hacc|].
          split; [lia|].
          split; [intros s Hs; inversion Hs; lia|].
          left; reflexivity.
      - assert (E : (mx <? 0) = false) by (apply Z.ltb_ge; lia).
        rewrite E. cbn [fst snd].
        split; [exact Hacc|].
        split; [lia|].
        split; [intros s Hs; discriminate|].
        left; reflexivity. }
    destruct Hstep as (Ha & Hle & Ho & Hin).
    destruct acc' as [mx' so'] eqn:Eacc. cbn [fst snd] in *.
    specialize (IH mx' so' Ha). cbn zeta in IH.
    destruct IH as (I1 & I2 & I3 & I4).
    split; [exact I1|].
    split; [lia|].
    split.
    + intros s [Hs|Hs]; [specialize (Ho s Hs); lia | auto].
    + destruct I4 as [I4|I4].
      * destruct Hin as [Hin|Hin]; [left; lia | right; left; rewrite I4; exact Hin].
      * right. right. exact I4.
Qed.

(* BudgetInputSet.StartingFeeRate: the largest POSITIVE stored rate, None iff
   there is none *)
Lemma set_start_spec : forall l,
  match set_starting_fee_rate l with
  | None => forall s, In (Some s) l -> s <= 0
  | Some m => 0 < m /\ In (Some m) l /\ forall s, In (Some s) l -> s <= m
  end.
Proof.
  intros l. unfold set_starting_fee_rate.
  assert (H0 : @None Z = None /\ 0 = 0 \/ None = Some 0 /\ 0 < 0) by (left; auto).
  pose proof (set_start_fold l 0 None H0) as H. cbn zeta in H.
  destruct (fold_left set_start_step l (0, None)) as [mx so]. cbn [fst snd] in *.
  destruct H as ([(Hs & Hm)|(Hs & Hm)] & _ & Hall & Hin); subst so.
  - intros s Hs. specialize (Hall s Hs). lia.
  - repeat split; auto. destruct Hin as [Hin|Hin]; [lia | exact Hin].
Qed.

Lemma set_start_val_ok : forall relay l,
  Forall (start_val_ok relay) l ->
  match set_starting_fee_rate l with None => True | Some m => 0 < m /\ relay <= m end.
Proof.
  intros relay l Hl. pose proof (set_start_spec l) as H.
  destruct (set_starting_fee_rate l) as [m|]; auto.
  destruct H as (Hpos & Hin & _). split; auto.
  rewrite Forall_forall in Hl. specialize (Hl _ Hin). cbn in Hl. lia.
Qed.

(* the composed start: a fee function built from the input set's starting rate
   starts - and stays - at or above the relay floor (when the floor is not above
   the ceiling), and what a failed attempt feeds back to the inputs is again an
   acceptable stored rate: the invariant of the retry chain *)
Lemma c18_retry_start_floor : forall relay l maxr conf ans f0,
  Forall (start_val_ok relay) l ->
  0 <= maxr <= RMAX -> 0 <= conf < WMAX -> 0 <= relay <= maxr ->
  new_ff64 maxr conf relay ans (set_starting_fee_rate l) = Ok f0 ->
  relay <= ff_cur f0 <= maxr /\
  (forall ops, relay <= ff_cur (frun64 f0 ops) <= maxr) /\
  (forall ops, start_val_ok relay (retry_start (ff_cur (frun64 f0 ops)))) /\
  start_val_ok relay (retry_start 0).
Proof.
  intros relay l maxr conf ans f0 Hl Hm Hc Hr H.
  pose proof (set_start_val_ok relay l Hl) as Hso.
  set (so := set_starting_fee_rate l) in *.
  assert (Hs : start_ok relay so) by (destruct so as [m|]; cbn; lia).
  assert (Hp : ff_premises maxr conf relay so) by (unfold ff_premises; auto).
  destruct (new_ff_inv _ _ Hok _ _ _ _ _ _ Hm Hc Hs H) as (Hi & He & _ & Hle1 & Hgt1).
  assert (H0 : relay <= ff_cur f0 <= maxr).
  { destruct Hi as (_ & Hcur & _). split; [|lia].
    destruct (Z_le_gt_dec conf 1) as [Hc1|Hc1].
    - rewrite (Hle1 Hc1). lia.
    - assert (Hc2 : 1 < conf) by lia. destruct (Hgt1 Hc2) as (_ & Hst).
      destruct so as [m|]; lia. }
  assert (Hall : forall ops, relay <= ff_cur (frun64 f0 ops) <= maxr).
  { intros ops. split.
    - destruct (c18_monotone _ _ _ _ _ _ Hp H) as (_ & Hmono & _).
      specialize (Hmono [] ops). cbn [app] in Hmono. cbn in Hmono. lia.
    - apply (c18_cap _ _ _ _ _ _ ops Hp H). }
  repeat split; try apply H0; try apply Hall.
  - intros ops. cbn. right. apply Hall.
  - cbn. left. reflexivity.
Qed.

(* retry monotonicity, the provable clause: as long as the last failure of
   (at least) one input of the retried set carried a fee rate r > 0 - i.e. no
   failure-before-a-tx intervened and wiped it - the next fee function starts,
   and stays, at or above min(r, new ceiling) *)
Lemma c18_retry_monotone : forall l stored r maxr conf relay ans f,
  In (mark_publish_failed stored (failed_result_rate (FailAtRate r))) l -> 0 < r ->
  0 <= maxr <= RMAX -> 0 <= conf < WMAX ->
  new_ff64 maxr conf relay ans (set_starting_fee_rate l) = Ok f ->
  Z.min r maxr <= ff_cur f /\ (forall ops, Z.min r maxr <= ff_cur (frun64 f ops)).
Proof.
  intros l stored r maxr conf relay ans f Hin Hr Hm Hc H.
  unfold mark_publish_failed, retry_start, failed_result_rate in Hin.
  pose proof (set_start_spec l) as Hspec.
  destruct (set_starting_fee_rate l) as [m|] eqn:Em.
  - destruct Hspec as (Hpos & _ & Hmax). specialize (Hmax r Hin).
    assert (Hs : start_ok relay (Some m)) by (cbn; lia).
    assert (Hp : ff_premises maxr conf relay (Some m)) by (unfold ff_premises; auto).
    destruct (new_ff_inv _ _ Hok _ _ _ _ _ _ Hm Hc Hs H) as (Hi & He & _ & Hle1 & Hgt1).
    assert (H0 : Z.min r maxr <= ff_cur f).
    { destruct (Z_le_gt_dec conf 1) as [Hc1|Hc1].
      - rewrite (Hle1 Hc1). lia.
      - assert (Hc2 : 1 < conf) by lia. destruct (Hgt1 Hc2) as (_ & Hst). lia. }
    split; [exact H0|]. intros ops.
    destruct (c18_monotone _ _ _ _ _ _ Hp H) as (_ & Hmono & _).
    specialize (Hmono [] ops). cbn [app] in Hmono. cbn in Hmono. lia.
  - specialize (Hspec r Hin). lia.
Qed.

(* ... and the clause that is FALSE of the code that exists (finding C18-F2):
   ceiling 1002, relay 253, estimate 1000, deadline 21 blocks away.  The fee
   function reaches 1002 at conf target 6 (rounding); the wallet refuses that tx:
   TxFailed carries 1002 and is stored.  The retry at conf target 5 has start ==
   end: ErrZeroFeeRateDelta before a tx exists, whose TxFailed carries 0 and
   OVERWRITES the stored 1002.  The third attempt (estimate now 300) restarts at
   300 < 1002 (1001 had been published successfully at conf target 16). *)
Lemma c18_retry_monotone_refuted :
  exists maxr relay conf1 ans1 f0 ops conf2 conf3 ans3 f2,
    new_ff64 maxr conf1 relay ans1 (set_starting_fee_rate [None]) = Ok f0 /\
    let r1 := ff_cur (frun64 f0 ops) in
    let stored1 := mark_publish_failed None (failed_result_rate (FailAtRate r1)) in
    new_ff64 maxr conf2 relay ans1 (set_starting_fee_rate [stored1]) = Err ErrZeroFeeRateDelta /\
    let stored2 := mark_publish_failed stored1 (failed_result_rate FailNoTx) in
    new_ff64 maxr conf3 relay ans3 (set_starting_fee_rate [stored2]) = Ok f2 /\
    0 < r1 <= maxr /\ relay <= ff_cur f2 /\ ff_cur f2 < r1 /\ ff_cur f2 < Z.min r1 maxr.
Proof.
  exists 1002, 253, 21, (EstOk 1000).
  eexists. exists [FConf 20; FConf 16; FConf 6], 5, 4, (EstOk 300). eexists.
  split; [vm_compute; reflexivity|].
  split; [vm_compute; reflexivity|].
  split; [vm_compute; reflexivity|].
  vm_compute. repeat split; discriminate.
Qed.

(* ------------------------------------------------------------------ *)
(* child-pays-for-parent: which fee rule the publisher uses             *)

Lemma west_fee_mono : forall r1 r2 w, 0 <= r1 <= r2 -> r2 <= RMAX -> 0 <= w < WMAX ->
  0 <= west_fee r1 w <= west_fee r2 w.
Proof.
  intros r1 r2 w Hr Hm Hw. unfold west_fee, RMAX, WMAX in *.
  assert (H1 : 0 <= r1 * w < 2 ^ 63) by nia.
  assert (H2 : 0 <= r2 * w < 2 ^ 63) by nia.
  rewrite !wrap64_id by lia.
  split; [apply Z.quot_pos; lia|]. apply Z.quot_le_mono; nia.
Qed.

(* the publisher's fee (prepareSweepTx: estimator.fee()) for inputs with ANY
   unconfirmed parents is the fee of the offered rate on the child's weight
   alone - hence within the cap the fee function guarantees for the rate *)
Lemma c18_cpfp_publisher_fee : forall rate maxr w ps,
  0 <= rate <= maxr -> maxr <= RMAX -> 0 <= w < WMAX ->
  prepare_fee rate w ps = fee_for_weight rate w /\
  0 <= prepare_fee rate w ps <= fee_for_weight maxr w.
Proof.
  intros rate maxr w ps Hr Hm Hw. unfold prepare_fee. split; [reflexivity|].
  change (fee_for_weight maxr w) with (west_fee maxr w). apply west_fee_mono; auto.
Qed.

(* feeWithParent (walletsweep path) never exceeds maxFeeRate * childWeight when a
   max fee rate is configured, and never goes below the child's own fee *)
Lemma c18_fee_with_parent_clamped : forall rate maxr w pf pw,
  maxr <> 0 ->
  west_fee_with_parent rate maxr w pf pw <= west_fee maxr w /\
  (west_fee rate w <= west_fee maxr w -> west_fee rate w <= west_fee_with_parent rate maxr w pf pw).
Proof.
  intros rate maxr w pf pw Hm. unfold west_fee_with_parent.
  assert (E : (maxr =? 0) = false) by (apply Z.eqb_neq; auto). rewrite E.
  set (cf := west_fee rate w). set (f0 := west_fee rate (w + pw) - pf). set (mf := west_fee maxr w).
  destruct (f0 <? cf) eqn:E1; destruct (mf <? _) eqn:E2;
    try apply Z.ltb_lt in E1; try apply Z.ltb_ge in E1;
    try apply Z.ltb_lt in E2; try apply Z.ltb_ge in E2; lia.
Qed.

(* ... but WITHOUT the clamp (maxFeeRate = 0, the way prepareSweepTx builds its
   estimator) feeWithParent exceeds the cap for a rate within the cap: using it
   in the publisher breaks "fee rate <= MaxFeeRate" (seeded change C18-5).
   Offered rate = MaxFeeRate = 2500 sat/kw, child 700 wu, parent 1200 wu paying
   300 sat (250 sat/kw): 4450 sat = 6357 sat/kw instead of 1750 sat. *)
Lemma c18_fee_with_parent_unclamped_refuted :
  exists rate maxr w p,
    0 <= rate <= maxr /\
    let '(pf, pw) := add_parents rate [Some p] [] 0 0 in
    prepare_fee rate w [Some p] <= west_fee maxr w /\
    west_fee maxr w < west_fee_with_parent rate 0 w pf pw.
Proof.
  exists 2500, 2500, 700, (mkPar 1 300 1200). vm_compute. repeat split; discriminate.
Qed.
