(* The Flocq binary64 scalings satisfy [scalings_ok]: nonnegativity, ranges
   and monotonicity of
     f_scale_delta d w = round(float64(d) * (1000 / float64(w)))
     f_scale_pos delta p = round(float64(delta) * (float64(p) / 1000))
   from the monotonicity of IEEE rounding (Flocq round_le) and the
   B*_correct lemmas; every intermediate stays far below overflow. *)
From Coq Require Import ZArith Reals Lia Lra Psatz.
From Flocq Require Import Core IEEE754.BinarySingleNaN.
From LV Require Import Sweep.Model Sweep.Proofs.
Local Open Scope R_scope.

Notation fexp64 := (SpecFloat.fexp 53 1024).
Notation RN := (round radix2 fexp64 ZnearestE).

Lemma fexp64_FLT : forall e, fexp64 e = FLT_exp (-1074) 53 e.
Proof. intros e. reflexivity. Qed.

#[local] Instance valid_fexp64 : Valid_exp fexp64 := fexp_correct 53 1024 Hprec64.

(* m * 2^e with |m| < 2^53, e >= -1074 is representable *)
Lemma generic_me : forall m e, (Z.abs m < 2 ^ 53)%Z -> (-1074 <= e)%Z ->
  generic_format radix2 fexp64 (IZR m * bpow radix2 e).
Proof.
  intros m e Hm He.
  apply (generic_format_FLT radix2 (-1074) 53).
  apply (FLT_spec radix2 (-1074) 53 _ (Float radix2 m e)); auto.
Qed.

Lemma generic_int : forall m, (Z.abs m < 2 ^ 53)%Z -> generic_format radix2 fexp64 (IZR m).
Proof.
  intros m Hm. replace (IZR m) with (IZR m * bpow radix2 0) by (simpl; ring).
  apply generic_me; auto. lia.
Qed.

Lemma RN_le : forall x y, x <= y -> RN x <= RN y.
Proof. intros. apply round_le; auto with typeclass_instances. Qed.

Lemma RN_0 : RN 0 = 0.
Proof. apply round_0; auto with typeclass_instances. Qed.

Lemma RN_nonneg : forall x, 0 <= x -> 0 <= RN x.
Proof. intros x Hx. rewrite <- RN_0. apply RN_le; auto. Qed.

Lemma RN_le_g : forall x y, generic_format radix2 fexp64 y -> x <= y -> RN x <= y.
Proof. intros. apply round_le_generic; auto with typeclass_instances. Qed.

Lemma RN_ge_g : forall x y, generic_format radix2 fexp64 x -> x <= y -> x <= RN y.
Proof. intros. apply round_ge_generic; auto with typeclass_instances. Qed.

Lemma RN_id : forall x, generic_format radix2 fexp64 x -> RN x = x.
Proof. intros. apply round_generic; auto with typeclass_instances. Qed.

(* no overflow whenever |x| <= 2^100 *)
Lemma no_ovf : forall x, Rabs x <= bpow radix2 100 ->
  Rlt_bool (Rabs (RN x)) (bpow radix2 1024) = true.
Proof.
  intros x Hx. apply Rlt_bool_true.
  apply Rle_lt_trans with (bpow radix2 100).
  - apply abs_round_le_generic; auto with typeclass_instances.
    replace (bpow radix2 100) with (IZR 1 * bpow radix2 100) by ring.
    apply generic_me; simpl; lia.
  - apply bpow_lt. lia.
Qed.

Lemma abs_small : forall x b, 0 <= x <= b -> b <= bpow radix2 100 -> Rabs x <= bpow radix2 100.
Proof. intros x b Hx Hb. rewrite Rabs_pos_eq; lra. Qed.

Lemma bpow100 : bpow radix2 100 = IZR (2 ^ 100).
Proof. reflexivity. Qed.

Lemma IZR_small : forall z, (Z.abs z <= 2 ^ 63)%Z -> Rabs (IZR z) <= bpow radix2 100.
Proof.
  intros z Hz. rewrite <- abs_IZR, bpow100. apply IZR_le.
  apply Z.le_trans with (1 := Hz). apply Z.pow_le_mono_r; lia.
Qed.

Lemma f_of_Z_spec : forall z, (Z.abs z <= 2 ^ 63)%Z ->
  B2R (f_of_Z z) = RN (IZR z) /\ is_finite (f_of_Z z) = true.
Proof.
  intros z Hz. unfold f_of_Z.
  generalize (binary_normalize_correct 53 1024 Hprec64 Hemax64 mode_NE z 0 false).
  cbv zeta.
  replace (F2R (Float radix2 z 0)) with (IZR z) by (unfold F2R; simpl; ring).
  change (round_mode mode_NE) with ZnearestE. rewrite no_ovf by (apply IZR_small; exact Hz).
  intros (H1 & H2 & _). auto.
Qed.

Lemma f_of_Z_int : forall z, (Z.abs z < 2 ^ 53)%Z ->
  B2R (f_of_Z z) = IZR z /\ is_finite (f_of_Z z) = true.
Proof.
  intros z Hz. destruct (f_of_Z_spec z) as (H1 & H2); [lia|].
  split; auto. rewrite H1. apply RN_id. apply generic_int. exact Hz.
Qed.

Lemma f_mul_spec : forall x y, is_finite x = true -> is_finite y = true ->
  Rabs (B2R x * B2R y) <= bpow radix2 100 ->
  B2R (f_mul x y) = RN (B2R x * B2R y) /\ is_finite (f_mul x y) = true.
Proof.
  intros x y Fx Fy Hb. unfold f_mul.
  generalize (Bmult_correct 53 1024 Hprec64 Hemax64 mode_NE x y).
  change (round_mode mode_NE) with ZnearestE. rewrite no_ovf by exact Hb.
  intros (H1 & H2 & _). rewrite Fx, Fy in H2. auto.
Qed.

Lemma f_div_spec : forall x y, is_finite x = true -> B2R y <> 0 ->
  Rabs (B2R x / B2R y) <= bpow radix2 100 ->
  B2R (f_div x y) = RN (B2R x / B2R y) /\ is_finite (f_div x y) = true.
Proof.
  intros x y Fx Hy Hb. unfold f_div.
  generalize (Bdiv_correct 53 1024 Hprec64 Hemax64 mode_NE x y Hy).
  change (round_mode mode_NE) with ZnearestE. rewrite no_ovf by exact Hb.
  intros (H1 & H2 & _). rewrite Fx in H2. auto.
Qed.

Lemma f_add_spec : forall x y, is_finite x = true -> is_finite y = true ->
  Rabs (B2R x + B2R y) <= bpow radix2 100 ->
  B2R (f_add x y) = RN (B2R x + B2R y) /\ is_finite (f_add x y) = true.
Proof.
  intros x y Fx Fy Hb. unfold f_add.
  generalize (Bplus_correct 53 1024 Hprec64 Hemax64 mode_NE x y Fx Fy).
  change (round_mode mode_NE) with ZnearestE. rewrite no_ovf by exact Hb.
  intros (H1 & H2 & _). auto.
Qed.

Lemma Btrunc_spec : forall x : f64, Btrunc x = Ztrunc (B2R x).
Proof.
  intros x. apply eq_IZR. rewrite Btrunc_correct by exact Hprec64.
  apply round_FIX_IZR.
Qed.

Lemma f_1000_spec : B2R f_1000 = 1000 /\ is_finite f_1000 = true.
Proof. unfold f_1000. apply (f_of_Z_int 1000). simpl; lia. Qed.

Lemma f_half_spec : B2R f_half = / 2 /\ is_finite f_half = true.
Proof.
  unfold f_half.
  destruct (f_of_Z_int 1) as (A1 & A2); [simpl; lia|].
  destruct (f_of_Z_int 2) as (B1 & B2); [simpl; lia|].
  assert (Hb : Rabs (B2R (f_of_Z 1) / B2R (f_of_Z 2)) <= bpow radix2 100).
  { rewrite A1, B1. rewrite Rabs_pos_eq by lra. rewrite bpow100.
    apply Rle_trans with 1; [lra|]. apply (IZR_le 1). lia. }
  destruct (f_div_spec (f_of_Z 1) (f_of_Z 2) A2) as (H1 & H2); auto.
  { rewrite B1. lra. }
  split; auto. rewrite H1, A1, B1.
  replace (1 / 2) with (IZR 1 * bpow radix2 (-1)) by (simpl; lra).
  replace (/ 2) with (IZR 1 * bpow radix2 (-1)) by (simpl; lra).
  apply RN_id. apply generic_me; simpl; lia.
Qed.

Lemma Rmul_bound : forall x y a b, 0 <= x <= IZR a -> 0 <= y <= IZR b ->
  (a * b <= 2 ^ 100)%Z -> 0 <= x * y <= IZR (a * b) /\ Rabs (x * y) <= bpow radix2 100.
Proof.
  intros x y a b Hx Hy Hab.
  assert (H0 : 0 <= x * y) by (apply Rmult_le_pos; lra).
  assert (H1 : x * y <= IZR (a * b)).
  { rewrite mult_IZR. apply Rmult_le_compat; lra. }
  split; [lra|]. rewrite Rabs_pos_eq by exact H0. rewrite bpow100.
  apply Rle_trans with (1 := H1). apply IZR_le. exact Hab.
Qed.

Lemma f_zero_spec : B2R f_zero = 0 /\ is_finite f_zero = true.
Proof. split; reflexivity. Qed.

(* btcutil round on a non-negative finite float below 2^99 *)
Lemma go_round_nonneg : forall x : f64, is_finite x = true ->
  0 <= B2R x <= IZR (2 ^ 99) ->
  go_round x = Ztrunc (RN (B2R x + / 2)).
Proof.
  intros x Fx Hx. unfold go_round.
  destruct f_zero_spec as (Z1 & Z2). destruct f_half_spec as (Hh1 & Hh2).
  rewrite (Bltb_correct 53 1024 x f_zero Fx Z2), Z1.
  rewrite Rlt_bool_false by lra.
  rewrite Btrunc_spec.
  destruct (f_add_spec x f_half Fx Hh2) as (A1 & _).
  { rewrite Hh1. rewrite Rabs_pos_eq by lra. rewrite bpow100.
    apply Rle_trans with (IZR (2 ^ 99) + 1); [lra|].
    rewrite <- (plus_IZR (2 ^ 99) 1). apply IZR_le. lia. }
  rewrite A1, Hh1. reflexivity.
Qed.

(* Amount(a).MulF64(f) for a, f >= 0 *)
Lemma mulf64_nonneg : forall a (f : f64) (b : Z),
  (0 <= a <= 2 ^ 62)%Z -> is_finite f = true -> 0 <= B2R f <= IZR b -> (0 <= b <= 2 ^ 33)%Z ->
  mulf64 a f = Ztrunc (RN (RN (RN (IZR a) * B2R f) + / 2)) /\
  0 <= RN (IZR a) <= IZR (2 ^ 62).
Proof.
  intros a f b Ha Ff Hf Hb. unfold mulf64.
  destruct (f_of_Z_spec a) as (A1 & A2); [lia|].
  assert (HA : 0 <= RN (IZR a) <= IZR (2 ^ 62)).
  { split.
    - apply RN_nonneg. apply (IZR_le 0). lia.
    - apply RN_le_g.
      + replace (IZR (2 ^ 62)) with (IZR 1 * bpow radix2 62) by (simpl; ring).
        apply generic_me; simpl; lia.
      + apply IZR_le. lia. }
  assert (Hfb : 0 <= B2R f <= IZR (2 ^ 33)).
  { split; [lra|]. apply Rle_trans with (IZR b); [lra|]. apply IZR_le. lia. }
  destruct (Rmul_bound (RN (IZR a)) (B2R f) (2 ^ 62) (2 ^ 33) HA Hfb) as ((P0 & P1) & P2); [lia|].
  destruct (f_mul_spec (f_of_Z a) f A2 Ff) as (M1 & M2).
  { rewrite A1. exact P2. }
  split; [|exact HA].
  rewrite go_round_nonneg; auto.
  - rewrite M1, A1. reflexivity.
  - rewrite M1, A1. split.
    + apply RN_nonneg. exact P0.
    + apply RN_le_g.
      * replace (IZR (2 ^ 99)) with (IZR 1 * bpow radix2 99) by (simpl; ring).
        apply generic_me; simpl; lia.
      * apply Rle_trans with (1 := P1). apply IZR_le. lia.
Qed.

(* real-valued mirrors of the inner float expressions *)
Definition posR (p : Z) : R := RN (RN (IZR p) / 1000).       (* float64(p) / 1000 *)
Definition deltaR (w : Z) : R := RN (1000 / RN (IZR w)).     (* 1000 / float64(w) *)
Definition scaleR (a : Z) (f : R) : Z := Ztrunc (RN (RN (RN (IZR a) * f) + / 2)).

Lemma RN_int_range : forall z lo hi, (lo <= z <= hi)%Z -> (Z.abs lo < 2 ^ 53)%Z ->
  (Z.abs hi < 2 ^ 53)%Z -> IZR lo <= RN (IZR z) <= IZR hi.
Proof.
  intros z lo hi Hz Hlo Hhi. split.
  - apply RN_ge_g; [apply generic_int; auto|apply IZR_le; lia].
  - apply RN_le_g; [apply generic_int; auto|apply IZR_le; lia].
Qed.

Lemma posR_spec : forall p, (0 <= p < 4294967296)%Z ->
  B2R (f_div (f_of_Z p) f_1000) = posR p /\ is_finite (f_div (f_of_Z p) f_1000) = true /\
  0 <= posR p <= IZR 4294968.
Proof.
  intros p Hp.
  destruct (f_of_Z_spec p) as (P1 & P2); [lia|].
  destruct f_1000_spec as (K1 & K2).
  assert (HP : IZR 0 <= RN (IZR p) <= IZR 4294967296).
  { apply RN_int_range; simpl; lia. }
  assert (Hq : 0 <= RN (IZR p) / 1000 <= IZR 4294968) by (simpl in HP; lra).
  destruct (f_div_spec (f_of_Z p) f_1000 P2) as (D1 & D2).
  { rewrite K1. lra. }
  { rewrite P1, K1. rewrite Rabs_pos_eq by lra. rewrite bpow100.
    apply Rle_trans with (IZR 4294968); [lra|]. apply IZR_le. lia. }
  rewrite D1, P1, K1. fold (posR p). repeat split; auto.
  - apply RN_nonneg. lra.
  - apply RN_le_g; [apply generic_int; simpl; lia|lra].
Qed.

Lemma posR_mono : forall p q, (p <= q)%Z -> posR p <= posR q.
Proof.
  intros p q H. unfold posR. apply RN_le. unfold Rdiv.
  apply Rmult_le_compat_r; [lra|]. apply RN_le. apply IZR_le. exact H.
Qed.

Lemma deltaR_spec : forall w, (1 <= w < 4294967296)%Z ->
  B2R (f_div f_1000 (f_of_Z w)) = deltaR w /\ is_finite (f_div f_1000 (f_of_Z w)) = true /\
  0 <= deltaR w <= IZR 1000.
Proof.
  intros w Hw.
  destruct (f_of_Z_spec w) as (W1 & W2); [lia|].
  destruct f_1000_spec as (K1 & K2).
  assert (HW : IZR 1 <= RN (IZR w) <= IZR 4294967296).
  { apply RN_int_range; simpl; lia. }
  assert (Hi : 0 < / RN (IZR w) <= 1).
  { split; [apply Rinv_0_lt_compat; lra|].
    rewrite <- Rinv_1. apply Rinv_le_contravar; lra. }
  assert (Hq : 0 <= 1000 / RN (IZR w) <= IZR 1000) by (unfold Rdiv; nra).
  destruct (f_div_spec f_1000 (f_of_Z w) K2) as (D1 & D2).
  { rewrite W1. lra. }
  { rewrite W1, K1. rewrite Rabs_pos_eq by lra. rewrite bpow100.
    apply Rle_trans with (IZR 1000); [lra|]. apply IZR_le. lia. }
  rewrite D1, W1, K1. fold (deltaR w). repeat split; auto.
  - apply RN_nonneg. lra.
  - apply RN_le_g; [apply generic_int; simpl; lia|lra].
Qed.

Lemma f_scale_pos_eq : forall delta p, (0 <= delta <= 2 ^ 62)%Z -> (0 <= p < 4294967296)%Z ->
  f_scale_pos delta p = scaleR delta (posR p).
Proof.
  intros delta p Hd Hp. unfold f_scale_pos, scaleR.
  destruct (posR_spec p Hp) as (C1 & C2 & C3).
  destruct (mulf64_nonneg delta (f_div (f_of_Z p) f_1000) 4294968 Hd C2) as (M & _).
  - rewrite C1. exact C3.
  - lia.
  - rewrite M, C1. reflexivity.
Qed.

Lemma f_scale_delta_eq : forall d w, (0 <= d <= 2 ^ 62)%Z -> (1 <= w < 4294967296)%Z ->
  f_scale_delta d w = scaleR d (deltaR w).
Proof.
  intros d w Hd Hw. unfold f_scale_delta, scaleR.
  destruct (deltaR_spec w Hw) as (C1 & C2 & C3).
  destruct (mulf64_nonneg d (f_div f_1000 (f_of_Z w)) 1000 Hd C2) as (M & _).
  - rewrite C1. exact C3.
  - lia.
  - rewrite M, C1. reflexivity.
Qed.

Lemma scaleR_nonneg : forall a f, (0 <= a)%Z -> 0 <= f -> (0 <= scaleR a f)%Z.
Proof.
  intros a f Ha Hf. unfold scaleR. rewrite <- (Ztrunc_IZR 0). apply Ztrunc_le.
  apply RN_nonneg.
  assert (0 <= RN (RN (IZR a) * f)).
  { apply RN_nonneg. apply Rmult_le_pos; [|exact Hf]. apply RN_nonneg. apply (IZR_le 0). exact Ha. }
  lra.
Qed.

Lemma scaleR_mono : forall a f g, (0 <= a)%Z -> f <= g -> (scaleR a f <= scaleR a g)%Z.
Proof.
  intros a f g Ha Hfg. unfold scaleR. apply Ztrunc_le. apply RN_le.
  apply Rplus_le_compat_r. apply RN_le. apply Rmult_le_compat_l; [|exact Hfg].
  apply RN_nonneg. apply (IZR_le 0). exact Ha.
Qed.

(* upper bound: a <= A = ma*2^ea, f <= B integer, A*B and A*B+1 "step" representable *)
Lemma scaleR_ub : forall a f (A B U : Z), (0 <= a <= A)%Z -> 0 <= f <= IZR B ->
  generic_format radix2 fexp64 (IZR A) -> generic_format radix2 fexp64 (IZR (A * B)) ->
  generic_format radix2 fexp64 (IZR U) -> (A * B + 1 <= U)%Z ->
  (scaleR a f <= U)%Z.
Proof.
  intros a f A B U Ha Hf GA GAB GU HU. unfold scaleR.
  rewrite <- (Ztrunc_IZR U). apply Ztrunc_le. apply RN_le_g; [exact GU|].
  assert (H1 : 0 <= RN (IZR a) <= IZR A).
  { split; [apply RN_nonneg; apply (IZR_le 0); lia|].
    apply RN_le_g; [exact GA|apply IZR_le; lia]. }
  assert (H2 : RN (RN (IZR a) * f) <= IZR (A * B)).
  { apply RN_le_g; [exact GAB|]. rewrite mult_IZR. apply Rmult_le_compat; lra. }
  apply Rle_trans with (IZR (A * B) + 1); [lra|].
  rewrite <- (plus_IZR (A * B) 1). apply IZR_le. exact HU.
Qed.

Lemma generic_mpow : forall m e, (Z.abs m < 2 ^ 53)%Z -> (0 <= e)%Z ->
  generic_format radix2 fexp64 (IZR (m * 2 ^ e)).
Proof.
  intros m e Hm He. rewrite mult_IZR.
  change 2%Z with (radix_val radix2). rewrite (IZR_Zpower radix2 e) by exact He.
  apply generic_me; [exact Hm|lia].
Qed.

Theorem float_scalings_ok : scalings_ok f_scale_delta f_scale_pos.
Proof.
  unfold scalings_ok, BMAX, RMAX, DMAX, WMAX, SPMAX. split; [|split; [|split]].
  - (* sdelta >= 0 *)
    intros d w Hd Hw. rewrite f_scale_delta_eq by (simpl; lia).
    apply scaleR_nonneg; [lia|]. apply (deltaR_spec w); lia.
  - (* sdelta <= DMAX on rate differences *)
    intros d w Hd Hw. rewrite f_scale_delta_eq by (simpl; lia).
    apply Z.le_trans with (1073741824 * 1000 + 1)%Z; [|lia].
    apply (scaleR_ub d (deltaR w) 1073741824 1000); try lia.
    + apply (deltaR_spec w); lia.
    + apply generic_int; simpl; lia.
    + apply generic_int; simpl; lia.
    + apply generic_int; simpl; lia.
  - (* 0 <= spos <= SPMAX *)
    intros delta p Hd Hp. rewrite f_scale_pos_eq by (simpl; lia).
    split; [apply scaleR_nonneg; [lia|]; apply (posR_spec p); lia|].
    apply (scaleR_ub delta (posR p) 1099511627776 4294968); try lia.
    + apply (posR_spec p); lia.
    + change 1099511627776%Z with (1 * 2 ^ 40)%Z. apply generic_mpow; simpl; lia.
    + change (1099511627776 * 4294968)%Z with (4294968 * 2 ^ 40)%Z. apply generic_mpow; simpl; lia.
    + change 4722368356437458944%Z with (4294969 * 2 ^ 40)%Z. apply generic_mpow; simpl; lia.
  - (* spos monotone in the position *)
    intros delta p q Hd Hpq Hq. rewrite !f_scale_pos_eq by (simpl; lia).
    apply scaleR_mono; [lia|]. apply posR_mono. lia.
Qed.
