(* Trace checker for the C18 correspondence run: every row written by
   harness/sweep/verif_fee_test.go becomes one [case]; [mismatches] re-runs
   the model (Flocq binary64, vm_compute) and returns the indices of the
   observations on which model and implementation disagree. *)
From Coq Require Import ZArith List Bool.
From LV Require Import Sweep.Model.
Import ListNotations.
Local Open Scope Z_scope.

Definition err_code (e : err) : Z :=
  match e with
  | ErrMaxPosition => 1 | ErrZeroFeeRateDelta => 2 | ErrEstimator => 3
  | ErrFeeTooLow => 4 | ErrNotEnoughInputs => 5 | ErrTxNoOutput => 6
  | ErrNotEnoughBudget => 7 | ErrMempoolOther => 8 | ErrOutOfFuel => 100
  end.

Definition ans_of (o : option Z) : est_answer :=
  match o with Some r => EstOk r | None => EstErr end.

Definition verdict_of (z : Z) : verdict :=
  if z =? 0 then VAccept else if z =? 1 then VFee else VOther.

Fixpoint zlist_eqb (a b : list Z) : bool :=
  match a, b with
  | [], [] => true
  | x :: a', y :: b' => (x =? y) && zlist_eqb a' b'
  | _, _ => false
  end.

Inductive ffop :=
| OInc (inc : bool) (e rate pos : Z)
| OConf (c : Z) (inc : bool) (e rate pos : Z).

(* a tx as observed on the implementation: input ids in order, output values *)
Record otx := mkO { o_ins : list Z; o_outs : list Z }.

Definition tx_matches (t : stx) (o : otx) : bool :=
  zlist_eqb (map in_id (tx_ins t)) (o_ins o) && zlist_eqb (tx_outs t) (o_outs o).

(* one block event of a publisher case *)
Record pev := mkEv {
  ev_h : Z;
  ev_verdicts : list Z;       (* testmempoolaccept verdicts consumed in this step *)
  ev_pub : option otx;        (* tx handed to PublishTransaction, if any *)
  ev_alive : bool;            (* record still monitored afterwards *)
  ev_rate : Z; ev_pos : Z;    (* fee function state afterwards (if alive) *)
  ev_fee : Z                  (* record.fee afterwards (if alive) *)
}.

Inductive case :=
| CRate (start endr width delta : Z) (obs : list (Z * Z))
| CNspk (budget size rate : Z)
| CFF (maxr conf relay : Z) (ans start : option Z)
      (ierr irate idelta iwidth : Z) (ops : list ffop)
| CTx (ins : list inp) (weight rate floor budget : Z) (v : Z)
      (e : Z) (has_tx : bool) (fee : Z) (tx : otx)
| CPub (ins : list inp) (weight floor budget maxrate h0 deadline relay : Z)
       (ans start : option Z)
       (ivs : list Z) (ierr : Z) (ipub : option otx) (irate ipos ifee : Z)
       (evs : list pev)
| CSet (ins : list binp) (utxos : list Z) (need0 : bool) (e : Z)
       (after : list binp) (need1 : bool) (budget : Z)
| CWest (rate maxr w : Z) (ps : list (option parent))   (* weightEstimator driven directly *)
        (fee feewp pfee pweight : Z)
| CSw (reqs : list (list (option Z) * option Z))      (* per BumpRequest of a composed
         sweeper history: the inputs' stored starting rates, the request's StartingFeeRate *)
      (fails : list (Z * option Z)).                  (* per TxFailed result: its FeeRate,
         the starting rate stored on the set's inputs afterwards *)

Definition binp_eqb (a b : binp) : bool :=
  (b_value a =? b_value b) && (b_budget a =? b_budget b) && Bool.eqb (b_req a) (b_req b).
Fixpoint binps_eqb (a b : list binp) : bool :=
  match a, b with
  | [], [] => true
  | x :: a', y :: b' => binp_eqb x y && binps_eqb a' b'
  | _, _ => false
  end.

Definition zopt_eqb (a b : option Z) : bool :=
  match a, b with
  | None, None => true
  | Some x, Some y => x =? y
  | _, _ => false
  end.

Fixpoint check_starts (reqs : list (list (option Z) * option Z)) (i : Z) : list Z :=
  match reqs with
  | [] => []
  | (starts, obs) :: rest =>
    (if zopt_eqb (set_starting_fee_rate starts) obs then [] else [i]) ++ check_starts rest (i + 1)
  end.

Fixpoint check_fails (fails : list (Z * option Z)) (i : Z) : list Z :=
  match fails with
  | [] => []
  | (rate, obs) :: rest =>
    (if zopt_eqb (retry_start rate) obs then [] else [i]) ++ check_fails rest (i + 1)
  end.

Fixpoint check_obs (f : ff) (obs : list (Z * Z)) (i : Z) : list Z :=
  match obs with
  | [] => []
  | (p, r) :: rest =>
    (if rate_at_pos64 f p =? r then [] else [i]) ++ check_obs f rest (i + 1)
  end.

Definition res_matches (r : res (ff * bool)) (inc : bool) (e rate pos : Z) (f : ff)
  : ff * bool :=
  match r with
  | Err x => (f, (err_code x =? e) && (ff_cur f =? rate) && (ff_pos f =? pos) && negb inc)
  | Ok (f', b) => (f', (e =? 0) && Bool.eqb b inc && (ff_cur f' =? rate) && (ff_pos f' =? pos))
  end.

Fixpoint check_ops (f : ff) (ops : list ffop) (i : Z) : list Z :=
  match ops with
  | [] => []
  | o :: rest =>
    let '(f', ok) :=
      match o with
      | OInc inc e rate pos => res_matches (increment64 f) inc e rate pos f
      | OConf c inc e rate pos => res_matches (increase_by_conf64 f c) inc e rate pos f
      end in
    (if ok then [] else [i]) ++ check_ops f' rest (i + 1)
  end.

Fixpoint check_evs (ins : list inp) (weight floor budget deadline : Z) (f : ff)
         (evs : list pev) (i : Z) : list Z :=
  match evs with
  | [] => []
  | ev :: rest =>
    let v := match ev_verdicts ev with [] => VAccept | z :: _ => verdict_of z end in
    let '(f', pub) := bump_at_block64 ins weight floor budget f (ev_h ev) deadline v in
    let okpub :=
      match pub, ev_pub ev with
      | None, None => true
      | Some t, Some o => tx_matches t o && (negb (ev_alive ev) || (tx_fee t =? ev_fee ev))
      | _, _ => false
      end in
    let okst := negb (ev_alive ev) || ((ff_cur f' =? ev_rate ev) && (ff_pos f' =? ev_pos ev)) in
    (if okpub && okst then [] else [i]) ++
    (if ev_alive ev then check_evs ins weight floor budget deadline f' rest (i + 1) else [])
  end.

Definition check_case (c : case) : list Z :=
  match c with
  | CRate start endr width delta obs =>
    check_obs (mkFF start endr start width 0 delta) obs 0
  | CNspk budget size rate =>
    if f_scale_delta budget size =? rate then [] else [0]
  | CFF maxr conf relay ans start ierr irate idelta iwidth ops =>
    match new_ff64 maxr conf relay (ans_of ans) start with
    | Err e => if err_code e =? ierr then [] else [0]
    | Ok f =>
      (if (ierr =? 0) && (ff_cur f =? irate) && (ff_delta f =? idelta) && (ff_width f =? iwidth)
       then [] else [0]) ++ check_ops f ops 1
    end
  | CTx ins weight rate floor budget v e has_tx fee tx =>
    match create_sweep_tx ins weight rate floor with
    | Err x => if (err_code x =? e) && negb has_tx then [] else [0]
    | Ok t =>
      let code := if budget <? tx_fee t then 7
                  else match verdict_of v with VAccept => 0 | VFee => 9 | VOther => 8 end in
      if (code =? e) && has_tx && (tx_fee t =? fee) && tx_matches t tx then [] else [0]
    end
  | CSet ins utxos need0 e after need1 budget =>
    let '(l', st) := if need_wallet_input 0 ins then add_wallet_inputs 0 ins utxos
                     else (ins, TopSatisfied) in
    let code := match st with TopNotEnoughInputs => 5 | _ => 0 end in
    if Bool.eqb (need_wallet_input 0 ins) need0 && (code =? e) && binps_eqb l' after
       && Bool.eqb (need_wallet_input 0 l') need1 && (set_budget 0 l' =? budget)
    then [] else [0]
  | CSw reqs fails => check_starts reqs 0 ++ check_fails fails 1000
  | CWest rate maxr w ps fee feewp pfee pweight =>
    let '(pf, pw) := add_parents rate ps [] 0 0 in
    (if (west_fee rate w =? fee) && (prepare_fee rate w ps =? fee) then [] else [0]) ++
    (if (pf =? pfee) && (pw =? pweight) then [] else [1]) ++
    (if west_fee_with_parent rate maxr w pf pw =? feewp then [] else [2])
  | CPub ins weight floor budget maxrate h0 deadline relay ans start ivs ierr ipub irate ipos ifee evs =>
    match initial_broadcast64 ins weight floor budget maxrate h0 deadline relay
                              (ans_of ans) start (map verdict_of ivs) with
    | Err e => if (err_code e =? ierr) && match ipub with None => true | _ => false end
               then [] else [0]
    | Ok (f, t) =>
      match ipub with
      | None => [0]
      | Some o =>
        (if (ierr =? 0) && tx_matches t o && (tx_fee t =? ifee) && (ff_cur f =? irate)
            && (ff_pos f =? ipos) then [] else [0]) ++
        check_evs ins weight floor budget deadline f evs 1
      end
    end
  end.

Fixpoint mismatches_aux (cases : list case) (i : N) : list (N * list N) :=
  match cases with
  | [] => []
  | c :: r =>
    match check_case c with
    | [] => mismatches_aux r (i + 1)%N
    | bad => (i, map Z.to_N bad) :: mismatches_aux r (i + 1)%N
    end
  end.

Definition mismatches (cases : list case) (base : N) : list (N * list N) :=
  mismatches_aux cases base.
