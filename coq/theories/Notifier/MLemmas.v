(* Generic lemmas on request-tagged index lists (MModel.v): the projection
   [tproj r] commutes with single-entry insertion / deletion, whole-bucket
   deletion, and iteration over a duplicate-free list of requests. *)
From Coq Require Import List NArith Bool Lia.
From LV Require Import Notifier.Model Notifier.MModel.
Import ListNotations.
Local Open Scope N_scope.

Lemma neqb_sym a b : N.eqb a b = N.eqb b a.
Proof. apply N.eqb_sym. Qed.

Lemma fupd_same {A} (f : N -> A) r v : fupd f r v r = v.
Proof. unfold fupd. now rewrite N.eqb_refl. Qed.

Lemma fupd_other {A} (f : N -> A) r r' v : r' <> r -> fupd f r v r' = f r'.
Proof. intros H. unfold fupd. apply N.eqb_neq in H. now rewrite H. Qed.

Lemma mem_In x l : mem x l = true <-> In x l.
Proof.
  unfold mem. rewrite existsb_exists. split.
  - intros [y [Hy E]]. apply N.eqb_eq in E. now subst.
  - intros H. exists x. split; auto. apply N.eqb_refl.
Qed.

Lemma mem_false x l : mem x l = false <-> ~ In x l.
Proof. rewrite <- mem_In. destruct (mem x l); split; congruence. Qed.

Lemma mem_app x a b : mem x (a ++ b) = mem x a || mem x b.
Proof. unfold mem. apply existsb_app. Qed.

Lemma mem_ext x a b : (forall y, In y a <-> In y b) -> mem x a = mem x b.
Proof.
  intros H. destruct (mem x b) eqn:E.
  - apply mem_In. apply H. now apply mem_In.
  - apply mem_false. intros Hi. apply H in Hi. apply mem_In in Hi. congruence.
Qed.

Lemma mem_uniq x l : mem x (uniq l) = mem x l.
Proof. apply mem_ext. intros y. apply nodup_In. Qed.

Lemma NoDup_uniq l : NoDup (uniq l).
Proof. apply NoDup_nodup. Qed.

Lemma del_notin x l : mem x l = false -> del x l = l.
Proof.
  unfold del, mem. induction l as [|a l IH]; cbn; intros H; auto.
  apply orb_false_iff in H. destruct H as [H1 H2]. rewrite H1. cbn. now rewrite IH.
Qed.

Section Tagged.
  Context {X : Type}.
  Implicit Types (l : list (N * X)) (r : N).

  Lemma tproj_nil r : tproj r (@nil (N * X)) = @nil X.
  Proof. reflexivity. Qed.

  Lemma tproj_cons_same r (x : X) l : tproj r ((r, x) :: l) = x :: tproj r l.
  Proof. unfold tproj. cbn. now rewrite N.eqb_refl. Qed.

  Lemma tproj_cons_other r r' (x : X) l : r' <> r -> tproj r ((r', x) :: l) = tproj r l.
  Proof. intros H. unfold tproj. cbn. apply N.eqb_neq in H. now rewrite H. Qed.

  Lemma tproj_app r (a b : list (N * X)) : tproj r (a ++ b) = tproj r a ++ tproj r b.
  Proof. unfold tproj. now rewrite filter_app, map_app. Qed.

  Lemma tproj_tag_same r (l : list X) : tproj r (tag r l) = l.
  Proof. induction l as [|a l IH]; auto. cbn [tag map]. rewrite tproj_cons_same. f_equal. exact IH. Qed.

  Lemma tproj_tag_other r r' (l : list X) : r' <> r -> tproj r (tag r' l) = [].
  Proof. intros H. induction l as [|a l IH]; auto. cbn [tag map]. now rewrite tproj_cons_other. Qed.

  Lemma tproj_filter (p : X -> bool) r l :
    tproj r (filter (fun e => p (snd e)) l) = filter p (tproj r l).
  Proof.
    induction l as [|[k x] l IH]; auto. cbn [filter snd].
    destruct (N.eq_dec k r) as [->|Hk].
    - destruct (p x) eqn:E; rewrite ?tproj_cons_same; cbn [filter]; rewrite ?E, IH; auto.
    - destruct (p x) eqn:E; rewrite ?tproj_cons_other by auto; auto.
  Qed.

  Variable eqb : X -> X -> bool.

  Lemma tmem_tproj r x l : tmem eqb r x l = existsb (eqb x) (tproj r l).
  Proof.
    induction l as [|[k y] l IH]; auto. unfold tmem in *. cbn [existsb fst snd].
    destruct (N.eq_dec k r) as [->|Hk].
    - rewrite tproj_cons_same, N.eqb_refl. cbn. now rewrite IH.
    - rewrite tproj_cons_other by auto. apply N.eqb_neq in Hk. rewrite Hk. cbn. exact IH.
  Qed.

  Lemma tproj_tadd_same r x l :
    tproj r (tadd eqb r x l) = if existsb (eqb x) (tproj r l) then tproj r l else x :: tproj r l.
  Proof.
    unfold tadd. rewrite tmem_tproj. destruct (existsb (eqb x) (tproj r l)); auto.
    apply tproj_cons_same.
  Qed.

  Lemma tproj_tadd_other r r' x l : r' <> r -> tproj r (tadd eqb r' x l) = tproj r l.
  Proof. intros H. unfold tadd. destruct (tmem eqb r' x l); auto. now apply tproj_cons_other. Qed.

  Lemma tproj_tdel_same r x l :
    tproj r (tdel eqb r x l) = filter (fun y => negb (eqb x y)) (tproj r l).
  Proof.
    induction l as [|[k y] l IH]; auto. unfold tdel in *. cbn [filter fst snd].
    destruct (N.eq_dec k r) as [->|Hk].
    - rewrite N.eqb_refl. cbn [andb]. rewrite tproj_cons_same. cbn [filter].
      destruct (eqb x y); cbn [negb]; rewrite ?tproj_cons_same, IH; auto.
    - apply N.eqb_neq in Hk. rewrite Hk. cbn [andb negb]. apply N.eqb_neq in Hk.
      rewrite !tproj_cons_other by auto. exact IH.
  Qed.

  Lemma tproj_tdel_other r r' x l : r' <> r -> tproj r (tdel eqb r' x l) = tproj r l.
  Proof.
    intros H. induction l as [|[k y] l IH]; auto. unfold tdel in *. cbn [filter fst snd].
    destruct (N.eq_dec k r) as [->|Hk].
    - assert (E : N.eqb r r' = false) by (apply N.eqb_neq; congruence).
      rewrite E. cbn [andb negb]. rewrite !tproj_cons_same. f_equal. exact IH.
    - destruct (negb (N.eqb k r' && eqb x y)); rewrite ?tproj_cons_other by auto; auto.
  Qed.

  Lemma tproj_tadd_all_same r xs : forall l,
    tproj r (tadd_all eqb r xs l) =
    fold_left (fun acc x => if existsb (eqb x) acc then acc else x :: acc) xs (tproj r l).
  Proof.
    unfold tadd_all. induction xs as [|x xs IH]; intros l; auto.
    cbn [fold_left]. rewrite IH, tproj_tadd_same. reflexivity.
  Qed.

  Lemma tproj_tadd_all_other r r' xs : r' <> r -> forall l,
    tproj r (tadd_all eqb r' xs l) = tproj r l.
  Proof.
    intros H. unfold tadd_all. induction xs as [|x xs IH]; intros l; auto.
    cbn [fold_left]. rewrite IH. now apply tproj_tadd_other.
  Qed.

  Lemma tproj_tdel_list r ds : forall l,
    tproj r (tdel_list eqb ds l) =
    fold_left (fun acc d => filter (fun y => negb (eqb d y)) acc) (tproj r ds) (tproj r l).
  Proof.
    unfold tdel_list. induction ds as [|[k d] ds IH]; intros l; auto.
    cbn [fold_left fst snd]. rewrite IH.
    destruct (N.eq_dec k r) as [->|Hk].
    - rewrite tproj_cons_same. cbn [fold_left]. now rewrite tproj_tdel_same.
    - rewrite tproj_cons_other by auto. now rewrite tproj_tdel_other by auto.
  Qed.

  (* iteration over a duplicate-free list of requests, each step touching only
     the entries of its own request *)
  Lemma tproj_fold (G : N -> list (N * X) -> list (N * X)) (g : N -> list X -> list X) :
    (forall r r' acc, r' <> r -> tproj r (G r' acc) = tproj r acc) ->
    (forall r acc, tproj r (G r acc) = g r (tproj r acc)) ->
    forall hs acc r, NoDup hs ->
      tproj r (fold_left (fun a r' => G r' a) hs acc) =
      if mem r hs then g r (tproj r acc) else tproj r acc.
  Proof.
    intros Ho Hs. induction hs as [|a hs IH]; intros acc r Hn; auto.
    inversion Hn as [|? ? Hna Hn']; subst. cbn [fold_left]. rewrite IH by auto.
    unfold mem at 2. cbn [existsb]. fold (mem r hs).
    destruct (N.eq_dec a r) as [->|Ha].
    - rewrite N.eqb_refl. cbn [orb]. apply mem_false in Hna. rewrite Hna. apply Hs.
    - assert (E : N.eqb r a = false) by (apply N.eqb_neq; congruence).
      rewrite E. cbn [orb]. rewrite Ho by auto. reflexivity.
  Qed.

  Lemma tproj_flat_map_tag (F : N -> list X) hs r : NoDup hs ->
    tproj r (flat_map (fun r' => tag r' (F r')) hs) = if mem r hs then F r else [].
  Proof.
    induction hs as [|a hs IH]; intros Hn; auto.
    inversion Hn as [|? ? Hna Hn']; subst. cbn [flat_map]. rewrite tproj_app, IH by auto.
    unfold mem at 2. cbn [existsb]. fold (mem r hs).
    destruct (N.eq_dec a r) as [->|Ha].
    - rewrite N.eqb_refl, tproj_tag_same. cbn [orb]. apply mem_false in Hna. rewrite Hna.
      apply app_nil_r.
    - assert (E : N.eqb r a = false) by (apply N.eqb_neq; congruence).
      rewrite E, tproj_tag_other by auto. reflexivity.
  Qed.
End Tagged.

(* buckets *)
Lemma mem_map_fst {X} r (l : list (N * X)) : mem r (map fst l) = nonempty (tproj r l).
Proof.
  induction l as [|[k x] l IH]; auto. unfold mem in *. cbn [map existsb fst].
  destruct (N.eq_dec k r) as [->|Hk].
  - now rewrite N.eqb_refl, tproj_cons_same.
  - assert (E : N.eqb r k = false) by (apply N.eqb_neq; congruence).
    rewrite E, tproj_cons_other by auto. exact IH.
Qed.

Lemma mem_bucket_reqs r h l : mem r (bucket_reqs h l) = mem h (tproj r l).
Proof.
  induction l as [|[k x] l IH]; auto. unfold bucket_reqs in *. cbn [filter snd].
  destruct (N.eq_dec k r) as [->|Hk].
  - rewrite tproj_cons_same. unfold mem at 2. cbn [existsb]. fold (mem h (tproj r l)).
    rewrite (N.eqb_sym h x). destruct (N.eqb x h); cbn [map orb]; auto.
    unfold mem at 1. cbn [existsb fst]. rewrite N.eqb_refl. reflexivity.
  - rewrite tproj_cons_other by auto. destruct (N.eqb x h); cbn [map]; auto.
    unfold mem at 1. cbn [existsb fst].
    assert (E : N.eqb r k = false) by (apply N.eqb_neq; congruence). rewrite E. exact IH.
Qed.

Lemma mem_qbucket_reqs r h q : mem r (qbucket_reqs h q) = queue_at h (tproj r q).
Proof.
  induction q as [|[k x] q IH]; auto. unfold qbucket_reqs in *. cbn [filter snd].
  destruct (N.eq_dec k r) as [->|Hk].
  - rewrite tproj_cons_same. unfold queue_at at 1. cbn [existsb]. fold (queue_at h (tproj r q)).
    destruct (N.eqb (fst x) h); cbn [map orb]; auto.
    unfold mem at 1. cbn [existsb fst]. rewrite N.eqb_refl. reflexivity.
  - rewrite tproj_cons_other by auto. destruct (N.eqb (fst x) h); cbn [map]; auto.
    unfold mem at 1. cbn [existsb fst].
    assert (E : N.eqb r k = false) by (apply N.eqb_neq; congruence). rewrite E. exact IH.
Qed.

Lemma tproj_drop_bucket r h l : tproj r (drop_bucket h l) = del h (tproj r l).
Proof. unfold drop_bucket, del. apply (tproj_filter (fun y => negb (N.eqb h y))). Qed.

Lemma tproj_qdrop_bucket r h q :
  tproj r (qdrop_bucket h q) = filter (fun e => negb (N.eqb (fst e) h)) (tproj r q).
Proof. unfold qdrop_bucket. apply (tproj_filter (fun e => negb (N.eqb (fst e) h))). Qed.

Lemma filter_queue_none h (q : list (N * N)) :
  queue_at h q = false -> filter (fun e => negb (N.eqb (fst e) h)) q = q.
Proof.
  unfold queue_at. induction q as [|e q IH]; cbn; intros H; auto.
  apply orb_false_iff in H. destruct H as [H1 H2]. rewrite H1. cbn. now rewrite IH.
Qed.

Lemma nonempty_false {A} (l : list A) : nonempty l = false -> l = [].
Proof. destruct l; cbn; congruence. Qed.

Lemma forallb_mem (p : N -> bool) l r : forallb p l = true -> mem r l = true -> p r = true.
Proof. intros H Hm. rewrite forallb_forall in H. apply H. now apply mem_In. Qed.
