(* Executable model of lnd/chainntnfs/txnotifier.go, projected on ONE
   confirmation request (a txid) and ONE spend request (an outpoint).
   Requests do not interact inside TxNotifier (every map is keyed by the
   request, the height-indexed maps hold sets of requests), so the per-request
   projection loses nothing; the correspondence run checks that projection on
   traces with several requests in flight.

   Definitions only (no proofs).  Heights are uint32 in Go; every subtraction
   below is guarded exactly where the Go code guards it (int32(...) < 0,
   confHeight <= currentHeight), so N arithmetic coincides with uint32
   arithmetic for heights below 2^31.

   A step returns None where the Go code would panic (nil map entry
   dereference / send on a closed channel); theorems quantify over runs that
   do not reach such a state and the harness would crash on them. *)
From Coq Require Import List NArith Bool.
Import ListNotations.
Local Open Scope N_scope.

(* rescanState *)
Inductive rescan := RNotStarted | RPending | RComplete.

Definition rescan_eqb (a b : rescan) : bool :=
  match a, b with
  | RNotStarted, RNotStarted | RPending, RPending | RComplete, RComplete => true
  | _, _ => false
  end.

(* ------------------------------------------------------------------ *)
(* small set-as-list helpers (Go maps used as sets)                     *)

Definition mem (x : N) (l : list N) : bool := existsb (N.eqb x) l.
Definition add (x : N) (l : list N) : list N := if mem x l then l else x :: l.
Definition del (x : N) (l : list N) : list N := filter (fun y => negb (N.eqb x y)) l.

Definition pair_eqb (a b : N * N) : bool :=
  N.eqb (fst a) (fst b) && N.eqb (snd a) (snd b).
Definition pmem (x : N * N) (l : list (N * N)) : bool := existsb (pair_eqb x) l.
Definition padd (x : N * N) (l : list (N * N)) : list (N * N) :=
  if pmem x l then l else x :: l.
Definition pdel (x : N * N) (l : list (N * N)) : list (N * N) :=
  filter (fun y => negb (pair_eqb x y)) l.
Definition padd_all (xs l : list (N * N)) : list (N * N) :=
  fold_left (fun acc x => padd x acc) xs l.

(* ================================================================== *)
(* Confirmation side                                                    *)

(* ConfNtfn: ConfID, NumConfirmations, dispatched, numConfsLeft *)
Record cntfn := mkCN { c_id : N; c_n : N; c_disp : bool; c_left : N }.

(* confNtfnSet: rescanStatus, details (BlockHeight, block id), ntfns *)
Record cs := mkCS { cs_rescan : rescan; cs_det : option (N * N); cs_ntfns : list cntfn }.

Record cstate := mkC {
  cur : N;                    (* currentHeight *)
  rdepth : N;                 (* reorgDepth *)
  limit : N;                  (* reorgSafetyLimit *)
  nextid : N;                 (* ids handed out so far are < nextid *)
  cset : option cs;           (* confNotifications[req] *)
  initial : list N;           (* { h | req in confsByInitialHeight[h] } *)
  queue : list (N * N);       (* ntfnsByConfirmHeight: (height, ConfID) *)
  hint : option N             (* confirm hint cache entry of req *)
}.

(* events delivered on ConfirmationEvent.{Updates,Confirmed,NegativeConf,Done} *)
Inductive cev :=
| EUpd (left h : N)
| EConf (h bid : N)
| ENeg (depth : N)
| EDone.

Definition cevs := list (N * cev).    (* (ConfID, event) in emission order *)

Inductive res :=
| RErr (code : N)            (* 1 numConfs out of range, 2 no height hint,
                                3 request not found, 4 blocks out of order,
                                9 (model only) client id not fresh *)
| ROk (dispatch : option (N * N)).   (* HistoricalDispatch (start, end) *)

Definition init_c (start lim : N) (h0 : option N) : cstate :=
  mkC start 0 lim 0 None [] [] h0.

(* notifyNumConfsLeft *)
Definition notify_left (c : cntfn) (left h : N) : cntfn * cevs :=
  if c_left c <=? left then (c, [])
  else (mkCN (c_id c) (c_n c) (c_disp c) left, [(c_id c, EUpd left h)]).

(* dispatchConfDetails with non-nil details: returns the updated ntfn, the
   events, the ntfnsByConfirmHeight insertions and whether BlockHeight is
   (re-)inserted in confsByInitialHeight. *)
Definition dispatch1 (cu lim : N) (d : N * N) (c : cntfn)
  : cntfn * cevs * list (N * N) * bool :=
  let '(h, b) := d in
  if c_disp c then (c, [], [], false)
  else
    let confH := h + c_n c - 1 in
    if confH <=? cu then
      let '(c1, e) := notify_left c 0 h in
      (mkCN (c_id c1) (c_n c1) true (c_left c1), e ++ [(c_id c, EConf h b)], [],
       cu <? h + lim)
    else
      let '(c1, e) := notify_left c (confH - cu) h in
      (c1, e, [(confH, c_id c)], cu <? h + lim).

(* Bulk helpers are written as map / flat_map of a per-ntfn function: Go
   iterates the ntfns map in random order and the per-client order of events
   is all that is observable. *)
Definition d_n cu lim d c := fst (fst (fst (dispatch1 cu lim d c))).
Definition d_e cu lim d c := snd (fst (fst (dispatch1 cu lim d c))).
Definition d_q cu lim d c := snd (fst (dispatch1 cu lim d c)).
Definition d_i cu lim d c := snd (dispatch1 cu lim d c).

Definition dispatch_all (cu lim : N) (d : N * N) (l : list cntfn)
  : list cntfn * cevs * list (N * N) * bool :=
  (map (d_n cu lim d) l, flat_map (d_e cu lim d) l, flat_map (d_q cu lim d) l,
   existsb (d_i cu lim d) l).

Definition dispatch_opt (cu lim : N) (d : option (N * N)) (l : list cntfn) :=
  match d with
  | None => (l, [], [], false)
  | Some d => dispatch_all cu lim d l
  end.

Definition has_id (i : N) (l : list cntfn) : bool := existsb (fun c => N.eqb i (c_id c)) l.
Fixpoint find_id (i : N) (l : list cntfn) : option cntfn :=
  match l with
  | [] => None
  | c :: r => if N.eqb i (c_id c) then Some c else find_id i r
  end.
Definition remove_id (i : N) (l : list cntfn) : list cntfn :=
  filter (fun c => negb (N.eqb i (c_id c))) l.

Definition max_hint (client : N) (cache : option N) : N :=
  match cache with
  | Some x => if client <? x then x else client
  | None => client
  end.

(* unconfirmedRequests contains req *)
Definition unconfirmed (s : option cs) : bool :=
  match s with
  | Some s => rescan_eqb (cs_rescan s) RComplete &&
              match cs_det s with None => true | Some _ => false end
  | None => false
  end.

(* updateHints(height) after currentHeight has been adjusted to cu *)
Definition upd_hint (s : option cs) (ini : list N) (height cu : N) (h : option N) : option N :=
  if unconfirmed s || mem height ini then Some cu else h.

Inductive cop :=
| CReg (id n hnt : N)                (* RegisterConf(numConfs, heightHint) *)
| CCancel (id : N)                   (* CancelConf *)
| CUpd (r : option (N * N))          (* UpdateConfDetails(details) *)
| CConnect (height bid : N) (has : bool)   (* ConnectTip; has = block contains tx *)
| CNotify                            (* NotifyHeight(currentHeight) *)
| CDisconnect (height : N).          (* DisconnectTip *)

(* NotifyHeight, first loop, for one ntfn and one confsByInitialHeight entry
   containing req: numConfsLeft update *)
Definition nu1 (height bh : N) (c : cntfn) : cntfn * cevs :=
  let txh := bh + c_n c - 1 in
  if txh <? height then (c, []) else notify_left c (txh - height) bh.

(* ... once per entry of confsByInitialHeight that contains req *)
Fixpoint nuN (k : list N) (height bh : N) (c : cntfn) : cntfn * cevs :=
  match k with
  | [] => (c, [])
  | _ :: k' =>
    let '(c1, e1) := nu1 height bh c in
    let '(c2, e2) := nuN k' height bh c1 in
    (c2, e1 ++ e2)
  end.

(* NotifyHeight, second loop: Confirmed for a queued, not yet dispatched ntfn *)
Definition nc1 (height : N) (d : N * N) (q : list (N * N)) (c : cntfn) : cntfn * cevs :=
  if pmem (height, c_id c) q && negb (c_disp c)
  then (mkCN (c_id c) (c_n c) true (c_left c), [(c_id c, EConf (fst d) (snd d))])
  else (c, []).

(* both loops for one ntfn *)
Definition notify1 (k : list N) (height : N) (d : N * N) (q : list (N * N)) (c : cntfn)
  : cntfn * cevs :=
  let '(c1, e1) := nuN k height (fst d) c in
  let '(c2, e2) := nc1 height d q c1 in
  (c2, e1 ++ e2).

(* every queue entry at [height] names a live ntfn *)
Definition queue_live (height : N) (q : list (N * N)) (l : list cntfn) : bool :=
  forallb (fun e => negb (N.eqb (fst e) height) || has_id (snd e) l) q.
Definition queue_at (height : N) (q : list (N * N)) : bool :=
  existsb (fun e => N.eqb (fst e) height) q.

(* DisconnectTip for one ntfn and one entry of confsByInitialHeight containing
   req: reset numConfsLeft and, if the entry is the height being disconnected,
   dispatchConfReorg.  Returns the ntfnsByConfirmHeight deletions. *)
Definition reorg1 (is_initial : bool) (height depth : N) (c : cntfn)
  : cntfn * cevs * list (N * N) :=
  if is_initial then
    (mkCN (c_id c) (c_n c) false (c_n c), [(c_id c, ENeg depth)],
     if c_disp c then [] else [(height + c_n c - 1, c_id c)])
  else (mkCN (c_id c) (c_n c) (c_disp c) (c_n c), [], []).

Fixpoint reorgN (ents : list N) (height depth : N) (c : cntfn)
  : cntfn * cevs * list (N * N) :=
  match ents with
  | [] => (c, [], [])
  | ih :: r =>
    let '(c1, e1, d1) := reorg1 (N.eqb ih height) height depth c in
    let '(c2, e2, d2) := reorgN r height depth c1 in
    (c2, e1 ++ e2, d1 ++ d2)
  end.

Definition pdel_all (ds q : list (N * N)) : list (N * N) :=
  fold_left (fun acc d => pdel d acc) ds q.

Definition done_events (l : list cntfn) : cevs := map (fun c => (c_id c, EDone)) l.

Definition cstep (st : cstate) (o : cop) : option (cstate * res * cevs) :=
  let '(mkC cu rd lim nid s ini q hn) := st in
  match o with
  | CReg id n hnt =>
    if id <? nid then Some (st, RErr 9, [])
    else if (n =? 0) || (lim <? n) then Some (st, RErr 1, [])
    else if hnt =? 0 then Some (st, RErr 2, [])
    else
      let start := max_hint hnt hn in
      let s0 := match s with Some s0 => s0 | None => mkCS RNotStarted None [] end in
      let l := cs_ntfns s0 ++ [mkCN id n false n] in
      match cs_rescan s0 with
      | RComplete =>
        let '(l1, ev, qa, ia) := dispatch_opt cu lim (cs_det s0) l in
        let ini1 := match cs_det s0 with
                    | Some (h, _) => if ia then add h ini else ini
                    | None => ini end in
        Some (mkC cu rd lim (id + 1) (Some (mkCS RComplete (cs_det s0) l1)) ini1
                  (padd_all qa q) hn, ROk None, ev)
      | RPending =>
        Some (mkC cu rd lim (id + 1) (Some (mkCS RPending (cs_det s0) l)) ini q hn,
              ROk None, [])
      | RNotStarted =>
        if cu <? start then
          Some (mkC cu rd lim (id + 1) (Some (mkCS RComplete (cs_det s0) l)) ini q hn,
                ROk None, [])
        else
          Some (mkC cu rd lim (id + 1) (Some (mkCS RPending (cs_det s0) l)) ini q hn,
                ROk (Some (start, cu)), [])
      end
  | CCancel id =>
    match s with
    | None => Some (st, ROk None, [])
    | Some s0 =>
      match find_id id (cs_ntfns s0) with
      | None => Some (st, ROk None, [])
      | Some c =>
        let q1 := match cs_det s0 with
                  | Some (h, _) => pdel (h + c_n c - 1, id) q
                  | None => q end in
        Some (mkC cu rd lim nid
                  (Some (mkCS (cs_rescan s0) (cs_det s0) (remove_id id (cs_ntfns s0))))
                  ini q1 hn, ROk None, [])
      end
    end
  | CUpd r =>
    match s with
    | None => Some (st, RErr 3, [])
    | Some s0 =>
      match cs_det s0 with
      | Some _ => Some (st, ROk None, [])
      | None =>
        match r with
        | None =>
          Some (mkC cu rd lim nid (Some (mkCS RComplete None (cs_ntfns s0))) ini q (Some cu),
                ROk None, [])
        | Some (h, b) =>
          if cu <? h then
            Some (mkC cu rd lim nid (Some (mkCS RComplete None (cs_ntfns s0))) ini q hn,
                  ROk None, [])
          else
            let '(l1, ev, qa, ia) := dispatch_all cu lim (h, b) (cs_ntfns s0) in
            Some (mkC cu rd lim nid (Some (mkCS RComplete (Some (h, b)) l1))
                      (* af6371e: the height is tracked even with no client *)
                      (if (cu <? h + lim) || ia then add h ini else ini)
                      (padd_all qa q) (Some h),
                  ROk None, ev)
        end
      end
    end
  | CConnect height bid has =>
    if negb (height =? cu + 1) then Some (st, RErr 4, [])
    else
      (* filterTx / handleConfDetailsAtTip *)
      let '(s1, ini1, q1) :=
        match s with
        | Some s0 =>
          if has then
            match cs_det s0 with
            | Some _ => (s, ini, q)         (* "Ignoring address reuse" *)
            | None =>
              (Some (mkCS RComplete (Some (height, bid)) (cs_ntfns s0)),
               add height ini,
               padd_all (map (fun c => (height + c_n c - 1, c_id c)) (cs_ntfns s0)) q)
            end
          else (s, ini, q)
        | None => (s, ini, q)
        end in
      let hn1 := upd_hint s1 ini1 height height hn in
      (* prune requests past the reorg safety limit *)
      if (lim <=? height) && mem (height - lim) ini1 then
        match s1 with
        | None => None                       (* nil confSet dereference *)
        | Some s2 =>
          Some (mkC height 0 lim nid None (del (height - lim) ini1) q1 hn1,
                ROk None, done_events (cs_ntfns s2))
        end
      else Some (mkC height 0 lim nid s1 ini1 q1 hn1, ROk None, [])
  | CNotify =>
    match s with
    | None =>
      if match ini with [] => false | _ => true end || queue_at cu q then None
      else Some (st, ROk None, [])
    | Some s0 =>
      match cs_det s0 with
      | None =>
        if (match ini with [] => false | _ => true end &&
            match cs_ntfns s0 with [] => false | _ => true end) || queue_at cu q
        then None
        else Some (st, ROk None, [])
      | Some (bh, bid) =>
        if negb (queue_live cu q (cs_ntfns s0)) then None   (* send on closed channel *)
        else
          let f := notify1 ini cu (bh, bid) q in
          Some (mkC cu rd lim nid
                    (Some (mkCS (cs_rescan s0) (cs_det s0) (map (fun c => fst (f c)) (cs_ntfns s0))))
                    ini (filter (fun e => negb (N.eqb (fst e) cu)) q) hn,
                ROk None, flat_map (fun c => snd (f c)) (cs_ntfns s0))
      end
    end
  | CDisconnect height =>
    if negb (height =? cu) then Some (st, RErr 4, [])
    else
      let cu1 := cu - 1 in
      let rd1 := rd + 1 in
      let hn1 := upd_hint s ini height cu1 hn in
      match ini with
      | [] => Some (mkC cu1 rd1 lim nid s ini q hn1, ROk None, [])
      | _ =>
        match s with
        | None => None                       (* nil confSet dereference *)
        | Some s0 =>
          let f := reorgN ini height rd1 in
          Some (mkC cu1 rd1 lim nid
                    (Some (mkCS (cs_rescan s0)
                                (if mem height ini then None else cs_det s0)
                                (map (fun c => fst (fst (f c))) (cs_ntfns s0))))
                    (del height ini)
                    (pdel_all (flat_map (fun c => snd (f c)) (cs_ntfns s0)) q) hn1,
                ROk None, flat_map (fun c => snd (fst (f c))) (cs_ntfns s0))
        end
      end
  end.

(* ================================================================== *)
(* Spend side                                                           *)

(* SpendNtfn: SpendID, dispatched *)
Record sntfn := mkSN { s_id : N; s_disp : bool }.

(* spendNtfnSet: rescanStatus, details (SpendingHeight, spender tx), ntfns *)
Record ss := mkSS { ss_rescan : rescan; ss_det : option (N * N); ss_ntfns : list sntfn }.

Record sstate := mkS {
  scur : N;
  slimit : N;
  snextid : N;
  sset : option ss;           (* spendNotifications[req] *)
  sheights : list N;          (* { h | req in spendsByHeight[h] } *)
  shint : option N            (* spend hint cache entry of req *)
}.

Inductive sev :=
| ESpend (h tx : N)
| EReorg
| ESDone.

Definition sevs := list (N * sev).

Definition init_s (start lim : N) (h0 : option N) : sstate := mkS start lim 0 None [] h0.

(* dispatchSpendDetails with non-nil details *)
Definition sdispatch1 (cu lim : N) (d : N * N) (c : sntfn) : sntfn * sevs * bool :=
  if s_disp c then (c, [], false)
  else (mkSN (s_id c) true, [(s_id c, ESpend (fst d) (snd d))], cu <? fst d + lim).

Definition sdispatch_all (cu lim : N) (d : N * N) (l : list sntfn) : list sntfn * sevs * bool :=
  (map (fun c => fst (fst (sdispatch1 cu lim d c))) l,
   flat_map (fun c => snd (fst (sdispatch1 cu lim d c))) l,
   existsb (fun c => snd (sdispatch1 cu lim d c)) l).

Definition shas_id (i : N) (l : list sntfn) : bool := existsb (fun c => N.eqb i (s_id c)) l.
Definition sremove_id (i : N) (l : list sntfn) : list sntfn :=
  filter (fun c => negb (N.eqb i (s_id c))) l.

Definition unspent (s : option ss) : bool :=
  match s with
  | Some s => rescan_eqb (ss_rescan s) RComplete &&
              match ss_det s with None => true | Some _ => false end
  | None => false
  end.

Definition supd_hint (s : option ss) (hs : list N) (height cu : N) (h : option N) : option N :=
  if unspent s || mem height hs then Some cu else h.

(* dispatchSpendReorg *)
Definition sreorg1 (c : sntfn) : sntfn * sevs :=
  if s_disp c then (mkSN (s_id c) false, [(s_id c, EReorg)]) else (c, []).

Definition sreorg_all (l : list sntfn) : list sntfn * sevs :=
  (map (fun c => fst (sreorg1 c)) l, flat_map (fun c => snd (sreorg1 c)) l).

Inductive sop :=
| SReg (id hnt : N)                  (* RegisterSpend(heightHint) *)
| SCancel (id : N)                   (* CancelSpend *)
| SUpd (r : option (N * N))          (* UpdateSpendDetails(details) *)
| SConnect (height : N) (spender : option N)  (* ConnectTip; tx spending the outpoint *)
| SNotify
| SDisconnect (height : N).

Definition sstep (st : sstate) (o : sop) : option (sstate * res * sevs) :=
  let '(mkS cu lim nid s hs hn) := st in
  match o with
  | SReg id hnt =>
    if id <? nid then Some (st, RErr 9, [])
    else if hnt =? 0 then Some (st, RErr 2, [])
    else
      let start := max_hint hnt hn in
      let s0 := match s with Some s0 => s0 | None => mkSS RNotStarted None [] end in
      match ss_rescan s0 with
      | RComplete =>
        match ss_det s0 with
        | None =>
          Some (mkS cu lim (id + 1)
                    (Some (mkSS RComplete None (ss_ntfns s0 ++ [mkSN id false]))) hs hn,
                ROk None, [])
        | Some d =>
          let '(c1, ev, ia) := sdispatch1 cu lim d (mkSN id false) in
          Some (mkS cu lim (id + 1)
                    (Some (mkSS RComplete (Some d) (ss_ntfns s0 ++ [c1])))
                    (if ia then add (fst d) hs else hs) hn,
                ROk None, ev)
        end
      | RPending =>
        Some (mkS cu lim (id + 1)
                  (Some (mkSS RPending (ss_det s0) (ss_ntfns s0 ++ [mkSN id false]))) hs hn,
              ROk None, [])
      | RNotStarted =>
        if cu <? start then
          Some (mkS cu lim (id + 1)
                    (Some (mkSS RComplete (ss_det s0) (ss_ntfns s0 ++ [mkSN id false]))) hs hn,
                ROk None, [])
        else
          Some (mkS cu lim (id + 1)
                    (Some (mkSS RPending (ss_det s0) (ss_ntfns s0 ++ [mkSN id false]))) hs hn,
                ROk (Some (start, cu)), [])
      end
  | SCancel id =>
    match s with
    | None => Some (st, ROk None, [])
    | Some s0 =>
      Some (mkS cu lim nid
                (Some (mkSS (ss_rescan s0) (ss_det s0) (sremove_id id (ss_ntfns s0)))) hs hn,
            ROk None, [])
    end
  | SUpd r =>
    match s with
    | None => Some (st, RErr 3, [])
    | Some s0 =>
      match ss_det s0 with
      | Some _ => Some (st, ROk None, [])
      | None =>
        match r with
        | None =>
          Some (mkS cu lim nid (Some (mkSS RComplete None (ss_ntfns s0))) hs (Some cu),
                ROk None, [])
        | Some (h, tx) =>
          if cu <? h then
            Some (mkS cu lim nid (Some (mkSS RComplete None (ss_ntfns s0))) hs hn,
                  ROk None, [])
          else
            let '(l1, ev, ia) := sdispatch_all cu lim (h, tx) (ss_ntfns s0) in
            Some (mkS cu lim nid (Some (mkSS RComplete (Some (h, tx)) l1))
                      (* af6371e: the height is tracked even with no client *)
                      (if (cu <? h + lim) || ia then add h hs else hs) (Some h),
                  ROk None, ev)
        end
      end
    end
  | SConnect height spender =>
    if negb (height =? cu + 1) then Some (st, RErr 4, [])
    else
      (* filterTx / handleSpendDetailsAtTip (overwrites existing details) *)
      let '(s1, hs1) :=
        match s, spender with
        | Some s0, Some tx =>
          (Some (mkSS RComplete (Some (height, tx)) (ss_ntfns s0)), add height hs)
        | _, _ => (s, hs)
        end in
      let hn1 := supd_hint s1 hs1 height height hn in
      if (lim <=? height) && mem (height - lim) hs1 then
        match s1 with
        | None => None
        | Some s2 =>
          Some (mkS height lim nid None (del (height - lim) hs1) hn1,
                ROk None, map (fun c => (s_id c, ESDone)) (ss_ntfns s2))
        end
      else Some (mkS height lim nid s1 hs1 hn1, ROk None, [])
  | SNotify =>
    if mem cu hs then
      match s with
      | None => None
      | Some s0 =>
        match ss_det s0 with
        | None => Some (st, ROk None, [])
        | Some d =>
          let '(l1, ev, ia) := sdispatch_all cu lim d (ss_ntfns s0) in
          Some (mkS cu lim nid (Some (mkSS (ss_rescan s0) (ss_det s0) l1))
                    (if ia then add (fst d) hs else hs) hn,
                ROk None, ev)
        end
      end
    else Some (st, ROk None, [])
  | SDisconnect height =>
    if negb (height =? cu) then Some (st, RErr 4, [])
    else
      let cu1 := cu - 1 in
      let hn1 := supd_hint s hs height cu1 hn in
      if mem height hs then
        match s with
        | None => None
        | Some s0 =>
          let '(l1, ev) := sreorg_all (ss_ntfns s0) in
          Some (mkS cu1 lim nid (Some (mkSS (ss_rescan s0) None l1)) (del height hs) hn1,
                ROk None, ev)
        end
      else Some (mkS cu1 lim nid s hs hn1, ROk None, [])
  end.
