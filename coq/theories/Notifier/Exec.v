(* Trace checker for the correspondence run of C14: re-runs the per-request
   model on the operations the harness applied to the real TxNotifier and
   compares return value, per-client events and the hint cache entry after
   every operation. *)
From Coq Require Import List NArith Bool.
From LV Require Import Notifier.Model.
Import ListNotations.
Local Open Scope N_scope.

Definition optN_eqb (a b : option N) : bool :=
  match a, b with
  | None, None => true
  | Some x, Some y => N.eqb x y
  | _, _ => false
  end.

Definition optP_eqb (a b : option (N * N)) : bool :=
  match a, b with
  | None, None => true
  | Some x, Some y => pair_eqb x y
  | _, _ => false
  end.

Definition res_eqb (a b : res) : bool :=
  match a, b with
  | RErr x, RErr y => N.eqb x y
  | ROk x, ROk y => optP_eqb x y
  | _, _ => false
  end.

Definition cev_eqb (a b : cev) : bool :=
  match a, b with
  | EUpd l h, EUpd l' h' => N.eqb l l' && N.eqb h h'
  | EConf h b, EConf h' b' => N.eqb h h' && N.eqb b b'
  | ENeg d, ENeg d' => N.eqb d d'
  | EDone, EDone => true
  | _, _ => false
  end.

Definition sev_eqb (a b : sev) : bool :=
  match a, b with
  | ESpend h t, ESpend h' t' => N.eqb h h' && N.eqb t t'
  | EReorg, EReorg => true
  | ESDone, ESDone => true
  | _, _ => false
  end.

Fixpoint list_eqb {A} (eqb : A -> A -> bool) (a b : list A) : bool :=
  match a, b with
  | [], [] => true
  | x :: a', y :: b' => eqb x y && list_eqb eqb a' b'
  | _, _ => false
  end.

(* The harness drains one channel after the other, so only the order inside
   one channel of one client is observable: compare per (client, channel). *)
Definition ckind (e : cev) : N :=
  match e with EUpd _ _ => 0 | EConf _ _ => 1 | ENeg _ => 2 | EDone => 3 end.
Definition skind (e : sev) : N :=
  match e with ESpend _ _ => 0 | EReorg => 1 | ESDone => 2 end.

Definition csel (id k : N) (l : cevs) : list cev :=
  map snd (filter (fun x => N.eqb (fst x) id && N.eqb (ckind (snd x)) k) l).
Definition ssel (id k : N) (l : sevs) : list sev :=
  map snd (filter (fun x => N.eqb (fst x) id && N.eqb (skind (snd x)) k) l).

Definition cevs_agree (m o : cevs) : bool :=
  forallb (fun id => forallb (fun k => list_eqb cev_eqb (csel id k m) (csel id k o))
                             [0; 1; 2; 3])
          (map fst m ++ map fst o).
Definition sevs_agree (m o : sevs) : bool :=
  forallb (fun id => forallb (fun k => list_eqb sev_eqb (ssel id k m) (ssel id k o))
                             [0; 1; 2])
          (map fst m ++ map fst o).

(* one observed step: operation, return value, events, hint cache entry *)
Definition cobs := (cop * res * cevs * option N)%type.
Definition sobs := (sop * res * sevs * option N)%type.

Fixpoint crun (st : cstate) (l : list cobs) (i : N) (bad : list N) : list N :=
  match l with
  | [] => rev bad
  | (o, r, ev, hn) :: rest =>
    match cstep st o with
    | None => rev (i :: bad)                 (* model predicts a crash *)
    | Some (st', r', ev') =>
      let ok := res_eqb r r' && cevs_agree ev' ev && optN_eqb (hint st') hn in
      crun st' rest (i + 1) (if ok then bad else i :: bad)
    end
  end.

Fixpoint srun (st : sstate) (l : list sobs) (i : N) (bad : list N) : list N :=
  match l with
  | [] => rev bad
  | (o, r, ev, hn) :: rest =>
    match sstep st o with
    | None => rev (i :: bad)
    | Some (st', r', ev') =>
      let ok := res_eqb r r' && sevs_agree ev' ev && optN_eqb (shint st') hn in
      srun st' rest (i + 1) (if ok then bad else i :: bad)
    end
  end.

Inductive tcase :=
| TConf (start lim : N) (h0 : option N) (l : list cobs)
| TSpend (start lim : N) (h0 : option N) (l : list sobs).

Definition check_case (c : tcase) : list N :=
  match c with
  | TConf start lim h0 l => crun (init_c start lim h0) l 0 []
  | TSpend start lim h0 l => srun (init_s start lim h0) l 0 []
  end.

Fixpoint mismatches (cases : list tcase) (i : N) : list (N * list N) :=
  match cases with
  | [] => []
  | c :: r =>
    match check_case c with
    | [] => mismatches r (i + 1)
    | bad => (i, bad) :: mismatches r (i + 1)
    end
  end.
