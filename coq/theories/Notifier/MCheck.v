(* Checked multi-request runs: a boolean version of the environment obligations
   ([cvalidb] per request, [mcvalidb] for a multi-request call given the finite
   list of requests the run talks about) with soundness lemmas, so that explicit
   valid runs ([mcvrun], hence [mcreach]) are established by evaluating ONE
   boolean -- the worlds (which contain closures) are never normalised. *)
From Coq Require Import List NArith Bool Lia.
From LV Require Import Notifier.Model Notifier.Spec Notifier.MModel Notifier.MLemmas
  Notifier.MSpec.
Import ListNotations.
Local Open Scope N_scope.

Definition is_none {A} (o : option A) : bool := match o with None => true | Some _ => false end.

Definition optPP_eqb (a b : option (N * N)) : bool :=
  match a, b with
  | None, None => true
  | Some x, Some y => pair_eqb x y
  | _, _ => false
  end.

Lemma pair_eqb_true a b : pair_eqb a b = true -> a = b.
Proof.
  destruct a, b. unfold pair_eqb. cbn. intros H. apply andb_true_iff in H. destruct H as [H1 H2].
  apply N.eqb_eq in H1, H2. now subst.
Qed.

Lemma optPP_eqb_true a b : optPP_eqb a b = true -> a = b.
Proof.
  destruct a, b; cbn; intros H; try discriminate; auto. f_equal. now apply pair_eqb_true.
Qed.

Lemma is_none_true {A} (o : option A) : is_none o = true -> o = None.
Proof. destruct o; cbn; congruence. Qed.

Definition cvalidb (w : cworld) (o : cop) : bool :=
  let st := cw_st w in
  let ch := cw_chain w in
  match o with
  | CReg _ _ hnt => match cpos ch with Some (h, _) => hnt <=? h | None => true end
  | CCancel _ => true
  | CUpd r =>
    match cset st with
    | Some s =>
      match cs_det s with
      | None =>
        match r with
        | None => is_none (cpos ch)
        | Some (h, b) => if h <=? cur st then optPP_eqb (cpos ch) (Some (h, b)) else is_none (cpos ch)
        end
      | Some _ => true
      end
    | None => true
    end
  | CConnect h _ has =>
    negb (cw_pending w) && (h =? cur st + 1) && (negb has || is_none (cpos ch)) &&
    (negb has || is_some (cset st) || match hint st with Some x => x <=? h | None => true end)
  | CNotify => cw_pending w
  | CDisconnect h =>
    negb (cw_pending w) && (h =? cur st) && nonempty (cw_chain w) && (cw_high w <? h + limit st)
  end.

Lemma cvalidb_sound w o : cvalidb w o = true -> cvalid w o.
Proof.
  destruct o as [id n hnt|id|r|h b has| |h]; unfold cvalidb, cvalid; cbv zeta.
  - intros H h b E. rewrite E in H. now apply N.leb_le.
  - auto.
  - intros H s Es Ed. rewrite Es, Ed in H. destruct r as [[h b]|].
    + destruct (h <=? cur (cw_st w)); [now apply optPP_eqb_true|now apply is_none_true].
    + now apply is_none_true.
  - intros H. repeat (apply andb_true_iff in H; destruct H as [H ?]).
    repeat split.
    + now apply negb_true_iff.
    + now apply N.eqb_eq.
    + intros ->. cbn in *. now apply is_none_true.
    + intros -> Es x Ex. rewrite Es, Ex in *. cbn in *. now apply N.leb_le.
  - auto.
  - intros H. repeat (apply andb_true_iff in H; destruct H as [H ?]).
    repeat split.
    + now apply negb_true_iff.
    + now apply N.eqb_eq.
    + destruct (cw_chain w); [discriminate|congruence].
    + now apply N.ltb_lt.
Qed.

(* the call only mentions requests of the list *)
Definition op_within (reqs : list N) (o : mcop) : bool :=
  match o with
  | MCReg q _ _ _ | MCCancel q _ | MCUpd q _ => mem q reqs
  | MCConnect _ _ has => forallb (fun x => mem x reqs) has
  | _ => true
  end.

(* obligations that do not depend on the request *)
Definition gvalidb (w : mcworld) (o : mcop) : bool :=
  match o with
  | MCConnect h _ _ => negb (mcw_pending w) && (h =? m_cur (mcw_st w) + 1)
  | MCNotify => mcw_pending w
  | MCDisconnect h =>
    negb (mcw_pending w) && (h =? m_cur (mcw_st w)) && nonempty (mcw_chain w) &&
    (mcw_high w <? h + m_lim (mcw_st w))
  | _ => true
  end.

Definition mcvalidb (reqs : list N) (w : mcworld) (o : mcop) : bool :=
  op_within reqs o && gvalidb w o &&
  forallb (fun r => match cop_of r o with
                    | Some co => cvalidb (cwproj r w) co
                    | None => true end) reqs.

Lemma mcvalidb_sound reqs w o : mcvalidb reqs w o = true -> mcvalid w o.
Proof.
  unfold mcvalidb. intros H. apply andb_true_iff in H. destruct H as [H F].
  apply andb_true_iff in H. destruct H as [W G]. intros r.
  destruct (mem r reqs) eqn:M.
  - apply (forallb_mem _ _ r F) in M. destruct (cop_of r o); auto. now apply cvalidb_sound.
  - destruct o as [q id n hnt|q id|q a|h b has| |h]; cbn [cop_of op_within gvalidb] in *.
    1-3: destruct (N.eqb_spec q r); [congruence|exact I].
    + assert (Hm : mem r has = false).
      { apply mem_false. intros Hi. rewrite forallb_forall in W. apply W in Hi. congruence. }
      rewrite Hm. apply andb_true_iff in G. destruct G as [G1 G2].
      cbn. repeat split; try discriminate.
      * now apply negb_true_iff.
      * now apply N.eqb_eq.
    + exact G.
    + repeat (apply andb_true_iff in G; destruct G as [G ?]).
      cbn. repeat split.
      * now apply negb_true_iff.
      * now apply N.eqb_eq.
      * unfold cchain_of. destruct (mcw_chain w); [discriminate|cbn; congruence].
      * now apply N.ltb_lt.
Qed.

Fixpoint mcrunb (reqs : list N) (w : mcworld) (ops : list mcop) : option mcworld :=
  match ops with
  | [] => Some w
  | o :: rest =>
    if mcvalidb reqs w o then
      match mcwstep w o with
      | Some w1 => mcrunb reqs w1 rest
      | None => None
      end
    else None
  end.

Lemma mcrunb_sound reqs ops : forall w w', mcrunb reqs w ops = Some w' -> mcvrun w ops w'.
Proof.
  induction ops as [|o ops IH]; cbn [mcrunb mcvrun]; intros w w' H.
  - congruence.
  - destruct (mcvalidb reqs w o) eqn:V; [|discriminate].
    destruct (mcwstep w o) as [w1|] eqn:S; [|discriminate].
    split; [now apply (mcvalidb_sound reqs)|]. exists w1. split; auto.
Qed.

Lemma mcvrun_reach w0 ops : forall w w', mcreach w0 w -> mcvrun w ops w' -> mcreach w0 w'.
Proof.
  induction ops as [|o ops IH]; cbn [mcvrun]; intros w w' Hr H.
  - now subst.
  - destruct H as [Hv [w1 [Hs H]]]. eapply IH; [|exact H]. eapply mcreach_step; eauto.
Qed.

(* decidable equalities for the observables of the examples *)
Definition dec_true {A} (x y : A) (d : {x = y} + {x <> y}) : bool := if d then true else false.
Lemma dec_true_eq {A} (x y : A) d : dec_true x y d = true -> x = y.
Proof. unfold dec_true. destruct d; congruence. Qed.
