(* Request independence of TxNotifier (multi-request model, MModel.v): the
   projection of a multi-request step onto request r is the single-request step
   of Model.v on r's own view of the call; calls addressed to another request
   leave r's projection untouched and send nothing to r's clients. *)
From Coq Require Import List NArith Bool Lia.
From LV Require Import Notifier.Model Notifier.MModel Notifier.MLemmas.
Import ListNotations.
Local Open Scope N_scope.

Ltac brk :=
  repeat (match goal with
          | |- context [match ?c with _ => _ end] =>
            lazymatch c with
            | context [match _ with _ => _ end] => fail
            | _ => destruct c eqn:?
            end
          end; cbv beta iota zeta).

Ltac fin :=
  intros HH; inversion HH; subst; clear HH; unfold cproj, sproj;
  cbn [m_cur m_rd m_lim m_next m_sets m_ini m_q m_hint
       ms_cur ms_lim ms_next ms_sets ms_hs ms_hint];
  rewrite ?fupd_same, ?tproj_tag_same, ?tproj_nil; try reflexivity.

Lemma padd_all_fold xs (l : list (N * N)) :
  fold_left (fun acc x => if existsb (pair_eqb x) acc then acc else x :: acc) xs l = padd_all xs l.
Proof. reflexivity. Qed.

Lemma add_fold x (l : list N) : (if existsb (N.eqb x) l then l else x :: l) = add x l.
Proof. reflexivity. Qed.

Lemma pdel_fold x (l : list (N * N)) : filter (fun y => negb (pair_eqb x y)) l = pdel x l.
Proof. reflexivity. Qed.

(* ------------------------------------------------------------------ *)
(* calls addressed to request q, seen by q                              *)

Lemma mc_reg_same m q id n hnt m' res ev :
  mcstep m (MCReg q id n hnt) = Some (m', res, ev) ->
  cstep (cproj q m) (CReg id n hnt) = Some (cproj q m', res, tproj q ev).
Proof.
  destruct m as [cu rd lim nx sets ini qq hint].
  unfold mcstep, cstep, cproj at 1.
  cbn [m_cur m_rd m_lim m_next m_sets m_ini m_q m_hint]. cbv beta iota zeta.
  brk; fin.
  all: rewrite ?tproj_tadd_all_same, ?tproj_tadd_same, ?padd_all_fold, ?add_fold; reflexivity.
Qed.

Lemma mc_cancel_same m q id m' res ev :
  mcstep m (MCCancel q id) = Some (m', res, ev) ->
  cstep (cproj q m) (CCancel id) = Some (cproj q m', res, tproj q ev).
Proof.
  destruct m as [cu rd lim nx sets ini qq hint].
  unfold mcstep, cstep, cproj at 1.
  cbn [m_cur m_rd m_lim m_next m_sets m_ini m_q m_hint]. cbv beta iota zeta.
  brk; fin.
  all: rewrite ?tproj_tdel_same, ?pdel_fold; reflexivity.
Qed.

Lemma mc_upd_same m q a m' res ev :
  mcstep m (MCUpd q a) = Some (m', res, ev) ->
  cstep (cproj q m) (CUpd a) = Some (cproj q m', res, tproj q ev).
Proof.
  destruct m as [cu rd lim nx sets ini qq hint].
  unfold mcstep, cstep, cproj at 1.
  cbn [m_cur m_rd m_lim m_next m_sets m_ini m_q m_hint]. cbv beta iota zeta.
  brk; fin.
  all: rewrite ?tproj_tadd_all_same, ?tproj_tadd_same, ?padd_all_fold, ?add_fold; reflexivity.
Qed.

(* ... and by any other request r *)
Ltac fin_other Hne Hne' :=
  intros HH; inversion HH; subst; clear HH; unfold cproj, sproj;
  cbn [m_cur m_rd m_lim m_next m_sets m_ini m_q m_hint
       ms_cur ms_lim ms_next ms_sets ms_hs ms_hint];
  rewrite ?(fupd_other _ _ _ _ Hne);
  rewrite ?tproj_tag_other by exact Hne';
  rewrite ?tproj_tadd_all_other by exact Hne';
  rewrite ?tproj_tadd_other by exact Hne';
  rewrite ?tproj_tdel_other by exact Hne';
  rewrite ?tproj_nil; try (split; reflexivity).

Lemma mc_reg_other m q id n hnt m' res ev r : r <> q ->
  mcstep m (MCReg q id n hnt) = Some (m', res, ev) ->
  cproj r m' = cproj r m /\ tproj r ev = [].
Proof.
  intros Hne. assert (Hne' : q <> r) by congruence.
  destruct m as [cu rd lim nx sets ini qq hint].
  unfold mcstep. cbv beta iota zeta.
  brk; fin_other Hne Hne'.
Qed.

Lemma mc_cancel_other m q id m' res ev r : r <> q ->
  mcstep m (MCCancel q id) = Some (m', res, ev) ->
  cproj r m' = cproj r m /\ tproj r ev = [].
Proof.
  intros Hne. assert (Hne' : q <> r) by congruence.
  destruct m as [cu rd lim nx sets ini qq hint].
  unfold mcstep. cbv beta iota zeta.
  brk; fin_other Hne Hne'.
Qed.

Lemma mc_upd_other m q a m' res ev r : r <> q ->
  mcstep m (MCUpd q a) = Some (m', res, ev) ->
  cproj r m' = cproj r m /\ tproj r ev = [].
Proof.
  intros Hne. assert (Hne' : q <> r) by congruence.
  destruct m as [cu rd lim nx sets ini qq hint].
  unfold mcstep. cbv beta iota zeta.
  brk; fin_other Hne Hne'.
Qed.

(* ------------------------------------------------------------------ *)
(* global calls                                                         *)

Lemma mem_touched_ini r (ini : list (N * N)) :
  mem r (uniq (map fst ini)) = nonempty (tproj r ini).
Proof. now rewrite mem_uniq, mem_map_fst. Qed.

Lemma mc_disconnect_proj m h m' res ev r :
  mcstep m (MCDisconnect h) = Some (m', res, ev) ->
  cstep (cproj r m) (CDisconnect h) = Some (cproj r m', res, tproj r ev).
Proof.
  destruct m as [cu rd lim nx sets ini qq hint].
  unfold mcstep, cstep, cproj at 1.
  cbn [m_cur m_rd m_lim m_next m_sets m_ini m_q m_hint]. cbv beta iota zeta.
  destruct (negb (h =? cu)) eqn:Eh.
  { fin. }
  destruct (forallb (fun r0 => is_some (sets r0)) (uniq (map fst ini))) eqn:F; [|discriminate].
  fin.
  rewrite tproj_drop_bucket, tproj_tdel_list.
  rewrite !tproj_flat_map_tag by apply NoDup_uniq.
  rewrite mem_touched_ini.
  destruct (tproj r ini) as [|a l] eqn:Ei; cbn [nonempty].
  - reflexivity.
  - assert (Hs : is_some (sets r) = true).
    { apply (forallb_mem _ _ r F). rewrite mem_touched_ini, Ei. reflexivity. }
    destruct (sets r) as [s0|]; [|discriminate]. reflexivity.
Qed.

Lemma queue_at_false_live cu q l : queue_at cu q = false -> queue_live cu q l = true.
Proof.
  unfold queue_at, queue_live. induction q as [|e q IH]; cbn; intros H; auto.
  apply orb_false_iff in H. destruct H as [H1 H2]. rewrite H1. cbn. auto.
Qed.

Lemma queue_at_false_pmem cu i q : queue_at cu q = false -> pmem (cu, i) q = false.
Proof.
  unfold queue_at, pmem, pair_eqb. induction q as [|e q IH]; cbn; intros H; auto.
  apply orb_false_iff in H. destruct H as [H1 H2]. rewrite (N.eqb_sym cu), H1. cbn. auto.
Qed.

Lemma notify1_idle cu d q c : queue_at cu q = false -> notify1 [] cu d q c = (c, []).
Proof.
  intros H. unfold notify1, nuN, nc1. rewrite (queue_at_false_pmem _ _ _ H). reflexivity.
Qed.

Lemma cs_eta s0 : mkCS (cs_rescan s0) (cs_det s0) (cs_ntfns s0) = s0.
Proof. now destruct s0. Qed.

Lemma notify1_idle_all cu d q l : queue_at cu q = false ->
  map (fun c => fst (notify1 [] cu d q c)) l = l /\
  flat_map (fun c => snd (notify1 [] cu d q c)) l = [].
Proof.
  intros H. induction l as [|a l [IH1 IH2]]; auto. cbn [map flat_map].
  rewrite (notify1_idle cu d q a H), IH1, IH2. auto.
Qed.

Lemma mc_notify_proj m m' res ev r :
  mcstep m MCNotify = Some (m', res, ev) ->
  cstep (cproj r m) CNotify = Some (cproj r m', res, tproj r ev).
Proof.
  destruct m as [cu rd lim nx sets ini qq hint].
  unfold mcstep, cstep, cproj at 1.
  cbn [m_cur m_rd m_lim m_next m_sets m_ini m_q m_hint]. cbv beta iota zeta.
  match goal with |- context [forallb ?p ?l] => destruct (forallb p l) eqn:F end; [|discriminate].
  fin.
  rewrite tproj_qdrop_bucket, tproj_flat_map_tag by apply NoDup_uniq.
  assert (T : mem r (uniq (map fst ini ++ qbucket_reqs cu qq)) =
              nonempty (tproj r ini) || queue_at cu (tproj r qq)).
  { now rewrite mem_uniq, mem_app, mem_map_fst, mem_qbucket_reqs. }
  destruct (mem r (uniq (map fst ini ++ qbucket_reqs cu qq))) eqn:M.
  - apply (forallb_mem _ _ r F) in M. cbv beta in M.
    unfold mnotify_body in *. fold (nonempty (tproj r ini)).
    destruct (sets r) as [s0|]; [|discriminate].
    destruct (cs_det s0) as [[bh bid]|] eqn:Ed.
    + destruct (negb (queue_live cu (tproj r qq) (cs_ntfns s0))); [discriminate|]. reflexivity.
    + fold (nonempty (cs_ntfns s0)).
      destruct ((nonempty (tproj r ini) && nonempty (cs_ntfns s0)) || queue_at cu (tproj r qq)) eqn:C;
        [discriminate|].
      apply orb_false_iff in C. destruct C as [_ C]. now rewrite (filter_queue_none _ _ C).
  - symmetry in T. apply orb_false_iff in T. destruct T as [T1 T2].
    fold (nonempty (tproj r ini)). rewrite T1, T2, (filter_queue_none _ _ T2).
    apply nonempty_false in T1. rewrite T1.
    destruct (sets r) as [s0|]; [|reflexivity].
    destruct (cs_det s0) as [[bh bid]|] eqn:Ed; [|reflexivity].
    rewrite (queue_at_false_live _ _ _ T2). cbn [negb].
    destruct (notify1_idle_all cu (bh, bid) (tproj r qq) (cs_ntfns s0) T2) as [E1 E2].
    rewrite E1, E2, <- Ed, cs_eta. reflexivity.
Qed.

(* ConnectTip *)
Definition conn_sets1 (sets : N -> option cs) (has : list N) (height bid : N) : N -> option cs :=
  fun r =>
    if mem r has && tip_fresh sets r then
      match sets r with
      | Some s0 => Some (mkCS RComplete (Some (height, bid)) (cs_ntfns s0))
      | None => None
      end
    else sets r.
Definition conn_ini1 (sets : N -> option cs) (has : list N) (height : N) (ini : list (N * N)) :=
  fold_left (fun acc r => if tip_fresh sets r then tadd N.eqb r height acc else acc) (uniq has) ini.
Definition conn_q1 (sets : N -> option cs) (has : list N) (height : N) (q : list (N * (N * N))) :=
  fold_left
    (fun acc r =>
       if tip_fresh sets r then
         match sets r with
         | Some s0 => tadd_all pair_eqb r
                        (map (fun c => (height + c_n c - 1, c_id c)) (cs_ntfns s0)) acc
         | None => acc
         end
       else acc) (uniq has) q.

Lemma mc_connect_unfold cu rd lim nx sets ini q hint height bid has :
  mcstep (mkMC cu rd lim nx sets ini q hint) (MCConnect height bid has) =
  if negb (height =? cu + 1) then Some (mkMC cu rd lim nx sets ini q hint, RErr 4, [])
  else
    let sets1 := conn_sets1 sets has height bid in
    let ini1 := conn_ini1 sets has height ini in
    let q1 := conn_q1 sets has height q in
    let hint1 := fun r => upd_hint (sets1 r) (tproj r ini1) height height (hint r) in
    if lim <=? height then
      let mature := uniq (bucket_reqs (height - lim) ini1) in
      if forallb (fun r => is_some (sets1 r)) mature then
        Some (mkMC height 0 lim nx (fun r => if mem r mature then None else sets1 r)
                   (drop_bucket (height - lim) ini1) q1 hint1,
              ROk None,
              flat_map (fun r => tag r (match sets1 r with
                                        | Some s2 => done_events (cs_ntfns s2)
                                        | None => [] end)) mature)
      else None
    else Some (mkMC height 0 lim nx sets1 ini1 q1 hint1, ROk None, []).
Proof. reflexivity. Qed.

Lemma conn_ini1_proj sets has height ini r :
  tproj r (conn_ini1 sets has height ini) =
  if mem r has && tip_fresh sets r then add height (tproj r ini) else tproj r ini.
Proof.
  unfold conn_ini1.
  rewrite (tproj_fold (fun r' acc => if tip_fresh sets r' then tadd N.eqb r' height acc else acc)
                      (fun r l => if tip_fresh sets r then add height l else l)).
  - rewrite mem_uniq. destruct (mem r has), (tip_fresh sets r); reflexivity.
  - intros r0 r' acc Hne. destruct (tip_fresh sets r'); auto. now apply tproj_tadd_other.
  - intros r0 acc. destruct (tip_fresh sets r0); auto. apply tproj_tadd_same.
  - apply NoDup_uniq.
Qed.

Lemma conn_q1_proj sets has height q r :
  tproj r (conn_q1 sets has height q) =
  if mem r has && tip_fresh sets r then
    match sets r with
    | Some s0 => padd_all (map (fun c => (height + c_n c - 1, c_id c)) (cs_ntfns s0)) (tproj r q)
    | None => tproj r q
    end
  else tproj r q.
Proof.
  unfold conn_q1.
  rewrite (tproj_fold
             (fun r' acc => if tip_fresh sets r' then
                              match sets r' with
                              | Some s0 => tadd_all pair_eqb r'
                                             (map (fun c => (height + c_n c - 1, c_id c)) (cs_ntfns s0)) acc
                              | None => acc end
                            else acc)
             (fun r l => if tip_fresh sets r then
                           match sets r with
                           | Some s0 => padd_all (map (fun c => (height + c_n c - 1, c_id c)) (cs_ntfns s0)) l
                           | None => l end
                         else l)).
  - rewrite mem_uniq. destruct (mem r has), (tip_fresh sets r); reflexivity.
  - intros r0 r' acc Hne. destruct (tip_fresh sets r'); auto. destruct (sets r'); auto.
    now apply tproj_tadd_all_other.
  - intros r0 acc. destruct (tip_fresh sets r0); auto. destruct (sets r0); auto.
    apply tproj_tadd_all_same.
  - apply NoDup_uniq.
Qed.

Lemma mc_connect_proj m height bid has m' res ev r :
  mcstep m (MCConnect height bid has) = Some (m', res, ev) ->
  cstep (cproj r m) (CConnect height bid (mem r has)) = Some (cproj r m', res, tproj r ev).
Proof.
  destruct m as [cu rd lim nx sets ini qq hint].
  rewrite mc_connect_unfold.
  unfold cstep, cproj at 1.
  cbn [m_cur m_rd m_lim m_next m_sets m_ini m_q m_hint]. cbv beta iota zeta.
  destruct (negb (height =? cu + 1)) eqn:Eh.
  { fin. }
  (* the three components touched by handleConfDetailsAtTip *)
  assert (T :
    match sets r with
    | Some s0 =>
      if mem r has
      then match cs_det s0 with
           | Some _ => (sets r, tproj r ini, tproj r qq)
           | None => (Some (mkCS RComplete (Some (height, bid)) (cs_ntfns s0)),
                      add height (tproj r ini),
                      padd_all (map (fun c => (height + c_n c - 1, c_id c)) (cs_ntfns s0)) (tproj r qq))
           end
      else (sets r, tproj r ini, tproj r qq)
    | None => (sets r, tproj r ini, tproj r qq)
    end = (conn_sets1 sets has height bid r, tproj r (conn_ini1 sets has height ini),
           tproj r (conn_q1 sets has height qq))).
  { rewrite conn_ini1_proj, conn_q1_proj. unfold conn_sets1, tip_fresh.
    destruct (sets r) as [s0|] eqn:Es; [|now rewrite andb_false_r].
    destruct (mem r has); cbn [andb]; [|reflexivity].
    destruct (cs_det s0); reflexivity. }
  rewrite T. clear T.
  destruct (lim <=? height) eqn:El; cbn [andb].
  - match goal with |- context [forallb ?p ?l] => destruct (forallb p l) eqn:F end; [|discriminate].
    fin. rewrite tproj_drop_bucket, tproj_flat_map_tag by apply NoDup_uniq.
    rewrite mem_uniq, mem_bucket_reqs.
    destruct (mem (height - lim) (tproj r (conn_ini1 sets has height ini))) eqn:M.
    + assert (Hs : is_some (conn_sets1 sets has height bid r) = true).
      { apply (forallb_mem _ _ r F). now rewrite mem_uniq, mem_bucket_reqs. }
      destruct (conn_sets1 sets has height bid r); [|discriminate]. reflexivity.
    + now rewrite (del_notin _ _ M).
  - fin.
Qed.

(* Request independence, confirmation side *)
Theorem mcstep_proj m o m' res ev r :
  mcstep m o = Some (m', res, ev) ->
  match cop_of r o with
  | Some co => cstep (cproj r m) co = Some (cproj r m', res, tproj r ev)
  | None => cproj r m' = cproj r m /\ tproj r ev = []
  end.
Proof.
  intros H. destruct o as [q id n hnt|q id|q a|height bid has| |height]; cbn [cop_of].
  - destruct (N.eqb q r) eqn:E.
    + apply N.eqb_eq in E. subst q. now apply mc_reg_same.
    + apply N.eqb_neq in E. eapply mc_reg_other; eauto.
  - destruct (N.eqb q r) eqn:E.
    + apply N.eqb_eq in E. subst q. now apply mc_cancel_same.
    + apply N.eqb_neq in E. eapply mc_cancel_other; eauto.
  - destruct (N.eqb q r) eqn:E.
    + apply N.eqb_eq in E. subst q. now apply mc_upd_same.
    + apply N.eqb_neq in E. eapply mc_upd_other; eauto.
  - now apply mc_connect_proj.
  - now apply mc_notify_proj.
  - now apply mc_disconnect_proj.
Qed.

(* ================================================================== *)
(* Spend side                                                           *)

Lemma ms_reg_same m q id hnt m' res ev :
  msstep m (MSReg q id hnt) = Some (m', res, ev) ->
  sstep (sproj q m) (SReg id hnt) = Some (sproj q m', res, tproj q ev).
Proof.
  destruct m as [cu lim nx sets hs hint].
  unfold msstep, sstep, sproj at 1.
  cbn [ms_cur ms_lim ms_next ms_sets ms_hs ms_hint]. cbv beta iota zeta.
  brk; fin.
  all: rewrite ?tproj_tadd_same, ?add_fold; reflexivity.
Qed.

Lemma ms_cancel_same m q id m' res ev :
  msstep m (MSCancel q id) = Some (m', res, ev) ->
  sstep (sproj q m) (SCancel id) = Some (sproj q m', res, tproj q ev).
Proof.
  destruct m as [cu lim nx sets hs hint].
  unfold msstep, sstep, sproj at 1.
  cbn [ms_cur ms_lim ms_next ms_sets ms_hs ms_hint]. cbv beta iota zeta.
  brk; fin.
Qed.

Lemma ms_upd_same m q a m' res ev :
  msstep m (MSUpd q a) = Some (m', res, ev) ->
  sstep (sproj q m) (SUpd a) = Some (sproj q m', res, tproj q ev).
Proof.
  destruct m as [cu lim nx sets hs hint].
  unfold msstep, sstep, sproj at 1.
  cbn [ms_cur ms_lim ms_next ms_sets ms_hs ms_hint]. cbv beta iota zeta.
  brk; fin.
  all: rewrite ?tproj_tadd_same, ?add_fold; reflexivity.
Qed.

Lemma ms_reg_other m q id hnt m' res ev r : r <> q ->
  msstep m (MSReg q id hnt) = Some (m', res, ev) ->
  sproj r m' = sproj r m /\ tproj r ev = [].
Proof.
  intros Hne. assert (Hne' : q <> r) by congruence.
  destruct m as [cu lim nx sets hs hint].
  unfold msstep. cbv beta iota zeta.
  brk; fin_other Hne Hne'.
Qed.

Lemma ms_cancel_other m q id m' res ev r : r <> q ->
  msstep m (MSCancel q id) = Some (m', res, ev) ->
  sproj r m' = sproj r m /\ tproj r ev = [].
Proof.
  intros Hne. assert (Hne' : q <> r) by congruence.
  destruct m as [cu lim nx sets hs hint].
  unfold msstep. cbv beta iota zeta.
  brk; fin_other Hne Hne'.
Qed.

Lemma ms_upd_other m q a m' res ev r : r <> q ->
  msstep m (MSUpd q a) = Some (m', res, ev) ->
  sproj r m' = sproj r m /\ tproj r ev = [].
Proof.
  intros Hne. assert (Hne' : q <> r) by congruence.
  destruct m as [cu lim nx sets hs hint].
  unfold msstep. cbv beta iota zeta.
  brk; fin_other Hne Hne'.
Qed.

Lemma ms_disconnect_proj m h m' res ev r :
  msstep m (MSDisconnect h) = Some (m', res, ev) ->
  sstep (sproj r m) (SDisconnect h) = Some (sproj r m', res, tproj r ev).
Proof.
  destruct m as [cu lim nx sets hs hint].
  unfold msstep, sstep, sproj at 1.
  cbn [ms_cur ms_lim ms_next ms_sets ms_hs ms_hint]. cbv beta iota zeta.
  destruct (negb (h =? cu)) eqn:Eh.
  { fin. }
  match goal with |- context [forallb ?p ?l] => destruct (forallb p l) eqn:F end; [|discriminate].
  fin.
  rewrite tproj_drop_bucket, tproj_flat_map_tag by apply NoDup_uniq.
  rewrite mem_uniq, mem_bucket_reqs.
  destruct (mem h (tproj r hs)) eqn:M.
  - assert (Hs : is_some (sets r) = true).
    { apply (forallb_mem _ _ r F). now rewrite mem_uniq, mem_bucket_reqs. }
    destruct (sets r) as [s0|]; [|discriminate].
    unfold sreorg_all. reflexivity.
  - now rewrite (del_notin _ _ M).
Qed.

(* NotifyHeight *)
Definition msn_body (cu lim : N) (sets : N -> option ss) (r : N) :=
  match sets r with
  | Some s0 =>
    match ss_det s0 with
    | Some d => Some (sdispatch_all cu lim d (ss_ntfns s0), d, s0)
    | None => None
    end
  | None => None
  end.

Lemma ms_notify_unfold cu lim nx sets hs hint :
  msstep (mkMS cu lim nx sets hs hint) MSNotify =
  let touched := uniq (bucket_reqs cu hs) in
  if forallb (fun r => is_some (sets r)) touched then
    let body := msn_body cu lim sets in
    Some (mkMS cu lim nx
               (fun r => if mem r touched then
                           match body r with
                           | Some (l1, _, _, d, s0) => Some (mkSS (ss_rescan s0) (ss_det s0) l1)
                           | None => sets r
                           end
                         else sets r)
               (fold_left (fun acc r => match body r with
                                        | Some (_, _, ia, d, _) =>
                                          if ia then tadd N.eqb r (fst d) acc else acc
                                        | None => acc end) touched hs)
               hint,
          ROk None,
          flat_map (fun r => tag r (match body r with
                                    | Some (_, ev, _, _, _) => ev
                                    | None => [] end)) touched)
  else None.
Proof. reflexivity. Qed.

Lemma ms_notify_proj m m' res ev r :
  msstep m MSNotify = Some (m', res, ev) ->
  sstep (sproj r m) SNotify = Some (sproj r m', res, tproj r ev).
Proof.
  destruct m as [cu lim nx sets hs hint].
  rewrite ms_notify_unfold. cbv zeta.
  unfold sstep, sproj at 1.
  cbn [ms_cur ms_lim ms_next ms_sets ms_hs ms_hint]. cbv beta iota zeta.
  match goal with |- context [forallb ?p ?l] => destruct (forallb p l) eqn:F end; [|discriminate].
  fin.
  rewrite tproj_flat_map_tag by apply NoDup_uniq.
  rewrite (tproj_fold
             (fun r' acc => match msn_body cu lim sets r' with
                            | Some (_, _, ia, d, _) => if ia then tadd N.eqb r' (fst d) acc else acc
                            | None => acc end)
             (fun r l => match msn_body cu lim sets r with
                         | Some (_, _, ia, d, _) => if ia then add (fst d) l else l
                         | None => l end)).
  - rewrite mem_uniq, mem_bucket_reqs.
    destruct (mem cu (tproj r hs)) eqn:M; [|reflexivity].
    assert (Hs : is_some (sets r) = true).
    { apply (forallb_mem _ _ r F). now rewrite mem_uniq, mem_bucket_reqs. }
    unfold msn_body.
    destruct (sets r) as [s0|]; [|discriminate].
    destruct (ss_det s0) as [d|] eqn:Ed; [|reflexivity].
    destruct (sdispatch_all cu lim d (ss_ntfns s0)) as [[l1 e1] ia]. rewrite Ed. reflexivity.
  - intros r0 r' acc Hne. destruct (msn_body cu lim sets r') as [[[[[? ?] ia] d] ?]|]; auto.
    destruct ia; auto. now apply tproj_tadd_other.
  - intros r0 acc. destruct (msn_body cu lim sets r0) as [[[[[? ?] ia] d] ?]|]; auto.
    destruct ia; auto. apply tproj_tadd_same.
  - apply NoDup_uniq.
Qed.

(* ConnectTip *)
Definition sconn_sets1 (sets : N -> option ss) (sp : list (N * N)) (height : N) : N -> option ss :=
  fun r =>
    match sets r, assoc r sp with
    | Some s0, Some tx => Some (mkSS RComplete (Some (height, tx)) (ss_ntfns s0))
    | _, _ => sets r
    end.
Definition sconn_hs1 (sets : N -> option ss) (sp : list (N * N)) (height : N) (hs : list (N * N)) :=
  fold_left (fun acc r => if is_some (sets r) then tadd N.eqb r height acc else acc)
            (uniq (map fst sp)) hs.

Lemma ms_connect_unfold cu lim nx sets hs hint height sp :
  msstep (mkMS cu lim nx sets hs hint) (MSConnect height sp) =
  if negb (height =? cu + 1) then Some (mkMS cu lim nx sets hs hint, RErr 4, [])
  else
    let sets1 := sconn_sets1 sets sp height in
    let hs1 := sconn_hs1 sets sp height hs in
    let hint1 := fun r => supd_hint (sets1 r) (tproj r hs1) height height (hint r) in
    if lim <=? height then
      let mature := uniq (bucket_reqs (height - lim) hs1) in
      if forallb (fun r => is_some (sets1 r)) mature then
        Some (mkMS height lim nx (fun r => if mem r mature then None else sets1 r)
                   (drop_bucket (height - lim) hs1) hint1,
              ROk None,
              flat_map (fun r => tag r (match sets1 r with
                                        | Some s2 => map (fun c => (s_id c, ESDone)) (ss_ntfns s2)
                                        | None => [] end)) mature)
      else None
    else Some (mkMS height lim nx sets1 hs1 hint1, ROk None, []).
Proof. reflexivity. Qed.

Lemma mem_assoc r sp : mem r (map fst sp) = is_some (assoc r sp).
Proof.
  induction sp as [|[k v] sp IH]; auto. unfold mem in *. cbn [map existsb fst assoc].
  rewrite (N.eqb_sym r k). destruct (N.eqb k r); auto.
Qed.

Lemma sconn_hs1_proj sets sp height hs r :
  tproj r (sconn_hs1 sets sp height hs) =
  if is_some (assoc r sp) && is_some (sets r) then add height (tproj r hs) else tproj r hs.
Proof.
  unfold sconn_hs1.
  rewrite (tproj_fold (fun r' acc => if is_some (sets r') then tadd N.eqb r' height acc else acc)
                      (fun r l => if is_some (sets r) then add height l else l)).
  - rewrite mem_uniq, mem_assoc. destruct (is_some (assoc r sp)), (is_some (sets r)); reflexivity.
  - intros r0 r' acc Hne. destruct (is_some (sets r')); auto. now apply tproj_tadd_other.
  - intros r0 acc. destruct (is_some (sets r0)); auto. apply tproj_tadd_same.
  - apply NoDup_uniq.
Qed.

Lemma ms_connect_proj m height sp m' res ev r :
  msstep m (MSConnect height sp) = Some (m', res, ev) ->
  sstep (sproj r m) (SConnect height (assoc r sp)) = Some (sproj r m', res, tproj r ev).
Proof.
  destruct m as [cu lim nx sets hs hint].
  rewrite ms_connect_unfold.
  unfold sstep, sproj at 1.
  cbn [ms_cur ms_lim ms_next ms_sets ms_hs ms_hint]. cbv beta iota zeta.
  destruct (negb (height =? cu + 1)) eqn:Eh.
  { fin. }
  assert (T :
    match sets r with
    | Some s0 =>
      match assoc r sp with
      | Some tx => (Some (mkSS RComplete (Some (height, tx)) (ss_ntfns s0)), add height (tproj r hs))
      | None => (sets r, tproj r hs)
      end
    | None => (sets r, tproj r hs)
    end = (sconn_sets1 sets sp height r, tproj r (sconn_hs1 sets sp height hs))).
  { rewrite sconn_hs1_proj. unfold sconn_sets1.
    destruct (sets r) as [s0|] eqn:Es; [|now rewrite andb_false_r].
    destruct (assoc r sp); reflexivity. }
  rewrite T. clear T.
  destruct (lim <=? height) eqn:El; cbn [andb].
  - match goal with |- context [forallb ?p ?l] => destruct (forallb p l) eqn:F end; [|discriminate].
    fin. rewrite tproj_drop_bucket, tproj_flat_map_tag by apply NoDup_uniq.
    rewrite mem_uniq, mem_bucket_reqs.
    destruct (mem (height - lim) (tproj r (sconn_hs1 sets sp height hs))) eqn:M.
    + assert (Hs : is_some (sconn_sets1 sets sp height r) = true).
      { apply (forallb_mem _ _ r F). now rewrite mem_uniq, mem_bucket_reqs. }
      destruct (sconn_sets1 sets sp height r); [|discriminate]. reflexivity.
    + now rewrite (del_notin _ _ M).
  - fin.
Qed.

(* Request independence, spend side *)
Theorem msstep_proj m o m' res ev r :
  msstep m o = Some (m', res, ev) ->
  match sop_of r o with
  | Some so => sstep (sproj r m) so = Some (sproj r m', res, tproj r ev)
  | None => sproj r m' = sproj r m /\ tproj r ev = []
  end.
Proof.
  intros H. destruct o as [q id hnt|q id|q a|height sp| |height]; cbn [sop_of].
  - destruct (N.eqb q r) eqn:E.
    + apply N.eqb_eq in E. subst q. now apply ms_reg_same.
    + apply N.eqb_neq in E. eapply ms_reg_other; eauto.
  - destruct (N.eqb q r) eqn:E.
    + apply N.eqb_eq in E. subst q. now apply ms_cancel_same.
    + apply N.eqb_neq in E. eapply ms_cancel_other; eauto.
  - destruct (N.eqb q r) eqn:E.
    + apply N.eqb_eq in E. subst q. now apply ms_upd_same.
    + apply N.eqb_neq in E. eapply ms_upd_other; eauto.
  - now apply ms_connect_proj.
  - now apply ms_notify_proj.
  - now apply ms_disconnect_proj.
Qed.
