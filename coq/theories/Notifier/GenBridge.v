(* C14 bridge (tie T1).  Notifier/Model.v is parametric in reorgSafetyLimit
   (the [limit] of a state); the C14 theorems assume [1 <= limit] (cstart_ok /
   sstart_ok) and the refutation witnesses of ConfMain.v are stated at the
   production value.  Here the value REGENERATED from the lnd tree
   (Gen/GenConsts.v: chainntnfs.ReorgSafetyLimit) is shown to satisfy that
   hypothesis and to be the limit the witnesses are stated at.  A source edit
   of ReorgSafetyLimit changes the generated side and breaks a lemma here. *)
From Coq Require Import ZArith NArith Lia List.
From LV Require Import Gen.GenConsts Notifier.Model Notifier.Spec Notifier.ConfMain.
Import ListNotations.
Local Open Scope N_scope.

Definition production_limit : N := Z.to_N chainntnfs_ReorgSafetyLimit.

(* the start hypothesis of the C14 theorems holds for the shipped constant *)
Lemma gen_production_limit_ok : 1 <= production_limit.
Proof. unfold production_limit, chainntnfs_ReorgSafetyLimit. lia. Qed.

(* the witnesses of ConfMain.v are stated at the shipped constant *)
Lemma gen_pr_start_ok : cstart_ok pr_chain 1 production_limit None.
Proof. exact pr_start_ok. Qed.

Lemma gen_zc_cstart_ok : cstart_ok zc_cchain 3 production_limit None.
Proof. exact zc_cstart_ok. Qed.

Lemma gen_zc_sstart_ok : sstart_ok zc_schain 3 production_limit None.
Proof. exact zc_sstart_ok. Qed.
