(* Non-vacuity: the hypotheses of the C14 theorems are satisfiable by a
   non-trivial history (a spend found by a historical rescan, then reorged
   out, then re-included at tip and notified). *)
From Coq Require Import List NArith Lia.
From LV Require Import Notifier.Model Notifier.Spec Notifier.Proofs Notifier.ConfMain.
Import ListNotations.
Local Open Scope N_scope.

Definition ex_chain : list (N * option N) := [(3, None); (2, Some 0); (1, None)].

Example ex_start_ok : sstart_ok ex_chain 3 144 None.
Proof.
  unfold sstart_ok, ex_chain. simpl. repeat split; try lia; try discriminate; auto.
  all: try (intros; discriminate). all: try (intros; lia).
  all: try (intros H; exfalso; apply H; reflexivity).
Qed.

Definition ex_w1 := mkSW ex_chain
  (mkS 3 144 2 (Some (mkSS RPending None [mkSN 1 false])) [] None) false 3 [].
Definition ex_w2 := mkSW ex_chain
  (mkS 3 144 2 (Some (mkSS RComplete (Some (2, 0)) [mkSN 1 true])) [2] (Some 2)) false 3
  [(1, ESpend 2 0)].
Definition ex_w3 := mkSW [(2, Some 0); (1, None)]
  (mkS 2 144 2 (Some (mkSS RComplete (Some (2, 0)) [mkSN 1 true])) [2] (Some 2)) false 3
  [(1, ESpend 2 0)].
Definition ex_w4 := mkSW [(1, None)]
  (mkS 1 144 2 (Some (mkSS RComplete None [mkSN 1 false])) [] (Some 1)) false 3
  [(1, ESpend 2 0); (1, EReorg)].

(* register (valid hint), rescan finds the spend, the spending block is
   reorged out: the client has been told Spend then Reorg, the hint follows *)
Example ex_reach :
  sreach (sinit ex_chain 3 144 None) ex_w4 /\
  slstate 1 (sw_log ex_w4) = Some None /\ spos (sw_chain ex_w4) = None.
Proof.
  split; [|split; reflexivity].
  apply (sreach_step _ ex_w3 (SDisconnect 2)).
  apply (sreach_step _ ex_w2 (SDisconnect 3)).
  apply (sreach_step _ ex_w1 (SUpd (Some (2, 0)))).
  apply (sreach_step _ (sinit ex_chain 3 144 None) (SReg 1 1)).
  - apply sreach_init.
  - simpl. intros h t H. inversion H; subst. lia.
  - reflexivity.
  - simpl. reflexivity.
  - reflexivity.
  - simpl. repeat split; try discriminate; lia.
  - reflexivity.
  - simpl. repeat split; try discriminate; lia.
  - reflexivity.
Qed.

(* confirmation side: register (valid hint), the rescan finds the tx in block
   (2, 2), that block and the one above are reorged out, the tx is re-included
   in the new block (2, 22) and the client (1 confirmation) is notified again:
   it has been told Confirmed(2,2), NegativeConf, Confirmed(2,22).  All
   environment obligations of the C14 confirmation theorems hold along the way. *)
Definition ex_cchain : list (N * (N * bool)) := [(3, (3, false)); (2, (2, true)); (1, (1, false))].
Definition ex_cops : list cop :=
  [CReg 1 1 1; CUpd (Some (2, 2)); CDisconnect 3; CDisconnect 2; CConnect 2 22 true; CNotify].

Example ex_cstart_ok : cstart_ok ex_cchain 3 144 None.
Proof.
  unfold cstart_ok, ex_cchain. simpl. repeat split; try lia; try discriminate; auto.
  all: try (intros; discriminate). all: try (intros; lia).
Qed.

Example ex_conf_reach :
  exists w, creach (cinit ex_cchain 3 144 None) w /\
    sel 1 (cw_log w) = [EUpd 0 2; EConf 2 2; ENeg 2; EUpd 0 2; EConf 2 22] /\
    clstate 1 (cw_log w) = Some (Some (2, 22)) /\ cpos (cw_chain w) = Some (2, 22).
Proof.
  assert (R : exists w, cvrun (cinit ex_cchain 3 144 None) ex_cops w /\
    sel 1 (cw_log w) = [EUpd 0 2; EConf 2 2; ENeg 2; EUpd 0 2; EConf 2 22] /\
    clstate 1 (cw_log w) = Some (Some (2, 22)) /\ cpos (cw_chain w) = Some (2, 22)).
  { eexists. split.
    { unfold ex_cops.
      split; [simpl; intros h b Hp; inversion Hp; subst; lia
             |eexists; split; [vm_compute; reflexivity|]].
      split; [simpl; reflexivity|eexists; split; [vm_compute; reflexivity|]].
      vstep. vstep. vstep. vstep. simpl. reflexivity. }
    vm_compute. repeat split; reflexivity. }
  destruct R as [w [R H]]. exists w. split; [|exact H].
  eapply cvrun_reach; [apply creach_init|exact R].
Qed.
