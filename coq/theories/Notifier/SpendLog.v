(* C14, spend side, event-stream half: the per-client event log agrees with the
   dispatched flag ("dispatched = last Spend not followed by Reorg"), no client
   ever receives a second Spend without a Reorg in between, and outside the
   ConnectTip..NotifyHeight window every registered client has been told of
   the cached spend details. *)
From Coq Require Import List NArith Bool Lia.
From LV Require Import Notifier.Model Notifier.Spec Notifier.Proofs.
Import ListNotations.
Local Open Scope N_scope.

Record SLInv (w : sworld) : Prop := {
  sl_nodup : forall s, sset (sw_st w) = Some s -> NoDup (map s_id (ss_ntfns s));
  sl_lt : forall s c, sset (sw_st w) = Some s -> In c (ss_ntfns s) -> s_id c < snextid (sw_st w);
  sl_loglt : forall i e, In (i, e) (sw_log w) -> i < snextid (sw_st w);
  sl_flag : forall s c, sset (sw_st w) = Some s -> In c (ss_ntfns s) ->
            slstate (s_id c) (sw_log w) = stold c (ss_det s);
  sl_ok : forall id, slstate id (sw_log w) <> None;
  sl_pend : forall s c h t, sset (sw_st w) = Some s -> In c (ss_ntfns s) ->
            ss_det s = Some (h, t) -> s_disp c = false ->
            sw_pending w = true /\ h = scur (sw_st w) /\ In h (sheights (sw_st w))
}.

(* SLInv does not mention the chain, the high-water mark, the rescan status or
   the hint *)
Lemma slinv_eq ch ch' cu lim nid rs rs' det l hs hn hn' pend high high' log :
  SLInv (mkSW ch (mkS cu lim nid (Some (mkSS rs det l)) hs hn) pend high log) ->
  SLInv (mkSW ch' (mkS cu lim nid (Some (mkSS rs' det l)) hs hn') pend high' (log ++ [])).
Proof.
  rewrite app_nil_r. intros [A B C D E F]. simpl in *.
  constructor; simpl; auto.
  - intros s Hs. inversion Hs; subst; simpl. apply (A _ eq_refl).
  - intros s c Hs. inversion Hs; subst; simpl. apply (B _ c eq_refl).
  - intros s c Hs. inversion Hs; subst; simpl. apply (D _ c eq_refl).
  - intros s c h t Hs. inversion Hs; subst; simpl. apply (F _ c h t eq_refl).
Qed.

Lemma slinv_none ch ch' cu cu' lim nid hs hs' hn hn' pend pend' high high' log :
  SLInv (mkSW ch (mkS cu lim nid None hs hn) pend high log) ->
  SLInv (mkSW ch' (mkS cu' lim nid None hs' hn') pend' high' (log ++ [])).
Proof.
  rewrite app_nil_r. intros [A B C D E F]. simpl in *.
  constructor; simpl; auto; intros; discriminate.
Qed.

Lemma slinv_same (ch ch' : list (N * option N)) st pend high high' log :
  SLInv (mkSW ch st pend high log) -> SLInv (mkSW ch' st pend high' (log ++ [])).
Proof. rewrite app_nil_r. intros [A B C D E F]. constructor; auto. Qed.

(* generic registration step *)
Lemma slinv_reg_gen ch' cu lim nid l rs' det hs hs' hn' pend high' log id c1 ev :
  NoDup (map s_id l) ->
  (forall c, In c l -> s_id c < nid) ->
  (forall i e, In (i, e) log -> i < nid) ->
  (forall c, In c l -> slstate (s_id c) log = stold c det) ->
  (forall i, slstate i log <> None) ->
  (forall c h t, In c l -> det = Some (h, t) -> s_disp c = false ->
     pend = true /\ h = cu /\ In h hs) ->
  nid <= id -> s_id c1 = id -> (forall e, In e ev -> fst e = id) ->
  fold_left slstep (map snd ev) (Some None) = stold c1 det ->
  (forall h t, det = Some (h, t) -> s_disp c1 = true) ->
  (forall x, In x hs -> In x hs') ->
  SLInv (mkSW ch' (mkS cu lim (id + 1) (Some (mkSS rs' det (l ++ [c1]))) hs' hn') pend high'
              (log ++ ev)).
Proof.
  intros Hnd Hlt Hlog Hflag Hok Hpend Hle Hid Htag Hfold Hnew Hsub.
  destruct (sreg_nodup l nid id c1 Hnd Hlt Hle Hid) as [Hnd' Hlt'].
  constructor; simpl.
  - intros s Hs. inversion Hs; subst; simpl. exact Hnd'.
  - intros s c Hs. inversion Hs; subst; simpl. apply Hlt'.
  - intros i e Hin. apply in_app_iff in Hin. destruct Hin as [Hin|Hin].
    + specialize (Hlog _ _ Hin). lia.
    + specialize (Htag _ Hin). simpl in Htag. lia.
  - intros s c Hs. inversion Hs; subst; simpl.
    apply (sreg_flag l log nid (s_id c1) c1 ev det); auto.
  - apply (sreg_ok log nid id ev (if s_disp c1 then det else None)); auto.
  - intros s c h t Hs Hin Hd Hdisp. inversion Hs; subst; simpl in *.
    apply in_app_iff in Hin. destruct Hin as [Hin|[<-|[]]].
    + destruct (Hpend c h t Hin Hd Hdisp) as [P1 [P2 P3]]. auto.
    + rewrite (Hnew h t Hd) in Hdisp. discriminate.
Qed.

Lemma slinv_reg ch cu lim nid s hs hn pend high log id hnt st' r ev :
  SInv (mkSW ch (mkS cu lim nid s hs hn) pend high log) ->
  SLInv (mkSW ch (mkS cu lim nid s hs hn) pend high log) ->
  sstep (mkS cu lim nid s hs hn) (SReg id hnt) = Some (st', r, ev) ->
  SLInv (mkSW ch st' pend high (log ++ ev)).
Proof.
  intros I L E. simpl in E.
  destruct (id <? nid) eqn:Eid; [inversion E; subst; eapply slinv_same; eauto|].
  destruct (hnt =? 0) eqn:Eh; [inversion E; subst; eapply slinv_same; eauto|].
  apply N.ltb_ge in Eid.
  destruct L as [Lnd Llt Llog Lflag Lok Lpend]. simpl in *.
  pose proof (si_det _ I) as Idet. simpl in Idet.
  destruct s as [s0|].
  - specialize (Lnd s0 eq_refl). specialize (Idet s0).
    assert (Hlt : forall c, In c (ss_ntfns s0) -> s_id c < nid) by (intros; eapply Llt; eauto).
    assert (Hfl : forall c, In c (ss_ntfns s0) -> slstate (s_id c) log = stold c (ss_det s0))
      by (intros; eapply Lflag; eauto).
    assert (Hpe : forall c h t, In c (ss_ntfns s0) -> ss_det s0 = Some (h, t) -> s_disp c = false ->
                  pend = true /\ h = cu /\ In h hs) by (intros; eapply Lpend; eauto).
    destruct (ss_rescan s0) eqn:Er; simpl in E.
    + destruct (cu <? max_hint hnt hn); inversion E; subst; clear E;
        (apply slinv_reg_gen with (nid := nid) (hs := hs); auto;
         [intros e []| intros h t Hd; destruct (Idet h t eq_refl Hd); congruence]).
    + inversion E; subst; clear E.
      apply slinv_reg_gen with (nid := nid) (hs := hs); auto;
        [intros e []| intros h t Hd; destruct (Idet h t eq_refl Hd); congruence].
    + destruct (ss_det s0) as [[dh dt]|] eqn:Ed.
      * unfold sdispatch1 in E. simpl in E. inversion E; subst; clear E.
        apply slinv_reg_gen with (nid := nid) (hs := hs); auto.
        -- intros e [<-|[]]. reflexivity.
        -- intros x Hx. destruct (cu <? dh + lim); auto. apply In_add. auto.
      * inversion E; subst; clear E.
        apply slinv_reg_gen with (nid := nid) (hs := hs); auto;
          [intros e []| intros; discriminate].
  - simpl in E.
    destruct (cu <? max_hint hnt hn); inversion E; subst; clear E;
      (apply slinv_reg_gen with (nid := nid) (l := []) (hs := hs); auto;
       [constructor | intros c [] | intros c [] | intros c h t [] | intros e [] | intros; discriminate]).
Qed.

Lemma slinv_cancel ch cu lim nid s hs hn pend high log id st' r ev :
  SLInv (mkSW ch (mkS cu lim nid s hs hn) pend high log) ->
  sstep (mkS cu lim nid s hs hn) (SCancel id) = Some (st', r, ev) ->
  SLInv (mkSW ch st' pend high (log ++ ev)).
Proof.
  intros L E. simpl in E. destruct s as [s0|]; inversion E; subst; clear E;
    [|eapply slinv_same; eauto].
  rewrite app_nil_r. destruct L as [Lnd Llt Llog Lflag Lok Lpend]. simpl in *.
  constructor; simpl; auto.
  - intros s Hs. inversion Hs; subst; simpl. unfold sremove_id. apply NoDup_map_filter. eauto.
  - intros s c Hs Hin. inversion Hs; subst; simpl in *. apply sremove_In in Hin. eapply Llt; eauto. tauto.
  - intros s c Hs Hin. inversion Hs; subst; simpl in *. apply sremove_In in Hin. eapply Lflag; eauto. tauto.
  - intros s c h t Hs Hin. inversion Hs; subst; simpl in *. apply sremove_In in Hin.
    eapply Lpend; eauto. tauto.
Qed.

(* bulk update of all clients *)
Lemma slinv_bulk ch ch' cu cu' lim nid rs rs' det det' l hs hs' hn hn' pend pend' high high' log f g :
  SLInv (mkSW ch (mkS cu lim nid (Some (mkSS rs det l)) hs hn) pend high log) ->
  (forall c, s_id (f c) = s_id c) ->
  (forall c e, In c l -> In e (g c) -> fst e = s_id c) ->
  (forall c, In c l -> fold_left slstep (map snd (g c)) (stold c det) = stold (f c) det') ->
  (forall c h t, In c l -> det' = Some (h, t) -> s_disp (f c) = false ->
     pend' = true /\ h = cu' /\ In h hs') ->
  SLInv (mkSW ch' (mkS cu' lim nid (Some (mkSS rs' det' (map f l))) hs' hn') pend' high'
              (log ++ flat_map g l)).
Proof.
  intros [Lnd Llt Llog Lflag Lok Lpend] Hid Htag Hfold Hp. simpl in *.
  specialize (Lnd _ eq_refl). simpl in Lnd.
  assert (Hfl : forall c, In c l -> slstate (s_id c) log = stold c det)
    by (intros; eapply (Lflag _ c eq_refl); eauto).
  constructor; simpl.
  - intros s Hs. inversion Hs; subst; simpl. rewrite map_id_map; auto.
  - intros s c Hs Hin. inversion Hs; subst; simpl in *.
    apply in_map_iff in Hin. destruct Hin as [c0 [<- Hc0]]. rewrite Hid.
    apply (Llt _ c0 eq_refl). exact Hc0.
  - intros i e Hin. apply in_app_iff in Hin. destruct Hin as [Hin|Hin]; [eauto|].
    destruct (in_log_flat s_id g l i e Htag Hin) as [c [Hc <-]].
    apply (Llt _ c eq_refl). exact Hc.
  - intros s c Hs Hin. inversion Hs; subst; simpl in *.
    apply (sbulk_flag l log det det' f g); auto.
  - apply (sbulk_ok l log det det' f g); auto.
  - intros s c h t Hs Hin Hd Hdisp. inversion Hs; subst; simpl in *.
    apply in_map_iff in Hin. destruct Hin as [c0 [<- Hc0]]. eapply Hp; eauto.
Qed.

Lemma slinv_upd ch cu lim nid s hs hn pend high log r0 st' r ev :
  SInv (mkSW ch (mkS cu lim nid s hs hn) pend high log) ->
  SLInv (mkSW ch (mkS cu lim nid s hs hn) pend high log) ->
  sstep (mkS cu lim nid s hs hn) (SUpd r0) = Some (st', r, ev) ->
  SLInv (mkSW ch st' pend high (log ++ ev)).
Proof.
  intros I L E. simpl in E.
  destruct s as [s0|]; [|inversion E; subst; eapply slinv_same; eauto].
  destruct (ss_det s0) as [d|] eqn:Ed; [inversion E; subst; eapply slinv_same; eauto|].
  destruct s0 as [rs det l]. simpl in *. subst det.
  pose proof (si_nodisp _ I) as Inodisp0. simpl in Inodisp0.
  assert (Inodisp : forall c, In c l -> s_disp c = false)
    by (intros c Hc; apply (Inodisp0 _ c eq_refl eq_refl Hc)).
  destruct r0 as [[h t]|].
  - destruct (cu <? h) eqn:Ec.
    + inversion E; subst; clear E. eapply slinv_eq; eauto.
    + unfold sdispatch_all in E. inversion E; subst; clear E.
      eapply slinv_bulk; eauto.
      * intros c. apply sdispatch1_id.
      * intros c e _. apply sdispatch1_tag.
      * intros c Hc. unfold sdispatch1, stold. rewrite (Inodisp c Hc). reflexivity.
      * intros c h0 t0 _ _ Hd. rewrite sdispatch1_disp in Hd. discriminate.
  - inversion E; subst; clear E. eapply slinv_eq; eauto.
Qed.

Lemma slinv_connect ch cu lim nid s hs hn pend high log height sp st' r ev ch' high' :
  SInv (mkSW ch (mkS cu lim nid s hs hn) pend high log) ->
  SLInv (mkSW ch (mkS cu lim nid s hs hn) pend high log) ->
  svalid (mkSW ch (mkS cu lim nid s hs hn) pend high log) (SConnect height sp) ->
  sstep (mkS cu lim nid s hs hn) (SConnect height sp) = Some (st', r, ev) ->
  SLInv (mkSW ch' st' true high' (log ++ ev)).
Proof.
  intros I L V E. simpl in E, V. destruct V as [Vp [Vh [Vu _]]]. subst height pend.
  rewrite N.eqb_refl in E. simpl in E.
  pose proof (si_det _ I) as Idet. pose proof (si_nodisp _ I) as Inodisp. simpl in *.
  destruct s as [[rs det l]|].
  - (* watched *)
    assert (Hprune : forall hs2 hn2,
              SLInv (mkSW ch' (mkS (cu + 1) lim nid None hs2 hn2) true high'
                          (log ++ map (fun c => (s_id c, ESDone)) l))).
    { intros hs2 hn2. destruct L as [Lnd Llt Llog Lflag Lok Lpend]. simpl in *.
      constructor; simpl; try (intros; discriminate).
      - intros i e Hin. apply in_app_iff in Hin. destruct Hin as [Hin|Hin]; [eauto|].
        apply in_map_iff in Hin. destruct Hin as [c [Hc Hin]]. inversion Hc; subst.
        apply (Llt _ c eq_refl). exact Hin.
      - intros i. rewrite slstate_done; auto.
        intros e He. apply in_map_iff in He. destruct He as [c [<- _]]. reflexivity. }
    destruct sp as [tx|].
    + assert (det = None) as ->.
      { destruct det as [[h t]|]; auto. destruct (Idet _ h t eq_refl eq_refl) as [Hp _].
        rewrite Vu in Hp; congruence. }
      assert (Inodisp1 : forall c, In c l -> s_disp c = false)
        by (intros c Hc; apply (Inodisp _ c eq_refl eq_refl Hc)).
      destruct ((lim <=? cu + 1) && mem (cu + 1 - lim) (add (cu + 1) hs)).
      * inversion E; subst; clear E. simpl. apply Hprune.
      * inversion E; subst; clear E. rewrite app_nil_r.
        destruct L as [Lnd Llt Llog Lflag Lok Lpend]. simpl in *.
        constructor; simpl; auto.
        -- intros s Hs. inversion Hs; subst; simpl. apply (Lnd _ eq_refl).
        -- intros s c Hs. inversion Hs; subst; simpl. apply (Llt _ c eq_refl).
        -- intros s c Hs Hin. inversion Hs; subst; simpl in *.
           rewrite (Lflag _ c eq_refl Hin). simpl.
           rewrite !stold_false; auto.
        -- intros s c h t Hs Hin Hd _. inversion Hs; subst; simpl in *. inversion Hd; subst.
           split; auto. split; auto. apply In_add. auto.
    + destruct ((lim <=? cu + 1) && mem (cu + 1 - lim) hs).
      * inversion E; subst; clear E. simpl. apply Hprune.
      * inversion E; subst; clear E. rewrite app_nil_r.
        destruct L as [Lnd Llt Llog Lflag Lok Lpend]. simpl in *.
        constructor; simpl; auto.
        intros s c h t Hs Hin Hd Hdisp.
        destruct (Lpend s c h t Hs Hin Hd Hdisp) as [P _]. discriminate.
  - (* nobody watches *)
    assert (Hst : exists hs2 hn2, st' = mkS (cu + 1) lim nid None hs2 hn2 /\ ev = []).
    { destruct sp; simpl in E;
        match type of E with context [if ?b then _ else _] => destruct b end;
        try discriminate; inversion E; subst; eauto. }
    destruct Hst as [hs2 [hn2 [-> ->]]].
    destruct L as [Lnd Llt Llog Lflag Lok Lpend]. simpl in *. rewrite app_nil_r.
    constructor; simpl; auto; intros; discriminate.
Qed.

Lemma slinv_notify ch cu lim nid s hs hn pend high log st' r ev :
  SLInv (mkSW ch (mkS cu lim nid s hs hn) pend high log) ->
  sstep (mkS cu lim nid s hs hn) SNotify = Some (st', r, ev) ->
  SLInv (mkSW ch st' false high (log ++ ev)).
Proof.
  intros L E. simpl in E.
  destruct (mem cu hs) eqn:Em.
  - destruct s as [[rs det l]|]; [|discriminate]. simpl in E.
    destruct det as [[dh dt]|].
    + unfold sdispatch_all in E. inversion E; subst; clear E.
      eapply slinv_bulk; eauto.
      * intros c. apply sdispatch1_id.
      * intros c e _. apply sdispatch1_tag.
      * intros c Hc. unfold sdispatch1, stold. destruct (s_disp c) eqn:Edc; simpl; rewrite ?Edc; reflexivity.
      * intros c h0 t0 _ _ Hd. rewrite sdispatch1_disp in Hd. discriminate.
    + inversion E; subst; clear E. rewrite app_nil_r.
      destruct L as [Lnd Llt Llog Lflag Lok Lpend]. simpl in *.
      constructor; simpl; auto.
      intros s c h t Hs Hin Hd. inversion Hs; subst. discriminate.
  - inversion E; subst; clear E. rewrite app_nil_r.
    destruct L as [Lnd Llt Llog Lflag Lok Lpend]. simpl in *.
    constructor; simpl; auto.
    intros s1 c h t Hs Hin Hd Hdisp.
    destruct (Lpend s1 c h t Hs Hin Hd Hdisp) as [_ [-> P]].
    apply mem_In in P. congruence.
Qed.

Lemma slinv_disconnect ch cu lim nid s hs hn pend high log height st' r ev ch' :
  SLInv (mkSW ch (mkS cu lim nid s hs hn) pend high log) ->
  svalid (mkSW ch (mkS cu lim nid s hs hn) pend high log) (SDisconnect height) ->
  sstep (mkS cu lim nid s hs hn) (SDisconnect height) = Some (st', r, ev) ->
  SLInv (mkSW ch' st' pend high (log ++ ev)).
Proof.
  intros L V E. simpl in E, V. destruct V as [Vp [Vh _]]. subst height pend.
  rewrite N.eqb_refl in E. simpl in E.
  destruct (mem cu hs) eqn:Em.
  - destruct s as [[rs det l]|]; [|discriminate]. simpl in E.
    unfold sreorg_all in E. inversion E; subst; clear E.
    eapply slinv_bulk; eauto.
    + intros c. apply sreorg1_id.
    + intros c e _. apply sreorg1_tag.
    + intros c Hc. unfold sreorg1, stold. destruct (s_disp c) eqn:Edc; simpl; rewrite ?Edc; auto.
    + intros; discriminate.
  - inversion E; subst; clear E. rewrite app_nil_r.
    destruct L as [Lnd Llt Llog Lflag Lok Lpend]. simpl in *.
    constructor; simpl; auto.
    intros s0 c h t Hs Hin Hd Hdisp.
    destruct (Lpend s0 c h t Hs Hin Hd Hdisp) as [P _]. discriminate.
Qed.

Lemma slinv_step w o w' : SInv w -> SLInv w -> svalid w o -> swstep w o = Some w' -> SLInv w'.
Proof.
  intros I L V S. unfold swstep in S.
  destruct (sstep (sw_st w) o) as [[[st' r] ev]|] eqn:E; [|discriminate].
  inversion S; subst w'; clear S.
  destruct w as [ch st pend high log]. destruct st as [cu lim nid s hs hn]. simpl in *.
  destruct o as [id hnt|id|r0|height sp| |height].
  - eapply slinv_reg; [exact I|exact L|exact E].
  - eapply slinv_cancel; [exact L|exact E].
  - eapply slinv_upd; [exact I|exact L|exact E].
  - pose proof (slinv_connect _ _ _ _ _ _ _ _ _ _ _ _ _ _ _
                  (if is_ok r then (height, sp) :: ch else ch)
                  (if is_ok r then N.max height high else high) I L V E) as H.
    simpl in V. destruct V as [_ [Vh _]]. subst height.
    rewrite (sconnect_res _ _ _ _ _ _ _ _ _ _ E) in *. simpl in *. exact H.
  - eapply slinv_notify; [exact L|exact E].
  - eapply slinv_disconnect; [exact L|exact V|exact E].
Qed.

Lemma slinv_init ch start lim h0 : SLInv (sinit ch start lim h0).
Proof.
  constructor; simpl; try (intros; discriminate); try tauto.
Qed.

Lemma sboth_reach w0 w : SInv w0 -> SLInv w0 -> sreach w0 w -> SInv w /\ SLInv w.
Proof.
  intros I L R. induction R; auto. destruct IHR as [I' L'].
  split; [eapply sinv_step|eapply slinv_step]; eauto.
Qed.

(* ---- the property statements ---- *)

Lemma spend_exact ch start lim h0 w :
  sstart_ok ch start lim h0 -> sreach (sinit ch start lim h0) w ->
  forall s c, sset (sw_st w) = Some s -> In c (ss_ntfns s) ->
    (* the dispatched flag is exactly "last Spend not followed by a Reorg",
       and that Spend carried the cached details *)
    slstate (s_id c) (sw_log w) = Some (if s_disp c then ss_det s else None) /\
    (* what the client has been told is on the active chain *)
    (forall h t, slstate (s_id c) (sw_log w) = Some (Some (h, t)) ->
       spos (sw_chain w) = Some (h, t)) /\
    (* and it has been told whenever the outpoint is spent on the active chain
       (rescan finished, no NotifyHeight outstanding) *)
    (sw_pending w = false -> ss_rescan s = RComplete ->
     forall h t, spos (sw_chain w) = Some (h, t) ->
       slstate (s_id c) (sw_log w) = Some (Some (h, t))).
Proof.
  intros H R s c Hs Hc.
  destruct (sboth_reach _ _ (sinv_init _ _ _ _ H) (slinv_init _ _ _ _) R) as [I L].
  pose proof (sl_flag _ L s c Hs Hc) as Hf. unfold stold in Hf.
  split; [exact Hf|split].
  - intros h t Ht. rewrite Ht in Hf. inversion Hf as [Hd].
    destruct (s_disp c); [|discriminate].
    symmetry in Hd. apply (si_det _ I s h t Hs Hd).
  - intros Hp Hr h t Hpos.
    destruct (ss_det s) as [[dh dt]|] eqn:Ed.
    + destruct (si_det _ I s dh dt Hs Ed) as [Hp' _]. rewrite Hp' in Hpos. inversion Hpos; subst.
      rewrite Hf. destruct (s_disp c) eqn:Edisp; auto.
      destruct (sl_pend _ L s c h t Hs Hc Ed Edisp) as [P _]. congruence.
    + rewrite (si_nodet _ I s Hs Ed Hr) in Hpos. discriminate.
Qed.

Lemma spend_reorg_before_respend ch start lim h0 w :
  sstart_ok ch start lim h0 -> sreach (sinit ch start lim h0) w ->
  forall id, slstate id (sw_log w) <> None.
Proof.
  intros H R.
  destruct (sboth_reach _ _ (sinv_init _ _ _ _ H) (slinv_init _ _ _ _) R) as [I L].
  apply (sl_ok _ L).
Qed.
