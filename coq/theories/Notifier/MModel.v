(* Executable MULTI-REQUEST model of lnd/chainntnfs/txnotifier.go.

   Model.v projects TxNotifier on one confirmation request and one spend
   request.  Here the notifier is modelled as it is: a map request -> per-request
   state (confNotifications / spendNotifications, the hint caches, all keyed by
   the request) next to the height indexes that are SHARED by all requests:

     confsByInitialHeight  map[height] -> set of requests     m_ini : (req, height)
     ntfnsByConfirmHeight  map[height] -> set of *ConfNtfn    m_q   : (req, (height, ConfID))
     spendsByHeight        map[height] -> set of requests     ms_hs : (req, height)

   A bucket (all entries of one height) is shared by every request whose
   inclusion height / due height (inclusion height + numConfs - 1) / spend height
   coincides.  The code touches the indexes in three ways, all explicit below:
   insertion and deletion of ONE entry ([tadd] / [tdel]: handleConfDetailsAtTip,
   dispatchConfDetails, CancelConf, dispatchConfReorg ...), iteration over a
   bucket or over the whole index ([m_touched_*]: the set of requests a global
   call looks at -- for each of them the per-request body of Model.v runs on
   that request's own entries), and deletion of a WHOLE bucket ([drop_bucket] /
   [qdrop_bucket]: `delete(n.ntfnsByConfirmHeight, height)` in NotifyHeight,
   `delete(n.confsByInitialHeight, h)` in ConnectTip / DisconnectTip ...).

   MProofs.v proves request independence: the projection [cproj r] / [sproj r]
   of a multi-request step is the single-request step of Model.v on r's own
   projected call (and the identity for calls addressed to other requests), so
   every per-request theorem lifts to every request of a multi-request run
   (MProps.v).  Definitions only. *)
From Coq Require Import List NArith Bool.
From LV Require Import Notifier.Model.
Import ListNotations.
Local Open Scope N_scope.

(* ------------------------------------------------------------------ *)
(* request-tagged entries                                               *)

Definition tproj {X} (r : N) (l : list (N * X)) : list X :=
  map snd (filter (fun e => N.eqb (fst e) r) l).
Definition tag {X} (r : N) (l : list X) : list (N * X) := map (fun x => (r, x)) l.

Definition tmem {X} (eqb : X -> X -> bool) (r : N) (x : X) (l : list (N * X)) : bool :=
  existsb (fun e => N.eqb (fst e) r && eqb x (snd e)) l.
Definition tadd {X} (eqb : X -> X -> bool) (r : N) (x : X) (l : list (N * X)) : list (N * X) :=
  if tmem eqb r x l then l else (r, x) :: l.
Definition tdel {X} (eqb : X -> X -> bool) (r : N) (x : X) (l : list (N * X)) : list (N * X) :=
  filter (fun e => negb (N.eqb (fst e) r && eqb x (snd e))) l.
Definition tadd_all {X} (eqb : X -> X -> bool) (r : N) (xs : list X) (l : list (N * X)) :=
  fold_left (fun acc x => tadd eqb r x acc) xs l.
(* deletion of a list of tagged entries *)
Definition tdel_list {X} (eqb : X -> X -> bool) (ds : list (N * X)) (l : list (N * X)) :=
  fold_left (fun acc d => tdel eqb (fst d) (snd d) acc) ds l.

(* requests in the bucket of height h / whole-bucket deletion *)
Definition bucket_reqs (h : N) (l : list (N * N)) : list N :=
  map fst (filter (fun e => N.eqb (snd e) h) l).
Definition drop_bucket (h : N) (l : list (N * N)) : list (N * N) :=
  filter (fun e => negb (N.eqb h (snd e))) l.
Definition qbucket_reqs (h : N) (q : list (N * (N * N))) : list N :=
  map fst (filter (fun e => N.eqb (fst (snd e)) h) q).
Definition qdrop_bucket (h : N) (q : list (N * (N * N))) : list (N * (N * N)) :=
  filter (fun e => negb (N.eqb (fst (snd e)) h)) q.

Definition uniq (l : list N) : list N := nodup N.eq_dec l.

Definition fupd {A} (f : N -> A) (r : N) (v : A) : N -> A :=
  fun x => if N.eqb x r then v else f x.

Definition is_some {A} (o : option A) : bool := match o with Some _ => true | None => false end.
Definition nonempty {A} (l : list A) : bool := match l with [] => false | _ => true end.

(* ================================================================== *)
(* Confirmation side                                                    *)

Record mcstate := mkMC {
  m_cur : N;                          (* currentHeight *)
  m_rd : N;                           (* reorgDepth *)
  m_lim : N;                          (* reorgSafetyLimit *)
  m_next : N -> N;                    (* per request: ids handed out so far are < m_next r
                                         (model-only freshness bookkeeping, as Model.nextid) *)
  m_sets : N -> option cs;            (* confNotifications *)
  m_ini : list (N * N);               (* confsByInitialHeight: (req, height) *)
  m_q : list (N * (N * N));           (* ntfnsByConfirmHeight: (req, (height, ConfID)) *)
  m_hint : N -> option N              (* confirm hint cache *)
}.

Definition mcevs := list (N * (N * cev)).       (* (req, (ConfID, event)) *)

Definition init_mc (start lim : N) (h0 : N -> option N) : mcstate :=
  mkMC start 0 lim (fun _ => 0) (fun _ => None) [] [] h0.

Inductive mcop :=
| MCReg (req id n hnt : N)
| MCCancel (req id : N)
| MCUpd (req : N) (r : option (N * N))
| MCConnect (height bid : N) (has : list N)   (* has = watched requests whose tx is in the block *)
| MCNotify
| MCDisconnect (height : N).

(* the call as seen by request r (None: addressed to another request) *)
Definition cop_of (r : N) (o : mcop) : option cop :=
  match o with
  | MCReg q id n hnt => if N.eqb q r then Some (CReg id n hnt) else None
  | MCCancel q id => if N.eqb q r then Some (CCancel id) else None
  | MCUpd q a => if N.eqb q r then Some (CUpd a) else None
  | MCConnect h b has => Some (CConnect h b (mem r has))
  | MCNotify => Some CNotify
  | MCDisconnect h => Some (CDisconnect h)
  end.

Definition cproj (r : N) (m : mcstate) : cstate :=
  mkC (m_cur m) (m_rd m) (m_lim m) (m_next m r) (m_sets m r)
      (tproj r (m_ini m)) (tproj r (m_q m)) (m_hint m r).

(* handleConfDetailsAtTip applies to request r: watched and no details yet *)
Definition tip_fresh (sets : N -> option cs) (r : N) : bool :=
  match sets r with
  | Some s0 => match cs_det s0 with None => true | Some _ => false end
  | None => false
  end.

(* NotifyHeight for one request the two loops reach *)
Definition mnotify_body (cu : N) (s : option cs) (ini : list N) (q : list (N * N))
  : option (option cs * cevs) :=
  match s with
  | None => None                                  (* nil confSet dereference *)
  | Some s0 =>
    match cs_det s0 with
    | None =>
      if (nonempty ini && nonempty (cs_ntfns s0)) || queue_at cu q then None
      else Some (s, [])
    | Some d =>
      if negb (queue_live cu q (cs_ntfns s0)) then None
      else
        let f := notify1 ini cu d q in
        Some (Some (mkCS (cs_rescan s0) (cs_det s0) (map (fun c => fst (f c)) (cs_ntfns s0))),
              flat_map (fun c => snd (f c)) (cs_ntfns s0))
    end
  end.

Definition mcstep (m : mcstate) (o : mcop) : option (mcstate * res * mcevs) :=
  let '(mkMC cu rd lim nx sets ini q hint) := m in
  match o with
  | MCReg r id n hnt =>
    if id <? nx r then Some (m, RErr 9, [])
    else if (n =? 0) || (lim <? n) then Some (m, RErr 1, [])
    else if hnt =? 0 then Some (m, RErr 2, [])
    else
      let start := max_hint hnt (hint r) in
      let s0 := match sets r with Some s0 => s0 | None => mkCS RNotStarted None [] end in
      let l := cs_ntfns s0 ++ [mkCN id n false n] in
      match cs_rescan s0 with
      | RComplete =>
        let '(l1, ev, qa, ia) := dispatch_opt cu lim (cs_det s0) l in
        let ini1 := match cs_det s0 with
                    | Some (h, _) => if ia then tadd N.eqb r h ini else ini
                    | None => ini end in
        Some (mkMC cu rd lim (fupd nx r (id + 1))
                   (fupd sets r (Some (mkCS RComplete (cs_det s0) l1))) ini1
                   (tadd_all pair_eqb r qa q) hint, ROk None, tag r ev)
      | RPending =>
        Some (mkMC cu rd lim (fupd nx r (id + 1))
                   (fupd sets r (Some (mkCS RPending (cs_det s0) l))) ini q hint,
              ROk None, [])
      | RNotStarted =>
        if cu <? start then
          Some (mkMC cu rd lim (fupd nx r (id + 1))
                     (fupd sets r (Some (mkCS RComplete (cs_det s0) l))) ini q hint,
                ROk None, [])
        else
          Some (mkMC cu rd lim (fupd nx r (id + 1))
                     (fupd sets r (Some (mkCS RPending (cs_det s0) l))) ini q hint,
                ROk (Some (start, cu)), [])
      end
  | MCCancel r id =>
    match sets r with
    | None => Some (m, ROk None, [])
    | Some s0 =>
      match find_id id (cs_ntfns s0) with
      | None => Some (m, ROk None, [])
      | Some c =>
        (* delete(n.ntfnsByConfirmHeight[confHeight], ntfn): ONE entry *)
        let q1 := match cs_det s0 with
                  | Some (h, _) => tdel pair_eqb r (h + c_n c - 1, id) q
                  | None => q end in
        Some (mkMC cu rd lim nx
                   (fupd sets r (Some (mkCS (cs_rescan s0) (cs_det s0)
                                            (remove_id id (cs_ntfns s0)))))
                   ini q1 hint, ROk None, [])
      end
    end
  | MCUpd r a =>
    match sets r with
    | None => Some (m, RErr 3, [])
    | Some s0 =>
      match cs_det s0 with
      | Some _ => Some (m, ROk None, [])
      | None =>
        match a with
        | None =>
          Some (mkMC cu rd lim nx (fupd sets r (Some (mkCS RComplete None (cs_ntfns s0))))
                     ini q (fupd hint r (Some cu)), ROk None, [])
        | Some (h, b) =>
          if cu <? h then
            Some (mkMC cu rd lim nx (fupd sets r (Some (mkCS RComplete None (cs_ntfns s0))))
                       ini q hint, ROk None, [])
          else
            let '(l1, ev, qa, ia) := dispatch_all cu lim (h, b) (cs_ntfns s0) in
            Some (mkMC cu rd lim nx (fupd sets r (Some (mkCS RComplete (Some (h, b)) l1)))
                       (if (cu <? h + lim) || ia then tadd N.eqb r h ini else ini)
                       (tadd_all pair_eqb r qa q) (fupd hint r (Some h)),
                  ROk None, tag r ev)
        end
      end
    end
  | MCConnect height bid has =>
    if negb (height =? cu + 1) then Some (m, RErr 4, [])
    else
      (* filterTx / handleConfDetailsAtTip for every watched request in the block *)
      let hs := uniq has in
      let sets1 := fun r =>
        if mem r has && tip_fresh sets r then
          match sets r with
          | Some s0 => Some (mkCS RComplete (Some (height, bid)) (cs_ntfns s0))
          | None => None
          end
        else sets r in
      let ini1 := fold_left (fun acc r => if tip_fresh sets r then tadd N.eqb r height acc else acc)
                            hs ini in
      let q1 := fold_left
                  (fun acc r =>
                     if tip_fresh sets r then
                       match sets r with
                       | Some s0 => tadd_all pair_eqb r
                                      (map (fun c => (height + c_n c - 1, c_id c)) (cs_ntfns s0)) acc
                       | None => acc
                       end
                     else acc) hs q in
      (* updateHints: every unconfirmed request + confsByInitialHeight[height] *)
      let hint1 := fun r => upd_hint (sets1 r) (tproj r ini1) height height (hint r) in
      (* prune confsByInitialHeight[height - reorgSafetyLimit] *)
      if lim <=? height then
        let mature := uniq (bucket_reqs (height - lim) ini1) in
        if forallb (fun r => is_some (sets1 r)) mature then
          Some (mkMC height 0 lim nx (fun r => if mem r mature then None else sets1 r)
                     (drop_bucket (height - lim) ini1) q1 hint1,
                ROk None,
                flat_map (fun r => tag r (match sets1 r with
                                          | Some s2 => done_events (cs_ntfns s2)
                                          | None => [] end)) mature)
        else None                                   (* nil confSet dereference *)
      else Some (mkMC height 0 lim nx sets1 ini1 q1 hint1, ROk None, [])
  | MCNotify =>
    (* loop 1 ranges over the whole confsByInitialHeight, loop 2 over
       ntfnsByConfirmHeight[height]; then delete(ntfnsByConfirmHeight, height) *)
    let touched := uniq (map fst ini ++ qbucket_reqs cu q) in
    let body := fun r => mnotify_body cu (sets r) (tproj r ini) (tproj r q) in
    if forallb (fun r => is_some (body r)) touched then
      Some (mkMC cu rd lim nx
                 (fun r => if mem r touched then
                             match body r with Some (s', _) => s' | None => sets r end
                           else sets r)
                 ini (qdrop_bucket cu q) hint,
            ROk None,
            flat_map (fun r => tag r (match body r with Some (_, ev) => ev | None => [] end)) touched)
    else None
  | MCDisconnect height =>
    if negb (height =? cu) then Some (m, RErr 4, [])
    else
      let cu1 := cu - 1 in
      let rd1 := rd + 1 in
      let hint1 := fun r => upd_hint (sets r) (tproj r ini) height cu1 (hint r) in
      (* the loop ranges over the whole confsByInitialHeight *)
      let touched := uniq (map fst ini) in
      if forallb (fun r => is_some (sets r)) touched then
        let f := fun r => reorgN (tproj r ini) height rd1 in
        let sets1 := fun r =>
          if mem r touched then
            match sets r with
            | Some s0 =>
              Some (mkCS (cs_rescan s0)
                         (if mem height (tproj r ini) then None else cs_det s0)
                         (map (fun c => fst (fst (f r c))) (cs_ntfns s0)))
            | None => None
            end
          else sets r in
        (* dispatchConfReorg: delete(ntfnSet, ntfn) -- ONE entry per undispatched ntfn *)
        let dels := flat_map (fun r => tag r (match sets r with
                                              | Some s0 => flat_map (fun c => snd (f r c)) (cs_ntfns s0)
                                              | None => [] end)) touched in
        Some (mkMC cu1 rd1 lim nx sets1 (drop_bucket height ini) (tdel_list pair_eqb dels q) hint1,
              ROk None,
              flat_map (fun r => tag r (match sets r with
                                        | Some s0 => flat_map (fun c => snd (fst (f r c))) (cs_ntfns s0)
                                        | None => [] end)) touched)
      else None                                     (* nil confSet dereference *)
  end.

(* ================================================================== *)
(* Spend side                                                           *)

Record msstate := mkMS {
  ms_cur : N;
  ms_lim : N;
  ms_next : N -> N;
  ms_sets : N -> option ss;           (* spendNotifications *)
  ms_hs : list (N * N);               (* spendsByHeight: (req, height) *)
  ms_hint : N -> option N             (* spend hint cache *)
}.

Definition msevs := list (N * (N * sev)).

Definition init_ms (start lim : N) (h0 : N -> option N) : msstate :=
  mkMS start lim (fun _ => 0) (fun _ => None) [] h0.

Inductive msop :=
| MSReg (req id hnt : N)
| MSCancel (req id : N)
| MSUpd (req : N) (r : option (N * N))
| MSConnect (height : N) (sp : list (N * N))   (* (watched outpoint, tx spending it) in the block *)
| MSNotify
| MSDisconnect (height : N).

Fixpoint assoc (r : N) (l : list (N * N)) : option N :=
  match l with
  | [] => None
  | (k, v) :: t => if N.eqb k r then Some v else assoc r t
  end.

Definition sop_of (r : N) (o : msop) : option sop :=
  match o with
  | MSReg q id hnt => if N.eqb q r then Some (SReg id hnt) else None
  | MSCancel q id => if N.eqb q r then Some (SCancel id) else None
  | MSUpd q a => if N.eqb q r then Some (SUpd a) else None
  | MSConnect h sp => Some (SConnect h (assoc r sp))
  | MSNotify => Some SNotify
  | MSDisconnect h => Some (SDisconnect h)
  end.

Definition sproj (r : N) (m : msstate) : sstate :=
  mkS (ms_cur m) (ms_lim m) (ms_next m r) (ms_sets m r) (tproj r (ms_hs m)) (ms_hint m r).

Definition msstep (m : msstate) (o : msop) : option (msstate * res * msevs) :=
  let '(mkMS cu lim nx sets hs hint) := m in
  match o with
  | MSReg r id hnt =>
    if id <? nx r then Some (m, RErr 9, [])
    else if hnt =? 0 then Some (m, RErr 2, [])
    else
      let start := max_hint hnt (hint r) in
      let s0 := match sets r with Some s0 => s0 | None => mkSS RNotStarted None [] end in
      match ss_rescan s0 with
      | RComplete =>
        match ss_det s0 with
        | None =>
          Some (mkMS cu lim (fupd nx r (id + 1))
                     (fupd sets r (Some (mkSS RComplete None (ss_ntfns s0 ++ [mkSN id false]))))
                     hs hint, ROk None, [])
        | Some d =>
          let '(c1, ev, ia) := sdispatch1 cu lim d (mkSN id false) in
          Some (mkMS cu lim (fupd nx r (id + 1))
                     (fupd sets r (Some (mkSS RComplete (Some d) (ss_ntfns s0 ++ [c1]))))
                     (if ia then tadd N.eqb r (fst d) hs else hs) hint,
                ROk None, tag r ev)
        end
      | RPending =>
        Some (mkMS cu lim (fupd nx r (id + 1))
                   (fupd sets r (Some (mkSS RPending (ss_det s0) (ss_ntfns s0 ++ [mkSN id false]))))
                   hs hint, ROk None, [])
      | RNotStarted =>
        if cu <? start then
          Some (mkMS cu lim (fupd nx r (id + 1))
                     (fupd sets r (Some (mkSS RComplete (ss_det s0) (ss_ntfns s0 ++ [mkSN id false]))))
                     hs hint, ROk None, [])
        else
          Some (mkMS cu lim (fupd nx r (id + 1))
                     (fupd sets r (Some (mkSS RPending (ss_det s0) (ss_ntfns s0 ++ [mkSN id false]))))
                     hs hint, ROk (Some (start, cu)), [])
      end
  | MSCancel r id =>
    match sets r with
    | None => Some (m, ROk None, [])
    | Some s0 =>
      Some (mkMS cu lim nx
                 (fupd sets r (Some (mkSS (ss_rescan s0) (ss_det s0) (sremove_id id (ss_ntfns s0)))))
                 hs hint, ROk None, [])
    end
  | MSUpd r a =>
    match sets r with
    | None => Some (m, RErr 3, [])
    | Some s0 =>
      match ss_det s0 with
      | Some _ => Some (m, ROk None, [])
      | None =>
        match a with
        | None =>
          Some (mkMS cu lim nx (fupd sets r (Some (mkSS RComplete None (ss_ntfns s0)))) hs
                     (fupd hint r (Some cu)), ROk None, [])
        | Some (h, tx) =>
          if cu <? h then
            Some (mkMS cu lim nx (fupd sets r (Some (mkSS RComplete None (ss_ntfns s0)))) hs hint,
                  ROk None, [])
          else
            let '(l1, ev, ia) := sdispatch_all cu lim (h, tx) (ss_ntfns s0) in
            Some (mkMS cu lim nx (fupd sets r (Some (mkSS RComplete (Some (h, tx)) l1)))
                       (if (cu <? h + lim) || ia then tadd N.eqb r h hs else hs)
                       (fupd hint r (Some h)),
                  ROk None, tag r ev)
        end
      end
    end
  | MSConnect height sp =>
    if negb (height =? cu + 1) then Some (m, RErr 4, [])
    else
      (* filterTx / handleSpendDetailsAtTip (overwrites existing details) *)
      let sets1 := fun r =>
        match sets r, assoc r sp with
        | Some s0, Some tx => Some (mkSS RComplete (Some (height, tx)) (ss_ntfns s0))
        | _, _ => sets r
        end in
      let hs1 := fold_left (fun acc r => if is_some (sets r) then tadd N.eqb r height acc else acc)
                           (uniq (map fst sp)) hs in
      let hint1 := fun r => supd_hint (sets1 r) (tproj r hs1) height height (hint r) in
      if lim <=? height then
        let mature := uniq (bucket_reqs (height - lim) hs1) in
        if forallb (fun r => is_some (sets1 r)) mature then
          Some (mkMS height lim nx (fun r => if mem r mature then None else sets1 r)
                     (drop_bucket (height - lim) hs1) hint1,
                ROk None,
                flat_map (fun r => tag r (match sets1 r with
                                          | Some s2 => map (fun c => (s_id c, ESDone)) (ss_ntfns s2)
                                          | None => [] end)) mature)
        else None
      else Some (mkMS height lim nx sets1 hs1 hint1, ROk None, [])
  | MSNotify =>
    (* for spendRequest := range n.spendsByHeight[height] *)
    let touched := uniq (bucket_reqs cu hs) in
    if forallb (fun r => is_some (sets r)) touched then
      let body := fun r =>
        match sets r with
        | Some s0 =>
          match ss_det s0 with
          | Some d => Some (sdispatch_all cu lim d (ss_ntfns s0), d, s0)
          | None => None
          end
        | None => None
        end in
      Some (mkMS cu lim nx
                 (fun r => if mem r touched then
                             match body r with
                             | Some (l1, _, _, d, s0) => Some (mkSS (ss_rescan s0) (ss_det s0) l1)
                             | None => sets r
                             end
                           else sets r)
                 (fold_left (fun acc r => match body r with
                                          | Some (_, _, ia, d, _) =>
                                            if ia then tadd N.eqb r (fst d) acc else acc
                                          | None => acc end) touched hs)
                 hint,
            ROk None,
            flat_map (fun r => tag r (match body r with
                                      | Some (_, ev, _, _, _) => ev
                                      | None => [] end)) touched)
    else None
  | MSDisconnect height =>
    if negb (height =? cu) then Some (m, RErr 4, [])
    else
      let cu1 := cu - 1 in
      let hint1 := fun r => supd_hint (sets r) (tproj r hs) height cu1 (hint r) in
      (* for op := range n.spendsByHeight[blockHeight]; delete(n.spendsByHeight, blockHeight) *)
      let touched := uniq (bucket_reqs height hs) in
      if forallb (fun r => is_some (sets r)) touched then
        Some (mkMS cu1 lim nx
                   (fun r => if mem r touched then
                               match sets r with
                               | Some s0 => Some (mkSS (ss_rescan s0) None (fst (sreorg_all (ss_ntfns s0))))
                               | None => None
                               end
                             else sets r)
                   (drop_bucket height hs) hint1,
              ROk None,
              flat_map (fun r => tag r (match sets r with
                                        | Some s0 => snd (sreorg_all (ss_ntfns s0))
                                        | None => [] end)) touched)
      else None
  end.
