(* Specification layer for MULTI-REQUEST runs of TxNotifier (MModel.v): the
   world couples the multi-request model with the active chain (every block
   with ALL watched txs / spends it contains) and the log of all events of all
   clients of all requests.  The environment obligations are those of Spec.v,
   request by request, on the request's own view [cwproj r] / [swproj r] of the
   world.  Definitions only. *)
From Coq Require Import List NArith Bool.
From LV Require Import Notifier.Model Notifier.Spec Notifier.MModel.
Import ListNotations.
Local Open Scope N_scope.

(* ================================================================== *)
(* confirmations                                                        *)

Record mcworld := mkMCW {
  mcw_chain : list (N * (N * list N));   (* head = tip: (height, (block id, watched txs in it)) *)
  mcw_st : mcstate;
  mcw_pending : bool;
  mcw_high : N;
  mcw_log : mcevs
}.

Definition mcwstep (w : mcworld) (o : mcop) : option mcworld :=
  match mcstep (mcw_st w) o with
  | None => None
  | Some (st', r, ev) =>
    let ok := is_ok r in
    Some (mkMCW
      (match o with
       | MCConnect h b has => if ok then (h, (b, has)) :: mcw_chain w else mcw_chain w
       | MCDisconnect _ => if ok then tl (mcw_chain w) else mcw_chain w
       | _ => mcw_chain w end)
      st'
      (match o with
       | MCConnect _ _ _ => if ok then true else mcw_pending w
       | MCNotify => false
       | _ => mcw_pending w end)
      (match o with
       | MCConnect h _ _ => if ok then N.max h (mcw_high w) else mcw_high w
       | _ => mcw_high w end)
      (mcw_log w ++ ev))
  end.

(* the chain as seen for request r *)
Definition cchain_of (r : N) (ch : list (N * (N * list N))) : list (N * (N * bool)) :=
  map (fun e => (fst e, (fst (snd e), mem r (snd (snd e))))) ch.

(* the world as seen for request r *)
Definition cwproj (r : N) (w : mcworld) : cworld :=
  mkCW (cchain_of r (mcw_chain w)) (cproj r (mcw_st w)) (mcw_pending w) (mcw_high w)
       (tproj r (mcw_log w)).

(* environment obligations of a call: those of Spec.cvalid for every request
   the call concerns (every request for ConnectTip / NotifyHeight /
   DisconnectTip, the addressed request otherwise) *)
Definition mcvalid (w : mcworld) (o : mcop) : Prop :=
  forall r, match cop_of r o with
            | Some co => cvalid (cwproj r w) co
            | None => True
            end.

Definition mcinit (ch : list (N * (N * list N))) (start lim : N) (h0 : N -> option N) : mcworld :=
  mkMCW ch (init_mc start lim h0) false start [].

Inductive mcreach (w0 : mcworld) : mcworld -> Prop :=
| mcreach_init : mcreach w0 w0
| mcreach_step : forall w o w',
    mcreach w0 w -> mcvalid w o -> mcwstep w o = Some w' -> mcreach w0 w'.

Definition mcstart_ok (ch : list (N * (N * list N))) (start lim : N) (h0 : N -> option N) : Prop :=
  forall r, cstart_ok (cchain_of r ch) start lim (h0 r).

(* explicit valid runs (for the examples) *)
Fixpoint mcvrun (w : mcworld) (ops : list mcop) (w' : mcworld) : Prop :=
  match ops with
  | [] => w' = w
  | o :: r => mcvalid w o /\ exists w1, mcwstep w o = Some w1 /\ mcvrun w1 r w'
  end.

(* ================================================================== *)
(* spends                                                               *)

Record msworld := mkMSW {
  msw_chain : list (N * list (N * N));   (* (height, [(outpoint, spending tx)]) *)
  msw_st : msstate;
  msw_pending : bool;
  msw_high : N;
  msw_log : msevs
}.

Definition mswstep (w : msworld) (o : msop) : option msworld :=
  match msstep (msw_st w) o with
  | None => None
  | Some (st', r, ev) =>
    let ok := is_ok r in
    Some (mkMSW
      (match o with
       | MSConnect h sp => if ok then (h, sp) :: msw_chain w else msw_chain w
       | MSDisconnect _ => if ok then tl (msw_chain w) else msw_chain w
       | _ => msw_chain w end)
      st'
      (match o with
       | MSConnect _ _ => if ok then true else msw_pending w
       | MSNotify => false
       | _ => msw_pending w end)
      (match o with
       | MSConnect h _ => if ok then N.max h (msw_high w) else msw_high w
       | _ => msw_high w end)
      (msw_log w ++ ev))
  end.

Definition schain_of (r : N) (ch : list (N * list (N * N))) : list (N * option N) :=
  map (fun e => (fst e, assoc r (snd e))) ch.

Definition swproj (r : N) (w : msworld) : sworld :=
  mkSW (schain_of r (msw_chain w)) (sproj r (msw_st w)) (msw_pending w) (msw_high w)
       (tproj r (msw_log w)).

Definition msvalid (w : msworld) (o : msop) : Prop :=
  forall r, match sop_of r o with
            | Some so => svalid (swproj r w) so
            | None => True
            end.

Definition msinit (ch : list (N * list (N * N))) (start lim : N) (h0 : N -> option N) : msworld :=
  mkMSW ch (init_ms start lim h0) false start [].

Inductive msreach (w0 : msworld) : msworld -> Prop :=
| msreach_init : msreach w0 w0
| msreach_step : forall w o w',
    msreach w0 w -> msvalid w o -> mswstep w o = Some w' -> msreach w0 w'.

Definition msstart_ok (ch : list (N * list (N * N))) (start lim : N) (h0 : N -> option N) : Prop :=
  forall r, sstart_ok (schain_of r ch) start lim (h0 r).
