(* Lemmas and invariants for C14 (chainntnfs.TxNotifier model). *)
From Coq Require Import List NArith Bool Lia.
From LV Require Import Notifier.Model Notifier.Spec.
Import ListNotations.
Local Open Scope N_scope.

(* ------------------------------------------------------------------ *)
(* generic: sets as lists, event selection                              *)

Lemma mem_In x l : mem x l = true <-> In x l.
Proof.
  unfold mem. rewrite existsb_exists. split.
  - intros [y [Hy He]]. apply N.eqb_eq in He. subst. exact Hy.
  - intros H. exists x. split; auto. apply N.eqb_refl.
Qed.

Lemma mem_false x l : mem x l = false <-> ~ In x l.
Proof. rewrite <- mem_In. destruct (mem x l); split; intros; congruence. Qed.

Lemma In_add y x l : In y (add x l) <-> y = x \/ In y l.
Proof.
  unfold add. destruct (mem x l) eqn:E.
  - apply mem_In in E. split; intros; auto. destruct H; subst; auto.
  - simpl. split; intros [H|H]; auto.
Qed.

Lemma In_del y x l : In y (del x l) <-> y <> x /\ In y l.
Proof.
  unfold del. rewrite filter_In. split.
  - intros [H1 H2]. split; auto. intros ->. rewrite N.eqb_refl in H2. discriminate.
  - intros [H1 H2]. split; auto. apply negb_true_iff. apply N.eqb_neq. congruence.
Qed.

Lemma sel_app {E} id (a b : list (N * E)) : sel id (a ++ b) = sel id a ++ sel id b.
Proof. unfold sel. rewrite filter_app, map_app. reflexivity. Qed.

Lemma sel_other {E} id k (l : list (N * E)) :
  (forall e, In e l -> fst e = k) -> k <> id -> sel id l = [].
Proof.
  intros H Hk. unfold sel. induction l as [|a l IH]; simpl; auto.
  assert (fst a = k) by (apply H; left; auto).
  destruct (N.eqb_spec (fst a) id); [congruence|].
  apply IH. intros; apply H; right; auto.
Qed.

Lemma sel_same {E} id (l : list (N * E)) :
  (forall e, In e l -> fst e = id) -> sel id l = map snd l.
Proof.
  intros H. unfold sel. induction l as [|a l IH]; simpl; auto.
  assert (fst a = id) by (apply H; left; auto).
  destruct (N.eqb_spec (fst a) id); [|congruence].
  simpl. f_equal. apply IH. intros; apply H; right; auto.
Qed.

Lemma sel_flat_notin {T E} (key : T -> N) (g : T -> list (N * E)) l id :
  (forall c e, In c l -> In e (g c) -> fst e = key c) ->
  ~ In id (map key l) -> sel id (flat_map g l) = [].
Proof.
  induction l as [|a l IH]; simpl; intros Htag Hn; auto.
  rewrite sel_app, IH; [|intros; eapply Htag; eauto|tauto].
  rewrite app_nil_r. apply sel_other with (k := key a).
  - intros; apply Htag; auto.
  - intros Heq. apply Hn. left. exact Heq.
Qed.

Lemma sel_flat_in {T E} (key : T -> N) (g : T -> list (N * E)) l c :
  (forall c e, In c l -> In e (g c) -> fst e = key c) ->
  NoDup (map key l) -> In c l -> sel (key c) (flat_map g l) = map snd (g c).
Proof.
  induction l as [|a l IH]; simpl; intros Htag Hnd Hin; [tauto|].
  inversion Hnd as [|? ? Hna Hnd']; subst. rewrite sel_app.
  destruct Hin as [->|Hin].
  - rewrite (sel_flat_notin key g l (key c)); auto.
    rewrite app_nil_r. apply sel_same. intros; apply Htag; auto.
  - rewrite (sel_other (key c) (key a) (g a)).
    + simpl. apply IH; auto.
    + intros; apply Htag; auto.
    + intros Heq. apply Hna. rewrite Heq. apply in_map. exact Hin.
Qed.

Lemma in_log_flat {T E} (key : T -> N) (g : T -> list (N * E)) l id e :
  (forall c e, In c l -> In e (g c) -> fst e = key c) ->
  In (id, e) (flat_map g l) -> exists c, In c l /\ key c = id.
Proof.
  intros Htag H. apply in_flat_map in H. destruct H as [c [Hc He]].
  exists c. split; auto. apply Htag in He; auto.
Qed.

Lemma chain_ok_le {A} cu (ch : list (N * A)) :
  chain_ok cu ch -> forall h x, In (h, x) ch -> h <= cu.
Proof.
  revert cu. induction ch as [|[h0 x0] r IH]; simpl; intros cu Hok h x Hin; [tauto|].
  destruct Hok as [-> [Hpos Hr]]. destruct Hin as [Heq|Hin].
  - inversion Heq; subst. lia.
  - specialize (IH _ Hr _ _ Hin). lia.
Qed.

(* ================================================================== *)
(* spends                                                               *)

Lemma spos_In ch h t : spos ch = Some (h, t) -> In (h, Some t) ch.
Proof.
  induction ch as [|[h0 [t0|]] r IH]; simpl; intros H; try discriminate.
  - inversion H; subst. auto.
  - auto.
Qed.

Lemma spos_le cu ch h t : chain_ok cu ch -> spos ch = Some (h, t) -> h <= cu.
Proof. intros Hok H. eapply chain_ok_le; eauto using spos_In. Qed.

Lemma slstate_app id log ev :
  slstate id (log ++ ev) = fold_left slstep (sel id ev) (slstate id log).
Proof. unfold slstate. rewrite sel_app, fold_left_app. reflexivity. Qed.

Lemma slstate_nil id log ev : sel id ev = [] -> slstate id (log ++ ev) = slstate id log.
Proof. intros H. rewrite slstate_app, H. reflexivity. Qed.

(* per-ntfn facts about the dispatch helpers *)
Lemma sdispatch1_id cu lim d c : s_id (fst (fst (sdispatch1 cu lim d c))) = s_id c.
Proof. unfold sdispatch1. destruct (s_disp c); reflexivity. Qed.

Lemma sdispatch1_disp cu lim d c : s_disp (fst (fst (sdispatch1 cu lim d c))) = true.
Proof. unfold sdispatch1. destruct (s_disp c) eqn:E; simpl; auto. Qed.

Lemma sdispatch1_tag cu lim d c e :
  In e (snd (fst (sdispatch1 cu lim d c))) -> fst e = s_id c.
Proof.
  unfold sdispatch1. destruct (s_disp c); simpl; [tauto|]. intros [<-|[]]. reflexivity.
Qed.

Lemma sreorg1_id c : s_id (fst (sreorg1 c)) = s_id c.
Proof. unfold sreorg1. destruct (s_disp c); reflexivity. Qed.

Lemma sreorg1_disp c : s_disp (fst (sreorg1 c)) = false.
Proof. unfold sreorg1. destruct (s_disp c) eqn:E; simpl; auto. Qed.

Lemma sreorg1_tag c e : In e (snd (sreorg1 c)) -> fst e = s_id c.
Proof. unfold sreorg1. destruct (s_disp c); simpl; [|tauto]. intros [<-|[]]. reflexivity. Qed.

Lemma map_id_map {T} (key : T -> N) (f : T -> T) l :
  (forall c, key (f c) = key c) -> map key (map f l) = map key l.
Proof. intros H. rewrite map_map. apply map_ext. exact H. Qed.

Lemma sremove_In c i l : In c (sremove_id i l) <-> In c l /\ s_id c <> i.
Proof.
  unfold sremove_id. rewrite filter_In. split; intros [H1 H2]; split; auto.
  - intros <-. rewrite N.eqb_refl in H2. discriminate.
  - apply negb_true_iff, N.eqb_neq. congruence.
Qed.

Lemma NoDup_map_filter {T} (key : T -> N) (p : T -> bool) l :
  NoDup (map key l) -> NoDup (map key (filter p l)).
Proof.
  induction l as [|a l IH]; simpl; intros H; auto.
  inversion H; subst. destruct (p a); simpl; auto.
  constructor; auto. intros Hin. apply H2.
  apply in_map_iff in Hin. destruct Hin as [x [Hx Hin]]. apply filter_In in Hin.
  rewrite <- Hx. apply in_map. tauto.
Qed.

(* ---- log bookkeeping for bulk updates of the ntfn list ---- *)

Definition stold (c : sntfn) (det : option (N * N)) : option (option (N * N)) :=
  Some (if s_disp c then det else None).

Lemma sbulk_flag (l : list sntfn) (log : sevs) det det' f g :
  NoDup (map s_id l) ->
  (forall c, s_id (f c) = s_id c) ->
  (forall c e, In c l -> In e (g c) -> fst e = s_id c) ->
  (forall c, In c l -> slstate (s_id c) log = stold c det) ->
  (forall c, In c l -> fold_left slstep (map snd (g c)) (stold c det) = stold (f c) det') ->
  forall c', In c' (map f l) -> slstate (s_id c') (log ++ flat_map g l) = stold c' det'.
Proof.
  intros Hnd Hid Htag Hold Hnew c' Hin.
  apply in_map_iff in Hin. destruct Hin as [c [<- Hc]].
  rewrite Hid, slstate_app, (sel_flat_in s_id g l c), Hold; auto.
Qed.

Lemma sbulk_ok (l : list sntfn) (log : sevs) det det' f g :
  NoDup (map s_id l) ->
  (forall c, s_id (f c) = s_id c) ->
  (forall c e, In c l -> In e (g c) -> fst e = s_id c) ->
  (forall c, In c l -> slstate (s_id c) log = stold c det) ->
  (forall c, In c l -> fold_left slstep (map snd (g c)) (stold c det) = stold (f c) det') ->
  (forall id, slstate id log <> None) ->
  forall id, slstate id (log ++ flat_map g l) <> None.
Proof.
  intros Hnd Hid Htag Hold Hnew Hok id.
  destruct (in_dec N.eq_dec id (map s_id l)) as [Hin|Hin].
  - apply in_map_iff in Hin. destruct Hin as [c [<- Hc]].
    rewrite <- (Hid c).
    rewrite (sbulk_flag l log det det' f g Hnd Hid Htag Hold Hnew (f c)).
    + discriminate.
    + apply in_map. exact Hc.
  - rewrite slstate_nil; auto. apply sel_flat_notin with (key := s_id); auto.
Qed.

Lemma sfresh_state id log nid :
  (forall i e, In (i, e) log -> i < nid) -> nid <= id -> slstate id log = Some None.
Proof.
  intros Hf Hle. unfold slstate.
  assert (sel id log = []) as ->; auto.
  unfold sel. induction log as [|[i e] log IH]; simpl; auto.
  destruct (N.eqb_spec i id).
  - subst. specialize (Hf id e (or_introl eq_refl)). lia.
  - apply IH. intros; eapply Hf; right; eauto.
Qed.

Record SInv (w : sworld) : Prop := {
  si_chain : chain_ok (scur (sw_st w)) (sw_chain w);
  si_uniq : suniq (sw_chain w);
  si_high : scur (sw_st w) <= sw_high w;
  si_lim : 1 <= slimit (sw_st w);
  si_det : forall s h t, sset (sw_st w) = Some s -> ss_det s = Some (h, t) ->
           spos (sw_chain w) = Some (h, t) /\ ss_rescan s = RComplete;
  si_nodet : forall s, sset (sw_st w) = Some s -> ss_det s = None ->
             ss_rescan s = RComplete -> spos (sw_chain w) = None;
  si_track : forall s h t, sset (sw_st w) = Some s -> ss_det s = Some (h, t) ->
             sw_high w < h + slimit (sw_st w) -> In h (sheights (sw_st w));
  si_heights : forall x, In x (sheights (sw_st w)) ->
               exists s t, sset (sw_st w) = Some s /\ ss_det s = Some (x, t);
  si_nodisp : forall s c, sset (sw_st w) = Some s -> ss_det s = None ->
              In c (ss_ntfns s) -> s_disp c = false;
  si_hint : forall x h t, shint (sw_st w) = Some x -> spos (sw_chain w) = Some (h, t) -> x <= h
}.

(* ---- tactics ---- *)
Ltac inv_some := repeat match goal with H : Some _ = Some _ |- _ => inversion H; subst; clear H end.
Ltac slv := intros; inv_some; simpl in *; eauto; try congruence; try lia.
Ltac use_inv := match goal with H : forall _, _ |- _ => solve [eapply H; eauto; tauto] end.
Ltac hts := match goal with H : In ?x ?l, I : forall x, In x ?l -> exists _ _, _ |- _ =>
  let s := fresh "s" in let t := fresh "t" in let Hs := fresh "Hs" in let Hd := fresh "Hd" in
  destruct (I x H) as [s [t [Hs Hd]]]; try discriminate; inv_some; simpl in *;
  repeat match goal with
  | H1 : ?a = Some _, H2 : ?a = Some _ |- _ => rewrite H1 in H2; inversion H2; subst; clear H2
  | H1 : ?a = Some _, H2 : ?a = None |- _ => congruence
  end; eauto end.
Ltac exs := do 2 eexists; split; [reflexivity|simpl; eauto; congruence].
Ltac prep := repeat match goal with
  | H : In _ (sremove_id _ _) |- _ => apply sremove_In in H; destruct H
  | H : In _ (add _ _) |- _ => apply In_add in H
  | H : In _ (del _ _) |- _ => apply In_del in H; destruct H
  end.

Lemma max_hint_le hnt hn h :
  hnt <= h -> (forall x, hn = Some x -> x <= h) -> max_hint hnt hn <= h.
Proof.
  intros H1 H2. unfold max_hint. destruct hn as [x|]; auto.
  destruct (hnt <? x); auto.
Qed.

Lemma stold_false c d : s_disp c = false -> stold c d = Some None.
Proof. unfold stold. intros ->. reflexivity. Qed.

Lemma slstate_done id log ev :
  (forall e, In e ev -> snd e = ESDone) -> slstate id (log ++ ev) = slstate id log.
Proof.
  intros H. rewrite slstate_app.
  assert (forall e, In e (sel id ev) -> e = ESDone) as Hs.
  { unfold sel. intros e He. apply in_map_iff in He. destruct He as [x [<- Hx]].
    apply filter_In in Hx. apply H. tauto. }
  revert Hs. generalize (sel id ev) (slstate id log). intros l. induction l as [|a l IH]; simpl; auto.
  intros s Hs. rewrite IH; [|intros; apply Hs; auto].
  rewrite (Hs a (or_introl eq_refl)). destruct s; reflexivity.
Qed.

(* registering a fresh client *)
Lemma sreg_flag (l : list sntfn) log nid id c1 ev det :
  (forall c, In c l -> s_id c < nid) -> nid <= id ->
  (forall i e, In (i, e) log -> i < nid) ->
  s_id c1 = id -> (forall e, In e ev -> fst e = id) ->
  fold_left slstep (map snd ev) (Some None) = stold c1 det ->
  (forall c, In c l -> slstate (s_id c) log = stold c det) ->
  forall c, In c (l ++ [c1]) -> slstate (s_id c) (log ++ ev) = stold c det.
Proof.
  intros Hlt Hle Hf Hid Htag Hfold Hold c Hin.
  apply in_app_iff in Hin. destruct Hin as [Hin|[<-|[]]].
  - rewrite slstate_nil; auto. apply sel_other with (k := id); auto.
    specialize (Hlt c Hin). lia.
  - rewrite slstate_app, Hid, (sfresh_state id log nid), sel_same; auto.
Qed.

Lemma sreg_ok log nid id ev x :
  nid <= id -> (forall i e, In (i, e) log -> i < nid) ->
  (forall e, In e ev -> fst e = id) ->
  fold_left slstep (map snd ev) (Some None) = Some x ->
  (forall i, slstate i log <> None) ->
  forall i, slstate i (log ++ ev) <> None.
Proof.
  intros Hle Hf Htag Hfold Hok i. destruct (N.eq_dec i id) as [->|Hne].
  - rewrite slstate_app, (sfresh_state id log nid), sel_same, Hfold; auto. discriminate.
  - rewrite slstate_nil; auto. apply sel_other with (k := id); auto.
Qed.

Lemma sreg_nodup (l : list sntfn) nid id c1 :
  NoDup (map s_id l) -> (forall c, In c l -> s_id c < nid) -> nid <= id -> s_id c1 = id ->
  NoDup (map s_id (l ++ [c1])) /\ forall c, In c (l ++ [c1]) -> s_id c < id + 1.
Proof.
  intros Hnd Hlt Hle Hid. split.
  - rewrite map_app. simpl.
    replace (map s_id l ++ [s_id c1]) with (rev (s_id c1 :: rev (map s_id l))).
    + apply NoDup_rev. constructor.
      * rewrite <- in_rev. intros Hin. apply in_map_iff in Hin. destruct Hin as [c [Hc Hin]].
        specialize (Hlt c Hin). lia.
      * apply NoDup_rev. exact Hnd.
    + simpl. rewrite rev_involutive. reflexivity.
  - intros c Hin. apply in_app_iff in Hin. destruct Hin as [Hin|[<-|[]]].
    + specialize (Hlt c Hin). lia.
    + lia.
Qed.
