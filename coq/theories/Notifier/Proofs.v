(* Lemmas and invariants for C14 (chainntnfs.TxNotifier model). *)
From Coq Require Import List NArith Bool Lia.
From LV Require Import Notifier.Model Notifier.Spec.
Import ListNotations.
Local Open Scope N_scope.

(* ------------------------------------------------------------------ *)
(* generic: sets as lists, event selection                              *)

Lemma mem_In x l : mem x l = true <-> In x l.
Proof.
  unfold mem. rewrite existsb_exists. split.
  - intros [y [Hy He]]. apply N.eqb_eq in He. subst. exact Hy.
  - intros H. exists x. split; auto. apply N.eqb_refl.
Qed.

Lemma mem_false x l : mem x l = false <-> ~ In x l.
Proof. rewrite <- mem_In. destruct (mem x l); split; intros; congruence. Qed.

Lemma In_add y x l : In y (add x l) <-> y = x \/ In y l.
Proof.
  unfold add. destruct (mem x l) eqn:E.
  - apply mem_In in E. split; intros; auto. destruct H; subst; auto.
  - simpl. split; intros [H|H]; auto.
Qed.

Lemma In_del y x l : In y (del x l) <-> y <> x /\ In y l.
Proof.
  unfold del. rewrite filter_In. split.
  - intros [H1 H2]. split; auto. intros ->. rewrite N.eqb_refl in H2. discriminate.
  - intros [H1 H2]. split; auto. apply negb_true_iff. apply N.eqb_neq. congruence.
Qed.

Lemma sel_app {E} id (a b : list (N * E)) : sel id (a ++ b) = sel id a ++ sel id b.
Proof. unfold sel. rewrite filter_app, map_app. reflexivity. Qed.

Lemma sel_other {E} id k (l : list (N * E)) :
  (forall e, In e l -> fst e = k) -> k <> id -> sel id l = [].
Proof.
  intros H Hk. unfold sel. induction l as [|a l IH]; simpl; auto.
  assert (fst a = k) by (apply H; left; auto).
  destruct (N.eqb_spec (fst a) id); [congruence|].
  apply IH. intros; apply H; right; auto.
Qed.

Lemma sel_same {E} id (l : list (N * E)) :
  (forall e, In e l -> fst e = id) -> sel id l = map snd l.
Proof.
  intros H. unfold sel. induction l as [|a l IH]; simpl; auto.
  assert (fst a = id) by (apply H; left; auto).
  destruct (N.eqb_spec (fst a) id); [|congruence].
  simpl. f_equal. apply IH. intros; apply H; right; auto.
Qed.

Lemma sel_flat_notin {T E} (key : T -> N) (g : T -> list (N * E)) l id :
  (forall c e, In c l -> In e (g c) -> fst e = key c) ->
  ~ In id (map key l) -> sel id (flat_map g l) = [].
Proof.
  induction l as [|a l IH]; simpl; intros Htag Hn; auto.
  rewrite sel_app, IH; [|intros; eapply Htag; eauto|tauto].
  rewrite app_nil_r. apply sel_other with (k := key a).
  - intros; apply Htag; auto.
  - intros Heq. apply Hn. left. exact Heq.
Qed.

Lemma sel_flat_in {T E} (key : T -> N) (g : T -> list (N * E)) l c :
  (forall c e, In c l -> In e (g c) -> fst e = key c) ->
  NoDup (map key l) -> In c l -> sel (key c) (flat_map g l) = map snd (g c).
Proof.
  induction l as [|a l IH]; simpl; intros Htag Hnd Hin; [tauto|].
  inversion Hnd as [|? ? Hna Hnd']; subst. rewrite sel_app.
  destruct Hin as [->|Hin].
  - rewrite (sel_flat_notin key g l (key c)); auto.
    rewrite app_nil_r. apply sel_same. intros; apply Htag; auto.
  - rewrite (sel_other (key c) (key a) (g a)).
    + simpl. apply IH; auto.
    + intros; apply Htag; auto.
    + intros Heq. apply Hna. rewrite Heq. apply in_map. exact Hin.
Qed.

Lemma in_log_flat {T E} (key : T -> N) (g : T -> list (N * E)) l id e :
  (forall c e, In c l -> In e (g c) -> fst e = key c) ->
  In (id, e) (flat_map g l) -> exists c, In c l /\ key c = id.
Proof.
  intros Htag H. apply in_flat_map in H. destruct H as [c [Hc He]].
  exists c. split; auto. apply Htag in He; auto.
Qed.

Lemma chain_ok_le {A} cu (ch : list (N * A)) :
  chain_ok cu ch -> forall h x, In (h, x) ch -> h <= cu.
Proof.
  revert cu. induction ch as [|[h0 x0] r IH]; simpl; intros cu Hok h x Hin; [tauto|].
  destruct Hok as [-> [Hpos Hr]]. destruct Hin as [Heq|Hin].
  - inversion Heq; subst. lia.
  - specialize (IH _ Hr _ _ Hin). lia.
Qed.

(* ================================================================== *)
(* spends                                                               *)

Lemma spos_In ch h t : spos ch = Some (h, t) -> In (h, Some t) ch.
Proof.
  induction ch as [|[h0 [t0|]] r IH]; simpl; intros H; try discriminate.
  - inversion H; subst. auto.
  - auto.
Qed.

Lemma spos_le cu ch h t : chain_ok cu ch -> spos ch = Some (h, t) -> h <= cu.
Proof. intros Hok H. eapply chain_ok_le; eauto using spos_In. Qed.

Lemma slstate_app id log ev :
  slstate id (log ++ ev) = fold_left slstep (sel id ev) (slstate id log).
Proof. unfold slstate. rewrite sel_app, fold_left_app. reflexivity. Qed.

Lemma slstate_nil id log ev : sel id ev = [] -> slstate id (log ++ ev) = slstate id log.
Proof. intros H. rewrite slstate_app, H. reflexivity. Qed.

(* per-ntfn facts about the dispatch helpers *)
Lemma sdispatch1_id cu lim d c : s_id (fst (fst (sdispatch1 cu lim d c))) = s_id c.
Proof. unfold sdispatch1. destruct (s_disp c); reflexivity. Qed.

Lemma sdispatch1_disp cu lim d c : s_disp (fst (fst (sdispatch1 cu lim d c))) = true.
Proof. unfold sdispatch1. destruct (s_disp c) eqn:E; simpl; auto. Qed.

Lemma sdispatch1_tag cu lim d c e :
  In e (snd (fst (sdispatch1 cu lim d c))) -> fst e = s_id c.
Proof.
  unfold sdispatch1. destruct (s_disp c); simpl; [tauto|]. intros [<-|[]]. reflexivity.
Qed.

Lemma sreorg1_id c : s_id (fst (sreorg1 c)) = s_id c.
Proof. unfold sreorg1. destruct (s_disp c); reflexivity. Qed.

Lemma sreorg1_disp c : s_disp (fst (sreorg1 c)) = false.
Proof. unfold sreorg1. destruct (s_disp c) eqn:E; simpl; auto. Qed.

Lemma sreorg1_tag c e : In e (snd (sreorg1 c)) -> fst e = s_id c.
Proof. unfold sreorg1. destruct (s_disp c); simpl; [|tauto]. intros [<-|[]]. reflexivity. Qed.

Lemma map_id_map {T} (key : T -> N) (f : T -> T) l :
  (forall c, key (f c) = key c) -> map key (map f l) = map key l.
Proof. intros H. rewrite map_map. apply map_ext. exact H. Qed.

Lemma sremove_In c i l : In c (sremove_id i l) <-> In c l /\ s_id c <> i.
Proof.
  unfold sremove_id. rewrite filter_In. split; intros [H1 H2]; split; auto.
  - intros <-. rewrite N.eqb_refl in H2. discriminate.
  - apply negb_true_iff, N.eqb_neq. congruence.
Qed.

Lemma NoDup_map_filter {T} (key : T -> N) (p : T -> bool) l :
  NoDup (map key l) -> NoDup (map key (filter p l)).
Proof.
  induction l as [|a l IH]; simpl; intros H; auto.
  inversion H; subst. destruct (p a); simpl; auto.
  constructor; auto. intros Hin. apply H2.
  apply in_map_iff in Hin. destruct Hin as [x [Hx Hin]]. apply filter_In in Hin.
  rewrite <- Hx. apply in_map. tauto.
Qed.

(* ---- log bookkeeping for bulk updates of the ntfn list ---- *)

Definition stold (c : sntfn) (det : option (N * N)) : option (option (N * N)) :=
  Some (if s_disp c then det else None).

Lemma sbulk_flag (l : list sntfn) (log : sevs) det det' f g :
  NoDup (map s_id l) ->
  (forall c, s_id (f c) = s_id c) ->
  (forall c e, In c l -> In e (g c) -> fst e = s_id c) ->
  (forall c, In c l -> slstate (s_id c) log = stold c det) ->
  (forall c, In c l -> fold_left slstep (map snd (g c)) (stold c det) = stold (f c) det') ->
  forall c', In c' (map f l) -> slstate (s_id c') (log ++ flat_map g l) = stold c' det'.
Proof.
  intros Hnd Hid Htag Hold Hnew c' Hin.
  apply in_map_iff in Hin. destruct Hin as [c [<- Hc]].
  rewrite Hid, slstate_app, (sel_flat_in s_id g l c), Hold; auto.
Qed.

Lemma sbulk_ok (l : list sntfn) (log : sevs) det det' f g :
  NoDup (map s_id l) ->
  (forall c, s_id (f c) = s_id c) ->
  (forall c e, In c l -> In e (g c) -> fst e = s_id c) ->
  (forall c, In c l -> slstate (s_id c) log = stold c det) ->
  (forall c, In c l -> fold_left slstep (map snd (g c)) (stold c det) = stold (f c) det') ->
  (forall id, slstate id log <> None) ->
  forall id, slstate id (log ++ flat_map g l) <> None.
Proof.
  intros Hnd Hid Htag Hold Hnew Hok id.
  destruct (in_dec N.eq_dec id (map s_id l)) as [Hin|Hin].
  - apply in_map_iff in Hin. destruct Hin as [c [<- Hc]].
    rewrite <- (Hid c).
    rewrite (sbulk_flag l log det det' f g Hnd Hid Htag Hold Hnew (f c)).
    + discriminate.
    + apply in_map. exact Hc.
  - rewrite slstate_nil; auto. apply sel_flat_notin with (key := s_id); auto.
Qed.

Lemma sfresh_state id log nid :
  (forall i e, In (i, e) log -> i < nid) -> nid <= id -> slstate id log = Some None.
Proof.
  intros Hf Hle. unfold slstate.
  assert (sel id log = []) as ->; auto.
  unfold sel. induction log as [|[i e] log IH]; simpl; auto.
  destruct (N.eqb_spec i id).
  - subst. specialize (Hf id e (or_introl eq_refl)). lia.
  - apply IH. intros; eapply Hf; right; eauto.
Qed.

Record SInv (w : sworld) : Prop := {
  si_chain : chain_ok (scur (sw_st w)) (sw_chain w);
  si_uniq : suniq (sw_chain w);
  si_high : scur (sw_st w) <= sw_high w;
  si_lim : 1 <= slimit (sw_st w);
  si_det : forall s h t, sset (sw_st w) = Some s -> ss_det s = Some (h, t) ->
           spos (sw_chain w) = Some (h, t) /\ ss_rescan s = RComplete;
  si_nodet : forall s, sset (sw_st w) = Some s -> ss_det s = None ->
             ss_rescan s = RComplete -> spos (sw_chain w) = None;
  si_track : forall s h t, sset (sw_st w) = Some s -> ss_det s = Some (h, t) ->
             sw_high w < h + slimit (sw_st w) -> In h (sheights (sw_st w));
  si_heights : forall x, In x (sheights (sw_st w)) ->
               exists s t, sset (sw_st w) = Some s /\ ss_det s = Some (x, t);
  si_nodisp : forall s c, sset (sw_st w) = Some s -> ss_det s = None ->
              In c (ss_ntfns s) -> s_disp c = false;
  si_hint : forall x h t, shint (sw_st w) = Some x -> spos (sw_chain w) = Some (h, t) -> x <= h
}.

(* ---- tactics ---- *)
Ltac inv_some := repeat match goal with H : Some _ = Some _ |- _ => inversion H; subst; clear H end.
Ltac slv := intros; inv_some; simpl in *; eauto; try congruence; try lia.
Ltac use_inv := match goal with H : forall _, _ |- _ => solve [eapply H; eauto; tauto] end.
Ltac hts := match goal with H : In ?x ?l, I : forall x, In x ?l -> exists _ _, _ |- _ =>
  let s := fresh "s" in let t := fresh "t" in let Hs := fresh "Hs" in let Hd := fresh "Hd" in
  destruct (I x H) as [s [t [Hs Hd]]]; try discriminate; inv_some; simpl in *;
  repeat match goal with
  | H1 : ?a = Some _, H2 : ?a = Some _ |- _ => rewrite H1 in H2; inversion H2; subst; clear H2
  | H1 : ?a = Some _, H2 : ?a = None |- _ => congruence
  end; eauto end.
Ltac exs := do 2 eexists; split; [reflexivity|simpl; eauto; congruence].
Ltac prep := repeat match goal with
  | H : In _ (sremove_id _ _) |- _ => apply sremove_In in H; destruct H
  | H : In _ (add _ _) |- _ => apply In_add in H
  | H : In _ (del _ _) |- _ => apply In_del in H; destruct H
  end.

Lemma max_hint_le hnt hn h :
  hnt <= h -> (forall x, hn = Some x -> x <= h) -> max_hint hnt hn <= h.
Proof.
  intros H1 H2. unfold max_hint. destruct hn as [x|]; auto.
  destruct (hnt <? x); auto.
Qed.

Lemma stold_false c d : s_disp c = false -> stold c d = Some None.
Proof. unfold stold. intros ->. reflexivity. Qed.

Lemma slstate_done id log ev :
  (forall e, In e ev -> snd e = ESDone) -> slstate id (log ++ ev) = slstate id log.
Proof.
  intros H. rewrite slstate_app.
  assert (forall e, In e (sel id ev) -> e = ESDone) as Hs.
  { unfold sel. intros e He. apply in_map_iff in He. destruct He as [x [<- Hx]].
    apply filter_In in Hx. apply H. tauto. }
  revert Hs. generalize (sel id ev) (slstate id log). intros l. induction l as [|a l IH]; simpl; auto.
  intros s Hs. rewrite IH; [|intros; apply Hs; auto].
  rewrite (Hs a (or_introl eq_refl)). destruct s; reflexivity.
Qed.

(* registering a fresh client *)
Lemma sreg_flag (l : list sntfn) log nid id c1 ev det :
  (forall c, In c l -> s_id c < nid) -> nid <= id ->
  (forall i e, In (i, e) log -> i < nid) ->
  s_id c1 = id -> (forall e, In e ev -> fst e = id) ->
  fold_left slstep (map snd ev) (Some None) = stold c1 det ->
  (forall c, In c l -> slstate (s_id c) log = stold c det) ->
  forall c, In c (l ++ [c1]) -> slstate (s_id c) (log ++ ev) = stold c det.
Proof.
  intros Hlt Hle Hf Hid Htag Hfold Hold c Hin.
  apply in_app_iff in Hin. destruct Hin as [Hin|[<-|[]]].
  - rewrite slstate_nil; auto. apply sel_other with (k := id); auto.
    specialize (Hlt c Hin). lia.
  - rewrite slstate_app, Hid, (sfresh_state id log nid), sel_same; auto.
Qed.

Lemma sreg_ok log nid id ev x :
  nid <= id -> (forall i e, In (i, e) log -> i < nid) ->
  (forall e, In e ev -> fst e = id) ->
  fold_left slstep (map snd ev) (Some None) = Some x ->
  (forall i, slstate i log <> None) ->
  forall i, slstate i (log ++ ev) <> None.
Proof.
  intros Hle Hf Htag Hfold Hok i. destruct (N.eq_dec i id) as [->|Hne].
  - rewrite slstate_app, (sfresh_state id log nid), sel_same, Hfold; auto. discriminate.
  - rewrite slstate_nil; auto. apply sel_other with (k := id); auto.
Qed.

Lemma sreg_nodup (l : list sntfn) nid id c1 :
  NoDup (map s_id l) -> (forall c, In c l -> s_id c < nid) -> nid <= id -> s_id c1 = id ->
  NoDup (map s_id (l ++ [c1])) /\ forall c, In c (l ++ [c1]) -> s_id c < id + 1.
Proof.
  intros Hnd Hlt Hle Hid. split.
  - rewrite map_app. simpl.
    replace (map s_id l ++ [s_id c1]) with (rev (s_id c1 :: rev (map s_id l))).
    + apply NoDup_rev. constructor.
      * rewrite <- in_rev. intros Hin. apply in_map_iff in Hin. destruct Hin as [c [Hc Hin]].
        specialize (Hlt c Hin). lia.
      * apply NoDup_rev. exact Hnd.
    + simpl. rewrite rev_involutive. reflexivity.
  - intros c Hin. apply in_app_iff in Hin. destruct Hin as [Hin|[<-|[]]].
    + specialize (Hlt c Hin). lia.
    + lia.
Qed.

(* ---- preservation of SInv, one lemma per TxNotifier call ---- *)

Lemma sinv_nil w : SInv w -> SInv (mkSW (sw_chain w) (sw_st w) (sw_pending w) (sw_high w) (sw_log w ++ [])).
Proof. rewrite app_nil_r. destruct w; auto. Qed.

Lemma sinv_log ch st pend high log log' pend' : SInv (mkSW ch st pend high log) -> SInv (mkSW ch st pend' high log').
Proof. intros [A B C D E F G H I J]. constructor; auto. Qed.

Lemma sinv_reg ch cu lim nid s hs hn pend high log id hnt st' r ev :
  SInv (mkSW ch (mkS cu lim nid s hs hn) pend high log) ->
  svalid (mkSW ch (mkS cu lim nid s hs hn) pend high log) (SReg id hnt) ->
  sstep (mkS cu lim nid s hs hn) (SReg id hnt) = Some (st', r, ev) ->
  SInv (mkSW ch st' pend high (log ++ ev)).
Proof.
  intros I V E. simpl in E, V.
  destruct (id <? nid) eqn:Eid; [inversion E; subst; eapply sinv_log; eauto|].
  destruct (hnt =? 0) eqn:Eh; [inversion E; subst; eapply sinv_log; eauto|].
  destruct I as [Ichain Iuniq Ihigh Ilim Idet Inodet Itrack Iheights Inodisp Ihint].
  simpl in *.
  assert (Hstart : forall h t, spos ch = Some (h, t) -> max_hint hnt hn <= h).
  { intros h t Hp. apply max_hint_le; eauto. }
  assert (Hnone : cu <? max_hint hnt hn = true -> spos ch = None).
  { intros Ec. destruct (spos ch) as [[h t]|] eqn:Ep; auto; exfalso.
    specialize (Hstart h t eq_refl). pose proof (spos_le _ _ _ _ Ichain Ep). apply N.ltb_lt in Ec. lia. }
  destruct s as [s0|].
  - destruct (ss_rescan s0) eqn:Er; simpl in E.
    + destruct (cu <? max_hint hnt hn) eqn:Ec; inversion E; subst; clear E;
        (constructor; simpl; auto; slv; prep; try use_inv; try hts).
      all: try (destruct (Idet s0 h t eq_refl H0); congruence).
      all: try (apply in_app_iff in H1; destruct H1 as [H1|[<-|[]]]; simpl; eauto).
    + inversion E; subst; clear E; (constructor; simpl; auto; slv; prep; try use_inv; try hts).
      all: try (destruct (Idet s0 h t eq_refl H0); congruence).
      all: try (apply in_app_iff in H1; destruct H1 as [H1|[<-|[]]]; simpl; eauto).
    + destruct (ss_det s0) as [d|] eqn:Ed.
      * destruct d as [dh dt]. unfold sdispatch1 in E. simpl in E. inversion E; subst; clear E.
        (constructor; simpl; auto; slv; inv_some; prep; try use_inv; try hts).
        all: try (destruct (Idet s0 _ _ eq_refl Ed); split; auto; fail).
        all: try (destruct (cu <? h + lim); prep; eauto).
        all: try (apply In_add; eauto).
        all: try (destruct H as [->|H]; eauto; try hts).
        destruct (cu <? dh + lim); prep; [destruct H as [->|H]|]; eauto; try hts; try exs.
      * inversion E; subst; clear E.
        (constructor; simpl; auto; slv; inv_some; prep; try use_inv; try hts).
        all: try (apply in_app_iff in H1; destruct H1 as [H1|[<-|[]]]; simpl; eauto).
  - simpl in E. destruct (cu <? max_hint hnt hn) eqn:Ec; inversion E; subst; clear E;
      (constructor; simpl; auto; slv; inv_some; prep; try use_inv; try hts).
    all: try (destruct H1 as [<-|[]]; auto).
Qed.

Lemma sinv_cancel ch cu lim nid s hs hn pend high log id st' r ev :
  SInv (mkSW ch (mkS cu lim nid s hs hn) pend high log) ->
  sstep (mkS cu lim nid s hs hn) (SCancel id) = Some (st', r, ev) ->
  SInv (mkSW ch st' pend high (log ++ ev)).
Proof.
  intros I E. simpl in E. destruct s as [s0|]; inversion E; subst; clear E; [|eapply sinv_log; eauto].
  destruct I as [Ichain Iuniq Ihigh Ilim Idet Inodet Itrack Iheights Inodisp Ihint].
  simpl in *.
  constructor; simpl; auto; slv; inv_some; prep; try use_inv; try hts; try exs.
Qed.

Lemma existsb_flag cu lim h t (l : list sntfn) :
  l <> [] -> (forall c, In c l -> s_disp c = false) -> cu < h + lim ->
  existsb (fun c => snd (sdispatch1 cu lim (h, t) c)) l = true.
Proof.
  intros Hne Hd Hlt. destruct l as [|c l]; [congruence|]. simpl.
  unfold sdispatch1 at 1. rewrite (Hd c (or_introl eq_refl)). simpl.
  apply N.ltb_lt in Hlt. rewrite Hlt. reflexivity.
Qed.

Lemma sinv_upd ch cu lim nid s hs hn pend high log r0 st' r ev :
  SInv (mkSW ch (mkS cu lim nid s hs hn) pend high log) ->
  svalid (mkSW ch (mkS cu lim nid s hs hn) pend high log) (SUpd r0) ->
  sstep (mkS cu lim nid s hs hn) (SUpd r0) = Some (st', r, ev) ->
  SInv (mkSW ch st' pend high (log ++ ev)).
Proof.
  intros I V E. simpl in E, V.
  destruct s as [s0|]; [|inversion E; subst; eapply sinv_log; eauto].
  destruct (ss_det s0) as [d|] eqn:Ed; [inversion E; subst; eapply sinv_log; eauto|].
  specialize (V s0 eq_refl Ed).
  destruct I as [Ichain Iuniq Ihigh Ilim Idet Inodet Itrack Iheights Inodisp Ihint].
  simpl in *.
  destruct r0 as [[h t]|].
  - destruct (cu <? h) eqn:Ec.
    + assert ((h <=? cu) = false) as Hle by (apply N.leb_gt; apply N.ltb_lt in Ec; lia).
      rewrite Hle in V. inversion E; subst; clear E.
      constructor; simpl; auto; slv; inv_some; prep; try use_inv; try hts; try exs.
    + assert ((h <=? cu) = true) as Hle by (apply N.leb_le; apply N.ltb_ge in Ec; lia).
      rewrite Hle in V. rename V into Vp.
      unfold sdispatch_all in E. inversion E; subst; clear E.
      apply N.leb_le in Hle.
      assert (Hhs : forall x, In x hs -> False).
      { intros x Hx. destruct (Iheights x Hx) as [s1 [t1 [Hs Hd]]]. inversion Hs; subst. congruence. }
      constructor; simpl.
      * exact Ichain.
      * exact Iuniq.
      * exact Ihigh.
      * exact Ilim.
      * intros s1 h1 t1 Hs Hd. inversion Hs; subst; simpl in *. inversion Hd; subst. auto.
      * intros s1 Hs Hd. inversion Hs; subst; simpl in *. discriminate.
      * intros s1 h1 t1 Hs Hd Hlt. inversion Hs; subst; simpl in *. inversion Hd; subst.
        assert ((cu <? h1 + lim) = true) as -> by (apply N.ltb_lt; lia). simpl. apply In_add. auto.
      * intros x Hx.
        match type of Hx with In _ (if ?b then _ else _) => destruct b end;
          [apply In_add in Hx; destruct Hx as [->|Hx]|]; try (destruct (Hhs x Hx)).
        do 2 eexists. split; reflexivity.
      * intros s1 c Hs Hd. inversion Hs; subst; simpl in *. discriminate.
      * intros x h1 t1 Hx Hp. inversion Hx; subst. rewrite Vp in Hp. inversion Hp; subst. lia.
  - inversion E; subst; clear E.
    constructor; simpl; auto; slv; inv_some; prep; try use_inv; try hts; try exs.
Qed.

Lemma sinv_notify ch cu lim nid s hs hn pend high log st' r ev :
  SInv (mkSW ch (mkS cu lim nid s hs hn) pend high log) ->
  sstep (mkS cu lim nid s hs hn) SNotify = Some (st', r, ev) ->
  SInv (mkSW ch st' false high (log ++ ev)).
Proof.
  intros I E. simpl in E.
  destruct (mem cu hs) eqn:Em; [|inversion E; subst; eapply sinv_log; eauto].
  destruct s as [s0|]; [|discriminate].
  destruct (ss_det s0) as [[dh dt]|] eqn:Ed; [|inversion E; subst; eapply sinv_log; eauto].
  unfold sdispatch_all in E. inversion E; subst; clear E.
  destruct I as [Ichain Iuniq Ihigh Ilim Idet Inodet Itrack Iheights Inodisp Ihint].
  simpl in *.
  constructor; simpl; auto; slv; inv_some; prep; try use_inv; try hts; try exs.
  all: try (destruct (Idet s0 _ _ eq_refl Ed); split; auto; fail).
  - destruct (existsb _ _); [apply In_add; right|]; eapply Itrack; eauto.
  - destruct (existsb _ _); prep; [destruct H as [->|H]|]; try exs; try hts; try exs.
Qed.

Lemma spos_cons_none h ch : spos ((h, None) :: ch) = spos ch.
Proof. reflexivity. Qed.

Lemma sinv_connect ch cu lim nid s hs hn pend high log height sp st' r ev :
  SInv (mkSW ch (mkS cu lim nid s hs hn) pend high log) ->
  svalid (mkSW ch (mkS cu lim nid s hs hn) pend high log) (SConnect height sp) ->
  sstep (mkS cu lim nid s hs hn) (SConnect height sp) = Some (st', r, ev) ->
  SInv (mkSW ((height, sp) :: ch) st' true (N.max height high) (log ++ ev)).
Proof.
  intros I V E. simpl in E, V. destruct V as [Vp [Vh [Vu Vhint]]]. subst height pend.
  rewrite N.eqb_refl in E. simpl in E.
  destruct I as [Ichain Iuniq Ihigh Ilim Idet Inodet Itrack Iheights Inodisp Ihint].
  simpl in *.
  assert (Hck : chain_ok (cu + 1) ((cu + 1, sp) :: ch)).
  { simpl. split; auto. split; [lia|]. replace (cu + 1 - 1) with cu by lia. auto. }
  assert (Hnh : ~ In (cu + 1) hs).
  { intros Hin. destruct (Iheights _ Hin) as [s1 [t [Hs Hd]]].
    destruct (Idet s1 _ _ Hs Hd) as [Hp _]. pose proof (spos_le _ _ _ _ Ichain Hp). lia. }
  destruct s as [s0|]; [destruct sp as [tx|]|].
  - (* watched outpoint spent at tip *)
    assert (Hdn : ss_det s0 = None).
    { destruct (ss_det s0) as [[h t]|] eqn:Ed; auto. destruct (Idet s0 _ _ eq_refl Ed) as [Hp _].
      rewrite Vu in Hp; congruence. }
    assert (Hempty : forall x, In x hs -> False).
    { intros x Hx. destruct (Iheights x Hx) as [s1 [t [Hs Hd]]]. inv_some. congruence. }
    unfold supd_hint in E. simpl in E.
    assert (mem (cu + 1) (add (cu + 1) hs) = true) as Hm by (apply mem_In, In_add; auto).
    rewrite Hm in E. simpl in E.
    assert (mem (cu + 1 - lim) (add (cu + 1) hs) = false) as Hm2.
    { apply mem_false. intros Hin. apply In_add in Hin. destruct Hin as [Hin|Hin]; [lia|eauto]. }
    rewrite Hm2, andb_false_r in E. inversion E; subst; clear E.
    constructor; simpl; auto; slv; inv_some; prep; try use_inv; try exs.
    all: try (apply In_add; auto; fail).
    all: try (destruct H as [->|H]; [exs|exfalso; eauto]).
  - (* watched, block without a spend *)
    unfold supd_hint in E. simpl in E.
    assert (mem (cu + 1) hs = false) as Hm by (apply mem_false; auto). rewrite Hm, orb_false_r in E.
    destruct ((lim <=? cu + 1) && mem (cu + 1 - lim) hs) eqn:Emat; inversion E; subst; clear E.
    + (* pruned *)
      apply andb_true_iff in Emat. destruct Emat as [_ Hin]. apply mem_In in Hin.
      destruct (Iheights _ Hin) as [s1 [t [Hs Hd]]]. inv_some.
      constructor; simpl; auto; slv; inv_some; prep; try use_inv.
      * destruct (Iheights _ H0) as [s2 [t2 [Hs2 Hd2]]]. inv_some. congruence.
      * destruct (Idet s1 _ _ eq_refl Hd) as [Hp _]. rewrite Hp in H0. inversion H0; subst.
        unfold unspent in H. simpl in H. rewrite Hd, andb_false_r in H. eauto.
    + constructor; simpl; auto; slv; inv_some; prep; try use_inv; try hts; try exs.
      * eapply Itrack; eauto. lia.
      * match type of H with (if ?b then _ else _) = _ => destruct b eqn:Eu end; inv_some; eauto.
        apply andb_true_iff in Eu. destruct Eu as [Er Edn].
        destruct (ss_det s0) eqn:Ed; [discriminate|].
        destruct (ss_rescan s0) eqn:Ers; try discriminate.
        rewrite (Inodet s0 eq_refl Ed Ers) in H0. discriminate.
  - (* nobody watches *)
    unfold supd_hint in E. simpl in E.
    assert (mem (cu + 1) hs = false) as Hm by (apply mem_false; auto). rewrite Hm in E.
    assert (hs = []) as ->.
    { destruct hs as [|x hs]; auto. destruct (Iheights x (or_introl eq_refl)) as [s1 [t [Hs _]]]. discriminate. }
    simpl in E. rewrite andb_false_r in E. inversion E; subst; clear E.
    constructor; simpl; auto; slv; inv_some; prep; try use_inv; try tauto.
    destruct sp as [tx|]; simpl in *; inv_some; eauto.
    eapply Vhint; eauto. congruence.
Qed.

Lemma sinv_disconnect ch cu lim nid s hs hn pend high log height st' r ev :
  SInv (mkSW ch (mkS cu lim nid s hs hn) pend high log) ->
  svalid (mkSW ch (mkS cu lim nid s hs hn) pend high log) (SDisconnect height) ->
  sstep (mkS cu lim nid s hs hn) (SDisconnect height) = Some (st', r, ev) ->
  SInv (mkSW (tl ch) st' pend high (log ++ ev)).
Proof.
  intros I V E. simpl in E, V. destruct V as [Vp [Vh [Vne Vlim]]]. subst height pend.
  rewrite N.eqb_refl in E. simpl in E.
  destruct I as [Ichain Iuniq Ihigh Ilim Idet Inodet Itrack Iheights Inodisp Ihint].
  simpl in *.
  destruct ch as [|[h0 sp0] rch]; [congruence|]. simpl in Ichain, Iuniq |- *.
  destruct Ichain as [-> [Hpos Hrest]]. destruct Iuniq as [Hu Huniq].
  assert (Hbelow : forall h t, spos rch = Some (h, t) -> h <= cu - 1).
  { intros h t Hp. eapply spos_le; eauto. }
  unfold supd_hint in E.
  destruct (mem cu hs) eqn:Em.
  - apply mem_In in Em. destruct (Iheights _ Em) as [s1 [t1 [Hs Hd]]]. subst s.
    destruct (Idet s1 _ _ eq_refl Hd) as [Hp Hr].
    assert (sp0 = Some t1) as ->.
    { destruct sp0 as [t0|]; simpl in Hp; [congruence|]. specialize (Hbelow _ _ Hp). lia. }
    assert (Hn : spos rch = None) by (apply Hu; congruence).
    rewrite orb_true_r in E. unfold sreorg_all in E. inversion E; subst; clear E.
    constructor; simpl; auto; slv; inv_some; prep; try use_inv; try lia.
    + destruct (Iheights _ H0) as [s2 [t2 [Hs2 Hd2]]]. inv_some. congruence.
    + apply in_map_iff in H1. destruct H1 as [c0 [<- _]]. apply sreorg1_disp.
  - rewrite orb_false_r in E. inversion E; subst; clear E.
    assert (Hnd : forall s0 h t, s = Some s0 -> ss_det s0 = Some (h, t) -> sp0 = None).
    { intros s0 h t Hs Hd. destruct sp0 as [t0|]; auto. exfalso.
      destruct (Idet s0 _ _ Hs Hd) as [Hp _]. simpl in Hp. inversion Hp; subst.
      apply mem_false in Em. apply Em. eapply Itrack; eauto. }
    constructor; simpl; auto; slv; inv_some; prep; try use_inv; try lia.
    + rewrite (Hnd _ _ _ H H0) in *. eapply Idet; eauto.
    + destruct sp0 as [t0|]; [|eapply Inodet; eauto]. apply Hu. congruence.
    + match type of H with (if ?b then _ else _) = _ => destruct b eqn:Eu end; inv_some.
      * unfold unspent in Eu. destruct s as [s0|]; [|discriminate].
        apply andb_true_iff in Eu. destruct Eu as [Er Edn].
        destruct (ss_det s0) eqn:Ed; [discriminate|].
        destruct (ss_rescan s0) eqn:Ers; try discriminate.
        pose proof (Inodet s0 eq_refl Ed Ers) as Hpn.
        destruct sp0; simpl in Hpn; congruence.
      * destruct sp0 as [t0|]; [rewrite Hu in H0; congruence|eauto].
Qed.


Lemma sconnect_res cu lim nid s hs hn sp st' r ev :
  sstep (mkS cu lim nid s hs hn) (SConnect (cu + 1) sp) = Some (st', r, ev) -> r = ROk None.
Proof.
  simpl. rewrite N.eqb_refl. simpl.
  destruct s as [s0|]; destruct sp; simpl;
    repeat match goal with |- context [if ?b then _ else _] => destruct b end;
    intros E; inversion E; auto.
Qed.

Lemma sdisconnect_res cu lim nid s hs hn st' r ev :
  sstep (mkS cu lim nid s hs hn) (SDisconnect cu) = Some (st', r, ev) -> r = ROk None.
Proof.
  simpl. rewrite N.eqb_refl. simpl.
  destruct s as [s0|]; simpl;
    repeat match goal with |- context [if ?b then _ else _] => destruct b end;
    intros E; inversion E; auto.
Qed.

Lemma sinv_step w o w' : SInv w -> svalid w o -> swstep w o = Some w' -> SInv w'.
Proof.
  intros I V S. unfold swstep in S.
  destruct (sstep (sw_st w) o) as [[[st' r] ev]|] eqn:E; [|discriminate].
  inversion S; subst w'; clear S.
  destruct w as [ch st pend high log]. destruct st as [cu lim nid s hs hn]. simpl in *.
  destruct o as [id hnt|id|r0|height sp| |height].
  - eapply sinv_reg; eauto.
  - eapply sinv_cancel; eauto.
  - eapply sinv_upd; eauto.
  - pose proof (sinv_connect _ _ _ _ _ _ _ _ _ _ _ _ _ _ _ I V E) as H.
    simpl in V. destruct V as [_ [Vh _]]. subst height.
    rewrite (sconnect_res _ _ _ _ _ _ _ _ _ _ E). simpl. exact H.
  - simpl in V. subst pend. eapply sinv_notify; eauto.
  - pose proof (sinv_disconnect _ _ _ _ _ _ _ _ _ _ _ _ _ _ I V E) as H.
    simpl in V. destruct V as [_ [Vh _]]. subst height.
    rewrite (sdisconnect_res _ _ _ _ _ _ _ _ _ E). simpl. exact H.
Qed.

Lemma sinv_init ch start lim h0 : sstart_ok ch start lim h0 -> SInv (sinit ch start lim h0).
Proof.
  intros [Hc [Hu [Hl Hh]]]. constructor; simpl; auto; try discriminate; try lia.
  all: try (intros x []; fail).
  all: intros; eapply Hh; eauto.
Qed.

Lemma sinv_reach w0 w : SInv w0 -> sreach w0 w -> SInv w.
Proof. intros I R. induction R; auto. eapply sinv_step; eauto. Qed.

Lemma spend_hint_safe ch start lim h0 w :
  sstart_ok ch start lim h0 -> sreach (sinit ch start lim h0) w ->
  forall x h t, shint (sw_st w) = Some x -> spos (sw_chain w) = Some (h, t) -> x <= h.
Proof. intros H R. apply (si_hint _ (sinv_reach _ _ (sinv_init _ _ _ _ H) R)). Qed.

Lemma spend_details_on_chain ch start lim h0 w :
  sstart_ok ch start lim h0 -> sreach (sinit ch start lim h0) w ->
  forall s, sset (sw_st w) = Some s ->
    (forall h t, ss_det s = Some (h, t) -> spos (sw_chain w) = Some (h, t)) /\
    (ss_det s = None -> ss_rescan s = RComplete -> spos (sw_chain w) = None) /\
    (ss_det s = None -> forall c, In c (ss_ntfns s) -> s_disp c = false).
Proof.
  intros H R s Hs. pose proof (sinv_reach _ _ (sinv_init _ _ _ _ H) R) as I.
  split; [|split].
  - intros h t Hd. apply (si_det _ I s h t Hs Hd).
  - intros Hd Hr. apply (si_nodet _ I s Hs Hd Hr).
  - intros Hd c Hc. apply (si_nodisp _ I s c Hs Hd Hc).
Qed.
