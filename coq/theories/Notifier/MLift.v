(* Lifting of the per-request C14 theorems to multi-request runs: by request
   independence (MProofs.v) the view [cwproj r] / [swproj r] of a reachable
   multi-request world is a reachable single-request world of Spec.v. *)
From Coq Require Import List NArith Bool Lia.
From LV Require Import Notifier.Model Notifier.Spec Notifier.Proofs Notifier.SpendLog
  Notifier.ConfMain Notifier.MModel Notifier.MLemmas Notifier.MProofs Notifier.MSpec.
Import ListNotations.
Local Open Scope N_scope.

Lemma map_tl {A B} (f : A -> B) l : map f (tl l) = tl (map f l).
Proof. now destruct l. Qed.

(* ------------------------------------------------------------------ *)
(* confirmations                                                        *)

Lemma mcwstep_proj w o w' r :
  mcwstep w o = Some w' ->
  match cop_of r o with
  | Some co => cwstep (cwproj r w) co = Some (cwproj r w')
  | None => cwproj r w' = cwproj r w
  end.
Proof.
  unfold mcwstep. destruct (mcstep (mcw_st w) o) as [[[st' res] ev]|] eqn:E; [|discriminate].
  intros H. inversion H; subst; clear H.
  pose proof (mcstep_proj _ _ _ _ _ r E) as P.
  destruct o as [q id n hnt|q id|q a|height bid has| |height]; cbn [cop_of] in *.
  1-3: destruct (N.eqb q r).
  all: try (match type of P with
            | _ /\ _ => destruct P as [P1 P2]
            end; unfold cwproj; cbn [mcw_chain mcw_st mcw_pending mcw_high mcw_log];
            now rewrite tproj_app, P1, P2, app_nil_r).
  all: unfold cwstep, cwproj at 1; cbn [cw_st cw_chain cw_pending cw_high cw_log
                                         mcw_chain mcw_st mcw_pending mcw_high mcw_log];
       rewrite P; unfold cwproj; cbn [mcw_chain mcw_st mcw_pending mcw_high mcw_log];
       rewrite tproj_app; try reflexivity.
  - destruct (is_ok res); reflexivity.
  - destruct (is_ok res); [|reflexivity]. unfold cchain_of. now rewrite map_tl.
Qed.

Lemma mcinit_proj ch start lim h0 r :
  cwproj r (mcinit ch start lim h0) = cinit (cchain_of r ch) start lim (h0 r).
Proof. reflexivity. Qed.

Lemma mcreach_proj w0 w : mcreach w0 w -> forall r, creach (cwproj r w0) (cwproj r w).
Proof.
  induction 1 as [|w o w' Hr IH Hv Hs]; intros r.
  - constructor.
  - specialize (Hv r). pose proof (mcwstep_proj _ _ _ r Hs) as P.
    destruct (cop_of r o) as [co|].
    + eapply creach_step; eauto.
    + rewrite P. apply IH.
Qed.

Lemma multi_conf_reach ch start lim h0 w :
  mcreach (mcinit ch start lim h0) w ->
  forall r, creach (cinit (cchain_of r ch) start lim (h0 r)) (cwproj r w).
Proof. intros H r. rewrite <- mcinit_proj. now apply mcreach_proj. Qed.

Lemma multi_conf_hint_safe ch start lim h0 w :
  mcstart_ok ch start lim h0 -> mcreach (mcinit ch start lim h0) w ->
  forall r x h b, m_hint (mcw_st w) r = Some x ->
    cpos (cchain_of r (mcw_chain w)) = Some (h, b) -> x <= h.
Proof.
  intros Hs Hr r. exact (conf_hint_safe _ _ _ _ _ (Hs r) (multi_conf_reach _ _ _ _ _ Hr r)).
Qed.

Lemma multi_conf_exact ch start lim h0 w :
  mcstart_ok ch start lim h0 -> mcreach (mcinit ch start lim h0) w ->
  forall r s c, m_sets (mcw_st w) r = Some s -> In c (cs_ntfns s) ->
    clstate (c_id c) (tproj r (mcw_log w)) = Some (if c_disp c then cs_det s else None) /\
    (forall h b, clstate (c_id c) (tproj r (mcw_log w)) = Some (Some (h, b)) ->
       cpos (cchain_of r (mcw_chain w)) = Some (h, b)) /\
    (mcw_pending w = false -> cs_rescan s = RComplete ->
     forall h b, cpos (cchain_of r (mcw_chain w)) = Some (h, b) ->
       h + c_n c - 1 <= m_cur (mcw_st w) ->
       clstate (c_id c) (tproj r (mcw_log w)) = Some (Some (h, b))).
Proof.
  intros Hs Hr r. exact (conf_exact _ _ _ _ _ (Hs r) (multi_conf_reach _ _ _ _ _ Hr r)).
Qed.

Lemma multi_conf_reorg_before_reconf ch start lim h0 w :
  mcstart_ok ch start lim h0 -> mcreach (mcinit ch start lim h0) w ->
  forall r id, clstate id (tproj r (mcw_log w)) <> None.
Proof.
  intros Hs Hr r.
  exact (conf_reorg_before_reconf _ _ _ _ _ (Hs r) (multi_conf_reach _ _ _ _ _ Hr r)).
Qed.

Lemma multi_conf_details_on_chain ch start lim h0 w :
  mcstart_ok ch start lim h0 -> mcreach (mcinit ch start lim h0) w ->
  forall r s, m_sets (mcw_st w) r = Some s ->
    (forall h b, cs_det s = Some (h, b) -> cpos (cchain_of r (mcw_chain w)) = Some (h, b)) /\
    (cs_det s = None -> cs_rescan s = RComplete -> cpos (cchain_of r (mcw_chain w)) = None) /\
    (cs_det s = None -> forall c, In c (cs_ntfns s) -> c_disp c = false).
Proof.
  intros Hs Hr r.
  exact (conf_details_on_chain _ _ _ _ _ (Hs r) (multi_conf_reach _ _ _ _ _ Hr r)).
Qed.

(* emission time, for every request the call concerns *)
Lemma multi_conf_emit ch start lim h0 w o w' :
  mcstart_ok ch start lim h0 -> mcreach (mcinit ch start lim h0) w ->
  mcvalid w o -> mcwstep w o = Some w' ->
  forall ev, mcw_log w' = mcw_log w ++ ev ->
  forall r id h b, In (id, EConf h b) (tproj r ev) ->
    cpos (cchain_of r (mcw_chain w')) = Some (h, b) /\
    exists s c, m_sets (mcw_st w') r = Some s /\ In c (cs_ntfns s) /\ c_id c = id /\
      h + c_n c - 1 <= m_cur (mcw_st w').
Proof.
  intros Hs Hr Hv Hst ev Hl r id h b Hin.
  pose proof (mcwstep_proj _ _ _ r Hst) as P. specialize (Hv r).
  destruct (cop_of r o) as [co|] eqn:Eo.
  - assert (L : cw_log (cwproj r w') = cw_log (cwproj r w) ++ tproj r ev).
    { unfold cwproj. cbn [cw_log]. now rewrite Hl, tproj_app. }
    exact (conf_emit _ _ _ _ _ _ _ (Hs r) (multi_conf_reach _ _ _ _ _ Hr r) Hv P _ L _ _ _ Hin).
  - (* a call addressed to another request sends nothing to r's clients *)
    exfalso. assert (E : tproj r (mcw_log w') = tproj r (mcw_log w)).
    { change (cw_log (cwproj r w') = cw_log (cwproj r w)). now rewrite P. }
    rewrite Hl, tproj_app in E.
    assert (tproj r ev = []).
    { destruct (tproj r ev); auto. exfalso.
      apply (f_equal (@length _)) in E. rewrite app_length in E. cbn in E. lia. }
    rewrite H in Hin. exact Hin.
Qed.

(* ------------------------------------------------------------------ *)
(* spends                                                               *)

Lemma mswstep_proj w o w' r :
  mswstep w o = Some w' ->
  match sop_of r o with
  | Some so => swstep (swproj r w) so = Some (swproj r w')
  | None => swproj r w' = swproj r w
  end.
Proof.
  unfold mswstep. destruct (msstep (msw_st w) o) as [[[st' res] ev]|] eqn:E; [|discriminate].
  intros H. inversion H; subst; clear H.
  pose proof (msstep_proj _ _ _ _ _ r E) as P.
  destruct o as [q id hnt|q id|q a|height sp| |height]; cbn [sop_of] in *.
  1-3: destruct (N.eqb q r).
  all: try (match type of P with
            | _ /\ _ => destruct P as [P1 P2]
            end; unfold swproj; cbn [msw_chain msw_st msw_pending msw_high msw_log];
            now rewrite tproj_app, P1, P2, app_nil_r).
  all: unfold swstep, swproj at 1; cbn [sw_st sw_chain sw_pending sw_high sw_log
                                         msw_chain msw_st msw_pending msw_high msw_log];
       rewrite P; unfold swproj; cbn [msw_chain msw_st msw_pending msw_high msw_log];
       rewrite tproj_app; try reflexivity.
  - destruct (is_ok res); reflexivity.
  - destruct (is_ok res); [|reflexivity]. unfold schain_of. now rewrite map_tl.
Qed.

Lemma msinit_proj ch start lim h0 r :
  swproj r (msinit ch start lim h0) = sinit (schain_of r ch) start lim (h0 r).
Proof. reflexivity. Qed.

Lemma msreach_proj w0 w : msreach w0 w -> forall r, sreach (swproj r w0) (swproj r w).
Proof.
  induction 1 as [|w o w' Hr IH Hv Hs]; intros r.
  - constructor.
  - specialize (Hv r). pose proof (mswstep_proj _ _ _ r Hs) as P.
    destruct (sop_of r o) as [so|].
    + eapply sreach_step; eauto.
    + rewrite P. apply IH.
Qed.

Lemma multi_spend_reach ch start lim h0 w :
  msreach (msinit ch start lim h0) w ->
  forall r, sreach (sinit (schain_of r ch) start lim (h0 r)) (swproj r w).
Proof. intros H r. rewrite <- msinit_proj. now apply msreach_proj. Qed.

Lemma multi_spend_hint_safe ch start lim h0 w :
  msstart_ok ch start lim h0 -> msreach (msinit ch start lim h0) w ->
  forall r x h t, ms_hint (msw_st w) r = Some x ->
    spos (schain_of r (msw_chain w)) = Some (h, t) -> x <= h.
Proof.
  intros Hs Hr r. exact (spend_hint_safe _ _ _ _ _ (Hs r) (multi_spend_reach _ _ _ _ _ Hr r)).
Qed.

Lemma multi_spend_exact ch start lim h0 w :
  msstart_ok ch start lim h0 -> msreach (msinit ch start lim h0) w ->
  forall r s c, ms_sets (msw_st w) r = Some s -> In c (ss_ntfns s) ->
    slstate (s_id c) (tproj r (msw_log w)) = Some (if s_disp c then ss_det s else None) /\
    (forall h t, slstate (s_id c) (tproj r (msw_log w)) = Some (Some (h, t)) ->
       spos (schain_of r (msw_chain w)) = Some (h, t)) /\
    (msw_pending w = false -> ss_rescan s = RComplete ->
     forall h t, spos (schain_of r (msw_chain w)) = Some (h, t) ->
       slstate (s_id c) (tproj r (msw_log w)) = Some (Some (h, t))).
Proof.
  intros Hs Hr r. exact (spend_exact _ _ _ _ _ (Hs r) (multi_spend_reach _ _ _ _ _ Hr r)).
Qed.

Lemma multi_spend_reorg_before_respend ch start lim h0 w :
  msstart_ok ch start lim h0 -> msreach (msinit ch start lim h0) w ->
  forall r id, slstate id (tproj r (msw_log w)) <> None.
Proof.
  intros Hs Hr r.
  exact (spend_reorg_before_respend _ _ _ _ _ (Hs r) (multi_spend_reach _ _ _ _ _ Hr r)).
Qed.
