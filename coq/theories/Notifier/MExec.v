(* Trace checker for MULTI-REQUEST histories of the C14 correspondence run: the
   whole history (all conf requests, resp. all spend requests, with the shared
   height indexes) is re-run on the multi-request model of MModel.v; after
   every call the return value, the events of every client of every request and
   the hint-cache entries of ALL requests are compared with what the real
   TxNotifier did.  By MProofs.v (request independence) a history accepted here
   is accepted request by request by Exec.v. *)
From Coq Require Import List NArith Bool.
From LV Require Import Notifier.Model Notifier.Exec Notifier.MModel.
Import ListNotations.
Local Open Scope N_scope.

Definition mcevs_agree (m o : mcevs) : bool :=
  forallb (fun r => cevs_agree (tproj r m) (tproj r o)) (map fst m ++ map fst o).
Definition msevs_agree (m o : msevs) : bool :=
  forallb (fun r => sevs_agree (tproj r m) (tproj r o)) (map fst m ++ map fst o).

(* observed hint-cache entries of requests i, i+1, ... *)
Fixpoint hints_ok (f : N -> option N) (l : list (option N)) (i : N) : bool :=
  match l with
  | [] => true
  | h :: t => optN_eqb (f i) h && hints_ok f t (i + 1)
  end.

Definition hint_fun (l : list (option N)) : N -> option N :=
  fun r => nth (N.to_nat r) l None.

Definition mcobs := (mcop * res * mcevs * list (option N))%type.
Definition msobs := (msop * res * msevs * list (option N))%type.

Fixpoint mcrun (st : mcstate) (l : list mcobs) (i : N) (bad : list N) : list N :=
  match l with
  | [] => rev bad
  | (o, r, ev, hn) :: rest =>
    match mcstep st o with
    | None => rev (i :: bad)                 (* model predicts a crash *)
    | Some (st', r', ev') =>
      let ok := res_eqb r r' && mcevs_agree ev' ev && hints_ok (m_hint st') hn 0 in
      mcrun st' rest (i + 1) (if ok then bad else i :: bad)
    end
  end.

Fixpoint msrun (st : msstate) (l : list msobs) (i : N) (bad : list N) : list N :=
  match l with
  | [] => rev bad
  | (o, r, ev, hn) :: rest =>
    match msstep st o with
    | None => rev (i :: bad)
    | Some (st', r', ev') =>
      let ok := res_eqb r r' && msevs_agree ev' ev && hints_ok (ms_hint st') hn 0 in
      msrun st' rest (i + 1) (if ok then bad else i :: bad)
    end
  end.

(* Block steps (catch-up layer, chainntnfs.HandleMissedBlocks / RewindChain): ONE observed
   call of the real code stands for a canonical in-order SEQUENCE of TxNotifier calls (the
   disconnects down to the common ancestor); the events of the whole sequence and the hints
   after it are compared.  The first error aborts the block, as RewindChain does. *)
Fixpoint mcsteps (st : mcstate) (ops : list mcop) (r : res) (acc : mcevs)
  : option (mcstate * res * mcevs) :=
  match ops with
  | [] => Some (st, r, acc)
  | o :: rest =>
    match mcstep st o with
    | None => None
    | Some (st', r', ev) =>
      match r' with
      | RErr _ => Some (st', r', acc ++ ev)
      | ROk _ => mcsteps st' rest r' (acc ++ ev)
      end
    end
  end.

Fixpoint mssteps (st : msstate) (ops : list msop) (r : res) (acc : msevs)
  : option (msstate * res * msevs) :=
  match ops with
  | [] => Some (st, r, acc)
  | o :: rest =>
    match msstep st o with
    | None => None
    | Some (st', r', ev) =>
      match r' with
      | RErr _ => Some (st', r', acc ++ ev)
      | ROk _ => mssteps st' rest r' (acc ++ ev)
      end
    end
  end.

Definition mcbobs := (list mcop * res * mcevs * list (option N))%type.
Definition msbobs := (list msop * res * msevs * list (option N))%type.

Fixpoint mcbrun (st : mcstate) (l : list mcbobs) (i : N) (bad : list N) : list N :=
  match l with
  | [] => rev bad
  | (os, r, ev, hn) :: rest =>
    match mcsteps st os (ROk None) [] with
    | None => rev (i :: bad)
    | Some (st', r', ev') =>
      let ok := res_eqb r r' && mcevs_agree ev' ev && hints_ok (m_hint st') hn 0 in
      mcbrun st' rest (i + 1) (if ok then bad else i :: bad)
    end
  end.

Fixpoint msbrun (st : msstate) (l : list msbobs) (i : N) (bad : list N) : list N :=
  match l with
  | [] => rev bad
  | (os, r, ev, hn) :: rest =>
    match mssteps st os (ROk None) [] with
    | None => rev (i :: bad)
    | Some (st', r', ev') =>
      let ok := res_eqb r r' && msevs_agree ev' ev && hints_ok (ms_hint st') hn 0 in
      msbrun st' rest (i + 1) (if ok then bad else i :: bad)
    end
  end.

Inductive mtcase :=
| TMConf (start lim : N) (h0 : list (option N)) (l : list mcobs)
| TMSpend (start lim : N) (h0 : list (option N)) (l : list msobs)
| TMConfB (start lim : N) (h0 : list (option N)) (l : list mcbobs)
| TMSpendB (start lim : N) (h0 : list (option N)) (l : list msbobs).

Definition mcheck_case (c : mtcase) : list N :=
  match c with
  | TMConf start lim h0 l => mcrun (init_mc start lim (hint_fun h0)) l 0 []
  | TMSpend start lim h0 l => msrun (init_ms start lim (hint_fun h0)) l 0 []
  | TMConfB start lim h0 l => mcbrun (init_mc start lim (hint_fun h0)) l 0 []
  | TMSpendB start lim h0 l => msbrun (init_ms start lim (hint_fun h0)) l 0 []
  end.

Fixpoint mmismatches (cases : list mtcase) (i : N) : list (N * list N) :=
  match cases with
  | [] => []
  | c :: r =>
    match mcheck_case c with
    | [] => mmismatches r (i + 1)
    | bad => (i, bad) :: mmismatches r (i + 1)
    end
  end.
