(* C14, confirmation side: helper lemmas (pair sets, event folds, per-client
   behaviour of the dispatch / notify / reorg helpers). *)
From Coq Require Import List NArith Bool Lia.
From LV Require Import Notifier.Model Notifier.Spec Notifier.Proofs.
Import ListNotations.
Local Open Scope N_scope.

(* ---- sets of pairs ---- *)

Lemma pair_eqb_eq a b : pair_eqb a b = true <-> a = b.
Proof.
  unfold pair_eqb. destruct a as [a1 a2], b as [b1 b2]. simpl.
  rewrite andb_true_iff, !N.eqb_eq. split.
  - intros [-> ->]. reflexivity.
  - intros H. inversion H. auto.
Qed.

Lemma pmem_In x l : pmem x l = true <-> In x l.
Proof.
  unfold pmem. rewrite existsb_exists. split.
  - intros [y [Hy He]]. apply pair_eqb_eq in He. subst. exact Hy.
  - intros H. exists x. split; auto. apply pair_eqb_eq. reflexivity.
Qed.

Lemma In_padd y x l : In y (padd x l) <-> y = x \/ In y l.
Proof.
  unfold padd. destruct (pmem x l) eqn:E.
  - apply pmem_In in E. split; intros; auto. destruct H; subst; auto.
  - simpl. split; intros [H|H]; auto.
Qed.

Lemma In_pdel y x l : In y (pdel x l) <-> y <> x /\ In y l.
Proof.
  unfold pdel. rewrite filter_In. split.
  - intros [H1 H2]. split; auto. intros ->.
    apply negb_true_iff in H2. assert (pair_eqb x x = true) by (apply pair_eqb_eq; auto). congruence.
  - intros [H1 H2]. split; auto. apply negb_true_iff.
    destruct (pair_eqb x y) eqn:E; auto. apply pair_eqb_eq in E. congruence.
Qed.

Lemma In_padd_all y xs l : In y (padd_all xs l) <-> In y xs \/ In y l.
Proof.
  unfold padd_all. revert l. induction xs as [|x xs IH]; simpl; intros l.
  - tauto.
  - rewrite IH, In_padd. split; intros H; intuition.
Qed.

Lemma In_pdel_all y ds l : In y (pdel_all ds l) <-> ~ In y ds /\ In y l.
Proof.
  unfold pdel_all. revert l. induction ds as [|d ds IH]; simpl; intros l.
  - tauto.
  - rewrite IH, In_pdel. split; intros H; intuition.
Qed.

(* ---- singleton sets of heights ---- *)

Lemma add_single h ini :
  (forall x, In x ini -> ini = [x] /\ x = h) -> add h ini = [h].
Proof.
  intros H. destruct ini as [|y r]; [reflexivity|].
  destruct (H y (or_introl eq_refl)) as [E ->]. inversion E; subst.
  unfold add, mem. simpl. rewrite N.eqb_refl. reflexivity.
Qed.

Lemma del_single_ne y x : y <> x -> del x [y] = [y].
Proof.
  intros H. unfold del. simpl. destruct (N.eqb_spec x y); [congruence|reflexivity].
Qed.

Lemma NoDup_key_inj {T} (key : T -> N) l a b :
  NoDup (map key l) -> In a l -> In b l -> key a = key b -> a = b.
Proof.
  induction l as [|x l IH]; simpl; intros Hnd Ha Hb Hk; [tauto|].
  inversion Hnd as [|? ? Hn Hnd']; subst.
  destruct Ha as [->|Ha], Hb as [->|Hb]; auto.
  - exfalso. apply Hn. rewrite Hk. apply in_map. exact Hb.
  - exfalso. apply Hn. rewrite <- Hk. apply in_map. exact Ha.
Qed.

(* ---- chain ---- *)

Lemma cpos_In ch h b : cpos ch = Some (h, b) -> In (h, (b, true)) ch.
Proof.
  induction ch as [|[h0 [b0 [|]]] r IH]; simpl; intros H; try discriminate.
  - inversion H; subst. auto.
  - auto.
Qed.

Lemma cpos_le cu ch h b : chain_ok cu ch -> cpos ch = Some (h, b) -> h <= cu.
Proof. intros Hok H. eapply chain_ok_le; eauto using cpos_In. Qed.

(* ---- what a client has been told ---- *)

Lemma clstate_app id log ev :
  clstate id (log ++ ev) = fold_left clstep (sel id ev) (clstate id log).
Proof. unfold clstate. rewrite sel_app, fold_left_app. reflexivity. Qed.

Lemma clstate_nil id log ev : sel id ev = [] -> clstate id (log ++ ev) = clstate id log.
Proof. intros H. rewrite clstate_app, H. reflexivity. Qed.

Definition quiet (e : cev) : bool :=
  match e with EUpd _ _ | EDone => true | _ => false end.

Lemma fold_quiet l s : (forall e, In e l -> quiet e = true) -> fold_left clstep l s = s.
Proof.
  revert s. induction l as [|a l IH]; simpl; intros s H; auto.
  rewrite IH; [|intros; apply H; auto].
  specialize (H a (or_introl eq_refl)). destruct a; try discriminate; destruct s; reflexivity.
Qed.

Lemma clstate_quiet id log ev :
  (forall e, In e ev -> quiet (snd e) = true) -> clstate id (log ++ ev) = clstate id log.
Proof.
  intros H. rewrite clstate_app. apply fold_quiet.
  intros e He. unfold sel in He. apply in_map_iff in He. destruct He as [x [<- Hx]].
  apply filter_In in Hx. apply H. tauto.
Qed.

Lemma cfresh_state id log nid :
  (forall i e, In (i, e) log -> i < nid) -> nid <= id -> clstate id log = Some None.
Proof.
  intros Hf Hle. unfold clstate.
  assert (sel id log = []) as ->; auto.
  unfold sel. induction log as [|[i e] log IH]; simpl; auto.
  destruct (N.eqb_spec i id).
  - subst. specialize (Hf id e (or_introl eq_refl)). lia.
  - apply IH. intros; eapply Hf; right; eauto.
Qed.

Definition ctold (c : cntfn) (det : option (N * N)) : option (option (N * N)) :=
  Some (if c_disp c then det else None).

Lemma ctold_false c d : c_disp c = false -> ctold c d = Some None.
Proof. unfold ctold. intros ->. reflexivity. Qed.

Lemma cbulk_flag (l : list cntfn) (log : cevs) det det' f g :
  NoDup (map c_id l) ->
  (forall c, c_id (f c) = c_id c) ->
  (forall c e, In c l -> In e (g c) -> fst e = c_id c) ->
  (forall c, In c l -> clstate (c_id c) log = ctold c det) ->
  (forall c, In c l -> fold_left clstep (map snd (g c)) (ctold c det) = ctold (f c) det') ->
  forall c', In c' (map f l) -> clstate (c_id c') (log ++ flat_map g l) = ctold c' det'.
Proof.
  intros Hnd Hid Htag Hold Hnew c' Hin.
  apply in_map_iff in Hin. destruct Hin as [c [<- Hc]].
  rewrite Hid, clstate_app, (sel_flat_in c_id g l c), Hold; auto.
Qed.

Lemma cbulk_ok (l : list cntfn) (log : cevs) det det' f g :
  NoDup (map c_id l) ->
  (forall c, c_id (f c) = c_id c) ->
  (forall c e, In c l -> In e (g c) -> fst e = c_id c) ->
  (forall c, In c l -> clstate (c_id c) log = ctold c det) ->
  (forall c, In c l -> fold_left clstep (map snd (g c)) (ctold c det) = ctold (f c) det') ->
  (forall id, clstate id log <> None) ->
  forall id, clstate id (log ++ flat_map g l) <> None.
Proof.
  intros Hnd Hid Htag Hold Hnew Hok id.
  destruct (in_dec N.eq_dec id (map c_id l)) as [Hin|Hin].
  - apply in_map_iff in Hin. destruct Hin as [c [<- Hc]].
    rewrite <- (Hid c).
    rewrite (cbulk_flag l log det det' f g Hnd Hid Htag Hold Hnew (f c)).
    + discriminate.
    + apply in_map. exact Hc.
  - rewrite clstate_nil; auto. apply sel_flat_notin with (key := c_id); auto.
Qed.

Lemma creg_nodup (l : list cntfn) nid id c1 :
  NoDup (map c_id l) -> (forall c, In c l -> c_id c < nid) -> nid <= id -> c_id c1 = id ->
  NoDup (map c_id (l ++ [c1])).
Proof.
  intros Hnd Hlt Hle Hid.
  rewrite map_app. simpl.
  replace (map c_id l ++ [c_id c1]) with (rev (c_id c1 :: rev (map c_id l))).
  - apply NoDup_rev. constructor.
    + rewrite <- in_rev. intros Hin. apply in_map_iff in Hin. destruct Hin as [c [Hc Hin]].
      specialize (Hlt c Hin). lia.
    + apply NoDup_rev. exact Hnd.
  - simpl. rewrite rev_involutive. reflexivity.
Qed.

Lemma remove_In c i l : In c (remove_id i l) <-> In c l /\ c_id c <> i.
Proof.
  unfold remove_id. rewrite filter_In. split; intros [H1 H2]; split; auto.
  - intros <-. rewrite N.eqb_refl in H2. discriminate.
  - apply negb_true_iff, N.eqb_neq. congruence.
Qed.

Lemma find_id_In i l c : find_id i l = Some c -> In c l /\ c_id c = i.
Proof.
  induction l as [|a l IH]; simpl; [discriminate|].
  destruct (N.eqb_spec i (c_id a)).
  - intros H. inversion H; subst. auto.
  - intros H. destruct (IH H). auto.
Qed.

(* ---- per-client behaviour of the helpers ---- *)

Lemma notify_left_spec c left h :
  let r := notify_left c left h in
  c_id (fst r) = c_id c /\ c_n (fst r) = c_n c /\ c_disp (fst r) = c_disp c /\
  (forall e, In e (snd r) -> fst e = c_id c /\ quiet (snd e) = true).
Proof.
  unfold notify_left. destruct (c_left c <=? left); simpl.
  - split; [|split; [|split]]; auto. intros e [].
  - split; [|split; [|split]]; auto. intros e [<-|[]]. split; reflexivity.
Qed.

(* dispatchConfDetails for one client *)
Lemma dispatch1_spec cu lim h b c :
  c_id (d_n cu lim (h, b) c) = c_id c /\ c_n (d_n cu lim (h, b) c) = c_n c /\
  (forall e, In e (d_e cu lim (h, b) c) -> fst e = c_id c) /\
  (c_disp c = true ->
     d_n cu lim (h, b) c = c /\ d_e cu lim (h, b) c = [] /\ d_q cu lim (h, b) c = [] /\
     d_i cu lim (h, b) c = false) /\
  (c_disp c = false ->
     d_i cu lim (h, b) c = (cu <? h + lim) /\
     ((h + c_n c - 1 <= cu /\ c_disp (d_n cu lim (h, b) c) = true /\ d_q cu lim (h, b) c = [] /\
       (forall e, In e (d_e cu lim (h, b) c) -> snd e = EConf h b \/ quiet (snd e) = true) /\
       fold_left clstep (map snd (d_e cu lim (h, b) c)) (Some None) = Some (Some (h, b))) \/
      (cu < h + c_n c - 1 /\ c_disp (d_n cu lim (h, b) c) = false /\
       d_q cu lim (h, b) c = [(h + c_n c - 1, c_id c)] /\
       (forall e, In e (d_e cu lim (h, b) c) -> quiet (snd e) = true)))).
Proof.
  unfold d_n, d_e, d_q, d_i, dispatch1.
  destruct (c_disp c) eqn:Ed.
  - simpl. split; [|split; [|split; [|split]]]; auto.
    + intros e [].
    + intros; discriminate.
  - destruct (h + c_n c - 1 <=? cu) eqn:Ec.
    + pose proof (notify_left_spec c 0 h) as Hs. simpl in Hs.
      destruct (notify_left c 0 h) as [c1 e] eqn:En. simpl in *.
      destruct Hs as [S1 [S2 [S3 S4]]].
      split; [|split; [|split; [|split]]]; auto.
      * intros x Hx. apply in_app_iff in Hx. destruct Hx as [Hx|[<-|[]]]; auto. apply S4. exact Hx.
      * intros; discriminate.
      * intros _. split; auto. left. apply N.leb_le in Ec.
        split; [|split; [|split; [|split]]]; auto.
        -- intros x Hx. apply in_app_iff in Hx. destruct Hx as [Hx|[<-|[]]]; auto.
           right. apply S4. exact Hx.
        -- rewrite map_app, fold_left_app. rewrite (fold_quiet (map snd e)); [reflexivity|].
           intros x Hx. apply in_map_iff in Hx. destruct Hx as [y [<- Hy]]. apply S4. exact Hy.
    + pose proof (notify_left_spec c (h + c_n c - 1 - cu) h) as Hs. simpl in Hs.
      destruct (notify_left c (h + c_n c - 1 - cu) h) as [c1 e] eqn:En. simpl in *.
      destruct Hs as [S1 [S2 [S3 S4]]].
      split; [|split; [|split; [|split]]]; auto.
      * intros x Hx. apply S4. exact Hx.
      * intros; discriminate.
      * intros _. split; auto. right. apply N.leb_gt in Ec.
        split; [|split; [|split]]; auto; try congruence.
        intros x Hx. apply S4. exact Hx.
Qed.

Lemma dispatch1_fold cu lim h b c det0 :
  (c_disp c = true -> det0 = Some (h, b)) ->
  fold_left clstep (map snd (d_e cu lim (h, b) c)) (ctold c det0) =
  ctold (d_n cu lim (h, b) c) (Some (h, b)).
Proof.
  intros Hd. destruct (dispatch1_spec cu lim h b c) as [_ [_ [_ [Ht Hf]]]].
  destruct (c_disp c) eqn:Ed.
  - destruct (Ht eq_refl) as [-> [-> _]]. simpl. unfold ctold. rewrite Ed, Hd; auto.
  - destruct (Hf eq_refl) as [_ [[_ [D [_ [_ F]]]]|[_ [D [_ Q]]]]]; unfold ctold; rewrite Ed, D.
    + exact F.
    + apply fold_quiet. intros e He. apply in_map_iff in He. destruct He as [x [<- Hx]]. auto.
Qed.

Lemma nuN_spec k height bh c :
  let r := nuN k height bh c in
  c_id (fst r) = c_id c /\ c_n (fst r) = c_n c /\ c_disp (fst r) = c_disp c /\
  (forall e, In e (snd r) -> fst e = c_id c /\ quiet (snd e) = true).
Proof.
  revert c. induction k as [|x k IH]; intros c; simpl.
  - split; [|split; [|split]]; auto. intros e [].
  - assert (H1 : let r := nu1 height bh c in
              c_id (fst r) = c_id c /\ c_n (fst r) = c_n c /\ c_disp (fst r) = c_disp c /\
              (forall e, In e (snd r) -> fst e = c_id c /\ quiet (snd e) = true)).
    { unfold nu1. destruct (bh + c_n c - 1 <? height).
      - simpl. split; [|split; [|split]]; auto. intros e [].
      - apply notify_left_spec. }
    simpl in H1. destruct (nu1 height bh c) as [c1 e1]. simpl in H1.
    destruct H1 as [A1 [A2 [A3 A4]]].
    specialize (IH c1). simpl in IH. destruct (nuN k height bh c1) as [c2 e2]. simpl in *.
    destruct IH as [B1 [B2 [B3 B4]]].
    split; [|split; [|split]]; try congruence.
    intros e He. apply in_app_iff in He.
    destruct He as [He|He]; [apply A4 in He|apply B4 in He]; destruct He; split; congruence.
Qed.

Lemma notify1_spec k height d q c :
  let r := notify1 k height d q c in
  c_id (fst r) = c_id c /\ c_n (fst r) = c_n c /\
  (forall e, In e (snd r) -> fst e = c_id c) /\
  c_disp (fst r) = (c_disp c || pmem (height, c_id c) q) /\
  (forall e, In e (snd r) -> snd e = EConf (fst d) (snd d) \/ quiet (snd e) = true) /\
  ((exists e, In e (snd r) /\ snd e = EConf (fst d) (snd d)) ->
     c_disp c = false /\ pmem (height, c_id c) q = true) /\
  fold_left clstep (map snd (snd r)) (ctold c (Some d)) = ctold (fst r) (Some d).
Proof.
  unfold notify1.
  pose proof (nuN_spec k height (fst d) c) as H1. simpl in H1.
  destruct (nuN k height (fst d) c) as [c1 e1]. simpl in H1.
  destruct H1 as [A1 [A2 [A3 A4]]].
  assert (Hq1 : forall e, In e (map snd e1) -> quiet e = true).
  { intros e He. apply in_map_iff in He. destruct He as [x [<- Hx]]. apply A4. exact Hx. }
  unfold nc1. rewrite A1, A3.
  assert (Hno : let r := (c1, e1 ++ []) in
     c_id (fst r) = c_id c /\ c_n (fst r) = c_n c /\
     (forall e, In e (snd r) -> fst e = c_id c) /\
     c_disp (fst r) = c_disp c /\
     (forall e, In e (snd r) -> snd e = EConf (fst d) (snd d) \/ quiet (snd e) = true) /\
     ((exists e, In e (snd r) /\ snd e = EConf (fst d) (snd d)) -> False) /\
     fold_left clstep (map snd (snd r)) (ctold c (Some d)) = ctold (fst r) (Some d)).
  { simpl. rewrite app_nil_r.
    split; [auto|split; [auto|split; [|split; [auto|split; [|split]]]]].
    - intros e He. apply A4. exact He.
    - intros e He. right. apply A4. exact He.
    - intros [e [He Hc]]. apply A4 in He. destruct He as [_ Hq]. rewrite Hc in Hq. discriminate.
    - rewrite fold_quiet; auto. unfold ctold. rewrite A3. reflexivity. }
  simpl in Hno. destruct Hno as [N1 [N2 [N3 [N4 [N5 [N6 N7]]]]]].
  destruct (pmem (height, c_id c) q) eqn:Ep; destruct (c_disp c) eqn:Ed; simpl.
  - split; [auto|split; [auto|split; [auto|split; [auto|split; [auto|split; [|auto]]]]]].
    intros Hex. destruct (N6 Hex).
  - split; [auto|split; [auto|split; [|split; [auto|split; [|split]]]]].
    + intros e He. apply in_app_iff in He. destruct He as [He|[<-|[]]]; auto. apply A4. exact He.
    + intros e He. apply in_app_iff in He. destruct He as [He|[<-|[]]]; auto. right. apply A4. exact He.
    + auto.
    + rewrite map_app, fold_left_app, (fold_quiet (map snd e1)); auto. unfold ctold. rewrite Ed. simpl.
      destruct d; reflexivity.
  - split; [auto|split; [auto|split; [auto|split; [auto|split; [auto|split; [|auto]]]]]].
    intros Hex. destruct (N6 Hex).
  - split; [auto|split; [auto|split; [auto|split; [auto|split; [auto|split; [|auto]]]]]].
    intros Hex. destruct (N6 Hex).
Qed.

(* DisconnectTip for one client when confsByInitialHeight holds exactly [x] *)
Lemma reorgN_single x height depth c :
  reorgN [x] height depth c =
  if N.eqb x height
  then (mkCN (c_id c) (c_n c) false (c_n c), [(c_id c, ENeg depth)],
        if c_disp c then [] else [(height + c_n c - 1, c_id c)])
  else (mkCN (c_id c) (c_n c) (c_disp c) (c_n c), [], []).
Proof.
  simpl. unfold reorg1. destruct (N.eqb x height); simpl; rewrite ?app_nil_r; reflexivity.
Qed.
