(* C14, confirmation side: case analysis of every TxNotifier call of the model
   ("shape" of the successor state), shared by the three invariant layers. *)
From Coq Require Import List NArith Bool Lia.
From LV Require Import Notifier.Model Notifier.Spec Notifier.Proofs Notifier.ConfLemmas.
Import ListNotations.
Local Open Scope N_scope.

Definition cs0 (s : option cs) : cs :=
  match s with Some s0 => s0 | None => mkCS RNotStarted None [] end.

Lemma creg_shape cu rd lim nid s ini q hn id n hnt st' r ev :
  cstep (mkC cu rd lim nid s ini q hn) (CReg id n hnt) = Some (st', r, ev) ->
  (st' = mkC cu rd lim nid s ini q hn /\ ev = []) \/
  (nid <= id /\ 1 <= n <= lim /\
   let l := cs_ntfns (cs0 s) ++ [mkCN id n false n] in
   ((exists rs', st' = mkC cu rd lim (id + 1) (Some (mkCS rs' (cs_det (cs0 s)) l)) ini q hn /\
       ev = [] /\
       (cs_det (cs0 s) = None \/ cs_rescan (cs0 s) <> RComplete) /\
       (rs' = RComplete ->
          cs_rescan (cs0 s) = RComplete \/
          (cs_rescan (cs0 s) = RNotStarted /\ cu < max_hint hnt hn))) \/
    (exists h b, cs_rescan (cs0 s) = RComplete /\ cs_det (cs0 s) = Some (h, b) /\
       st' = mkC cu rd lim (id + 1)
                 (Some (mkCS RComplete (Some (h, b)) (map (d_n cu lim (h, b)) l)))
                 (if existsb (d_i cu lim (h, b)) l then add h ini else ini)
                 (padd_all (flat_map (d_q cu lim (h, b)) l) q) hn /\
       ev = flat_map (d_e cu lim (h, b)) l))).
Proof.
  intros E. simpl in E.
  destruct (id <? nid) eqn:Eid; [inversion E; auto|].
  destruct ((n =? 0) || (lim <? n)) eqn:En; [inversion E; auto|].
  destruct (hnt =? 0) eqn:Eh; [inversion E; auto|].
  right. apply N.ltb_ge in Eid. apply orb_false_iff in En. destruct En as [En1 En2].
  apply N.eqb_neq in En1. apply N.ltb_ge in En2.
  split; [exact Eid|]. split; [lia|].
  fold (cs0 s) in E. cbv zeta.
  destruct (cs_rescan (cs0 s)) eqn:Er.
  - left. destruct (cu <? max_hint hnt hn) eqn:Ec; inversion E; subst; clear E.
    + exists RComplete. split; [reflexivity|]. split; [reflexivity|]. split.
      * right. discriminate.
      * intros _. right. split; auto. apply N.ltb_lt. exact Ec.
    + exists RPending. split; [reflexivity|]. split; [reflexivity|]. split.
      * right. discriminate.
      * discriminate.
  - left. inversion E; subst; clear E.
    exists RPending. split; [reflexivity|]. split; [reflexivity|]. split.
    + right. discriminate.
    + discriminate.
  - destruct (cs_det (cs0 s)) as [[h b]|] eqn:Ed.
    + right. exists h, b. simpl in E. unfold dispatch_all in E. inversion E; subst; clear E.
      auto.
    + left. simpl in E. inversion E; subst; clear E.
      exists RComplete. split; [reflexivity|]. split; [reflexivity|]. split; auto.
Qed.

Lemma ccancel_shape cu rd lim nid s ini q hn id st' r ev :
  cstep (mkC cu rd lim nid s ini q hn) (CCancel id) = Some (st', r, ev) ->
  ev = [] /\
  (st' = mkC cu rd lim nid s ini q hn \/
   exists s0 c, s = Some s0 /\ find_id id (cs_ntfns s0) = Some c /\
     st' = mkC cu rd lim nid
               (Some (mkCS (cs_rescan s0) (cs_det s0) (remove_id id (cs_ntfns s0)))) ini
               (match cs_det s0 with
                | Some (h, _) => pdel (h + c_n c - 1, id) q
                | None => q end) hn).
Proof.
  intros E. simpl in E.
  destruct s as [s0|]; [|inversion E; auto].
  destruct (find_id id (cs_ntfns s0)) as [c|] eqn:Ef; inversion E; subst; clear E; auto.
  split; auto. right. exists s0, c. auto.
Qed.

Lemma cupd_shape cu rd lim nid s ini q hn r0 st' r ev :
  cstep (mkC cu rd lim nid s ini q hn) (CUpd r0) = Some (st', r, ev) ->
  (st' = mkC cu rd lim nid s ini q hn /\ ev = []) \/
  (exists s0, s = Some s0 /\ cs_det s0 = None /\
    ((r0 = None /\ ev = [] /\
      st' = mkC cu rd lim nid (Some (mkCS RComplete None (cs_ntfns s0))) ini q (Some cu)) \/
     (exists h b, r0 = Some (h, b) /\ cu < h /\ ev = [] /\
      st' = mkC cu rd lim nid (Some (mkCS RComplete None (cs_ntfns s0))) ini q hn) \/
     (exists h b, r0 = Some (h, b) /\ h <= cu /\
      ev = flat_map (d_e cu lim (h, b)) (cs_ntfns s0) /\
      st' = mkC cu rd lim nid
                (Some (mkCS RComplete (Some (h, b)) (map (d_n cu lim (h, b)) (cs_ntfns s0))))
                (if (cu <? h + lim) || existsb (d_i cu lim (h, b)) (cs_ntfns s0) then add h ini else ini)
                (padd_all (flat_map (d_q cu lim (h, b)) (cs_ntfns s0)) q) (Some h)))).
Proof.
  intros E. simpl in E.
  destruct s as [s0|]; [|inversion E; auto].
  destruct (cs_det s0) as [d|] eqn:Ed; [inversion E; auto|].
  right. exists s0. split; auto. split; auto.
  destruct r0 as [[h b]|].
  - destruct (cu <? h) eqn:Ec.
    + inversion E; subst; clear E. right. left. exists h, b. apply N.ltb_lt in Ec. auto.
    + unfold dispatch_all in E. inversion E; subst; clear E. right. right. exists h, b.
      apply N.ltb_ge in Ec. auto.
  - inversion E; subst; clear E. left. auto.
Qed.

Lemma cnotify_shape cu rd lim nid s ini q hn st' r ev :
  cstep (mkC cu rd lim nid s ini q hn) CNotify = Some (st', r, ev) ->
  (st' = mkC cu rd lim nid s ini q hn /\ ev = [] /\
   forall s0, s = Some s0 -> cs_det s0 = None) \/
  (exists s0 bh bid, s = Some s0 /\ cs_det s0 = Some (bh, bid) /\
     ev = flat_map (fun c => snd (notify1 ini cu (bh, bid) q c)) (cs_ntfns s0) /\
     st' = mkC cu rd lim nid
               (Some (mkCS (cs_rescan s0) (Some (bh, bid))
                           (map (fun c => fst (notify1 ini cu (bh, bid) q c)) (cs_ntfns s0))))
               ini (filter (fun e => negb (N.eqb (fst e) cu)) q) hn).
Proof.
  intros E. simpl in E.
  destruct s as [s0|].
  - destruct (cs_det s0) as [[bh bid]|] eqn:Ed.
    + destruct (negb (queue_live cu q (cs_ntfns s0))); [discriminate|].
      inversion E; subst; clear E. right. exists s0, bh, bid. rewrite Ed. auto.
    + match type of E with (if ?b then _ else _) = _ => destruct b end; [discriminate|].
      inversion E; subst; clear E. left. split; auto. split; auto.
      intros s1 Hs. inversion Hs; subst. exact Ed.
  - match type of E with (if ?b then _ else _) = _ => destruct b end; [discriminate|].
    inversion E; subst; clear E. left. split; auto. split; auto. intros; discriminate.
Qed.

(* ConnectTip at the right height *)
Lemma cconnect_shape cu rd lim nid s ini q hn bid has st' r ev :
  cstep (mkC cu rd lim nid s ini q hn) (CConnect (cu + 1) bid has) = Some (st', r, ev) ->
  r = ROk None /\
  exists s1 ini1 q1,
    ((exists s0, s = Some s0 /\ has = true /\ cs_det s0 = None /\
        s1 = Some (mkCS RComplete (Some (cu + 1, bid)) (cs_ntfns s0)) /\
        ini1 = add (cu + 1) ini /\
        q1 = padd_all (map (fun c => (cu + 1 + c_n c - 1, c_id c)) (cs_ntfns s0)) q) \/
     (s1 = s /\ ini1 = ini /\ q1 = q /\
      (has = true -> forall s0, s = Some s0 -> cs_det s0 <> None))) /\
    ((exists s2, s1 = Some s2 /\ lim <= cu + 1 /\ In (cu + 1 - lim) ini1 /\
        st' = mkC (cu + 1) 0 lim nid None (del (cu + 1 - lim) ini1) q1
                  (upd_hint s1 ini1 (cu + 1) (cu + 1) hn) /\
        ev = done_events (cs_ntfns s2)) \/
     ((lim <= cu + 1 -> ~ In (cu + 1 - lim) ini1) /\
      st' = mkC (cu + 1) 0 lim nid s1 ini1 q1 (upd_hint s1 ini1 (cu + 1) (cu + 1) hn) /\
      ev = [])).
Proof.
  intros E. simpl in E. rewrite N.eqb_refl in E. simpl in E.
  assert (Hfin : forall s1 ini1 q1,
    (if (lim <=? cu + 1) && mem (cu + 1 - lim) ini1
     then match s1 with
          | Some s2 => Some (mkC (cu + 1) 0 lim nid None (del (cu + 1 - lim) ini1) q1
                                 (upd_hint s1 ini1 (cu + 1) (cu + 1) hn),
                             ROk None, done_events (cs_ntfns s2))
          | None => None end
     else Some (mkC (cu + 1) 0 lim nid s1 ini1 q1 (upd_hint s1 ini1 (cu + 1) (cu + 1) hn),
                ROk None, [])) = Some (st', r, ev) ->
    r = ROk None /\
    ((exists s2, s1 = Some s2 /\ lim <= cu + 1 /\ In (cu + 1 - lim) ini1 /\
        st' = mkC (cu + 1) 0 lim nid None (del (cu + 1 - lim) ini1) q1
                  (upd_hint s1 ini1 (cu + 1) (cu + 1) hn) /\
        ev = done_events (cs_ntfns s2)) \/
     ((lim <= cu + 1 -> ~ In (cu + 1 - lim) ini1) /\
      st' = mkC (cu + 1) 0 lim nid s1 ini1 q1 (upd_hint s1 ini1 (cu + 1) (cu + 1) hn) /\
      ev = []))).
  { intros s1 ini1 q1 E1.
    destruct ((lim <=? cu + 1) && mem (cu + 1 - lim) ini1) eqn:Ep.
    - apply andb_true_iff in Ep. destruct Ep as [Ep1 Ep2]. apply N.leb_le in Ep1. apply mem_In in Ep2.
      destruct s1 as [s2|]; [|discriminate]. inversion E1; subst; clear E1.
      split; auto. left. exists s2. auto.
    - inversion E1; subst; clear E1. split; auto. right.
      split; auto. intros Hl Hin. apply N.leb_le in Hl. apply mem_In in Hin.
      rewrite Hl, Hin in Ep. discriminate. }
  destruct s as [s0|]; [destruct has; [destruct (cs_det s0) eqn:Ed|]|].
  - apply (Hfin (Some s0) ini q) in E. destruct E as [Hr Hc]. split; [exact Hr|].
    do 3 eexists. split; [|exact Hc].
    right. repeat split; auto. intros _ s1 Hs. inversion Hs; subst. congruence.
  - apply (Hfin (Some (mkCS RComplete (Some (cu + 1, bid)) (cs_ntfns s0))) (add (cu + 1) ini)
                (padd_all (map (fun c => (cu + 1 + c_n c - 1, c_id c)) (cs_ntfns s0)) q)) in E.
    destruct E as [Hr Hc]. split; [exact Hr|].
    do 3 eexists. split; [|exact Hc].
    left. exists s0. repeat split; auto.
  - apply (Hfin (Some s0) ini q) in E. destruct E as [Hr Hc]. split; [exact Hr|].
    do 3 eexists. split; [|exact Hc].
    right. repeat split; auto. discriminate.
  - apply (Hfin None ini q) in E. destruct E as [Hr Hc]. split; [exact Hr|].
    do 3 eexists. split; [|exact Hc].
    right. repeat split; auto. intros; discriminate.
Qed.

(* DisconnectTip at the right height *)
Lemma cdisconnect_shape cu rd lim nid s ini q hn st' r ev :
  cstep (mkC cu rd lim nid s ini q hn) (CDisconnect cu) = Some (st', r, ev) ->
  r = ROk None /\
  ((ini = [] /\ ev = [] /\
    st' = mkC (cu - 1) (rd + 1) lim nid s [] q (upd_hint s [] cu (cu - 1) hn)) \/
   (ini <> [] /\ exists s0, s = Some s0 /\
     let f := reorgN ini cu (rd + 1) in
     ev = flat_map (fun c => snd (fst (f c))) (cs_ntfns s0) /\
     st' = mkC (cu - 1) (rd + 1) lim nid
               (Some (mkCS (cs_rescan s0) (if mem cu ini then None else cs_det s0)
                           (map (fun c => fst (fst (f c))) (cs_ntfns s0))))
               (del cu ini)
               (pdel_all (flat_map (fun c => snd (f c)) (cs_ntfns s0)) q)
               (upd_hint s ini cu (cu - 1) hn))).
Proof.
  intros E. simpl in E. rewrite N.eqb_refl in E. simpl in E.
  destruct ini as [|x ini'].
  - inversion E; subst; clear E. split; auto.
  - destruct s as [s0|]; [|discriminate]. inversion E; subst; clear E. split; auto.
    right. split; [discriminate|]. exists s0. auto.
Qed.
