(* C14, confirmation side, layer A: the cached confirmation details, the
   rescan status, confsByInitialHeight and the confirm hint follow the active
   chain (the analogue of SInv). *)
From Coq Require Import List NArith Bool Lia.
From LV Require Import Notifier.Model Notifier.Spec Notifier.Proofs Notifier.ConfLemmas
  Notifier.ConfShape.
Import ListNotations.
Local Open Scope N_scope.
Local Arguments reorgN : simpl never.

Record CInvA (w : cworld) : Prop := {
  ca_chain : chain_ok (cur (cw_st w)) (cw_chain w);
  ca_uniq : cuniq (cw_chain w);
  ca_high : cur (cw_st w) <= cw_high w;
  ca_lim : 1 <= limit (cw_st w);
  ca_det : forall s h b, cset (cw_st w) = Some s -> cs_det s = Some (h, b) ->
           cpos (cw_chain w) = Some (h, b) /\ cs_rescan s = RComplete;
  ca_nodet : forall s, cset (cw_st w) = Some s -> cs_det s = None ->
             cs_rescan s = RComplete -> cpos (cw_chain w) = None;
  ca_track : forall s h b, cset (cw_st w) = Some s -> cs_det s = Some (h, b) ->
             cw_high w < h + limit (cw_st w) -> In h (initial (cw_st w));
  ca_ini : forall x, In x (initial (cw_st w)) ->
           initial (cw_st w) = [x] /\
           exists s b, cset (cw_st w) = Some s /\ cs_det s = Some (x, b);
  ca_hint : forall x h b, hint (cw_st w) = Some x -> cpos (cw_chain w) = Some (h, b) -> x <= h;
  ca_nodup : forall s, cset (cw_st w) = Some s -> NoDup (map c_id (cs_ntfns s));
  ca_cl : forall s c, cset (cw_st w) = Some s -> In c (cs_ntfns s) ->
          c_id c < nextid (cw_st w) /\ 1 <= c_n c <= limit (cw_st w) /\
          (cs_det s = None -> c_disp c = false)
}.

Ltac sset H := inversion H; subst; clear H; simpl in *.

Lemma cinva_log ch st pend pend' high log log' :
  CInvA (mkCW ch st pend high log) -> CInvA (mkCW ch st pend' high log').
Proof. intros [A B C D E F G H I J K]. constructor; auto. Qed.

Lemma cinva_reg ch cu rd lim nid s ini q hn pend high log id n hnt st' r ev :
  CInvA (mkCW ch (mkC cu rd lim nid s ini q hn) pend high log) ->
  (forall h b, cpos ch = Some (h, b) -> hnt <= h) ->
  cstep (mkC cu rd lim nid s ini q hn) (CReg id n hnt) = Some (st', r, ev) ->
  CInvA (mkCW ch st' pend high (log ++ ev)).
Proof.
  intros I V E. apply creg_shape in E.
  destruct E as [[-> ->]|[Hid [Hn E]]]; [eapply cinva_log; eauto|].
  cbv zeta in E.
  destruct I as [Ichain Iuniq Ihigh Ilim Idet Inodet Itrack Iini Ihint Ind Icl]. simpl in *.
  assert (Hdet0 : forall h b, cs_det (cs0 s) = Some (h, b) ->
                  cpos ch = Some (h, b) /\ cs_rescan (cs0 s) = RComplete).
  { destruct s as [s0|]; simpl; [intros; eapply Idet; eauto|discriminate]. }
  assert (Hnodet0 : cs_det (cs0 s) = None -> cs_rescan (cs0 s) = RComplete -> cpos ch = None).
  { destruct s; simpl; [intros; eapply Inodet; eauto|discriminate]. }
  assert (Hnd0 : NoDup (map c_id (cs_ntfns (cs0 s)))).
  { destruct s; simpl; [eauto|constructor]. }
  assert (Hcl0 : forall c, In c (cs_ntfns (cs0 s)) ->
            c_id c < nid /\ 1 <= c_n c <= lim /\ (cs_det (cs0 s) = None -> c_disp c = false)).
  { destruct s; simpl; [intros; eapply Icl; eauto|intros c []]. }
  assert (Hini0 : forall x, In x ini -> ini = [x] /\ exists b, cs_det (cs0 s) = Some (x, b)).
  { intros x Hx. destruct (Iini x Hx) as [A [s1 [b [Hs Hd]]]]. subst s. simpl. eauto. }
  assert (Htrack0 : forall h b, cs_det (cs0 s) = Some (h, b) -> high < h + lim -> In h ini).
  { destruct s; simpl; [intros; eapply Itrack; eauto|discriminate]. }
  set (l := cs_ntfns (cs0 s) ++ [mkCN id n false n]) in *.
  assert (Hndl : NoDup (map c_id l)).
  { apply creg_nodup with (nid := nid) (id := id); auto. intros; apply Hcl0; auto. }
  assert (Hcll : forall c, In c l ->
            c_id c < id + 1 /\ 1 <= c_n c <= lim /\ (cs_det (cs0 s) = None -> c_disp c = false)).
  { intros c Hc. apply in_app_iff in Hc. destruct Hc as [Hc|[<-|[]]]; simpl.
    - destruct (Hcl0 c Hc) as [A [B C]]. repeat split; auto; lia.
    - repeat split; auto; lia. }
  destruct E as [[rs' [-> [-> [Hnc Hrs]]]]|[h [b [Hr [Hd [-> ->]]]]]].
  - (* no dispatch *)
    constructor; simpl.
    + exact Ichain.
    + exact Iuniq.
    + exact Ihigh.
    + exact Ilim.
    + intros s1 h b Hs Hd1. sset Hs. destruct (Hdet0 h b Hd1) as [A B].
      destruct Hnc; congruence.
    + intros s1 Hs Hd1 Hr1. sset Hs. destruct (Hrs Hr1) as [Hc|[Hns Hlt]]; [auto|].
      destruct (cpos ch) as [[h b]|] eqn:Ep; auto. exfalso.
      assert (max_hint hnt hn <= h) by (apply max_hint_le; eauto).
      pose proof (cpos_le _ _ _ _ Ichain Ep). lia.
    + intros s1 h b Hs Hd1. sset Hs. eauto.
    + intros x Hx. destruct (Hini0 x Hx) as [A [b B]]. split; auto.
      eexists _, b. split; [reflexivity|exact B].
    + exact Ihint.
    + intros s1 Hs. sset Hs. exact Hndl.
    + intros s1 c Hs Hc. sset Hs. apply Hcll; auto.
  - (* dispatch *)
    destruct (Hdet0 h b Hd) as [Hp _].
    assert (Hsing : forall y, In y ini -> ini = [y] /\ y = h).
    { intros y Hy. destruct (Hini0 y Hy) as [A [b1 B]]. split; auto. congruence. }
    constructor; simpl.
    + exact Ichain.
    + exact Iuniq.
    + exact Ihigh.
    + exact Ilim.
    + intros s1 h1 b1 Hs Hd1. sset Hs. inversion Hd1; subst. auto.
    + intros s1 Hs Hd1. sset Hs. discriminate.
    + intros s1 h1 b1 Hs Hd1 Hlt. sset Hs. inversion Hd1; subst.
      destruct (existsb (d_i cu lim (h1, b1)) l); [apply In_add; right|]; eauto.
    + intros x Hx. destruct (existsb (d_i cu lim (h, b)) l).
      * rewrite (add_single h ini Hsing) in *. destruct Hx as [<-|[]]. split; auto.
        eexists _, b. split; reflexivity.
      * destruct (Hsing x Hx) as [A ->]. split; auto. eexists _, b; split; reflexivity.
    + exact Ihint.
    + intros s1 Hs. sset Hs. rewrite map_id_map; auto. intros c. apply dispatch1_spec.
    + intros s1 c Hs Hc. sset Hs. apply in_map_iff in Hc. destruct Hc as [c0 [<- Hc0]].
      destruct (dispatch1_spec cu lim h b c0) as [A [B _]]. rewrite A, B.
      destruct (Hcll c0 Hc0) as [X [Y _]]. repeat split; auto; try lia. discriminate.
Qed.

Lemma cinva_cancel ch cu rd lim nid s ini q hn pend high log id st' r ev :
  CInvA (mkCW ch (mkC cu rd lim nid s ini q hn) pend high log) ->
  cstep (mkC cu rd lim nid s ini q hn) (CCancel id) = Some (st', r, ev) ->
  CInvA (mkCW ch st' pend high (log ++ ev)).
Proof.
  intros I E. apply ccancel_shape in E. destruct E as [-> [->|[s0 [c [-> [Hf ->]]]]]];
    [eapply cinva_log; eauto|].
  destruct I as [Ichain Iuniq Ihigh Ilim Idet Inodet Itrack Iini Ihint Ind Icl]. simpl in *.
  constructor; simpl.
  - exact Ichain.
  - exact Iuniq.
  - exact Ihigh.
  - exact Ilim.
  - intros s1 h b Hs Hd. sset Hs. eapply Idet; eauto.
  - intros s1 Hs Hd Hr. sset Hs. eapply Inodet; eauto.
  - intros s1 h b Hs Hd. sset Hs. eapply Itrack; eauto.
  - intros x Hx. destruct (Iini x Hx) as [A [s1 [b [Hs Hd]]]]. sset Hs. split; auto.
    eexists _, b. split; [reflexivity|exact Hd].
  - exact Ihint.
  - intros s1 Hs. sset Hs. unfold remove_id. apply NoDup_map_filter. eauto.
  - intros s1 c1 Hs Hc. sset Hs. apply remove_In in Hc. destruct Hc as [Hc _].
    apply (Icl s0 c1 eq_refl Hc).
Qed.

Lemma existsb_const {T} (f : T -> bool) v l :
  l <> [] -> (forall c, In c l -> f c = v) -> existsb f l = v.
Proof.
  intros Hne H. destruct v.
  - destruct l as [|c l]; [congruence|]. simpl. rewrite (H c (or_introl eq_refl)). reflexivity.
  - clear Hne. induction l as [|a l IH]; simpl; auto.
    rewrite (H a (or_introl eq_refl)). simpl. apply IH. intros c Hc. apply H. right. exact Hc.
Qed.

Lemma existsb_di cu lim h b (l : list cntfn) :
  l <> [] -> (forall c, In c l -> c_disp c = false) ->
  existsb (d_i cu lim (h, b)) l = (cu <? h + lim).
Proof.
  intros Hne Hd. apply existsb_const; auto.
  intros c Hc. destruct (dispatch1_spec cu lim h b c) as [_ [_ [_ [_ Hf]]]].
  destruct (Hf (Hd c Hc)) as [-> _]. reflexivity.
Qed.

Lemma cinva_upd ch cu rd lim nid s ini q hn pend high log r0 st' r ev :
  CInvA (mkCW ch (mkC cu rd lim nid s ini q hn) pend high log) ->
  cvalid (mkCW ch (mkC cu rd lim nid s ini q hn) pend high log) (CUpd r0) ->
  cstep (mkC cu rd lim nid s ini q hn) (CUpd r0) = Some (st', r, ev) ->
  CInvA (mkCW ch st' pend high (log ++ ev)).
Proof.
  intros I V E. apply cupd_shape in E.
  destruct E as [[-> ->]|[s0 [-> [Hd0 E]]]]; [eapply cinva_log; eauto|].
  destruct I as [Ichain Iuniq Ihigh Ilim Idet Inodet Itrack Iini Ihint Ind Icl]. simpl in *.
  specialize (V s0 eq_refl Hd0).
  assert (Hini : ini = []).
  { destruct ini as [|x r1]; auto. destruct (Iini x (or_introl eq_refl)) as [_ [s1 [b [Hs Hd]]]].
    sset Hs. congruence. }
  subst ini.
  assert (Hnone : forall l' hn', cpos ch = None ->
            CInvA (mkCW ch (mkC cu rd lim nid (Some (mkCS RComplete None l')) [] q hn') pend high
                        (log ++ [])) ->
            True) by auto.
  destruct E as [[-> [-> ->]]|[[h [b [-> [Hlt [-> ->]]]]]|[h [b [-> [Hle [-> ->]]]]]]].
  - (* not found *)
    constructor; simpl.
    + exact Ichain.
    + exact Iuniq.
    + exact Ihigh.
    + exact Ilim.
    + intros s1 h b Hs Hd. sset Hs. discriminate.
    + intros s1 Hs _ _. exact V.
    + intros s1 h b Hs Hd. sset Hs. discriminate.
    + intros x [].
    + intros x h b _ Hp. rewrite V in Hp. discriminate.
    + intros s1 Hs. sset Hs. eauto.
    + intros s1 c Hs Hc. sset Hs. destruct (Icl s0 c eq_refl Hc) as [A [B C]]. auto.
  - (* found above the tip *)
    assert ((h <=? cu) = false) as Hb by (apply N.leb_gt; lia). rewrite Hb in V.
    constructor; simpl.
    + exact Ichain.
    + exact Iuniq.
    + exact Ihigh.
    + exact Ilim.
    + intros s1 h1 b1 Hs Hd. sset Hs. discriminate.
    + intros s1 Hs _ _. exact V.
    + intros s1 h1 b1 Hs Hd. sset Hs. discriminate.
    + intros x [].
    + exact Ihint.
    + intros s1 Hs. sset Hs. eauto.
    + intros s1 c Hs Hc. sset Hs. destruct (Icl s0 c eq_refl Hc) as [A [B C]]. auto.
  - (* found *)
    assert ((h <=? cu) = true) as Hb by (apply N.leb_le; lia). rewrite Hb in V.
    rename V into Vp.
    constructor; simpl.
    + exact Ichain.
    + exact Iuniq.
    + exact Ihigh.
    + exact Ilim.
    + intros s2 h1 b1 Hs Hd. sset Hs. inversion Hd; subst. auto.
    + intros s2 Hs Hd. sset Hs. discriminate.
    + intros s2 h1 b1 Hs Hd Hlt. sset Hs. inversion Hd; subst.
      assert ((cu <? h1 + lim) = true) as -> by (apply N.ltb_lt; lia). simpl. auto.
    + intros x Hx.
      match type of Hx with In _ (if ?bb then _ else _) => destruct bb end; [|destruct Hx].
      simpl in Hx. destruct Hx as [<-|[]].
      split; [reflexivity|]. eexists _, b. split; reflexivity.
    + intros x h1 b1 Hx Hp. inversion Hx; subst. rewrite Vp in Hp. inversion Hp; subst. lia.
    + intros s2 Hs. sset Hs. rewrite map_id_map; eauto. intros c. apply dispatch1_spec.
    + intros s2 c Hs Hc. sset Hs. apply in_map_iff in Hc. destruct Hc as [c0 [<- Hc0]].
      destruct (dispatch1_spec cu lim h b c0) as [A [B _]]. rewrite A, B.
      destruct (Icl s0 c0 eq_refl Hc0) as [X [Y _]]. repeat split; auto; try lia. discriminate.
Qed.

Lemma cinva_notify ch cu rd lim nid s ini q hn pend high log st' r ev :
  CInvA (mkCW ch (mkC cu rd lim nid s ini q hn) pend high log) ->
  cstep (mkC cu rd lim nid s ini q hn) CNotify = Some (st', r, ev) ->
  CInvA (mkCW ch st' false high (log ++ ev)).
Proof.
  intros I E. apply cnotify_shape in E.
  destruct E as [[-> [-> _]]|[s0 [bh [bid [-> [Hd [-> ->]]]]]]]; [eapply cinva_log; eauto|].
  destruct I as [Ichain Iuniq Ihigh Ilim Idet Inodet Itrack Iini Ihint Ind Icl]. simpl in *.
  constructor; simpl.
  - exact Ichain.
  - exact Iuniq.
  - exact Ihigh.
  - exact Ilim.
  - intros s1 h b Hs Hd1. sset Hs. inversion Hd1; subst. eapply Idet; eauto.
  - intros s1 Hs Hd1. sset Hs. discriminate.
  - intros s1 h b Hs Hd1. sset Hs. inversion Hd1; subst. eapply Itrack; eauto.
  - intros x Hx. destruct (Iini x Hx) as [A [s1 [b [Hs Hd1]]]]. sset Hs. split; auto.
    rewrite Hd in Hd1. inversion Hd1; subst. eexists _, b. split; reflexivity.
  - exact Ihint.
  - intros s1 Hs. sset Hs. rewrite map_id_map; eauto. intros c. apply notify1_spec.
  - intros s1 c Hs Hc. sset Hs. apply in_map_iff in Hc. destruct Hc as [c0 [<- Hc0]].
    destruct (notify1_spec ini cu (bh, bid) q c0) as [A [B _]]. rewrite A, B.
    destruct (Icl s0 c0 eq_refl Hc0) as [X [Y _]]. repeat split; auto; try lia. discriminate.
Qed.

Lemma cinva_connect ch cu rd lim nid s ini q hn pend high log bid has st' r ev :
  CInvA (mkCW ch (mkC cu rd lim nid s ini q hn) pend high log) ->
  (has = true -> cpos ch = None) ->
  (has = true -> s = None -> forall x, hn = Some x -> x <= cu + 1) ->
  cstep (mkC cu rd lim nid s ini q hn) (CConnect (cu + 1) bid has) = Some (st', r, ev) ->
  CInvA (mkCW ((cu + 1, (bid, has)) :: ch) st' true (N.max (cu + 1) high) (log ++ ev)).
Proof.
  intros I Vu Vh E. apply cconnect_shape in E. destruct E as [_ [s1 [ini1 [q1 [Hc1 Hc2]]]]].
  destruct I as [Ichain Iuniq Ihigh Ilim Idet Inodet Itrack Iini Ihint Ind Icl]. simpl in *.
  assert (Hck : chain_ok (cu + 1) ((cu + 1, (bid, has)) :: ch)).
  { simpl. split; auto. split; [lia|]. replace (cu + 1 - 1) with cu by lia. auto. }
  assert (Hun : cuniq ((cu + 1, (bid, has)) :: ch)) by (simpl; auto).
  assert (Hnh : ~ In (cu + 1) ini).
  { intros Hin. destruct (Iini _ Hin) as [_ [s2 [b [Hs Hd]]]].
    destruct (Idet _ _ _ Hs Hd) as [Hp _]. pose proof (cpos_le _ _ _ _ Ichain Hp). lia. }
  assert (Hmax : cu + 1 <= N.max (cu + 1) high) by lia.
  destruct Hc1 as [[s0 [-> [-> [Hd0 [-> [-> ->]]]]]]|[-> [-> [-> Hdet1]]]].
  - (* the tx is included in the new tip *)
    assert (ini = []) as ->.
    { destruct ini as [|x r0]; auto. destruct (Iini x (or_introl eq_refl)) as [_ [s2 [b [Hs Hd]]]].
      sset Hs. congruence. }
    change (add (cu + 1) []) with [cu + 1] in *.
    destruct Hc2 as [[s2 [_ [Hl [Hin _]]]]|[_ [-> ->]]].
    + exfalso. destruct Hin as [Hin|[]]. lia.
    + assert (Hh : upd_hint (Some (mkCS RComplete (Some (cu + 1, bid)) (cs_ntfns s0))) [cu + 1]
                            (cu + 1) (cu + 1) hn = Some (cu + 1)).
      { unfold upd_hint. simpl. rewrite N.eqb_refl. reflexivity. }
      rewrite Hh.
      constructor; simpl.
      * exact Hck.
      * exact Hun.
      * exact Hmax.
      * exact Ilim.
      * intros s1 h b Hs Hd. sset Hs. inversion Hd; subst. auto.
      * intros s1 Hs Hd. sset Hs. discriminate.
      * intros s1 h b Hs Hd _. sset Hs. inversion Hd; subst. auto.
      * intros x [<-|[]]. split; auto. eexists _, bid. split; reflexivity.
      * intros x h b Hx Hp. inversion Hx; subst. inversion Hp; subst. lia.
      * intros s1 Hs. sset Hs. eauto.
      * intros s1 c Hs Hc. sset Hs. destruct (Icl s0 c eq_refl Hc) as [A [B _]].
        repeat split; auto; try lia. discriminate.
  - (* nothing learnt from this block *)
    assert (Hhas : has = true -> s = None).
    { intros Hh. destruct s as [s0|]; auto. exfalso.
      destruct (cs_det s0) as [[h b]|] eqn:Ed.
      - destruct (Idet s0 h b eq_refl Ed) as [Hp _]. rewrite (Vu Hh) in Hp. discriminate.
      - apply (Hdet1 Hh s0 eq_refl Ed). }
    assert (Hcp : has = false -> cpos ((cu + 1, (bid, has)) :: ch) = cpos ch).
    { intros ->. reflexivity. }
    assert (Hhint : forall x h b, upd_hint s ini (cu + 1) (cu + 1) hn = Some x ->
                      cpos ((cu + 1, (bid, has)) :: ch) = Some (h, b) -> x <= h).
    { intros x h b Hx Hp. unfold upd_hint in Hx.
      assert (mem (cu + 1) ini = false) as Hm by (apply mem_false; auto).
      rewrite Hm, orb_false_r in Hx.
      destruct has.
      - rewrite (Hhas eq_refl) in *. simpl in Hx, Hp. inversion Hp; subst. eapply Vh; eauto.
      - rewrite Hcp in Hp; auto.
        destruct (unconfirmed s) eqn:Eu; [|eapply Ihint; eauto]. exfalso.
        unfold unconfirmed in Eu. destruct s as [s0|]; [|discriminate].
        apply andb_true_iff in Eu. destruct Eu as [Er Ed].
        destruct (cs_det s0) eqn:Ed0; [discriminate|].
        destruct (cs_rescan s0) eqn:Er0; try discriminate.
        rewrite (Inodet s0 eq_refl Ed0 Er0) in Hp. discriminate. }
    destruct Hc2 as [[s2 [-> [Hl [Hin [-> ->]]]]]|[Hnp [-> ->]]].
    + (* pruned past the reorg safety limit *)
      destruct (Iini _ Hin) as [Hi [s3 [b3 [Hs3 Hd3]]]]. sset Hs3.
      constructor; simpl.
      * exact Hck.
      * exact Hun.
      * exact Hmax.
      * exact Ilim.
      * intros; discriminate.
      * intros; discriminate.
      * intros; discriminate.
      * intros x Hx. rewrite N.eqb_refl in Hx. destruct Hx.
      * exact Hhint.
      * intros; discriminate.
      * intros; discriminate.
    + constructor; simpl.
      * exact Hck.
      * exact Hun.
      * exact Hmax.
      * exact Ilim.
      * intros s0 h b Hs Hd. destruct (Idet s0 h b Hs Hd) as [Hp Hr]. split; auto.
        destruct has; [|exact Hp]. rewrite (Hhas eq_refl) in Hs. discriminate.
      * intros s0 Hs Hd Hr. destruct has; [rewrite (Hhas eq_refl) in Hs; discriminate|].
        simpl. eapply Inodet; eauto.
      * intros s0 h b Hs Hd Hlt. eapply Itrack; eauto. lia.
      * exact Iini.
      * exact Hhint.
      * exact Ind.
      * exact Icl.
Qed.

Lemma cinva_disconnect ch cu rd lim nid s ini q hn pend high log st' r ev :
  CInvA (mkCW ch (mkC cu rd lim nid s ini q hn) pend high log) ->
  ch <> [] -> high < cu + lim ->
  cstep (mkC cu rd lim nid s ini q hn) (CDisconnect cu) = Some (st', r, ev) ->
  CInvA (mkCW (tl ch) st' pend high (log ++ ev)).
Proof.
  intros I Vne Vlim E. apply cdisconnect_shape in E. destruct E as [_ E].
  destruct I as [Ichain Iuniq Ihigh Ilim Idet Inodet Itrack Iini Ihint Ind Icl]. simpl in *.
  destruct ch as [|[h0 [b0 has0]] rch]; [congruence|]. simpl in Ichain, Iuniq |- *.
  destruct Ichain as [-> [Hpos Hrest]]. destruct Iuniq as [Hu Huniq].
  assert (Hbelow : forall h b, cpos rch = Some (h, b) -> h <= cu - 1)
    by (intros; eapply cpos_le; eauto).
  assert (Htl : forall h b, cpos rch = Some (h, b) -> has0 = false).
  { intros h b Hp. destruct has0; auto. rewrite Hu in Hp; auto; discriminate. }
  assert (Hhigh : cu - 1 <= high) by lia.
  assert (Hnew_hint : forall x h b, upd_hint s ini cu (cu - 1) hn = Some x ->
                        cpos rch = Some (h, b) -> x <= h).
  { intros x h b Hx Hp. pose proof (Htl _ _ Hp) as ->. unfold upd_hint in Hx.
    destruct (unconfirmed s) eqn:Eu.
    - exfalso. unfold unconfirmed in Eu. destruct s as [s0|]; [|discriminate].
      apply andb_true_iff in Eu. destruct Eu as [Er Ed].
      destruct (cs_det s0) eqn:Ed0; [discriminate|].
      destruct (cs_rescan s0) eqn:Er0; try discriminate.
      pose proof (Inodet s0 eq_refl Ed0 Er0) as Hn. simpl in Hn. congruence.
    - simpl in Hx. destruct (mem cu ini) eqn:Em.
      + exfalso. apply mem_In in Em. destruct (Iini _ Em) as [_ [s0 [b1 [Hs Hd]]]].
        destruct (Idet _ _ _ Hs Hd) as [Hp1 _]. simpl in Hp1. specialize (Hbelow _ _ Hp1). lia.
      + eapply Ihint; eauto. }
  destruct E as [[-> [-> ->]]|[Hne [s0 [-> E]]]].
  - (* confsByInitialHeight empty *)
    constructor; simpl.
    + exact Hrest.
    + exact Huniq.
    + exact Hhigh.
    + exact Ilim.
    + intros s1 h b Hs Hd. destruct (Idet s1 h b Hs Hd) as [Hp Hr]. split; auto.
      destruct has0; [|exact Hp]. simpl in Hp. assert (h = cu) by congruence. subst h.
      destruct (Itrack s1 _ _ Hs Hd Vlim).
    + intros s1 Hs Hd Hr. pose proof (Inodet s1 Hs Hd Hr) as Hn.
      destruct has0; simpl in Hn; [discriminate|exact Hn].
    + intros s1 h b Hs Hd Hlt. eapply Itrack; eauto.
    + intros x [].
    + exact Hnew_hint.
    + exact Ind.
    + exact Icl.
  - cbv zeta in E. destruct E as [-> ->].
    destruct ini as [|x ini']; [congruence|].
    destruct (Iini x (or_introl eq_refl)) as [Hi [s1 [bx [Hs1 Hdx]]]].
    inversion Hi; subst ini'. inversion Hs1; subst s1. clear Hs1 Hi Hne.
    destruct (Idet _ _ _ eq_refl Hdx) as [Hpx Hrx].
    destruct (N.eqb_spec x cu) as [->|Hxc].
    + (* the block holding the tx is disconnected *)
      assert (mem cu [cu] = true) as Hm by (apply mem_In; left; auto). rewrite Hm.
      assert (del cu [cu] = []) as Hdel by (unfold del; simpl; rewrite N.eqb_refl; reflexivity).
      rewrite Hdel.
      assert (has0 = true).
      { destruct has0; auto. simpl in Hpx. specialize (Hbelow _ _ Hpx). lia. }
      subst has0.
      assert (Hn : cpos rch = None) by (apply Hu; auto).
      constructor; simpl.
      * exact Hrest.
      * exact Huniq.
      * exact Hhigh.
      * exact Ilim.
      * intros s1 h b Hs Hd. sset Hs. discriminate.
      * intros; exact Hn.
      * intros s1 h b Hs Hd. sset Hs. discriminate.
      * intros x [].
      * exact Hnew_hint.
      * intros s1 Hs. sset Hs. rewrite map_id_map; eauto.
        intros c. rewrite reorgN_single, N.eqb_refl. reflexivity.
      * intros s1 c Hs Hc. sset Hs. apply in_map_iff in Hc. destruct Hc as [c0 [<- Hc0]].
        rewrite reorgN_single, N.eqb_refl. simpl.
        destruct (Icl s0 c0 eq_refl Hc0) as [X [Y _]]. repeat split; auto; lia.
    + assert (mem cu [x] = false) as Hm.
      { apply mem_false. intros [H|[]]. congruence. }
      rewrite Hm. rewrite (del_single_ne x cu Hxc).
      assert (has0 = false).
      { destruct has0; auto. simpl in Hpx. inversion Hpx. congruence. }
      subst has0. simpl in Hpx.
      assert (Hneq : N.eqb x cu = false) by (apply N.eqb_neq; auto).
      constructor; simpl.
      * exact Hrest.
      * exact Huniq.
      * exact Hhigh.
      * exact Ilim.
      * intros s1 h b Hs Hd. sset Hs. rewrite Hdx in Hd. inversion Hd; subst. auto.
      * intros s1 Hs Hd. sset Hs. congruence.
      * intros s1 h b Hs Hd _. sset Hs. rewrite Hdx in Hd. inversion Hd; subst. auto.
      * intros y [<-|[]]. split; auto. eexists _, bx. split; [reflexivity|exact Hdx].
      * exact Hnew_hint.
      * intros s1 Hs. sset Hs. rewrite map_id_map; eauto.
        intros c. rewrite reorgN_single, Hneq. reflexivity.
      * intros s1 c Hs Hc. sset Hs. apply in_map_iff in Hc. destruct Hc as [c0 [<- Hc0]].
        rewrite reorgN_single, Hneq. simpl.
        destruct (Icl s0 c0 eq_refl Hc0) as [X [Y _]]. repeat split; auto; try lia. congruence.
Qed.

Lemma cconnect_res cu rd lim nid s ini q hn bid has st' r ev :
  cstep (mkC cu rd lim nid s ini q hn) (CConnect (cu + 1) bid has) = Some (st', r, ev) ->
  r = ROk None.
Proof. intros E. apply cconnect_shape in E. tauto. Qed.

Lemma cdisconnect_res cu rd lim nid s ini q hn st' r ev :
  cstep (mkC cu rd lim nid s ini q hn) (CDisconnect cu) = Some (st', r, ev) -> r = ROk None.
Proof. intros E. apply cdisconnect_shape in E. tauto. Qed.

Lemma cinva_step w o w' : CInvA w -> cvalid w o -> cwstep w o = Some w' -> CInvA w'.
Proof.
  intros I V S. unfold cwstep in S.
  destruct (cstep (cw_st w) o) as [[[st' r] ev]|] eqn:E; [|discriminate].
  inversion S; subst w'; clear S.
  destruct w as [ch st pend high log]. destruct st as [cu rd lim nid s ini q hn].
  cbn [cw_st cw_chain cw_pending cw_high cw_log] in *.
  destruct o as [id n hnt|id|r0|height bid has| |height].
  - eapply cinva_reg; [exact I|exact V|exact E].
  - eapply cinva_cancel; [exact I|exact E].
  - eapply cinva_upd; [exact I|exact V|exact E].
  - destruct V as [Vp [Vh [Vu Vhint]]]. cbn [cw_st cur] in Vh. subst height.
    rewrite (cconnect_res _ _ _ _ _ _ _ _ _ _ _ _ _ E). cbn [is_ok].
    eapply cinva_connect; [exact I|exact Vu| |exact E].
    intros Hh Hs. apply Vhint; auto.
  - eapply cinva_notify; [exact I|exact E].
  - destruct V as [Vp [Vh [Vne Vlim]]]. cbn [cw_st cur] in Vh. subst height.
    rewrite (cdisconnect_res _ _ _ _ _ _ _ _ _ _ _ E). cbn [is_ok].
    eapply cinva_disconnect; [exact I|exact Vne|exact Vlim|exact E].
Qed.

Lemma cinva_init ch start lim h0 : cstart_ok ch start lim h0 -> CInvA (cinit ch start lim h0).
Proof.
  intros [Hc [Hu [Hl Hh]]]. constructor; simpl; auto; try (intros; discriminate); try lia;
    try (intros x []; fail).
  all: intros; eapply Hh; eauto.
Qed.

Lemma cinva_reach w0 w : CInvA w0 -> creach w0 w -> CInvA w.
Proof. intros I R. induction R; auto. eapply cinva_step; eauto. Qed.
