(* C14 property theorems.  Statements only; proofs are in Proofs.v (spend side,
   state invariant SInv), SpendLog.v (spend side, event stream), ConfInvA/L/Q.v
   and ConfMain.v (confirmation side).

   World (Spec.v): the model of TxNotifier projected on one request, the active
   chain it has been told about (ghost), and the log of all events sent.
   [sreach w0 w] / [creach w0 w] = w is reached from w0 by calls that satisfy
   the environment obligations [svalid] / [cvalid]: client height hints not
   above the actual spend/confirmation height, rescan answers truthful whenever the notifier still
   lacks the details (outdated answers arriving later are unconstrained; no
   condition on registered clients since the repair af6371e), ConnectTip followed by
   NotifyHeight before the next connect/disconnect, a txid confirmed (an
   outpoint spent) at most once on the chain, reorgs within reorgSafetyLimit of
   the highest tip seen, inclusions of unwatched requests at or above their
   cached hint.  No bound on the number of calls, clients, heights,
   confirmation depths or the reorg shape.  Runs in which the model predicts a
   Go panic are excluded (step = None).

   "What a client has been told" ([slstate] / [clstate]) is a fold over ITS
   events: [None] = it received a second Spend / Confirmed without a Reorg /
   NegativeConf in between; [Some x] = x is its latest un-reorged Spend /
   un-negated Confirmed, if any. *)
From Coq Require Import List NArith.
From LV Require Import Notifier.Model Notifier.Spec Notifier.Proofs Notifier.SpendLog
  Notifier.ConfMain Notifier.MModel Notifier.MSpec Notifier.MProofs Notifier.MLift
  Notifier.MExamples.
Import ListNotations.
Local Open Scope N_scope.

(* ================================================================== *)
(* spends                                                               *)

(* the persisted spend hint never exceeds the height at which the outpoint is
   spent on the active chain: a rescan from the hint cannot miss the spend *)
Theorem C14_spend_hint_safe :
  forall ch start lim h0 w,
    sstart_ok ch start lim h0 -> sreach (sinit ch start lim h0) w ->
    forall x h t, shint (sw_st w) = Some x -> spos (sw_chain w) = Some (h, t) -> x <= h.
Proof. exact spend_hint_safe. Qed.

(* the spend details cached by the notifier are always those of the ACTIVE
   chain; once the rescan is complete, no details means not spent; with no
   details no client is marked as notified *)
Theorem C14_spend_details_on_chain :
  forall ch start lim h0 w,
    sstart_ok ch start lim h0 -> sreach (sinit ch start lim h0) w ->
    forall s, sset (sw_st w) = Some s ->
      (forall h t, ss_det s = Some (h, t) -> spos (sw_chain w) = Some (h, t)) /\
      (ss_det s = None -> ss_rescan s = RComplete -> spos (sw_chain w) = None) /\
      (ss_det s = None -> forall c, In c (ss_ntfns s) -> s_disp c = false).
Proof. exact spend_details_on_chain. Qed.

(* for every registered client, after every call: (1) the dispatched flag is
   exactly "its last Spend has not been followed by a Reorg" and that Spend
   carried the cached details; (2) what it has been told is the spend on the
   ACTIVE chain; (3) whenever the outpoint is spent on the active chain (rescan
   finished, no NotifyHeight outstanding) it has been told exactly that spend *)
Theorem C14_spend_exact :
  forall ch start lim h0 w,
    sstart_ok ch start lim h0 -> sreach (sinit ch start lim h0) w ->
    forall s c, sset (sw_st w) = Some s -> In c (ss_ntfns s) ->
      slstate (s_id c) (sw_log w) = Some (if s_disp c then ss_det s else None) /\
      (forall h t, slstate (s_id c) (sw_log w) = Some (Some (h, t)) ->
         spos (sw_chain w) = Some (h, t)) /\
      (sw_pending w = false -> ss_rescan s = RComplete ->
       forall h t, spos (sw_chain w) = Some (h, t) ->
         slstate (s_id c) (sw_log w) = Some (Some (h, t))).
Proof. exact spend_exact. Qed.

(* no client (registered, cancelled or pruned) ever receives a second Spend
   without a Reorg in between *)
Theorem C14_reorg_before_respend :
  forall ch start lim h0 w,
    sstart_ok ch start lim h0 -> sreach (sinit ch start lim h0) w ->
    forall id, slstate id (sw_log w) <> None.
Proof. exact spend_reorg_before_respend. Qed.

(* ================================================================== *)
(* confirmations                                                        *)

(* the persisted confirm hint never exceeds the height at which the tx is
   confirmed on the active chain *)
Theorem C14_conf_hint_safe :
  forall ch start lim h0 w,
    cstart_ok ch start lim h0 -> creach (cinit ch start lim h0) w ->
    forall x h b, hint (cw_st w) = Some x -> cpos (cw_chain w) = Some (h, b) -> x <= h.
Proof. exact conf_hint_safe. Qed.

(* for every registered client (NumConfirmations = c_n c), after every call:
   (1) the dispatched flag is exactly "its last Confirmed has not been followed
   by a NegativeConf" and that Confirmed carried the cached details; (2) an
   un-negated Confirmed names the block of the ACTIVE chain that holds the tx;
   (3) whenever the tx has >= NumConfirmations confirmations on the active chain
   (rescan finished, no NotifyHeight outstanding) the client's latest
   un-negated Confirmed is that block *)
Theorem C14_conf_exact :
  forall ch start lim h0 w,
    cstart_ok ch start lim h0 -> creach (cinit ch start lim h0) w ->
    forall s c, cset (cw_st w) = Some s -> In c (cs_ntfns s) ->
      clstate (c_id c) (cw_log w) = Some (if c_disp c then cs_det s else None) /\
      (forall h b, clstate (c_id c) (cw_log w) = Some (Some (h, b)) ->
         cpos (cw_chain w) = Some (h, b)) /\
      (cw_pending w = false -> cs_rescan s = RComplete ->
       forall h b, cpos (cw_chain w) = Some (h, b) -> h + c_n c - 1 <= cur (cw_st w) ->
         clstate (c_id c) (cw_log w) = Some (Some (h, b))).
Proof. exact conf_exact. Qed.

(* emission time: every Confirmed event sent by any call names the block of the
   active chain (as of the end of that call) that holds the tx, and is sent to
   a registered client only when the tx has >= NumConfirmations confirmations
   on that chain *)
Theorem C14_conf_exact_emit :
  forall ch start lim h0 w o w',
    cstart_ok ch start lim h0 -> creach (cinit ch start lim h0) w ->
    cvalid w o -> cwstep w o = Some w' ->
    forall ev, cw_log w' = cw_log w ++ ev ->
    forall id h b, In (id, EConf h b) ev ->
      cpos (cw_chain w') = Some (h, b) /\
      exists s c, cset (cw_st w') = Some s /\ In c (cs_ntfns s) /\ c_id c = id /\
        h + c_n c - 1 <= cur (cw_st w').
Proof. exact conf_emit. Qed.

(* no client ever receives a second Confirmed without a NegativeConf in
   between (so a reorg notice always precedes a renewed confirmation) *)
Theorem C14_reorg_before_reconf :
  forall ch start lim h0 w,
    cstart_ok ch start lim h0 -> creach (cinit ch start lim h0) w ->
    forall id, clstate id (cw_log w) <> None.
Proof. exact conf_reorg_before_reconf. Qed.

(* The persistent form of "Confirmed => the tx HAS >= N confirmations" is
   REFUTED by the faithful model (and pinned by lnd's own
   TestTxNotifierReorgPartialConfirmation): after a partial reorg that removes
   blocks above the tx's block, no NegativeConf is sent.  Reachable world under
   all environment obligations: the client (N = 2) holds an un-negated
   Confirmed{height 2, block 12}, the tx is at (2, 12) on the active chain, the
   tip is 2, i.e. the tx has 1 confirmation. *)
Theorem C14_conf_exact_partial_reorg_refuted :
  exists w s c,
    cstart_ok pr_chain 1 144 None /\ creach (cinit pr_chain 1 144 None) w /\
    cw_pending w = false /\ cset (cw_st w) = Some s /\ cs_rescan s = RComplete /\
    In c (cs_ntfns s) /\
    clstate (c_id c) (cw_log w) = Some (Some (2, 12)) /\
    cpos (cw_chain w) = Some (2, 12) /\
    cur (cw_st w) < 2 + c_n c - 1.
Proof. exact conf_partial_reorg_refuted. Qed.

(* ================================================================== *)
(* Repair af6371e (former finding C14-F1).  The obligation "rescan details are
   delivered while some client is registered" is no longer needed by any
   theorem above.  Positive regression statements: the former counter-example
   history (register, cancel, the rescan completes with ZERO clients, the
   block is reorged out, a new client registers) satisfies every environment
   obligation; the details found with zero clients are stored AND tracked in
   confsByInitialHeight / spendsByHeight, the reorg of their block clears
   them, and the new client is told nothing; the hint follows the chain. *)
Theorem C14_conf_details_on_chain :
  forall ch start lim h0 w,
    cstart_ok ch start lim h0 -> creach (cinit ch start lim h0) w ->
    forall s, cset (cw_st w) = Some s ->
      (forall h b, cs_det s = Some (h, b) -> cpos (cw_chain w) = Some (h, b)) /\
      (cs_det s = None -> cs_rescan s = RComplete -> cpos (cw_chain w) = None) /\
      (cs_det s = None -> forall c, In c (cs_ntfns s) -> c_disp c = false).
Proof. exact conf_details_on_chain. Qed.

Theorem C14_conf_zero_client_details_cleared :
  exists w1 w s1 s,
    cstart_ok zc_cchain 3 144 None /\
    cvrun (cinit zc_cchain 3 144 None) zc_cops1 w1 /\
    cset (cw_st w1) = Some s1 /\ cs_ntfns s1 = [] /\ cs_det s1 = Some (2, 2) /\
    initial (cw_st w1) = [2] /\
    cvrun w1 zc_cops2 w /\ creach (cinit zc_cchain 3 144 None) w /\
    cset (cw_st w) = Some s /\ cs_det s = None /\ cpos (cw_chain w) = None /\
    clstate 2 (cw_log w) = Some None /\ hint (cw_st w) = Some 3.
Proof. exact conf_zero_client_details_cleared. Qed.

Theorem C14_spend_zero_client_details_cleared :
  exists w1 w s1 s,
    sstart_ok zc_schain 3 144 None /\
    svrun (sinit zc_schain 3 144 None) zc_sops1 w1 /\
    sset (sw_st w1) = Some s1 /\ ss_ntfns s1 = [] /\ ss_det s1 = Some (2, 0) /\
    sheights (sw_st w1) = [2] /\
    svrun w1 zc_sops2 w /\ sreach (sinit zc_schain 3 144 None) w /\
    sset (sw_st w) = Some s /\ ss_det s = None /\ spos (sw_chain w) = None /\
    slstate 2 (sw_log w) = Some None /\ shint (sw_st w) = Some 3.
Proof. exact spend_zero_client_details_cleared. Qed.

(* An OUTDATED historical-rescan answer (here: "not found", then a block that
   is not on the chain) delivered after the tx / spend was found at tip and a
   further block was connected is admitted by the environment obligations
   ([cvalid]/[svalid] only constrain answers the notifier still needs) and is
   ignored: state and event log unchanged, the persisted hint stays at the
   confirmation / spend height 2.  (C14_conf_hint_safe / C14_spend_hint_safe
   cover this race in general; these are the concrete regression runs.) *)
Theorem C14_conf_stale_rescan_ignored :
  exists w1 w,
    cstart_ok pr_chain 1 144 None /\
    cvrun (cinit pr_chain 1 144 None) st_cops w1 /\
    cvrun w1 st_cops2 w /\ creach (cinit pr_chain 1 144 None) w /\
    cw_st w = cw_st w1 /\ cw_log w = cw_log w1 /\
    hint (cw_st w) = Some 2 /\ cpos (cw_chain w) = Some (2, 12) /\
    clstate 1 (cw_log w) = Some (Some (2, 12)).
Proof. exact conf_stale_rescan_ignored. Qed.

Theorem C14_spend_stale_rescan_ignored :
  exists w1 w,
    sstart_ok st_schain 1 144 None /\
    svrun (sinit st_schain 1 144 None) st_sops w1 /\
    svrun w1 st_sops2 w /\ sreach (sinit st_schain 1 144 None) w /\
    sw_st w = sw_st w1 /\ sw_log w = sw_log w1 /\
    shint (sw_st w) = Some 2 /\ spos (sw_chain w) = Some (2, 0) /\
    slstate 1 (sw_log w) = Some (Some (2, 0)).
Proof. exact spend_stale_rescan_ignored. Qed.

(* ================================================================== *)
(* MULTI-REQUEST runs (MModel.v): TxNotifier as a map request -> per-request
   state next to the height indexes confsByInitialHeight / ntfnsByConfirmHeight /
   spendsByHeight that are SHARED by all requests (a bucket holds every request
   whose inclusion / due / spend height coincides).

   Request independence: for every call of a multi-request run that does not
   panic, and every request r, the projection of the step onto r (r's per-request
   state, r's entries of the shared indexes, r's hint, the events of r's clients)
   is exactly the single-request step of Model.v on r's own view of the call
   ([cop_of r]: the call itself when it is addressed to r or global, with "the
   block contains r's tx" for ConnectTip); a call addressed to ANOTHER request
   leaves r's projection unchanged and sends nothing to r's clients. *)
Theorem C14_multi_conf_independent :
  forall m o m' res ev r,
    mcstep m o = Some (m', res, ev) ->
    match cop_of r o with
    | Some co => cstep (cproj r m) co = Some (cproj r m', res, tproj r ev)
    | None => cproj r m' = cproj r m /\ tproj r ev = []
    end.
Proof. exact mcstep_proj. Qed.

Theorem C14_multi_spend_independent :
  forall m o m' res ev r,
    msstep m o = Some (m', res, ev) ->
    match sop_of r o with
    | Some so => sstep (sproj r m) so = Some (sproj r m', res, tproj r ev)
    | None => sproj r m' = sproj r m /\ tproj r ev = []
    end.
Proof. exact msstep_proj. Qed.

(* hence the view of request r of a reachable multi-request world (environment
   obligations met request by request, [mcvalid] / [msvalid]) is a reachable
   single-request world ... *)
Theorem C14_multi_conf_reach :
  forall ch start lim h0 w,
    mcreach (mcinit ch start lim h0) w ->
    forall r, creach (cinit (cchain_of r ch) start lim (h0 r)) (cwproj r w).
Proof. exact multi_conf_reach. Qed.

Theorem C14_multi_spend_reach :
  forall ch start lim h0 w,
    msreach (msinit ch start lim h0) w ->
    forall r, sreach (sinit (schain_of r ch) start lim (h0 r)) (swproj r w).
Proof. exact multi_spend_reach. Qed.

(* ... and the per-request theorems hold for EVERY request of a multi-request
   run, whatever the other requests do and whichever index buckets they share *)
Theorem C14_multi_conf_hint_safe :
  forall ch start lim h0 w,
    mcstart_ok ch start lim h0 -> mcreach (mcinit ch start lim h0) w ->
    forall r x h b, m_hint (mcw_st w) r = Some x ->
      cpos (cchain_of r (mcw_chain w)) = Some (h, b) -> x <= h.
Proof. exact multi_conf_hint_safe. Qed.

Theorem C14_multi_conf_exact :
  forall ch start lim h0 w,
    mcstart_ok ch start lim h0 -> mcreach (mcinit ch start lim h0) w ->
    forall r s c, m_sets (mcw_st w) r = Some s -> In c (cs_ntfns s) ->
      clstate (c_id c) (tproj r (mcw_log w)) = Some (if c_disp c then cs_det s else None) /\
      (forall h b, clstate (c_id c) (tproj r (mcw_log w)) = Some (Some (h, b)) ->
         cpos (cchain_of r (mcw_chain w)) = Some (h, b)) /\
      (mcw_pending w = false -> cs_rescan s = RComplete ->
       forall h b, cpos (cchain_of r (mcw_chain w)) = Some (h, b) ->
         h + c_n c - 1 <= m_cur (mcw_st w) ->
         clstate (c_id c) (tproj r (mcw_log w)) = Some (Some (h, b))).
Proof. exact multi_conf_exact. Qed.

Theorem C14_multi_conf_exact_emit :
  forall ch start lim h0 w o w',
    mcstart_ok ch start lim h0 -> mcreach (mcinit ch start lim h0) w ->
    mcvalid w o -> mcwstep w o = Some w' ->
    forall ev, mcw_log w' = mcw_log w ++ ev ->
    forall r id h b, In (id, EConf h b) (tproj r ev) ->
      cpos (cchain_of r (mcw_chain w')) = Some (h, b) /\
      exists s c, m_sets (mcw_st w') r = Some s /\ In c (cs_ntfns s) /\ c_id c = id /\
        h + c_n c - 1 <= m_cur (mcw_st w').
Proof. exact multi_conf_emit. Qed.

Theorem C14_multi_reorg_before_reconf :
  forall ch start lim h0 w,
    mcstart_ok ch start lim h0 -> mcreach (mcinit ch start lim h0) w ->
    forall r id, clstate id (tproj r (mcw_log w)) <> None.
Proof. exact multi_conf_reorg_before_reconf. Qed.

Theorem C14_multi_spend_hint_safe :
  forall ch start lim h0 w,
    msstart_ok ch start lim h0 -> msreach (msinit ch start lim h0) w ->
    forall r x h t, ms_hint (msw_st w) r = Some x ->
      spos (schain_of r (msw_chain w)) = Some (h, t) -> x <= h.
Proof. exact multi_spend_hint_safe. Qed.

Theorem C14_multi_spend_exact :
  forall ch start lim h0 w,
    msstart_ok ch start lim h0 -> msreach (msinit ch start lim h0) w ->
    forall r s c, ms_sets (msw_st w) r = Some s -> In c (ss_ntfns s) ->
      slstate (s_id c) (tproj r (msw_log w)) = Some (if s_disp c then ss_det s else None) /\
      (forall h t, slstate (s_id c) (tproj r (msw_log w)) = Some (Some (h, t)) ->
         spos (schain_of r (msw_chain w)) = Some (h, t)) /\
      (msw_pending w = false -> ss_rescan s = RComplete ->
       forall h t, spos (schain_of r (msw_chain w)) = Some (h, t) ->
         slstate (s_id c) (tproj r (msw_log w)) = Some (Some (h, t))).
Proof. exact multi_spend_exact. Qed.

Theorem C14_multi_reorg_before_respend :
  forall ch start lim h0 w,
    msstart_ok ch start lim h0 -> msreach (msinit ch start lim h0) w ->
    forall r id, slstate id (tproj r (msw_log w)) <> None.
Proof. exact multi_spend_reorg_before_respend. Qed.

(* Non-vacuity, on the shape that a whole-bucket deletion in dispatchConfReorg
   would break: requests 0 (tx in block 3, client 1 wants 3 confirmations) and 1
   (tx in block 4, client 2 wants 2) wait in the SAME ntfnsByConfirmHeight
   bucket (height 5); block 4 is reorged out: only request 1's entry leaves the
   bucket; the new branch (without tx 1) reaches height 5: client 1 is told
   Confirmed (3, block 3), client 2 got its Updates, the NegativeConf and
   nothing else.  Every environment obligation holds along the run. *)
Theorem C14_multi_shared_bucket_reorg :
  exists w1 w2 w,
    mcstart_ok mx_chain 2 144 mx_h0 /\
    mcvrun (mcinit mx_chain 2 144 mx_h0) mx_ops1 w1 /\
    m_q (mcw_st w1) = [(1, (5, 2)); (0, (5, 1))] /\ m_ini (mcw_st w1) = [(1, 4); (0, 3)] /\
    mcvrun w1 mx_ops2 w2 /\
    m_q (mcw_st w2) = [(0, (5, 1))] /\ m_ini (mcw_st w2) = [(0, 3)] /\
    mcvrun w2 mx_ops3 w /\ mcreach (mcinit mx_chain 2 144 mx_h0) w /\
    m_cur (mcw_st w) = 5 /\
    cpos (cchain_of 0 (mcw_chain w)) = Some (3, 3) /\ cpos (cchain_of 1 (mcw_chain w)) = None /\
    clstate 1 (tproj 0 (mcw_log w)) = Some (Some (3, 3)) /\
    sel 2 (tproj 1 (mcw_log w)) = [EUpd 1 4; ENeg 1].
Proof. exact multi_shared_bucket_example. Qed.
