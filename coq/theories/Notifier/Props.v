(* C14 property theorems.  Statements only; proofs are in Proofs.v.

   World (Spec.v): the model of TxNotifier projected on one request, the active
   chain it has been told about, and the log of all events sent.  [sreach w0 w]
   = w is reached from w0 by calls that satisfy the environment obligations
   [svalid]: client hints not above the actual spend height, truthful rescan
   answers delivered while some client is registered, ConnectTip followed by
   NotifyHeight, an outpoint spent at most once on the chain, reorgs within
   reorgSafetyLimit of the highest tip seen.  No bound on the number of calls,
   clients, heights or the reorg shape.

   Proved here: the spend side.  The confirmation side (C14_conf_exact,
   C14_reorg_before_reconf, conf half of C14_hint_safe) is modelled and tied
   but NOT proved -- see notes/C14.md. *)
From Coq Require Import List NArith.
From LV Require Import Notifier.Model Notifier.Spec Notifier.Proofs.
Import ListNotations.
Local Open Scope N_scope.

(* the persisted spend hint never exceeds the height at which the outpoint is
   spent on the active chain: a rescan from the hint cannot miss the spend *)
Theorem C14_spend_hint_safe :
  forall ch start lim h0 w,
    sstart_ok ch start lim h0 -> sreach (sinit ch start lim h0) w ->
    forall x h t, shint (sw_st w) = Some x -> spos (sw_chain w) = Some (h, t) -> x <= h.
Proof. exact spend_hint_safe. Qed.

(* partial form of C14_spend_exact: the spend details cached by the notifier --
   the only source of Spend notifications -- are always those of the ACTIVE
   chain; once the rescan is complete, no details means not spent; and with no
   details no client is marked as notified.  Missing for the full statement:
   the link between the dispatched flag and the per-client event stream
   ("dispatched <-> last Spend not followed by Reorg", all clients dispatched
   after NotifyHeight). *)
Theorem C14_spend_details_on_chain_partial :
  forall ch start lim h0 w,
    sstart_ok ch start lim h0 -> sreach (sinit ch start lim h0) w ->
    forall s, sset (sw_st w) = Some s ->
      (forall h t, ss_det s = Some (h, t) -> spos (sw_chain w) = Some (h, t)) /\
      (ss_det s = None -> ss_rescan s = RComplete -> spos (sw_chain w) = None) /\
      (ss_det s = None -> forall c, In c (ss_ntfns s) -> s_disp c = false).
Proof. exact spend_details_on_chain. Qed.

(* Without the obligation "rescan details are delivered while some client is
   registered" exactness is REFUTED (finding C14-F1): register, cancel, rescan
   completes, the spending block is reorged out, a new client registers and is
   told of a spend that is not on the active chain. *)
Theorem C14_spend_exact_cancel_refuted :
  exists ops w,
    sstart_ok [(3, None); (2, Some 0); (1, None)] 3 144 None /\
    swrun (sinit [(3, None); (2, Some 0); (1, None)] 3 144 None) ops = Some w /\
    slstate 2 (sw_log w) = Some (Some (2, 0)) /\ spos (sw_chain w) = None.
Proof. exact spend_cancel_refuted. Qed.

Theorem C14_conf_exact_cancel_refuted :
  exists ops w,
    cstart_ok [(3, (3, false)); (2, (2, true)); (1, (1, false))] 3 144 None /\
    cwrun (cinit [(3, (3, false)); (2, (2, true)); (1, (1, false))] 3 144 None) ops = Some w /\
    clstate 2 (cw_log w) = Some (Some (2, 2)) /\ cpos (cw_chain w) = None.
Proof. exact conf_cancel_refuted. Qed.
