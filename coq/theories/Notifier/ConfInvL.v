(* C14, confirmation side, layer L: the per-client event log agrees with the
   dispatched flag, and no client receives a second Confirmed without a
   NegativeConf in between. *)
From Coq Require Import List NArith Bool Lia.
From LV Require Import Notifier.Model Notifier.Spec Notifier.Proofs Notifier.ConfLemmas
  Notifier.ConfShape Notifier.ConfInvA.
Import ListNotations.
Local Open Scope N_scope.
Local Arguments reorgN : simpl never.

Record CInvL (w : cworld) : Prop := {
  cl_loglt : forall i e, In (i, e) (cw_log w) -> i < nextid (cw_st w);
  cl_flag : forall s c, cset (cw_st w) = Some s -> In c (cs_ntfns s) ->
            clstate (c_id c) (cw_log w) = ctold c (cs_det s);
  cl_ok : forall id, clstate id (cw_log w) <> None
}.

(* CInvL only looks at nextid, the details, the clients and the log *)
Lemma clinv_proj w ch' st' pend' high' :
  CInvL w -> nextid st' = nextid (cw_st w) ->
  (forall s', cset st' = Some s' ->
     exists s, cset (cw_st w) = Some s /\ cs_det s' = cs_det s /\ cs_ntfns s' = cs_ntfns s) ->
  CInvL (mkCW ch' st' pend' high' (cw_log w ++ [])).
Proof.
  intros [A B C] Hn Hs. rewrite app_nil_r. constructor; simpl.
  - rewrite Hn. exact A.
  - intros s' c Hs' Hc. destruct (Hs s' Hs') as [s [H1 [H2 H3]]]. rewrite H2.
    apply B; auto. rewrite <- H3. exact Hc.
  - exact C.
Qed.

Lemma clinv_bulk ch ch' cu cu' rd rd' lim lim' nid rs rs' det det' l ini ini' q q' hn hn'
      pend pend' high high' log f g :
  CInvL (mkCW ch (mkC cu rd lim nid (Some (mkCS rs det l)) ini q hn) pend high log) ->
  NoDup (map c_id l) -> (forall c, In c l -> c_id c < nid) ->
  (forall c, c_id (f c) = c_id c) ->
  (forall c e, In c l -> In e (g c) -> fst e = c_id c) ->
  (forall c, In c l -> fold_left clstep (map snd (g c)) (ctold c det) = ctold (f c) det') ->
  CInvL (mkCW ch' (mkC cu' rd' lim' nid (Some (mkCS rs' det' (map f l))) ini' q' hn') pend' high'
              (log ++ flat_map g l)).
Proof.
  intros [A B C] Hnd Hlt Hid Htag Hfold. simpl in *.
  assert (Hfl : forall c, In c l -> clstate (c_id c) log = ctold c det)
    by (intros c Hc; apply (B _ c eq_refl Hc)).
  constructor; simpl.
  - intros i e Hin. apply in_app_iff in Hin. destruct Hin as [Hin|Hin]; [eauto|].
    destruct (in_log_flat c_id g l i e Htag Hin) as [c [Hc <-]]. auto.
  - intros s c Hs Hin. sset Hs. apply (cbulk_flag l log det det' f g); auto.
  - apply (cbulk_ok l log det det' f g); auto.
Qed.

(* a freshly registered client, before anything is dispatched to it *)
Lemma clinv_ext ch cu rd lim nid rs' det l ini q hn pend high log id n :
  (forall i e, In (i, e) log -> i < nid) ->
  (forall c, In c l -> c_id c < nid) ->
  (forall c, In c l -> clstate (c_id c) log = ctold c det) ->
  (forall i, clstate i log <> None) ->
  nid <= id ->
  CInvL (mkCW ch (mkC cu rd lim (id + 1)
                      (Some (mkCS rs' det (l ++ [mkCN id n false n]))) ini q hn) pend high log).
Proof.
  intros Hlog Hlt Hfl Hok Hle. constructor; simpl.
  - intros i e Hin. specialize (Hlog i e Hin). lia.
  - intros s c Hs Hin. sset Hs. apply in_app_iff in Hin. destruct Hin as [Hin|[<-|[]]]; auto.
    simpl. rewrite (cfresh_state id log nid); auto.
  - exact Hok.
Qed.

Lemma clinv_reg ch cu rd lim nid s ini q hn pend high log id n hnt st' r ev :
  CInvA (mkCW ch (mkC cu rd lim nid s ini q hn) pend high log) ->
  CInvL (mkCW ch (mkC cu rd lim nid s ini q hn) pend high log) ->
  cstep (mkC cu rd lim nid s ini q hn) (CReg id n hnt) = Some (st', r, ev) ->
  CInvL (mkCW ch st' pend high (log ++ ev)).
Proof.
  intros I L E. apply creg_shape in E.
  destruct E as [[-> ->]|[Hid [Hn E]]].
  { apply (clinv_proj _ ch _ pend high L); auto. intros s' Hs. exists s'. auto. }
  cbv zeta in E.
  pose proof (ca_nodup _ I) as Ind. pose proof (ca_cl _ I) as Icl.
  pose proof (ca_det _ I) as Idet.
  destruct L as [Llog Lflag Lok]. simpl in *.
  assert (Hlt0 : forall c, In c (cs_ntfns (cs0 s)) -> c_id c < nid).
  { destruct s; simpl; [intros; eapply Icl; eauto|intros c []]. }
  assert (Hfl0 : forall c, In c (cs_ntfns (cs0 s)) ->
                 clstate (c_id c) log = ctold c (cs_det (cs0 s))).
  { destruct s; simpl; [intros; eapply Lflag; eauto|intros c []]. }
  assert (Hnd0 : NoDup (map c_id (cs_ntfns (cs0 s)))).
  { destruct s; simpl; [eauto|constructor]. }
  assert (Hext : forall rs', CInvL (mkCW ch (mkC cu rd lim (id + 1)
              (Some (mkCS rs' (cs_det (cs0 s)) (cs_ntfns (cs0 s) ++ [mkCN id n false n])))
              ini q hn) pend high log)).
  { intros rs'. apply clinv_ext with (nid := nid); auto. }
  destruct E as [[rs' [-> [-> _]]]|[h [b [Hr [Hd [-> ->]]]]]].
  - rewrite app_nil_r. apply Hext.
  - specialize (Hext RComplete). rewrite Hd in Hext.
    eapply clinv_bulk; [exact Hext| | | | |].
    + apply creg_nodup with (nid := nid) (id := id); auto.
    + intros c Hc. apply in_app_iff in Hc. destruct Hc as [Hc|[<-|[]]]; simpl; [|lia].
      specialize (Hlt0 c Hc). lia.
    + intros c. apply dispatch1_spec.
    + intros c e _. apply dispatch1_spec.
    + intros c _. apply dispatch1_fold. auto.
Qed.

Lemma clinv_cancel ch cu rd lim nid s ini q hn pend high log id st' r ev :
  CInvL (mkCW ch (mkC cu rd lim nid s ini q hn) pend high log) ->
  cstep (mkC cu rd lim nid s ini q hn) (CCancel id) = Some (st', r, ev) ->
  CInvL (mkCW ch st' pend high (log ++ ev)).
Proof.
  intros L E. apply ccancel_shape in E. destruct E as [-> [->|[s0 [c [-> [Hf ->]]]]]].
  - apply (clinv_proj _ ch _ pend high L); auto. intros s' Hs. exists s'. auto.
  - destruct L as [Llog Lflag Lok]. simpl in *. rewrite app_nil_r.
    constructor; simpl; auto.
    intros s1 c1 Hs Hc. sset Hs. apply remove_In in Hc. destruct Hc as [Hc _].
    apply (Lflag s0 c1 eq_refl Hc).
Qed.

Lemma clinv_upd ch cu rd lim nid s ini q hn pend high log r0 st' r ev :
  CInvA (mkCW ch (mkC cu rd lim nid s ini q hn) pend high log) ->
  CInvL (mkCW ch (mkC cu rd lim nid s ini q hn) pend high log) ->
  cstep (mkC cu rd lim nid s ini q hn) (CUpd r0) = Some (st', r, ev) ->
  CInvL (mkCW ch st' pend high (log ++ ev)).
Proof.
  intros I L E. apply cupd_shape in E.
  destruct E as [[-> ->]|[s0 [-> [Hd0 E]]]].
  { apply (clinv_proj _ ch _ pend high L); auto. intros s' Hs. exists s'. auto. }
  destruct E as [[-> [-> ->]]|[[h [b [-> [Hlt [-> ->]]]]]|[h [b [-> [Hle [-> ->]]]]]]].
  - apply (clinv_proj _ ch _ pend high L); auto. intros s' Hs. sset Hs. exists s0. auto.
  - apply (clinv_proj _ ch _ pend high L); auto. intros s' Hs. sset Hs. exists s0. auto.
  - pose proof (ca_nodup _ I s0 eq_refl) as Ind. pose proof (ca_cl _ I s0) as Icl. simpl in *.
    destruct s0 as [rs det l]. simpl in *. subst det.
    eapply clinv_bulk; [exact L|exact Ind| | | |].
    + intros c Hc. apply (Icl c eq_refl Hc).
    + intros c. apply dispatch1_spec.
    + intros c e _. apply dispatch1_spec.
    + intros c Hc. apply dispatch1_fold. intros Hdisp.
      destruct (Icl c eq_refl Hc) as [_ [_ Hnd]]. rewrite (Hnd eq_refl) in Hdisp. discriminate.
Qed.

Lemma clinv_notify ch cu rd lim nid s ini q hn pend high log st' r ev :
  CInvA (mkCW ch (mkC cu rd lim nid s ini q hn) pend high log) ->
  CInvL (mkCW ch (mkC cu rd lim nid s ini q hn) pend high log) ->
  cstep (mkC cu rd lim nid s ini q hn) CNotify = Some (st', r, ev) ->
  CInvL (mkCW ch st' false high (log ++ ev)).
Proof.
  intros I L E. apply cnotify_shape in E.
  destruct E as [[-> [-> _]]|[s0 [bh [bid [-> [Hd [-> ->]]]]]]].
  { apply (clinv_proj _ ch _ false high L); auto. intros s' Hs. exists s'. auto. }
  pose proof (ca_nodup _ I s0 eq_refl) as Ind. pose proof (ca_cl _ I s0) as Icl. simpl in *.
  destruct s0 as [rs det l]. simpl in *. subst det.
  eapply clinv_bulk; [exact L|exact Ind| | | |].
  - intros c Hc. apply (Icl c eq_refl Hc).
  - intros c. apply notify1_spec.
  - intros c e _. apply notify1_spec.
  - intros c _. apply notify1_spec.
Qed.

Lemma clinv_connect ch cu rd lim nid s ini q hn pend high log bid has st' r ev ch' high' :
  CInvA (mkCW ch (mkC cu rd lim nid s ini q hn) pend high log) ->
  CInvL (mkCW ch (mkC cu rd lim nid s ini q hn) pend high log) ->
  cstep (mkC cu rd lim nid s ini q hn) (CConnect (cu + 1) bid has) = Some (st', r, ev) ->
  CInvL (mkCW ch' st' true high' (log ++ ev)).
Proof.
  intros I L E. apply cconnect_shape in E. destruct E as [_ [s1 [ini1 [q1 [Hc1 Hc2]]]]].
  pose proof (ca_cl _ I) as Icl. simpl in Icl.
  assert (Hs1 : forall s', s1 = Some s' ->
            exists s0, s = Some s0 /\ cs_ntfns s' = cs_ntfns s0 /\
              (forall c, In c (cs_ntfns s0) -> ctold c (cs_det s') = ctold c (cs_det s0))).
  { intros s' Hs'. destruct Hc1 as [[s0 [-> [_ [Hd0 [-> _]]]]]|[-> _]].
    - sset Hs'. exists s0. split; auto. split; auto. intros c Hc.
      destruct (Icl s0 c eq_refl Hc) as [_ [_ Hnd]]. rewrite !ctold_false; auto.
    - exists s'. auto. }
  destruct L as [Llog Lflag Lok]. simpl in *.
  destruct Hc2 as [[s2 [-> [_ [_ [-> ->]]]]]|[_ [-> ->]]].
  - (* pruned *)
    destruct (Hs1 s2 eq_refl) as [s0 [-> [Hl _]]].
    assert (Hq : forall e, In e (done_events (cs_ntfns s2)) -> quiet (snd e) = true).
    { intros e He. unfold done_events in He. apply in_map_iff in He.
      destruct He as [c [<- _]]. reflexivity. }
    constructor; simpl.
    + intros i e Hin. apply in_app_iff in Hin. destruct Hin as [Hin|Hin]; [eauto|].
      unfold done_events in Hin. apply in_map_iff in Hin. destruct Hin as [c [Hc Hin]].
      inversion Hc; subst. rewrite Hl in Hin. apply (Icl s0 c eq_refl Hin).
    + intros; discriminate.
    + intros i. rewrite clstate_quiet; auto.
  - rewrite app_nil_r. constructor; simpl; auto.
    intros s' c Hs' Hc. destruct (Hs1 s' Hs') as [s0 [-> [Hl Ht]]].
    rewrite Hl in Hc. rewrite (Ht c Hc). apply (Lflag s0 c eq_refl Hc).
Qed.

Lemma clinv_disconnect ch cu rd lim nid s ini q hn pend high log st' r ev ch' :
  CInvA (mkCW ch (mkC cu rd lim nid s ini q hn) pend high log) ->
  CInvL (mkCW ch (mkC cu rd lim nid s ini q hn) pend high log) ->
  cstep (mkC cu rd lim nid s ini q hn) (CDisconnect cu) = Some (st', r, ev) ->
  CInvL (mkCW ch' st' pend high (log ++ ev)).
Proof.
  intros I L E. apply cdisconnect_shape in E. destruct E as [_ E].
  destruct E as [[-> [-> ->]]|[Hne [s0 [-> E]]]].
  { apply (clinv_proj _ ch' _ pend high L); auto. intros s' Hs. exists s'. auto. }
  cbv zeta in E. destruct E as [-> ->].
  pose proof (ca_nodup _ I s0 eq_refl) as Ind. pose proof (ca_cl _ I s0) as Icl.
  pose proof (ca_ini _ I) as Iini. simpl in *.
  destruct ini as [|x ini']; [congruence|].
  destruct (Iini x (or_introl eq_refl)) as [Hi [s1 [bx [Hs1 Hdx]]]].
  inversion Hi; subst ini'. inversion Hs1; subst s1. clear Hs1 Hi Hne.
  destruct s0 as [rs det l]. simpl in *. subst det.
  eapply clinv_bulk; [exact L|exact Ind| | | |].
  - intros c Hc. apply (Icl c eq_refl Hc).
  - intros c. rewrite reorgN_single. destruct (N.eqb x cu); reflexivity.
  - intros c e _. rewrite reorgN_single. destruct (N.eqb x cu); simpl; [|tauto].
    intros [<-|[]]. reflexivity.
  - intros c _. rewrite reorgN_single. unfold mem. simpl. rewrite (N.eqb_sym cu x).
    destruct (N.eqb x cu); simpl.
    + unfold ctold. simpl. destruct (c_disp c); reflexivity.
    + reflexivity.
Qed.

Lemma clinv_step w o w' :
  CInvA w -> CInvL w -> cvalid w o -> cwstep w o = Some w' -> CInvL w'.
Proof.
  intros I L V S. unfold cwstep in S.
  destruct (cstep (cw_st w) o) as [[[st' r] ev]|] eqn:E; [|discriminate].
  inversion S; subst w'; clear S.
  destruct w as [ch st pend high log]. destruct st as [cu rd lim nid s ini q hn].
  cbn [cw_st cw_chain cw_pending cw_high cw_log] in *.
  destruct o as [id n hnt|id|r0|height bid has| |height].
  - eapply clinv_reg; [exact I|exact L|exact E].
  - eapply clinv_cancel; [exact L|exact E].
  - eapply clinv_upd; [exact I|exact L|exact E].
  - destruct V as [Vp [Vh _]]. cbn [cw_st cur] in Vh. subst height.
    rewrite (cconnect_res _ _ _ _ _ _ _ _ _ _ _ _ _ E). cbn [is_ok].
    eapply clinv_connect; [exact I|exact L|exact E].
  - eapply clinv_notify; [exact I|exact L|exact E].
  - destruct V as [Vp [Vh _]]. cbn [cw_st cur] in Vh. subst height.
    rewrite (cdisconnect_res _ _ _ _ _ _ _ _ _ _ _ E). cbn [is_ok].
    eapply clinv_disconnect; [exact I|exact L|exact E].
Qed.

Lemma clinv_init ch start lim h0 : CInvL (cinit ch start lim h0).
Proof. constructor; simpl; try (intros; discriminate); tauto. Qed.
