(* C14, confirmation side: the property statements, derived from the three
   invariant layers CInvA / CInvL / CInvQ. *)
From Coq Require Import List NArith Bool Lia.
From LV Require Import Notifier.Model Notifier.Spec Notifier.Proofs Notifier.ConfLemmas
  Notifier.ConfShape Notifier.ConfInvA Notifier.ConfInvL Notifier.ConfInvQ.
Import ListNotations.
Local Open Scope N_scope.
Local Arguments reorgN : simpl never.

Lemma call_reach w0 w :
  CInvA w0 -> CInvL w0 -> CInvQ w0 -> creach w0 w -> CInvA w /\ CInvL w /\ CInvQ w.
Proof.
  intros A L Q R. induction R; auto. destruct IHR as [A' [L' Q']].
  split; [eapply cinva_step|split; [eapply clinv_step|eapply cqinv_step]]; eauto.
Qed.

Lemma call_init ch start lim h0 w :
  cstart_ok ch start lim h0 -> creach (cinit ch start lim h0) w -> CInvA w /\ CInvL w /\ CInvQ w.
Proof.
  intros H R. eapply call_reach; eauto.
  - apply cinva_init; auto.
  - apply clinv_init.
  - apply cqinv_init.
Qed.

Lemma conf_hint_safe ch start lim h0 w :
  cstart_ok ch start lim h0 -> creach (cinit ch start lim h0) w ->
  forall x h b, hint (cw_st w) = Some x -> cpos (cw_chain w) = Some (h, b) -> x <= h.
Proof. intros H R. destruct (call_init _ _ _ _ _ H R) as [A _]. apply (ca_hint _ A). Qed.

Lemma conf_exact ch start lim h0 w :
  cstart_ok ch start lim h0 -> creach (cinit ch start lim h0) w ->
  forall s c, cset (cw_st w) = Some s -> In c (cs_ntfns s) ->
    (* dispatched flag = last Confirmed not followed by a NegativeConf, and that
       Confirmed carried the cached details *)
    clstate (c_id c) (cw_log w) = Some (if c_disp c then cs_det s else None) /\
    (* an un-negated Confirmed names the block of the ACTIVE chain holding the tx *)
    (forall h b, clstate (c_id c) (cw_log w) = Some (Some (h, b)) ->
       cpos (cw_chain w) = Some (h, b)) /\
    (* whenever the tx has >= NumConfirmations confirmations on the active chain
       (rescan finished, no NotifyHeight outstanding) the client has been told so *)
    (cw_pending w = false -> cs_rescan s = RComplete ->
     forall h b, cpos (cw_chain w) = Some (h, b) -> h + c_n c - 1 <= cur (cw_st w) ->
       clstate (c_id c) (cw_log w) = Some (Some (h, b))).
Proof.
  intros H R s c Hs Hc. destruct (call_init _ _ _ _ _ H R) as [A [L Q]].
  pose proof (cl_flag _ L s c Hs Hc) as Hf. unfold ctold in Hf.
  split; [exact Hf|split].
  - intros h b Ht. rewrite Ht in Hf. inversion Hf as [Hd].
    destruct (c_disp c); [|discriminate]. symmetry in Hd. apply (ca_det _ A s h b Hs Hd).
  - intros Hp Hr h b Hpos Hn.
    destruct (cs_det s) as [[dh db]|] eqn:Ed.
    + destruct (ca_det _ A s dh db Hs Ed) as [Hp' _]. rewrite Hp' in Hpos. inversion Hpos; subst.
      rewrite Hf. destruct (c_disp c) eqn:Edisp; auto. exfalso.
      pose proof (cq_has _ Q s c h b Hs Hc Ed Edisp) as Hin.
      destruct (cq_in _ Q _ _ Hin) as [[P1|[P1 _]] _]; [lia|congruence].
    + rewrite (ca_nodet _ A s Hs Ed Hr) in Hpos. discriminate.
Qed.

(* ---- emission time: which calls send Confirmed, and under what condition ---- *)

Lemma dispatch_emit cu lim h b l id h1 b1 :
  In (id, EConf h1 b1) (flat_map (d_e cu lim (h, b)) l) ->
  h1 = h /\ b1 = b /\ exists c, In c l /\ c_id (d_n cu lim (h, b) c) = id /\
    h + c_n (d_n cu lim (h, b) c) - 1 <= cu.
Proof.
  intros Hin. apply in_flat_map in Hin. destruct Hin as [c [Hc He]].
  destruct (dispatch1_spec cu lim h b c) as [A [B [T [Ht Hf]]]].
  pose proof (T _ He) as Hid. simpl in Hid.
  destruct (c_disp c) eqn:Ed.
  - destruct (Ht eq_refl) as [_ [Hn _]]. rewrite Hn in He. destruct He.
  - destruct (Hf eq_refl) as [_ [[Hle [_ [_ [Hev _]]]]|[_ [_ [_ Hq]]]]].
    + destruct (Hev _ He) as [Hx|Hx]; simpl in Hx; [|discriminate].
      inversion Hx; subst. split; auto. split; auto. exists c. rewrite A, B. auto.
    + specialize (Hq _ He). simpl in Hq. discriminate.
Qed.

Lemma cstep_emit ch cu rd lim nid s ini q hn pend high log o st' r ev :
  CInvA (mkCW ch (mkC cu rd lim nid s ini q hn) pend high log) ->
  CInvQ (mkCW ch (mkC cu rd lim nid s ini q hn) pend high log) ->
  cstep (mkC cu rd lim nid s ini q hn) o = Some (st', r, ev) ->
  forall id h b, In (id, EConf h b) ev ->
    exists s' c, cset st' = Some s' /\ cs_det s' = Some (h, b) /\ In c (cs_ntfns s') /\
      c_id c = id /\ h + c_n c - 1 <= cur st'.
Proof.
  intros I Q E id h b Hin.
  destruct o as [cid n hnt|cid|r0|height bid has| |height].
  - apply creg_shape in E. destruct E as [[_ ->]|[_ [_ E]]]; [destruct Hin|]. cbv zeta in E.
    destruct E as [[rs' [_ [-> _]]]|[h0 [b0 [_ [_ [-> ->]]]]]]; [destruct Hin|].
    apply dispatch_emit in Hin. destruct Hin as [-> [-> [c [Hc [Hi Hle]]]]].
    eexists _, (d_n cu lim (h0, b0) c). simpl.
    split; [reflexivity|]. split; [reflexivity|]. split; [apply in_map; exact Hc|]. auto.
  - apply ccancel_shape in E. destruct E as [-> _]. destruct Hin.
  - apply cupd_shape in E. destruct E as [[_ ->]|[s0 [_ [_ E]]]]; [destruct Hin|].
    destruct E as [[_ [-> _]]|[[h0 [b0 [_ [_ [-> _]]]]]|[h0 [b0 [_ [_ [-> ->]]]]]]];
      try (destruct Hin; fail).
    apply dispatch_emit in Hin. destruct Hin as [-> [-> [c [Hc [Hi Hle]]]]].
    eexists _, (d_n cu lim (h0, b0) c). simpl.
    split; [reflexivity|]. split; [reflexivity|]. split; [apply in_map; exact Hc|]. auto.
  - destruct (N.eqb_spec height (cu + 1)) as [->|Hne].
    + apply cconnect_shape in E. destruct E as [_ [s1 [ini1 [q1 [_ [[s2 [_ [_ [_ [_ ->]]]]]|[_ [_ ->]]]]]]]].
      * unfold done_events in Hin. apply in_map_iff in Hin. destruct Hin as [c [Hc _]]. discriminate.
      * destruct Hin.
    + simpl in E. apply N.eqb_neq in Hne. rewrite Hne in E. simpl in E. inversion E; subst.
      destruct Hin.
  - apply cnotify_shape in E.
    destruct E as [[_ [-> _]]|[s0 [bh [bid [-> [Hd [-> ->]]]]]]]; [destruct Hin|].
    apply in_flat_map in Hin. destruct Hin as [c [Hc He]].
    destruct (notify1_spec ini cu (bh, bid) q c) as [A [B [T [_ [Hev [Hex _]]]]]].
    pose proof (T _ He) as Hid. simpl in Hid.
    destruct (Hev _ He) as [Hx|Hx]; simpl in Hx; [|discriminate]. inversion Hx; subst.
    destruct Hex as [Hnd Hp]; [exists (c_id c, EConf bh bid); auto|].
    apply pmem_In in Hp.
    destruct (cq_in _ Q _ _ Hp) as [_ [s2 [c2 [h2 [b2 [Hs2 [Hd2 [Hc2 [Hi2 [Hq2 _]]]]]]]]]].
    simpl in *. sset Hs2. rewrite Hd in Hd2. inversion Hd2; subst.
    assert (c2 = c) by (eapply NoDup_key_inj; eauto; apply (ca_nodup _ I _ eq_refl)). subst c2.
    eexists _, (fst (notify1 ini (h2 + c_n c - 1) (h2, b2) q c)). simpl.
    split; [reflexivity|]. split; [reflexivity|].
    split; [apply in_map_iff; exists c; auto|]. rewrite A, B. split; auto. lia.
  - destruct (N.eqb_spec height cu) as [->|Hne].
    + apply cdisconnect_shape in E. destruct E as [_ [[_ [-> _]]|[_ [s0 [_ E]]]]]; [destruct Hin|].
      cbv zeta in E. destruct E as [-> _].
      pose proof (ca_ini _ I) as Iini. simpl in Iini.
      apply in_flat_map in Hin. destruct Hin as [c [Hc He]].
      destruct ini as [|x ini']; [destruct He|].
      destruct (Iini x (or_introl eq_refl)) as [Hi _]. inversion Hi; subst ini'.
      rewrite reorgN_single in He. destruct (N.eqb x cu); simpl in He;
        [destruct He as [He|[]]; discriminate|destruct He].
    + simpl in E. apply N.eqb_neq in Hne. rewrite Hne in E. simpl in E. inversion E; subst.
      destruct Hin.
Qed.

Lemma cwstep_log w o w' :
  cwstep w o = Some w' -> exists st' r ev, cstep (cw_st w) o = Some (st', r, ev) /\
    cw_st w' = st' /\ cw_log w' = cw_log w ++ ev.
Proof.
  unfold cwstep. destruct (cstep (cw_st w) o) as [[[st' r] ev]|]; [|discriminate].
  intros H. inversion H; subst; simpl. do 3 eexists. split; [reflexivity|split; reflexivity].
Qed.

(* A Confirmed event is only ever sent for a block of the active chain that
   holds the tx, and only when the tx has >= NumConfirmations confirmations on
   the active chain at that moment. *)
Lemma conf_emit ch start lim h0 w o w' :
  cstart_ok ch start lim h0 -> creach (cinit ch start lim h0) w ->
  cvalid w o -> cwstep w o = Some w' ->
  forall ev, cw_log w' = cw_log w ++ ev ->
  forall id h b, In (id, EConf h b) ev ->
    cpos (cw_chain w') = Some (h, b) /\
    exists s c, cset (cw_st w') = Some s /\ In c (cs_ntfns s) /\ c_id c = id /\
      h + c_n c - 1 <= cur (cw_st w').
Proof.
  intros H R V S ev Hlog id h b Hin.
  destruct (call_init _ _ _ _ _ H R) as [A [L Q]].
  pose proof (cinva_step _ _ _ A V S) as A'.
  destruct (cwstep_log _ _ _ S) as [st' [r [ev' [E [Hst Hl]]]]].
  rewrite Hl in Hlog. apply app_inv_head in Hlog. subst ev'.
  destruct w as [wch [cu rd wlim nid s ini q hn] pend high log]. simpl in *.
  destruct (cstep_emit _ _ _ _ _ _ _ _ _ _ _ _ _ _ _ _ A Q E id h b Hin)
    as [s' [c [Hs [Hd [Hc [Hi Hle]]]]]].
  rewrite <- Hst in *.
  split.
  - apply (ca_det _ A' s' h b Hs Hd).
  - exists s', c. auto.
Qed.

Lemma conf_reorg_before_reconf ch start lim h0 w :
  cstart_ok ch start lim h0 -> creach (cinit ch start lim h0) w ->
  forall id, clstate id (cw_log w) <> None.
Proof. intros H R. destruct (call_init _ _ _ _ _ H R) as [_ [L _]]. apply (cl_ok _ L). Qed.

(* ---- reachability by an explicit list of calls (for witnesses / examples) ---- *)

Fixpoint cvrun (w : cworld) (ops : list cop) (w' : cworld) : Prop :=
  match ops with
  | [] => w' = w
  | o :: r => cvalid w o /\ exists w1, cwstep w o = Some w1 /\ cvrun w1 r w'
  end.

Lemma cvrun_reach w0 ops : forall w w', creach w0 w -> cvrun w ops w' -> creach w0 w'.
Proof.
  induction ops as [|o r IH]; simpl; intros w w' R H.
  - subst. exact R.
  - destruct H as [V [w1 [S H]]]. eapply IH; [|exact H]. eapply creach_step; eauto.
Qed.

Fixpoint svrun (w : sworld) (ops : list sop) (w' : sworld) : Prop :=
  match ops with
  | [] => w' = w
  | o :: r => svalid w o /\ exists w1, swstep w o = Some w1 /\ svrun w1 r w'
  end.

Lemma svrun_reach w0 ops : forall w w', sreach w0 w -> svrun w ops w' -> sreach w0 w'.
Proof.
  induction ops as [|o r IH]; simpl; intros w w' R H.
  - subst. exact R.
  - destruct H as [V [w1 [S H]]]. eapply IH; [|exact H]. eapply sreach_step; eauto.
Qed.

(* ---- "un-negated Confirmed => the tx still has >= N confirmations" is FALSE
        of lnd: after a partial reorg (blocks above the tx's block removed) no
        NegativeConf is sent.  lnd's own TestTxNotifierReorgPartialConfirmation
        pins this behaviour; the >= N clause therefore only holds at emission
        time (conf_emit). ---- *)

Definition pr_chain : list (N * (N * bool)) := [(1, (1, false))].
Definition pr_ops : list cop :=
  [CReg 1 2 1; CUpd None; CConnect 2 12 true; CNotify; CConnect 3 13 false; CNotify;
   CDisconnect 3].

Lemma pr_start_ok : cstart_ok pr_chain 1 144 None.
Proof.
  unfold cstart_ok, pr_chain. simpl. repeat split; try lia; try discriminate; auto.
  all: intros; discriminate.
Qed.

Ltac vstep :=
  split;
  [ simpl; repeat split; try reflexivity; try discriminate; try lia;
    try (intros; discriminate); try (intros; reflexivity)
  | eexists; split; [vm_compute; reflexivity|] ].

Lemma pr_run :
  exists w, cvrun (cinit pr_chain 1 144 None) pr_ops w /\
    cw_pending w = false /\
    exists s c, cset (cw_st w) = Some s /\ cs_rescan s = RComplete /\
      In c (cs_ntfns s) /\
      clstate (c_id c) (cw_log w) = Some (Some (2, 12)) /\
      cpos (cw_chain w) = Some (2, 12) /\
      cur (cw_st w) < 2 + c_n c - 1.
Proof.
  eexists. split.
  { unfold pr_ops. vstep. vstep. vstep. vstep. vstep. vstep. vstep. simpl. reflexivity. }
  vm_compute. split; [reflexivity|].
  eexists. exists (mkCN 1 2 true 2). repeat split; auto.
Qed.

Lemma conf_partial_reorg_refuted :
  exists w s c,
    cstart_ok pr_chain 1 144 None /\ creach (cinit pr_chain 1 144 None) w /\
    cw_pending w = false /\ cset (cw_st w) = Some s /\ cs_rescan s = RComplete /\
    In c (cs_ntfns s) /\
    clstate (c_id c) (cw_log w) = Some (Some (2, 12)) /\
    cpos (cw_chain w) = Some (2, 12) /\
    cur (cw_st w) < 2 + c_n c - 1.
Proof.
  destruct pr_run as [w [R [Hp [s [c H]]]]].
  exists w, s, c. split; [exact pr_start_ok|]. split; [|tauto].
  eapply cvrun_reach; [apply creach_init|exact R].
Qed.

(* ---- repair af6371e: details found by a rescan while NO client is registered
        are tracked by height, so a reorg of their block clears them.  The
        former counter-example history of finding C14-F1 (register, cancel,
        rescan completes, reorg, re-register) now satisfies every environment
        obligation and ends clean. ---- *)

Lemma conf_details_on_chain ch start lim h0 w :
  cstart_ok ch start lim h0 -> creach (cinit ch start lim h0) w ->
  forall s, cset (cw_st w) = Some s ->
    (forall h b, cs_det s = Some (h, b) -> cpos (cw_chain w) = Some (h, b)) /\
    (cs_det s = None -> cs_rescan s = RComplete -> cpos (cw_chain w) = None) /\
    (cs_det s = None -> forall c, In c (cs_ntfns s) -> c_disp c = false).
Proof.
  intros H R s Hs. destruct (call_init _ _ _ _ _ H R) as [A _].
  split; [|split].
  - intros h b Hd. apply (ca_det _ A s h b Hs Hd).
  - intros Hd Hr. apply (ca_nodet _ A s Hs Hd Hr).
  - intros Hd c Hc. apply (ca_cl _ A s c Hs Hc). exact Hd.
Qed.

Definition zc_cchain : list (N * (N * bool)) := [(3, (3, false)); (2, (2, true)); (1, (1, false))].
Definition zc_cops1 : list cop := [CReg 1 1 1; CCancel 1; CUpd (Some (2, 2))].
Definition zc_cops2 : list cop :=
  [CDisconnect 3; CDisconnect 2; CConnect 2 4 false; CNotify; CConnect 3 5 false; CNotify;
   CReg 2 1 1].

Lemma zc_cstart_ok : cstart_ok zc_cchain 3 144 None.
Proof.
  unfold cstart_ok, zc_cchain. simpl. repeat split; try lia; try discriminate; auto.
  all: try (intros; discriminate). all: try (intros; lia).
Qed.

Ltac wstep :=
  split;
  [ simpl; repeat split; try reflexivity; try discriminate; try lia;
    try (intros; discriminate); try (intros; reflexivity); try (intros; congruence)
  | eexists; split; [vm_compute; reflexivity|] ].

Lemma conf_zero_client_details_cleared :
  exists w1 w s1 s,
    cstart_ok zc_cchain 3 144 None /\
    (* the rescan result arrives with zero clients: details stored AND tracked *)
    cvrun (cinit zc_cchain 3 144 None) zc_cops1 w1 /\
    cset (cw_st w1) = Some s1 /\ cs_ntfns s1 = [] /\ cs_det s1 = Some (2, 2) /\
    initial (cw_st w1) = [2] /\
    (* its block is reorged out, a new client registers: nothing stale *)
    cvrun w1 zc_cops2 w /\ creach (cinit zc_cchain 3 144 None) w /\
    cset (cw_st w) = Some s /\ cs_det s = None /\ cpos (cw_chain w) = None /\
    clstate 2 (cw_log w) = Some None /\ hint (cw_st w) = Some 3.
Proof.
  assert (R1 : exists w1, cvrun (cinit zc_cchain 3 144 None) zc_cops1 w1 /\
            exists s1, cset (cw_st w1) = Some s1 /\ cs_ntfns s1 = [] /\ cs_det s1 = Some (2, 2) /\
            initial (cw_st w1) = [2] /\
            exists w, cvrun w1 zc_cops2 w /\
            exists s, cset (cw_st w) = Some s /\ cs_det s = None /\ cpos (cw_chain w) = None /\
            clstate 2 (cw_log w) = Some None /\ hint (cw_st w) = Some 3).
  { eexists. split.
    { unfold zc_cops1.
      split; [simpl; intros h b Hp; inversion Hp; subst; lia
             |eexists; split; [vm_compute; reflexivity|]].
      wstep. wstep. simpl. reflexivity. }
    eexists. split; [vm_compute; reflexivity|]. split; [reflexivity|]. split; [reflexivity|].
    split; [reflexivity|].
    eexists. split.
    { unfold zc_cops2. wstep. wstep. wstep. wstep. wstep. wstep. wstep. simpl. reflexivity. }
    eexists. split; [vm_compute; reflexivity|]. repeat split; vm_compute; reflexivity. }
  destruct R1 as [w1 [R1 [s1 [A1 [A2 [A3 [A4 [w [R2 [s [B1 [B2 [B3 [B4 B5]]]]]]]]]]]]]].
  exists w1, w, s1, s. split; [exact zc_cstart_ok|].
  repeat (split; [assumption|]). split; [|repeat split; assumption].
  eapply cvrun_reach; [|exact R2]. eapply cvrun_reach; [apply creach_init|exact R1].
Qed.

Definition zc_schain : list (N * option N) := [(3, None); (2, Some 0); (1, None)].
Definition zc_sops1 : list sop := [SReg 1 1; SCancel 1; SUpd (Some (2, 0))].
Definition zc_sops2 : list sop :=
  [SDisconnect 3; SDisconnect 2; SConnect 2 None; SNotify; SConnect 3 None; SNotify; SReg 2 1].

Lemma zc_sstart_ok : sstart_ok zc_schain 3 144 None.
Proof.
  unfold sstart_ok, zc_schain. simpl. repeat split; try lia; try discriminate; auto.
  all: try (intros; discriminate). all: try (intros; lia).
  all: try (intros H; exfalso; apply H; reflexivity).
Qed.

Lemma spend_zero_client_details_cleared :
  exists w1 w s1 s,
    sstart_ok zc_schain 3 144 None /\
    svrun (sinit zc_schain 3 144 None) zc_sops1 w1 /\
    sset (sw_st w1) = Some s1 /\ ss_ntfns s1 = [] /\ ss_det s1 = Some (2, 0) /\
    sheights (sw_st w1) = [2] /\
    svrun w1 zc_sops2 w /\ sreach (sinit zc_schain 3 144 None) w /\
    sset (sw_st w) = Some s /\ ss_det s = None /\ spos (sw_chain w) = None /\
    slstate 2 (sw_log w) = Some None /\ shint (sw_st w) = Some 3.
Proof.
  assert (R1 : exists w1, svrun (sinit zc_schain 3 144 None) zc_sops1 w1 /\
            exists s1, sset (sw_st w1) = Some s1 /\ ss_ntfns s1 = [] /\ ss_det s1 = Some (2, 0) /\
            sheights (sw_st w1) = [2] /\
            exists w, svrun w1 zc_sops2 w /\
            exists s, sset (sw_st w) = Some s /\ ss_det s = None /\ spos (sw_chain w) = None /\
            slstate 2 (sw_log w) = Some None /\ shint (sw_st w) = Some 3).
  { eexists. split.
    { unfold zc_sops1.
      split; [simpl; intros h t Hp; inversion Hp; subst; lia
             |eexists; split; [vm_compute; reflexivity|]].
      wstep. wstep. simpl. reflexivity. }
    eexists. split; [vm_compute; reflexivity|]. split; [reflexivity|]. split; [reflexivity|].
    split; [reflexivity|].
    eexists. split.
    { unfold zc_sops2. wstep. wstep. wstep. wstep. wstep. wstep. wstep. simpl. reflexivity. }
    eexists. split; [vm_compute; reflexivity|]. repeat split; vm_compute; reflexivity. }
  destruct R1 as [w1 [R1 [s1 [A1 [A2 [A3 [A4 [w [R2 [s [B1 [B2 [B3 [B4 B5]]]]]]]]]]]]]].
  exists w1, w, s1, s. split; [exact zc_sstart_ok|].
  repeat (split; [assumption|]). split; [|repeat split; assumption].
  eapply svrun_reach; [|exact R2]. eapply svrun_reach; [apply sreach_init|exact R1].
Qed.

(* ---- an OUTDATED historical-rescan answer ("not found", or a block that is not
        on the chain) delivered after the notifier found the tx / spend at tip and
        more blocks were connected is within the environment obligations and
        changes nothing: in particular the persisted hint stays at the
        confirmation / spend height. ---- *)

Definition st_cops : list cop :=
  [CReg 1 1 1; CConnect 2 12 true; CNotify; CConnect 3 13 false; CNotify].
Definition st_cops2 : list cop := [CUpd None; CUpd (Some (1, 1))].

Lemma conf_stale_rescan_ignored :
  exists w1 w,
    cstart_ok pr_chain 1 144 None /\
    cvrun (cinit pr_chain 1 144 None) st_cops w1 /\
    cvrun w1 st_cops2 w /\ creach (cinit pr_chain 1 144 None) w /\
    cw_st w = cw_st w1 /\ cw_log w = cw_log w1 /\
    hint (cw_st w) = Some 2 /\ cpos (cw_chain w) = Some (2, 12) /\
    clstate 1 (cw_log w) = Some (Some (2, 12)).
Proof.
  assert (R : exists w1, cvrun (cinit pr_chain 1 144 None) st_cops w1 /\
            exists w, cvrun w1 st_cops2 w /\
            cw_st w = cw_st w1 /\ cw_log w = cw_log w1 /\
            hint (cw_st w) = Some 2 /\ cpos (cw_chain w) = Some (2, 12) /\
            clstate 1 (cw_log w) = Some (Some (2, 12))).
  { eexists. split.
    { unfold st_cops. wstep. wstep. wstep. wstep. wstep. simpl. reflexivity. }
    eexists. split.
    { unfold st_cops2.
      split; [simpl; intros s Hs Hd; inversion Hs; subst; discriminate Hd
             |eexists; split; [vm_compute; reflexivity|]].
      split; [simpl; intros s Hs Hd; inversion Hs; subst; discriminate Hd
             |eexists; split; [vm_compute; reflexivity|]].
      simpl. reflexivity. }
    repeat split; vm_compute; reflexivity. }
  destruct R as [w1 [R1 [w [R2 H]]]]. exists w1, w.
  split; [exact pr_start_ok|]. split; [exact R1|]. split; [exact R2|]. split; [|exact H].
  eapply cvrun_reach; [|exact R2]. eapply cvrun_reach; [apply creach_init|exact R1].
Qed.

Definition st_schain : list (N * option N) := [(1, None)].
Definition st_sops : list sop :=
  [SReg 1 1; SConnect 2 (Some 0); SNotify; SConnect 3 None; SNotify].
Definition st_sops2 : list sop := [SUpd None; SUpd (Some (1, 1))].

Lemma st_sstart_ok : sstart_ok st_schain 1 144 None.
Proof.
  unfold sstart_ok, st_schain. simpl. repeat split; try lia; try discriminate; auto.
  all: try (intros; discriminate).
Qed.

Lemma spend_stale_rescan_ignored :
  exists w1 w,
    sstart_ok st_schain 1 144 None /\
    svrun (sinit st_schain 1 144 None) st_sops w1 /\
    svrun w1 st_sops2 w /\ sreach (sinit st_schain 1 144 None) w /\
    sw_st w = sw_st w1 /\ sw_log w = sw_log w1 /\
    shint (sw_st w) = Some 2 /\ spos (sw_chain w) = Some (2, 0) /\
    slstate 1 (sw_log w) = Some (Some (2, 0)).
Proof.
  assert (R : exists w1, svrun (sinit st_schain 1 144 None) st_sops w1 /\
            exists w, svrun w1 st_sops2 w /\
            sw_st w = sw_st w1 /\ sw_log w = sw_log w1 /\
            shint (sw_st w) = Some 2 /\ spos (sw_chain w) = Some (2, 0) /\
            slstate 1 (sw_log w) = Some (Some (2, 0))).
  { eexists. split.
    { unfold st_sops. wstep. wstep. wstep. wstep. wstep. simpl. reflexivity. }
    eexists. split.
    { unfold st_sops2.
      split; [simpl; intros s Hs Hd; inversion Hs; subst; discriminate Hd
             |eexists; split; [vm_compute; reflexivity|]].
      split; [simpl; intros s Hs Hd; inversion Hs; subst; discriminate Hd
             |eexists; split; [vm_compute; reflexivity|]].
      simpl. reflexivity. }
    repeat split; vm_compute; reflexivity. }
  destruct R as [w1 [R1 [w [R2 H]]]]. exists w1, w.
  split; [exact st_sstart_ok|]. split; [exact R1|]. split; [exact R2|]. split; [|exact H].
  eapply svrun_reach; [|exact R2]. eapply svrun_reach; [apply sreach_init|exact R1].
Qed.
