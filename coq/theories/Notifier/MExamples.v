(* Non-vacuity of the multi-request theorems: an explicit multi-request run that
   meets every environment obligation and goes through a SHARED
   ntfnsByConfirmHeight bucket across a partial reorg.  Request 0 (tx A, client
   1 wants 3 confirmations) is included in block 3, request 1 (tx B, client 2
   wants 2 confirmations) in block 4: both clients wait in the bucket of height
   5 (and nothing else is shared: different inclusion buckets).  Block 4 is
   reorged out -- only B's entry leaves the bucket --, the new branch does not
   contain B and grows to height 5: client 1 is told Confirmed (3, block 3),
   client 2 was sent one Updates and the NegativeConf and nothing else.  The run
   is checked by evaluating one boolean (MCheck.v). *)
From Coq Require Import List NArith Bool Lia.
From LV Require Import Notifier.Model Notifier.Spec Notifier.MModel Notifier.MLemmas
  Notifier.MSpec Notifier.MCheck.
Import ListNotations.
Local Open Scope N_scope.

Definition mx_chain : list (N * (N * list N)) := [(2, (2, [])); (1, (1, []))].
Definition mx_h0 : N -> option N := fun _ => None.
Definition mx_ops1 : list mcop :=
  [MCReg 0 1 3 1; MCUpd 0 None; MCReg 1 2 2 1; MCUpd 1 None;
   MCConnect 3 3 [0]; MCNotify; MCConnect 4 4 [1]; MCNotify].
Definition mx_ops2 : list mcop := [MCDisconnect 4].
Definition mx_ops3 : list mcop := [MCConnect 4 5 []; MCNotify; MCConnect 5 6 []; MCNotify].

Lemma mx_start_ok : mcstart_ok mx_chain 2 144 mx_h0.
Proof.
  intros r. unfold cstart_ok, mx_chain, mx_h0. cbn. repeat split; try lia; try discriminate.
Qed.

Definition q_dec : forall a b : list (N * (N * N)), {a = b} + {a <> b}.
Proof. repeat decide equality. Defined.
Definition i_dec : forall a b : list (N * N), {a = b} + {a <> b}.
Proof. repeat decide equality. Defined.
Definition p_dec : forall a b : option (N * N), {a = b} + {a <> b}.
Proof. repeat decide equality. Defined.
Definition t_dec : forall a b : option (option (N * N)), {a = b} + {a <> b}.
Proof. repeat decide equality. Defined.
Definition e_dec : forall a b : list cev, {a = b} + {a <> b}.
Proof. repeat decide equality. Defined.

Definition mx_obs1 (w : mcworld) : bool :=
  dec_true _ _ (q_dec (m_q (mcw_st w)) [(1, (5, 2)); (0, (5, 1))]) &&
  dec_true _ _ (i_dec (m_ini (mcw_st w)) [(1, 4); (0, 3)]).
Definition mx_obs2 (w : mcworld) : bool :=
  dec_true _ _ (q_dec (m_q (mcw_st w)) [(0, (5, 1))]) &&
  dec_true _ _ (i_dec (m_ini (mcw_st w)) [(0, 3)]).
Definition mx_obs3 (w : mcworld) : bool :=
  dec_true _ _ (N.eq_dec (m_cur (mcw_st w)) 5) &&
  dec_true _ _ (p_dec (cpos (cchain_of 0 (mcw_chain w))) (Some (3, 3))) &&
  dec_true _ _ (p_dec (cpos (cchain_of 1 (mcw_chain w))) None) &&
  dec_true _ _ (t_dec (clstate 1 (tproj 0 (mcw_log w))) (Some (Some (3, 3)))) &&
  dec_true _ _ (e_dec (sel 2 (tproj 1 (mcw_log w))) [EUpd 1 4; ENeg 1]).

Lemma mx_checked :
  match mcrunb [0; 1] (mcinit mx_chain 2 144 mx_h0) mx_ops1 with
  | Some w1 =>
    mx_obs1 w1 &&
    match mcrunb [0; 1] w1 mx_ops2 with
    | Some w2 =>
      mx_obs2 w2 &&
      match mcrunb [0; 1] w2 mx_ops3 with
      | Some w => mx_obs3 w
      | None => false
      end
    | None => false
    end
  | None => false
  end = true.
Proof. vm_compute. reflexivity. Qed.

Lemma multi_shared_bucket_example : exists w1 w2 w,
  mcstart_ok mx_chain 2 144 mx_h0 /\
  mcvrun (mcinit mx_chain 2 144 mx_h0) mx_ops1 w1 /\
  m_q (mcw_st w1) = [(1, (5, 2)); (0, (5, 1))] /\ m_ini (mcw_st w1) = [(1, 4); (0, 3)] /\
  mcvrun w1 mx_ops2 w2 /\
  m_q (mcw_st w2) = [(0, (5, 1))] /\ m_ini (mcw_st w2) = [(0, 3)] /\
  mcvrun w2 mx_ops3 w /\ mcreach (mcinit mx_chain 2 144 mx_h0) w /\
  m_cur (mcw_st w) = 5 /\
  cpos (cchain_of 0 (mcw_chain w)) = Some (3, 3) /\ cpos (cchain_of 1 (mcw_chain w)) = None /\
  clstate 1 (tproj 0 (mcw_log w)) = Some (Some (3, 3)) /\
  sel 2 (tproj 1 (mcw_log w)) = [EUpd 1 4; ENeg 1].
Proof.
  pose proof mx_checked as C.
  destruct (mcrunb [0; 1] (mcinit mx_chain 2 144 mx_h0) mx_ops1) as [w1|] eqn:R1; [|discriminate].
  apply andb_true_iff in C. destruct C as [O1 C].
  destruct (mcrunb [0; 1] w1 mx_ops2) as [w2|] eqn:R2; [|discriminate].
  apply andb_true_iff in C. destruct C as [O2 C].
  destruct (mcrunb [0; 1] w2 mx_ops3) as [w|] eqn:R3; [|discriminate].
  apply mcrunb_sound in R1, R2, R3.
  unfold mx_obs1, mx_obs2, mx_obs3 in *.
  repeat match goal with H : _ && _ = true |- _ => apply andb_true_iff in H; destruct H end.
  repeat match goal with H : dec_true _ _ _ = true |- _ => apply dec_true_eq in H end.
  exists w1, w2, w.
  repeat match goal with |- _ /\ _ => split end; auto.
  - apply mx_start_ok.
  - eapply mcvrun_reach; [|exact R3]. eapply mcvrun_reach; [|exact R2].
    eapply mcvrun_reach; [constructor|exact R1].
Qed.
