(* C14, confirmation side, layer Q: ntfnsByConfirmHeight holds exactly the
   pending confirmation heights of the not yet notified clients, computed from
   the active chain's block, and never an entry at or below the current height
   (except during the ConnectTip..NotifyHeight window). *)
From Coq Require Import List NArith Bool Lia.
From LV Require Import Notifier.Model Notifier.Spec Notifier.Proofs Notifier.ConfLemmas
  Notifier.ConfShape Notifier.ConfInvA.
Import ListNotations.
Local Open Scope N_scope.
Local Arguments reorgN : simpl never.

Record CInvQ (w : cworld) : Prop := {
  cq_has : forall s c h b, cset (cw_st w) = Some s -> In c (cs_ntfns s) ->
           cs_det s = Some (h, b) -> c_disp c = false ->
           In (h + c_n c - 1, c_id c) (queue (cw_st w));
  cq_in : forall qh id, In (qh, id) (queue (cw_st w)) ->
          (cur (cw_st w) < qh \/ (cw_pending w = true /\ qh = cur (cw_st w))) /\
          exists s c h b, cset (cw_st w) = Some s /\ cs_det s = Some (h, b) /\
            In c (cs_ntfns s) /\ c_id c = id /\ qh = h + c_n c - 1 /\
            (c_disp c = true -> cw_pending w = true /\ qh = cur (cw_st w))
}.

Lemma cqinv_log ch ch' st pend high high' log log' :
  CInvQ (mkCW ch st pend high log) -> CInvQ (mkCW ch' st pend high' log').
Proof. intros [A B]. constructor; auto. Qed.

(* dispatchConfDetails over a client list that already satisfies the queue
   invariant for the old queue *)
Lemma cqinv_dispatch ch cu rd lim nid rs h b l l0 ini' q hn pend high log :
  (forall c, In c l0 -> In c l) ->
  (forall qh id, In (qh, id) q ->
     (cu < qh \/ (pend = true /\ qh = cu)) /\
     exists c, In c l0 /\ c_id c = id /\ qh = h + c_n c - 1 /\
       (c_disp c = true -> pend = true /\ qh = cu)) ->
  (forall c, In c l -> c_disp c = false -> cu < h + c_n c - 1 -> True) ->
  (forall c, In c l0 -> c_disp c = false -> In (h + c_n c - 1, c_id c) q) ->
  CInvQ (mkCW ch (mkC cu rd lim nid
                      (Some (mkCS rs (Some (h, b)) (map (d_n cu lim (h, b)) l))) ini'
                      (padd_all (flat_map (d_q cu lim (h, b)) l) q) hn) pend high log).
Proof.
  intros Hsub Hq _ Hhas. constructor; simpl.
  - intros s c' h1 b1 Hs Hc Hd Hdisp. sset Hs. inversion Hd; subst.
    apply in_map_iff in Hc. destruct Hc as [c0 [<- Hc0]].
    destruct (dispatch1_spec cu lim h1 b1 c0) as [A [B [_ [Ht Hf]]]]. rewrite A, B.
    apply In_padd_all. left. apply in_flat_map. exists c0. split; auto.
    destruct (c_disp c0) eqn:Ed.
    + destruct (Ht eq_refl) as [Heq _]. rewrite Heq in Hdisp. congruence.
    + destruct (Hf eq_refl) as [_ [[_ [D _]]|[_ [_ [Q _]]]]]; [congruence|].
      rewrite Q. left. reflexivity.
  - intros qh id Hin. apply In_padd_all in Hin. destruct Hin as [Hin|Hin].
    + apply in_flat_map in Hin. destruct Hin as [c0 [Hc0 Hin]].
      destruct (dispatch1_spec cu lim h b c0) as [A [B [_ [Ht Hf]]]].
      destruct (c_disp c0) eqn:Ed.
      * destruct (Ht eq_refl) as [_ [_ [Q _]]]. rewrite Q in Hin. destruct Hin.
      * destruct (Hf eq_refl) as [_ [[_ [_ [Q _]]]|[Hlt [D [Q _]]]]]; rewrite Q in Hin;
          [destruct Hin|].
        destruct Hin as [Heq|[]]. inversion Heq; subst. split; [left; exact Hlt|].
        exists (mkCS rs (Some (h, b)) (map (d_n cu lim (h, b)) l)), (d_n cu lim (h, b) c0), h, b.
        split; [reflexivity|]. split; [reflexivity|]. split; [apply in_map; exact Hc0|].
        split; [exact A|]. split; [rewrite B; reflexivity|]. intros Hx. congruence.
    + destruct (Hq qh id Hin) as [P1 [c [Hc [Hid [Hqh Hd]]]]]. split; [exact P1|].
      destruct (dispatch1_spec cu lim h b c) as [A [B [_ [Ht Hf]]]].
      exists (mkCS rs (Some (h, b)) (map (d_n cu lim (h, b)) l)), (d_n cu lim (h, b) c), h, b.
      split; [reflexivity|]. split; [reflexivity|]. split; [apply in_map; auto|].
      split; [congruence|]. split; [rewrite B; exact Hqh|].
      intros Hx. destruct (c_disp c) eqn:Ed; [apply Hd; reflexivity|].
      destruct (Hf eq_refl) as [_ [[Hle _]|[_ [D _]]]]; [|congruence].
      destruct P1 as [P1|P1]; [lia|exact P1].
Qed.

Lemma cqinv_reg ch cu rd lim nid s ini q hn pend high log id n hnt st' r ev :
  CInvA (mkCW ch (mkC cu rd lim nid s ini q hn) pend high log) ->
  CInvQ (mkCW ch (mkC cu rd lim nid s ini q hn) pend high log) ->
  cstep (mkC cu rd lim nid s ini q hn) (CReg id n hnt) = Some (st', r, ev) ->
  CInvQ (mkCW ch st' pend high (log ++ ev)).
Proof.
  intros I Q E. apply creg_shape in E.
  destruct E as [[-> ->]|[Hid [Hn E]]]; [eapply cqinv_log; eauto|].
  cbv zeta in E.
  pose proof (ca_det _ I) as Idet. simpl in Idet.
  destruct Q as [Qhas Qin]. simpl in *.
  destruct E as [[rs' [-> [-> [Hnc _]]]]|[h [b [Hr [Hd [-> ->]]]]]].
  - assert (Hdn : cs_det (cs0 s) = None).
    { destruct (cs_det (cs0 s)) as [[h b]|] eqn:Ed; auto. exfalso.
      destruct s as [s0|]; [|discriminate]. simpl in *.
      destruct (Idet s0 h b eq_refl Ed) as [_ Hr]. destruct Hnc; congruence. }
    constructor; simpl.
    + intros s1 c h b Hs _ Hd. sset Hs. congruence.
    + intros qh id0 Hin. exfalso.
      destruct (Qin qh id0 Hin) as [_ [s1 [c [h [b [Hs [Hd _]]]]]]]. subst s. simpl in Hdn.
      congruence.
  - destruct s as [s0|]; [|discriminate]. simpl in *.
    apply cqinv_dispatch with (l0 := cs_ntfns s0); auto.
    + intros c Hc. apply in_app_iff. left. exact Hc.
    + intros qh id0 Hin. destruct (Qin qh id0 Hin) as [P1 [s1 [c [h1 [b1 [Hs [Hd1 [Hc [Hi [Hq Hx]]]]]]]]]].
      sset Hs. rewrite Hd in Hd1. inversion Hd1; subst. split; auto. exists c. auto.
    + intros c Hc Hdisp. apply (Qhas s0 c h b eq_refl Hc Hd Hdisp).
Qed.

Lemma cqinv_cancel ch cu rd lim nid s ini q hn pend high log id st' r ev :
  CInvA (mkCW ch (mkC cu rd lim nid s ini q hn) pend high log) ->
  CInvQ (mkCW ch (mkC cu rd lim nid s ini q hn) pend high log) ->
  cstep (mkC cu rd lim nid s ini q hn) (CCancel id) = Some (st', r, ev) ->
  CInvQ (mkCW ch st' pend high (log ++ ev)).
Proof.
  intros I Q E. apply ccancel_shape in E. destruct E as [-> [->|[s0 [c [-> [Hf ->]]]]]];
    [eapply cqinv_log; eauto|].
  pose proof (ca_nodup _ I s0 eq_refl) as Ind. simpl in Ind.
  destruct (find_id_In _ _ _ Hf) as [Hcin Hcid].
  destruct Q as [Qhas Qin]. simpl in *.
  constructor; simpl.
  - intros s1 c1 h b Hs Hc Hd Hdisp. sset Hs. apply remove_In in Hc. destruct Hc as [Hc Hne].
    pose proof (Qhas s0 c1 h b eq_refl Hc Hd Hdisp) as Hin. rewrite Hd.
    apply In_pdel. split; auto. intros Heq. inversion Heq. congruence.
  - intros qh id0 Hin.
    assert (Hin0 : In (qh, id0) q).
    { destruct (cs_det s0) as [[h b]|]; auto. apply In_pdel in Hin. tauto. }
    destruct (Qin qh id0 Hin0) as [P1 [s1 [c1 [h [b [Hs [Hd [Hc [Hi [Hq Hx]]]]]]]]]]. sset Hs.
    split; auto.
    exists (mkCS (cs_rescan s1) (cs_det s1) (remove_id (c_id c) (cs_ntfns s1))), c1, h, b.
    split; [reflexivity|]. split; [exact Hd|]. split; [|auto].
    apply remove_In. split; auto. intros Heq.
    assert (c1 = c) by (eapply NoDup_key_inj; eauto). subst c1.
    rewrite Hd in Hin. apply In_pdel in Hin. destruct Hin as [Hne _]. apply Hne. reflexivity.
Qed.

Lemma cqinv_upd ch cu rd lim nid s ini q hn pend high log r0 st' r ev :
  CInvQ (mkCW ch (mkC cu rd lim nid s ini q hn) pend high log) ->
  cstep (mkC cu rd lim nid s ini q hn) (CUpd r0) = Some (st', r, ev) ->
  CInvQ (mkCW ch st' pend high (log ++ ev)).
Proof.
  intros Q E. apply cupd_shape in E.
  destruct E as [[-> ->]|[s0 [-> [Hd0 E]]]]; [eapply cqinv_log; eauto|].
  destruct Q as [Qhas Qin]. simpl in *.
  assert (Hqe : forall qh id, In (qh, id) q -> False).
  { intros qh id Hin. destruct (Qin qh id Hin) as [_ [s1 [c [h [b [Hs [Hd _]]]]]]]. sset Hs.
    congruence. }
  destruct E as [[-> [-> ->]]|[[h [b [-> [Hlt [-> ->]]]]]|[h [b [-> [Hle [-> ->]]]]]]].
  - constructor; simpl.
    + intros s1 c h b Hs _ Hd. sset Hs. discriminate.
    + intros qh id Hin. destruct (Hqe _ _ Hin).
  - constructor; simpl.
    + intros s1 c h1 b1 Hs _ Hd. sset Hs. discriminate.
    + intros qh id Hin. destruct (Hqe _ _ Hin).
  - apply cqinv_dispatch with (l0 := []); auto.
    + intros c [].
    + intros qh id Hin. destruct (Hqe _ _ Hin).
    + intros c [].
Qed.

Lemma cqinv_notify ch cu rd lim nid s ini q hn pend high log st' r ev :
  CInvA (mkCW ch (mkC cu rd lim nid s ini q hn) pend high log) ->
  CInvQ (mkCW ch (mkC cu rd lim nid s ini q hn) pend high log) ->
  cstep (mkC cu rd lim nid s ini q hn) CNotify = Some (st', r, ev) ->
  CInvQ (mkCW ch st' false high (log ++ ev)).
Proof.
  intros I Q E. apply cnotify_shape in E.
  destruct Q as [Qhas Qin]. simpl in *.
  destruct E as [[-> [-> Hnd]]|[s0 [bh [bid [-> [Hd [-> ->]]]]]]].
  - assert (Hqe : forall qh id, In (qh, id) q -> False).
    { intros qh id Hin. destruct (Qin qh id Hin) as [_ [s1 [c [h [b [Hs [Hd _]]]]]]].
      rewrite (Hnd s1 Hs) in Hd. discriminate. }
    constructor; simpl; auto.
    intros qh id Hin. destruct (Hqe _ _ Hin).
  - pose proof (ca_nodup _ I s0 eq_refl) as Ind. simpl in Ind.
    constructor; simpl.
    + intros s1 c' h b Hs Hc Hd1 Hdisp. sset Hs. inversion Hd1; subst.
      apply in_map_iff in Hc. destruct Hc as [c0 [<- Hc0]].
      destruct (notify1_spec ini cu (h, b) q c0) as [A [B [_ [D _]]]].
      rewrite D in Hdisp. apply orb_false_iff in Hdisp. destruct Hdisp as [Hd0 Hp].
      rewrite A, B. pose proof (Qhas s0 c0 h b eq_refl Hc0 Hd Hd0) as Hin.
      apply filter_In. split; auto. simpl. apply negb_true_iff. apply N.eqb_neq. intros Heq.
      rewrite Heq in Hin. apply pmem_In in Hin. congruence.
    + intros qh id Hin. apply filter_In in Hin. destruct Hin as [Hin Hne]. simpl in Hne.
      apply negb_true_iff, N.eqb_neq in Hne.
      destruct (Qin qh id Hin) as [P1 [s1 [c [h [b [Hs [Hd1 [Hc [Hi [Hq Hx]]]]]]]]]]. sset Hs.
      rewrite Hd in Hd1. inversion Hd1; subst.
      split; [left; destruct P1 as [P1|[_ P1]]; [exact P1|congruence]|].
      destruct (notify1_spec ini cu (h, b) q c) as [A [B [_ [D _]]]].
      eexists _, (fst (notify1 ini cu (h, b) q c)), h, b.
      split; [reflexivity|]. split; [reflexivity|]. split; [apply in_map_iff; exists c; auto|].
      split; [exact A|]. split; [rewrite B; reflexivity|].
      intros Hdisp. exfalso. rewrite D in Hdisp. apply orb_true_iff in Hdisp.
      destruct Hdisp as [Hdisp|Hp].
      * destruct (Hx Hdisp) as [_ Heq]. congruence.
      * apply pmem_In in Hp.
        destruct (Qin _ _ Hp) as [_ [s2 [c2 [h2 [b2 [Hs2 [Hd2 [Hc2 [Hi2 [Hq2 _]]]]]]]]]]. sset Hs2.
        rewrite Hd in Hd2. inversion Hd2; subst.
        assert (c2 = c) by (eapply NoDup_key_inj; eauto). subst c2. congruence.
Qed.

Lemma cqinv_connect ch cu rd lim nid s ini q hn high log bid has st' r ev ch' high' :
  CInvA (mkCW ch (mkC cu rd lim nid s ini q hn) false high log) ->
  CInvQ (mkCW ch (mkC cu rd lim nid s ini q hn) false high log) ->
  cstep (mkC cu rd lim nid s ini q hn) (CConnect (cu + 1) bid has) = Some (st', r, ev) ->
  CInvQ (mkCW ch' st' true high' (log ++ ev)).
Proof.
  intros I Q E. apply cconnect_shape in E. destruct E as [_ [s1 [ini1 [q1 [Hc1 Hc2]]]]].
  pose proof (ca_cl _ I) as Icl. pose proof (ca_ini _ I) as Iini. pose proof (ca_lim _ I) as Ilim.
  simpl in Icl, Iini, Ilim.
  destruct Q as [Qhas Qin]. simpl in *.
  assert (Hold : forall qh id, In (qh, id) q ->
            cu < qh /\ exists s0 c h b, s = Some s0 /\ cs_det s0 = Some (h, b) /\
              In c (cs_ntfns s0) /\ c_id c = id /\ qh = h + c_n c - 1 /\ c_disp c = false).
  { intros qh id Hin. destruct (Qin qh id Hin) as [P1 [s0 [c [h [b [Hs [Hd [Hc [Hi [Hq Hx]]]]]]]]]].
    split; [destruct P1 as [P1|[P1 _]]; [exact P1|discriminate]|].
    exists s0, c, h, b. repeat split; auto.
    destruct (c_disp c); auto. destruct (Hx eq_refl). discriminate. }
  destruct Hc1 as [[s0 [-> [-> [Hd0 [-> [-> ->]]]]]]|[-> [-> [-> _]]]].
  - (* included at tip *)
    assert (Hqe : forall qh id, In (qh, id) q -> False).
    { intros qh id Hin. destruct (Hold qh id Hin) as [_ [s1 [c [h [b [Hs [Hd _]]]]]]]. sset Hs.
      congruence. }
    destruct Hc2 as [[s2 [_ [Hl [Hin _]]]]|[_ [-> ->]]].
    + exfalso. apply In_add in Hin. destruct Hin as [Hin|Hin]; [lia|].
      destruct (Iini _ Hin) as [_ [s3 [b3 [Hs3 Hd3]]]]. sset Hs3. congruence.
    + constructor; simpl.
      * intros s1 c h b Hs Hc Hd _. sset Hs. inversion Hd; subst.
        apply In_padd_all. left. apply in_map_iff. exists c. auto.
      * intros qh id Hin. apply In_padd_all in Hin. destruct Hin as [Hin|Hin];
          [|destruct (Hqe _ _ Hin)].
        apply in_map_iff in Hin. destruct Hin as [c [Heq Hc]]. inversion Heq; subst.
        destruct (Icl s0 c eq_refl Hc) as [_ [Hn Hnd]].
        split; [lia|].
        eexists _, c, (cu + 1), bid.
        split; [reflexivity|]. split; [reflexivity|]. split; [exact Hc|].
        split; [reflexivity|]. split; [reflexivity|].
        intros Hx. rewrite (Hnd Hd0) in Hx. discriminate.
  - destruct Hc2 as [[s2 [-> [Hl [Hin [-> ->]]]]]|[_ [-> ->]]].
    + (* pruned: no queue entry can be left *)
      constructor; simpl; [intros; discriminate|].
      intros qh id Hq. exfalso.
      destruct (Hold qh id Hq) as [P1 [s0 [c [h [b [Hs [Hd [Hc [Hi [Hqh _]]]]]]]]]]. sset Hs.
      destruct (Iini _ Hin) as [_ [s3 [b3 [Hs3 Hd3]]]]. sset Hs3.
      rewrite Hd in Hd3. inversion Hd3; subst.
      destruct (Icl s3 c eq_refl Hc) as [_ [Hn _]]. lia.
    + constructor; simpl.
      * exact Qhas.
      * intros qh id Hq.
        destruct (Hold qh id Hq) as [P1 [s0 [c [h [b [Hs [Hd [Hc [Hi [Hqh Hnd]]]]]]]]]].
        split; [lia|]. exists s0, c, h, b. repeat split; auto; congruence.
Qed.

Lemma cqinv_disconnect ch cu rd lim nid s ini q hn high log st' r ev ch' :
  CInvA (mkCW ch (mkC cu rd lim nid s ini q hn) false high log) ->
  CInvQ (mkCW ch (mkC cu rd lim nid s ini q hn) false high log) ->
  cstep (mkC cu rd lim nid s ini q hn) (CDisconnect cu) = Some (st', r, ev) ->
  CInvQ (mkCW ch' st' false high (log ++ ev)).
Proof.
  intros I Q E. apply cdisconnect_shape in E. destruct E as [_ E].
  pose proof (ca_ini _ I) as Iini. simpl in Iini.
  destruct Q as [Qhas Qin]. simpl in *.
  assert (Hold : forall qh id, In (qh, id) q ->
            cu < qh /\ exists s0 c h b, s = Some s0 /\ cs_det s0 = Some (h, b) /\
              In c (cs_ntfns s0) /\ c_id c = id /\ qh = h + c_n c - 1 /\ c_disp c = false).
  { intros qh id Hin. destruct (Qin qh id Hin) as [P1 [s0 [c [h [b [Hs [Hd [Hc [Hi [Hq Hx]]]]]]]]]].
    split; [destruct P1 as [P1|[P1 _]]; [exact P1|discriminate]|].
    exists s0, c, h, b. repeat split; auto.
    destruct (c_disp c); auto. destruct (Hx eq_refl). discriminate. }
  destruct E as [[-> [-> ->]]|[Hne [s0 [-> E]]]].
  - constructor; simpl.
    + exact Qhas.
    + intros qh id Hq.
      destruct (Hold qh id Hq) as [P1 [s0 [c [h [b [Hs [Hd [Hc [Hi [Hqh Hnd]]]]]]]]]].
      split; [lia|]. exists s0, c, h, b. repeat split; auto; congruence.
  - cbv zeta in E. destruct E as [-> ->].
    destruct ini as [|x ini']; [congruence|].
    destruct (Iini x (or_introl eq_refl)) as [Hi [s1 [bx [Hs1 Hdx]]]].
    inversion Hi; subst ini'. inversion Hs1; subst s1. clear Hs1 Hi Hne.
    destruct (N.eqb_spec x cu) as [->|Hxc].
    + (* the tx's block goes away: every pending entry is removed *)
      assert (mem cu [cu] = true) as Hm by (apply mem_In; left; auto). rewrite Hm.
      constructor; simpl; [intros s1 c h b Hs _ Hd; sset Hs; discriminate|].
      intros qh id Hq. exfalso. apply In_pdel_all in Hq. destruct Hq as [Hnin Hq].
      destruct (Hold qh id Hq) as [_ [s1 [c [h [b [Hs [Hd [Hc [Hi [Hqh Hnd]]]]]]]]]]. sset Hs.
      rewrite Hdx in Hd. inversion Hd; subst.
      apply Hnin. apply in_flat_map. exists c. split; auto.
      rewrite reorgN_single, N.eqb_refl. simpl. rewrite Hnd. left. reflexivity.
    + assert (mem cu [x] = false) as Hm.
      { apply mem_false. intros [H|[]]. congruence. }
      rewrite Hm.
      assert (Hneq : N.eqb x cu = false) by (apply N.eqb_neq; auto).
      assert (Hds : forall y, ~ In y (flat_map (fun c => snd (reorgN [x] cu (rd + 1) c))
                                               (cs_ntfns s0))).
      { intros y Hy. apply in_flat_map in Hy. destruct Hy as [c [_ Hy]].
        rewrite reorgN_single, Hneq in Hy. destruct Hy. }
      constructor; simpl.
      * intros s1 c' h b Hs Hc Hd Hdisp. sset Hs.
        apply in_map_iff in Hc. destruct Hc as [c0 [<- Hc0]].
        rewrite reorgN_single, Hneq in *. simpl in *.
        apply In_pdel_all. split; [apply Hds|]. apply (Qhas s0 c0 h b eq_refl Hc0 Hd Hdisp).
      * intros qh id Hq. apply In_pdel_all in Hq. destruct Hq as [_ Hq].
        destruct (Hold qh id Hq) as [P1 [s1 [c [h [b [Hs [Hd [Hc [Hi [Hqh Hnd]]]]]]]]]]. sset Hs.
        split; [lia|].
        eexists _, (fst (fst (reorgN [x] cu (rd + 1) c))), h, b.
        split; [reflexivity|]. split; [exact Hd|].
        split; [apply in_map_iff; exists c; auto|].
        rewrite reorgN_single, Hneq. simpl. repeat split; auto; congruence.
Qed.

Lemma cqinv_step w o w' :
  CInvA w -> CInvQ w -> cvalid w o -> cwstep w o = Some w' -> CInvQ w'.
Proof.
  intros I Q V S. unfold cwstep in S.
  destruct (cstep (cw_st w) o) as [[[st' r] ev]|] eqn:E; [|discriminate].
  inversion S; subst w'; clear S.
  destruct w as [ch st pend high log]. destruct st as [cu rd lim nid s ini q hn].
  cbn [cw_st cw_chain cw_pending cw_high cw_log] in *.
  destruct o as [id n hnt|id|r0|height bid has| |height].
  - eapply cqinv_reg; [exact I|exact Q|exact E].
  - eapply cqinv_cancel; [exact I|exact Q|exact E].
  - eapply cqinv_upd; [exact Q|exact E].
  - destruct V as [Vp [Vh _]]. cbn [cw_st cur cw_pending] in Vh, Vp. subst height pend.
    rewrite (cconnect_res _ _ _ _ _ _ _ _ _ _ _ _ _ E). cbn [is_ok].
    eapply cqinv_connect; [exact I|exact Q|exact E].
  - eapply cqinv_notify; [exact I|exact Q|exact E].
  - destruct V as [Vp [Vh _]]. cbn [cw_st cur cw_pending] in Vh, Vp. subst height pend.
    rewrite (cdisconnect_res _ _ _ _ _ _ _ _ _ _ _ E). cbn [is_ok].
    eapply cqinv_disconnect; [exact I|exact Q|exact E].
Qed.

Lemma cqinv_init ch start lim h0 : CInvQ (cinit ch start lim h0).
Proof. constructor; simpl; [intros; discriminate|intros qh id []]. Qed.
