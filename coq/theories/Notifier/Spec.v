(* Specification layer for C14: the "world" couples the notifier model with the
   active chain it is being told about (ghost), the list of all events sent so
   far, and the environment obligations under which the theorems are stated.
   Definitions only. *)
From Coq Require Import List NArith Bool.
From LV Require Import Notifier.Model.
Import ListNotations.
Local Open Scope N_scope.

(* Active chain as seen for one request: head = tip, every block carries its
   height and what it contains for the request. *)
Fixpoint chain_ok {A} (cu : N) (ch : list (N * A)) : Prop :=
  match ch with
  | [] => True
  | (h, _) :: r => h = cu /\ 0 < cu /\ chain_ok (cu - 1) r
  end.

Definition is_ok (r : res) : bool := match r with ROk _ => true | RErr _ => false end.

(* events of one client *)
Definition sel {E} (id : N) (l : list (N * E)) : list E :=
  map snd (filter (fun x => N.eqb (fst x) id) l).

(* ================================================================== *)
(* spends                                                               *)

(* block content: Some t = the block contains tx t spending the outpoint *)
Fixpoint spos (ch : list (N * option N)) : option (N * N) :=
  match ch with
  | [] => None
  | (h, Some t) :: _ => Some (h, t)
  | (_, None) :: r => spos r
  end.

(* an outpoint is spent at most once on a chain *)
Fixpoint suniq (ch : list (N * option N)) : Prop :=
  match ch with
  | [] => True
  | (_, sp) :: r => (sp <> None -> spos r = None) /\ suniq r
  end.

Record sworld := mkSW {
  sw_chain : list (N * option N);
  sw_st : sstate;
  sw_pending : bool;            (* ConnectTip done, NotifyHeight outstanding *)
  sw_high : N;                  (* highest tip seen *)
  sw_log : sevs                 (* every event sent so far *)
}.

Definition swstep (w : sworld) (o : sop) : option sworld :=
  match sstep (sw_st w) o with
  | None => None
  | Some (st', r, ev) =>
    let ok := is_ok r in
    Some (mkSW
      (match o with
       | SConnect h sp => if ok then (h, sp) :: sw_chain w else sw_chain w
       | SDisconnect _ => if ok then tl (sw_chain w) else sw_chain w
       | _ => sw_chain w end)
      st'
      (match o with
       | SConnect _ _ => if ok then true else sw_pending w
       | SNotify => false
       | _ => sw_pending w end)
      (match o with
       | SConnect h _ => if ok then N.max h (sw_high w) else sw_high w
       | _ => sw_high w end)
      (sw_log w ++ ev))
  end.

(* what the environment (chain backend, clients) guarantees *)
Definition svalid (w : sworld) (o : sop) : Prop :=
  let st := sw_st w in
  let ch := sw_chain w in
  match o with
  | SReg _ hnt =>
    (* a client's height hint is not above the actual spend height *)
    forall h t, spos ch = Some (h, t) -> hnt <= h
  | SCancel _ => True
  | SUpd r =>
    (* a historical rescan answer that the notifier still needs (no details
       known yet) is truthful about the active chain at delivery; an outdated
       answer arriving after the details were found at tip may say anything
       (it must be ignored).  No obligation on registered clients since the
       repair af6371e. *)
    forall s, sset st = Some s -> ss_det s = None ->
    match r with
    | None => spos ch = None
    | Some (h, t) =>
      if h <=? scur st
      then spos ch = Some (h, t)
      else spos ch = None
    end
  | SConnect h sp =>
    sw_pending w = false /\ h = scur st + 1 /\
    (sp <> None -> spos ch = None) /\
    (* hints of requests nobody watches are not maintained by the notifier *)
    (sp <> None -> sset st = None -> forall x, shint st = Some x -> x <= h)
  | SNotify => sw_pending w = true
  | SDisconnect h =>
    sw_pending w = false /\ h = scur st /\ sw_chain w <> [] /\
    sw_high w < h + slimit st        (* reorg within the safety limit *)
  end.

Definition sinit (ch : list (N * option N)) (start lim : N) (h0 : option N) : sworld :=
  mkSW ch (init_s start lim h0) false start [].

Inductive sreach (w0 : sworld) : sworld -> Prop :=
| sreach_init : sreach w0 w0
| sreach_step : forall w o w', sreach w0 w -> svalid w o -> swstep w o = Some w' -> sreach w0 w'.

Definition sstart_ok (ch : list (N * option N)) (start lim : N) (h0 : option N) : Prop :=
  chain_ok start ch /\ suniq ch /\ 1 <= lim /\
  (forall x, h0 = Some x -> forall h t, spos ch = Some (h, t) -> x <= h).

(* what a client has been told: fold over its events.  None = it received a
   second Spend without a Reorg in between; Some s = s is its latest
   un-reorged Spend, if any. *)
Definition slstep (s : option (option (N * N))) (e : sev) : option (option (N * N)) :=
  match s with
  | None => None
  | Some c =>
    match e with
    | ESpend h t => match c with None => Some (Some (h, t)) | Some _ => None end
    | EReorg => Some None
    | ESDone => Some c
    end
  end.
Definition slstate (id : N) (log : sevs) : option (option (N * N)) :=
  fold_left slstep (sel id log) (Some None).

(* ================================================================== *)
(* confirmations                                                        *)

(* block content: (block id, contains the tx) *)
Fixpoint cpos (ch : list (N * (N * bool))) : option (N * N) :=
  match ch with
  | [] => None
  | (h, (b, true)) :: _ => Some (h, b)
  | (_, (_, false)) :: r => cpos r
  end.

Fixpoint cuniq (ch : list (N * (N * bool))) : Prop :=
  match ch with
  | [] => True
  | (_, (_, has)) :: r => (has = true -> cpos r = None) /\ cuniq r
  end.

Record cworld := mkCW {
  cw_chain : list (N * (N * bool));
  cw_st : cstate;
  cw_pending : bool;
  cw_high : N;
  cw_log : cevs
}.

Definition cwstep (w : cworld) (o : cop) : option cworld :=
  match cstep (cw_st w) o with
  | None => None
  | Some (st', r, ev) =>
    let ok := is_ok r in
    Some (mkCW
      (match o with
       | CConnect h b has => if ok then (h, (b, has)) :: cw_chain w else cw_chain w
       | CDisconnect _ => if ok then tl (cw_chain w) else cw_chain w
       | _ => cw_chain w end)
      st'
      (match o with
       | CConnect _ _ _ => if ok then true else cw_pending w
       | CNotify => false
       | _ => cw_pending w end)
      (match o with
       | CConnect h _ _ => if ok then N.max h (cw_high w) else cw_high w
       | _ => cw_high w end)
      (cw_log w ++ ev))
  end.

Definition cvalid (w : cworld) (o : cop) : Prop :=
  let st := cw_st w in
  let ch := cw_chain w in
  match o with
  | CReg _ _ hnt => forall h b, cpos ch = Some (h, b) -> hnt <= h
  | CCancel _ => True
  | CUpd r =>
    forall s, cset st = Some s -> cs_det s = None ->
    match r with
    | None => cpos ch = None
    | Some (h, b) =>
      if h <=? cur st
      then cpos ch = Some (h, b)
      else cpos ch = None
    end
  | CConnect h _ has =>
    cw_pending w = false /\ h = cur st + 1 /\
    (has = true -> cpos ch = None) /\
    (has = true -> cset st = None -> forall x, hint st = Some x -> x <= h)
  | CNotify => cw_pending w = true
  | CDisconnect h =>
    cw_pending w = false /\ h = cur st /\ cw_chain w <> [] /\
    cw_high w < h + limit st
  end.

Definition cinit (ch : list (N * (N * bool))) (start lim : N) (h0 : option N) : cworld :=
  mkCW ch (init_c start lim h0) false start [].

Inductive creach (w0 : cworld) : cworld -> Prop :=
| creach_init : creach w0 w0
| creach_step : forall w o w', creach w0 w -> cvalid w o -> cwstep w o = Some w' -> creach w0 w'.

Definition cstart_ok (ch : list (N * (N * bool))) (start lim : N) (h0 : option N) : Prop :=
  chain_ok start ch /\ cuniq ch /\ 1 <= lim /\
  (forall x, h0 = Some x -> forall h b, cpos ch = Some (h, b) -> x <= h).

Definition clstep (s : option (option (N * N))) (e : cev) : option (option (N * N)) :=
  match s with
  | None => None
  | Some c =>
    match e with
    | EConf h b => match c with None => Some (Some (h, b)) | Some _ => None end
    | ENeg _ => Some None
    | EUpd _ _ => Some c
    | EDone => Some c
    end
  end.
Definition clstate (id : N) (log : cevs) : option (option (N * N)) :=
  fold_left clstep (sel id log) (Some None).

(* plain runs (no environment obligations), used for the refutation witnesses *)
Fixpoint swrun (w : sworld) (ops : list sop) : option sworld :=
  match ops with
  | [] => Some w
  | o :: r => match swstep w o with Some w' => swrun w' r | None => None end
  end.

Fixpoint cwrun (w : cworld) (ops : list cop) : option cworld :=
  match ops with
  | [] => Some w
  | o :: r => match cwstep w o with Some w' => cwrun w' r | None => None end
  end.
