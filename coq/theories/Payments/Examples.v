(* Non-vacuity of the hypotheses of the C16 theorems. *)
From Coq Require Import List NArith Bool.
From LV Require Import Payments.Model Payments.Proofs Payments.ShardProofs Payments.Props Payments.Lin Payments.LinProofs.
Import ListNotations.
Local Open Scope N_scope.

(* a router-like multi-shard payment that succeeds, a failed one that is
   re-initiated, and a clean-up: in domain and disciplined *)
Definition good : list op :=
  [OInit 0 1000; ORegister 0 (shard 1 400); ORegister 0 (shard 2 600);
   OFailAttempt 0 1; ORegister 0 (shard 3 400); OSettle 0 2; OSettle 0 3;
   OInit 1 500; ORegister 1 (mkAtt 4 500 None false 0 Inflight);
   OFailAttempt 1 4; OFail 1 2; OInit 1 500;
   ODeleteFailedAttempts 0; OFetchInFlight; OFetch 0].

Example good_in_domain : forallb op_in_domain good = true.
Proof. vm_compute; reflexivity. Qed.

Example good_disciplined : disciplined_run [] good = true.
Proof. vm_compute; reflexivity. Qed.

Example good_all_accepted :
  map rerr (answers KV [] good) = repeat EOk 15.
Proof. vm_compute; reflexivity. Qed.

(* hypotheses of C16_terminal_stable are met by a reachable store *)
Example good_succeeded :
  option_map status_of (lookup (run SQL [] good) 0) = Some StSucceeded /\
  option_map status_of (lookup (run KV [] good) 1) = Some StInitiated.
Proof. vm_compute; auto. Qed.

Example failed_reachable :
  option_map status_of
    (lookup (run KV [] [OInit 1 500; ORegister 1 (mkAtt 4 500 None false 0 Inflight);
                        OFailAttempt 1 4; OFail 1 2]) 1) = Some StFailed.
Proof. vm_compute; reflexivity. Qed.

(* register gate: an accepted registration exists at the exact boundary
   (remaining amount), one msat more is refused *)
Example boundary :
  map rerr (answers KV [] [OInit 0 1000; ORegister 0 (shard 1 400);
                           ORegister 0 (shard 2 601); ORegister 0 (shard 2 600)])
  = [EOk; EOk; EValueExceeds; EOk].
Proof. vm_compute; reflexivity. Qed.

(* the refinement conclusion is not trivially about empty answers *)
Example good_refines :
  run KV [] good = run SQL [] good /\ length (answers SQL [] good) = 15%nat.
Proof.
  split; [apply C16_refinement_partial; [exact good_in_domain | exact good_disciplined]|].
  vm_compute; reflexivity.
Qed.

(* ---- concurrent histories: the witness checker is neither vacuous nor
   trivially true.  Init returned (time 2) before two overlapping
   registrations of 600 msat each were invoked (3..6 and 4..5). *)
Definition ok600 (id : N) : resp :=
  mkResp EOk (Some (mkProj StInFlight 1000 400 1 false false None [(id, 600, Inflight)])) [].

(* the implementation's correct answers: one accepted, one ErrValueExceedsAmt *)
Definition conc_good : list cop :=
  [mkCop (OInit 0 1000) 1 2 r_ok;
   mkCop (ORegister 0 (shard 1 600)) 3 6 (r_err EValueExceeds);
   mkCop (ORegister 0 (shard 2 600)) 4 5 (ok600 2)].

(* linearisable, but only in the order that differs from the invocation order *)
Example conc_good_linearisable :
  lin_witness_ok KV conc_good [0; 2; 1]%nat = true /\
  lin_witness_ok KV conc_good [0; 1; 2]%nat = false /\
  linearisable KV conc_good.
Proof.
  split; [vm_compute; reflexivity|]. split; [vm_compute; reflexivity|].
  exists (reorder conc_good [0; 2; 1]%nat). apply C16_lin_checker_sound.
  vm_compute; reflexivity.
Qed.

(* real time is enforced: Init may not be moved behind a registration that was
   invoked after it returned *)
Example conc_realtime_enforced :
  lin_witness_ok KV conc_good [2; 0; 1]%nat = false /\
  lin_witness_ok KV conc_good [0; 2]%nat = false /\
  lin_witness_ok KV conc_good [0; 2; 2]%nat = false.
Proof. repeat split; vm_compute; reflexivity. Qed.

(* a check-then-act race (both registrations accepted: 1200 > 1000) has no
   witness at all: every order of the three operations is rejected *)
Definition conc_bad : list cop :=
  [mkCop (OInit 0 1000) 1 2 r_ok;
   mkCop (ORegister 0 (shard 1 600)) 3 6 (ok600 1);
   mkCop (ORegister 0 (shard 2 600)) 4 5 (ok600 2)].

Example conc_bad_not_linearisable :
  forallb (fun w => negb (lin_witness_ok KV conc_bad w))
    [[0;1;2]; [0;2;1]; [1;0;2]; [1;2;0]; [2;0;1]; [2;1;0]]%nat = true.
Proof. vm_compute; reflexivity. Qed.

(* C16_shard_admission: its hypotheses are met by a reachable store — a blinded
   1000 msat payment with one 400 msat shard in flight (total_amt_msat 1000).
   A second blinded shard with the same total is compatible and is admitted by
   both backends; one announcing another total, an MPP shard and a non-blinded
   shard are incompatible and refused with the documented errors. *)
Definition bl (id a t : N) : attempt := mkAtt id a None true t Inflight.
Definition blinded_store : store := run KV [] [OInit 0 1000; ORegister 0 (bl 1 400 1000)].

Example shard_hyps_met :
  exists p, lookup blinded_store 0 = Some p /\ pay_inv p /\ registrable p = EOk /\
    shard_wf (value p) (bl 2 600 1000) = true /\
    forallb (shard_compat (bl 2 600 1000)) (filter is_inflight (atts p)) = true /\
    sent (atts p) + 600 <= value p /\ find_global blinded_store 2 = None.
Proof.
  eexists. split; [vm_compute; reflexivity|].
  repeat split; vm_compute; try reflexivity; intro X; discriminate X.
Qed.

Example shard_second_admitted :
  map (fun b => rerr (snd (step b blinded_store (ORegister 0 (bl 2 600 1000))))) [KV; SQL]
    = [EOk; EOk] /\
  map (fun a => rerr (snd (step SQL blinded_store (ORegister 0 a))))
    [bl 2 600 1001; bl 2 600 0; mkAtt 2 600 (Some (1, 1000)) false 0 Inflight;
     mkAtt 2 600 (Some (1, 1000)) true 1000 Inflight; bl 2 601 1000]
    = [EBlindedTotalMismatch; EBlindedMissingTotal; EMixedBlinded; EMPPInBlinded;
       EValueExceeds].
Proof. split; vm_compute; reflexivity. Qed.
