(* Non-vacuity of the hypotheses of the C16 theorems. *)
From Coq Require Import List NArith Bool.
From LV Require Import Payments.Model Payments.Proofs Payments.Props.
Import ListNotations.
Local Open Scope N_scope.

(* a router-like multi-shard payment that succeeds, a failed one that is
   re-initiated, and a clean-up: in domain and disciplined *)
Definition good : list op :=
  [OInit 0 1000; ORegister 0 (shard 1 400); ORegister 0 (shard 2 600);
   OFailAttempt 0 1; ORegister 0 (shard 3 400); OSettle 0 2; OSettle 0 3;
   OInit 1 500; ORegister 1 (mkAtt 4 500 None false 0 Inflight);
   OFailAttempt 1 4; OFail 1 2; OInit 1 500;
   ODeleteFailedAttempts 0; OFetchInFlight; OFetch 0].

Example good_in_domain : forallb op_in_domain good = true.
Proof. vm_compute; reflexivity. Qed.

Example good_disciplined : disciplined_run [] good = true.
Proof. vm_compute; reflexivity. Qed.

Example good_all_accepted :
  map rerr (answers KV [] good) = repeat EOk 15.
Proof. vm_compute; reflexivity. Qed.

(* hypotheses of C16_terminal_stable are met by a reachable store *)
Example good_succeeded :
  option_map status_of (lookup (run SQL [] good) 0) = Some StSucceeded /\
  option_map status_of (lookup (run KV [] good) 1) = Some StInitiated.
Proof. vm_compute; auto. Qed.

Example failed_reachable :
  option_map status_of
    (lookup (run KV [] [OInit 1 500; ORegister 1 (mkAtt 4 500 None false 0 Inflight);
                        OFailAttempt 1 4; OFail 1 2]) 1) = Some StFailed.
Proof. vm_compute; reflexivity. Qed.

(* register gate: an accepted registration exists at the exact boundary
   (remaining amount), one msat more is refused *)
Example boundary :
  map rerr (answers KV [] [OInit 0 1000; ORegister 0 (shard 1 400);
                           ORegister 0 (shard 2 601); ORegister 0 (shard 2 600)])
  = [EOk; EOk; EValueExceeds; EOk].
Proof. vm_compute; reflexivity. Qed.

(* the refinement conclusion is not trivially about empty answers *)
Example good_refines :
  run KV [] good = run SQL [] good /\ length (answers SQL [] good) = 15%nat.
Proof.
  split; [apply C16_refinement_partial; [exact good_in_domain | exact good_disciplined]|].
  vm_compute; reflexivity.
Qed.
