(* C16, concurrent histories.  A concurrent history of the real payment store
   is a list of COMPLETED operations, each with its invoke and return time on
   one global clock and the answer the implementation gave.  The history is
   linearisable w.r.t. the sequential specification [Model.step b] iff there
   is an order of all its operations that (1) respects real time (an
   operation that returned before another one was invoked comes first) and
   (2) makes the model, run sequentially from the empty store, give exactly
   the recorded answers.

   The SEARCH for such an order is done outside Coq (WGL search on the
   extracted [step], ocaml/c16_lin.ml); this file holds the executable
   CHECKER of a proposed witness order, which the driver evaluates with
   vm_compute on every history it accepts — so an accepted history is
   accepted by the Coq kernel, not by the OCaml program.

   Definitions only (lemmas in LinProofs.v). *)
From Coq Require Import List NArith Bool Arith.
From LV Require Import Payments.Model Payments.Exec.
Import ListNotations.
Local Open Scope N_scope.

(* one completed operation: op, invoke time, return time, observed answer *)
Record cop := mkCop { c_op : op; c_inv : N; c_ret : N; c_resp : resp }.

(* single-backend version of Exec.check: indices (positions in the given
   order) whose recorded answer differs from the model's *)
Fixpoint check1 (b : backend) (s : store) (l : list cop) (i : N) (bad : list N)
  : list N :=
  match l with
  | [] => rev bad
  | c :: r =>
    let '(s', m) := step b s (c_op c) in
    let bad := if resp_eqb m (c_resp c) then bad else i :: bad in
    check1 b s' r (i + 1) bad
  end.

(* all answers agree, as a boolean (used by the proofs) *)
Fixpoint agrees (b : backend) (s : store) (l : list cop) : bool :=
  match l with
  | [] => true
  | c :: r =>
    let '(s', m) := step b s (c_op c) in
    resp_eqb m (c_resp c) && agrees b s' r
  end.

(* real-time order: nothing placed later returned before an earlier-placed
   operation was invoked *)
Fixpoint realtime_ok (l : list cop) : bool :=
  match l with
  | [] => true
  | x :: r => forallb (fun y => negb (c_ret y <? c_inv x)) r && realtime_ok r
  end.

Fixpoint mem_nat (x : nat) (l : list nat) : bool :=
  match l with
  | [] => false
  | y :: r => Nat.eqb x y || mem_nat x r
  end.

Fixpoint nodupb (l : list nat) : bool :=
  match l with
  | [] => true
  | x :: r => negb (mem_nat x r) && nodupb r
  end.

(* [w] lists every position of [h] exactly once *)
Definition is_perm (n : nat) (w : list nat) : bool :=
  Nat.eqb (length w) n && nodupb w && forallb (fun i => Nat.ltb i n) w.

Definition dummy_cop : cop := mkCop OFetchInFlight 0 0 (mkResp EOther None []).

Definition reorder (h : list cop) (w : list nat) : list cop :=
  map (fun i => nth i h dummy_cop) w.

(* the witness checker *)
Definition lin_witness_ok (b : backend) (h : list cop) (w : list nat) : bool :=
  is_perm (length h) w && realtime_ok (reorder h w) && agrees b [] (reorder h w).

(* ---- driver entry point: same shape as Exec.mismatches ------------------
   a case = (backend, history, witness order); answer = cases whose witness is
   rejected, with diagnostics: [] from check1 means the permutation or the
   real-time order is wrong (reported as index 999999). *)
Definition lin_case := (backend * list cop * list nat)%type.

Definition lin_diag (c : lin_case) : list N :=
  let '(b, h, w) := c in
  if lin_witness_ok b h w then []
  else match check1 b [] (reorder h w) 0 [] with
       | [] => [999999]
       | bad => bad
       end.

Fixpoint lin_mismatches (cases : list lin_case) (i : N) : list (N * list N) :=
  match cases with
  | [] => []
  | c :: r =>
    match lin_diag c with
    | [] => lin_mismatches r (i + 1)
    | bad => (i, bad) :: lin_mismatches r (i + 1)
    end
  end.

(* ---- entry points of the extracted checker (ocaml/c16_lin.ml) ----------- *)
(* one sequential step with answer comparison: the only two functions of the
   model the WGL search uses *)
Definition lin_step (b : backend) (s : store) (o : op) : store * resp := step b s o.
Definition lin_resp_eqb (a b : resp) : bool := resp_eqb a b.
Definition lin_empty : store := [].
(* sequential histories (the existing correspondence run), for tying the
   extraction to the kernel evaluation *)
Definition lin_check_case (c : list rstep) : list N := check_case c.
