(* Soundness of the witness checker of Payments/Lin.v: a history accepted by
   [lin_witness_ok] IS linearisable w.r.t. the sequential model, in the usual
   (Herlihy & Wing) sense, stated in Prop. *)
From Coq Require Import List NArith Bool Arith Lia Permutation.
From LV Require Import Payments.Model Payments.Exec Payments.Lin.
Import ListNotations.
Local Open Scope N_scope.

(* [l] is a linearisation of the concurrent history [h] on backend [b]:
   the same completed operations, in an order that respects real time, and the
   sequential model started from the empty store gives the recorded answers
   (up to [resp_eqb], the comparison on the projected observables). *)
Definition linearisation (b : backend) (h l : list cop) : Prop :=
  Permutation l h /\
  (forall i j x y, (i < j)%nat -> nth_error l i = Some x -> nth_error l j = Some y ->
                   ~ (c_ret y < c_inv x)) /\
  Forall2 (fun c a => resp_eqb a (c_resp c) = true) l (answers b [] (map c_op l)).

Definition linearisable (b : backend) (h : list cop) : Prop :=
  exists l, linearisation b h l.

(* ---- permutation part ---- *)

Lemma mem_nat_In : forall x l, mem_nat x l = true <-> In x l.
Proof.
  induction l as [|y r IH]; cbn [mem_nat In].
  - split; [discriminate | tauto].
  - rewrite orb_true_iff, Nat.eqb_eq, IH. split; intros [H|H]; auto.
Qed.

Lemma nodupb_NoDup : forall l, nodupb l = true -> NoDup l.
Proof.
  induction l as [|x r IH]; cbn [nodupb]; intro H.
  - constructor.
  - apply andb_true_iff in H. destruct H as [H1 H2].
    constructor; [|auto].
    intro HI. apply mem_nat_In in HI. rewrite HI in H1. discriminate.
Qed.

Lemma map_nth_seq_gen : forall (h pre : list cop) d,
  map (fun i => nth i (pre ++ h) d) (seq (length pre) (length h)) = h.
Proof.
  induction h as [|a h IH]; intros pre d; cbn [length seq map].
  - reflexivity.
  - f_equal.
    + rewrite app_nth2 by lia. rewrite Nat.sub_diag. reflexivity.
    + specialize (IH (pre ++ [a]) d).
      rewrite <- app_assoc in IH. cbn [app] in IH.
      rewrite app_length in IH. cbn [length] in IH.
      rewrite Nat.add_1_r in IH. exact IH.
Qed.

Lemma map_nth_seq : forall (h : list cop) d,
  map (fun i => nth i h d) (seq 0 (length h)) = h.
Proof. intros h d. exact (map_nth_seq_gen h [] d). Qed.

Lemma is_perm_reorder : forall h w,
  is_perm (length h) w = true -> Permutation (reorder h w) h.
Proof.
  intros h w H. unfold is_perm in H.
  apply andb_true_iff in H. destruct H as [H H3].
  apply andb_true_iff in H. destruct H as [H1 H2].
  apply Nat.eqb_eq in H1. apply nodupb_NoDup in H2.
  assert (P : Permutation w (seq 0 (length h))).
  { apply NoDup_Permutation_bis; [exact H2 | rewrite seq_length; lia |].
    intros i Hi. apply in_seq. rewrite forallb_forall in H3.
    specialize (H3 i Hi). apply Nat.ltb_lt in H3. lia. }
  unfold reorder.
  apply (Permutation_map (fun i => nth i h dummy_cop)) in P.
  rewrite map_nth_seq in P. exact P.
Qed.

(* ---- real-time part ---- *)

Lemma realtime_ok_sound : forall l, realtime_ok l = true ->
  forall i j x y, (i < j)%nat -> nth_error l i = Some x -> nth_error l j = Some y ->
                  ~ (c_ret y < c_inv x).
Proof.
  induction l as [|a r IH]; intros H i j x y Hij Hi Hj.
  - destruct i; discriminate.
  - cbn [realtime_ok] in H. apply andb_true_iff in H. destruct H as [H1 H2].
    destruct j as [|j]; [lia|].
    cbn [nth_error] in Hj.
    destruct i as [|i].
    + cbn [nth_error] in Hi. injection Hi as <-.
      rewrite forallb_forall in H1.
      specialize (H1 y (nth_error_In _ _ Hj)).
      apply negb_true_iff in H1. apply N.ltb_ge in H1. lia.
    + cbn [nth_error] in Hi. apply (IH H2 i j x y); [lia | assumption | assumption].
Qed.

(* ---- answers part ---- *)

Lemma agrees_sound : forall b l s, agrees b s l = true ->
  Forall2 (fun c a => resp_eqb a (c_resp c) = true) l (answers b s (map c_op l)).
Proof.
  induction l as [|c r IH]; intros s H; cbn [map answers].
  - constructor.
  - cbn [agrees] in H. destruct (step b s (c_op c)) as [s' m] eqn:E.
    apply andb_true_iff in H. destruct H as [H1 H2].
    constructor; [exact H1 | exact (IH s' H2)].
Qed.

Lemma lin_checker_sound : forall b h w,
  lin_witness_ok b h w = true -> linearisation b h (reorder h w).
Proof.
  intros b h w H. unfold lin_witness_ok in H.
  apply andb_true_iff in H. destruct H as [H H3].
  apply andb_true_iff in H. destruct H as [H1 H2].
  split; [exact (is_perm_reorder h w H1)|].
  split; [exact (realtime_ok_sound _ H2) | exact (agrees_sound b _ [] H3)].
Qed.

(* the driver's entry point reports nothing exactly when the witness is
   accepted *)
Lemma lin_diag_nil : forall b h w,
  lin_diag (b, h, w) = [] -> lin_witness_ok b h w = true.
Proof.
  intros b h w. unfold lin_diag.
  destruct (lin_witness_ok b h w); [reflexivity|].
  destruct (check1 b [] (reorder h w) 0 []); discriminate.
Qed.

(* in-domain operations stay in domain under reordering *)
Lemma domain_perm : forall (l h : list cop),
  Permutation l h ->
  forallb op_in_domain (map c_op h) = true ->
  forallb op_in_domain (map c_op l) = true.
Proof.
  intros l h P H. rewrite forallb_forall in *. intros o Ho.
  apply H. apply in_map_iff in Ho. destruct Ho as [c [<- Hc]].
  apply in_map. exact (Permutation_in _ P Hc).
Qed.
