(* C16 — property theorems about the payment-store model (Payments/Model.v).
   Every theorem quantifies over ALL operation histories / stores; the model
   is tied to lnd's KVStore and SQLStore by the correspondence run. *)
From Coq Require Import List NArith Bool.
From LV Require Import Payments.Model Payments.Proofs Payments.ShardProofs Payments.Lin Payments.LinProofs.
Import ListNotations.
Local Open Scope N_scope.

(* Never paid beyond the amount: after ANY history (any backend, any
   interleaving of the nine operations on any hashes / attempt ids) the
   settled + in-flight attempt amounts of every stored payment are within
   the payment amount.  Domain guard: values and amounts below 2^63 msat. *)
Theorem C16_never_overpay : forall b ops h p,
  forallb op_in_domain ops = true ->
  lookup (run b [] ops) h = Some p ->
  sent (atts p) <= value p /\ sent_ok p = true.
Proof.
  intros b ops h p D L.
  pose proof (run_inv b ops [] store_inv_empty D h p L) as I.
  split; [exact (proj1 I) | exact (inv_sent_ok p I)].
Qed.

(* RegisterAttempt succeeds only on a known payment with no settled attempt,
   no failure reason, status Initiated/InFlight, and only if the (uint64) sum
   stays within the amount; SQL additionally requires an unused attempt id. *)
Theorem C16_register_gate : forall b s h a s' r,
  step b s (ORegister h a) = (s', r) -> rerr r = EOk ->
  exists p, lookup s h = Some p /\
    existsb is_settled (atts p) = false /\ reason p = None /\
    (status_of p = StInitiated \/ status_of p = StInFlight) /\
    w64 (sent (atts p) + amt a) <= value p /\
    (b = SQL -> find_global s (aid a) = None).
Proof. exact register_gate. Qed.

(* Which shard is admitted next to the stored in-flight shards (verifyAttempt's
   blinded / MPP ladder), both directions, both backends.
   (1) soundness: an admitted attempt is well formed (blinded: total_amt_msat
   set and no MPP record; neither blinded nor MPP: pays the whole amount) and
   compatible with EVERY stored in-flight attempt (same kind; blinded: same
   total_amt_msat, stored shard without MPP record; else same MPP record).
   (2) completeness: on a payment that is registrable, within the amount domain,
   a well-formed attempt that is compatible with every stored in-flight attempt
   and keeps settled + in-flight within the amount IS admitted (SQL: given an
   unused attempt id) and the stored payment gains it — the store has no other
   reason to refuse a shard. *)
Theorem C16_shard_admission :
  (forall b s h a s' r,
     step b s (ORegister h a) = (s', r) -> rerr r = EOk ->
     exists p, lookup s h = Some p /\
       shard_wf (value p) a = true /\
       (forall x, In x (atts p) -> is_inflight x = true -> shard_compat a x = true)) /\
  (forall b s h a p,
     lookup s h = Some p -> pay_inv p -> amt a < two63 ->
     registrable p = EOk -> shard_wf (value p) a = true ->
     (forall x, In x (atts p) -> is_inflight x = true -> shard_compat a x = true) ->
     sent (atts p) + amt a <= value p ->
     (b = SQL -> find_global s (aid a) = None) ->
     let p' := mkPay (value p) (put_att (atts p) (with_out a Inflight)) (reason p) in
     step b s (ORegister h a) = (put s h p', r_pay p')).
Proof. split; [exact register_consistent | exact register_admits]. Qed.

(* InitPayment succeeds only from absent or Failed (then the payment starts
   afresh); on Initiated / InFlight / Succeeded it is refused and nothing
   changes. *)
Theorem C16_init_gate :
  (forall b s h v s' r,
     step b s (OInit h v) = (s', r) -> rerr r = EOk ->
     (lookup s h = None \/ exists p, lookup s h = Some p /\ status_of p = StFailed) /\
     lookup s' h = Some (mkPay v [] None)) /\
  (forall b s h v p,
     lookup s h = Some p -> status_of p <> StFailed ->
     fst (step b s (OInit h v)) = s /\ rerr (snd (step b s (OInit h v))) <> EOk).
Proof. split; [exact init_gate | exact init_refused]. Qed.

(* The reported status is the documented table of (in-flight, settled, htlc
   failed, payment failed); a settled attempt excludes Failed; every
   MPPayment an operation returns is the stored payment after the operation
   with exactly that status; FetchInFlightPayments lists stored,
   non-terminal payments. *)
Theorem C16_status_truth :
  (forall i s f pf, decide_flags i s f pf = decide_table i s f pf) /\
  (forall l r, existsb is_settled l = true -> decide l r <> StFailed) /\
  (forall b s o s' r pr,
     step b s o = (s', r) -> rpay r = Some pr ->
     exists h p, op_hash o = Some h /\ lookup s' h = Some p /\ pr = mk_proj p /\
                 pstatus pr = decide (atts p) (reason p) /\ rerr r = EOk) /\
  (forall b s s' r h pr,
     step b s OFetchInFlight = (s', r) -> In (h, pr) (rlist r) ->
     s' = s /\ exists p, In (h, p) s /\ pr = mk_proj p /\
       (status_of p = StInitiated \/ status_of p = StInFlight)).
Proof.
  repeat split.
  - exact decide_flags_table.
  - exact settled_never_failed.
  - exact answer_truthful.
  - eapply inflight_truthful; eauto.
  - eapply inflight_truthful; eauto.
Qed.

(* Succeeded is absorbing for every history that does not delete the payment;
   Failed is left only through InitPayment (or deletion).  From ANY store. *)
Theorem C16_terminal_stable :
  (forall b ops s h p,
     lookup s h = Some p -> status_of p = StSucceeded ->
     ~ In (ODeletePayment h false) ops ->
     exists p', lookup (run b s ops) h = Some p' /\ status_of p' = StSucceeded /\
                value p' = value p) /\
  (forall b ops s h p,
     lookup s h = Some p -> status_of p = StFailed ->
     ~ In (ODeletePayment h false) ops -> (forall v, ~ In (OInit h v) ops) ->
     exists p', lookup (run b s ops) h = Some p' /\ status_of p' = StFailed /\
                value p' = value p).
Proof. split; [exact succeeded_run | exact failed_run]. Qed.

(* SQL's FetchNonTerminalPayments WHERE clause selects exactly the payments
   KV's !Terminated() keeps. *)
Theorem C16_inflight_query_agrees : forall p,
  non_terminal SQL p = non_terminal KV p.
Proof. exact non_terminal_agree. Qed.

(* Refinement, PARTIAL: on histories that follow the router's discipline
   (attempt ids never reused; settle/fail addressed through the owning
   payment's hash) and stay in the amount domain, the KV and the SQL store
   reach the SAME state and give the same answers, up to four named
   error-sentinel pairs.  Without the discipline the full statement is
   refuted: C16_backends_differ_refuted. *)
Theorem C16_refinement_partial : forall ops,
  forallb op_in_domain ops = true ->
  disciplined_run [] ops = true ->
  run KV [] ops = run SQL [] ops /\
  Forall2 resp_rel (answers KV [] ops) (answers SQL [] ops).
Proof.
  intros ops D C. exact (run_agree ops [] wf_empty store_inv_empty D C).
Qed.

(* ---- witnesses (replayed on the real stores by the harness: W1, W2, W4) *)
Definition shard (id a : N) : attempt := mkAtt id a (Some (1, 1000)) false 0 Inflight.

Definition W_dup : list op :=
  [OInit 0 1000; ORegister 0 (shard 1 400); ORegister 0 (shard 1 300)].
Definition W_reuse_failed : list op :=
  [OInit 0 1000; ORegister 0 (shard 1 400); OFailAttempt 0 1; ORegister 0 (shard 1 600)].
Definition W_cross : list op :=
  [OInit 0 1000; OInit 1 1000; ORegister 0 (shard 1 400); OSettle 1 1].
Definition W_wrap : list op :=
  [OInit 0 1000; ORegister 0 (shard 1 600);
   ORegister 0 (shard 2 18446744073709551416)].

(* The unrestricted "KV and SQL answer identical histories identically" is
   FALSE for the code as it is: (1) a reused attempt id is accepted by KV
   (overwriting the attempt, or — after it failed — creating a shard that is
   born failed and not counted) and rejected by SQL; (2) settling through
   another payment's hash is rejected by KV but settles the other payment's
   attempt in SQL. *)
Theorem C16_backends_differ_refuted :
  (forallb op_in_domain W_dup = true /\
   map rerr (answers KV [] W_dup) = [EOk; EOk; EOk] /\
   map rerr (answers SQL [] W_dup) = [EOk; EOk; EOther] /\
   run KV [] W_dup <> run SQL [] W_dup) /\
  (map rerr (answers KV [] W_reuse_failed) = [EOk; EOk; EOk; EOk] /\
   option_map (fun p => (sent (atts p), length (atts p)))
     (lookup (run KV [] W_reuse_failed) 0) = Some (0, 1%nat) /\
   map rerr (answers SQL [] W_reuse_failed) = [EOk; EOk; EOk; EOther]) /\
  (forallb op_in_domain W_cross = true /\
   map rerr (answers KV [] W_cross) = [EOk; EOk; EOk; EOther] /\
   map rerr (answers SQL [] W_cross) = [EOk; EOk; EOk; EOk] /\
   option_map status_of (lookup (run KV [] W_cross) 0) = Some StInFlight /\
   option_map status_of (lookup (run SQL [] W_cross) 0) = Some StSucceeded).
Proof.
  repeat split; try (vm_compute; reflexivity).
  intros H; vm_compute in H; discriminate.
Qed.

(* Outside the domain guard the uint64 sum wraps and both stores admit an
   attempt that takes the true total beyond the amount. *)
Theorem C16_overpay_beyond_uint64_refuted : forall b,
  exists p, lookup (run b [] W_wrap) 0 = Some p /\ value p < sent (atts p) /\
            map rerr (answers b [] W_wrap) = [EOk; EOk; EOk].
Proof.
  intros []; eexists; (split; [vm_compute; reflexivity|]); split; vm_compute; reflexivity.
Qed.

(* ---- concurrent histories (2-4 goroutines on the real stores) -------------
   The driver accepts a recorded concurrent history only with a witness order
   [w] for which the kernel evaluates [lin_witness_ok b h w] to true.  Such a
   history is linearisable in the standard sense: [reorder h w] contains exactly
   the completed operations of [h], an operation that returned before another
   was invoked precedes it, and the sequential model run from the empty store
   gives every recorded answer. *)
Theorem C16_lin_checker_sound : forall b h w,
  lin_witness_ok b h w = true -> linearisation b h (reorder h w).
Proof. exact lin_checker_sound. Qed.

(* Hence every sequential theorem above speaks about the accepted concurrent
   history; spelled out for never-overpay: the store the linearised history
   leaves behind holds no payment whose settled + in-flight amounts exceed its
   value. *)
Theorem C16_linearised_never_overpay : forall b h w,
  lin_witness_ok b h w = true ->
  forallb op_in_domain (map c_op h) = true ->
  forall hh p, lookup (run b [] (map c_op (reorder h w))) hh = Some p ->
  sent (atts p) <= value p /\ sent_ok p = true.
Proof.
  intros b h w H D hh p L.
  apply (C16_never_overpay b (map c_op (reorder h w)) hh p); [|exact L].
  apply (domain_perm _ h); [|exact D].
  exact (proj1 (lin_checker_sound b h w H)).
Qed.
