(* C16: which shard RegisterAttempt admits next to the stored in-flight shards
   (verifyAttempt's blinded / MPP consistency ladder) — soundness AND
   completeness of the admission decision of the model's do_register. *)
From Coq Require Import List NArith Bool Lia.
From LV Require Import Payments.Model Payments.Proofs.
Import ListNotations.
Local Open Scope N_scope.

(* What verifyAttempt's loop demands of ONE stored in-flight shard [h] when
   shard [a] is registered: same kind (blinded or not); blinded: the same
   total_amt_msat and no MPP record on the stored shard; otherwise the same MPP
   record (both absent, or same payment address and total). *)
Definition shard_compat (a h : attempt) : bool :=
  Bool.eqb (blinded a) (blinded h) &&
  (if blinded a then (btotal a =? btotal h) && negb (is_some (mpp h))
   else match mpp a, mpp h with
        | None, None => true
        | Some (ad, t), Some (ad', t') => (ad =? ad') && (t =? t')
        | _, _ => false
        end).

(* What verifyAttempt demands of the new shard alone: blinded: a total and no
   MPP record; neither blinded nor MPP: it pays the whole amount. *)
Definition shard_wf (v : N) (a : attempt) : bool :=
  if blinded a then negb (btotal a =? 0) && negb (is_some (mpp a))
  else is_some (mpp a) || (amt a =? v).

Lemma ladder_ok_iff : forall hs a,
  ladder hs a = EOk <-> forallb (shard_compat a) hs = true.
Proof.
  induction hs as [|h r IH]; intros a; cbn [ladder forallb]; [tauto|].
  unfold shard_compat at 1.
  destruct (blinded a) eqn:Ba, (blinded h) eqn:Bh;
    destruct (mpp a) as [[ad t]|] eqn:Ma, (mpp h) as [[ad' t']|] eqn:Mh;
    cbn [andb negb is_some Bool.eqb].
  all: try (destruct (btotal a =? btotal h)); try (destruct (ad =? ad'));
    try (destruct (t =? t')); cbn [andb negb]; try apply IH;
    try (split; intro X; discriminate X).
Qed.

Lemma verify_ok_iff : forall p a,
  verify_attempt p a = EOk <->
  shard_wf (value p) a = true /\
  forallb (shard_compat a) (filter is_inflight (atts p)) = true /\
  w64 (sent (atts p) + amt a) <= value p.
Proof.
  intros p a. unfold verify_attempt, shard_wf.
  rewrite <- ladder_ok_iff.
  destruct (blinded a) eqn:Ba; cbn [andb negb].
  - destruct (btotal a =? 0); cbn [negb andb].
    { split; [discriminate | intros [X _]; discriminate X]. }
    destruct (is_some (mpp a)); cbn [negb andb].
    { split; [discriminate | intros [X _]; discriminate X]. }
    destruct (ladder (filter is_inflight (atts p)) a) eqn:L;
      try (split; [discriminate | intros (_ & X & _); discriminate X]).
    destruct (value p <? w64 (sent (atts p) + amt a)) eqn:E.
    + apply N.ltb_lt in E. split; [discriminate | intros (_ & _ & X); lia].
    + apply N.ltb_ge in E. tauto.
  - destruct (ladder (filter is_inflight (atts p)) a) eqn:L;
      try (split; [discriminate | intros (_ & X & _); discriminate X]).
    destruct (is_some (mpp a)); cbn [negb andb orb].
    + destruct (value p <? w64 (sent (atts p) + amt a)) eqn:E.
      * apply N.ltb_lt in E. split; [discriminate | intros (_ & _ & X); lia].
      * apply N.ltb_ge in E. tauto.
    + destruct (amt a =? value p); cbn [negb].
      * destruct (value p <? w64 (sent (atts p) + amt a)) eqn:E.
        -- apply N.ltb_lt in E. split; [discriminate | intros (_ & _ & X); lia].
        -- apply N.ltb_ge in E. tauto.
      * split; [discriminate | intros [X _]; discriminate X].
Qed.

(* soundness: an admitted shard is well formed and compatible with every
   stored in-flight shard *)
Lemma register_consistent : forall b s h a s' r,
  step b s (ORegister h a) = (s', r) -> rerr r = EOk ->
  exists p, lookup s h = Some p /\
    shard_wf (value p) a = true /\
    (forall x, In x (atts p) -> is_inflight x = true -> shard_compat a x = true).
Proof.
  intros b s h a s' r H Hr. cbn [step] in H. unfold do_register in H.
  destruct (lookup s h) as [p|] eqn:E.
  2:{ inversion H; subst; destruct b; discriminate. }
  destruct (negb (sent_ok p)); [inversion H; subst; discriminate|].
  destruct (registrable p) eqn:R; try (inversion H; subst; discriminate).
  destruct (verify_attempt p (with_out a Inflight)) eqn:V;
    try (inversion H; subst; discriminate).
  apply verify_ok_iff in V as (W & C & _).
  exists p. split; [reflexivity|]. split; [exact W|].
  intros x Hin Hx. rewrite forallb_forall in C.
  apply (C x). apply filter_In. split; assumption.
Qed.

(* completeness: a well-formed shard that is compatible with every stored
   in-flight shard and fits into the amount IS admitted, by both backends, and
   the stored payment gains it *)
Lemma register_admits : forall b s h a p,
  lookup s h = Some p -> pay_inv p -> amt a < two63 ->
  registrable p = EOk -> shard_wf (value p) a = true ->
  (forall x, In x (atts p) -> is_inflight x = true -> shard_compat a x = true) ->
  sent (atts p) + amt a <= value p ->
  (b = SQL -> find_global s (aid a) = None) ->
  let p' := mkPay (value p) (put_att (atts p) (with_out a Inflight)) (reason p) in
  step b s (ORegister h a) = (put s h p', r_pay p').
Proof.
  intros b s h a p E Hinv Ha R W C B G p'. cbn [step]. unfold do_register. rewrite E.
  rewrite (inv_sent_ok _ Hinv). cbn [negb]. rewrite R.
  destruct Hinv as [Hs Hv].
  assert (V : verify_attempt p (with_out a Inflight) = EOk).
  { apply verify_ok_iff. split; [exact W|]. split.
    - apply forallb_forall. intros x Hx. apply filter_In in Hx as [X1 X2].
      apply (C x X1 X2).
    - cbn. rewrite w64_small; [assumption|]. pose proof two63_two64. lia. }
  rewrite V.
  assert (U : (match b with
               | KV => false
               | SQL => is_some (find_global s (aid (with_out a Inflight)))
               end) = false).
  { destruct b; [reflexivity|]. cbn. rewrite (G eq_refl). reflexivity. }
  rewrite U. unfold commit_fetch. rewrite lookup_put_same. fold p'.
  assert (O : sent_ok p' = true).
  { apply inv_sent_ok. split; [|exact Hv]. cbn.
    pose proof (sent_put_att_le (atts p) (with_out a Inflight)) as Q. cbn in Q. lia. }
  rewrite O. reflexivity.
Qed.
