(* Trace checker for the C16 correspondence run: every recorded history
   carries, per operation, the answer of the real KVStore and of the real
   SQLStore; the model is run on both step functions and must agree answer
   by answer. *)
From Coq Require Import List NArith Bool.
From LV Require Import Payments.Model.
Import ListNotations.
Local Open Scope N_scope.

Definition status_eqb (a b : status) : bool :=
  match a, b with
  | StInitiated, StInitiated | StInFlight, StInFlight
  | StSucceeded, StSucceeded | StFailed, StFailed => true
  | _, _ => false
  end.

Definition outcome_eqb (a b : outcome) : bool :=
  match a, b with
  | Inflight, Inflight | Settled, Settled | Failed, Failed => true
  | _, _ => false
  end.

Definition optN_eqb (a b : option N) : bool :=
  match a, b with
  | None, None => true
  | Some x, Some y => x =? y
  | _, _ => false
  end.

Fixpoint list_eqb {A} (eq : A -> A -> bool) (a b : list A) : bool :=
  match a, b with
  | [], [] => true
  | x :: a', y :: b' => eq x y && list_eqb eq a' b'
  | _, _ => false
  end.

Definition att_eqb (a b : N * N * outcome) : bool :=
  let '(i, m, o) := a in let '(i', m', o') := b in
  (i =? i') && (m =? m') && outcome_eqb o o'.

Definition proj_eqb (a b : proj) : bool :=
  status_eqb (pstatus a) (pstatus b) && (pvalue a =? pvalue b)
  && (premaining a =? premaining b) && (pnif a =? pnif b)
  && Bool.eqb (phs a) (phs b) && Bool.eqb (ppf a) (ppf b)
  && optN_eqb (preason a) (preason b)
  && list_eqb att_eqb (patts a) (patts b).

Definition optproj_eqb (a b : option proj) : bool :=
  match a, b with
  | None, None => true
  | Some x, Some y => proj_eqb x y
  | _, _ => false
  end.

Definition resp_eqb (a b : resp) : bool :=
  err_eqb (rerr a) (rerr b) && optproj_eqb (rpay a) (rpay b)
  && list_eqb (fun x y => (fst x =? fst y) && proj_eqb (snd x) (snd y))
              (rlist a) (rlist b).

(* one recorded step: the operation, the KV answer, the SQL answer *)
Definition rstep := (op * resp * resp)%type.

(* mismatch index: 2*i for the KV answer of op i, 2*i+1 for the SQL answer *)
Fixpoint check (skv ssql : store) (l : list rstep) (i : N) (bad : list N) : list N :=
  match l with
  | [] => rev bad
  | (o, okv, osql) :: r =>
    let '(skv', mkv) := step KV skv o in
    let '(ssql', msql) := step SQL ssql o in
    let bad := if resp_eqb mkv okv then bad else (2 * i) :: bad in
    let bad := if resp_eqb msql osql then bad else (2 * i + 1) :: bad in
    check skv' ssql' r (i + 1) bad
  end.

Definition check_case (c : list rstep) : list N := check [] [] c 0 [].

Fixpoint mismatches (cases : list (list rstep)) (i : N) : list (N * list N) :=
  match cases with
  | [] => []
  | c :: r =>
    match check_case c with
    | [] => mismatches r (i + 1)
    | bad => (i, bad) :: mismatches r (i + 1)
    end
  end.

(* what the model answers (for replay files / debugging) *)
Definition model_answers (b : backend) (c : list rstep) : list resp :=
  answers b [] (map (fun x => fst (fst x)) c).
