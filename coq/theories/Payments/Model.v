(* Executable model of lnd/payments/db: the payment store behind the
   paymentsdb.DB interface (kv_store.go, sql_store.go), MPPayment.setState /
   Registrable / verifyAttempt (payment.go) and decidePaymentStatus and the
   initializable / updatable / removable tables (payment_status.go).

   Definitions only; lemmas live in Proofs.v, property theorems in Props.v.

   One step = one database transaction (kvdb.Batch/Update, ExecTx): an error
   returned from inside the transaction rolls it back, which is why every
   error answer below leaves the store unchanged.

   The two backends are ONE step function with a [backend] parameter; the
   places where kv_store.go and sql_store.go differ are exactly the
   [match b with KV => .. | SQL => ..] below:
     - attempt ids: KV keys them inside the payment bucket (Put overwrites
       the attempt info and keeps an old settle/fail key); SQL has
       UNIQUE(attempt_index) over ALL payments;
     - SettleAttempt/FailAttempt: KV looks the id up inside the payment;
       SQL inserts a resolution row keyed by attempt_index only;
     - setState's ErrSentExceedsTotal check runs in KV wherever
       fetchPayment is used, in SQL only where the full payment is built;
     - error classes for unknown payments / already resolved attempts.

   Amounts are Go uint64 (lnwire.MilliSatoshi): [sent] is the true sum, the
   code's comparisons see it modulo 2^64 ([w64]). *)
From Coq Require Import List NArith Bool.
Import ListNotations.
Local Open Scope N_scope.

Definition two64 : N := 18446744073709551616.
Definition w64 (x : N) : N := x mod two64.

Inductive backend := KV | SQL.
Inductive outcome := Inflight | Settled | Failed.
(* PaymentStatus 1..4 *)
Inductive status := StInitiated | StInFlight | StSucceeded | StFailed.

(* error classes: errors.Is against the sentinels of errors.go; anything
   else (fmt.Errorf text, sql constraint violations, sql.ErrNoRows) is
   EOther.  Codes used by the harness: position in this list. *)
Inductive err :=
| EOk | EOther | EAlreadyPaid | EPaymentInFlight | EPaymentExists
| ENotInitiated | EAlreadySucceeded | EAlreadyFailed | EAttSettled
| EAttFailed | EValueMismatch | EValueExceeds | ENonMPP | EMPP
| EMPPInBlinded | EBlindedTotalMismatch | EMixedBlinded
| EBlindedMissingTotal | EMPPAddrMismatch | EMPPTotalMismatch
| EPendingSettled | EPendingFailed | ESentExceedsTotal.

Definition err_eqb (a b : err) : bool :=
  match a, b with
  | EOk, EOk | EOther, EOther | EAlreadyPaid, EAlreadyPaid
  | EPaymentInFlight, EPaymentInFlight | EPaymentExists, EPaymentExists
  | ENotInitiated, ENotInitiated | EAlreadySucceeded, EAlreadySucceeded
  | EAlreadyFailed, EAlreadyFailed | EAttSettled, EAttSettled
  | EAttFailed, EAttFailed | EValueMismatch, EValueMismatch
  | EValueExceeds, EValueExceeds | ENonMPP, ENonMPP | EMPP, EMPP
  | EMPPInBlinded, EMPPInBlinded
  | EBlindedTotalMismatch, EBlindedTotalMismatch
  | EMixedBlinded, EMixedBlinded
  | EBlindedMissingTotal, EBlindedMissingTotal
  | EMPPAddrMismatch, EMPPAddrMismatch
  | EMPPTotalMismatch, EMPPTotalMismatch
  | EPendingSettled, EPendingSettled | EPendingFailed, EPendingFailed
  | ESentExceedsTotal, ESentExceedsTotal => true
  | _, _ => false
  end.

Definition is_ok (e : err) : bool := match e with EOk => true | _ => false end.

(* An HTLC attempt: what verifyAttempt / SentAmt / decidePaymentStatus read.
   mpp = final hop MPP record (payment addr, total); blinded = final hop has
   encrypted data; btotal = final hop TotalAmtMsat. *)
Record attempt := mkAtt {
  aid : N; amt : N; mpp : option (N * N); blinded : bool; btotal : N;
  out : outcome }.

Record payment := mkPay {
  value : N; atts : list attempt; reason : option N }.

(* association list keyed by payment hash *)
Definition store := list (N * payment).

Definition with_out (a : attempt) (o : outcome) : attempt :=
  mkAtt (aid a) (amt a) (mpp a) (blinded a) (btotal a) o.

Definition is_inflight (a : attempt) : bool :=
  match out a with Inflight => true | _ => false end.
Definition is_settled (a : attempt) : bool :=
  match out a with Settled => true | _ => false end.
Definition is_failed (a : attempt) : bool :=
  match out a with Failed => true | _ => false end.

Definition is_some {A} (o : option A) : bool :=
  match o with Some _ => true | None => false end.

(* ---- payment_status.go ------------------------------------------------ *)

(* decidePaymentStatus: the switch ladder over the four flags *)
Definition decide_flags (inflight settled hfailed pfailed : bool) : status :=
  if inflight then StInFlight
  else if settled then StSucceeded
  else if pfailed then StFailed
  else if hfailed then StInFlight
  else StInitiated.

Definition decide (l : list attempt) (r : option N) : status :=
  decide_flags (existsb is_inflight l) (existsb is_settled l)
               (existsb is_failed l) (is_some r).

(* The table in the doc comment of decidePaymentStatus, row by row. *)
Definition decide_table (inflight settled hfailed pfailed : bool) : status :=
  match inflight, settled, hfailed, pfailed with
  | true, _, _, _ => StInFlight
  | false, true, _, _ => StSucceeded
  | false, false, true, true => StFailed
  | false, false, true, false => StInFlight
  | false, false, false, true => StFailed
  | false, false, false, false => StInitiated
  end.

Definition initializable (st : status) : err :=
  match st with
  | StInitiated => EPaymentExists
  | StInFlight => EPaymentInFlight
  | StSucceeded => EAlreadyPaid
  | StFailed => EOk
  end.

Definition removable (st : status) : err :=
  match st with
  | StInFlight => EPaymentInFlight
  | _ => EOk
  end.

Definition updatable (st : status) : err :=
  match st with
  | StInitiated | StInFlight => EOk
  | StSucceeded => EAlreadySucceeded
  | StFailed => EAlreadyFailed
  end.

(* ---- payment.go ------------------------------------------------------- *)

(* SentAmt (receiver amounts of non-failed attempts), as a true sum *)
Fixpoint sent (l : list attempt) : N :=
  match l with
  | [] => 0
  | a :: r => (if is_failed a then 0 else amt a) + sent r
  end.

Definition status_of (p : payment) : status := decide (atts p) (reason p).
Definition has_settled (p : payment) : bool := existsb is_settled (atts p).
(* TerminalInfo: the failure reason is only reported when nothing settled *)
Definition payment_failed (p : payment) : bool :=
  negb (has_settled p) && is_some (reason p).

(* projected MPPayment: the observables compared with the implementation *)
Record proj := mkProj {
  pstatus : status; pvalue : N; premaining : N; pnif : N;
  phs : bool; ppf : bool; preason : option N;
  patts : list (N * N * outcome) }.

Definition mk_proj (p : payment) : proj :=
  mkProj (status_of p) (value p) (value p - w64 (sent (atts p)))
         (N.of_nat (length (filter is_inflight (atts p))))
         (has_settled p) (payment_failed p) (reason p)
         (map (fun a => (aid a, amt a, out a)) (atts p)).

(* fetchPayment / buildPaymentFromBatchData: setState's sanity check *)
Definition sent_ok (p : payment) : bool :=
  negb (value p <? w64 (sent (atts p))).

(* MPPayment.Registrable *)
Definition registrable (p : payment) : err :=
  match updatable (status_of p) with
  | EOk =>
    match status_of p with
    | StInFlight =>
      if has_settled p then EPendingSettled
      else if payment_failed p then EPendingFailed
      else EOk
    | _ => EOk
    end
  | e => e
  end.

(* verifyAttempt: the loop over payment.InFlightHTLCs() *)
Fixpoint ladder (hs : list attempt) (a : attempt) : err :=
  match hs with
  | [] => EOk
  | h :: r =>
    if blinded a && is_some (mpp h) then EMPPInBlinded
    else if negb (Bool.eqb (blinded a) (blinded h)) then EMixedBlinded
    else if blinded a then
      if negb (btotal a =? btotal h) then EBlindedTotalMismatch
      else ladder r a
    else
      match mpp a, mpp h with
      | None, Some _ => EMPP
      | Some _, None => ENonMPP
      | None, None => ladder r a
      | Some (ad, t), Some (ad', t') =>
        if negb (ad =? ad') then EMPPAddrMismatch
        else if negb (t =? t') then EMPPTotalMismatch
        else ladder r a
      end
  end.

Definition verify_attempt (p : payment) (a : attempt) : err :=
  if blinded a && (btotal a =? 0) then EBlindedMissingTotal
  else if blinded a && is_some (mpp a) then EMPPInBlinded
  else
    match ladder (filter is_inflight (atts p)) a with
    | EOk =>
      if negb (blinded a) && negb (is_some (mpp a))
         && negb (amt a =? value p) then EValueMismatch
      else if value p <? w64 (sent (atts p) + amt a) then EValueExceeds
      else EOk
    | e => e
    end.

(* ---- store plumbing --------------------------------------------------- *)

Fixpoint lookup (s : store) (h : N) : option payment :=
  match s with
  | [] => None
  | (k, p) :: r => if k =? h then Some p else lookup r h
  end.

(* replace in place, else append (the enumeration order of the real stores is
   canonicalised by sorting FetchInFlightPayments answers by hash) *)
Fixpoint put (s : store) (h : N) (p : payment) : store :=
  match s with
  | [] => [(h, p)]
  | (k, q) :: r => if k =? h then (h, p) :: r else (k, q) :: put r h p
  end.

Definition remove (s : store) (h : N) : store :=
  filter (fun kp => negb (fst kp =? h)) s.

(* attempts sorted by id (fetchHtlcAttempts sorts; the harness sorts the SQL
   answer).  KV: Put on "ai"+id overwrites the attempt info while an old
   "si"/"fi" key of the same id stays, so the outcome is inherited. *)
Fixpoint put_att (l : list attempt) (a : attempt) : list attempt :=
  match l with
  | [] => [a]
  | x :: r =>
    if aid a <? aid x then a :: x :: r
    else if aid a =? aid x then with_out a (out x) :: r
    else x :: put_att r a
  end.

Fixpoint find_att (l : list attempt) (id : N) : option attempt :=
  match l with
  | [] => None
  | x :: r => if aid x =? id then Some x else find_att r id
  end.

(* first attempt with this id in ANY payment (SQL: attempt_index is global) *)
Fixpoint find_global (s : store) (id : N) : option attempt :=
  match s with
  | [] => None
  | (_, p) :: r =>
    match find_att (atts p) id with
    | Some x => Some x
    | None => find_global r id
    end
  end.

(* record the outcome of the in-flight attempt(s) with this id *)
Definition resolve_atts (l : list attempt) (id : N) (o : outcome) : list attempt :=
  map (fun x => if (aid x =? id) && is_inflight x then with_out x o else x) l.

Definition resolve_pay (p : payment) (id : N) (o : outcome) : payment :=
  mkPay (value p) (resolve_atts (atts p) id o) (reason p).

Definition resolve_all (s : store) (id : N) (o : outcome) : store :=
  map (fun kp => (fst kp, resolve_pay (snd kp) id o)) s.

(* ---- operations and answers ------------------------------------------- *)

Inductive op :=
| OInit (h v : N)
| ORegister (h : N) (a : attempt)          (* [out a] is ignored *)
| OSettle (h id : N)
| OFailAttempt (h id : N)
| OFail (h r : N)
| ODeleteFailedAttempts (h : N)
| ODeletePayment (h : N) (failed_only : bool)
| OFetch (h : N)
| OFetchInFlight.

Record resp := mkResp {
  rerr : err; rpay : option proj; rlist : list (N * proj) }.

Definition r_err (e : err) : resp := mkResp e None [].
Definition r_ok : resp := mkResp EOk None [].
Definition r_pay (p : payment) : resp := mkResp EOk (Some (mk_proj p)) [].

(* commit [s'] and answer with the re-fetched payment; a failing re-fetch
   (setState) aborts the transaction *)
Definition commit_fetch (s s' : store) (h : N) : store * resp :=
  match lookup s' h with
  | None => (s, r_err EOther)
  | Some p' => if sent_ok p' then (s', r_pay p') else (s, r_err ESentExceedsTotal)
  end.

Definition do_init (b : backend) (s : store) (h v : N) : store * resp :=
  match lookup s h with
  | None => (put s h (mkPay v [] None), r_ok)
  | Some p =>
    if (match b with KV => negb (sent_ok p) | SQL => false end)
    then (s, r_err ESentExceedsTotal)
    else
      match initializable (status_of p) with
      | EOk => (put s h (mkPay v [] None), r_ok)
      | e => (s, r_err e)
      end
  end.

Definition do_register (b : backend) (s : store) (h : N) (a0 : attempt)
  : store * resp :=
  let a := with_out a0 Inflight in
  match lookup s h with
  | None => (s, r_err (match b with KV => ENotInitiated | SQL => EOther end))
  | Some p =>
    if negb (sent_ok p) then (s, r_err ESentExceedsTotal)
    else
      match registrable p with
      | EOk =>
        match verify_attempt p a with
        | EOk =>
          if (match b with
              | KV => false
              | SQL => is_some (find_global s (aid a))
              end)
          then (s, r_err EOther)       (* UNIQUE(attempt_index) *)
          else
            commit_fetch s
              (put s h (mkPay (value p) (put_att (atts p) a) (reason p))) h
        | e => (s, r_err e)
        end
      | e => (s, r_err e)
      end
  end.

Definition do_resolve (b : backend) (s : store) (h id : N) (o : outcome)
  : store * resp :=
  match lookup s h with
  | None => (s, r_err ENotInitiated)
  | Some p =>
    match b with
    | KV =>
      if negb (sent_ok p) then (s, r_err ESentExceedsTotal)
      else
        match updatable (status_of p) with
        | EOk =>
          match find_att (atts p) id with
          | None => (s, r_err EOther)   (* bucket / HTLC not registered *)
          | Some x =>
            match out x with
            | Failed => (s, r_err EAttFailed)
            | Settled => (s, r_err EAttSettled)
            | Inflight => commit_fetch s (put s h (resolve_pay p id o)) h
            end
          end
        | e => (s, r_err e)
        end
    | SQL =>
      match updatable (status_of p) with
      | EOk =>
        match find_global s id with
        | None => (s, r_err EOther)     (* FOREIGN KEY attempt_index *)
        | Some x =>
          match out x with
          | Inflight => commit_fetch s (resolve_all s id o) h
          | _ => (s, r_err EOther)      (* PRIMARY KEY of resolutions *)
          end
        end
      | e => (s, r_err e)
      end
    end
  end.

Definition do_fail (b : backend) (s : store) (h r : N) : store * resp :=
  match lookup s h with
  | None => (s, r_err ENotInitiated)
  | Some p =>
    if negb (sent_ok p) then (s, r_err ESentExceedsTotal)
    else commit_fetch s (put s h (mkPay (value p) (atts p) (Some r))) h
  end.

Definition do_delete (b : backend) (s : store) (h : N) (failed_only : bool)
  : store * resp :=
  match lookup s h with
  | None => (s, r_err (match b with KV => EOther | SQL => ENotInitiated end))
  | Some p =>
    if (match b with KV => negb (sent_ok p) | SQL => false end)
    then (s, r_err ESentExceedsTotal)
    else
      match removable (status_of p) with
      | EOk =>
        if failed_only
        then (put s h (mkPay (value p)
                        (filter (fun x => negb (is_failed x)) (atts p))
                        (reason p)), r_ok)
        else (remove s h, r_ok)
      | e => (s, r_err e)
      end
  end.

Definition do_fetch (s : store) (h : N) : store * resp :=
  match lookup s h with
  | None => (s, r_err ENotInitiated)
  | Some p => if sent_ok p then (s, r_pay p) else (s, r_err ESentExceedsTotal)
  end.

(* KV: !p.Terminated(); SQL: the FetchNonTerminalPayments predicate *)
Definition non_terminal (b : backend) (p : payment) : bool :=
  match b with
  | KV => is_ok (updatable (status_of p))
  | SQL => (negb (is_some (reason p)) && negb (has_settled p))
           || existsb is_inflight (atts p)
  end.

(* answers are compared sorted by payment hash *)
Fixpoint insert_by_key (x : N * proj) (l : list (N * proj)) : list (N * proj) :=
  match l with
  | [] => [x]
  | y :: r => if fst x <=? fst y then x :: y :: r else y :: insert_by_key x r
  end.
Definition sort_by_key (l : list (N * proj)) : list (N * proj) :=
  fold_right insert_by_key [] l.

Definition do_inflight (b : backend) (s : store) : store * resp :=
  let scanned := match b with
                 | KV => s
                 | SQL => filter (fun kp => non_terminal SQL (snd kp)) s
                 end in
  if forallb (fun kp => sent_ok (snd kp)) scanned
  then (s, mkResp EOk None
             (sort_by_key
               (map (fun kp => (fst kp, mk_proj (snd kp)))
                    (filter (fun kp => non_terminal b (snd kp)) s))))
  else (s, r_err ESentExceedsTotal).

Definition step (b : backend) (s : store) (o : op) : store * resp :=
  match o with
  | OInit h v => do_init b s h v
  | ORegister h a => do_register b s h a
  | OSettle h id => do_resolve b s h id Settled
  | OFailAttempt h id => do_resolve b s h id Failed
  | OFail h r => do_fail b s h r
  | ODeleteFailedAttempts h => do_delete b s h true
  | ODeletePayment h fo => do_delete b s h fo
  | OFetch h => do_fetch s h
  | OFetchInFlight => do_inflight b s
  end.

Fixpoint run (b : backend) (s : store) (ops : list op) : store :=
  match ops with
  | [] => s
  | o :: r => run b (fst (step b s o)) r
  end.

(* answers of a whole history *)
Fixpoint answers (b : backend) (s : store) (ops : list op) : list resp :=
  match ops with
  | [] => []
  | o :: r => let '(s', a) := step b s o in a :: answers b s' r
  end.

(* ---- domain guard (no uint64 wrap can occur) -------------------------- *)
Definition two63 : N := 9223372036854775808.

Definition op_in_domain (o : op) : bool :=
  match o with
  | OInit _ v => v <? two63
  | ORegister _ a => amt a <? two63
  | _ => true
  end.

(* ---- executable property predicates ----------------------------------- *)
(* never overpaid: sum of non-failed attempt amounts within the value *)
Definition pay_ok (p : payment) : bool := sent (atts p) <=? value p.
Definition store_ok (s : store) : bool := forallb (fun kp => pay_ok (snd kp)) s.
