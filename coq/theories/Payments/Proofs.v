(* Lemmas and invariants for the payment-store model (C16). *)
From Coq Require Import List NArith Bool Lia.
From LV Require Import Payments.Model.
Import ListNotations.
Local Open Scope N_scope.

(* ---------------------------------------------------------------- store *)

Lemma lookup_put : forall s h p h',
  lookup (put s h p) h' = if h =? h' then Some p else lookup s h'.
Proof.
  induction s as [|[k q] r IH]; intros h p h'; cbn [put lookup].
  - reflexivity.
  - destruct (k =? h) eqn:Heq; cbn [lookup].
    + apply N.eqb_eq in Heq; subst k. destruct (h =? h'); reflexivity.
    + rewrite IH. destruct (k =? h') eqn:Hk; [|reflexivity].
      apply N.eqb_eq in Hk; subst k. rewrite N.eqb_sym, Heq. reflexivity.
Qed.

Lemma lookup_put_same : forall s h p, lookup (put s h p) h = Some p.
Proof. intros. rewrite lookup_put, N.eqb_refl. reflexivity. Qed.

Lemma lookup_put_other : forall s h p h', h <> h' ->
  lookup (put s h p) h' = lookup s h'.
Proof.
  intros. rewrite lookup_put. destruct (h =? h') eqn:E; [|reflexivity].
  apply N.eqb_eq in E; contradiction.
Qed.

Lemma lookup_remove : forall s h h',
  lookup (remove s h) h' = if h =? h' then None else lookup s h'.
Proof.
  induction s as [|[k q] r IH]; intros h h'; cbn [remove filter lookup fst].
  - destruct (h =? h'); reflexivity.
  - destruct (k =? h) eqn:Hk; cbn [negb lookup].
    + fold (remove r h). rewrite IH. apply N.eqb_eq in Hk; subst k.
      destruct (h =? h'); reflexivity.
    + fold (remove r h). rewrite IH. destruct (k =? h') eqn:Hk'; [|reflexivity].
      apply N.eqb_eq in Hk'; subst k. rewrite N.eqb_sym, Hk. reflexivity.
Qed.

Lemma lookup_resolve_all : forall s id o h,
  lookup (resolve_all s id o) h =
  option_map (fun p => resolve_pay p id o) (lookup s h).
Proof.
  induction s as [|[k q] r IH]; intros; cbn [resolve_all map lookup fst snd option_map].
  - reflexivity.
  - destruct (k =? h); [reflexivity|]. apply IH.
Qed.

Lemma lookup_In : forall s h p, lookup s h = Some p -> In (h, p) s.
Proof.
  induction s as [|[k q] r IH]; intros h p H; cbn [lookup] in H; [discriminate|].
  destruct (k =? h) eqn:E.
  - apply N.eqb_eq in E; subst. inversion H; subst. left; reflexivity.
  - right; auto.
Qed.

(* ------------------------------------------------------ status / decide *)

Lemma decide_flags_table : forall a b c d,
  decide_flags a b c d = decide_table a b c d.
Proof. intros [] [] [] []; reflexivity. Qed.

Lemma settled_never_failed : forall l r,
  existsb is_settled l = true -> decide l r <> StFailed.
Proof.
  intros l r H. unfold decide, decide_flags. rewrite H.
  destruct (existsb is_inflight l); discriminate.
Qed.

Lemma out_cases : forall a,
  (is_inflight a = true /\ is_settled a = false /\ is_failed a = false) \/
  (is_inflight a = false /\ is_settled a = true /\ is_failed a = false) \/
  (is_inflight a = false /\ is_settled a = false /\ is_failed a = true).
Proof. intros a; unfold is_inflight, is_settled, is_failed; destruct (out a); auto. Qed.

Lemma decide_succeeded : forall l r,
  decide l r = StSucceeded <->
  existsb is_inflight l = false /\ existsb is_settled l = true.
Proof.
  intros; unfold decide, decide_flags.
  destruct (existsb is_inflight l), (existsb is_settled l), (is_some r),
    (existsb is_failed l); split; intros; try discriminate; intuition discriminate.
Qed.

Lemma decide_failed : forall l r,
  decide l r = StFailed <->
  existsb is_inflight l = false /\ existsb is_settled l = false /\ is_some r = true.
Proof.
  intros; unfold decide, decide_flags.
  destruct (existsb is_inflight l), (existsb is_settled l), (is_some r),
    (existsb is_failed l); split; intros; try discriminate; intuition discriminate.
Qed.

Lemma decide_initiated : forall l r,
  decide l r = StInitiated ->
  existsb is_settled l = false /\ r = None.
Proof.
  intros l r; unfold decide, decide_flags.
  destruct (existsb is_inflight l), (existsb is_settled l), r,
    (existsb is_failed l); cbn; intros; try discriminate; auto.
Qed.

(* The SQL FetchNonTerminalPayments predicate is the KV !Terminated() test. *)
Lemma non_terminal_agree : forall p, non_terminal SQL p = non_terminal KV p.
Proof.
  intros p. unfold non_terminal, status_of, decide, decide_flags, has_settled.
  destruct (existsb is_inflight (atts p)), (existsb is_settled (atts p)),
    (reason p), (existsb is_failed (atts p)); reflexivity.
Qed.

(* ------------------------------------------------------------- amounts *)

Lemma sent_resolve_le : forall l id o, sent (resolve_atts l id o) <= sent l.
Proof.
  induction l as [|x r IH]; intros; cbn [resolve_atts map sent]; [lia|].
  fold (resolve_atts r id o). specialize (IH id o).
  destruct ((aid x =? id) && is_inflight x) eqn:E.
  - apply andb_true_iff in E as [_ E].
    unfold is_inflight in E. unfold is_failed at 2. destruct (out x); try discriminate.
    unfold is_failed, with_out; cbn. destruct o; lia.
  - lia.
Qed.

Lemma sent_filter_failed : forall l,
  sent (filter (fun x => negb (is_failed x)) l) = sent l.
Proof.
  induction l as [|x r IH]; cbn [filter sent]; [reflexivity|].
  destruct (is_failed x) eqn:E; cbn [negb sent]; rewrite ?E, IH; reflexivity.
Qed.

Lemma sent_put_att_le : forall l a,
  sent (put_att l a) <= sent l + amt a.
Proof.
  induction l as [|x r IH]; intros a; cbn [put_att sent].
  - destruct (is_failed a); lia.
  - destruct (aid a <? aid x); cbn [sent].
    + destruct (is_failed a), (is_failed x); lia.
    + destruct (aid a =? aid x); cbn [sent].
      * unfold is_failed, with_out; cbn. destruct (out x); lia.
      * specialize (IH a). destruct (is_failed x); lia.
Qed.

Lemma w64_small : forall x, x < two64 -> w64 x = x.
Proof. intros; unfold w64; apply N.mod_small; assumption. Qed.

(* -------------------------------------------------- never-overpay invariant *)

Definition pay_inv (p : payment) : Prop :=
  sent (atts p) <= value p /\ value p < two63.
Definition store_inv (s : store) : Prop :=
  forall h p, lookup s h = Some p -> pay_inv p.

Lemma store_inv_put : forall s h p, store_inv s -> pay_inv p -> store_inv (put s h p).
Proof.
  intros s h p Hs Hp h' p' H. rewrite lookup_put in H.
  destruct (h =? h'); [inversion H; subst; assumption | eauto].
Qed.

Lemma store_inv_remove : forall s h, store_inv s -> store_inv (remove s h).
Proof.
  intros s h Hs h' p' H. rewrite lookup_remove in H.
  destruct (h =? h'); [discriminate | eauto].
Qed.

Lemma store_inv_resolve_all : forall s id o, store_inv s -> store_inv (resolve_all s id o).
Proof.
  intros s id o Hs h p H. rewrite lookup_resolve_all in H.
  destruct (lookup s h) as [q|] eqn:E; cbn in H; [|discriminate].
  inversion H; subst. destruct (Hs _ _ E) as [A B]. split; cbn; [|assumption].
  pose proof (sent_resolve_le (atts q) id o). lia.
Qed.

Lemma commit_fetch_inv : forall s s' h, store_inv s -> store_inv s' ->
  store_inv (fst (commit_fetch s s' h)).
Proof.
  intros. unfold commit_fetch. destruct (lookup s' h); [|assumption].
  destruct (sent_ok p); assumption.
Qed.

Lemma two63_two64 : two63 + two63 = two64.
Proof. reflexivity. Qed.

Lemma verify_ok_bound : forall p a,
  pay_inv p -> amt a < two63 -> verify_attempt p a = EOk ->
  sent (atts p) + amt a <= value p.
Proof.
  intros p a [Hs Hv] Ha H. unfold verify_attempt in H.
  destruct (blinded a && (btotal a =? 0)); [discriminate|].
  destruct (blinded a && is_some (mpp a)); [discriminate|].
  destruct (ladder _ a); try discriminate.
  destruct (negb (blinded a) && negb (is_some (mpp a)) && negb (amt a =? value p));
    [discriminate|].
  destruct (value p <? w64 (sent (atts p) + amt a)) eqn:E; [discriminate|].
  apply N.ltb_ge in E. rewrite w64_small in E; [assumption|].
  pose proof two63_two64. lia.
Qed.

Lemma step_inv : forall b s o,
  store_inv s -> op_in_domain o = true -> store_inv (fst (step b s o)).
Proof.
  intros b s o Hs Hd. destruct o; cbn [step].
  - (* init *)
    unfold do_init. cbn in Hd. apply N.ltb_lt in Hd.
    assert (Hfresh : pay_inv (mkPay v [] None)) by (split; cbn; [lia|assumption]).
    destruct (lookup s h) as [p|] eqn:E; cbn [fst].
    + destruct (match b with KV => negb (sent_ok p) | SQL => false end); [assumption|].
      destruct (initializable (status_of p)); cbn [fst]; try assumption.
      apply store_inv_put; assumption.
    + apply store_inv_put; assumption.
  - (* register *)
    unfold do_register. cbn in Hd. apply N.ltb_lt in Hd.
    destruct (lookup s h) as [p|] eqn:E; [|assumption].
    destruct (negb (sent_ok p)); [assumption|].
    destruct (registrable p); try assumption.
    destruct (verify_attempt p (with_out a Inflight)) eqn:V; try assumption.
    destruct (match b with KV => false | SQL => _ end); [assumption|].
    apply commit_fetch_inv; [assumption|].
    apply store_inv_put; [assumption|].
    pose proof (Hs _ _ E) as Hp. pose proof (verify_ok_bound p (with_out a Inflight) Hp Hd V) as Hb.
    destruct Hp as [A B]. split; cbn; [|assumption].
    pose proof (sent_put_att_le (atts p) (with_out a Inflight)). cbn in *. lia.
  - (* settle *)
    unfold do_resolve. destruct (lookup s h) as [p|] eqn:E; [|assumption].
    assert (Hr : forall o, pay_inv (resolve_pay p id o)).
    { intros o. destruct (Hs _ _ E) as [A B]. split; cbn; [|assumption].
      pose proof (sent_resolve_le (atts p) id o). lia. }
    destruct b.
    + destruct (negb (sent_ok p)); [assumption|].
      destruct (updatable (status_of p)); try assumption.
      destruct (find_att (atts p) id) as [x|]; [|assumption].
      destruct (out x); try assumption.
      apply commit_fetch_inv; [assumption|]. apply store_inv_put; auto.
    + destruct (updatable (status_of p)); try assumption.
      destruct (find_global s id) as [x|]; [|assumption].
      destruct (out x); try assumption.
      apply commit_fetch_inv; [assumption|]. apply store_inv_resolve_all; assumption.
  - (* fail attempt *)
    unfold do_resolve. destruct (lookup s h) as [p|] eqn:E; [|assumption].
    assert (Hr : forall o, pay_inv (resolve_pay p id o)).
    { intros o. destruct (Hs _ _ E) as [A B]. split; cbn; [|assumption].
      pose proof (sent_resolve_le (atts p) id o). lia. }
    destruct b.
    + destruct (negb (sent_ok p)); [assumption|].
      destruct (updatable (status_of p)); try assumption.
      destruct (find_att (atts p) id) as [x|]; [|assumption].
      destruct (out x); try assumption.
      apply commit_fetch_inv; [assumption|]. apply store_inv_put; auto.
    + destruct (updatable (status_of p)); try assumption.
      destruct (find_global s id) as [x|]; [|assumption].
      destruct (out x); try assumption.
      apply commit_fetch_inv; [assumption|]. apply store_inv_resolve_all; assumption.
  - (* fail *)
    unfold do_fail. destruct (lookup s h) as [p|] eqn:E; [|assumption].
    destruct (negb (sent_ok p)); [assumption|].
    apply commit_fetch_inv; [assumption|]. apply store_inv_put; [assumption|].
    exact (Hs _ _ E).
  - (* delete failed attempts *)
    unfold do_delete. destruct (lookup s h) as [p|] eqn:E; [|assumption].
    destruct (match b with KV => negb (sent_ok p) | SQL => false end); [assumption|].
    destruct (removable (status_of p)); try assumption. cbn [fst].
    apply store_inv_put; [assumption|].
    destruct (Hs _ _ E) as [A B]. split; cbn; [|assumption].
    rewrite sent_filter_failed. assumption.
  - (* delete payment *)
    unfold do_delete. destruct (lookup s h) as [p|] eqn:E; [|assumption].
    destruct (match b with KV => negb (sent_ok p) | SQL => false end); [assumption|].
    destruct (removable (status_of p)); try assumption.
    destruct failed_only; cbn [fst].
    + apply store_inv_put; [assumption|].
      destruct (Hs _ _ E) as [A B]. split; cbn; [|assumption].
      rewrite sent_filter_failed. assumption.
    + apply store_inv_remove; assumption.
  - (* fetch *)
    unfold do_fetch. destruct (lookup s h) as [p|]; [|assumption].
    destruct (sent_ok p); assumption.
  - (* inflight *)
    unfold do_inflight. destruct (forallb _ _); assumption.
Qed.

Lemma run_inv : forall b ops s,
  store_inv s -> forallb op_in_domain ops = true -> store_inv (run b s ops).
Proof.
  induction ops as [|o r IH]; intros s Hs Hd; cbn [run]; [assumption|].
  cbn in Hd. apply andb_true_iff in Hd as [Ho Hr].
  apply IH; [apply step_inv; assumption | assumption].
Qed.

Lemma store_inv_empty : store_inv [].
Proof. intros h p H; discriminate. Qed.

(* in reachable in-domain states setState's sanity check never fires *)
Lemma inv_sent_ok : forall p, pay_inv p -> sent_ok p = true.
Proof.
  intros p [A B]. unfold sent_ok. apply negb_true_iff, N.ltb_ge.
  rewrite w64_small; [assumption|]. pose proof two63_two64. lia.
Qed.

(* ------------------------------------------------------------- the gates *)

Lemma registrable_ok : forall p, registrable p = EOk ->
  has_settled p = false /\ reason p = None /\
  (status_of p = StInitiated \/ status_of p = StInFlight).
Proof.
  intros p H. unfold registrable in H.
  destruct (status_of p) eqn:S; cbn in H; try discriminate.
  - apply decide_initiated in S as [A B]. auto.
  - destruct (has_settled p) eqn:Hs; [discriminate|].
    unfold payment_failed in H. rewrite Hs in H. cbn in H.
    destruct (reason p); [discriminate|]. auto.
Qed.

Lemma verify_ok_w64 : forall p a, verify_attempt p a = EOk ->
  w64 (sent (atts p) + amt a) <= value p /\
  (blinded a = false -> mpp a = None -> amt a = value p).
Proof.
  intros p a H. unfold verify_attempt in H.
  destruct (blinded a && (btotal a =? 0)); [discriminate|].
  destruct (blinded a && is_some (mpp a)); [discriminate|].
  destruct (ladder _ a); try discriminate.
  destruct (negb (blinded a) && negb (is_some (mpp a)) && negb (amt a =? value p)) eqn:M;
    [discriminate|].
  destruct (value p <? w64 (sent (atts p) + amt a)) eqn:E; [discriminate|].
  apply N.ltb_ge in E. split; [assumption|].
  intros Hb Hm. rewrite Hb, Hm in M. cbn in M.
  apply negb_false_iff, N.eqb_eq in M. assumption.
Qed.

Lemma register_gate : forall b s h a s' r,
  step b s (ORegister h a) = (s', r) -> rerr r = EOk ->
  exists p, lookup s h = Some p /\
    existsb is_settled (atts p) = false /\ reason p = None /\
    (status_of p = StInitiated \/ status_of p = StInFlight) /\
    w64 (sent (atts p) + amt a) <= value p /\
    (b = SQL -> find_global s (aid a) = None).
Proof.
  intros b s h a s' r H Hr. cbn [step] in H. unfold do_register in H.
  destruct (lookup s h) as [p|] eqn:E.
  2:{ inversion H; subst; destruct b; discriminate. }
  destruct (negb (sent_ok p)); [inversion H; subst; discriminate|].
  destruct (registrable p) eqn:R; try (inversion H; subst; discriminate).
  destruct (verify_attempt p (with_out a Inflight)) eqn:V;
    try (inversion H; subst; discriminate).
  apply registrable_ok in R as (R1 & R2 & R3).
  apply verify_ok_w64 in V as [V _]. cbn in V.
  exists p. repeat split; auto.
  intros ->. destruct (find_global s (aid (with_out a Inflight))) eqn:G; cbn in H.
  - inversion H; subst; discriminate.
  - exact G.
Qed.

Lemma init_gate : forall b s h v s' r,
  step b s (OInit h v) = (s', r) -> rerr r = EOk ->
  (lookup s h = None \/ exists p, lookup s h = Some p /\ status_of p = StFailed) /\
  lookup s' h = Some (mkPay v [] None).
Proof.
  intros b s h v s' r H Hr. cbn [step] in H. unfold do_init in H.
  destruct (lookup s h) as [p|] eqn:E.
  - destruct (match b with KV => negb (sent_ok p) | SQL => false end);
      [inversion H; subst; discriminate|].
    destruct (status_of p) eqn:S; cbn in H; inversion H; subst; try discriminate.
    split; [right; eauto | apply lookup_put_same].
  - inversion H; subst. split; [auto | apply lookup_put_same].
Qed.

(* InitPayment on an initiated / in-flight / succeeded payment is refused *)
Lemma init_refused : forall b s h v p,
  lookup s h = Some p -> status_of p <> StFailed ->
  fst (step b s (OInit h v)) = s /\ rerr (snd (step b s (OInit h v))) <> EOk.
Proof.
  intros b s h v p E S. cbn [step]. unfold do_init. rewrite E.
  destruct (match b with KV => negb (sent_ok p) | SQL => false end);
    [split; [reflexivity|discriminate]|].
  destruct (status_of p); cbn; try (split; [reflexivity|discriminate]).
  contradiction.
Qed.

(* ------------------------------------------------- answers are truthful *)

Definition op_hash (o : op) : option N :=
  match o with
  | OInit h _ | ORegister h _ | OSettle h _ | OFailAttempt h _ | OFail h _
  | ODeleteFailedAttempts h | ODeletePayment h _ | OFetch h => Some h
  | OFetchInFlight => None
  end.

Lemma commit_fetch_pay : forall s s' h s'' r pr,
  commit_fetch s s' h = (s'', r) -> rpay r = Some pr ->
  exists p, lookup s'' h = Some p /\ pr = mk_proj p /\ rerr r = EOk.
Proof.
  intros s s' h s'' r pr H Hp. unfold commit_fetch in H.
  destruct (lookup s' h) as [p'|] eqn:E.
  - destruct (sent_ok p'); inversion H; subst; cbn in Hp; [|discriminate].
    inversion Hp; subst. exists p'. auto.
  - inversion H; subst; discriminate.
Qed.

Ltac inv_err H := inversion H; subst; cbn in *; discriminate.

Lemma answer_truthful : forall b s o s' r pr,
  step b s o = (s', r) -> rpay r = Some pr ->
  exists h p, op_hash o = Some h /\ lookup s' h = Some p /\ pr = mk_proj p /\
              pstatus pr = decide (atts p) (reason p) /\ rerr r = EOk.
Proof.
  intros b s o s' r pr H Hp.
  assert (K : forall h, (exists p, lookup s' h = Some p /\ pr = mk_proj p /\ rerr r = EOk) ->
     op_hash o = Some h ->
     exists h p, op_hash o = Some h /\ lookup s' h = Some p /\ pr = mk_proj p /\
              pstatus pr = decide (atts p) (reason p) /\ rerr r = EOk).
  { intros h (p & A & B & C) D. exists h, p. subst pr. repeat split; auto. }
  destruct o; cbn [step] in H.
  - unfold do_init in H. destruct (lookup s h) as [p|].
    + destruct (match b with KV => negb (sent_ok p) | SQL => false end); [inv_err H|].
      destruct (initializable (status_of p)); inv_err H.
    + inv_err H.
  - apply (K h); [|reflexivity]. unfold do_register in H.
    destruct (lookup s h) as [p|]; [|inv_err H].
    destruct (negb (sent_ok p)); [inv_err H|].
    destruct (registrable p); try inv_err H.
    destruct (verify_attempt p (with_out a Inflight)); try inv_err H.
    destruct (match b with KV => false | SQL => _ end); [inv_err H|].
    eapply commit_fetch_pay; eassumption.
  - apply (K h); [|reflexivity]. unfold do_resolve in H.
    destruct (lookup s h) as [p|]; [|inv_err H]. destruct b.
    + destruct (negb (sent_ok p)); [inv_err H|].
      destruct (updatable (status_of p)); try inv_err H.
      destruct (find_att (atts p) id) as [x|]; [|inv_err H].
      destruct (out x); try inv_err H. eapply commit_fetch_pay; eassumption.
    + destruct (updatable (status_of p)); try inv_err H.
      destruct (find_global s id) as [x|]; [|inv_err H].
      destruct (out x); try inv_err H. eapply commit_fetch_pay; eassumption.
  - apply (K h); [|reflexivity]. unfold do_resolve in H.
    destruct (lookup s h) as [p|]; [|inv_err H]. destruct b.
    + destruct (negb (sent_ok p)); [inv_err H|].
      destruct (updatable (status_of p)); try inv_err H.
      destruct (find_att (atts p) id) as [x|]; [|inv_err H].
      destruct (out x); try inv_err H. eapply commit_fetch_pay; eassumption.
    + destruct (updatable (status_of p)); try inv_err H.
      destruct (find_global s id) as [x|]; [|inv_err H].
      destruct (out x); try inv_err H. eapply commit_fetch_pay; eassumption.
  - apply (K h); [|reflexivity]. unfold do_fail in H.
    destruct (lookup s h) as [p|]; [|inv_err H].
    destruct (negb (sent_ok p)); [inv_err H|]. eapply commit_fetch_pay; eassumption.
  - unfold do_delete in H. destruct (lookup s h) as [p|]; [|inv_err H].
    destruct (match b with KV => negb (sent_ok p) | SQL => false end); [inv_err H|].
    destruct (removable (status_of p)); inv_err H.
  - unfold do_delete in H. destruct (lookup s h) as [p|]; [|inv_err H].
    destruct (match b with KV => negb (sent_ok p) | SQL => false end); [inv_err H|].
    destruct (removable (status_of p)); try inv_err H. destruct failed_only; inv_err H.
  - apply (K h); [|reflexivity]. unfold do_fetch in H.
    destruct (lookup s h) as [p|] eqn:E; [|inv_err H].
    destruct (sent_ok p); [|inv_err H]. inversion H; subst. cbn in Hp. inversion Hp; subst.
    exists p. auto.
  - unfold do_inflight in H. destruct (forallb _ _); inv_err H.
Qed.

(* every payment listed by FetchInFlightPayments is stored, non-terminal and
   reported with its decided status *)
Lemma in_insert_by_key : forall x y l, In x (insert_by_key y l) <-> x = y \/ In x l.
Proof.
  induction l as [|z r IH]; cbn [insert_by_key].
  - cbn. intuition auto.
  - destruct (fst y <=? fst z); cbn [In]; [intuition auto|]. rewrite IH. intuition auto.
Qed.

Lemma in_sort_by_key : forall x l, In x (sort_by_key l) <-> In x l.
Proof.
  induction l as [|z r IH]; cbn [sort_by_key fold_right]; [reflexivity|].
  fold (sort_by_key r). rewrite in_insert_by_key, IH. cbn. intuition auto.
Qed.

Lemma inflight_truthful : forall b s s' r h pr,
  step b s OFetchInFlight = (s', r) -> In (h, pr) (rlist r) ->
  s' = s /\ exists p, In (h, p) s /\ pr = mk_proj p /\
    (status_of p = StInitiated \/ status_of p = StInFlight).
Proof.
  intros b s s' r h pr H Hin. cbn [step] in H. unfold do_inflight in H.
  destruct (forallb _ _); inversion H; subst; cbn in Hin; [|contradiction].
  split; [reflexivity|]. apply (proj1 (in_sort_by_key _ _)) in Hin.
  apply in_map_iff in Hin as ([k p] & A & B). cbn in A. inversion A; subst.
  apply filter_In in B as [B C]. exists p. split; [assumption|]. split; [reflexivity|].
  cbn in C. assert (C' : non_terminal KV p = true)
    by (destruct b; [assumption | rewrite <- non_terminal_agree; assumption]).
  unfold non_terminal in C'. destruct (status_of p); cbn in C'; auto; discriminate.
Qed.

(* ----------------------------------- per-payment transition relation *)

Definition drop_failed (p : payment) : payment :=
  mkPay (value p) (filter (fun x => negb (is_failed x)) (atts p)) (reason p).

(* how ONE operation can change the payment stored under hash h *)
Inductive trans (o : op) (h : N) (p : payment) : option payment -> Prop :=
| T_same : trans o h p (Some p)
| T_init : forall v, o = OInit h v -> status_of p = StFailed ->
    trans o h p (Some (mkPay v [] None))
| T_reg : forall a, o = ORegister h a -> registrable p = EOk ->
    verify_attempt p (with_out a Inflight) = EOk ->
    trans o h p (Some (mkPay (value p) (put_att (atts p) (with_out a Inflight)) (reason p)))
| T_resolve_own : forall id oc, o = OSettle h id \/ o = OFailAttempt h id ->
    updatable (status_of p) = EOk -> trans o h p (Some (resolve_pay p id oc))
| T_resolve_other : forall h' id oc, o = OSettle h' id \/ o = OFailAttempt h' id ->
    h' <> h -> trans o h p (Some (resolve_pay p id oc))
| T_fail : forall r, o = OFail h r ->
    trans o h p (Some (mkPay (value p) (atts p) (Some r)))
| T_delfailed : o = ODeleteFailedAttempts h \/ o = ODeletePayment h true ->
    removable (status_of p) = EOk -> trans o h p (Some (drop_failed p))
| T_del : o = ODeletePayment h false -> removable (status_of p) = EOk ->
    trans o h p None.

Lemma commit_fetch_cases : forall s s' h,
  fst (commit_fetch s s' h) = s \/ fst (commit_fetch s s' h) = s'.
Proof.
  intros. unfold commit_fetch. destruct (lookup s' h); auto. destruct (sent_ok p); auto.
Qed.

Lemma eqb_cases : forall a b : N, (a = b /\ (a =? b) = true) \/ (a <> b /\ (a =? b) = false).
Proof. intros. destruct (a =? b) eqn:E; [left|right]; split; auto;
  [apply N.eqb_eq | apply N.eqb_neq]; assumption. Qed.

Lemma resolve_trans : forall b s h' id oc h p,
  lookup s h = Some p ->
  (forall o, (o = OSettle h' id \/ o = OFailAttempt h' id) ->
     trans o h p (lookup (fst (do_resolve b s h' id oc)) h)).
Proof.
  intros b s h' id oc h p E o Ho.
  assert (Same : trans o h p (lookup s h)) by (rewrite E; constructor).
  unfold do_resolve. destruct (lookup s h') as [q|] eqn:E'; [|exact Same].
  destruct b.
  - destruct (negb (sent_ok q)); [exact Same|].
    destruct (updatable (status_of q)) eqn:U; try exact Same.
    destruct (find_att (atts q) id) as [x|]; [|exact Same].
    destruct (out x); try exact Same.
    destruct (commit_fetch_cases s (put s h' (resolve_pay q id oc)) h') as [-> | ->];
      [exact Same|].
    rewrite lookup_put. destruct (eqb_cases h' h) as [[-> ->] | [N ->]].
    + rewrite E in E'; inversion E'; subst q.
      destruct Ho as [-> | ->]; eapply T_resolve_own; eauto.
    + exact Same.
  - destruct (updatable (status_of q)) eqn:U; try exact Same.
    destruct (find_global s id) as [x|]; [|exact Same].
    destruct (out x); try exact Same.
    destruct (commit_fetch_cases s (resolve_all s id oc) h') as [-> | ->]; [exact Same|].
    rewrite lookup_resolve_all, E. cbn.
    destruct (eqb_cases h' h) as [[-> _] | [N _]].
    + rewrite E in E'; inversion E'; subst q.
      destruct Ho as [-> | ->]; eapply T_resolve_own; eauto.
    + destruct Ho as [-> | ->]; eapply T_resolve_other; eauto.
Qed.

Lemma step_trans : forall b s o h p,
  lookup s h = Some p -> trans o h p (lookup (fst (step b s o)) h).
Proof.
  intros b s o h p E.
  assert (Same : trans o h p (lookup s h)) by (rewrite E; constructor).
  destruct o; cbn [step].
  - (* init *)
    unfold do_init. destruct (lookup s h0) as [q|] eqn:E'.
    + destruct (match b with KV => negb (sent_ok q) | SQL => false end); [exact Same|].
      destruct (initializable (status_of q)) eqn:I; try exact Same. cbn [fst].
      rewrite lookup_put. destruct (eqb_cases h0 h) as [[-> ->] | [N ->]]; [|exact Same].
      rewrite E in E'; inversion E'; subst q. eapply T_init; [reflexivity|].
      destruct (status_of p); cbn in I; try discriminate; reflexivity.
    + cbn [fst]. rewrite lookup_put. destruct (eqb_cases h0 h) as [[-> ->] | [N ->]];
        [|exact Same]. rewrite E in E'; discriminate.
  - (* register *)
    unfold do_register. destruct (lookup s h0) as [q|] eqn:E'; [|exact Same].
    destruct (negb (sent_ok q)); [exact Same|].
    destruct (registrable q) eqn:R; try exact Same.
    destruct (verify_attempt q (with_out a Inflight)) eqn:V; try exact Same.
    destruct (match b with KV => false | SQL => _ end); [exact Same|].
    match goal with |- context[commit_fetch s ?s' h0] =>
      destruct (commit_fetch_cases s s' h0) as [-> | ->] end; [exact Same|].
    rewrite lookup_put. destruct (eqb_cases h0 h) as [[-> ->] | [N ->]]; [|exact Same].
    rewrite E in E'; inversion E'; subst q. eapply T_reg; eauto.
  - apply resolve_trans; auto.
  - apply resolve_trans; auto.
  - (* fail *)
    unfold do_fail. destruct (lookup s h0) as [q|] eqn:E'; [|exact Same].
    destruct (negb (sent_ok q)); [exact Same|].
    match goal with |- context[commit_fetch s ?s' h0] =>
      destruct (commit_fetch_cases s s' h0) as [-> | ->] end; [exact Same|].
    rewrite lookup_put. destruct (eqb_cases h0 h) as [[-> ->] | [N ->]]; [|exact Same].
    rewrite E in E'; inversion E'; subst q. eapply T_fail; eauto.
  - (* delete failed attempts *)
    unfold do_delete. destruct (lookup s h0) as [q|] eqn:E'; [|exact Same].
    destruct (match b with KV => negb (sent_ok q) | SQL => false end); [exact Same|].
    destruct (removable (status_of q)) eqn:R; try exact Same. cbn [fst].
    rewrite lookup_put. destruct (eqb_cases h0 h) as [[-> ->] | [N ->]]; [|exact Same].
    rewrite E in E'; inversion E'; subst q. apply T_delfailed; auto.
  - (* delete payment *)
    unfold do_delete. destruct (lookup s h0) as [q|] eqn:E'; [|exact Same].
    destruct (match b with KV => negb (sent_ok q) | SQL => false end); [exact Same|].
    destruct (removable (status_of q)) eqn:R; try exact Same.
    destruct failed_only; cbn [fst].
    + rewrite lookup_put. destruct (eqb_cases h0 h) as [[-> ->] | [N ->]]; [|exact Same].
      rewrite E in E'; inversion E'; subst q. apply T_delfailed; auto.
    + rewrite lookup_remove. destruct (eqb_cases h0 h) as [[-> ->] | [N ->]]; [|exact Same].
      rewrite E in E'; inversion E'; subst q. apply T_del; auto.
  - unfold do_fetch. destruct (lookup s h0) as [q|]; [|exact Same].
    destruct (sent_ok q); exact Same.
  - unfold do_inflight. destruct (forallb _ _); exact Same.
Qed.

(* ------------------------------------------------- terminal stability *)

Lemma resolve_atts_noinflight : forall l id o,
  existsb is_inflight l = false -> resolve_atts l id o = l.
Proof.
  induction l as [|x r IH]; intros id o H; cbn [resolve_atts map]; [reflexivity|].
  cbn [existsb] in H. apply orb_false_iff in H as [A B].
  rewrite A, andb_false_r. f_equal. apply IH; assumption.
Qed.

Lemma existsb_filter_notfailed : forall (f : attempt -> bool) l,
  (forall x, f x = true -> is_failed x = false) ->
  existsb f (filter (fun x => negb (is_failed x)) l) = existsb f l.
Proof.
  intros f l Hf. induction l as [|x r IH]; cbn [filter existsb]; [reflexivity|].
  destruct (is_failed x) eqn:E; cbn [negb existsb].
  - rewrite IH. destruct (f x) eqn:F; [|reflexivity].
    apply Hf in F. congruence.
  - rewrite IH. reflexivity.
Qed.

Lemma inflight_not_failed : forall x, is_inflight x = true -> is_failed x = false.
Proof. intros x; unfold is_inflight, is_failed; destruct (out x); auto; discriminate. Qed.
Lemma settled_not_failed : forall x, is_settled x = true -> is_failed x = false.
Proof. intros x; unfold is_settled, is_failed; destruct (out x); auto; discriminate. Qed.

Lemma succeeded_step : forall b s o h p,
  lookup s h = Some p -> status_of p = StSucceeded -> o <> ODeletePayment h false ->
  exists p', lookup (fst (step b s o)) h = Some p' /\ status_of p' = StSucceeded /\
             value p' = value p.
Proof.
  intros b s o h p E S No. pose proof (step_trans b s o h p E) as T.
  pose proof S as S0. unfold status_of in S0. apply decide_succeeded in S0 as [NI HS].
  inversion T as [Hq | v Ho Hf Hq | a Ho Hr Hv Hq | id oc Ho Hu Hq | h' id oc Ho Hn Hq
                  | r Ho Hq | Ho Hr Hq | Ho Hr Hq].
  - eauto.
  - congruence.
  - unfold registrable in Hr. rewrite S in Hr. discriminate.
  - rewrite S in Hu; discriminate.
  - exists (resolve_pay p id oc). unfold resolve_pay.
    rewrite resolve_atts_noinflight by assumption. destruct p; cbn in *. auto.
  - eexists; split; [reflexivity|]. split; [|reflexivity].
    unfold status_of; cbn. apply decide_succeeded. auto.
  - eexists; split; [reflexivity|]. split; [|reflexivity].
    unfold status_of, drop_failed; cbn. apply decide_succeeded.
    rewrite !existsb_filter_notfailed
      by (auto using inflight_not_failed, settled_not_failed). auto.
  - contradiction.
Qed.

Lemma failed_step : forall b s o h p,
  lookup s h = Some p -> status_of p = StFailed ->
  o <> ODeletePayment h false -> (forall v, o <> OInit h v) ->
  exists p', lookup (fst (step b s o)) h = Some p' /\ status_of p' = StFailed /\
             value p' = value p.
Proof.
  intros b s o h p E S No Ni. pose proof (step_trans b s o h p E) as T.
  pose proof S as S0. unfold status_of in S0. apply decide_failed in S0 as (NI & NS & HR).
  inversion T as [Hq | v Ho Hf Hq | a Ho Hr Hv Hq | id oc Ho Hu Hq | h' id oc Ho Hn Hq
                  | r Ho Hq | Ho Hr Hq | Ho Hr Hq].
  - eauto.
  - exfalso; eapply Ni; eauto.
  - unfold registrable in Hr. rewrite S in Hr. discriminate.
  - rewrite S in Hu; discriminate.
  - exists (resolve_pay p id oc). unfold resolve_pay.
    rewrite resolve_atts_noinflight by assumption. destruct p; cbn in *. auto.
  - eexists; split; [reflexivity|]. split; [|reflexivity].
    unfold status_of; cbn. apply decide_failed. auto.
  - eexists; split; [reflexivity|]. split; [|reflexivity].
    unfold status_of, drop_failed; cbn. apply decide_failed.
    rewrite !existsb_filter_notfailed
      by (auto using inflight_not_failed, settled_not_failed). auto.
  - contradiction.
Qed.

(* lifted to whole histories *)
Lemma succeeded_run : forall b ops s h p,
  lookup s h = Some p -> status_of p = StSucceeded ->
  ~ In (ODeletePayment h false) ops ->
  exists p', lookup (run b s ops) h = Some p' /\ status_of p' = StSucceeded /\
             value p' = value p.
Proof.
  induction ops as [|o r IH]; intros s h p E S N; cbn [run]; [eauto|].
  destruct (succeeded_step b s o h p E S) as (p1 & E1 & S1 & V1).
  { intros ->. apply N. left; reflexivity. }
  destruct (IH _ h p1 E1 S1) as (p2 & E2 & S2 & V2).
  { intros C. apply N. right; assumption. }
  exists p2. repeat split; auto. congruence.
Qed.

Lemma failed_run : forall b ops s h p,
  lookup s h = Some p -> status_of p = StFailed ->
  ~ In (ODeletePayment h false) ops -> (forall v, ~ In (OInit h v) ops) ->
  exists p', lookup (run b s ops) h = Some p' /\ status_of p' = StFailed /\
             value p' = value p.
Proof.
  induction ops as [|o r IH]; intros s h p E S N Ni; cbn [run]; [eauto|].
  destruct (failed_step b s o h p E S) as (p1 & E1 & S1 & V1).
  { intros ->. apply N. left; reflexivity. }
  { intros v ->. apply (Ni v). left; reflexivity. }
  destruct (IH _ h p1 E1 S1) as (p2 & E2 & S2 & V2).
  { intros C. apply N. right; assumption. }
  { intros v C. apply (Ni v). right; assumption. }
  exists p2. repeat split; auto. congruence.
Qed.

(* --------------------------------------- KV / SQL agreement (refinement) *)

Definition wf (s : store) : Prop := NoDup (map fst s).

Lemma in_keys_put : forall s h p x,
  In x (map fst (put s h p)) -> x = h \/ In x (map fst s).
Proof.
  induction s as [|[k q] r IH]; intros h p x H; cbn [put map fst In] in *.
  - destruct H as [H|[]]; auto.
  - destruct (k =? h) eqn:E; cbn [map fst In] in H.
    + apply N.eqb_eq in E; subst. destruct H; auto.
    + destruct H as [H|H]; auto. apply IH in H. destruct H; auto.
Qed.

Lemma wf_put : forall s h p, wf s -> wf (put s h p).
Proof.
  unfold wf. induction s as [|[k q] r IH]; intros h p H; cbn [put map fst].
  - constructor; [intros []|constructor].
  - inversion H as [|? ? Hn Hr]; subst. destruct (k =? h) eqn:E; cbn [map fst].
    + apply N.eqb_eq in E; subst. constructor; assumption.
    + constructor; [|apply IH; assumption].
      intros C. apply in_keys_put in C as [C|C]; [|contradiction].
      subst. rewrite N.eqb_refl in E. discriminate.
Qed.

Lemma in_keys_filter : forall (f : N * payment -> bool) r x,
  In x (map fst (filter f r)) -> In x (map fst r).
Proof.
  induction r as [|kq r IH]; intros x C; cbn [filter map In] in *; [contradiction|].
  destruct (f kq); cbn [map In] in C; intuition auto.
Qed.

Lemma wf_remove : forall s h, wf s -> wf (remove s h).
Proof.
  unfold wf, remove. induction s as [|[k q] r IH]; intros h H; cbn [filter map fst].
  - constructor.
  - inversion H as [|? ? Hn Hr]; subst.
    cbn [fst]. destruct (negb (k =? h)); cbn [map fst]; auto.
    constructor; auto. intros C. apply Hn. eapply in_keys_filter; eauto.
Qed.

Lemma wf_in_lookup : forall s k p, wf s -> In (k, p) s -> lookup s k = Some p.
Proof.
  unfold wf. induction s as [|[k' q] r IH]; intros k p H Hin; [contradiction|].
  inversion H as [|? ? Hn Hr]; subst. cbn [lookup]. destruct Hin as [Hin|Hin].
  - inversion Hin; subst. rewrite N.eqb_refl. reflexivity.
  - destruct (k' =? k) eqn:E; [|auto].
    apply N.eqb_eq in E; subst. exfalso. apply Hn.
    apply in_map_iff. exists (k, p). auto.
Qed.

Lemma commit_fetch_wf : forall s s' h, wf s -> wf s' -> wf (fst (commit_fetch s s' h)).
Proof. intros. destruct (commit_fetch_cases s s' h) as [-> | ->]; assumption. Qed.

Lemma wf_step_KV : forall s o, wf s -> wf (fst (step KV s o)).
Proof.
  intros s o H. destruct o; cbn [step].
  - unfold do_init. destruct (lookup s h) as [p|]; cbn [fst]; [|apply wf_put; auto].
    destruct (negb (sent_ok p)); [assumption|].
    destruct (initializable (status_of p)); cbn [fst]; auto using wf_put.
  - unfold do_register. destruct (lookup s h) as [p|]; [|assumption].
    destruct (negb (sent_ok p)); [assumption|].
    destruct (registrable p); try assumption.
    destruct (verify_attempt p (with_out a Inflight)); try assumption.
    apply commit_fetch_wf; auto using wf_put.
  - unfold do_resolve. destruct (lookup s h) as [p|]; [|assumption].
    destruct (negb (sent_ok p)); [assumption|].
    destruct (updatable (status_of p)); try assumption.
    destruct (find_att (atts p) id) as [x|]; [|assumption].
    destruct (out x); try assumption. apply commit_fetch_wf; auto using wf_put.
  - unfold do_resolve. destruct (lookup s h) as [p|]; [|assumption].
    destruct (negb (sent_ok p)); [assumption|].
    destruct (updatable (status_of p)); try assumption.
    destruct (find_att (atts p) id) as [x|]; [|assumption].
    destruct (out x); try assumption. apply commit_fetch_wf; auto using wf_put.
  - unfold do_fail. destruct (lookup s h) as [p|]; [|assumption].
    destruct (negb (sent_ok p)); [assumption|]. apply commit_fetch_wf; auto using wf_put.
  - unfold do_delete. destruct (lookup s h) as [p|]; [|assumption].
    destruct (negb (sent_ok p)); [assumption|].
    destruct (removable (status_of p)); cbn [fst]; auto using wf_put.
  - unfold do_delete. destruct (lookup s h) as [p|]; [|assumption].
    destruct (negb (sent_ok p)); [assumption|].
    destruct (removable (status_of p)); try assumption.
    destruct failed_only; cbn [fst]; auto using wf_put, wf_remove.
  - unfold do_fetch. destruct (lookup s h) as [p|]; [|assumption]. destruct (sent_ok p); assumption.
  - unfold do_inflight. destruct (forallb _ _); assumption.
Qed.

(* the discipline the router follows: attempt ids are never reused, and an
   attempt is settled / failed through the hash of the payment it belongs to *)
Definition others_lack (s : store) (h id : N) : bool :=
  forallb (fun kp => (fst kp =? h) || negb (is_some (find_att (atts (snd kp)) id))) s.

Definition disciplined (s : store) (o : op) : bool :=
  match o with
  | ORegister _ a => negb (is_some (find_global s (aid a)))
  | OSettle h id | OFailAttempt h id => others_lack s h id
  | _ => true
  end.

(* (KV error, SQL error) pairs that may differ: same decision, other sentinel *)
Definition err_class_pair (k q : err) : bool :=
  match k, q with
  | ENotInitiated, EOther | EAttFailed, EOther | EAttSettled, EOther
  | EOther, ENotInitiated => true
  | _, _ => false
  end.

Definition resp_rel (k q : resp) : Prop :=
  rpay k = rpay q /\ rlist k = rlist q /\
  (rerr k = rerr q \/ err_class_pair (rerr k) (rerr q) = true).

Lemma resp_rel_refl : forall r, resp_rel r r.
Proof. intros; repeat split; auto. Qed.

Lemma resolve_atts_lack : forall l id o, find_att l id = None -> resolve_atts l id o = l.
Proof.
  induction l as [|x r IH]; intros id o H; cbn [resolve_atts map]; [reflexivity|].
  cbn [find_att] in H. destruct (aid x =? id); [discriminate|]. cbn [andb].
  f_equal. apply IH; assumption.
Qed.

Lemma resolve_pay_lack : forall q id o, find_att (atts q) id = None -> resolve_pay q id o = q.
Proof.
  intros [v l r] id o H. unfold resolve_pay; cbn [value atts reason] in *.
  rewrite resolve_atts_lack; auto.
Qed.

Lemma all_lack : forall r id o,
  (forall k q, In (k, q) r -> find_att (atts q) id = None) ->
  find_global r id = None /\ resolve_all r id o = r.
Proof.
  induction r as [|[k q] r IH]; intros id o H; cbn [find_global resolve_all map fst snd];
    [auto|].
  assert (Hq : find_att (atts q) id = None) by (apply (H k q); left; reflexivity).
  rewrite Hq, resolve_pay_lack by assumption.
  destruct (IH id o) as [A B]; [intros; eapply H; right; eauto|].
  fold (resolve_all r id o). rewrite A, B. auto.
Qed.

Lemma owner_local : forall s h id o p,
  wf s -> lookup s h = Some p -> others_lack s h id = true ->
  find_global s id = find_att (atts p) id /\
  resolve_all s id o = put s h (resolve_pay p id o).
Proof.
  unfold wf. induction s as [|[k q] r IH]; intros h id o p W L D; [discriminate|].
  inversion W as [|? ? Hn Hr]; subst.
  cbn [others_lack forallb fst snd] in D. apply andb_true_iff in D as [D1 D2].
  cbn [lookup] in L. cbn [find_global resolve_all map fst snd put].
  fold (resolve_all r id o).
  destruct (k =? h) eqn:E.
  - apply N.eqb_eq in E; subst k. inversion L; subst q.
    destruct (all_lack r id o) as [A B].
    { intros k q Hin. assert (Hk : k <> h).
      { intros ->. apply Hn. apply in_map_iff. exists (h, q). auto. }
      unfold others_lack in D2. rewrite forallb_forall in D2. specialize (D2 _ Hin).
      cbn in D2. apply N.eqb_neq in Hk. rewrite Hk in D2. cbn in D2.
      destruct (find_att (atts q) id); [discriminate|reflexivity]. }
    rewrite A, B. split; [destruct (find_att (atts p) id); reflexivity | reflexivity].
  - cbn [orb] in D1. destruct (find_att (atts q) id) eqn:F; [discriminate|].
    rewrite resolve_pay_lack by assumption.
    destruct (IH h id o p Hr L D2) as [A B]. rewrite A, B. auto.
Qed.

Lemma commit_fetch_rel : forall s s' h,
  resp_rel (snd (commit_fetch s s' h)) (snd (commit_fetch s s' h)).
Proof. intros; apply resp_rel_refl. Qed.

Definition all_inv (s : store) : Prop := forall k p, In (k, p) s -> pay_inv p.

Lemma all_inv_of : forall s, wf s -> store_inv s -> all_inv s.
Proof. intros s W I k p Hin. apply (I k). apply wf_in_lookup; assumption. Qed.

Lemma rel_err_pair : forall k q, err_class_pair k q = true -> resp_rel (r_err k) (r_err q).
Proof. intros; repeat split; auto. Qed.

Lemma step_agree : forall s o,
  wf s -> store_inv s -> disciplined s o = true ->
  fst (step KV s o) = fst (step SQL s o) /\
  resp_rel (snd (step KV s o)) (snd (step SQL s o)).
Proof.
  intros s o W I D.
  assert (SOK : forall h p, lookup s h = Some p -> sent_ok p = true)
    by (intros; eapply inv_sent_ok, I; eauto).
  destruct o; cbn [step].
  - unfold do_init. destruct (lookup s h) as [p|] eqn:E; [|split; [reflexivity|apply resp_rel_refl]].
    rewrite (SOK _ _ E). cbn [negb]. split; [reflexivity|apply resp_rel_refl].
  - unfold do_register. cbn in D.
    destruct (lookup s h) as [p|] eqn:E;
      [|split; [reflexivity|apply rel_err_pair; reflexivity]].
    destruct (negb (sent_ok p)); [split; [reflexivity|apply resp_rel_refl]|].
    destruct (registrable p); try (split; [reflexivity|apply resp_rel_refl]).
    destruct (verify_attempt p (with_out a Inflight));
      try (split; [reflexivity|apply resp_rel_refl]).
    cbn [aid with_out]. destruct (find_global s (aid a)); [discriminate|]. cbn [is_some].
    split; [reflexivity|apply resp_rel_refl].
  - unfold do_resolve. cbn in D.
    destruct (lookup s h) as [p|] eqn:E; [|split; [reflexivity|apply resp_rel_refl]].
    rewrite (SOK _ _ E). cbn [negb].
    destruct (updatable (status_of p)); try (split; [reflexivity|apply resp_rel_refl]).
    destruct (owner_local s h id Settled p W E D) as [A B]. rewrite A, B.
    destruct (find_att (atts p) id) as [x|]; [|split; [reflexivity|apply resp_rel_refl]].
    destruct (out x); split; try reflexivity; try apply resp_rel_refl;
      apply rel_err_pair; reflexivity.
  - unfold do_resolve. cbn in D.
    destruct (lookup s h) as [p|] eqn:E; [|split; [reflexivity|apply resp_rel_refl]].
    rewrite (SOK _ _ E). cbn [negb].
    destruct (updatable (status_of p)); try (split; [reflexivity|apply resp_rel_refl]).
    destruct (owner_local s h id Failed p W E D) as [A B]. rewrite A, B.
    destruct (find_att (atts p) id) as [x|]; [|split; [reflexivity|apply resp_rel_refl]].
    destruct (out x); split; try reflexivity; try apply resp_rel_refl;
      apply rel_err_pair; reflexivity.
  - split; [reflexivity|apply resp_rel_refl].
  - unfold do_delete. destruct (lookup s h) as [p|] eqn:E;
      [|split; [reflexivity|apply rel_err_pair; reflexivity]].
    rewrite (SOK _ _ E). cbn [negb]. split; [reflexivity|apply resp_rel_refl].
  - unfold do_delete. destruct (lookup s h) as [p|] eqn:E;
      [|split; [reflexivity|apply rel_err_pair; reflexivity]].
    rewrite (SOK _ _ E). cbn [negb]. split; [reflexivity|apply resp_rel_refl].
  - split; [reflexivity|apply resp_rel_refl].
  - unfold do_inflight.
    assert (F : forall f : N * payment -> bool,
               forallb (fun kp => sent_ok (snd kp)) (filter f s) = true).
    { intros f. apply forallb_forall. intros [k p] Hin. apply filter_In in Hin as [Hin _].
      cbn. apply inv_sent_ok. eapply all_inv_of; eauto. }
    assert (G : forallb (fun kp => sent_ok (snd kp)) s = true).
    { apply forallb_forall. intros [k p] Hin. cbn. apply inv_sent_ok.
      eapply all_inv_of; eauto. }
    rewrite F, G. split; [reflexivity|].
    assert (Q : filter (fun kp : N * payment => non_terminal KV (snd kp)) s =
                filter (fun kp : N * payment => non_terminal SQL (snd kp)) s).
    { apply filter_ext. intros; symmetry; apply non_terminal_agree. }
    rewrite Q. apply resp_rel_refl.
Qed.

(* disciplined along the whole (KV) run *)
Fixpoint disciplined_run (s : store) (ops : list op) : bool :=
  match ops with
  | [] => true
  | o :: r => disciplined s o && disciplined_run (fst (step KV s o)) r
  end.

Lemma run_agree : forall ops s,
  wf s -> store_inv s -> forallb op_in_domain ops = true ->
  disciplined_run s ops = true ->
  run KV s ops = run SQL s ops /\
  Forall2 resp_rel (answers KV s ops) (answers SQL s ops).
Proof.
  induction ops as [|o r IH]; intros s W I Dm Dc; cbn [run answers]; [auto|].
  cbn in Dm, Dc. apply andb_true_iff in Dm as [Dm1 Dm2]. apply andb_true_iff in Dc as [Dc1 Dc2].
  destruct (step_agree s o W I Dc1) as [A B].
  destruct (step KV s o) as [s1 a1] eqn:E1. destruct (step SQL s o) as [s2 a2] eqn:E2.
  cbn [fst snd] in *. subst s2.
  assert (W1 : wf s1) by (pose proof (wf_step_KV s o W) as X; rewrite E1 in X; exact X).
  assert (I1 : store_inv s1)
    by (pose proof (step_inv KV s o I Dm1) as X; rewrite E1 in X; exact X).
  destruct (IH s1 W1 I1 Dm2 Dc2) as [R1 R2]. split; [assumption|]. constructor; assumption.
Qed.

Lemma wf_empty : wf [].
Proof. constructor. Qed.
