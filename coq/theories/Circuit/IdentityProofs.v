(* C07 — channel identity: the restart rolls back / keeps the keystones of a channel
   under the id its LINK uses, whatever other identifiers the record carries. *)
From stdpp Require Import gmap.
From LV Require Import Circuit.Model Circuit.Spec Circuit.Identity Circuit.RestartProofs.
Local Open Scope N_scope.

Lemma trimmed_by_record : forall act r j,
  r ∈ act -> cr_pending r = false -> link_scid r <> 0 ->
  next_local_htlc_index (cr_tip r) (cr_ridx r) <= j ->
  trimmed_by (map active_of act) (link_scid r, j) = true.
Proof.
  intros act r j Hin Hp Hz Hj.
  unfold trimmed_by. apply existsb_exists. exists (active_of r). split.
  - apply in_map. apply elem_of_list_In. exact Hin.
  - unfold trimmed_one, act_start, active_of, trim_scid, link_scid in *.
    rewrite Hp. destruct (N.eqb (cr_short r) 0) eqn:E.
    + apply N.eqb_eq in E. contradiction.
    + cbn [fst snd]. rewrite N.eqb_refl. cbn [andb]. apply N.leb_le. exact Hj.
Qed.

Lemma not_trimmed_by_record : forall act (o : key),
  (forall r, r ∈ act -> cr_pending r = false -> link_scid r = o.1 ->
     o.2 < next_local_htlc_index (cr_tip r) (cr_ridx r)) ->
  trimmed_by (map active_of act) o = false.
Proof.
  intros act o H. unfold trimmed_by.
  destruct (existsb _ _) eqn:E; [|reflexivity]. exfalso.
  apply existsb_exists in E. destruct E as [a [Ha Ht]].
  apply in_map_iff in Ha. destruct Ha as [r [<- Hr]]. apply elem_of_list_In in Hr.
  unfold trimmed_one, act_start, active_of, trim_scid in Ht.
  destruct (cr_pending r) eqn:Hp; [discriminate|].
  destruct (N.eqb (cr_short r) 0); [discriminate|].
  cbn [fst snd] in Ht. apply andb_true_iff in Ht. destruct Ht as [He Hl].
  apply N.eqb_eq in He. apply N.leb_le in Hl.
  specialize (H r Hr Hp (eq_sym He)). lia.
Qed.

Lemma restart_identity : forall closed resmsg act d nxt m' d',
  let rc := rc_of_records closed resmsg act in
  restart rc d nxt = (m', d') ->
  contiguous_on_disk rc d ->
  (forall r j, r ∈ act -> cr_pending r = false -> link_scid r <> 0 ->
     next_local_htlc_index (cr_tip r) (cr_ridx r) <= j ->
     opened m' !! (link_scid r, j) = None /\
     (single_keystone (d_ks d) ->
      forall k, d_ks d !! (link_scid r, j) = Some k -> pending m' !! k <> None ->
        exists ob, found_obj m' k = Some ob /\ o_out ob = None /\ classify (Some ob) = AFail)) /\
  (forall (o k : key), live_ks rc d o k ->
     (forall r, r ∈ act -> cr_pending r = false -> link_scid r = o.1 ->
        o.2 < next_local_htlc_index (cr_tip r) (cr_ridx r)) ->
     opened m' !! o = Some (inr k) /\
     (single_keystone (d_ks d) ->
      exists ob, found_obj m' k = Some ob /\ o_out ob = Some o /\ classify (Some ob) = ADrop)).
Proof.
  intros closed resmsg act d nxt m' d' rc Hr Hc.
  destruct (restart_exact rc d nxt m' d' Hr Hc) as
    (_ & Hadds & _ & Hpend & Hobj & Hcls & Hop & _ & _ & Hsk).
  split.
  - intros r j Hin Hp Hz Hj.
    assert (Ht : trimmed_by (rc_active rc) (link_scid r, j) = true)
      by (apply trimmed_by_record; assumption).
    assert (Hnone : opened m' !! (link_scid r, j) = None).
    { destruct (opened m' !! (link_scid r, j)) as [id|] eqn:E; [|reflexivity].
      apply Hop in E. destruct E as (k & _ & _ & Hf). rewrite Ht in Hf. discriminate. }
    split; [exact Hnone|].
    intros Hs k Hk Hpk.
    destruct (Hcls k Hpk) as (ob & Hfo & Hld & Hcl).
    exists ob. split; [exact Hfo|].
    assert (Hout : o_out ob = None).
    { destruct (o_out ob) as [o'|] eqn:Eo; [|reflexivity]. exfalso.
      unfold found_obj in Hfo. destruct (pending m' !! k) as [id|] eqn:Ep; [|discriminate].
      pose proof (proj1 (Hpend k id) Ep) as [-> _].
      destruct (get_obj m' (inr k)) as [ob'|] eqn:Eg.
      - cbn in Hfo. injection Hfo as <-.
        pose proof (proj1 (Hsk Hs k (inr k) ob' o' Ep Eg) Eo) as Hopn.
        pose proof (proj1 (Hop o' (inr k)) Hopn) as (k' & Hk' & Hlive & _).
        injection Hk' as <-. destruct Hlive as (Hd & _).
        pose proof (Hs _ _ _ Hd Hk) as Heq. subst o'.
        pose proof (eq_trans (eq_sym Hopn) Hnone) as Habs. discriminate Habs.
      - cbn in Hfo. injection Hfo as <-. cbn in Eo. discriminate. }
    split; [exact Hout|]. rewrite Hcl, Hout. reflexivity.
  - intros o k Hlive Hlt.
    assert (Ht : trimmed_by (rc_active rc) o = false)
      by (apply not_trimmed_by_record; exact Hlt).
    assert (Hopn : opened m' !! o = Some (inr k)).
    { apply Hop. exists k. split; [reflexivity|]. split; assumption. }
    split; [exact Hopn|].
    intros Hs. destruct Hlive as (Hd & Hpk & Hpa & Hne).
    destruct (d_adds d !! k) as [pay|] eqn:Ea; [|contradiction].
    assert (Ea' : d_adds d' !! k = Some pay) by (apply Hadds; split; assumption).
    assert (Ep : pending m' !! k = Some (inr k)).
    { apply Hpend. split; [reflexivity|]. exists pay. exact Ea'. }
    assert (Hpk' : pending m' !! k <> None) by (intros Habs; pose proof (eq_trans (eq_sym Ep) Habs) as Habs2; discriminate Habs2).
    destruct (Hcls k Hpk') as (ob & Hfo & Hld & Hcl).
    exists ob. split; [exact Hfo|].
    assert (Hout : o_out ob = Some o).
    { unfold found_obj in Hfo. destruct (pending m' !! k) as [id|] eqn:Ep2; [|discriminate].
      pose proof (proj1 (Hpend k id) Ep2) as [-> _].
      destruct (get_obj m' (inr k)) as [ob'|] eqn:Eg.
      - cbn in Hfo. injection Hfo as <-.
        apply (proj2 (Hsk Hs k (inr k) ob' o Ep2 Eg)). exact Hopn.
      - cbn in Hfo. injection Hfo as <-. cbn in Hld. discriminate. }
    split; [exact Hout|]. rewrite Hcl, Hout. reflexivity.
Qed.
