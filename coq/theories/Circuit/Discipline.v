(* C07 — the call discipline of link.go / switch.go as a predicate on
   sequential operation histories, and the memory-coherence invariant it
   maintains (definitions only; proofs in DisciplineProofs.v). *)
From stdpp Require Import gmap.
From LV Require Import Circuit.Model Circuit.Spec.
Local Open Scope N_scope.

(* ------------------------------------------------------------------ *)
(* definitions                                                          *)

(* memory coherence: pending / opened / the objects' Outgoing agree *)
Definition mem_coherent (m : mem) : Prop :=
  (forall (k : key) id, pending m !! k = Some id -> exists o, get_obj m id = Some o /\ o_inc o = k) /\
  (forall (k : key) id o ok, pending m !! k = Some id -> get_obj m id = Some o -> o_out o = Some ok ->
     opened m !! ok = Some id) /\
  (forall (ok : key) id, opened m !! ok = Some id ->
     exists k o, pending m !! k = Some id /\ get_obj m id = Some o /\ o_out o = Some ok) /\
  (forall (k : key) n, pending m !! k = Some (inl n) -> n < next m).

(* a sequential history: every call runs to completion (its transaction
   committing or failing) before the next one starts; restarts anywhere *)
Inductive sop :=
| SCall (c : call) (ok : bool)
| SRestart (rc : rconf).

Definition sstep (c : config) (o : sop) : config :=
  match o with
  | SCall cl ok => (run c [ICall 0 cl; IDisk 0 ok; IMem 0]).1
  | SRestart rc => (step c (IRestart rc)).1
  end.

Definition srun (c : config) (ops : list sop) : config := foldl sstep c ops.

(* THE DISCIPLINE.  Calls: Spec.call_disciplined (one fresh keystone per
   half-open circuit and per batch; deletes only after a response).  Restarts:
   the disk holds one keystone per circuit (no stale keystone left behind by a
   failed TrimOpenCircuits transaction, hazard 2). *)
Definition op_disciplined (c : config) (o : sop) : Prop :=
  match o with
  | SCall cl _ => call_disciplined (c_mem c) cl
  | SRestart rc => single_keystone (d_ks (c_disk c))
  end.

Fixpoint seq_disciplined (c : config) (ops : list sop) : Prop :=
  match ops with
  | [] => True
  | o :: r => op_disciplined c o /\ seq_disciplined (sstep c o) r
  end.

