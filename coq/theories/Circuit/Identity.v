(* C07 — CHANNEL IDENTITY: which of the identifiers a channel-database record
   carries the restart logic of the circuit map uses.  Executable definitions only
   (no proofs); the restart itself is Model.restart.

   A chanstate.OpenChannel record carries several identifiers:
     - ShortChannelID: the id passed to MarkAsOpen.  For a normal channel (also an
       option-scid-alias channel that is not zero-conf) the confirmed on-chain scid;
       for a ZERO-CONF channel an ALIAS, for the channel's whole life
       (funding/manager.go opens zero-conf channels under their alias);
     - confirmedScid: the on-chain scid of a zero-conf channel once its funding
       transaction confirmed (MarkRealScid; re-set after a reorg); hop.Source = 0
       while unconfirmed;
     - the channel-type bits (zero-conf, option-scid-alias).
   The link keys EVERY outgoing circuit and keystone of the channel by
   channelLink.ShortChanID() (htlcswitch/link.go:2150, :1689, :2034) =
   LightningChannel.ShortChanID() (lnwallet/channel.go:6781) =
   OpenChannel.ShortChanID() = ShortChannelID, never by the confirmed scid. *)
From stdpp Require Import gmap.
From LV Require Import Circuit.Model.
Local Open Scope N_scope.

Record chanrec := ChanRec {
  cr_short : N;            (* OpenChannel.ShortChannelID *)
  cr_zeroconf : bool;      (* ChanType.HasZeroConf() *)
  cr_scidalias : bool;     (* ChanType.HasScidAliasChan() *)
  cr_confirmed : N;        (* confirmedScid, 0 = hop.Source = not confirmed *)
  cr_pending : bool;       (* IsPending *)
  cr_tip : option N;       (* RemoteCommitChainTip's LocalHtlcIndex *)
  cr_ridx : N              (* RemoteCommitment.LocalHtlcIndex *)
}.

(* the id the channel's link uses for its outgoing circuit keys *)
Definition link_scid (r : chanrec) : N := cr_short r.

(* the id trimAllOpenCircuits hands to TrimOpenCircuits
   (htlcswitch/circuit_map.go:666: chanID := activeChannel.ShortChanID()) *)
Definition trim_scid (r : chanrec) : N := cr_short r.

(* the id of the close summary cleanClosedChannels matches circuit keys against
   (contractcourt/chain_watcher.go:1354, :1498, …; lnwallet/channel.go:2277, …:
   ShortChanID: chanState.ShortChanID()) *)
Definition summary_scid (r : chanrec) : N := cr_short r.

Definition active_of (r : chanrec) : N * bool * option N * N :=
  (trim_scid r, cr_pending r, cr_tip r, cr_ridx r).

(* the restart configuration NewCircuitMap derives from the channel database:
   FetchClosedChannels (record, summary.IsPending), the resolution messages,
   FetchAllOpenChannels *)
Definition rc_of_records (closed : list (chanrec * bool)) (resmsg : list key)
    (act : list chanrec) : rconf :=
  RConf (map (fun x : chanrec * bool => (summary_scid x.1, x.2)) closed) resmsg (map active_of act).
