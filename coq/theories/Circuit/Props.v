(* C07 — property theorems (statements only; proofs in Proofs.v).
   `run init ins` executes ANY list of phase-step inputs over any number of
   thread ids: every interleaving of the memory/disk/memory phases of
   concurrent CommitCircuits / OpenCircuits / TrimOpenCircuits / CloseCircuit /
   FailCircuit / DeleteCircuits calls, with every transaction succeeding or
   failing, and restarts at any point. *)
From stdpp Require Import gmap.
From LV Require Import Circuit.Model Circuit.Proofs.
Local Open Scope N_scope.

(* Between two CommitCircuits memory phases that both decide Add for the same
   incoming key there is a step that removed the key from the pending set
   (DeleteCircuits' memory phase, or the rollback of a failed commit of that
   key) or a restart.  No bound on the run, the batches or the thread count. *)
Theorem C07_add_once : forall ins c' tr k pre e1 mid e2 post,
  run init ins = (c', tr) ->
  tr = pre ++ e1 :: mid ++ e2 :: post ->
  k ∈ ev_add_decided e1 -> k ∈ ev_add_decided e2 ->
  exists x, x ∈ mid /\ (k ∈ ev_removed x \/ ev_restart x = true).
Proof. exact add_once. Qed.

(* ... and the Adds a call returns are exactly the keys its memory phase
   decided, returned only after the batch write succeeded. *)
Theorem C07_adds_returned_are_decided : forall c t cr adds drops fails err c',
  c_thr c !! t = Some (KCommitPost true cr) ->
  step c (IMem t) = (c', OCommit adds drops fails err) ->
  adds = keys_of (c_adds cr) /\ err = false.
Proof. exact adds_returned_are_decided. Qed.

(* Between two successful CloseCircuit/FailCircuit calls answering the same
   incoming key there is a DeleteCircuits memory phase that removed the key
   (or a commit rollback of it) or a restart: closed-set arbitration, under
   every interleaving. *)
Theorem C07_one_response_per_run : forall ins c' tr k pre e1 mid e2 post,
  run init ins = (c', tr) ->
  tr = pre ++ e1 :: mid ++ e2 :: post ->
  ev_responded e1 = Some k -> ev_responded e2 = Some k ->
  exists x, x ∈ mid /\ (k ∈ ev_removed x \/ ev_restart x = true).
Proof. exact one_response_per_run. Qed.

(* Restart, for ANY disk contents and any closed/active/resolution-message
   configuration.  PARTIAL: the pending side, the purge rule for circuits and
   the Fail-not-Add decision are proved; the characterisation of the keystones
   that survive (opened = disk keystones below NextLocalHtlcIndex, under the
   contiguity hypothesis) is exercised by the correspondence run only. *)
Theorem C07_restart_exact_partial : forall rc d nxt m' d',
  restart rc d nxt = (m', d') ->
  (* nothing is closing after a restart *)
  closed m' = ∅ /\
  (* durable circuits = old ones minus the purged ones ... *)
  (forall k pay, d_adds d' !! k = Some pay <-> d_adds d !! k = Some pay /\ purged_add rc d k = false) /\
  (* ... where purged means: incoming channel fully closed, or some keystone of it
     is purged (its incoming or outgoing channel fully closed, unless an on-chain
     resolution for the outgoing key still awaits delivery) *)
  (forall k, purged_add rc d k = true <->
     is_closed (closed_set rc) k.1 = true \/
     exists o, d_ks d !! o = Some k /\ purge_ks_pred rc (o, k) = true) /\
  (* memory knows exactly the durable circuits *)
  (forall k id, pending m' !! k = Some id <-> id = inr k /\ exists pay, d_adds d' !! k = Some pay) /\
  (forall k id o, pending m' !! k = Some id -> get_obj m' id = Some o ->
     o_inc o = k /\ o_loaded o = true /\ d_adds d' !! k = Some (o_pay o)) /\
  (* a re-forward of a restored circuit is never an Add: Drop while it has a
     keystone, FAIL once its keystone was rolled back *)
  (forall k, pending m' !! k <> None ->
     exists o, found_obj m' k = Some o /\ o_loaded o = true /\
       classify (Some o) = match o_out o with Some _ => ADrop | None => AFail end).
Proof.
  intros rc d nxt m' d' H.
  destruct (restart_pending _ _ _ _ _ H) as (A & B & C & D).
  split; [exact A|]. split; [exact B|]. split; [intros k; apply purged_add_spec|].
  split; [exact C|]. split; [exact D|].
  intros k Hk. eapply restart_classify; eauto.
Qed.

(* A failed transaction of CommitCircuits / OpenCircuits leaves memory (all
   maps; no existing object touched), disk and the caller set as before the
   call, from ANY state.  PARTIAL: the same statement for DeleteCircuits (which
   needs the well-formedness wf_out of the state) is checked on the
   implementation by the harness but not proved; TrimOpenCircuits has no
   rollback in the code (see Examples.trim_failure_not_rolled_back). *)
Theorem C07_rollback_partial : forall c t,
  c_thr c !! t = None ->
  (forall cs c1 k1, step c (ICall t (CCommit cs)) = (c1, OYield k1) ->
     let c3 := (step (step c1 (IDisk t false)).1 (IMem t)).1 in
     mem_same (c_mem c) (c_mem c3) /\ c_disk c3 = c_disk c /\ c_thr c3 = c_thr c) /\
  (forall kss c1 k1, step c (ICall t (COpen kss)) = (c1, OYield k1) ->
     let c3 := (step (step c1 (IDisk t false)).1 (IMem t)).1 in
     c_mem c3 = c_mem c /\ c_disk c3 = c_disk c /\ c_thr c3 = c_thr c).
Proof.
  intros c t Ht. split.
  - intros cs c1 k1 H. exact (rollback_commit_cfg c t cs c1 k1 Ht H).
  - intros kss c1 k1 H. exact (rollback_open_cfg c t kss c1 k1 Ht H).
Qed.
