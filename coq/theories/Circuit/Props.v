(* C07 — property theorems (statements only; proofs in Proofs.v).
   `run init ins` executes ANY list of phase-step inputs over any number of
   thread ids: every interleaving of the memory/disk/memory phases of
   concurrent CommitCircuits / OpenCircuits / TrimOpenCircuits / CloseCircuit /
   FailCircuit / DeleteCircuits calls, with every transaction succeeding or
   failing, and restarts at any point. *)
From stdpp Require Import gmap.
From LV Require Import Circuit.Model Circuit.Spec Circuit.Discipline Circuit.Proofs Circuit.RestartProofs
  Circuit.RollbackProofs Circuit.DisciplineProofs Circuit.Identity Circuit.IdentityProofs.
Local Open Scope N_scope.

(* Between two CommitCircuits memory phases that both decide Add for the same
   incoming key there is a step that removed the key from the pending set
   (DeleteCircuits' memory phase, or the rollback of a failed commit of that
   key) or a restart.  No bound on the run, the batches or the thread count. *)
Theorem C07_add_once : forall ins c' tr k pre e1 mid e2 post,
  run init ins = (c', tr) ->
  tr = pre ++ e1 :: mid ++ e2 :: post ->
  k ∈ ev_add_decided e1 -> k ∈ ev_add_decided e2 ->
  exists x, x ∈ mid /\ (k ∈ ev_removed x \/ ev_restart x = true).
Proof. exact add_once. Qed.

(* ... and the Adds a call returns are exactly the keys its memory phase
   decided, returned only after the batch write succeeded. *)
Theorem C07_adds_returned_are_decided : forall c t cr adds drops fails err c',
  c_thr c !! t = Some (KCommitPost true cr) ->
  step c (IMem t) = (c', OCommit adds drops fails err) ->
  adds = keys_of (c_adds cr) /\ err = false.
Proof. exact adds_returned_are_decided. Qed.

(* Between two successful CloseCircuit/FailCircuit calls answering the same
   incoming key there is a DeleteCircuits memory phase that removed the key
   (or a commit rollback of it) or a restart: closed-set arbitration, under
   every interleaving. *)
Theorem C07_one_response_per_run : forall ins c' tr k pre e1 mid e2 post,
  run init ins = (c', tr) ->
  tr = pre ++ e1 :: mid ++ e2 :: post ->
  ev_responded e1 = Some k -> ev_responded e2 = Some k ->
  exists x, x ∈ mid /\ (k ∈ ev_removed x \/ ev_restart x = true).
Proof. exact one_response_per_run. Qed.

(* Restart (NewCircuitMap on the same DB), for ANY disk contents and any
   closed / active / resolution-message configuration.

   Hypothesis [contiguous_on_disk] is the LINK DISCIPLINE TrimOpenCircuits relies
   on ("outgoing htlc id's must be assigned in order, so there should never be
   disjoint segments of keystones to trim", circuit_map.go:706): the surviving
   keystones of an active channel at or above its NextLocalHtlcIndex form one
   contiguous block starting there.  It is checked on every real run by the
   python predicate; without it the clause is FALSE (C07_restart_gap_refuted). *)
Theorem C07_restart_exact : forall rc d nxt m' d',
  restart rc d nxt = (m', d') ->
  contiguous_on_disk rc d ->
  (* nothing is closing after a restart *)
  closed m' = ∅ /\
  (* durable circuits = old ones minus the purged ones ... *)
  (forall k pay, d_adds d' !! k = Some pay <-> d_adds d !! k = Some pay /\ purged_add rc d k = false) /\
  (* ... where purged means: incoming channel fully closed, or some keystone of it
     is purged (its incoming or outgoing channel fully closed, unless an on-chain
     resolution for the outgoing key still awaits delivery) *)
  (forall k, purged_add rc d k = true <->
     is_closed (closed_set rc) k.1 = true \/
     exists o, d_ks d !! o = Some k /\ purge_ks_pred rc (o, k) = true) /\
  (* memory knows exactly the durable circuits *)
  (forall k id, pending m' !! k = Some id <-> id = inr k /\ exists pay, d_adds d' !! k = Some pay) /\
  (forall k id o, pending m' !! k = Some id -> get_obj m' id = Some o ->
     o_inc o = k /\ o_loaded o = true /\ d_adds d' !! k = Some (o_pay o)) /\
  (* a re-forward of a restored circuit is never an Add: Drop while it has a
     keystone, FAIL once its keystone was rolled back *)
  (forall k, pending m' !! k <> None ->
     exists o, found_obj m' k = Some o /\ o_loaded o = true /\
       classify (Some o) = match o_out o with Some _ => ADrop | None => AFail end) /\
  (* SURVIVING KEYSTONES: a circuit stays open exactly if its keystone survived the
     closed-channel purge, its circuit is durable, and its outgoing HtlcID is below
     NextLocalHtlcIndex of its (active, non-pending) channel ... *)
  (forall (o : key) id, opened m' !! o = Some id <->
     exists k, id = inr k /\ live_ks rc d o k /\ trimmed_by (rc_active rc) o = false) /\
  (* ... the others are rolled back ON DISK as well (a stray keystone without circuit
     is pruned only for hop.Source) ... *)
  (forall o k : key, d_ks d' !! o = Some k <->
     d_ks d !! o = Some k /\ purge_ks_pred rc (o, k) = false /\
     (d_adds d' !! k <> None -> trimmed_by (rc_active rc) o = false) /\
     (d_adds d' !! k = None -> o.1 <> 0)) /\
  (* ... and the circuit's Outgoing field: nil as soon as one of its keystones was
     rolled back, else the last keystone in bbolt key order *)
  (forall (k : key) id ob, pending m' !! k = Some id -> get_obj m' id = Some ob ->
     o_out ob = if existsb (trimmed_by (rc_active rc)) (outs_of (d_ks (clean rc d)) k) then None
                else max_key (outs_of (d_ks (clean rc d)) k)) /\
  (* with one keystone per circuit (link discipline) the circuit is half-open
     exactly if it is not opened: it is then failed back, not lost or doubled *)
  (single_keystone (d_ks d) ->
   forall (k : key) id ob (o : key), pending m' !! k = Some id -> get_obj m' id = Some ob ->
     (o_out ob = Some o <-> opened m' !! o = Some (inr k))).
Proof. exact restart_exact. Qed.

(* The contiguity hypothesis is necessary: with a gap in the outgoing HtlcIDs the
   scan of TrimOpenCircuits stops early and a keystone at or above
   NextLocalHtlcIndex (an HTLC that never reached a commitment) survives the
   restart, in memory and on disk; its circuit stays open and a re-forward is
   dropped.  The history is replayed on the real circuitMap by the harness
   (witness case "gap"). *)
Theorem C07_restart_gap_refuted :
  exists ins rc (o k : key),
    let c := (run init ins).1 in
    let '(m', d') := restart rc (c_disk c) (next (c_mem c)) in
    ~ contiguous_on_disk rc (c_disk c) /\
    trimmed_by (rc_active rc) o = true /\
    opened m' !! o = Some (inr k) /\ d_ks d' !! o = Some k /\
    classify (found_obj m' k) = ADrop.
Proof. exact restart_gap_refuted. Qed.

(* A failed transaction of CommitCircuits / OpenCircuits / DeleteCircuits leaves
   memory, disk and the caller set as before the call.  For CommitCircuits "memory
   as before" is [mem_same]: every map equal, no existing object touched (the
   circuits the caller allocated stay behind, unreachable).  DeleteCircuits needs
   the well-formedness [wf_out] of the memory it starts from (a pending circuit that
   claims an outgoing key is the circuit opened under that key); wf_out is checked
   on the implementation's state before every failed delete by the python predicate,
   and fails only after API misuse the link cannot produce (C07 notes, hazards 1/4).
   TrimOpenCircuits has NO rollback in the code: after a failed transaction it
   returns the error, memory stays trimmed and the disk keeps the keystones. *)
Theorem C07_rollback : forall c t,
  c_thr c !! t = None ->
  (forall cs c1 k1, step c (ICall t (CCommit cs)) = (c1, OYield k1) ->
     let c3 := (step (step c1 (IDisk t false)).1 (IMem t)).1 in
     mem_same (c_mem c) (c_mem c3) /\ c_disk c3 = c_disk c /\ c_thr c3 = c_thr c) /\
  (forall kss c1 k1, step c (ICall t (COpen kss)) = (c1, OYield k1) ->
     let c3 := (step (step c1 (IDisk t false)).1 (IMem t)).1 in
     c_mem c3 = c_mem c /\ c_disk c3 = c_disk c /\ c_thr c3 = c_thr c) /\
  (wf_out (c_mem c) ->
   forall ks c1 k1, step c (ICall t (CDelete ks)) = (c1, OYield k1) ->
     let c3 := (step (step c1 (IDisk t false)).1 (IMem t)).1 in
     c_mem c3 = c_mem c /\ c_disk c3 = c_disk c /\ c_thr c3 = c_thr c) /\
  (forall ch s c1 outs, step c (ICall t (CTrim ch s)) = (c1, OYield (KTrim outs)) ->
     let '(c3, o) := step (step c1 (IDisk t false)).1 (IMem t) in
     o = OErr E_DISK /\ c_mem c3 = c_mem c1 /\ c_disk c3 = c_disk c /\ c_thr c3 = c_thr c /\
     outs <> [] /\
     forall x, x ∈ outs -> opened (c_mem c) !! x <> None /\ opened (c_mem c3) !! x = None).
Proof.
  intros c t Ht. split; [|split; [|split]].
  - intros cs c1 k1 H. exact (rollback_commit_cfg c t cs c1 k1 Ht H).
  - intros kss c1 k1 H. exact (rollback_open_cfg c t kss c1 k1 Ht H).
  - intros Hwf ks c1 k1 H. exact (rollback_delete_cfg c t ks c1 k1 Hwf Ht H).
  - intros ch s c1 outs H. exact (trim_no_rollback c t ch s c1 outs Ht H).
Qed.

(* The state-level hypotheses above are what the CALL DISCIPLINE of link.go /
   switch.go maintains.  For every sequential history (each call run to completion,
   its transaction committing or failing; restarts anywhere) in which
     - every OpenCircuits batch has pairwise distinct incoming and outgoing keys and
       only opens circuits that are pending and half-open (link.go:2034: one keystone
       per Add packet, outgoing index fresh from channel.AddHTLC),
     - DeleteCircuits is only called for circuits that were answered through
       CloseCircuit / FailCircuit (switch.go:1412, link.go:1971, :1814),
     - at a restart the disk holds one keystone per circuit,
   the memory of the circuit map stays coherent: every pending circuit has its
   object, a circuit that claims a keystone is the circuit opened under it, and every
   open circuit is the keystone of a pending circuit (no dangling or stolen
   keystones: API hazards 1 and 4 of notes/C07.md cannot arise); in particular
   wf_out holds, so C07_rollback's DeleteCircuits clause applies in every such state.
   (Concurrent histories are covered by C07_add_once / C07_one_response_per_run,
   which need no discipline.) *)
Theorem C07_discipline_invariant : forall ops,
  seq_disciplined init ops ->
  let c := srun init ops in
  c_thr c = ∅ /\ mem_coherent (c_mem c) /\ wf_out (c_mem c).
Proof. exact discipline_invariant. Qed.

(* CHANNEL IDENTITY.  The restart takes the channels and their identifiers from the
   channel database.  A record (Identity.chanrec) carries ShortChannelID (for a
   zero-conf channel an ALIAS, for its whole life), the confirmed on-chain scid of a
   zero-conf channel (set by MarkRealScid, re-set after a reorg) and the channel-type
   bits; the channel's link keys every outgoing circuit by [link_scid] = ShortChannelID
   (link.go:2150).  For ANY set of records - whatever their confirmed scid and type
   bits are - and any disk (contiguous, as in C07_restart_exact):
     - every keystone keyed by the LINK's id of an open, non-pending channel whose
       HtlcID is at or above the channel's NextLocalHtlcIndex (its HTLC never reached a
       commitment) is not open after the restart, and (one keystone per circuit) its
       circuit is half-open, so a re-forward of the incoming ADD is FAILED back;
     - every surviving keystone whose HtlcID is below NextLocalHtlcIndex of every open
       channel using that id stays open under that same id, and a re-forward is dropped.
   The tie (harness/htlcswitch/verif_circuit_ident_test.go) builds real channeldb
   records of every identity kind and compares the real NewCircuitMap against
   [restart (rc_of_records ...)] with cr_short := the id the live link uses. *)
Theorem C07_restart_identity : forall closed resmsg act d nxt m' d',
  let rc := rc_of_records closed resmsg act in
  restart rc d nxt = (m', d') ->
  contiguous_on_disk rc d ->
  (forall r j, r ∈ act -> cr_pending r = false -> link_scid r <> 0 ->
     next_local_htlc_index (cr_tip r) (cr_ridx r) <= j ->
     opened m' !! (link_scid r, j) = None /\
     (single_keystone (d_ks d) ->
      forall k, d_ks d !! (link_scid r, j) = Some k -> pending m' !! k <> None ->
        exists ob, found_obj m' k = Some ob /\ o_out ob = None /\ classify (Some ob) = AFail)) /\
  (forall (o k : key), live_ks rc d o k ->
     (forall r, r ∈ act -> cr_pending r = false -> link_scid r = o.1 ->
        o.2 < next_local_htlc_index (cr_tip r) (cr_ridx r)) ->
     opened m' !! o = Some (inr k) /\
     (single_keystone (d_ks d) ->
      exists ob, found_obj m' k = Some ob /\ o_out ob = Some o /\ classify (Some ob) = ADrop)).
Proof. exact restart_identity. Qed.
