(* C07 — specification-level definitions used in the statements of Props.v
   (no proofs here, and nothing the executable model depends on). *)
From stdpp Require Import gmap.
From LV Require Import Circuit.Model.
Local Open Scope N_scope.

(* ---- TrimOpenCircuits' rule ------------------------------------------------ *)

(* the scan of TrimOpenCircuits(ch, s): (ch, j) is reached iff every index
   s, s+1, .., j of the channel is an open circuit *)
Definition run_from (op : gmap key oid) (ch s : N) (o : key) : Prop :=
  o.1 = ch /\ s <= o.2 /\ forall j, s <= j <= o.2 -> op !! (ch, j) <> None.

(* trimAllOpenCircuits: the (channel, NextLocalHtlcIndex) an entry of
   FetchAllOpenChannels is trimmed with (pending channels and the all-zero
   hop.Source id are skipped) *)
Definition act_start (a : N * bool * option N * N) : option (N * N) :=
  let '(scid, isp, tip, ridx) := a in
  if (isp : bool) then None
  else if N.eqb scid 0 then None
  else Some (scid, next_local_htlc_index tip ridx).

(* o is an outgoing key at or above NextLocalHtlcIndex of its (active) channel:
   its HTLC never reached a commitment *)
Definition trimmed_one (a : N * bool * option N * N) (o : key) : bool :=
  match act_start a with
  | Some (ch, s) => N.eqb o.1 ch && N.leb s o.2
  | None => false
  end.

Definition trimmed_by (act : list (N * bool * option N * N)) (o : key) : bool :=
  existsb (fun a => trimmed_one a o) act.

(* LINK DISCIPLINE (htlcswitch/link.go): outgoing HtlcIDs are allocated
   consecutively by channel.AddHTLC and a keystone batch is opened right before
   the commitment that covers it is signed, so the open circuits of a channel at
   or above its NextLocalHtlcIndex form one contiguous block starting there. *)
Definition contiguous_above (op : gmap key oid) (act : list (N * bool * option N * N)) : Prop :=
  forall a ch s, a ∈ act -> act_start a = Some (ch, s) ->
    forall j, op !! (ch, j) <> None -> s <= j ->
    forall i, s <= i <= j -> op !! (ch, i) <> None.

(* the keystones that survive cleanClosedChannels and still have their circuit:
   exactly cm.opened after restoreMemState *)
Definition live_ks (rc : rconf) (d : disk) (o k : key) : Prop :=
  d_ks d !! o = Some k /\ purge_ks_pred rc (o, k) = false /\
  purged_add rc d k = false /\ d_adds d !! k <> None.

Definition contiguous_on_disk (rc : rconf) (d : disk) : Prop :=
  forall a ch s, a ∈ rc_active rc -> act_start a = Some (ch, s) ->
    forall j k, live_ks rc d (ch, j) k -> s <= j ->
    forall i, s <= i <= j -> exists k', live_ks rc d (ch, i) k'.

(* LINK DISCIPLINE: a circuit is opened once (one keystone per incoming key) *)
Definition single_keystone (ks : gmap key key) : Prop :=
  forall o1 o2 k, ks !! o1 = Some k -> ks !! o2 = Some k -> o1 = o2.

(* ---- well-formedness needed by DeleteCircuits' rollback --------------------- *)

(* a pending circuit that claims an outgoing key is the circuit opened under
   that key *)
Definition wf_out (m : mem) : Prop :=
  forall k id o ok, pending m !! k = Some id -> get_obj m id = Some o -> o_out o = Some ok ->
    opened m !! ok = Some id /\ o_inc o = k.

(* ---- call discipline of the link / switch (htlcswitch/link.go, switch.go) --- *)

(* OpenCircuits(l.keystoneBatch...): one keystone per packet, outgoing indices
   fresh from channel.AddHTLC, each circuit still half-open *)
Definition open_disciplined (m : mem) (kss : list (key * key)) : Prop :=
  NoDup (map fst kss) /\ NoDup (map snd kss) /\
  forall ik ok, (ik, ok) ∈ kss ->
    exists o, found_obj m ik = Some o /\ o_out o = None.

(* DeleteCircuits is only called for circuits whose response went through
   CloseCircuit/FailCircuit (teardownCircuit, ackDownStreamPackets,
   cleanupSpuriousResponse) *)
Definition delete_disciplined (m : mem) (ks : list key) : Prop :=
  forall k, k ∈ ks -> pending m !! k <> None -> k ∈ closed m.

Definition call_disciplined (m : mem) (c : call) : Prop :=
  match c with
  | COpen kss => open_disciplined m kss
  | CDelete ks => delete_disciplined m ks
  | _ => True
  end.
