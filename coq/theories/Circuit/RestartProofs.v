(* C07 — TrimOpenCircuits / trimAllOpenCircuits / restart: exact
   characterisation of the surviving keystones. *)
From stdpp Require Import gmap.
From LV Require Import Circuit.Model Circuit.Spec Circuit.Proofs.
Local Open Scope N_scope.

(* ------------------------------------------------------------------ *)
(* heap access                                                          *)

Lemma get_obj_set_opened f m id : get_obj (set_opened f m) id = get_obj m id.
Proof. destruct id; reflexivity. Qed.

Lemma get_obj_upd g id0 m id :
  get_obj (upd_obj g id0 m) id = if decide (id = id0) then g <$> get_obj m id else get_obj m id.
Proof.
  destruct id0 as [n0|k0], id as [n|k]; cbn.
  - destruct (decide (n = n0)) as [->|Hne].
    + rewrite decide_True by reflexivity. apply lookup_alter.
    + rewrite decide_False by congruence. apply lookup_alter_ne. congruence.
  - rewrite decide_False by discriminate. reflexivity.
  - rewrite decide_False by discriminate. reflexivity.
  - destruct (decide (k = k0)) as [->|Hne].
    + rewrite decide_True by reflexivity. apply lookup_alter.
    + rewrite decide_False by congruence. apply lookup_alter_ne. congruence.
Qed.

(* objects hit by a list of trimmed outgoing keys *)
Definition hitb (op : gmap key oid) (l : list key) (id : oid) : bool :=
  existsb (fun o => bool_decide (op !! o = Some id)) l.

Lemma hitb_spec op l id : hitb op l id = true <-> exists o, o ∈ l /\ op !! o = Some id.
Proof.
  unfold hitb. rewrite existsb_exists. split.
  - intros (o & Hin & Hb). apply bool_decide_eq_true in Hb. exists o. split; [apply elem_of_list_In; exact Hin|exact Hb].
  - intros (o & Hin & Hb). exists o. split; [apply elem_of_list_In; exact Hin|apply bool_decide_eq_true; exact Hb].
Qed.

Lemma hitb_ext op op' l id :
  (forall o, o ∈ l -> op !! o = op' !! o) -> hitb op l id = hitb op' l id.
Proof.
  intros H. unfold hitb. induction l as [|o l IH]; [reflexivity|]. cbn.
  rewrite (H o) by left. f_equal. apply IH. intros o' Ho'. apply H. right. exact Ho'.
Qed.

Definition trim_obj (b : bool) (o : option obj) : option obj :=
  if b then set_out None <$> o else o.

(* ------------------------------------------------------------------ *)
(* TrimOpenCircuits' memory phase: exactly the contiguous run from start *)

Lemma run_from_step op ch i id0 o :
  op !! (ch, i) = Some id0 ->
  run_from op ch i o <-> o = (ch, i) \/ run_from (delete (ch, i) op) ch (i + 1) o.
Proof.
  intros Hl. unfold run_from. destruct o as [c h]; cbn. split.
  - intros (-> & Hle & Hall). destruct (decide (h = i)) as [->|Hne]; [left; reflexivity|right].
    split; [reflexivity|]. split; [lia|]. intros j Hj.
    rewrite lookup_delete_ne by (intros [=]; lia). apply Hall. lia.
  - intros [[= -> ->]|(-> & Hle & Hall)].
    + split; [reflexivity|]. split; [lia|]. intros j Hj. assert (j = i) as -> by lia. rewrite Hl. discriminate.
    + split; [reflexivity|]. split; [lia|]. intros j Hj.
      destruct (decide (j = i)) as [->|Hne]; [rewrite Hl; discriminate|].
      specialize (Hall j). rewrite lookup_delete_ne in Hall by (intros [=]; lia). apply Hall. lia.
Qed.

Lemma trim_mem_spec : forall fuel m ch i m' l,
  (size (opened m) < fuel)%nat ->
  trim_mem fuel m ch i = (m', l) ->
  (forall o, o ∈ l <-> run_from (opened m) ch i o) /\
  (forall o, opened m' !! o = if bool_decide (o ∈ l) then None else opened m !! o) /\
  (forall id, get_obj m' id = trim_obj (hitb (opened m) l id) (get_obj m id)).
Proof.
  induction fuel as [|f IH]; intros m ch i m' l Hsz H; [lia|]. cbn [trim_mem] in H.
  destruct (opened m !! (ch, i)) as [id0|] eqn:Hl.
  - destruct (trim_mem f _ ch (i + 1)) as [m1 l1] eqn:E. simplify_eq.
    apply IH in E as (E1 & E2 & E3).
    2:{ cbn [opened set_opened]. rewrite upd_obj_opened.
        assert (Hs : size (opened m) = S (size (delete (ch, i) (opened m)))).
        { rewrite <- (insert_delete (opened m) (ch, i) id0 Hl) at 1.
          rewrite map_size_insert_None by apply lookup_delete. reflexivity. }
        lia. }
    cbn [opened set_opened] in E1, E2, E3. rewrite upd_obj_opened in E1, E2, E3.
    assert (Hnot : forall o : key, o ∈ l1 -> o <> (ch, i)).
    { intros o Ho ->. apply E1 in Ho as (_ & Hle & _). cbn in Hle. lia. }
    split; [|split].
    + intros o. rewrite elem_of_cons, (run_from_step _ _ _ _ _ Hl), E1. reflexivity.
    + intros o. rewrite E2. destruct (decide (o = (ch, i))) as [->|Hne].
      * rewrite (bool_decide_eq_true_2 ((ch, i) ∈ (ch, i) :: l1)) by left.
        rewrite lookup_delete. destruct (bool_decide _); reflexivity.
      * rewrite lookup_delete_ne by congruence.
        repeat case_bool_decide; try reflexivity; exfalso; set_solver.
    + intros id. rewrite E3, get_obj_set_opened, get_obj_upd.
      rewrite (hitb_ext (delete (ch, i) (opened m)) (opened m) l1 id).
      2:{ intros o Ho. apply lookup_delete_ne. apply not_eq_sym, Hnot, Ho. }
      unfold hitb at 2. cbn [existsb]. fold (hitb (opened m) l1 id).
      destruct (decide (id = id0)) as [->|Hne]; case_bool_decide as Hbd.
      * cbn. destruct (hitb (opened m) l1 id0); cbn; destruct (get_obj m id0); reflexivity.
      * exfalso. apply Hbd. exact Hl.
      * exfalso. pose proof (eq_trans (eq_sym Hl) Hbd) as Heq. congruence.
      * reflexivity.
  - simplify_eq. split; [|split].
    + intros o. split; [intros Ho; apply elem_of_nil in Ho; contradiction|].
      intros (_ & Hle & Hall). exfalso. apply (Hall i); [lia|exact Hl].
    + intros o. reflexivity.
    + intros id. reflexivity.
Qed.

Lemma trim_disk_lookup outs : forall d o,
  d_ks (trim_disk d outs) !! o = if bool_decide (o ∈ outs) then None else d_ks d !! o.
Proof.
  unfold trim_disk. cbn. intros d. generalize (d_ks d). clear d.
  induction outs as [|x outs IH]; intros ks o; cbn [foldl]; [reflexivity|].
  rewrite IH. destruct (decide (o = x)) as [->|Hne].
  - rewrite lookup_delete. rewrite (bool_decide_eq_true_2 (x ∈ x :: outs)) by left.
    destruct (bool_decide _); reflexivity.
  - rewrite lookup_delete_ne by congruence.
    repeat case_bool_decide; try reflexivity; exfalso; set_solver.
Qed.

Lemma trim_disk_adds outs d : d_adds (trim_disk d outs) = d_adds d.
Proof. reflexivity. Qed.

(* ------------------------------------------------------------------ *)
(* trimAllOpenCircuits                                                  *)

Definition trim_entry (md : mem * disk) (a : N * bool * option N * N) : mem * disk :=
  match act_start a with
  | None => md
  | Some (ch, s) =>
    let '(m', outs) := trim_mem (trim_fuel md.1) md.1 ch s in (m', trim_disk md.2 outs)
  end.

Lemma trim_all_cons md a act : trim_all md (a :: act) = trim_all (trim_entry md a) act.
Proof.
  unfold trim_all. cbn [foldl]. f_equal. unfold trim_entry, act_start.
  destruct a as [[[scid isp] tip] ridx]. destruct isp; [reflexivity|].
  destruct (N.eqb scid 0); reflexivity.
Qed.

Definition hitP (act : list (N * bool * option N * N)) (op : gmap key oid) (id : oid) : Prop :=
  map_Exists (fun o id' => trimmed_by act o = true /\ id' = id) op.

Global Instance hitP_dec act op id : Decision (hitP act op id).
Proof. unfold hitP. apply _. Defined.

Lemma hitP_spec act op id : hitP act op id <-> exists o, trimmed_by act o = true /\ op !! o = Some id.
Proof.
  unfold hitP, map_Exists. split.
  - intros (o & id' & Hl & Ht & ->). eauto.
  - intros (o & Ht & Hl). eauto 6.
Qed.

Lemma trimmed_one_spec a o ch s :
  act_start a = Some (ch, s) -> trimmed_one a o = true <-> o.1 = ch /\ s <= o.2.
Proof.
  intros H. unfold trimmed_one. rewrite H. rewrite andb_true_iff, N.eqb_eq, N.leb_le. reflexivity.
Qed.

Lemma trim_entry_spec md a :
  contiguous_above (opened md.1) [a] ->
  let md' := trim_entry md a in
  (forall o : key, opened md'.1 !! o = if trimmed_one a o then None else opened md.1 !! o) /\
  (forall o : key, d_ks md'.2 !! o =
             match opened md.1 !! o with
             | Some _ => if trimmed_one a o then None else d_ks md.2 !! o
             | None => d_ks md.2 !! o
             end) /\
  (forall id, get_obj md'.1 id =
              trim_obj (bool_decide (hitP [a] (opened md.1) id)) (get_obj md.1 id)) /\
  d_adds md'.2 = d_adds md.2.
Proof.
  intros Hc. unfold trim_entry. cbn zeta.
  destruct (act_start a) as [[ch s]|] eqn:Ha.
  2:{ unfold trimmed_one. rewrite Ha. split; [reflexivity|]. split; [intros o; destruct (opened md.1 !! o); reflexivity|].
      split; [|reflexivity]. intros id. rewrite bool_decide_eq_false_2; [reflexivity|].
      rewrite hitP_spec. intros (o & Ht & _). unfold trimmed_by in Ht. cbn in Ht. unfold trimmed_one in Ht. rewrite Ha in Ht. discriminate. }
  destruct (trim_mem (trim_fuel md.1) md.1 ch s) as [m' outs] eqn:E.
  apply trim_mem_spec in E as (E1 & E2 & E3); [|unfold trim_fuel; lia]. cbn [fst snd].
  (* under contiguity the run is everything of the channel at or above s *)
  assert (Hin : forall o : key, o ∈ outs <-> trimmed_one a o = true /\ opened md.1 !! o <> None).
  { intros o. rewrite E1, (trimmed_one_spec _ _ _ _ Ha). unfold run_from. destruct o as [c h]; cbn. split.
    - intros (-> & Hle & Hall). split; [split; [reflexivity|exact Hle]|]. apply Hall. lia.
    - intros ((-> & Hle) & Hsome). split; [reflexivity|]. split; [exact Hle|].
      intros j Hj. eapply (Hc a ch s); eauto. left. }
  split; [|split; [|split]].
  - intros o. rewrite E2. destruct (bool_decide (o ∈ outs)) eqn:Hb.
    + apply bool_decide_eq_true, Hin in Hb as [-> _]. reflexivity.
    + apply bool_decide_eq_false in Hb. destruct (trimmed_one a o) eqn:Ht; [|reflexivity].
      destruct (opened md.1 !! o) eqn:Ho; [|reflexivity].
      exfalso. apply Hb, Hin. split; [exact Ht|]. rewrite Ho. discriminate.
  - intros o. rewrite trim_disk_lookup. destruct (bool_decide (o ∈ outs)) eqn:Hb.
    + apply bool_decide_eq_true, Hin in Hb as [-> Hs]. destruct (opened md.1 !! o); [reflexivity|contradiction].
    + apply bool_decide_eq_false in Hb. destruct (opened md.1 !! o) eqn:Ho; [|reflexivity].
      destruct (trimmed_one a o) eqn:Ht; [|reflexivity].
      exfalso. apply Hb, Hin. split; [exact Ht|]. rewrite Ho. discriminate.
  - intros id. rewrite E3. f_equal. apply eq_true_iff_eq. rewrite hitb_spec, bool_decide_eq_true, hitP_spec.
    unfold trimmed_by. cbn [existsb]. split.
    + intros (o & Ho & Hl). exists o. apply Hin in Ho as [-> _]. split; [reflexivity|exact Hl].
    + intros (o & Ht & Hl). exists o. split; [|exact Hl]. apply Hin. rewrite orb_false_r in Ht.
      split; [exact Ht|]. rewrite Hl. discriminate.
  - reflexivity.
Qed.

Lemma contiguous_above_cons op a act :
  contiguous_above op (a :: act) -> contiguous_above op [a] /\ contiguous_above op act.
Proof.
  intros H. split; intros b ch s Hb; apply H.
  - apply elem_of_list_singleton in Hb as ->. left.
  - right. exact Hb.
Qed.

(* removing everything of a channel at or above s keeps the other blocks contiguous *)
Lemma contiguous_above_trim op op' a act :
  (forall o : key, op' !! o = if trimmed_one a o then None else op !! o) ->
  contiguous_above op act -> contiguous_above op' act.
Proof.
  intros Hop Hc b ch s Hb Hs j Hj Hle i Hi.
  rewrite Hop in Hj. rewrite Hop.
  destruct (trimmed_one a (ch, j)) eqn:Htj; [contradiction|].
  destruct (trimmed_one a (ch, i)) eqn:Hti.
  - exfalso. unfold trimmed_one in Htj, Hti. destruct (act_start a) as [[c0 s0]|]; [|discriminate].
    cbn in Htj, Hti. apply andb_true_iff in Hti as [H1 H2]. rewrite H1 in Htj. cbn in Htj.
    apply N.leb_le in H2. apply N.leb_gt in Htj. lia.
  - eapply (Hc b ch s); eauto.
Qed.

Lemma trim_obj_trim_obj b1 b2 o : trim_obj b2 (trim_obj b1 o) = trim_obj (b1 || b2) o.
Proof. destruct b1, b2, o; reflexivity. Qed.

Lemma trim_all_spec : forall act md,
  contiguous_above (opened md.1) act ->
  let md' := trim_all md act in
  (forall o : key, opened md'.1 !! o = if trimmed_by act o then None else opened md.1 !! o) /\
  (forall o : key, d_ks md'.2 !! o =
             match opened md.1 !! o with
             | Some _ => if trimmed_by act o then None else d_ks md.2 !! o
             | None => d_ks md.2 !! o
             end) /\
  (forall id, get_obj md'.1 id =
              trim_obj (bool_decide (hitP act (opened md.1) id)) (get_obj md.1 id)) /\
  d_adds md'.2 = d_adds md.2.
Proof.
  induction act as [|a act IH]; intros md Hc; cbn zeta.
  - unfold trim_all. cbn. split; [reflexivity|]. split; [intros o; destruct (opened md.1 !! o); reflexivity|].
    split; [|reflexivity]. intros id. rewrite bool_decide_eq_false_2; [reflexivity|].
    rewrite hitP_spec. intros (o & Ht & _). discriminate.
  - rewrite trim_all_cons. apply contiguous_above_cons in Hc as [Hca Hcr].
    destruct (trim_entry_spec md a Hca) as (A1 & A2 & A3 & A4).
    set (md1 := trim_entry md a) in *.
    assert (Hc1 : contiguous_above (opened md1.1) act) by (eapply contiguous_above_trim; eauto).
    destruct (IH md1 Hc1) as (B1 & B2 & B3 & B4).
    split; [|split; [|split]].
    + intros o. rewrite B1, A1. cbn [trimmed_by existsb]. fold (trimmed_by act o).
      destruct (trimmed_one a o), (trimmed_by act o); reflexivity.
    + intros o. rewrite B2, A1, A2. cbn [trimmed_by existsb]. fold (trimmed_by act o).
      destruct (opened md.1 !! o); destruct (trimmed_one a o), (trimmed_by act o); reflexivity.
    + intros id. rewrite B3, A3, trim_obj_trim_obj. f_equal.
      apply eq_true_iff_eq. rewrite orb_true_iff, !bool_decide_eq_true, !hitP_spec. split.
      * intros [(o & Ht & Hl)|(o & Ht & Hl)].
        -- exists o. split; [|exact Hl]. cbn in Ht. rewrite orb_false_r in Ht. cbn. rewrite Ht. reflexivity.
        -- rewrite A1 in Hl. destruct (trimmed_one a o) eqn:Hta; [discriminate|].
           exists o. split; [|exact Hl]. cbn. rewrite Hta. exact Ht.
      * intros (o & Ht & Hl). cbn in Ht. destruct (trimmed_one a o) eqn:Hta.
        -- left. exists o. split; [cbn; rewrite Hta; reflexivity|exact Hl].
        -- right. exists o. split; [exact Ht|]. rewrite A1, Hta. exact Hl.
    + rewrite B4. exact A4.
Qed.

(* ------------------------------------------------------------------ *)
(* restoreMemState                                                      *)

Lemma elem_of_outs_of ks (k o : key) : o ∈ outs_of ks k <-> ks !! o = Some k.
Proof.
  unfold outs_of. rewrite elem_of_list_fmap. split.
  - intros ([o' k'] & -> & Hin). apply elem_of_list_filter in Hin as [Hk Hin]. cbn in *. subst k'.
    apply elem_of_map_to_list in Hin. exact Hin.
  - intros H. exists (o, k). split; [reflexivity|]. apply elem_of_list_filter. split; [reflexivity|].
    apply elem_of_map_to_list. exact H.
Qed.

Lemma restore_spec d nxt :
  let '(m0, d0) := restore d nxt in
  (forall o : key, opened m0 !! o =
     match d_ks d !! o with
     | Some k => match d_adds d !! k with Some _ => Some (inr k) | None => None end
     | None => None
     end) /\
  (forall k : key, get_obj m0 (inr k) =
     (fun pay => Obj k (max_key (outs_of (d_ks d) k)) true pay) <$> d_adds d !! k) /\
  (forall n, get_obj m0 (inl n) = None) /\
  (forall o k : key, d_ks d0 !! o = Some k <->
     d_ks d !! o = Some k /\ ~ (d_adds d !! k = None /\ o.1 = 0)) /\
  d_adds d0 = d_adds d.
Proof.
  unfold restore. cbn. split; [|split; [|split; [|split]]].
  - intros o. rewrite map_lookup_imap. destruct (d_ks d !! o); reflexivity.
  - intros k. rewrite map_lookup_imap. destruct (d_adds d !! k); reflexivity.
  - intros n. apply lookup_empty.
  - intros o k. rewrite map_filter_lookup_Some. cbn. split; intros [H1 H2]; (split; [exact H1|]).
    + intros [Hn Hz]. rewrite Hn in H2. rewrite bool_decide_eq_true_2 in H2 by reflexivity.
      apply N.eqb_eq in Hz. rewrite Hz in H2. exact H2.
    + destruct (bool_decide (d_adds d !! k = None)) eqn:Hb; [|exact I].
      destruct (N.eqb o.1 0) eqn:Hz; [|exact I]. exfalso. apply H2.
      apply bool_decide_eq_true in Hb. apply N.eqb_eq in Hz. tauto.
  - reflexivity.
Qed.

Lemma clean_ks rc d (o k : key) :
  d_ks (clean rc d) !! o = Some k <-> d_ks d !! o = Some k /\ purge_ks_pred rc (o, k) = false.
Proof.
  unfold clean. cbn. rewrite map_filter_lookup_Some. cbn.
  destruct (purge_ks_pred rc (o, k)); cbn; intuition congruence.
Qed.

Lemma clean_adds rc d (k : key) pay :
  d_adds (clean rc d) !! k = Some pay <-> d_adds d !! k = Some pay /\ purged_add rc d k = false.
Proof.
  unfold clean. cbn. rewrite map_filter_lookup_Some. cbn.
  destruct (purged_add rc d k); cbn; intuition congruence.
Qed.

(* the keystone part of restart, in terms of the cleaned disk *)
Lemma restart_keystones rc d nxt m' d' dc act :
  restart rc d nxt = (m', d') ->
  dc = clean rc d -> act = rc_active rc ->
  contiguous_above (opened (restore dc nxt).1) act ->
  (forall (o : key) id, opened m' !! o = Some id <->
     exists k, id = inr k /\ d_ks dc !! o = Some k /\ d_adds dc !! k <> None /\ trimmed_by act o = false) /\
  (forall o k : key, d_ks d' !! o = Some k <->
     d_ks dc !! o = Some k /\
     (d_adds dc !! k <> None -> trimmed_by act o = false) /\
     (d_adds dc !! k = None -> o.1 <> 0)) /\
  (forall (k : key) ob, get_obj m' (inr k) = Some ob ->
     o_out ob = if existsb (trimmed_by act) (outs_of (d_ks dc) k) then None
                else max_key (outs_of (d_ks dc) k)).
Proof.
  unfold restart. intros H Hdc Hact Hc. rewrite <- Hdc, <- Hact in H.
  pose proof (restore_spec dc nxt) as R. destruct (restore dc nxt) as [m0 d0] eqn:ER.
  destruct R as (R1 & R2 & R3 & R4 & R5).
  destruct (trim_all_spec act (m0, d0) Hc) as (T1 & T2 & T3 & T4).
  rewrite H in T1, T2, T3, T4. cbn [fst snd] in *.
  split; [|split].
  - intros o id. rewrite T1, R1. split.
    + destruct (trimmed_by act o); [discriminate|].
      destruct (d_ks dc !! o) as [k|]; [|discriminate].
      destruct (d_adds dc !! k) eqn:Hk; [|discriminate]. intros [= <-].
      exists k. rewrite Hk. repeat split; congruence.
    + intros (k & -> & Hks & Hk & Ht). rewrite Ht, Hks. destruct (d_adds dc !! k); [reflexivity|contradiction].
  - intros o k. rewrite T2, R1. split.
    + destruct (d_ks dc !! o) as [k0|] eqn:Hks.
      * destruct (d_adds dc !! k0) eqn:Hk0.
        -- destruct (trimmed_by act o); [discriminate|]. intros Hd. apply R4 in Hd as [Hd _].
           pose proof (eq_trans (eq_sym Hks) Hd) as Hkk; simplify_eq. split; [reflexivity|]. split; [reflexivity|]. intros; congruence.
        -- intros Hd. apply R4 in Hd as [Hd Hn]. pose proof (eq_trans (eq_sym Hks) Hd) as Hkk; simplify_eq.
           split; [reflexivity|]. split; [intros; contradiction|]. intros _ Hz. apply Hn. tauto.
      * intros Hd. apply R4 in Hd as [Hd _]. congruence.
    + intros (Hks & Hdur & Hstray). rewrite Hks.
      destruct (d_adds dc !! k) eqn:Hk.
      * rewrite Hdur by discriminate. apply R4. split; [exact Hks|]. intros [Hn _]. congruence.
      * apply R4. split; [exact Hks|]. intros [_ Hz]. apply Hstray; [reflexivity|exact Hz].
  - intros k ob Hob. rewrite T3, R2 in Hob.
    destruct (d_adds dc !! k) as [pay|] eqn:Hk; [|destruct (bool_decide _); discriminate].
    assert (Hb : bool_decide (hitP act (opened m0) (inr k)) = existsb (trimmed_by act) (outs_of (d_ks dc) k)).
    { apply eq_true_iff_eq. rewrite bool_decide_eq_true, existsb_exists, hitP_spec. split.
      - intros (o & Ht & Hl). exists o. split; [|exact Ht]. apply elem_of_list_In, elem_of_outs_of.
        rewrite R1 in Hl. destruct (d_ks dc !! o) as [k0|]; [|discriminate].
        destruct (d_adds dc !! k0); [|discriminate]. congruence.
      - intros (o & Hin & Ht). exists o. split; [exact Ht|]. apply elem_of_list_In, elem_of_outs_of in Hin.
        rewrite R1, Hin, Hk. reflexivity. }
    rewrite Hb in Hob. destruct (existsb _ _); cbn in Hob; simplify_eq; reflexivity.
Qed.

(* ------------------------------------------------------------------ *)
(* the statement in terms of the disk before the restart                *)

Lemma restore_opened_live rc d nxt (o : key) :
  opened (restore (clean rc d) nxt).1 !! o <> None <-> exists k, live_ks rc d o k.
Proof.
  pose proof (restore_spec (clean rc d) nxt) as R.
  destruct (restore (clean rc d) nxt) as [m0 d0]. destruct R as (R1 & _). cbn [fst].
  rewrite R1. unfold live_ks. split.
  - destruct (d_ks (clean rc d) !! o) as [k|] eqn:Hks; [|intros Hn; contradiction].
    destruct (d_adds (clean rc d) !! k) as [pay|] eqn:Hk; [|intros Hn; contradiction].
    intros _. apply clean_ks in Hks as [A B]. apply clean_adds in Hk as [C D].
    exists k. repeat split; try assumption. congruence.
  - intros (k & A & B & C & D).
    assert (Hks : d_ks (clean rc d) !! o = Some k) by (apply clean_ks; tauto).
    destruct (d_adds d !! k) as [pay|] eqn:Hk; [|contradiction].
    assert (Hk' : d_adds (clean rc d) !! k = Some pay) by (apply clean_adds; tauto).
    rewrite Hks, Hk'. discriminate.
Qed.

Lemma contiguous_on_disk_above rc d nxt :
  contiguous_on_disk rc d ->
  contiguous_above (opened (restore (clean rc d) nxt).1) (rc_active rc).
Proof.
  intros H a ch s Ha Hs j Hj Hle i Hi.
  apply restore_opened_live in Hj as [k Hk]. apply restore_opened_live.
  eapply H; eauto.
Qed.

Lemma max_key_cons (x : key) r :
  max_key (x :: r) = match max_key r with
                     | None => Some x
                     | Some b => if key_leb x b then Some b else Some x
                     end.
Proof. reflexivity. Qed.

Lemma max_key_const l (o : key) : l <> [] -> (forall x, x ∈ l -> x = o) -> max_key l = Some o.
Proof.
  induction l as [|x r IH]; intros Hne Hall; [contradiction|]. rewrite max_key_cons.
  assert (x = o) as -> by (apply Hall; left).
  destruct r as [|y r]; [reflexivity|].
  rewrite IH; [|discriminate|intros z Hz; apply Hall; right; exact Hz].
  destruct (key_leb o o); reflexivity.
Qed.

Lemma existsb_const {A} (f : A -> bool) l o : l <> [] -> (forall x, x ∈ l -> x = o) -> existsb f l = f o.
Proof.
  induction l as [|x r IH]; intros Hne Hall; [contradiction|]. cbn [existsb].
  assert (x = o) as -> by (apply Hall; left).
  destruct r as [|y r]; [cbn; apply orb_false_r|].
  rewrite IH; [|discriminate|intros z Hz; apply Hall; right; exact Hz].
  apply orb_diag.
Qed.

Lemma single_keystone_clean rc d : single_keystone (d_ks d) -> single_keystone (d_ks (clean rc d)).
Proof.
  intros H o1 o2 k H1 H2. apply clean_ks in H1 as [H1 _]. apply clean_ks in H2 as [H2 _]. eauto.
Qed.

(* one keystone per circuit: Outgoing is the keystone the circuit is opened under *)
Lemma single_out act ks (k : key) :
  single_keystone ks ->
  forall o : key,
  (if existsb (trimmed_by act) (outs_of ks k) then None else max_key (outs_of ks k)) = Some o <->
  ks !! o = Some k /\ trimmed_by act o = false.
Proof.
  intros Hs o. destruct (outs_of ks k) as [|o1 r] eqn:El.
  - cbn. split; [discriminate|]. intros [H _]. apply elem_of_outs_of in H. rewrite El in H.
    apply elem_of_nil in H. contradiction.
  - assert (H1 : ks !! o1 = Some k) by (apply elem_of_outs_of; rewrite El; left).
    assert (Hall : forall x, x ∈ o1 :: r -> x = o1).
    { intros x Hx. rewrite <- El in Hx. apply elem_of_outs_of in Hx. eauto. }
    rewrite (existsb_const _ _ o1), (max_key_const _ o1); try discriminate; try assumption.
    split.
    + destruct (trimmed_by act o1) eqn:Ht; [discriminate|]. intros [= <-]. tauto.
    + intros [H2 Ht]. assert (o = o1) as -> by eauto. rewrite Ht. reflexivity.
Qed.

(* ------------------------------------------------------------------ *)
(* C07_restart_exact                                                    *)

Lemma restart_exact : forall rc d nxt m' d',
  restart rc d nxt = (m', d') ->
  contiguous_on_disk rc d ->
  (* nothing is closing after a restart *)
  closed m' = ∅ /\
  (* durable circuits = old ones minus the purged ones ... *)
  (forall k pay, d_adds d' !! k = Some pay <-> d_adds d !! k = Some pay /\ purged_add rc d k = false) /\
  (* ... where purged means: incoming channel fully closed, or some keystone of it
     is purged (its incoming or outgoing channel fully closed, unless an on-chain
     resolution for the outgoing key still awaits delivery) *)
  (forall k, purged_add rc d k = true <->
     is_closed (closed_set rc) k.1 = true \/
     exists o, d_ks d !! o = Some k /\ purge_ks_pred rc (o, k) = true) /\
  (* memory knows exactly the durable circuits *)
  (forall k id, pending m' !! k = Some id <-> id = inr k /\ exists pay, d_adds d' !! k = Some pay) /\
  (forall k id o, pending m' !! k = Some id -> get_obj m' id = Some o ->
     o_inc o = k /\ o_loaded o = true /\ d_adds d' !! k = Some (o_pay o)) /\
  (* a re-forward of a restored circuit is never an Add: Drop while it has a
     keystone, FAIL once its keystone was rolled back *)
  (forall k, pending m' !! k <> None ->
     exists o, found_obj m' k = Some o /\ o_loaded o = true /\
       classify (Some o) = match o_out o with Some _ => ADrop | None => AFail end) /\
  (* SURVIVING KEYSTONES: a circuit stays open exactly if its keystone survived the
     closed-channel purge, its circuit is durable, and its outgoing HtlcID is below
     NextLocalHtlcIndex of its (active, non-pending) channel ... *)
  (forall (o : key) id, opened m' !! o = Some id <->
     exists k, id = inr k /\ live_ks rc d o k /\ trimmed_by (rc_active rc) o = false) /\
  (* ... the others are rolled back ON DISK as well (a stray keystone without circuit
     is pruned only for hop.Source) ... *)
  (forall o k : key, d_ks d' !! o = Some k <->
     d_ks d !! o = Some k /\ purge_ks_pred rc (o, k) = false /\
     (d_adds d' !! k <> None -> trimmed_by (rc_active rc) o = false) /\
     (d_adds d' !! k = None -> o.1 <> 0)) /\
  (* ... and the circuit's Outgoing field: nil as soon as one of its keystones was
     rolled back, else the last keystone in bbolt key order *)
  (forall (k : key) id ob, pending m' !! k = Some id -> get_obj m' id = Some ob ->
     o_out ob = if existsb (trimmed_by (rc_active rc)) (outs_of (d_ks (clean rc d)) k) then None
                else max_key (outs_of (d_ks (clean rc d)) k)) /\
  (* with one keystone per circuit (link discipline) the circuit is half-open
     exactly if it is not opened: it is then failed back, not lost or doubled *)
  (single_keystone (d_ks d) ->
   forall (k : key) id ob (o : key), pending m' !! k = Some id -> get_obj m' id = Some ob ->
     (o_out ob = Some o <-> opened m' !! o = Some (inr k))).
Proof.
  intros rc d nxt m' d' H Hc.
  destruct (restart_pending _ _ _ _ _ H) as (A & B & C & D).
  pose proof (contiguous_on_disk_above rc d nxt Hc) as Hc'.
  destruct (restart_keystones rc d nxt m' d' _ _ H eq_refl eq_refl Hc') as (K1 & K2 & K3).
  assert (Hadds : forall k : key, d_adds (clean rc d) !! k = d_adds d' !! k).
  { intros k. apply option_eq. intros pay. rewrite clean_adds, B. reflexivity. }
  assert (Hopen : forall (o : key) id, opened m' !! o = Some id <->
     exists k, id = inr k /\ live_ks rc d o k /\ trimmed_by (rc_active rc) o = false).
  { intros o id. rewrite K1. unfold live_ks. split.
    - intros (k & -> & Hks & Hk & Ht). apply clean_ks in Hks as [Hks Hp].
      destruct (d_adds (clean rc d) !! k) as [pay|] eqn:Hk'; [|contradiction].
      apply clean_adds in Hk' as [Hk1 Hk2]. exists k. repeat split; try assumption. congruence.
    - intros (k & -> & (Hks & Hp & Hpa & Hk) & Ht). exists k. split; [reflexivity|].
      split; [apply clean_ks; tauto|]. split; [|exact Ht].
      destruct (d_adds d !! k) as [pay|] eqn:Hk'; [|contradiction].
      assert (Hk2 : d_adds (clean rc d) !! k = Some pay) by (apply clean_adds; tauto).
      rewrite Hk2. discriminate. }
  assert (Hout : forall (k : key) id ob, pending m' !! k = Some id -> get_obj m' id = Some ob ->
     o_out ob = if existsb (trimmed_by (rc_active rc)) (outs_of (d_ks (clean rc d)) k) then None
                else max_key (outs_of (d_ks (clean rc d)) k)).
  { intros k id ob Hp Hob. apply C in Hp as [-> _]. apply K3. exact Hob. }
  split; [exact A|]. split; [exact B|]. split; [intros k; apply purged_add_spec|].
  split; [exact C|]. split; [exact D|].
  split; [intros k Hk; eapply restart_classify; eauto|].
  split; [exact Hopen|]. split; [|split; [exact Hout|]].
  - intros o k. rewrite K2, clean_ks, Hadds. tauto.
  - intros Hs k id ob o Hp Hob. rewrite (Hout k id ob Hp Hob).
    rewrite (single_out _ _ _ (single_keystone_clean rc d Hs)), K1.
    apply C in Hp as [-> [pay Hpay]]. split.
    + intros [Hks Ht]. exists k. rewrite Hadds, Hpay. repeat split; try assumption. discriminate.
    + intros (k' & [= <-] & Hks & _ & Ht). tauto.
Qed.

(* witness: a gap in the outgoing HtlcIDs defeats the scan *)
Definition gap_history : list input :=
  [ ICall 0 (CCommit [((1, 0), 5); ((1, 1), 6)]); IDisk 0 true; IMem 0;
    ICall 0 (COpen [((1, 0), (2, 0)); ((1, 1), (2, 2))]); IDisk 0 true; IMem 0 ].
Definition gap_rc : rconf := RConf [] [] [(2, false, None, 0)].

Lemma gap_not_contiguous : ~ contiguous_on_disk gap_rc (c_disk (run init gap_history).1).
Proof.
  intros H.
  assert (Hin : (2, false, None, 0) ∈ rc_active gap_rc) by left.
  assert (Hlive : live_ks gap_rc (c_disk (run init gap_history).1) (2, 2) (1, 1)).
  { vm_compute. repeat split; try reflexivity. discriminate. }
  assert (Hle : 0 <= 2) by lia.
  assert (Hi : 0 <= 1 <= 2) by lia.
  destruct (H (2, false, None, 0) 2 0 Hin eq_refl 2 (1, 1) Hlive Hle 1 Hi) as [k' [Hk' _]].
  vm_compute in Hk'. discriminate.
Qed.

Lemma restart_gap_refuted :
  exists ins rc (o k : key),
    let c := (run init ins).1 in
    let '(m', d') := restart rc (c_disk c) (next (c_mem c)) in
    ~ contiguous_on_disk rc (c_disk c) /\
    trimmed_by (rc_active rc) o = true /\
    opened m' !! o = Some (inr k) /\ d_ks d' !! o = Some k /\
    classify (found_obj m' k) = ADrop.
Proof.
  exists gap_history, gap_rc, (2, 2), (1, 1). cbv zeta.
  destruct (restart gap_rc _ _) as [m' d'] eqn:E.
  split; [exact gap_not_contiguous|].
  vm_compute in E. injection E as <- <-. vm_compute. repeat split; reflexivity.
Qed.
