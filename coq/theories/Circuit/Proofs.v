(* C07 — lemmas and invariants about Circuit/Model.v *)
From stdpp Require Import gmap.
From LV Require Import Circuit.Model Circuit.Spec.
Local Open Scope N_scope.

(* ------------------------------------------------------------------ *)
(* generic "exclusive event" argument over runs                         *)

Section exclusive.
  Variable I : config -> Prop.
  Variables mark clear : event -> Prop.
  Hypothesis keep : forall c i c' o,
    step c i = (c', o) -> I c ->
    ~ mark (i, cont_before c i, o) /\ (clear (i, cont_before c i, o) \/ I c').
  Hypothesis set : forall c i c' o,
    step c i = (c', o) -> mark (i, cont_before c i, o) -> I c'.

  Lemma excl_after : forall ins c c' tr,
    run c ins = (c', tr) -> I c ->
    forall pre e post, tr = pre ++ e :: post -> mark e ->
    exists x, x ∈ pre /\ clear x.
  Proof.
    induction ins as [|i ins IH]; intros c c' tr Hrun HI pre e post Htr Hm; cbn in Hrun.
    - destruct pre; simplify_eq.
    - destruct (step c i) as [c1 o] eqn:Hs.
      destruct (run c1 ins) as [c2 tr'] eqn:Hr.
      destruct (keep _ _ _ _ Hs HI) as [Hnm [Hc|HI1]].
      + destruct pre as [|p pre]; simplify_eq/=.
        * contradiction.
        * exists (i, cont_before c i, o). split; [left|assumption].
      + destruct pre as [|p pre]; simplify_eq/=.
        * contradiction.
        * destruct (IH _ _ _ Hr HI1 pre e post eq_refl Hm) as (x & Hx & Hcx).
          exists x. split; [right; assumption|assumption].
  Qed.

  Lemma excl_between : forall ins c c' tr,
    run c ins = (c', tr) ->
    forall pre e1 mid e2 post, tr = pre ++ e1 :: mid ++ e2 :: post ->
    mark e1 -> mark e2 ->
    exists x, x ∈ mid /\ clear x.
  Proof.
    induction ins as [|i ins IH]; intros c c' tr Hrun pre e1 mid e2 post Htr Hm1 Hm2; cbn in Hrun.
    - destruct pre; simplify_eq.
    - destruct (step c i) as [c1 o] eqn:Hs.
      destruct (run c1 ins) as [c2 tr'] eqn:Hr.
      destruct pre as [|p pre]; simplify_eq/=.
      + eapply excl_after; eauto.
      + eapply IH; eauto.
  Qed.
End exclusive.

(* ------------------------------------------------------------------ *)
(* field projections of the small updates                               *)

Lemma upd_obj_pending f id m : pending (upd_obj f id m) = pending m.
Proof. destruct id; reflexivity. Qed.
Lemma upd_obj_opened f id m : opened (upd_obj f id m) = opened m.
Proof. destruct id; reflexivity. Qed.
Lemma upd_obj_closed f id m : closed (upd_obj f id m) = closed m.
Proof. destruct id; reflexivity. Qed.
Lemma upd_obj_next f id m : next (upd_obj f id m) = next m.
Proof. destruct id; reflexivity. Qed.

(* ---- commit_mem ---- *)

Lemma classify_add m k : classify (found_obj m k) = AAdd <-> pending m !! k = None.
Proof.
  unfold found_obj. destruct (pending m !! k); cbn.
  - split; [|discriminate]. destruct (o_out _); [discriminate|]. destruct (o_loaded _); discriminate.
  - tauto.
Qed.

Lemma commit_mem_closed : forall cs m m' cr, commit_mem m cs = (m', cr) -> closed m' = closed m.
Proof.
  induction cs as [|[k pay] r IH]; intros m m' cr H; cbn in H.
  - inversion H; reflexivity.
  - destruct (classify (found_obj m k)).
    + destruct (commit_mem _ r) as [m1 cr1] eqn:E. inversion H; subst. apply IH in E. exact E.
    + destruct (commit_mem m r) as [m1 cr1] eqn:E. inversion H; subst. eauto.
    + destruct (commit_mem m r) as [m1 cr1] eqn:E. inversion H; subst. eauto.
Qed.

Lemma commit_mem_opened : forall cs m m' cr, commit_mem m cs = (m', cr) -> opened m' = opened m.
Proof.
  induction cs as [|[k pay] r IH]; intros m m' cr H; cbn in H.
  - inversion H; reflexivity.
  - destruct (classify (found_obj m k)).
    + destruct (commit_mem _ r) as [m1 cr1] eqn:E. inversion H; subst. apply IH in E. exact E.
    + destruct (commit_mem m r) as [m1 cr1] eqn:E. inversion H; subst. eauto.
    + destruct (commit_mem m r) as [m1 cr1] eqn:E. inversion H; subst. eauto.
Qed.

(* pending only grows; a key decided Add was not pending before and is pending after *)
Lemma commit_mem_pending : forall cs m m' cr,
  commit_mem m cs = (m', cr) ->
  (forall k, pending m !! k <> None -> pending m' !! k <> None /\ k ∉ keys_of (c_adds cr)) /\
  (forall k, k ∈ keys_of (c_adds cr) -> pending m' !! k <> None).
Proof.
  induction cs as [|[k pay] r IH]; intros m m' cr H; cbn in H.
  - inversion H; subst; cbn. split; [intros k Hk; split; [exact Hk|apply not_elem_of_nil]|].
    intros k Hk. apply elem_of_nil in Hk. contradiction.
  - destruct (classify (found_obj m k)) eqn:Hcl.
    + apply classify_add in Hcl.
      destruct (commit_mem _ r) as [m1 cr1] eqn:E. inversion H; subst; clear H.
      destruct (IH _ _ _ E) as [IH1 IH2]. cbn. split.
      * intros k' Hk'. assert (k' <> k) by (intros ->; contradiction).
        destruct (IH1 k') as [A B]; [cbn; rewrite lookup_insert_ne by congruence; exact Hk'|].
        split; [exact A|]. unfold keys_of in *. cbn. apply not_elem_of_cons. split; assumption.
      * intros k' Hk'. unfold keys_of in Hk'. cbn in Hk'. apply elem_of_cons in Hk' as [->|Hk'].
        -- apply (IH1 k). cbn. rewrite lookup_insert. discriminate.
        -- apply IH2. exact Hk'.
    + destruct (commit_mem m r) as [m1 cr1] eqn:E. inversion H; subst; clear H. cbn. eauto.
    + destruct (commit_mem m r) as [m1 cr1] eqn:E. inversion H; subst; clear H. cbn. eauto.
Qed.

(* ---- open_mem / trim_mem leave pending and closed alone ---- *)

Lemma open_mem_pending : forall ids kss m, pending (open_mem m ids kss) = pending m.
Proof.
  induction ids as [|id ids IH]; intros kss m; cbn; [reflexivity|].
  destruct kss as [|[ik ok] kss]; [reflexivity|]. rewrite IH. cbn. apply upd_obj_pending.
Qed.

Lemma open_mem_closed : forall ids kss m, closed (open_mem m ids kss) = closed m.
Proof.
  induction ids as [|id ids IH]; intros kss m; cbn; [reflexivity|].
  destruct kss as [|[ik ok] kss]; [reflexivity|]. rewrite IH. cbn. apply upd_obj_closed.
Qed.

Lemma trim_mem_pending : forall fuel m ch i m' l,
  trim_mem fuel m ch i = (m', l) -> pending m' = pending m.
Proof.
  induction fuel as [|f IH]; intros m ch i m' l H; cbn in H.
  - inversion H; reflexivity.
  - destruct (opened m !! (ch, i)); [|inversion H; reflexivity].
    destruct (trim_mem f _ ch (i + 1)) as [m1 l1] eqn:E. inversion H; subst.
    apply IH in E. rewrite E. cbn. apply upd_obj_pending.
Qed.

Lemma trim_mem_closed : forall fuel m ch i m' l,
  trim_mem fuel m ch i = (m', l) -> closed m' = closed m.
Proof.
  induction fuel as [|f IH]; intros m ch i m' l H; cbn in H.
  - inversion H; reflexivity.
  - destruct (opened m !! (ch, i)); [|inversion H; reflexivity].
    destruct (trim_mem f _ ch (i + 1)) as [m1 l1] eqn:E. inversion H; subst.
    apply IH in E. rewrite E. cbn. apply upd_obj_closed.
Qed.

(* ---- delete_mem ---- *)

Lemma delete_mem_keep : forall ks m m' rem cl,
  delete_mem m ks = (m', rem, cl) ->
  forall k,
    (k ∈ closed m -> k ∈ map fst rem \/ k ∈ closed m') /\
    (pending m !! k <> None -> k ∈ map fst rem \/ pending m' !! k <> None).
Proof.
  induction ks as [|k0 r IH]; intros m m' rem cl H k; cbn in H.
  - inversion H; subst. tauto.
  - destruct (pending m !! k0) as [id|] eqn:Hp; [|eauto].
    match type of H with context [delete_mem ?mm r] => destruct (delete_mem mm r) as [[m1 rem1] cl1] eqn:E end.
    inversion H; subst; clear H. specialize (IH _ _ _ _ E k). cbn [map fst].
    destruct (decide (k = k0)) as [->|Hne]; [split; intros _; left; left|].
    destruct IH as [IHc IHp]. split.
    + intros Hk. destruct IHc as [A|A]; [|left; right; exact A|right; exact A].
      cbn. destruct (bool_decide (k0 ∈ closed m)) eqn:Hb; cbn;
        repeat (match goal with |- context [match ?x with _ => _ end] => destruct x end); cbn; set_solver.
    + intros Hk. destruct IHp as [A|A]; [|left; right; exact A|right; exact A].
      cbn. destruct (bool_decide (k0 ∈ closed m)) eqn:Hb; cbn;
        repeat (match goal with |- context [match ?x with _ => _ end] => destruct x end); cbn;
        rewrite lookup_delete_ne by congruence; exact Hk.
Qed.

Lemma commit_rollback_keep adds m k :
  pending m !! k <> None -> k ∈ keys_of adds \/ pending (commit_rollback m adds) !! k <> None.
Proof.
  unfold commit_rollback, keys_of. cbn. generalize (pending m). induction adds as [|x adds IH]; intros p Hk; cbn.
  - right; exact Hk.
  - destruct (decide (k = x.1.1)) as [->|Hne]; [left; left|].
    destruct (IH (delete x.1.1 p)) as [A|A]; [rewrite lookup_delete_ne by congruence; exact Hk|left; right; exact A|right; exact A].
Qed.

Lemma delete_rollback_grow : forall rem cl m k,
  (k ∈ closed m -> k ∈ closed (delete_rollback m rem cl)) /\
  (pending m !! k <> None -> pending (delete_rollback m rem cl) !! k <> None).
Proof.
  induction rem as [|x rem IH]; intros cl m k; cbn; [tauto|].
  destruct (IH cl m k) as [IHc IHp]. split; intros Hk.
  - specialize (IHc Hk).
    repeat (match goal with |- context [match ?x with _ => _ end] => destruct x end); cbn; set_solver.
  - specialize (IHp Hk).
    repeat (match goal with |- context [match ?x with _ => _ end] => destruct x end); cbn;
      (destruct (decide (k = x.1)) as [->|Hne]; [rewrite lookup_insert; discriminate|rewrite lookup_insert_ne by congruence; exact IHp]).
Qed.

(* ------------------------------------------------------------------ *)
(* C07_one_response_per_run                                             *)

Definition clears (k : key) (e : event) : Prop := k ∈ ev_removed e \/ ev_restart e = true.

Lemma do_call_closed m cl m' r k :
  do_call m cl = (m', r) -> k ∈ closed m ->
  (forall o, r = inl o -> ev_responded (ICall 0 cl, None, o) <> Some k) /\
  ((exists rem c0, r = inr (KDelete rem c0) /\ k ∈ map fst rem) \/ k ∈ closed m').
Proof.
  intros H Hk. destruct cl as [cs|kss|ch st|ok|ik|ks]; cbn [do_call] in H.
  - destruct cs as [|c0 cs]; [simplify_eq; split; [intros o ?; simplify_eq; discriminate|right; exact Hk]|].
    destruct (commit_mem m (c0 :: cs)) as [m1 cr] eqn:E. apply commit_mem_closed in E.
    destruct (c_adds cr); simplify_eq; (split; [intros o ?; simplify_eq; discriminate|right; rewrite E; exact Hk]).
  - destruct kss as [|k0 kss]; [simplify_eq; split; [intros o ?; simplify_eq; discriminate|right; exact Hk]|].
    destruct (open_check m (k0 :: kss)); simplify_eq; (split; [intros o ?; simplify_eq; discriminate|right; exact Hk]).
  - destruct (trim_mem (trim_fuel m) m ch st) as [m1 outs] eqn:E. apply trim_mem_closed in E.
    destruct outs; simplify_eq; (split; [intros o ?; simplify_eq; discriminate|right; rewrite E; exact Hk]).
  - unfold close_circuit in H. destruct (opened m !! ok) as [id|].
    + destruct (bool_decide _) eqn:Hb; simplify_eq.
      * split; [intros o ?; simplify_eq; discriminate|right; exact Hk].
      * apply bool_decide_eq_false in Hb. split; [|right; cbn; set_solver].
        intros o ?; simplify_eq. cbn. intros [= <-]. contradiction.
    + simplify_eq. split; [intros o ?; simplify_eq; discriminate|right; exact Hk].
  - unfold fail_circuit in H. destruct (pending m !! ik) as [id|].
    + destruct (bool_decide _) eqn:Hb; simplify_eq.
      * split; [intros o ?; simplify_eq; discriminate|right; exact Hk].
      * apply bool_decide_eq_false in Hb. split; [|right; cbn; set_solver].
        intros o ?; simplify_eq. cbn. intros [= <-]. contradiction.
    + simplify_eq. split; [intros o ?; simplify_eq; discriminate|right; exact Hk].
  - destruct (delete_mem m ks) as [[m1 rem] cl] eqn:E. simplify_eq.
    split; [intros o ?; simplify_eq|]. destruct (delete_mem_keep _ _ _ _ _ E k) as [A _].
    destruct (A Hk); [left; eauto|right; assumption].
Qed.

Lemma do_mem_closed m k0 m' o k :
  do_mem m k0 = Some (m', o) -> k ∈ closed m -> k ∈ closed m'.
Proof.
  intros H Hk. destruct k0 as [| [] cr | | [] ids kss | | ok | | [] rem cl]; cbn in H; simplify_eq; try exact Hk.
  - rewrite open_mem_closed. exact Hk.
  - apply delete_rollback_grow. exact Hk.
Qed.

Lemma step_resp_keep k c i c' o :
  step c i = (c', o) -> k ∈ closed (c_mem c) ->
  ev_responded (i, cont_before c i, o) <> Some k /\
  (clears k (i, cont_before c i, o) \/ k ∈ closed (c_mem c')).
Proof.
  intros H Hk. destruct i as [t cl|t ok|t|rc]; cbn in H.
  - unfold cont_before; cbn. destruct (c_thr c !! t) eqn:Ht.
    + simplify_eq. split; [destruct cl; discriminate|right; exact Hk].
    + destruct (do_call (c_mem c) cl) as [m1 [o1|k1]] eqn:E; simplify_eq;
        destruct (do_call_closed _ _ _ _ _ E Hk) as [A B].
      * split; [destruct cl; try discriminate; apply (A _ eq_refl)|].
        destruct B as [(rem & c0 & ? & ?)|B]; [discriminate|right; exact B].
      * split; [destruct cl; discriminate|].
        destruct B as [(rem & c0 & ? & ?)|B]; [simplify_eq; left; left; destruct cl; cbn in E |right; exact B].
        all: try (repeat case_match; simplify_eq; fail).
        cbn. assumption.
  - split; [discriminate|right]. destruct (c_thr c !! t); [|simplify_eq; exact Hk].
    destruct (do_disk _ _ _ _) as [[d' k']|]; simplify_eq; exact Hk.
  - split; [discriminate|right]. destruct (c_thr c !! t) as [k0|]; [|simplify_eq; exact Hk].
    destruct (do_mem (c_mem c) k0) as [[m1 o1]|] eqn:E; simplify_eq; [|exact Hk].
    cbn. eapply do_mem_closed; eauto.
  - split; [discriminate|left; right; reflexivity].
Qed.

Lemma step_resp_set k c i c' o :
  step c i = (c', o) -> ev_responded (i, cont_before c i, o) = Some k -> k ∈ closed (c_mem c').
Proof.
  intros H Hr. destruct i as [t cl|t ok|t|rc]; try discriminate. cbn [step] in H.
  destruct (c_thr c !! t); [simplify_eq; destruct cl; discriminate|].
  destruct cl as [cs|kss|ch st|ok|ik|ks]; try (destruct o; discriminate).
  - cbn [do_call] in H. unfold close_circuit in H.
    destruct (opened (c_mem c) !! ok); [|by simplify_eq].
    destruct (bool_decide _); [by simplify_eq|]. simplify_eq. cbn in *. simplify_eq. set_solver.
  - cbn [do_call] in H. unfold fail_circuit in H.
    destruct (pending (c_mem c) !! ik); [|by simplify_eq].
    destruct (bool_decide _); [by simplify_eq|]. simplify_eq. cbn in *. simplify_eq. set_solver.
Qed.

Lemma one_response_per_run : forall ins c' tr k pre e1 mid e2 post,
  run init ins = (c', tr) ->
  tr = pre ++ e1 :: mid ++ e2 :: post ->
  ev_responded e1 = Some k -> ev_responded e2 = Some k ->
  exists x, x ∈ mid /\ clears k x.
Proof.
  intros ins c' tr k pre e1 mid e2 post Hrun Htr H1 H2.
  eapply (excl_between (fun c => k ∈ closed (c_mem c)) (fun e => ev_responded e = Some k) (clears k));
    eauto using step_resp_keep, step_resp_set.
Qed.

(* ------------------------------------------------------------------ *)
(* C07_add_once                                                         *)

Lemma close_circuit_pending m ok m' r : close_circuit m ok = (m', r) -> pending m' = pending m.
Proof.
  unfold close_circuit. destruct (opened m !! ok); [|by intros; simplify_eq].
  destruct (bool_decide _); intros; by simplify_eq.
Qed.

Lemma fail_circuit_pending m ik m' r : fail_circuit m ik = (m', r) -> pending m' = pending m.
Proof.
  unfold fail_circuit. destruct (pending m !! ik); [|by intros; simplify_eq].
  destruct (bool_decide _); intros; by simplify_eq.
Qed.

Lemma do_call_pending m cl m' r k :
  do_call m cl = (m', r) -> pending m !! k <> None ->
  (forall cr, r = inr (KCommit cr) -> k ∉ keys_of (c_adds cr)) /\
  ((exists rem c0, r = inr (KDelete rem c0) /\ k ∈ map fst rem) \/ pending m' !! k <> None).
Proof.
  intros H Hk. destruct cl as [cs|kss|ch st|ok|ik|ks]; cbn [do_call] in H.
  - destruct cs as [|c0 cs]; [simplify_eq; split; [intros cr ?; simplify_eq|right; exact Hk]|].
    destruct (commit_mem m (c0 :: cs)) as [m1 cr] eqn:E. apply commit_mem_pending in E as [E1 _].
    destruct (E1 k Hk) as [A B].
    destruct (c_adds cr) eqn:Ea; simplify_eq; (split; [intros cr' ?; simplify_eq; rewrite ?Ea; try exact B|right; exact A]).
  - destruct kss as [|k0 kss]; [simplify_eq; split; [intros cr ?; simplify_eq|right; exact Hk]|].
    destruct (open_check m (k0 :: kss)); simplify_eq; (split; [intros cr ?; simplify_eq|right; exact Hk]).
  - destruct (trim_mem (trim_fuel m) m ch st) as [m1 outs] eqn:E. apply trim_mem_pending in E.
    destruct outs; simplify_eq; (split; [intros cr ?; simplify_eq|right; rewrite E; exact Hk]).
  - destruct (close_circuit m ok) as [m1 r1] eqn:E. apply close_circuit_pending in E. simplify_eq.
    split; [intros cr ?; simplify_eq|right; rewrite E; exact Hk].
  - destruct (fail_circuit m ik) as [m1 r1] eqn:E. apply fail_circuit_pending in E. simplify_eq.
    split; [intros cr ?; simplify_eq|right; rewrite E; exact Hk].
  - destruct (delete_mem m ks) as [[m1 rem] cl] eqn:E. simplify_eq.
    split; [intros cr ?; simplify_eq|]. destruct (delete_mem_keep _ _ _ _ _ E k) as [_ A].
    destruct (A Hk); [left; eauto|right; assumption].
Qed.

Lemma do_mem_pending m k0 m' o k :
  do_mem m k0 = Some (m', o) -> pending m !! k <> None ->
  (exists cr, k0 = KCommitPost false cr /\ k ∈ keys_of (c_adds cr)) \/ pending m' !! k <> None.
Proof.
  intros H Hk. destruct k0 as [| [] cr | | [] ids kss | | ok | | [] rem cl]; cbn in H; simplify_eq; try (right; exact Hk).
  - destruct (commit_rollback_keep (c_adds cr) m k Hk); [left; eauto|right; assumption].
  - right. rewrite open_mem_pending. exact Hk.
  - right. apply delete_rollback_grow. exact Hk.
Qed.

Lemma do_call_no_yield m cl m' o k0 : do_call m cl = (m', inl o) -> o <> OYield k0.
Proof.
  intros H. destruct cl as [cs|kss|ch st|ok|ik|ks]; cbn [do_call] in H; repeat case_match; by simplify_eq.
Qed.

Lemma step_add_keep k c i c' o :
  step c i = (c', o) -> pending (c_mem c) !! k <> None ->
  ~ k ∈ ev_add_decided (i, cont_before c i, o) /\
  (clears k (i, cont_before c i, o) \/ pending (c_mem c') !! k <> None).
Proof.
  intros H Hk. destruct i as [t cl|t ok|t|rc]; cbn [step] in H.
  - unfold cont_before; cbn [tid_of]. destruct (c_thr c !! t) eqn:Ht.
    + simplify_eq. split; [destruct cl; apply not_elem_of_nil|right; exact Hk].
    + destruct (do_call (c_mem c) cl) as [m1 [o1|k1]] eqn:E; simplify_eq;
        destruct (do_call_pending _ _ _ _ _ E Hk) as [A B].
      * split; [destruct cl; try apply not_elem_of_nil; destruct o; try apply not_elem_of_nil;
                  exfalso; eapply do_call_no_yield; eauto|].
        destruct B as [(rem & c0 & ? & ?)|B]; [discriminate|right; exact B].
      * split.
        -- destruct cl; try apply not_elem_of_nil. destruct k1; try apply not_elem_of_nil. cbn. apply A. reflexivity.
        -- destruct B as [(rem & c0 & ? & ?)|B]; [|right; exact B]. simplify_eq. left; left.
           destruct cl; cbn [do_call] in E; repeat case_match; simplify_eq. cbn. assumption.
  - split; [apply not_elem_of_nil|right]. destruct (c_thr c !! t); [|simplify_eq; exact Hk].
    destruct (do_disk _ _ _ _) as [[d' k']|]; simplify_eq; exact Hk.
  - split; [apply not_elem_of_nil|]. unfold cont_before; cbn [tid_of].
    destruct (c_thr c !! t) as [k0|]; [|simplify_eq; right; exact Hk].
    destruct (do_mem (c_mem c) k0) as [[m1 o1]|] eqn:E; simplify_eq; [|right; exact Hk].
    destruct (do_mem_pending _ _ _ _ _ E Hk) as [(cr & -> & Hin)|B]; [left; left; cbn; exact Hin|right; exact B].
  - split; [apply not_elem_of_nil|left; right; reflexivity].
Qed.

Lemma step_add_set k c i c' o :
  step c i = (c', o) -> k ∈ ev_add_decided (i, cont_before c i, o) -> pending (c_mem c') !! k <> None.
Proof.
  intros H Hr. destruct i as [t cl|t ok|t|rc]; try (apply elem_of_nil in Hr; contradiction).
  cbn [step] in H. destruct (c_thr c !! t); [simplify_eq; destruct cl; apply elem_of_nil in Hr; contradiction|].
  destruct cl as [cs|kss|ch st|ok|ik|ks]; try (apply elem_of_nil in Hr; contradiction).
  cbn [do_call] in H. destruct cs as [|c0 cs]; [simplify_eq; apply elem_of_nil in Hr; contradiction|].
  destruct (commit_mem (c_mem c) (c0 :: cs)) as [m1 cr] eqn:E. apply commit_mem_pending in E as [_ E2].
  destruct (c_adds cr) eqn:Ea; simplify_eq; [apply elem_of_nil in Hr; contradiction|].
  cbn in Hr. cbn. apply E2. rewrite Ea in Hr. exact Hr.
Qed.

Lemma add_once : forall ins c' tr k pre e1 mid e2 post,
  run init ins = (c', tr) ->
  tr = pre ++ e1 :: mid ++ e2 :: post ->
  k ∈ ev_add_decided e1 -> k ∈ ev_add_decided e2 ->
  exists x, x ∈ mid /\ clears k x.
Proof.
  intros ins c' tr k pre e1 mid e2 post Hrun Htr H1 H2.
  eapply (excl_between (fun c => pending (c_mem c) !! k <> None) (fun e => k ∈ ev_add_decided e) (clears k));
    eauto using step_add_keep, step_add_set.
Qed.

(* the Adds a CommitCircuits call returns are exactly what its memory phase decided *)
Lemma adds_returned_are_decided c t cr adds drops fails err c' :
  c_thr c !! t = Some (KCommitPost true cr) ->
  step c (IMem t) = (c', OCommit adds drops fails err) ->
  adds = keys_of (c_adds cr) /\ err = false.
Proof. intros Ht H. cbn in H. rewrite Ht in H. cbn in H. by simplify_eq. Qed.

(* ------------------------------------------------------------------ *)
(* C07_rollback                                                         *)

(* every observable map is unchanged and no existing heap cell was touched
   (CommitCircuits may leave behind the cells of the circuits its caller
   allocated: they are unreachable) *)
Definition mem_same (m m' : mem) : Prop :=
  pending m' = pending m /\ opened m' = opened m /\ closed m' = closed m /\
  heapD m' = heapD m /\ (forall n, n < next m -> heapN m' !! n = heapN m !! n) /\
  next m <= next m'.

Lemma foldl_delete_comm (adds : list (key * oid * N)) : forall (p : gmap key oid) k,
  foldl (fun a x => delete x.1.1 a) (delete k p) adds = delete k (foldl (fun a x => delete x.1.1 a) p adds).
Proof.
  induction adds as [|x adds IH]; intros p k; cbn; [reflexivity|].
  rewrite <- IH. f_equal. apply delete_commute.
Qed.

Lemma rollback_commit : forall cs m m1 cr,
  commit_mem m cs = (m1, cr) -> mem_same m (commit_rollback m1 (c_adds cr)).
Proof.
  unfold mem_same.
  induction cs as [|[k pay] r IH]; intros m m1 cr H; cbn [commit_mem alloc] in H.
  - simplify_eq. cbn. repeat split; auto; lia.
  - destruct (classify (found_obj m k)) eqn:Hcl.
    + apply classify_add in Hcl.
      match type of H with context [commit_mem ?mm r] => destruct (commit_mem mm r) as [m' cr1] eqn:E end.
      simplify_eq. apply IH in E as (Ep & Eo & Ec & Ed & Eh & En). cbn in *.
      repeat split; auto.
      * rewrite foldl_delete_comm. unfold commit_rollback in Ep. cbn in Ep. rewrite Ep.
        apply delete_insert. exact Hcl.
      * intros n Hn. rewrite Eh by lia. apply lookup_insert_ne. lia.
      * lia.
    + destruct (commit_mem m r) as [m' cr1] eqn:E. simplify_eq. exact (IH _ _ _ E).
    + destruct (commit_mem m r) as [m' cr1] eqn:E. simplify_eq. exact (IH _ _ _ E).
Qed.

(* wf_out (Spec.v): well-formedness needed by DeleteCircuits' rollback *)

Lemma get_obj_frame m m' id :
  heapN m' = heapN m -> heapD m' = heapD m -> get_obj m' id = get_obj m id.
Proof. intros A B. destruct id; cbn; congruence. Qed.

Lemma delete_mem_heap : forall ks m m' rem cl,
  delete_mem m ks = (m', rem, cl) -> heapN m' = heapN m /\ heapD m' = heapD m /\ next m' = next m.
Proof.
  induction ks as [|k0 r IH]; intros m m' rem cl H; cbn [delete_mem] in H.
  - by simplify_eq.
  - destruct (pending m !! k0) as [id|]; [|eauto].
    match type of H with context [delete_mem ?mm r] => destruct (delete_mem mm r) as [[m1 rem1] cl1] eqn:E end.
    simplify_eq. apply IH in E as (A & B & C). rewrite A, B, C.
    repeat case_match; cbn; auto.
Qed.

Lemma delete_mem_rem_pending : forall ks m m' rem cl,
  delete_mem m ks = (m', rem, cl) -> forall k, k ∈ map fst rem -> pending m !! k <> None.
Proof.
  induction ks as [|k0 r IH]; intros m m' rem cl H k Hk; cbn [delete_mem] in H.
  - simplify_eq. apply elem_of_nil in Hk. contradiction.
  - destruct (pending m !! k0) as [id|] eqn:Hp; [|eauto].
    match type of H with context [delete_mem ?mm r] => destruct (delete_mem mm r) as [[m1 rem1] cl1] eqn:E end.
    simplify_eq. cbn in Hk. apply elem_of_cons in Hk as [->|Hk]; [congruence|].
    specialize (IH _ _ _ _ E k Hk). intros Hn. apply IH.
    repeat case_match; cbn; (destruct (decide (k = k0)) as [->|]; [apply lookup_delete|rewrite lookup_delete_ne by congruence; exact Hn]).
Qed.

Lemma delete_mem_cl : forall ks m m' rem cl,
  delete_mem m ks = (m', rem, cl) -> forall k, k ∈ cl -> k ∈ map fst rem.
Proof.
  induction ks as [|k0 r IH]; intros m m' rem cl H k Hk; cbn [delete_mem] in H.
  - simplify_eq. apply elem_of_nil in Hk. contradiction.
  - destruct (pending m !! k0) as [id|] eqn:Hp; [|eauto].
    match type of H with context [delete_mem ?mm r] => destruct (delete_mem mm r) as [[m1 rem1] cl1] eqn:E end.
    simplify_eq. cbn. destruct (bool_decide _).
    + apply elem_of_cons in Hk as [->|Hk]; [left|right; eauto].
    + right; eauto.
Qed.

(* rollback with a closing list that differs only on keys outside rem *)
Lemma delete_rollback_cl_ext : forall rem m cl cl',
  (forall k, k ∈ map fst rem -> (k ∈ cl <-> k ∈ cl')) ->
  delete_rollback m rem cl = delete_rollback m rem cl'.
Proof.
  induction rem as [|x rem IH]; intros m cl cl' Hext; [reflexivity|].
  assert (Hx : bool_decide (x.1 ∈ cl) = bool_decide (x.1 ∈ cl')).
  { apply bool_decide_ext. apply Hext. cbn. left. }
  unfold delete_rollback in *. cbn [foldr].
  rewrite (IH m cl cl') by (intros k Hk; apply Hext; cbn; right; exact Hk).
  rewrite Hx. reflexivity.
Qed.


(* ------------------------------------------------------------------ *)
(* config-level rollback for CommitCircuits and OpenCircuits            *)

Lemma rollback_commit_cfg c t cs c1 k1 :
  c_thr c !! t = None ->
  step c (ICall t (CCommit cs)) = (c1, OYield k1) ->
  let c2 := (step c1 (IDisk t false)).1 in
  let c3 := (step c2 (IMem t)).1 in
  mem_same (c_mem c) (c_mem c3) /\ c_disk c3 = c_disk c /\ c_thr c3 = c_thr c.
Proof.
  intros Ht H. cbn [step] in H. rewrite Ht in H. cbn [do_call] in H.
  destruct cs as [|c0 cs]; [by simplify_eq|].
  destruct (commit_mem (c_mem c) (c0 :: cs)) as [m1 cr] eqn:E.
  destruct (c_adds cr) eqn:Ea; [by simplify_eq|]. simplify_eq.
  cbn. rewrite lookup_insert. cbn. rewrite lookup_insert. cbn.
  split; [|split; [reflexivity|]].
  - eapply rollback_commit; eauto.
  - rewrite insert_insert, delete_insert by exact Ht. reflexivity.
Qed.

Lemma rollback_open_cfg c t kss c1 k1 :
  c_thr c !! t = None ->
  step c (ICall t (COpen kss)) = (c1, OYield k1) ->
  let c2 := (step c1 (IDisk t false)).1 in
  let c3 := (step c2 (IMem t)).1 in
  c_mem c3 = c_mem c /\ c_disk c3 = c_disk c /\ c_thr c3 = c_thr c.
Proof.
  intros Ht H. cbn [step] in H. rewrite Ht in H. cbn [do_call] in H.
  destruct kss as [|k0 kss]; [by simplify_eq|].
  destruct (open_check (c_mem c) (k0 :: kss)) as [e|ids] eqn:E; [by simplify_eq|]. simplify_eq.
  cbn. rewrite lookup_insert. cbn. rewrite lookup_insert. cbn.
  split; [reflexivity|split; [reflexivity|]].
  rewrite insert_insert, delete_insert by exact Ht. reflexivity.
Qed.

(* ------------------------------------------------------------------ *)
(* restart                                                              *)

Definition core (o : obj) : key * bool * N := (o_inc o, o_loaded o, o_pay o).

Lemma upd_obj_core v id m id' :
  core <$> get_obj (upd_obj (set_out v) id m) id' = core <$> get_obj m id'.
Proof.
  destruct id as [n|k], id' as [n'|k']; cbn; try reflexivity.
  - destruct (decide (n = n')) as [->|Hne]; [rewrite lookup_alter|rewrite lookup_alter_ne by congruence; reflexivity].
    destruct (heapN m !! n'); reflexivity.
  - destruct (decide (k = k')) as [->|Hne]; [rewrite lookup_alter|rewrite lookup_alter_ne by congruence; reflexivity].
    destruct (heapD m !! k'); reflexivity.
Qed.

Lemma trim_mem_core : forall fuel m ch i m' l id,
  trim_mem fuel m ch i = (m', l) -> core <$> get_obj m' id = core <$> get_obj m id.
Proof.
  induction fuel as [|f IH]; intros m ch i m' l id H; cbn [trim_mem] in H.
  - by simplify_eq.
  - destruct (opened m !! (ch, i)) as [id0|]; [|by simplify_eq].
    destruct (trim_mem f _ ch (i + 1)) as [m1 l1] eqn:E. simplify_eq.
    rewrite (IH _ _ _ _ _ id E). apply (upd_obj_core None id0 m id).
Qed.

Definition md_frame (md md' : mem * disk) : Prop :=
  pending md'.1 = pending md.1 /\ closed md'.1 = closed md.1 /\ d_adds md'.2 = d_adds md.2 /\
  forall id, core <$> get_obj md'.1 id = core <$> get_obj md.1 id.

Lemma trim_all_frame : forall act md, md_frame md (trim_all md act).
Proof.
  unfold trim_all.
  induction act as [|a act IH]; intros md; cbn [foldl]; [by repeat split|].
  match goal with |- md_frame _ (foldl _ ?x act) => specialize (IH x); set (md1 := x) in * end.
  assert (H1 : md_frame md md1).
  { subst md1. destruct a as [[[scid isp] tip] ridx]. destruct isp; [by repeat split|].
    destruct (N.eqb scid 0); [by repeat split|].
    destruct (trim_mem _ _ _ _) as [m' outs] eqn:E. cbn.
    repeat split; cbn; eauto using trim_mem_pending, trim_mem_closed, trim_mem_core. }
  destruct IH as (A & B & C & D), H1 as (A1 & B1 & C1 & D1).
  repeat split; first [congruence | intros id; rewrite D; apply D1].
Qed.

Lemma purged_add_spec rc d k :
  purged_add rc d k = true <->
  is_closed (closed_set rc) k.1 = true \/
  exists o, d_ks d !! o = Some k /\ purge_ks_pred rc (o, k) = true.
Proof.
  unfold purged_add. rewrite orb_true_iff, existsb_exists. split.
  - intros [H|((o & i) & Hin & H)]; [left; exact H|right].
    apply elem_of_list_In, elem_of_map_to_list in Hin. apply andb_true_iff in H as [H1 H2].
    apply bool_decide_eq_true in H1. cbn in H1. subst i. eauto.
  - intros [H|(o & Hin & H)]; [left; exact H|right].
    exists (o, k). split; [apply elem_of_list_In, elem_of_map_to_list; exact Hin|].
    apply andb_true_iff. split; [apply bool_decide_eq_true; reflexivity|exact H].
Qed.

Lemma restart_pending rc d nxt m' d' :
  restart rc d nxt = (m', d') ->
  closed m' = ∅ /\
  (forall k pay, d_adds d' !! k = Some pay <-> d_adds d !! k = Some pay /\ purged_add rc d k = false) /\
  (forall k id, pending m' !! k = Some id <-> id = inr k /\ exists pay, d_adds d' !! k = Some pay) /\
  (forall k id o, pending m' !! k = Some id -> get_obj m' id = Some o ->
     o_inc o = k /\ o_loaded o = true /\ d_adds d' !! k = Some (o_pay o)).
Proof.
  unfold restart. intros H.
  pose proof (trim_all_frame (rc_active rc) (restore (clean rc d) nxt)) as (A & B & C & D).
  rewrite H in A, B, C, D. cbn [fst snd] in *.
  assert (Hadds : forall k pay, d_adds d' !! k = Some pay <-> d_adds d !! k = Some pay /\ purged_add rc d k = false).
  { intros k pay. rewrite C. cbn. rewrite map_filter_lookup_Some. cbn.
    destruct (purged_add rc d k); cbn; intuition congruence. }
  assert (Hpend : forall k id, pending m' !! k = Some id <-> id = inr k /\ exists pay, d_adds d' !! k = Some pay).
  { intros k id. rewrite A, C. cbn. rewrite map_lookup_imap.
    destruct (filter _ (d_adds d) !! k) as [pay|]; cbn; [|split; [discriminate|intros [_ [? ?]]; discriminate]].
    split; [intros [= <-]; eauto|intros [-> _]; reflexivity]. }
  split; [rewrite B; reflexivity|]. split; [exact Hadds|]. split; [exact Hpend|].
  intros k id o Hk Ho. apply Hpend in Hk as [-> [pay Hpay]].
  specialize (D (inr k)). rewrite Ho in D. cbn in D. rewrite map_lookup_imap in D.
  rewrite C in Hpay. cbn in Hpay. rewrite Hpay in D. cbn in D. injection D as D1 D2 D3.
  rewrite C. cbn. rewrite Hpay. rewrite D1, D2, D3. auto.
Qed.

(* a restored circuit is never classified Add: it is dropped while it has a
   keystone and FAILED BACK once its keystone was rolled back *)
Lemma restart_classify rc d nxt m' d' k :
  restart rc d nxt = (m', d') -> pending m' !! k <> None ->
  exists o, found_obj m' k = Some o /\ o_loaded o = true /\
    classify (Some o) = match o_out o with Some _ => ADrop | None => AFail end.
Proof.
  intros H Hk. destruct (pending m' !! k) as [id|] eqn:Hp; [|contradiction].
  pose proof (restart_pending _ _ _ _ _ H) as (_ & _ & Hpend & Hobj).
  unfold found_obj. rewrite Hp.
  destruct (get_obj m' id) as [o|] eqn:Ho.
  - destruct (Hobj _ _ _ Hp Ho) as (_ & Hl & _). exists o. cbn. rewrite Hl.
    split; [reflexivity|split; [reflexivity|]]. destruct (o_out o); reflexivity.
  - exfalso. apply Hpend in Hp as [-> [pay Hpay]].
    pose proof (trim_all_frame (rc_active rc) (restore (clean rc d) nxt)) as (_ & _ & C & D).
    unfold restart in H. rewrite H in C, D. cbn [fst snd] in *.
    specialize (D (inr k)). rewrite Ho in D. cbn in D. rewrite map_lookup_imap in D.
    rewrite C in Hpay. cbn in Hpay. rewrite Hpay in D. discriminate.
Qed.
