(* C07 — along every disciplined sequential history the circuit map's memory
   stays coherent; in particular wf_out (hypothesis of C07_rollback) holds. *)
From stdpp Require Import gmap.
From LV Require Import Circuit.Model Circuit.Spec Circuit.Discipline Circuit.Proofs Circuit.RestartProofs Circuit.RollbackProofs.
Local Open Scope N_scope.

(* ------------------------------------------------------------------ *)
(* basic facts                                                          *)

Lemma coherent_wf_out m : mem_coherent m -> wf_out m.
Proof.
  intros (C1 & C2 & _ & _) k id o ok Hp Hg Ho. split; [eauto|].
  destruct (C1 k id Hp) as (o' & Hg' & Hinc). congruence.
Qed.

Lemma coherent_ext m m' :
  pending m' = pending m -> opened m' = opened m -> heapN m' = heapN m -> heapD m' = heapD m ->
  next m' = next m -> mem_coherent m -> mem_coherent m'.
Proof.
  intros Hp Ho Hn Hd Hx (C1 & C2 & C3 & C4).
  assert (Hg : forall id, get_obj m' id = get_obj m id) by (intros; apply get_obj_heap; assumption).
  unfold mem_coherent. rewrite Hp, Ho, Hx. setoid_rewrite Hg. auto.
Qed.

Lemma coherent_init : mem_coherent init_mem.
Proof.
  unfold mem_coherent, init_mem. cbn. repeat split; intros; try (rewrite lookup_empty in *; discriminate).
Qed.

(* two pending keys never share an object *)
Lemma coherent_inj m (k1 k2 : key) id :
  mem_coherent m -> pending m !! k1 = Some id -> pending m !! k2 = Some id -> k1 = k2.
Proof.
  intros (C1 & _) H1 H2. destruct (C1 _ _ H1) as (o1 & G1 & I1). destruct (C1 _ _ H2) as (o2 & G2 & I2).
  congruence.
Qed.

(* ------------------------------------------------------------------ *)
(* CommitCircuits                                                       *)

Lemma coherent_add m (k : key) pay :
  mem_coherent m -> pending m !! k = None ->
  mem_coherent (set_pending (insert k (inl (next m))) (alloc k pay m).1).
Proof.
  intros (C1 & C2 & C3 & C4) Hk. cbn.
  set (nx := next m).
  assert (Hg : forall id, id <> inl nx ->
    get_obj (set_pending <[k:=inl nx]> (Mem (pending m) (opened m) (closed m)
       (<[nx:=Obj k None false pay]> (heapN m)) (heapD m) (nx + 1))) id = get_obj m id).
  { intros [n|kk] Hne; cbn; [|reflexivity]. apply lookup_insert_ne. congruence. }
  assert (Hfresh : forall (k' : key) id, pending m !! k' = Some id -> id <> inl nx).
  { intros k' [n|kk] Hp; [|discriminate]. apply C4 in Hp. unfold nx. intros [=]. lia. }
  split; [|split; [|split]].
  - intros k' id Hp. cbn in Hp. destruct (decide (k' = k)) as [->|Hne].
    + rewrite lookup_insert in Hp. simplify_eq. cbn. rewrite lookup_insert. eauto.
    + rewrite lookup_insert_ne in Hp by congruence. rewrite Hg by eauto. eauto.
  - intros k' id o ok Hp Hgo Ho. cbn in Hp. destruct (decide (k' = k)) as [->|Hne].
    + rewrite lookup_insert in Hp. simplify_eq. cbn in Hgo. rewrite lookup_insert in Hgo. by simplify_eq.
    + rewrite lookup_insert_ne in Hp by congruence. rewrite Hg in Hgo by eauto. cbn. eauto.
  - intros ok id Ho. cbn in Ho. destruct (C3 ok id Ho) as (k' & o & Hp & Hgo & Hout).
    exists k', o. assert (k' <> k) by congruence.
    split; [cbn; rewrite lookup_insert_ne by congruence; exact Hp|]. rewrite Hg by eauto. tauto.
  - intros k' n Hp. cbn in Hp |- *. destruct (decide (k' = k)) as [->|Hne].
    + rewrite lookup_insert in Hp. injection Hp as <-. unfold nx. lia.
    + rewrite lookup_insert_ne in Hp by congruence. apply C4 in Hp. unfold nx. lia.
Qed.

Lemma commit_mem_coherent : forall cs m m' cr,
  commit_mem m cs = (m', cr) -> mem_coherent m -> mem_coherent m'.
Proof.
  induction cs as [|[k pay] r IH]; intros m m' cr H Hc; cbn [commit_mem] in H.
  - by simplify_eq.
  - destruct (classify (found_obj m k)) eqn:Hcl.
    + apply classify_add in Hcl.
      destruct (alloc k pay m) as [m1 id] eqn:Ea.
      match type of H with context [commit_mem ?mm r] => destruct (commit_mem mm r) as [m2 cr2] eqn:E end.
      simplify_eq. eapply IH; [exact E|].
      pose proof (coherent_add m k pay Hc Hcl) as Hadd. rewrite Ea in Hadd. cbn [fst] in Hadd.
      unfold alloc in Ea. simplify_eq. exact Hadd.
    + destruct (commit_mem m r) as [m2 cr2] eqn:E. simplify_eq. eauto.
    + destruct (commit_mem m r) as [m2 cr2] eqn:E. simplify_eq. eauto.
Qed.

Lemma coherent_mem_same m m' : mem_same m m' -> mem_coherent m -> mem_coherent m'.
Proof.
  intros (Hp & Ho & _ & Hd & Hn & Hx) (C1 & C2 & C3 & C4).
  assert (Hg : forall (k : key) id, pending m !! k = Some id -> get_obj m' id = get_obj m id).
  { intros k [n|kk] Hk; cbn; [apply Hn; eauto|rewrite Hd; reflexivity]. }
  unfold mem_coherent. rewrite Hp, Ho. split; [|split; [|split]].
  - intros k id Hk. rewrite (Hg k id Hk). eauto.
  - intros k id o ok Hk. rewrite (Hg k id Hk). eauto.
  - intros ok id Hk. destruct (C3 ok id Hk) as (k & o & Hpk & Hgo & Hout).
    exists k, o. rewrite (Hg k id Hpk). tauto.
  - intros k n Hk. apply C4 in Hk. lia.
Qed.

(* ------------------------------------------------------------------ *)
(* OpenCircuits                                                         *)

Lemma get_obj_open1 id ok m id' :
  get_obj (set_opened (insert ok id) (upd_obj (set_out (Some ok)) id m)) id' =
  if decide (id' = id) then set_out (Some ok) <$> get_obj m id' else get_obj m id'.
Proof. rewrite get_obj_set_opened. apply get_obj_upd. Qed.

Lemma coherent_open1 m (ik ok : key) id o :
  mem_coherent m -> pending m !! ik = Some id -> get_obj m id = Some o -> o_out o = None ->
  opened m !! ok = None ->
  mem_coherent (set_opened (insert ok id) (upd_obj (set_out (Some ok)) id m)).
Proof.
  intros Hc Hp Hg Hout Hop. pose proof Hc as (C1 & C2 & C3 & C4).
  split; [|split; [|split]].
  - intros k' id' Hp'. cbn in Hp'. rewrite upd_obj_pending in Hp'. rewrite get_obj_open1.
    destruct (C1 k' id' Hp') as (o' & Hg' & Hinc). rewrite Hg'.
    destruct (decide (id' = id)); cbn; eauto.
  - intros k' id' o' ok' Hp' Hg' Hout'. cbn in Hp'. rewrite upd_obj_pending in Hp'.
    rewrite get_obj_open1 in Hg'. cbn. rewrite upd_obj_opened.
    destruct (decide (id' = id)) as [->|Hne].
    + rewrite Hg in Hg'. cbn in Hg'. simplify_eq. cbn in Hout'. simplify_eq. apply lookup_insert.
    + pose proof (C2 k' id' o' ok' Hp' Hg' Hout') as Hop'.
      rewrite lookup_insert_ne by congruence. exact Hop'.
  - intros ok' id' Hop'. cbn in Hop'. rewrite upd_obj_opened in Hop'.
    destruct (decide (ok' = ok)) as [->|Hne].
    + rewrite lookup_insert in Hop'. simplify_eq. exists ik, (set_out (Some ok) o).
      split; [cbn; rewrite upd_obj_pending; exact Hp|]. rewrite get_obj_open1, decide_True by reflexivity.
      rewrite Hg. split; reflexivity.
    + rewrite lookup_insert_ne in Hop' by congruence.
      destruct (C3 ok' id' Hop') as (k' & o' & Hp' & Hg' & Hout').
      exists k', o'. split; [cbn; rewrite upd_obj_pending; exact Hp'|].
      rewrite get_obj_open1. rewrite decide_False; [tauto|]. intros ->. congruence.
  - intros k' n Hp'. cbn in Hp'. rewrite upd_obj_pending in Hp'. cbn. rewrite upd_obj_next. eauto.
Qed.

(* what OpenCircuits' check phase established, plus the discipline *)
Definition open_pre (m : mem) (kss : list (key * key)) (ids : list oid) : Prop :=
  Forall2 (fun (ks : key * key) id =>
    pending m !! ks.1 = Some id /\ opened m !! ks.2 = None /\
    exists o, get_obj m id = Some o /\ o_out o = None) kss ids.

Lemma open_pre_step m (ik ok : key) id kss ids :
  mem_coherent m -> pending m !! ik = Some id ->
  open_pre m kss ids -> ik ∉ map fst kss -> ok ∉ map snd kss ->
  open_pre (set_opened (insert ok id) (upd_obj (set_out (Some ok)) id m)) kss ids.
Proof.
  intros Hc Hp Hpre. unfold open_pre in *.
  induction Hpre as [|[ik2 ok2] id2 kss ids (Hp2 & Hop2 & o2 & Hg2 & Hout2) Hrest IH]; intros Hn1 Hn2.
  - constructor.
  - cbn [map fst snd] in *. apply not_elem_of_cons in Hn1 as [Hne1 Hn1]. apply not_elem_of_cons in Hn2 as [Hne2 Hn2].
    constructor; [|apply IH; assumption]. cbn [fst snd].
    assert (id2 <> id).
    { intros ->. apply Hne1. eauto using coherent_inj. }
    split; [cbn; rewrite upd_obj_pending; exact Hp2|].
    split; [cbn; rewrite upd_obj_opened, lookup_insert_ne by congruence; exact Hop2|].
    exists o2. rewrite get_obj_open1, decide_False by assumption. tauto.
Qed.

Lemma open_mem_coherent : forall kss ids m,
  mem_coherent m -> open_pre m kss ids -> NoDup (map fst kss) -> NoDup (map snd kss) ->
  mem_coherent (open_mem m ids kss).
Proof.
  induction kss as [|[ik ok] kss IH]; intros ids m Hc Hpre Hn1 Hn2.
  - destruct ids; exact Hc.
  - destruct ids as [|id ids]; [exact Hc|]. cbn [open_mem].
    apply Forall2_cons in Hpre as [(Hp & Hop & o & Hg & Hout) Hrest]. cbn [fst snd map] in *.
    apply NoDup_cons in Hn1 as [Hni1 Hn1]. apply NoDup_cons in Hn2 as [Hni2 Hn2].
    apply IH; [eapply coherent_open1; eauto| |assumption|assumption].
    apply (open_pre_step m ik ok id); assumption.
Qed.

Lemma open_check_pre : forall kss m ids,
  mem_coherent m -> open_check m kss = inr ids ->
  (forall ik ok, (ik, ok) ∈ kss -> exists o, found_obj m ik = Some o /\ o_out o = None) ->
  open_pre m kss ids.
Proof.
  induction kss as [|[ik ok] kss IH]; intros m ids Hc H Hd; cbn [open_check] in H.
  - simplify_eq. constructor.
  - destruct (opened m !! ok) eqn:Hop; [discriminate|].
    destruct (pending m !! ik) as [id|] eqn:Hp; [|discriminate].
    destruct (open_check m kss) as [e|ids'] eqn:E; [discriminate|]. simplify_eq.
    constructor; [|apply IH; auto; intros ik' ok' Hin; apply (Hd ik' ok'); right; assumption].
    cbn [fst snd]. split; [exact Hp|]. split; [exact Hop|].
    destruct (Hd ik ok ltac:(left)) as (o & Hf & Hout). unfold found_obj in Hf. rewrite Hp in Hf.
    destruct Hc as (C1 & _). destruct (C1 ik id Hp) as (o' & Hg & _). rewrite Hg in Hf. cbn in Hf.
    simplify_eq. eauto.
Qed.

(* ------------------------------------------------------------------ *)
(* TrimOpenCircuits                                                     *)

Lemma trim_mem_coherent m ch s m' l :
  trim_mem (trim_fuel m) m ch s = (m', l) -> mem_coherent m -> mem_coherent m'.
Proof.
  intros E (C1 & C2 & C3 & C4).
  pose proof (trim_mem_pending _ _ _ _ _ _ E) as Hp.
  assert (Hx : next m' = next m).
  { clear -E. revert E. generalize (trim_fuel m). intros f. revert m s m' l.
    induction f as [|f IH]; intros m s m' l E; cbn [trim_mem] in E; [by simplify_eq|].
    destruct (opened m !! (ch, s)); [|by simplify_eq].
    destruct (trim_mem f _ ch (s + 1)) as [m1 l1] eqn:E1. simplify_eq.
    apply IH in E1. rewrite E1. cbn. apply upd_obj_next. }
  apply trim_mem_spec in E as (E1 & E2 & E3); [|unfold trim_fuel; lia].
  assert (Hhit : forall (ok : key) id, opened m !! ok = Some id -> ok ∈ l -> hitb (opened m) l id = true).
  { intros ok id Ho Hin. apply hitb_spec. eauto. }
  unfold mem_coherent. rewrite Hp, Hx. split; [|split; [|split; [|exact C4]]].
  - intros k id Hk. rewrite E3. destruct (C1 k id Hk) as (o & Hg & Hinc). rewrite Hg.
    destruct (hitb _ _ _); cbn; eauto.
  - intros k id o ok Hk Hg Hout. rewrite E3 in Hg. destruct (C1 k id Hk) as (o0 & Hg0 & _). rewrite Hg0 in Hg.
    destruct (hitb (opened m) l id) eqn:Hh; cbn in Hg; simplify_eq; try discriminate.
    pose proof (C2 k id o ok Hk Hg0 Hout) as Hop. rewrite E2.
    case_bool_decide as Hin; [|exact Hop]. rewrite (Hhit ok id Hop Hin) in Hh. discriminate.
  - intros ok id Ho. rewrite E2 in Ho. case_bool_decide as Hin; [discriminate|].
    destruct (C3 ok id Ho) as (k & o & Hk & Hg & Hout). exists k, o. split; [exact Hk|].
    rewrite E3, Hg. destruct (hitb (opened m) l id) eqn:Hh; [|tauto]. exfalso.
    apply hitb_spec in Hh as (ok2 & Hin2 & Ho2).
    destruct (C3 ok2 id Ho2) as (k2 & o2 & Hk2 & Hg2 & Hout2). congruence.
Qed.

(* ------------------------------------------------------------------ *)
(* DeleteCircuits                                                       *)

Lemma del1_opened m (k : key) id :
  opened (del1 m k id) =
  match get_obj m id with
  | Some o => match o_out o with Some ok => delete ok (opened m) | None => opened m end
  | None => opened m
  end.
Proof.
  unfold del1. cbn [closed set_pending].
  assert (Hg : forall m2, heapN m2 = heapN m -> heapD m2 = heapD m -> get_obj m2 id = get_obj m id)
    by (intros; apply get_obj_heap; assumption).
  match goal with |- opened (match get_obj ?mm id with _ => _ end) = _ =>
    rewrite (Hg mm) by (destruct (bool_decide (k ∈ closed m)); reflexivity) end.
  destruct (get_obj m id) as [o|]; [destruct (o_out o)|]; destruct (bool_decide _); reflexivity.
Qed.

Lemma del1_coherent m (k : key) id : mem_coherent m -> pending m !! k = Some id -> mem_coherent (del1 m k id).
Proof.
  intros Hc Hp. pose proof Hc as (C1 & C2 & C3 & C4).
  destruct (del1_heap m k id) as (Hn & Hd & Hx).
  assert (Hg : forall id', get_obj (del1 m k id) id' = get_obj m id') by (intros; apply get_obj_heap; assumption).
  destruct (C1 k id Hp) as (o & Hgo & Hinc).
  unfold mem_coherent. rewrite del1_pending, del1_opened, Hx, Hgo. setoid_rewrite Hg.
  split; [|split; [|split]].
  - intros k' id' Hp'. apply lookup_delete_Some in Hp' as [_ Hp']. eauto.
  - intros k' id' o' ok' Hp' Hg' Hout'. apply lookup_delete_Some in Hp' as [Hne Hp'].
    pose proof (C2 k' id' o' ok' Hp' Hg' Hout') as Hop.
    destruct (o_out o) as [ok|] eqn:Hout; [|exact Hop].
    rewrite lookup_delete_ne; [exact Hop|]. intros ->.
    pose proof (C2 k id o ok' Hp Hgo Hout) as Hop2. rewrite Hop in Hop2. simplify_eq.
    apply Hne. symmetry. eauto using coherent_inj.
  - intros ok' id' Hop.
    assert (Hop0 : opened m !! ok' = Some id' /\ (o_out o = Some ok' -> False)).
    { destruct (o_out o) as [ok|]; [|split; [exact Hop|discriminate]].
      apply lookup_delete_Some in Hop as [Hne Hop]. split; [exact Hop|]. congruence. }
    destruct Hop0 as [Hop0 Hnot].
    destruct (C3 ok' id' Hop0) as (k' & o' & Hp' & Hg' & Hout'). exists k', o'.
    split; [|tauto]. apply lookup_delete_Some. split; [|exact Hp'].
    intros <-. rewrite Hp in Hp'. simplify_eq; auto.
  - intros k' n Hp'. apply lookup_delete_Some in Hp' as [_ Hp']. eauto.
Qed.

Lemma delete_mem_coherent : forall ks m m' rem cl,
  delete_mem m ks = (m', rem, cl) -> mem_coherent m -> mem_coherent m'.
Proof.
  induction ks as [|k r IH]; intros m m' rem cl H Hc.
  - cbn in H. by simplify_eq.
  - destruct (pending m !! k) as [id|] eqn:Hp.
    2:{ cbn [delete_mem] in H. rewrite Hp in H. eauto. }
    rewrite (delete_mem_cons_some _ _ _ _ Hp) in H.
    destruct (delete_mem (del1 m k id) r) as [[m2 rem2] cl2] eqn:E. simplify_eq.
    eapply IH; [exact E|]. apply del1_coherent; assumption.
Qed.

(* ------------------------------------------------------------------ *)
(* restart                                                              *)

Lemma max_key_in l (o : key) : max_key l = Some o -> o ∈ l.
Proof.
  revert o. induction l as [|x r IH]; intros o H; [discriminate|]. rewrite max_key_cons in H.
  destruct (max_key r) as [b|]; [|simplify_eq; left].
  destruct (key_leb x b); simplify_eq; [right; auto|left].
Qed.

Lemma restore_coherent d nxt :
  single_keystone (d_ks d) -> mem_coherent (restore d nxt).1.
Proof.
  intros Hs. pose proof (restore_spec d nxt) as R. destruct (restore d nxt) as [m0 d0] eqn:ER.
  destruct R as (R1 & R2 & _). cbn [fst].
  assert (Hp : forall (k : key) id, pending m0 !! k = Some id <-> id = inr k /\ d_adds d !! k <> None).
  { unfold restore in ER. simplify_eq. cbn. intros k id. rewrite map_lookup_imap.
    destruct (d_adds d !! k); cbn; split; try (intros [= <-]); try (intros [-> ?]); try tauto; try discriminate.
    split; [reflexivity|discriminate]. }
  split; [|split; [|split]].
  - intros k id Hk. apply Hp in Hk as [-> Hk]. rewrite R2. destruct (d_adds d !! k); [|contradiction]. cbn. eauto.
  - intros k id o ok Hk Hg Hout. apply Hp in Hk as [-> Hk]. rewrite R2 in Hg.
    destruct (d_adds d !! k) as [pay|] eqn:Hpay; [|contradiction]. cbn in Hg. simplify_eq. cbn in Hout.
    apply max_key_in, elem_of_outs_of in Hout. rewrite R1, Hout, Hpay. reflexivity.
  - intros ok id Ho. rewrite R1 in Ho. destruct (d_ks d !! ok) as [k|] eqn:Hks; [|discriminate].
    destruct (d_adds d !! k) as [pay|] eqn:Hpay; [|discriminate]. simplify_eq.
    exists k, (Obj k (max_key (outs_of (d_ks d) k)) true pay).
    split; [apply Hp; split; [reflexivity|congruence]|]. rewrite R2, Hpay. split; [reflexivity|]. cbn.
    apply max_key_const.
    + intros Hnil. assert (Hin : ok ∈ outs_of (d_ks d) k) by (apply elem_of_outs_of; exact Hks).
      rewrite Hnil in Hin. apply elem_of_nil in Hin. exact Hin.
    + intros x Hx. apply elem_of_outs_of in Hx. eauto.
  - intros k n Hk. apply Hp in Hk as [[=] _].
Qed.

Lemma trim_all_coherent : forall act md, mem_coherent md.1 -> mem_coherent (trim_all md act).1.
Proof.
  induction act as [|a act IH]; intros md Hc; [exact Hc|].
  rewrite trim_all_cons. apply IH. unfold trim_entry.
  destruct (act_start a) as [[ch s]|]; [|exact Hc].
  destruct (trim_mem (trim_fuel md.1) md.1 ch s) as [m' outs] eqn:E. cbn [fst].
  eapply trim_mem_coherent; eauto.
Qed.

Lemma restart_coherent rc d nxt :
  single_keystone (d_ks d) -> mem_coherent (restart rc d nxt).1.
Proof.
  intros Hs. unfold restart. apply trim_all_coherent, restore_coherent, single_keystone_clean, Hs.
Qed.

(* ------------------------------------------------------------------ *)
(* the invariant along disciplined sequential histories                 *)

Definition inv (c : config) : Prop := c_thr c = ∅ /\ mem_coherent (c_mem c).

Lemma thr_done (k k' : cont) : delete 0 (<[0:=k']> (<[0:=k]> (∅ : gmap N cont))) = ∅.
Proof. rewrite insert_insert, delete_insert by apply lookup_empty. reflexivity. Qed.

Lemma sstep_inv c o : inv c -> op_disciplined c o -> inv (sstep c o).
Proof.
  intros [Ht Hc] Hd. destruct c as [m d thr]. cbn in Ht, Hc, Hd. subst thr.
  destruct o as [cl ok|rc].
  2:{ cbn. destruct (restart rc d (next m)) as [m' d'] eqn:E. cbn. split; [reflexivity|].
      change m' with (m', d').1. rewrite <- E. apply restart_coherent. exact Hd. }
  unfold sstep. cbn [run step c_thr]. rewrite lookup_empty. cbn [c_mem c_disk].
  destruct cl as [cs|kss|ch st|okk|ik|ks]; cbn [do_call].
  - (* CommitCircuits *)
    destruct cs as [|c0 cs]; [cbn; rewrite lookup_empty; cbn; split; [reflexivity|exact Hc]|].
    destruct (commit_mem m (c0 :: cs)) as [m1 cr] eqn:E.
    pose proof (commit_mem_coherent _ _ _ _ E Hc) as Hc1.
    destruct (c_adds cr) as [|a adds] eqn:Ea.
    + cbn. rewrite lookup_empty. cbn. split; [reflexivity|exact Hc1].
    + cbn. rewrite lookup_insert. cbn. rewrite lookup_insert.
      destruct ok; cbn; (split; [apply thr_done|]); [exact Hc1|].
      eapply coherent_mem_same; [eapply rollback_commit; exact E|exact Hc].
  - (* OpenCircuits *)
    destruct kss as [|k0 kss]; [cbn; rewrite lookup_empty; cbn; split; [reflexivity|exact Hc]|].
    destruct (open_check m (k0 :: kss)) as [e|ids] eqn:E.
    + cbn. rewrite lookup_empty. cbn. split; [reflexivity|exact Hc].
    + cbn. rewrite lookup_insert. cbn. rewrite lookup_insert.
      destruct ok; cbn; (split; [apply thr_done|]); [|exact Hc].
      destruct Hd as (Hn1 & Hn2 & Hhalf).
      apply open_mem_coherent; auto. apply open_check_pre; auto.
  - (* TrimOpenCircuits *)
    destruct (trim_mem (trim_fuel m) m ch st) as [m1 outs] eqn:E.
    pose proof (trim_mem_coherent _ _ _ _ _ E Hc) as Hc1.
    destruct outs as [|x outs].
    + cbn. rewrite lookup_empty. cbn. split; [reflexivity|exact Hc1].
    + cbn. rewrite lookup_insert. cbn. rewrite lookup_insert. cbn. split; [apply thr_done|exact Hc1].
  - (* CloseCircuit *)
    destruct (close_circuit m okk) as [m1 r] eqn:E. cbn. rewrite lookup_empty. cbn.
    split; [reflexivity|]. unfold close_circuit in E.
    destruct (opened m !! okk); [|by simplify_eq]. destruct (bool_decide _); simplify_eq; [exact Hc|].
    eapply coherent_ext; [..|exact Hc]; reflexivity.
  - (* FailCircuit *)
    destruct (fail_circuit m ik) as [m1 r] eqn:E. cbn. rewrite lookup_empty. cbn.
    split; [reflexivity|]. unfold fail_circuit in E.
    destruct (pending m !! ik); [|by simplify_eq]. destruct (bool_decide _); simplify_eq; [exact Hc|].
    eapply coherent_ext; [..|exact Hc]; reflexivity.
  - (* DeleteCircuits *)
    destruct (delete_mem m ks) as [[m1 rem] cl] eqn:E.
    cbn. rewrite lookup_insert. cbn. rewrite lookup_insert.
    destruct ok; cbn; (split; [apply thr_done|]).
    + eapply delete_mem_coherent; eauto.
    + rewrite (rollback_delete _ _ _ _ _ (coherent_wf_out _ Hc) E). exact Hc.
Qed.

Lemma srun_inv : forall ops c, inv c -> seq_disciplined c ops -> inv (srun c ops).
Proof.
  induction ops as [|o ops IH]; intros c Hi Hd; [exact Hi|].
  destruct Hd as [Hd1 Hd2]. cbn. apply IH; [apply sstep_inv; assumption|exact Hd2].
Qed.

Lemma discipline_invariant ops :
  seq_disciplined init ops ->
  let c := srun init ops in
  c_thr c = ∅ /\ mem_coherent (c_mem c) /\ wf_out (c_mem c).
Proof.
  intros Hd. destruct (srun_inv ops init) as [Ht Hc]; [split; [reflexivity|apply coherent_init]|exact Hd|].
  cbn zeta. split; [exact Ht|]. split; [exact Hc|]. apply coherent_wf_out, Hc.
Qed.

(* ------------------------------------------------------------------ *)
(* decidable form of the discipline (for examples and tests)            *)

Definition single_keystoneb (ks : gmap key key) : bool :=
  bool_decide (NoDup ((map_to_list ks).*2)).

Lemma single_keystoneb_sound ks : single_keystoneb ks = true -> single_keystone ks.
Proof.
  intros H o1 o2 k H1 H2. apply bool_decide_eq_true in H.
  apply elem_of_map_to_list in H1, H2.
  apply elem_of_list_lookup in H1 as [i Hi]. apply elem_of_list_lookup in H2 as [j Hj].
  assert (i = j).
  { eapply NoDup_lookup; [exact H| |]; rewrite list_lookup_fmap; [rewrite Hi|rewrite Hj]; reflexivity. }
  subst j. congruence.
Qed.

Definition half_openb (m : mem) (ik : key) : bool :=
  match found_obj m ik with
  | Some o => match o_out o with None => true | Some _ => false end
  | None => false
  end.

Definition call_disciplinedb (m : mem) (c : call) : bool :=
  match c with
  | COpen kss =>
    bool_decide (NoDup (map fst kss)) && bool_decide (NoDup (map snd kss)) &&
    forallb (fun ks : key * key => half_openb m ks.1) kss
  | CDelete ks =>
    forallb (fun k : key => match pending m !! k with
                            | None => true
                            | Some _ => bool_decide (k ∈ closed m)
                            end) ks
  | _ => true
  end.

Lemma call_disciplinedb_sound m c : call_disciplinedb m c = true -> call_disciplined m c.
Proof.
  destruct c as [cs|kss|ch st|ok|ik|ks]; cbn; try (intros; exact I).
  - intros H. apply andb_true_iff in H as [H H3]. apply andb_true_iff in H as [H1 H2].
    apply bool_decide_eq_true in H1. apply bool_decide_eq_true in H2.
    split; [exact H1|]. split; [exact H2|]. intros ik ok Hin.
    rewrite forallb_forall in H3. specialize (H3 (ik, ok)). cbn in H3.
    unfold half_openb in H3. apply elem_of_list_In in Hin. specialize (H3 Hin).
    destruct (found_obj m ik) as [o|]; [|discriminate]. destruct (o_out o) eqn:Ho; [discriminate|]. eauto.
  - intros H k Hin Hp. rewrite forallb_forall in H. apply elem_of_list_In in Hin. specialize (H k Hin).
    destruct (pending m !! k); [|contradiction]. apply bool_decide_eq_true in H. exact H.
Qed.

Fixpoint seq_disciplinedb (c : config) (ops : list sop) : bool :=
  match ops with
  | [] => true
  | o :: r =>
    match o with
    | SCall cl _ => call_disciplinedb (c_mem c) cl
    | SRestart _ => single_keystoneb (d_ks (c_disk c))
    end && seq_disciplinedb (sstep c o) r
  end.

Lemma seq_disciplinedb_sound : forall ops c, seq_disciplinedb c ops = true -> seq_disciplined c ops.
Proof.
  induction ops as [|o ops IH]; intros c H; [exact I|]. cbn [seq_disciplinedb] in H.
  apply andb_true_iff in H as [H1 H2]. split; [|apply IH; exact H2].
  destruct o; [apply call_disciplinedb_sound|apply single_keystoneb_sound]; exact H1.
Qed.
