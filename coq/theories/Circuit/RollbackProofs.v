(* C07 — DeleteCircuits: a failed transaction restores memory exactly
   (given wf_out), and TrimOpenCircuits has no rollback. *)
From stdpp Require Import gmap.
From LV Require Import Circuit.Model Circuit.Spec Circuit.Proofs Circuit.RestartProofs.
Local Open Scope N_scope.

(* one iteration of DeleteCircuits' first loop on a pending key *)
Definition del1 (m : mem) (k : key) (id : oid) : mem :=
  let m1 := set_pending (delete k) m in
  let m2 := if bool_decide (k ∈ closed m1) then set_closed (fun c => c ∖ {[ k ]}) m1 else m1 in
  match get_obj m2 id with
  | Some o => match o_out o with
              | Some ok => set_opened (delete ok) m2
              | None => m2
              end
  | None => m2
  end.

(* one iteration of the rollback loop *)
Definition undo1 (x : key * oid) (cl : list key) (a : mem) : mem :=
  let a1 := set_pending (insert x.1 x.2) a in
  let a2 := if bool_decide (x.1 ∈ cl) then set_closed (union {[ x.1 ]}) a1 else a1 in
  match get_obj a2 x.2 with
  | Some o => match o_out o with
              | Some ok => set_opened (insert ok x.2) a2
              | None => a2
              end
  | None => a2
  end.

Lemma delete_rollback_cons m x rem cl :
  delete_rollback m (x :: rem) cl = undo1 x cl (delete_rollback m rem cl).
Proof. reflexivity. Qed.

Lemma delete_mem_cons_some m k r id :
  pending m !! k = Some id ->
  delete_mem m (k :: r) =
  let '(m', rem, cl) := delete_mem (del1 m k id) r in
  (m', (k, id) :: rem, if bool_decide (k ∈ closed m) then k :: cl else cl).
Proof. intros H. cbn [delete_mem]. rewrite H. reflexivity. Qed.

Lemma get_obj_heap m m' id : heapN m' = heapN m -> heapD m' = heapD m -> get_obj m' id = get_obj m id.
Proof. intros A B. destruct id; cbn; congruence. Qed.

Lemma del1_heap m k id : heapN (del1 m k id) = heapN m /\ heapD (del1 m k id) = heapD m /\ next (del1 m k id) = next m.
Proof. unfold del1. repeat case_match; cbn; auto. Qed.

Lemma del1_pending m k id : pending (del1 m k id) = delete k (pending m).
Proof. unfold del1. repeat case_match; reflexivity. Qed.

Lemma mem_ext (m m' : mem) :
  pending m = pending m' -> opened m = opened m' -> closed m = closed m' ->
  heapN m = heapN m' -> heapD m = heapD m' -> next m = next m' -> m = m'.
Proof. destruct m, m'; cbn; intros; subst; reflexivity. Qed.

Lemma undo1_del1 m (k : key) id cl :
  wf_out m -> pending m !! k = Some id -> (k ∈ cl <-> k ∈ closed m) ->
  undo1 (k, id) cl (del1 m k id) = m.
Proof.
  intros Hwf Hp Hcl. unfold undo1, del1. cbn [fst snd].
  assert (Hbc : bool_decide (k ∈ cl) = bool_decide (k ∈ closed m)) by (apply bool_decide_ext; exact Hcl).
  rewrite Hbc. clear Hbc Hcl. pose proof (Hwf k id) as Hw. clear Hwf.
  assert (Hset : forall c : gset key, k ∈ c -> {[k]} ∪ c ∖ {[k]} = c).
  { intros c Hc. apply set_eq. intros x.
    rewrite elem_of_union, elem_of_singleton, elem_of_difference, elem_of_singleton.
    destruct (decide (x = k)) as [->|]; tauto. }
  destruct m as [p o c hn hd nx]. cbn in Hp, Hw.
  destruct id as [n|kk]; cbn in Hw |- *.
  - destruct (bool_decide (k ∈ c)) eqn:Hb; cbn;
      (destruct (hn !! n) as [ob|] eqn:Ho; cbn; [destruct (o_out ob) as [ok|] eqn:Hout; cbn|]);
      rewrite ?Ho; cbn; rewrite ?Hout; cbn;
      try (apply bool_decide_eq_true in Hb);
      try (destruct (Hw ob ok Hp eq_refl Hout) as [Hop _]);
      unfold set_opened, set_closed, set_pending; cbn;
      f_equal; auto; apply insert_delete; assumption.
  - destruct (bool_decide (k ∈ c)) eqn:Hb; cbn;
      (destruct (hd !! kk) as [ob|] eqn:Ho; cbn; [destruct (o_out ob) as [ok|] eqn:Hout; cbn|]);
      rewrite ?Ho; cbn; rewrite ?Hout; cbn;
      try (apply bool_decide_eq_true in Hb);
      try (destruct (Hw ob ok Hp eq_refl Hout) as [Hop _]);
      unfold set_opened, set_closed, set_pending; cbn;
      f_equal; auto; apply insert_delete; assumption.
Qed.

Lemma del1_wf m (k : key) id : wf_out m -> pending m !! k = Some id -> wf_out (del1 m k id).
Proof.
  intros Hwf Hp k' id' o' ok' Hp' Hg' Ho'.
  rewrite del1_pending in Hp'. apply lookup_delete_Some in Hp' as [Hne Hp'].
  destruct (del1_heap m k id) as (Hn & Hd & _).
  rewrite (get_obj_heap m _ id' Hn Hd) in Hg'.
  destruct (Hwf k' id' o' ok' Hp' Hg' Ho') as [Hop Hinc]. split; [|exact Hinc].
  unfold del1. cbn [closed set_pending].
  assert (Hg : forall m2, heapN m2 = heapN m -> heapD m2 = heapD m -> get_obj m2 id = get_obj m id)
    by (intros; apply get_obj_heap; assumption).
  match goal with |- opened (match get_obj ?mm id with _ => _ end) !! _ = _ =>
    rewrite (Hg mm) by (destruct (bool_decide (k ∈ closed m)); reflexivity) end.
  destruct (get_obj m id) as [ob|] eqn:Hob.
  2:{ destruct (bool_decide _); exact Hop. }
  destruct (o_out ob) as [ok|] eqn:Hout.
  2:{ destruct (bool_decide _); exact Hop. }
  destruct (Hwf k id ob ok Hp Hob Hout) as [Hopk Hinck].
  assert (ok' <> ok).
  { intros ->. rewrite Hopk in Hop. simplify_eq; congruence. }
  destruct (bool_decide _); cbn; rewrite lookup_delete_ne by congruence; exact Hop.
Qed.

(* DeleteCircuits: memory phase followed by the rollback of a failed
   transaction is the identity on a well-formed memory *)
Lemma rollback_delete : forall ks m m1 rem cl,
  wf_out m -> delete_mem m ks = (m1, rem, cl) -> delete_rollback m1 rem cl = m.
Proof.
  induction ks as [|k r IH]; intros m m1 rem cl Hwf H.
  - cbn in H. simplify_eq. reflexivity.
  - destruct (pending m !! k) as [id|] eqn:Hp.
    2:{ cbn [delete_mem] in H. rewrite Hp in H. eauto. }
    rewrite (delete_mem_cons_some _ _ _ _ Hp) in H.
    destruct (delete_mem (del1 m k id) r) as [[m' rem'] cl'] eqn:E.
    injection H as <- <- <-.
    rewrite delete_rollback_cons.
    assert (Hknot : k ∉ map fst rem').
    { intros Hin. apply (delete_mem_rem_pending _ _ _ _ _ E) in Hin. apply Hin.
      rewrite del1_pending. apply lookup_delete. }
    assert (Hkcl : k ∉ cl').
    { intros Hin. apply Hknot. eapply delete_mem_cl; eauto. }
    rewrite (delete_rollback_cl_ext rem' m' _ cl').
    2:{ intros k' Hk'. destruct (bool_decide (k ∈ closed m)); [|reflexivity].
        rewrite elem_of_cons. split; [intros [->|]; [contradiction|assumption]|tauto]. }
    rewrite (IH _ _ _ _ (del1_wf _ _ _ Hwf Hp) E).
    apply undo1_del1; [exact Hwf|exact Hp|].
    destruct (bool_decide (k ∈ closed m)) eqn:Hb.
    + apply bool_decide_eq_true in Hb. split; [intros _; exact Hb|intros _; left].
    + apply bool_decide_eq_false in Hb. split; [intros; contradiction|intros; contradiction].
Qed.

Lemma rollback_delete_cfg c t ks c1 k1 :
  wf_out (c_mem c) ->
  c_thr c !! t = None ->
  step c (ICall t (CDelete ks)) = (c1, OYield k1) ->
  let c2 := (step c1 (IDisk t false)).1 in
  let c3 := (step c2 (IMem t)).1 in
  c_mem c3 = c_mem c /\ c_disk c3 = c_disk c /\ c_thr c3 = c_thr c.
Proof.
  intros Hwf Ht H. cbn [step] in H. rewrite Ht in H. cbn [do_call] in H.
  destruct (delete_mem (c_mem c) ks) as [[m1 rem] cl] eqn:E. simplify_eq.
  cbn. rewrite lookup_insert. cbn. rewrite lookup_insert. cbn.
  split; [|split; [reflexivity|]].
  - eapply rollback_delete; eauto.
  - rewrite insert_insert, delete_insert by exact Ht. reflexivity.
Qed.

(* TrimOpenCircuits has NO rollback: after a failed transaction the call
   returns the error and memory stays trimmed while the disk keeps the
   keystones *)
Lemma trim_no_rollback c t ch s c1 outs :
  c_thr c !! t = None ->
  step c (ICall t (CTrim ch s)) = (c1, OYield (KTrim outs)) ->
  let c2 := (step c1 (IDisk t false)).1 in
  let '(c3, o) := step c2 (IMem t) in
  o = OErr E_DISK /\ c_mem c3 = c_mem c1 /\ c_disk c3 = c_disk c /\ c_thr c3 = c_thr c /\
  outs <> [] /\ forall x, x ∈ outs -> opened (c_mem c) !! x <> None /\ opened (c_mem c3) !! x = None.
Proof.
  intros Ht H. cbn [step] in H. rewrite Ht in H. cbn [do_call] in H.
  destruct (trim_mem (trim_fuel (c_mem c)) (c_mem c) ch s) as [m1 l] eqn:E.
  destruct l as [|x0 l]; [by simplify_eq|]. simplify_eq.
  cbn. rewrite lookup_insert. cbn. rewrite lookup_insert. cbn.
  split; [reflexivity|]. split; [reflexivity|]. split; [reflexivity|].
  split; [rewrite insert_insert, delete_insert by exact Ht; reflexivity|].
  split; [discriminate|]. intros x Hx.
  pose proof E as E'. apply trim_mem_spec in E' as (E1 & E2 & _); [|unfold trim_fuel; lia].
  split.
  - apply E1 in Hx as (Hc & Hle & Hall). destruct x as [xc xh]. cbn in *. subst xc. apply Hall. lia.
  - rewrite E2. rewrite bool_decide_eq_true_2 by exact Hx. reflexivity.
Qed.

(* decidable form of wf_out, for examples and tests *)
Definition wf_outb (m : mem) : bool :=
  bool_decide (map_Forall (fun (k : key) (id : oid) =>
    match get_obj m id with
    | Some o => match o_out o with
                | Some ok => bool_decide (opened m !! ok = Some id) && bool_decide (o_inc o = k)
                | None => true
                end
    | None => true
    end = true) (pending m)).

Lemma wf_outb_sound m : wf_outb m = true -> wf_out m.
Proof.
  unfold wf_outb. intros H. apply bool_decide_eq_true in H.
  intros k id o ok Hp Hg Ho. specialize (H k id Hp). cbn in H. rewrite Hg, Ho in H.
  apply andb_true_iff in H as [H1 H2].
  apply bool_decide_eq_true in H1. apply bool_decide_eq_true in H2. tauto.
Qed.
