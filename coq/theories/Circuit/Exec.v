(* C07 trace checker for the correspondence run: replays the inputs the Go
   harness applied to the real circuitMap and compares, after EVERY phase
   step, the returned value and the full observable state
   (NumPending, NumOpen, LookupCircuit/LookupOpenCircuit over the universe). *)
From stdpp Require Import gmap.
From LV Require Import Circuit.Model.
Local Open Scope N_scope.

(* what the harness saw *)
Inductive obs :=
| BYield
| BCommit (adds drops fails : list key) (err : bool)
| BErr (e : N)
| BCirc (v : view)
| BRestarted.

Definition snap := (N * N * list (key * view) * list (key * view))%type.

Definition match_out (o : out) (b : obs) : bool :=
  match o, b with
  | OYield _, BYield => true
  | OCommit a d f e, BCommit a' d' f' e' =>
    bool_decide (a = a') && bool_decide (d = d') && bool_decide (f = f') && bool_decide (e = e')
  | OErr e, BErr e' => N.eqb e e'
  | OCirc v, BCirc v' => bool_decide (v = v')
  | ORestarted, BRestarted => true
  | _, _ => false
  end.

Definition tstep := (input * obs * snap)%type.

Fixpoint check_steps (univ : list key) (c : config) (st : list tstep) (i : N) (bad : list N) : list N :=
  match st with
  | [] => rev bad
  | (inp, b, sn) :: r =>
    let '(c', o) := step c inp in
    let ok := match_out o b && bool_decide (snapshot univ (c_mem c') = sn) in
    check_steps univ c' r (i + 1) (if ok then bad else i :: bad)
  end.

Definition tcase := (list key * list tstep)%type.

Definition check_case (tc : tcase) : list N := check_steps tc.1 init tc.2 0 [].

Fixpoint mismatches (cases : list tcase) (i : N) : list (N * list N) :=
  match cases with
  | [] => []
  | c :: r =>
    match check_case c with
    | [] => mismatches r (i + 1)
    | bad => (i, bad) :: mismatches r (i + 1)
    end
  end.

(* first-mismatch diagnostics for replays: model output and snapshot at a step *)
Fixpoint model_at (univ : list key) (c : config) (st : list tstep) (n : nat) : option (out * snap) :=
  match st with
  | [] => None
  | (inp, _, _) :: r =>
    let '(c', o) := step c inp in
    match n with
    | O => Some (o, snapshot univ (c_mem c'))
    | S n' => model_at univ c' r n'
    end
  end.
