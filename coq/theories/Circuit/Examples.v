(* C07 — non-vacuity: the hypotheses of the theorems are met by concrete,
   non-trivial runs (evaluated by vm_compute; these are examples, not the
   theorems). *)
From stdpp Require Import gmap.
From LV Require Import Circuit.Model Circuit.Spec Circuit.Discipline Circuit.Proofs Circuit.RestartProofs
  Circuit.RollbackProofs Circuit.DisciplineProofs Circuit.Identity Circuit.IdentityProofs Circuit.Props.
Local Open Scope N_scope.

Definition k1 : key := (1, 0).
Definition o1 : key := (2, 0).
Definition o2 : key := (2, 1).

(* commit k1, open, settle (close), delete, commit k1 again: two Add decisions
   and the delete in between *)
Definition ins_lifecycle : list input :=
  [ ICall 0 (CCommit [(k1, 5)]); IDisk 0 true; IMem 0;
    ICall 0 (COpen [(k1, o1)]); IDisk 0 true; IMem 0;
    ICall 1 (CClose o1); ICall 2 (CFail k1);
    ICall 0 (CDelete [k1]); IDisk 0 true; IMem 0;
    ICall 0 (CCommit [(k1, 6)]); IDisk 0 true; IMem 0;
    ICall 0 (CFail k1) ].

Example lifecycle_events :
  let tr := (run init ins_lifecycle).2 in
  map ev_add_decided tr !! 0%nat = Some [k1] /\
  map ev_add_decided tr !! 11%nat = Some [k1] /\
  map ev_removed tr !! 8%nat = Some [k1] /\
  map ev_responded tr !! 6%nat = Some (Some k1) /\
  map ev_responded tr !! 7%nat = Some None /\      (* second response refused: ErrCircuitClosing *)
  map ev_responded tr !! 14%nat = Some (Some k1).   (* new incarnation after the delete *)
Proof. vm_compute. repeat split; reflexivity. Qed.

(* restart: keystone o2 of k=(1,1) is above the committed index 1 and is rolled
   back -> the re-forward is FAILED; (1,0) keeps its keystone -> dropped;
   circuit (3,0) of the fully closed channel 3 is purged *)
Definition disk_ex : disk :=
  Disk (<[(1,0):=5]> (<[(1,1):=6]> (<[(3,0):=7]> ∅))) (<[o1:=(1,0)]> (<[o2:=(1,1)]> ∅)).
Definition rc_ex : rconf := RConf [(3, false)] [] [(2, false, None, 1)].

Example restart_ex :
  let '(m', d') := restart rc_ex disk_ex 0 in
  classify (found_obj m' (1,1)) = AFail /\ classify (found_obj m' (1,0)) = ADrop /\
  classify (found_obj m' (3,0)) = AAdd /\
  d_ks d' !! o2 = None /\ d_ks d' !! o1 = Some (1,0) /\ d_adds d' !! (3,0) = None /\
  size (pending m') = 2%nat /\ size (opened m') = 1%nat.
Proof. vm_compute. repeat split; reflexivity. Qed.

(* rollback hypothesis is satisfiable: a commit that yields, from a non-empty state *)
Example rollback_ex :
  let c := (run init [ICall 0 (CCommit [((1,0), 5)]); IDisk 0 true; IMem 0]).1 in
  c_thr c !! 1 = None /\
  exists c1 k, step c (ICall 1 (CCommit [((1,1), 6); ((1,0), 5)])) = (c1, OYield k).
Proof. split; [vm_compute; reflexivity|]. eexists _, _. vm_compute. reflexivity. Qed.

(* QUIRK of the code, kept in the model: a failed TrimOpenCircuits transaction
   is NOT rolled back — memory has dropped the keystone, the disk still has it *)
Example trim_failure_not_rolled_back :
  let c := (run init [ICall 0 (CCommit [(k1, 5)]); IDisk 0 true; IMem 0;
                      ICall 0 (COpen [(k1, o1)]); IDisk 0 true; IMem 0]).1 in
  let c' := (run c [ICall 0 (CTrim 2 0); IDisk 0 false; IMem 0]).1 in
  opened (c_mem c) !! o1 <> None /\ opened (c_mem c') !! o1 = None /\
  d_ks (c_disk c') !! o1 = Some k1.
Proof. vm_compute. repeat split; try reflexivity. discriminate. Qed.

(* QUIRK: OpenCircuits does not check that the circuit already has a keystone;
   a second keystone for the same incoming key leaves a dangling open circuit
   after DeleteCircuits (the link never does this: one keystone per packet) *)
Example double_keystone_dangles :
  let c := (run init [ICall 0 (CCommit [(k1, 5)]); IDisk 0 true; IMem 0;
                      ICall 0 (COpen [(k1, o1)]); IDisk 0 true; IMem 0;
                      ICall 0 (COpen [(k1, o2)]); IDisk 0 true; IMem 0;
                      ICall 0 (CDelete [k1]); IDisk 0 true; IMem 0]).1 in
  pending (c_mem c) !! k1 = None /\ opened (c_mem c) !! o1 <> None /\
  d_ks (c_disk c) !! o1 = Some k1.
Proof. vm_compute. repeat split; try reflexivity. discriminate. Qed.

(* ------------------------------------------------------------------ *)
(* C07_restart_exact: its hypotheses hold for a disk with a block of two
   uncommitted keystones above NextLocalHtlcIndex = 1 and one committed below *)
Definition disk_ex2 : disk :=
  Disk (<[(1,0):=5]> (<[(1,1):=6]> (<[(1,2):=7]> ∅)))
       (<[(2,0):=(1,0)]> (<[(2,1):=(1,1)]> (<[(2,2):=(1,2)]> ∅))).
Definition rc_ex2 : rconf := RConf [] [] [(2, false, Some 1, 0)].

Ltac lookups :=
  repeat match goal with
  | H : <[_:=_]> _ !! _ = Some _ |- _ => apply lookup_insert_Some in H as [[? ?]|[? H]]
  | H : ∅ !! _ = Some _ |- _ => rewrite lookup_empty in H; discriminate
  end.

Example restart_exact_hyp : contiguous_on_disk rc_ex2 disk_ex2 /\ single_keystone (d_ks disk_ex2).
Proof.
  split.
  - intros a ch s Ha Hs j k Hl Hle i Hi.
    apply elem_of_list_singleton in Ha. subst a. vm_compute in Hs. injection Hs as <- <-.
    destruct Hl as (Hks & _). cbn in Hks. lookups; simplify_eq; try lia.
    + assert (i = 1) as -> by lia. exists (1, 1). vm_compute. repeat split; try reflexivity; discriminate.
    + assert (i = 1 \/ i = 2) as [-> | ->] by lia.
      * exists (1, 1). vm_compute. repeat split; try reflexivity; discriminate.
      * exists (1, 2). vm_compute. repeat split; try reflexivity; discriminate.
  - intros o1' o2' k H1 H2. cbn in H1, H2. lookups; simplify_eq; reflexivity.
Qed.

Example restart_exact_ex :
  let '(m', d') := restart rc_ex2 disk_ex2 0 in
  opened m' !! (2,0) = Some (inr (1,0)) /\ opened m' !! (2,1) = None /\ opened m' !! (2,2) = None /\
  d_ks d' !! (2,0) = Some (1,0) /\ d_ks d' !! (2,1) = None /\ d_ks d' !! (2,2) = None /\
  classify (found_obj m' (1,0)) = ADrop /\ classify (found_obj m' (1,1)) = AFail /\
  classify (found_obj m' (1,2)) = AFail /\ size (pending m') = 3%nat.
Proof. vm_compute. repeat split; reflexivity. Qed.

(* C07_restart_identity: a CONFIRMED ZERO-CONF channel - its link (and every keystone)
   uses the alias 160, the record also carries the confirmed on-chain scid 7 - next to
   a regular channel 9; one keystone committed (index 0 < NextLocalHtlcIndex = 1), two
   uncommitted.  The hypotheses hold and the restart rolls back (160,1), (160,2). *)
Definition disk_id : disk :=
  Disk (<[(1,0):=5]> (<[(1,1):=6]> (<[(1,2):=7]> ∅)))
       (<[(160,0):=(1,0)]> (<[(160,1):=(1,1)]> (<[(160,2):=(1,2)]> ∅))).
Definition recs_id : list chanrec :=
  [ChanRec 160 true true 7 false (Some 1) 0; ChanRec 9 false false 0 false None 0].
Definition rc_id : rconf := rc_of_records [] [] recs_id.

Example restart_identity_hyp :
  contiguous_on_disk rc_id disk_id /\ single_keystone (d_ks disk_id) /\
  (exists r, r ∈ recs_id /\ cr_pending r = false /\ link_scid r <> 0 /\ cr_zeroconf r = true /\
     cr_confirmed r <> 0 /\ cr_confirmed r <> link_scid r).
Proof.
  split; [|split].
  - intros a ch s Ha Hs j k Hl Hle i Hi.
    apply elem_of_cons in Ha as [-> | Ha]; [|apply elem_of_list_singleton in Ha; subst a];
      vm_compute in Hs; injection Hs as <- <-;
      destruct Hl as (Hks & _); cbn in Hks; lookups; simplify_eq; try lia.
    + assert (i = 1) as -> by lia. exists (1, 1). vm_compute. repeat split; try reflexivity; discriminate.
    + assert (i = 1 \/ i = 2) as [-> | ->] by lia.
      * exists (1, 1). vm_compute. repeat split; try reflexivity; discriminate.
      * exists (1, 2). vm_compute. repeat split; try reflexivity; discriminate.
  - intros o1' o2' k H1 H2. cbn in H1, H2. lookups; simplify_eq; reflexivity.
  - exists (ChanRec 160 true true 7 false (Some 1) 0). repeat split; try discriminate.
    apply elem_of_list_here.
Qed.

Example restart_identity_ex :
  let '(m', d') := restart rc_id disk_id 0 in
  opened m' !! (160,0) = Some (inr (1,0)) /\ opened m' !! (160,1) = None /\ opened m' !! (160,2) = None /\
  opened m' !! (7,0) = None /\ d_ks d' !! (160,1) = None /\ d_ks d' !! (160,2) = None /\
  classify (found_obj m' (1,0)) = ADrop /\ classify (found_obj m' (1,1)) = AFail /\
  classify (found_obj m' (1,2)) = AFail.
Proof. vm_compute. repeat split; reflexivity. Qed.

(* C07_rollback, DeleteCircuits clause: wf_out holds in a state with an open and
   a half-open circuit, one of them closing, and the delete yields *)
Example rollback_delete_ex :
  let c := (run init [ICall 0 (CCommit [((1,0), 5); ((1,1), 6)]); IDisk 0 true; IMem 0;
                      ICall 0 (COpen [((1,0), (2,0))]); IDisk 0 true; IMem 0;
                      ICall 0 (CClose (2,0))]).1 in
  wf_out (c_mem c) /\ c_thr c !! 1 = None /\
  exists c1 k, step c (ICall 1 (CDelete [(1,0); (1,1)])) = (c1, OYield k) /\
               opened (c_mem c1) !! (2,0) = None /\ size (pending (c_mem c1)) = 0%nat.
Proof.
  split; [apply wf_outb_sound; vm_compute; reflexivity|].
  split; [vm_compute; reflexivity|]. eexists _, _. vm_compute. repeat split; reflexivity.
Qed.

(* ------------------------------------------------------------------ *)
(* API-level hazards of circuit_map.go (kept in the model, replayed on the real
   circuitMap by the harness "wit" cases).  None is producible by the call
   discipline of link.go / switch.go -- see notes/C07.md. *)

(* hazard 3: DeleteCircuits(k) racing an in-flight CommitCircuits(k): k is RETURNED
   in Adds by two calls (steps 4 and 6) with no removal between the returns; the
   removal lies between the two DECISIONS (steps 0 and 2), as C07_add_once says *)
Example delete_races_commit :
  let tr := (run init [ICall 0 (CCommit [(k1, 5)]); ICall 1 (CDelete [k1]); ICall 2 (CCommit [(k1, 6)]);
                       IDisk 0 true; IMem 0; IDisk 2 true; IMem 2]).2 in
  map ev_adds tr !! 4%nat = Some [k1] /\ map ev_adds tr !! 6%nat = Some [k1] /\
  map ev_removed tr !! 5%nat = Some [] /\
  map ev_add_decided tr !! 0%nat = Some [k1] /\ map ev_removed tr !! 1%nat = Some [k1] /\
  map ev_add_decided tr !! 2%nat = Some [k1].
Proof. vm_compute. repeat split; reflexivity. Qed.

(* hazard 4: the same outgoing key twice in one OpenCircuits batch passes the
   duplicate-keystone check; wf_out is lost, and deleting the first circuit
   unregisters the keystone of the second: its response can no longer be routed *)
Example dup_out_in_batch :
  let c := (run init [ICall 0 (CCommit [((1,0), 5); ((1,1), 6)]); IDisk 0 true; IMem 0;
                      ICall 0 (COpen [((1,0), (2,0)); ((1,1), (2,0))]); IDisk 0 true; IMem 0]).1 in
  let '(c', tr) := run c [ICall 0 (CDelete [(1,0)]); IDisk 0 true; IMem 0; ICall 0 (CClose (2,0))] in
  wf_outb (c_mem c) = false /\
  classify (found_obj (c_mem c') (1,1)) = ADrop /\ opened (c_mem c') !! (2,0) = None /\
  map (fun e => e.2) tr !! 3%nat = Some (OErr E_UNKNOWN_CIRCUIT).
Proof. vm_compute. repeat split; reflexivity. Qed.

(* hazard 2, worst consequence found: a FAILED TrimOpenCircuits transaction (memory
   trimmed, disk not), then the link re-adds with shifted indices; after a restart
   the stale keystone (2,2) -> (1,2) is trimmed and clears Outgoing of circuit (1,2)
   although its real keystone (2,1) is below NextLocalHtlcIndex = 2 (committed): the
   circuit is still registered under (2,1) but a re-forward would be FAILED back.
   contiguous_on_disk holds here; single_keystone does not (C07_restart_exact's
   last clause needs it).  Requires a kvdb write error that the process survives. *)
Definition failed_trim_history : list input :=
  [ ICall 0 (CCommit [((1,0), 5); ((1,1), 6); ((1,2), 7)]); IDisk 0 true; IMem 0;
    ICall 0 (COpen [((1,0), (2,0)); ((1,1), (2,1)); ((1,2), (2,2))]); IDisk 0 true; IMem 0;
    ICall 0 (CTrim 2 0); IDisk 0 false; IMem 0;
    ICall 0 (CTrim 2 0);
    ICall 0 (CFail (1,0)); ICall 0 (CDelete [(1,0)]); IDisk 0 true; IMem 0;
    ICall 0 (COpen [((1,1), (2,0)); ((1,2), (2,1))]); IDisk 0 true; IMem 0 ].
Definition failed_trim_rc : rconf := RConf [] [] [(2, false, None, 2)].

Example failed_trim_stale_keystone :
  let c := (run init failed_trim_history).1 in
  let '(m', d') := restart failed_trim_rc (c_disk c) (next (c_mem c)) in
  d_ks (c_disk c) !! (2,2) = Some (1,2) /\ d_ks (c_disk c) !! (2,1) = Some (1,2) /\
  opened m' !! (2,1) = Some (inr (1,2)) /\ trimmed_by (rc_active failed_trim_rc) (2,1) = false /\
  classify (found_obj m' (1,2)) = AFail /\ classify (found_obj m' (1,1)) = ADrop.
Proof. vm_compute. repeat split; reflexivity. Qed.

(* ------------------------------------------------------------------ *)
(* C07_discipline_invariant: a disciplined history as the link and the switch
   produce it -- duplicate in a commit batch, a failing commit, a keystone batch,
   a response, a failing and a successful delete, a link flap (trim + re-open with
   the same index), a restart that rolls the uncommitted keystone back, the
   re-forward being failed back, and the final teardown *)
Definition disciplined_history : list sop :=
  [ SCall (CCommit [((1,0), 5); ((1,1), 6); ((1,0), 5)]) true;
    SCall (COpen [((1,0), (2,0)); ((1,1), (2,1))]) true;
    SCall (CCommit [((1,2), 7)]) false;
    SCall (CClose (2,0)) true;
    SCall (CDelete [(1,0)]) false;
    SCall (CDelete [(1,0)]) true;
    SCall (CTrim 2 1) true;
    SCall (COpen [((1,1), (2,1))]) true;
    SRestart (RConf [] [] [(2, false, None, 1)]);
    SCall (CCommit [((1,1), 6)]) true;
    SCall (CFail (1,1)) true;
    SCall (CDelete [(1,1)]) true ].

Example disciplined_history_ok :
  seq_disciplined init disciplined_history /\
  (* mid-way: one open, one half-open circuit after the restart *)
  (let c := srun init (take 9 disciplined_history) in
   size (pending (c_mem c)) = 1%nat /\ size (opened (c_mem c)) = 0%nat /\
   classify (found_obj (c_mem c) (1,1)) = AFail) /\
  (let c := srun init disciplined_history in
   size (pending (c_mem c)) = 0%nat /\ size (opened (c_mem c)) = 0%nat /\
   size (d_adds (c_disk c)) = 0%nat /\ size (d_ks (c_disk c)) = 0%nat).
Proof.
  split; [apply seq_disciplinedb_sound; vm_compute; reflexivity|].
  vm_compute. repeat split; reflexivity.
Qed.

(* ... and the discipline is what excludes the hazards: the double keystone and the
   duplicate outgoing key are rejected by the predicate *)
Example hazards_are_undisciplined :
  seq_disciplinedb init [ SCall (CCommit [((1,0), 5)]) true; SCall (COpen [((1,0), (2,0))]) true;
                          SCall (COpen [((1,0), (2,1))]) true ] = false /\
  seq_disciplinedb init [ SCall (CCommit [((1,0), 5); ((1,1), 6)]) true;
                          SCall (COpen [((1,0), (2,0)); ((1,1), (2,0))]) true ] = false /\
  seq_disciplinedb init [ SCall (CCommit [((1,0), 5)]) true; SCall (CDelete [(1,0)]) true ] = false.
Proof. vm_compute. repeat split; reflexivity. Qed.
