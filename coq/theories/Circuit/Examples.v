(* C07 — non-vacuity: the hypotheses of the theorems are met by concrete,
   non-trivial runs (evaluated by vm_compute; these are examples, not the
   theorems). *)
From stdpp Require Import gmap.
From LV Require Import Circuit.Model Circuit.Proofs Circuit.Props.
Local Open Scope N_scope.

Definition k1 : key := (1, 0).
Definition o1 : key := (2, 0).
Definition o2 : key := (2, 1).

(* commit k1, open, settle (close), delete, commit k1 again: two Add decisions
   and the delete in between *)
Definition ins_lifecycle : list input :=
  [ ICall 0 (CCommit [(k1, 5)]); IDisk 0 true; IMem 0;
    ICall 0 (COpen [(k1, o1)]); IDisk 0 true; IMem 0;
    ICall 1 (CClose o1); ICall 2 (CFail k1);
    ICall 0 (CDelete [k1]); IDisk 0 true; IMem 0;
    ICall 0 (CCommit [(k1, 6)]); IDisk 0 true; IMem 0;
    ICall 0 (CFail k1) ].

Example lifecycle_events :
  let tr := (run init ins_lifecycle).2 in
  map ev_add_decided tr !! 0%nat = Some [k1] /\
  map ev_add_decided tr !! 11%nat = Some [k1] /\
  map ev_removed tr !! 8%nat = Some [k1] /\
  map ev_responded tr !! 6%nat = Some (Some k1) /\
  map ev_responded tr !! 7%nat = Some None /\      (* second response refused: ErrCircuitClosing *)
  map ev_responded tr !! 14%nat = Some (Some k1).   (* new incarnation after the delete *)
Proof. vm_compute. repeat split; reflexivity. Qed.

(* restart: keystone o2 of k=(1,1) is above the committed index 1 and is rolled
   back -> the re-forward is FAILED; (1,0) keeps its keystone -> dropped;
   circuit (3,0) of the fully closed channel 3 is purged *)
Definition disk_ex : disk :=
  Disk (<[(1,0):=5]> (<[(1,1):=6]> (<[(3,0):=7]> ∅))) (<[o1:=(1,0)]> (<[o2:=(1,1)]> ∅)).
Definition rc_ex : rconf := RConf [(3, false)] [] [(2, false, None, 1)].

Example restart_ex :
  let '(m', d') := restart rc_ex disk_ex 0 in
  classify (found_obj m' (1,1)) = AFail /\ classify (found_obj m' (1,0)) = ADrop /\
  classify (found_obj m' (3,0)) = AAdd /\
  d_ks d' !! o2 = None /\ d_ks d' !! o1 = Some (1,0) /\ d_adds d' !! (3,0) = None /\
  size (pending m') = 2%nat /\ size (opened m') = 1%nat.
Proof. vm_compute. repeat split; reflexivity. Qed.

(* rollback hypothesis is satisfiable: a commit that yields, from a non-empty state *)
Example rollback_ex :
  let c := (run init [ICall 0 (CCommit [((1,0), 5)]); IDisk 0 true; IMem 0]).1 in
  c_thr c !! 1 = None /\
  exists c1 k, step c (ICall 1 (CCommit [((1,1), 6); ((1,0), 5)])) = (c1, OYield k).
Proof. split; [vm_compute; reflexivity|]. eexists _, _. vm_compute. reflexivity. Qed.

(* QUIRK of the code, kept in the model: a failed TrimOpenCircuits transaction
   is NOT rolled back — memory has dropped the keystone, the disk still has it *)
Example trim_failure_not_rolled_back :
  let c := (run init [ICall 0 (CCommit [(k1, 5)]); IDisk 0 true; IMem 0;
                      ICall 0 (COpen [(k1, o1)]); IDisk 0 true; IMem 0]).1 in
  let c' := (run c [ICall 0 (CTrim 2 0); IDisk 0 false; IMem 0]).1 in
  opened (c_mem c) !! o1 <> None /\ opened (c_mem c') !! o1 = None /\
  d_ks (c_disk c') !! o1 = Some k1.
Proof. vm_compute. repeat split; try reflexivity. discriminate. Qed.

(* QUIRK: OpenCircuits does not check that the circuit already has a keystone;
   a second keystone for the same incoming key leaves a dangling open circuit
   after DeleteCircuits (the link never does this: one keystone per packet) *)
Example double_keystone_dangles :
  let c := (run init [ICall 0 (CCommit [(k1, 5)]); IDisk 0 true; IMem 0;
                      ICall 0 (COpen [(k1, o1)]); IDisk 0 true; IMem 0;
                      ICall 0 (COpen [(k1, o2)]); IDisk 0 true; IMem 0;
                      ICall 0 (CDelete [k1]); IDisk 0 true; IMem 0]).1 in
  pending (c_mem c) !! k1 = None /\ opened (c_mem c) !! o1 <> None /\
  d_ks (c_disk c) !! o1 = Some k1.
Proof. vm_compute. repeat split; try reflexivity. discriminate. Qed.
