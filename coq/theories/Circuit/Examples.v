From LV Require Import Circuit.Model.
