(* C07 — executable model of htlcswitch/circuit_map.go (circuitMap) at
   critical-section granularity.  Definitions only; proofs are in Proofs.v.

   One API call = up to three steps, exactly where the Go code takes/releases
   cm.mtx and enters a kvdb transaction:

     ICall  : first memory phase (under cm.mtx)      -> returns, or yields
     IDisk  : the kvdb.Update/Batch transaction      (ok = committed / failed)
     IMem   : final memory phase / rollback + return

   so a list of inputs over several thread ids IS an interleaving of
   concurrent callers.  *PaymentCircuit objects are heap cells: the maps hold
   object ids and `Outgoing` is a mutable field of the cell, as in Go. *)
From stdpp Require Import gmap.
Local Open Scope N_scope.

(* CircuitKey = (ShortChannelID.ToUint64, HtlcID).  hop.Source is chan 0. *)
Definition key := (N * N)%type.

(* object identity: inl n = n-th circuit object handed to CommitCircuits and
   stored; inr k = the object decoded from disk for incoming key k by
   restoreMemState. *)
Definition oid := (N + key)%type.

Record obj := Obj {
  o_inc : key;              (* Incoming (immutable) *)
  o_out : option key;       (* Outgoing *CircuitKey (nil = no keystone) *)
  o_loaded : bool;          (* LoadedFromDisk *)
  o_pay : N                 (* payload witness: IncomingAmount *)
}.

Record mem := Mem {
  pending : gmap key oid;   (* cm.pending *)
  opened : gmap key oid;    (* cm.opened  *)
  closed : gset key;        (* cm.closed  *)
  heapN : gmap N obj;       (* objects created by callers *)
  heapD : gmap key obj;     (* objects created by restoreMemState *)
  next : N                  (* allocation counter *)
}.

Record disk := Disk {
  d_adds : gmap key N;      (* circuit-adds bucket: inKey -> encoded circuit *)
  d_ks : gmap key key       (* circuit-keystones bucket: outKey -> inKey *)
}.

Definition get_obj (m : mem) (id : oid) : option obj :=
  match id with inl n => heapN m !! n | inr k => heapD m !! k end.

Definition set_out (v : option key) (o : obj) : obj :=
  Obj (o_inc o) v (o_loaded o) (o_pay o).

Definition upd_obj (f : obj -> obj) (id : oid) (m : mem) : mem :=
  match id with
  | inl n => Mem (pending m) (opened m) (closed m) (alter f n (heapN m)) (heapD m) (next m)
  | inr k => Mem (pending m) (opened m) (closed m) (heapN m) (alter f k (heapD m)) (next m)
  end.

Definition set_pending (f : gmap key oid -> gmap key oid) (m : mem) : mem :=
  Mem (f (pending m)) (opened m) (closed m) (heapN m) (heapD m) (next m).
Definition set_opened (f : gmap key oid -> gmap key oid) (m : mem) : mem :=
  Mem (pending m) (f (opened m)) (closed m) (heapN m) (heapD m) (next m).
Definition set_closed (f : gset key -> gset key) (m : mem) : mem :=
  Mem (pending m) (opened m) (f (closed m)) (heapN m) (heapD m) (next m).

(* allocate the object a caller passes to CommitCircuits *)
Definition alloc (k : key) (pay : N) (m : mem) : mem * oid :=
  (Mem (pending m) (opened m) (closed m)
       (<[next m := Obj k None false pay]> (heapN m)) (heapD m) (next m + 1),
   inl (next m)).

(* ---- CommitCircuits decision table (circuit_map.go:826-860) ---- *)
Inductive action := AAdd | ADrop | AFail.

Definition classify (found : option obj) : action :=
  match found with
  | None => AAdd
  | Some o =>
    match o_out o with
    | Some _ => ADrop                           (* HasKeystone *)
    | None => if o_loaded o then AFail else ADrop
    end
  end.

(* what pending[inKey] resolves to *)
Definition found_obj (m : mem) (k : key) : option obj :=
  match pending m !! k with
  | None => None
  | Some id =>
    (* a pending entry always has a heap cell; a missing cell would behave
       like a keystone-less, non-loaded circuit *)
    Some (default (Obj k None false 0) (get_obj m id))
  end.

Record cres := CRes {
  c_adds : list (key * oid * N);
  c_drops : list key;
  c_fails : list key;
  c_addfails : list key
}.

Fixpoint commit_mem (m : mem) (cs : list (key * N)) : mem * cres :=
  match cs with
  | [] => (m, CRes [] [] [] [])
  | (k, pay) :: r =>
    match classify (found_obj m k) with
    | ADrop =>
      let '(m', cr) := commit_mem m r in
      (m', CRes (c_adds cr) (k :: c_drops cr) (c_fails cr) (c_addfails cr))
    | AFail =>
      let '(m', cr) := commit_mem m r in
      (m', CRes (c_adds cr) (c_drops cr) (k :: c_fails cr) (k :: c_addfails cr))
    | AAdd =>
      let '(m1, id) := alloc k pay m in
      let m2 := set_pending (insert k id) m1 in
      let '(m', cr) := commit_mem m2 r in
      (m', CRes ((k, id, pay) :: c_adds cr) (c_drops cr) (c_fails cr) (k :: c_addfails cr))
    end
  end.

Definition commit_disk (d : disk) (adds : list (key * oid * N)) : disk :=
  Disk (foldl (fun a x => <[x.1.1 := x.2]> a) (d_adds d) adds) (d_ks d).

Definition commit_rollback (m : mem) (adds : list (key * oid * N)) : mem :=
  set_pending (fun p => foldl (fun a x => delete x.1.1 a) p adds) m.

(* ---- OpenCircuits (circuit_map.go:945) ---- *)
Definition E_NIL := 0.
Definition E_UNKNOWN_CIRCUIT := 1.
Definition E_DUP_KEYSTONE := 2.
Definition E_CLOSING := 3.
Definition E_DISK := 4.

(* keystone = (InKey, OutKey) *)
Fixpoint open_check (m : mem) (kss : list (key * key)) : N + list oid :=
  match kss with
  | [] => inr []
  | (ik, ok) :: r =>
    match opened m !! ok with
    | Some _ => inl E_DUP_KEYSTONE
    | None =>
      match pending m !! ik with
      | None => inl E_UNKNOWN_CIRCUIT
      | Some id =>
        match open_check m r with
        | inl e => inl e
        | inr ids => inr (id :: ids)
        end
      end
    end
  end.

Definition open_disk (d : disk) (kss : list (key * key)) : disk :=
  Disk (d_adds d) (foldl (fun a x => <[x.2 := x.1]> a) (d_ks d) kss).

Fixpoint open_mem (m : mem) (ids : list oid) (kss : list (key * key)) : mem :=
  match ids, kss with
  | id :: ids', (_, ok) :: kss' =>
    open_mem (set_opened (insert ok id) (upd_obj (set_out (Some ok)) id m)) ids' kss'
  | _, _ => m
  end.

(* ---- TrimOpenCircuits (circuit_map.go:698) ---- *)
Fixpoint trim_mem (fuel : nat) (m : mem) (ch i : N) : mem * list key :=
  match fuel with
  | O => (m, [])
  | S f =>
    match opened m !! (ch, i) with
    | None => (m, [])
    | Some id =>
      let m1 := set_opened (delete (ch, i)) (upd_obj (set_out None) id m) in
      let '(m', l) := trim_mem f m1 ch (i + 1) in
      (m', (ch, i) :: l)
    end
  end.

(* the scan visits pairwise distinct keys of `opened`, so this fuel is never
   exhausted (Proofs.trim_fuel_enough) *)
Definition trim_fuel (m : mem) : nat := S (size (opened m)).

Definition trim_disk (d : disk) (outs : list key) : disk :=
  Disk (d_adds d) (foldl (fun a o => delete o a) (d_ks d) outs).

(* ---- CloseCircuit / FailCircuit (circuit_map.go:1051, :1028) ---- *)
Definition view := (key * option key * bool * N)%type.
Definition view_of (o : obj) : view := (o_inc o, o_out o, o_loaded o, o_pay o).

Definition close_circuit (m : mem) (ok : key) : mem * (N + view) :=
  match opened m !! ok with
  | None => (m, inl E_UNKNOWN_CIRCUIT)
  | Some id =>
    let o := default (Obj ok None false 0) (get_obj m id) in
    if bool_decide (o_inc o ∈ closed m) then (m, inl E_CLOSING)
    else (set_closed (union {[ o_inc o ]}) m, inr (view_of o))
  end.

Definition fail_circuit (m : mem) (ik : key) : mem * (N + view) :=
  match pending m !! ik with
  | None => (m, inl E_UNKNOWN_CIRCUIT)
  | Some id =>
    let o := default (Obj ik None false 0) (get_obj m id) in
    if bool_decide (ik ∈ closed m) then (m, inl E_CLOSING)
    else (set_closed (union {[ ik ]}) m, inr (view_of o))
  end.

(* ---- DeleteCircuits (circuit_map.go:1077) ---- *)
Fixpoint delete_mem (m : mem) (ks : list key) : mem * list (key * oid) * list key :=
  match ks with
  | [] => (m, [], [])
  | k :: r =>
    match pending m !! k with
    | None => delete_mem m r
    | Some id =>
      let m1 := set_pending (delete k) m in
      let wasclosed := bool_decide (k ∈ closed m1) in
      let m2 := if wasclosed then set_closed (fun c => c ∖ {[ k ]}) m1 else m1 in
      let m3 := match get_obj m2 id with
                | Some o => match o_out o with
                            | Some ok => set_opened (delete ok) m2
                            | None => m2
                            end
                | None => m2
                end in
      let '(m', rem, cl) := delete_mem m3 r in
      (m', (k, id) :: rem, if wasclosed then k :: cl else cl)
    end
  end.

(* the disk phase reads circuit.HasKeystone()/OutKey() from the objects AT
   THAT TIME (another thread may have set or cleared Outgoing meanwhile) *)
Definition delete_disk (m : mem) (d : disk) (rem : list (key * oid)) : disk :=
  foldl (fun a x =>
    let ks := match get_obj m x.2 with
              | Some o => match o_out o with
                          | Some ok => delete ok (d_ks a)
                          | None => d_ks a
                          end
              | None => d_ks a
              end in
    Disk (delete x.1 (d_adds a)) ks) d rem.

(* Go iterates the removedCircuits MAP here, i.e. in an unspecified order; the
   order is only observable if two removed circuits claim the same outgoing
   key.  The model fixes one order (last removed first). *)
Definition delete_rollback (m : mem) (rem : list (key * oid)) (cl : list key) : mem :=
  foldr (fun x a =>
    let a1 := set_pending (insert x.1 x.2) a in
    let a2 := if bool_decide (x.1 ∈ cl) then set_closed (union {[ x.1 ]}) a1 else a1 in
    match get_obj a2 x.2 with
    | Some o => match o_out o with
                | Some ok => set_opened (insert ok x.2) a2
                | None => a2
                end
    | None => a2
    end) m rem.

(* ---- restart: NewCircuitMap on the same DB (circuit_map.go:223) ---- *)
Record rconf := RConf {
  rc_closed : list (N * bool);              (* FetchClosedChannels: (scid, IsPending) *)
  rc_resmsg : list key;                     (* outKeys with CheckResolutionMsg == nil *)
  rc_active : list (N * bool * option N * N)  (* FetchAllOpenChannels: (scid, IsPending,
                                                 pending remote commit's LocalHtlcIndex,
                                                 RemoteCommitment.LocalHtlcIndex) *)
}.

Definition closed_set (rc : rconf) : gset N :=
  list_to_set (map fst (filter (fun x => Is_true (negb x.2)) (rc_closed rc))).

Definition is_closed (cs : gset N) (ch : N) : bool :=
  negb (N.eqb ch 0) && bool_decide (ch ∈ cs).

Definition has_resmsg (rc : rconf) (ok : key) : bool :=
  bool_decide (ok ∈ rc_resmsg rc).

(* keystones removed by cleanClosedChannels *)
Definition purge_ks_pred (rc : rconf) (oi : key * key) : bool :=
  let cs := closed_set rc in
  is_closed cs oi.2.1 || (is_closed cs oi.1.1 && negb (has_resmsg rc oi.1)).

Definition purged_add (rc : rconf) (d : disk) (k : key) : bool :=
  is_closed (closed_set rc) k.1 ||
  existsb (fun oi => bool_decide (oi.2 = k) && purge_ks_pred rc oi) (map_to_list (d_ks d)).

Definition clean (rc : rconf) (d : disk) : disk :=
  Disk (filter (fun kv => Is_true (negb (purged_add rc d kv.1))) (d_adds d))
       (filter (fun oi => Is_true (negb (purge_ks_pred rc oi))) (d_ks d)).

(* bbolt iterates a bucket in byte order of the keys = lexicographic
   (chan, htlc); the last keystone of an incoming key wins circuit.Outgoing *)
Definition key_leb (a b : key) : bool :=
  N.ltb a.1 b.1 || (N.eqb a.1 b.1 && N.leb a.2 b.2).

Definition max_key (l : list key) : option key :=
  foldr (fun o acc => match acc with
                      | None => Some o
                      | Some b => if key_leb o b then Some b else Some o
                      end) None l.

Definition outs_of (ks : gmap key key) (k : key) : list key :=
  map fst (filter (fun oi => oi.2 = k) (map_to_list ks)).

Definition restore (d : disk) (nxt : N) : mem * disk :=
  let adds := d_adds d in
  let pend : gmap key oid := map_imap (fun k _ => Some (inr k)) adds in
  let hp : gmap key obj :=
    map_imap (fun k pay => Some (Obj k (max_key (outs_of (d_ks d) k)) true pay)) adds in
  let opnd : gmap key oid :=
    map_imap (fun _ i => match adds !! i with Some _ => Some (inr i) | None => None end) (d_ks d) in
  (* stray keystones (no pending circuit) are pruned only for hop.Source *)
  let ks' := filter (fun oi => Is_true (negb (bool_decide (adds !! oi.2 = None) && N.eqb oi.1.1 0)))
                    (d_ks d) in
  (Mem pend opnd ∅ ∅ hp nxt, Disk adds ks').

(* chanstate/open_channel.go:966 NextLocalHtlcIndex *)
Definition next_local_htlc_index (tip : option N) (remote_idx : N) : N :=
  match tip with Some x => x | None => remote_idx end.

Definition trim_all (md : mem * disk) (act : list (N * bool * option N * N)) : mem * disk :=
  foldl (fun (md : mem * disk) (a : N * bool * option N * N) =>
    let '(scid, ispending, tip, ridx) := a in
    if (ispending : bool) then md
    else if N.eqb scid 0 then md
    else
      let '(m', outs) := trim_mem (trim_fuel md.1) md.1 scid (next_local_htlc_index tip ridx) in
      (m', trim_disk md.2 outs)) md act.

Definition restart (rc : rconf) (d : disk) (nxt : N) : mem * disk :=
  trim_all (restore (clean rc d) nxt) (rc_active rc).

(* ---- threads and the step function ---- *)
Inductive call :=
| CCommit (cs : list (key * N))
| COpen (kss : list (key * key))
| CTrim (ch start : N)
| CClose (ok : key)
| CFail (ik : key)
| CDelete (ks : list key).

Inductive cont :=
| KCommit (cr : cres)
| KCommitPost (ok : bool) (cr : cres)
| KOpen (ids : list oid) (kss : list (key * key))
| KOpenPost (ok : bool) (ids : list oid) (kss : list (key * key))
| KTrim (outs : list key)
| KTrimPost (ok : bool)
| KDelete (rem : list (key * oid)) (cl : list key)
| KDeletePost (ok : bool) (rem : list (key * oid)) (cl : list key).

Inductive out :=
| OYield (k : cont)                        (* call blocked before/after its transaction; k = its new continuation *)
| ODisabled                                (* input not applicable in this configuration *)
| OCommit (adds drops fails : list key) (err : bool)
| OErr (e : N)
| OCirc (v : view)
| ORestarted.

Inductive input :=
| ICall (t : N) (c : call)
| IDisk (t : N) (ok : bool)
| IMem (t : N)
| IRestart (rc : rconf).

Record config := Cfg { c_mem : mem; c_disk : disk; c_thr : gmap N cont }.

Definition keys_of (l : list (key * oid * N)) : list key := map (fun x => x.1.1) l.

Definition do_call (m : mem) (c : call) : mem * (out + cont) :=
  match c with
  | CCommit cs =>
    match cs with
    | [] => (m, inl (OCommit [] [] [] false))
    | _ =>
      let '(m', cr) := commit_mem m cs in
      match c_adds cr with
      | [] => (m', inl (OCommit [] (c_drops cr) (c_fails cr) false))
      | _ => (m', inr (KCommit cr))
      end
    end
  | COpen kss =>
    match kss with
    | [] => (m, inl (OErr E_NIL))
    | _ =>
      match open_check m kss with
      | inl e => (m, inl (OErr e))
      | inr ids => (m, inr (KOpen ids kss))
      end
    end
  | CTrim ch start =>
    let '(m', outs) := trim_mem (trim_fuel m) m ch start in
    match outs with
    | [] => (m', inl (OErr E_NIL))
    | _ => (m', inr (KTrim outs))
    end
  | CClose ok =>
    let '(m', r) := close_circuit m ok in
    (m', inl (match r with inl e => OErr e | inr v => OCirc v end))
  | CFail ik =>
    let '(m', r) := fail_circuit m ik in
    (m', inl (match r with inl e => OErr e | inr v => OCirc v end))
  | CDelete ks =>
    let '(m', rem, cl) := delete_mem m ks in
    (m', inr (KDelete rem cl))
  end.

(* the kvdb transaction of a blocked call *)
Definition do_disk (m : mem) (d : disk) (k : cont) (ok : bool) : option (disk * cont) :=
  match k with
  | KCommit cr => Some (if ok then commit_disk d (c_adds cr) else d, KCommitPost ok cr)
  | KOpen ids kss => Some (if ok then open_disk d kss else d, KOpenPost ok ids kss)
  | KTrim outs => Some (if ok then trim_disk d outs else d, KTrimPost ok)
  | KDelete rem cl => Some (if ok then delete_disk m d rem else d, KDeletePost ok rem cl)
  | _ => None
  end.

(* final memory phase and return value *)
Definition do_mem (m : mem) (k : cont) : option (mem * out) :=
  match k with
  | KCommitPost true cr =>
    Some (m, OCommit (keys_of (c_adds cr)) (c_drops cr) (c_fails cr) false)
  | KCommitPost false cr =>
    Some (commit_rollback m (c_adds cr), OCommit [] (c_drops cr) (c_addfails cr) true)
  | KOpenPost true ids kss => Some (open_mem m ids kss, OErr E_NIL)
  | KOpenPost false _ _ => Some (m, OErr E_DISK)
  | KTrimPost ok => Some (m, OErr (if ok then E_NIL else E_DISK))
  | KDeletePost true _ _ => Some (m, OErr E_NIL)
  | KDeletePost false rem cl => Some (delete_rollback m rem cl, OErr E_DISK)
  | _ => None
  end.

Definition step (c : config) (i : input) : config * out :=
  match i with
  | ICall t cl =>
    match c_thr c !! t with
    | Some _ => (c, ODisabled)
    | None =>
      match do_call (c_mem c) cl with
      | (m', inl o) => (Cfg m' (c_disk c) (c_thr c), o)
      | (m', inr k) => (Cfg m' (c_disk c) (<[t := k]> (c_thr c)), OYield k)
      end
    end
  | IDisk t ok =>
    match c_thr c !! t with
    | None => (c, ODisabled)
    | Some k =>
      match do_disk (c_mem c) (c_disk c) k ok with
      | None => (c, ODisabled)
      | Some (d', k') => (Cfg (c_mem c) d' (<[t := k']> (c_thr c)), OYield k')
      end
    end
  | IMem t =>
    match c_thr c !! t with
    | None => (c, ODisabled)
    | Some k =>
      match do_mem (c_mem c) k with
      | None => (c, ODisabled)
      | Some (m', o) => (Cfg m' (c_disk c) (delete t (c_thr c)), o)
      end
    end
  | IRestart rc =>
    (* the process dies: every in-flight call is gone, memory is rebuilt from disk *)
    let '(m', d') := restart rc (c_disk c) (next (c_mem c)) in
    (Cfg m' d' ∅, ORestarted)
  end.

Definition init_mem : mem := Mem ∅ ∅ ∅ ∅ ∅ 0.
Definition init_disk : disk := Disk ∅ ∅.
Definition init : config := Cfg init_mem init_disk ∅.

(* run with its trace: (input, continuation the thread had before the step, output) *)
Definition tid_of (i : input) : option N :=
  match i with ICall t _ | IDisk t _ | IMem t => Some t | IRestart _ => None end.

Definition event := (input * option cont * out)%type.

Definition cont_before (c : config) (i : input) : option cont :=
  match tid_of i with Some t => c_thr c !! t | None => None end.

Fixpoint run (c : config) (ins : list input) : config * list event :=
  match ins with
  | [] => (c, [])
  | i :: r =>
    let '(c', o) := step c i in
    let '(c'', tr) := run c' r in
    (c'', (i, cont_before c i, o) :: tr)
  end.

(* ---- observables: LookupCircuit / LookupOpenCircuit / NumPending / NumOpen ---- *)
Definition lookup_view (m : mem) (mp : gmap key oid) (k : key) : option (key * view) :=
  match mp !! k with
  | None => None
  | Some id => Some (k, view_of (default (Obj k None false 0) (get_obj m id)))
  end.

Definition snapshot (univ : list key) (m : mem)
  : N * N * list (key * view) * list (key * view) :=
  (N.of_nat (size (pending m)), N.of_nat (size (opened m)),
   omap (lookup_view m (pending m)) univ, omap (lookup_view m (opened m)) univ).

(* ---- trace events the property talks about ---- *)

(* a successful CloseCircuit/FailCircuit: the switch relays a settle/fail for
   this incoming key *)
Definition ev_responded (e : event) : option key :=
  match e with
  | (ICall _ (CClose _), _, OCirc v) => Some v.1.1.1
  | (ICall _ (CFail ik), _, OCirc _) => Some ik
  | _ => None
  end.

(* CommitCircuits' memory phase decided Add for these keys (they were not
   pending); they are returned in Adds iff the batch write then succeeds *)
Definition ev_add_decided (e : event) : list key :=
  match e with
  | (ICall _ (CCommit _), _, OYield (KCommit cr)) => keys_of (c_adds cr)
  | _ => []
  end.

(* CommitCircuits returned these keys in Adds: the link forwards them *)
Definition ev_adds (e : event) : list key :=
  match e with
  | (IMem _, Some (KCommitPost true _), OCommit adds _ _ _) => adds
  | _ => []
  end.

(* incoming keys whose pending entry (and closed mark) this step removes *)
Definition ev_removed (e : event) : list key :=
  match e with
  | (ICall _ (CDelete _), _, OYield (KDelete rem _)) => map fst rem
  | (IMem _, Some (KCommitPost false cr), _) => keys_of (c_adds cr)
  | _ => []
  end.

Definition ev_restart (e : event) : bool :=
  match e with (IRestart _, _, _) => true | _ => false end.
