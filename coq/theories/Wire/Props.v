(* C10 — property theorems (statements only; proofs are in Proofs.v). *)
From Coq Require Import List NArith Bool Lia.
From LV Require Import Wire.Model Wire.Proofs Wire.Loose Wire.MsgModel Wire.MsgProofs.
From LV Require Import Gen.GenWire.
Import ListNotations.
Local Open Scope N_scope.

(* BigSize: every uint64 encodes to at most 9 well-formed bytes and decodes
   back, whatever follows. *)
Theorem C10_bigsize_roundtrip : forall v r,
  v < two64 ->
  bigsize_dec (bigsize_enc v ++ r) = Ok (v, r) /\
  wf_bytes (bigsize_enc v) /\ blen (bigsize_enc v) <= 9.
Proof.
  intros v r Hv. split; [apply bigsize_dec_enc; assumption|].
  split; [apply bigsize_enc_wf; assumption|apply bigsize_enc_len].
Qed.

(* BigSize: ReadVarInt accepts exactly the minimal encodings. *)
Theorem C10_bigsize_canonical : forall b v r,
  wf_bytes b ->
  (bigsize_dec b = Ok (v, r) <-> v < two64 /\ b = bigsize_enc v ++ r).
Proof.
  intros b v r Hw. split.
  - intros H. apply bigsize_dec_spec in H; [|assumption]. tauto.
  - intros [Hv ->]. apply bigsize_dec_enc. assumption.
Qed.

(* DecodeP2P accepts a byte string exactly when it is the concatenation of
   canonically encoded records with strictly increasing types, lengths at most
   65535 and every known record valid for its decoder; and then it returns
   exactly those records.  (Streams whose known records use DBigSize are
   excluded: see C10_tlv_bigsize_record_refuted.) *)
Theorem C10_tlv_accept_iff_canonical : forall ks b rs,
  no_bigsize ks -> wf_bytes b ->
  (decode_stream ks true b = Ok rs <->
   b = encode_stream rs /\ canonical_records ks true rs).
Proof.
  intros ks b rs Hks Hw. unfold decode_stream, canonical_records. split.
  - intros H. apply (dec_loop_sound ks Hks) in H; [|assumption]. exact H.
  - intros (-> & Hs & Hf). apply dec_loop_complete; auto.
Qed.

(* … and for ANY known-record set, DBigSize included, DecodeP2P accepts exactly
   the concatenations of records with strictly increasing types whose announced
   length is at most 65535 and equals the value length, EXCEPT that the
   announced length of a BigSize record is unconstrained.  This is the exact
   extent of finding C10-F2. *)
Theorem C10_tlv_p2p_accepts_exactly : forall ks b rs,
  wf_bytes b ->
  (decode_stream ks true b = Ok rs <->
   exists ls, b = encode_stream_claimed rs ls /\ sorted_from 0 rs /\
              Forall2 (claimed_ok ks) rs ls).
Proof. exact tlv_p2p_accepts_exactly. Qed.

(* decode-then-encode reproduces the input; encode-then-decode the records *)
Theorem C10_tlv_decode_encode_id : forall ks b rs,
  no_bigsize ks -> wf_bytes b ->
  decode_stream ks true b = Ok rs ->
  encode_stream rs = b /\ decode_stream ks true (encode_stream rs) = Ok rs.
Proof.
  intros ks b rs Hks Hw H. pose proof H as H0.
  apply C10_tlv_accept_iff_canonical in H; [|assumption|assumption].
  destruct H as [-> _]. split; [reflexivity|exact H0].
Qed.

(* the decoder is a total function: the fuel |b|+1 is never exhausted *)
Theorem C10_tlv_total : forall ks p2p b, decode_stream ks p2p b <> Err EOutOfFuel.
Proof. intros. unfold decode_stream. apply dec_loop_fuel. lia. Qed.

(* non-p2p Decode: every canonical stream (lengths < 2^63) is accepted … *)
Theorem C10_tlv_nonp2p_canonical_accepted : forall ks rs,
  canonical_records ks false rs ->
  decode_stream ks false (encode_stream rs) = Ok rs.
Proof.
  intros ks rs [Hs Hf]. unfold decode_stream. apply dec_loop_complete; auto.
Qed.

(* … but the converse fails: an unknown record claiming 2^63 bytes is accepted
   with no value bytes at all (io.CopyN with a negative count).  Finding C10-F3. *)
Theorem C10_tlv_nonp2p_refuted : exists b rs,
  wf_bytes b /\ decode_stream [] false b = Ok rs /\ encode_stream rs <> b.
Proof.
  exists [1; 255; 128; 0; 0; 0; 0; 0; 0; 0], [(1, [])].
  split; [apply wf_bytesb_spec; reflexivity|]. split; [vm_compute; reflexivity|].
  vm_compute. discriminate.
Qed.

(* DBigSize ignores the record length: the stream 12 03 05 1e 00 is accepted
   although record 18 claims 3 bytes.  Finding C10-F2. *)
Theorem C10_tlv_bigsize_record_refuted : exists ks b rs,
  wf_bytes b /\ decode_stream ks true b = Ok rs /\ encode_stream rs <> b.
Proof.
  exists [(18, KBigSize)], [18; 3; 5; 30; 0], [(18, [5]); (30, [])].
  split; [apply wf_bytesb_spec; reflexivity|]. split; [vm_compute; reflexivity|].
  vm_compute. discriminate.
Qed.

(* Messages that re-pack their extension data from the known records only lose
   an accepted unknown record on re-encode.  Finding C10-F1. *)
Theorem C10_extra_unknown_dropped_refuted : exists ks extra out,
  wf_bytes extra /\ extra_reencode ks extra = Some out /\ out <> extra.
Proof.
  exists [(2, KFixed 4)], [2; 4; 0; 0; 0; 7; 254; 255; 255; 255; 253; 3; 170; 187; 204],
         [2; 4; 0; 0; 0; 7].
  split; [apply wf_bytesb_spec; reflexivity|]. split; [vm_compute; reflexivity|].
  discriminate.
Qed.

(* generic layout law: any layout whose rest-of-message field (if any) is
   last, any valid field values: Decode (Encode v) = v *)
Theorem C10_layout_roundtrip : forall on_curve L vs,
  lay_ok L = true -> valid_vs on_curve L vs = true ->
  exists b, encode L vs = Some b /\ decode on_curve L b = Some vs.
Proof. exact layout_roundtrip. Qed.

(* canonical fixpoint: whatever decodes, re-encodes to bytes that decode to
   the same value, and canonicalisation never grows the message -- for every layout without
   a plain short-channel-id list (nogrow_f), see C10_scids_empty_grows *)
Theorem C10_fixpoint : forall on_curve L b vs,
  lay_ok L = true -> wf_bytes b -> decode on_curve L b = Some vs ->
  exists b', encode L vs = Some b' /\ decode on_curve L b' = Some vs /\
             (forallb nogrow_f L = true -> (length b' <= length b)%nat).
Proof. exact layout_fixpoint. Qed.

(* the one field codec for which the DESIGN clause "canonicalisation never grows" is false:
   decodeShortChanIDs accepts a zero-length id section `00 00` (no encoding byte at all),
   encodeShortChanIDs always writes the encoding byte: `00 01 00`.  The re-encoding is a
   fixpoint, one byte longer than the input. *)
Theorem C10_scids_empty_grows : exists b vs e,
  wf_bytes b /\ decode (fun _ => true) [FScids] b = Some vs /\ encode [FScids] vs = Some e /\
  length e = (length b + 1)%nat /\ decode (fun _ => true) [FScids] e = Some vs.
Proof.
  exists [0; 0], [VB []], [0; 1; 0]. split; [apply wf_bytesb_spec; reflexivity|].
  repeat split; reflexivity.
Qed.

(* lossless: layouts of exact fields ending in the extension-data field
   reproduce the input bytes (unknown records / trailing data preserved) *)
Theorem C10_layout_canonical : forall on_curve L b vs,
  forallb exact_f L = true -> ends_terminal L = true -> wf_bytes b ->
  decode on_curve L b = Some vs -> encode L vs = Some b.
Proof. exact layout_canonical. Qed.

Theorem C10_size : forall T t vs b,
  write_message T t vs = Some b -> blen b <= 65535.
Proof. exact (write_size (fun _ => true)). Qed.

Theorem C10_message_roundtrip : forall on_curve T t L vs b,
  lookup_layout T t = Some L -> lay_ok L = true -> t < 65536 ->
  valid_vs on_curve L vs = true ->
  write_message T t vs = Some b -> read_message on_curve T b = Some (t, vs).
Proof. exact message_roundtrip. Qed.

(* every hand-written lnwire layout satisfies the side conditions *)
Theorem C10_wire_layouts_ok :
  forallb (fun e => lay_ok (snd e) && (fst e <? 65536)) wire_layouts = true.
Proof. vm_compute. reflexivity. Qed.

(* ------------------------------------------------------------------ *)
(* messages of the shape "fixed fields ++ TLV extension" (Wire/MsgModel.v):
   M = (fixed layout, optional flag-conditional fields, known records, Repack|Merge) *)

(* every complete valid VALUE round-trips: Decode (Encode v) = v *)
Theorem C10_tlvmsg_roundtrip : forall on_curve M v,
  tm_ok M = true -> valid_tv on_curve M v = true -> complete_tv M v = true ->
  exists e, encode_tm M v = Some e /\ decode_tm on_curve M e = Some v.
Proof. intros oc M v Hok. apply roundtrip. exact Hok. Qed.

(* whatever Decode accepts is a valid value, re-encodes, and ONE re-encode
   reaches a canonical fixpoint: the re-encoding e decodes to v' (v without
   the records Encode does not write) and v' encodes to e again *)
Theorem C10_tlvmsg_fixpoint : forall on_curve M b vs cs rs,
  tm_ok M = true -> wf_bytes b -> decode_tm on_curve M b = Some (vs, cs, rs) ->
  valid_tv on_curve M (vs, cs, rs) = true /\
  exists e, encode_tm M (vs, cs, rs) = Some e /\
            decode_tm on_curve M e = Some (vs, cs, out_recs M rs) /\
            encode_tm M (vs, cs, out_recs M rs) = Some e.
Proof.
  intros oc M b vs cs rs Hok Hw Hd. split; [apply (decode_valid oc M Hok b); assumption|].
  apply (tlvmsg_fixpoint oc M Hok b); assumption.
Qed.

(* what is lost by decode -> encode -> decode: the fixed and conditional fields
   never; a record r of the extension survives iff the message merges
   (MergeAndEncode) or r is one of the message's known records.  So exactly the
   unknown records are lost, and only by the Repack messages (finding C10-F1). *)
Theorem C10_tlvmsg_loss_exactly_unknown : forall on_curve M b vs cs rs,
  tm_ok M = true -> wf_bytes b -> decode_tm on_curve M b = Some (vs, cs, rs) ->
  exists e rs', encode_tm M (vs, cs, rs) = Some e /\
                decode_tm on_curve M e = Some (vs, cs, rs') /\
                (forall r, In r rs' <-> In r rs /\ (tm_mode M = Merge \/
                                                    rec_known (tm_known M) r = true)) /\
                (tm_mode M = Merge -> rs' = rs).
Proof.
  intros oc M b vs cs rs Hok Hw Hd.
  destruct (tlvmsg_fixpoint oc M Hok b vs cs rs Hw Hd) as (e & He & Hde & _).
  exists e, (out_recs M rs). split; [assumption|]. split; [assumption|]. split.
  - intros r. apply out_recs_in.
  - intros Hm. unfold out_recs. rewrite Hm. reflexivity.
Qed.

(* ------------------------------------------------------------------ *)
(* messages with an optional tail (ChannelReestablish: the data-loss-protect fields and
   the TLV extension are present or absent as a group): W = (fixed layout, tail tlvmsg) *)

Theorem C10_optmsg_roundtrip : forall on_curve W v,
  om_ok W = true -> valid_ov on_curve W v = true -> complete_ov W v = true ->
  exists e, encode_om W v = Some e /\ decode_om on_curve W e = Some v.
Proof. intros oc W v Hok. apply om_roundtrip. exact Hok. Qed.

(* whatever Decode accepts is valid and ONE re-encode reaches a canonical fixpoint; a
   present tail stays present, an absent one absent; the only loss is out_recs *)
Theorem C10_optmsg_fixpoint : forall on_curve W b v,
  om_ok W = true -> wf_bytes b -> decode_om on_curve W b = Some v ->
  valid_ov on_curve W v = true /\
  exists e, encode_om W v = Some e /\ decode_om on_curve W e = Some (out_ov W v) /\
            encode_om W (out_ov W v) = Some e.
Proof. intros oc W b v Hok. apply om_fixpoint. exact Hok. Qed.

Theorem C10_gen_optmsgs_ok :
  forallb (fun e => om_ok (snd e) && (fst e <? 65536)) gen_optmsgs = true.
Proof. vm_compute. reflexivity. Qed.

(* T1: the descriptions generated from lnwire's Encode/Decode methods satisfy
   the side conditions of the theorems above (computed) *)
Theorem C10_gen_tlvmsgs_ok :
  forallb (fun e => tm_ok (snd e) && (fst e <? 65536)) gen_tlvmsgs = true.
Proof. vm_compute. reflexivity. Qed.

Theorem C10_gen_layouts_ok :
  forallb (fun e => lay_ok (snd e) && (fst e <? 65536)) gen_layouts = true.
Proof. vm_compute. reflexivity. Qed.

(* the generated layouts coincide with the hand-written ones of Model.v for
   every type both describe (all but the custom range, which the translator
   does not express) *)
Theorem C10_gen_matches_handwritten :
  forallb (fun e => (fst e =? 32768) ||
                    match lookup_layout gen_layouts (fst e) with
                    | Some L => layout_eqb L (snd e)
                    | None => false
                    end) wire_layouts = true.
Proof. vm_compute. reflexivity. Qed.


(* T1 coverage: exactly these message types / failure codes have a generated description
   (and exactly these are left to the harness predicates).  A source edit that pushes a
   message out of the translator's fragment changes a generated table and breaks this
   theorem; props/c10.py then searches the affected types directly. *)
Theorem C10_gen_coverage :
  map fst gen_layouts = [1; 2; 17; 18; 19; 115; 131; 134; 135; 256; 257; 259; 261; 262; 513; 777] /\
  map fst gen_tlvmsgs = [16; 32; 33; 34; 35; 36; 38; 39; 40; 41; 111; 113; 117; 128; 130; 132; 133; 258; 263; 265] /\
  map fst gen_optmsgs = [136] /\
  map fst gen_fdescs = [17; 18; 19; 21; 23; 4103; 4107; 4108; 4109; 4110; 4116; 8194; 16392; 16393; 16394; 16399; 16400; 16406; 24578; 24579; 32769; 49156; 49157; 49158; 49176] /\
  map fst unsupported_messages = [260; 264; 267; 269; 271] /\
  map fst unsupported_failures = [].
Proof. vm_compute. repeat split; reflexivity. Qed.

(* onion failure packets: every valid failure value of a code whose payload
   layout is in the table encodes to exactly 260 bytes (2 + 256 + 2: length,
   message padded to 256, pad length) that DecodeFailure maps back to it *)
Theorem C10_failure_roundtrip : forall on_curve F code L vs p,
  lookup_layout F code = Some L -> lay_ok L = true -> code < 65536 ->
  valid_vs on_curve L vs = true -> encode_failure F code vs = Some p ->
  decode_failure on_curve F p = Some (code, vs) /\ blen p = 260.
Proof. exact failure_roundtrip. Qed.

(* ... and the same for the failure codes that embed a channel_update (TemporaryChannelFailure,
   AmountBelowMinimum, FeeInsufficient, IncorrectCltvExpiry, ExpiryTooSoon, ChannelDisabled):
   fixed fields, u16 length, optional 0x0102 type prefix, ChannelUpdate1 body U.  A valid value
   (update absent only where the code allows it; update complete, i.e. known records only,
   because ChannelUpdate1.Encode re-packs) encodes to a 260-byte packet that decodes back. *)
Theorem C10_failure_update_roundtrip : forall on_curve U T code D v p,
  tm_ok U = true -> lookup_fd T code = Some D -> fd_ok D = true -> code < 65536 ->
  valid_fd on_curve U D v = true -> encode_failure_g U T code v = Some p ->
  decode_failure_g on_curve U T p = Some (code, v) /\ blen p = 260.
Proof. exact failure_g_roundtrip. Qed.

Theorem C10_gen_fdescs_ok :
  tm_ok gen_upd = true /\
  forallb (fun e => fd_ok (snd e) && (fst e <? 65536)) gen_fdescs = true.
Proof. split; vm_compute; reflexivity. Qed.

(* T1: the generated failure-code table satisfies the side conditions *)
Theorem C10_gen_failures_ok :
  forallb (fun e => lay_ok (snd e) && (fst e <? 65536)) gen_failures = true.
Proof. vm_compute. reflexivity. Qed.

(* The DESIGN clause "canonicalisation never grows a message" does NOT extend to
   the TLV-carrying messages: OpenChannel/AcceptChannel.Encode always produce the
   upfront_shutdown_script record (type 0), so an accepted OpenChannel without
   extension data re-encodes two bytes longer (`00 00` appended).  Witness: the
   319-byte all-zero body under an oracle accepting every point. *)
Theorem C10_tlvmsg_always_record_grows : exists b v e,
  wf_bytes b /\ decode_tm (fun _ => true) msg_OpenChannel b = Some v /\
  encode_tm msg_OpenChannel v = Some e /\ length e = (length b + 2)%nat.
Proof.
  exists (repeat 0 319).
  destruct (decode_tm (fun _ => true) msg_OpenChannel (repeat 0 319)) as [v|] eqn:Ev;
    [|vm_compute in Ev; discriminate].
  exists v. destruct (encode_tm msg_OpenChannel v) as [e|] eqn:Ee.
  - exists e. split; [apply wf_bytesb_spec; vm_compute; reflexivity|].
    split; [reflexivity|]. split; [reflexivity|].
    vm_compute in Ev. inversion Ev; subst v. vm_compute in Ee. inversion Ee; subst e.
    vm_compute. reflexivity.
  - vm_compute in Ev. inversion Ev; subst v. vm_compute in Ee. discriminate.
Qed.

(* Every feature vector over the WHOLE FeatureBit (uint16) index range round-trips:
   a set of bits, all < 65536, is a number n < 2^65536 = 256^8192 (take k = 8192);
   its wire form feat_of_N k n (minimal big-endian bytes, at most 8192 of them,
   denoting n) is a valid value, and Decode (Encode v ++ rest) = (v, rest).  In
   particular the 8192-byte vectors with a bit in 65528..65535 set must decode. *)
Theorem C10_feature_vector_roundtrip : forall on_curve k n r,
  N.of_nat k <= 8192 -> n < 256 ^ N.of_nat k ->
  valid_f on_curve FFeat (VB (feat_of_N k n)) = true /\ be_dec (feat_of_N k n) = n /\
  blen (feat_of_N k n) <= 8192 /\
  exists e, enc_f FFeat (VB (feat_of_N k n)) = Some e /\
            dec_f on_curve FFeat (e ++ r) = Some (VB (feat_of_N k n), r).
Proof. exact feature_vector_roundtrip. Qed.

(* ------------------------------------------------------------------ *)
(* default-elided records of the pure-TLV messages (ChannelUpdate2: disable flags, cltv delta,
   htlc minimum, fees; chain hash of ChannelUpdate2 / ChannelAnnouncement2).  The encoder
   writes the record iff `emit value`; the decoder stores d when the record is absent. *)

(* every value round-trips EXACTLY when the encoder never elides a non-default value *)
Theorem C10_elided_roundtrip_iff : forall emit d,
  (forall v, el_decode d (el_encode emit v) = v) <-> (forall v, emit v = false -> v = d).
Proof. exact elide_roundtrip_iff. Qed.

(* with the test "value <> default": values round-trip, and decode-then-encode of any wire
   form is canonical (an explicitly sent default is dropped, everything else reproduced) *)
Theorem C10_elided_canonical : forall emit d,
  (forall v, emit v = negb (v =? d)) ->
  (forall v, el_decode d (el_encode emit v) = v) /\
  (forall w, el_encode emit (el_decode d w) =
             match w with Some v => if v =? d then None else w | None => None end).
Proof. exact elide_canonical. Qed.

(* a test that elides some non-default value loses it: decode (encode v) = d <> v *)
Theorem C10_elided_lossy : forall emit d v,
  emit v = false -> v <> d -> el_decode d (el_encode emit v) <> v.
Proof.
  intros emit d v He Hv. unfold el_decode, el_encode. rewrite He. intros H. apply Hv. symmetry. exact H.
Qed.

(* T1: every elision site read from lnwire's record-collecting methods has a test of a shape
   that means "value <> c", and c is the default its Decode method fills in *)
Theorem C10_gen_elisions_ok : forallb elision_ok gen_elisions = true.
Proof. vm_compute. reflexivity. Qed.

Theorem C10_gen_elisions_sound : forall e d,
  In e gen_elisions -> el_default e = DConst d ->
  forall v, el_decode d (el_encode (etest_fn (el_test e)) v) = v.
Proof.
  intros e d Hin Hd. pose proof C10_gen_elisions_ok as H. rewrite forallb_forall in H.
  specialize (H e Hin). apply (C10_elided_canonical _ d). apply elision_ok_spec; assumption.
Qed.

(* the sites are exactly these (message type, record type) pairs *)
Theorem C10_gen_elisions_sites :
  map (fun e => (el_msg e, el_type e)) gen_elisions =
  [(267, 0); (271, 0); (271, 6); (271, 10); (271, 12); (271, 16); (271, 18)].
Proof. vm_compute. reflexivity. Qed.
