(* Non-vacuity of the hypotheses of the C10 theorems. *)
From Coq Require Import List NArith Bool Lia.
From LV Require Import Wire.Model Wire.Proofs Wire.Props.
Import ListNotations.
Local Open Scope N_scope.

Definition ex_ks : kinds := [(2, KFixed 8); (4, KTrunc 8); (6, KVar); (14, KBool)].
Definition ex_rs : list tlv_record :=
  [(1, [7; 7]); (2, [0; 0; 0; 0; 0; 0; 1; 2]); (4, [9]); (6, []); (14, [1]);
   (65536, [1; 2; 3]); (two64 - 1, [])].

Example ex_no_bigsize : no_bigsize ex_ks.
Proof. cbn. exact I. Qed.

Example ex_canonical : canonical_records ex_ks true ex_rs.
Proof.
  split.
  - cbn. unfold two64. repeat split; lia.
  - unfold ex_rs. repeat (apply Forall_cons || apply Forall_nil);
      unfold record_ok; cbn; unfold two64, max_record_size;
      (split; [lia|split; [lia|]]); auto.
    split; [lia|exact I].
Qed.

(* the theorem applies to it and the model really decodes it *)
Example ex_stream_accepted :
  decode_stream ex_ks true (encode_stream ex_rs) = Ok ex_rs.
Proof. vm_compute. reflexivity. Qed.

(* a non-canonical stream (types out of order) is rejected *)
Example ex_stream_rejected :
  decode_stream ex_ks true [3; 0; 1; 0] = Err EStreamNotCanonical.
Proof. vm_compute. reflexivity. Qed.

Example ex_bigsize_noncanonical : bigsize_dec [253; 0; 252] = Err EVarIntNotCanonical.
Proof. vm_compute. reflexivity. Qed.

(* layouts: a valid UpdateFailHTLC value and its round trip *)
Definition ex_fail_htlc : list fval :=
  [VB (repeat 7 32); VN 5; VB [1; 2; 3]; VB [1; 1; 9]].

Example ex_layout_valid :
  valid_vs (fun _ => true) [chan_id; FU 8; FVar16; FRest] ex_fail_htlc = true.
Proof. vm_compute. reflexivity. Qed.

Example ex_message_roundtrip :
  match write_message wire_layouts 131 ex_fail_htlc with
  | Some b => read_message (fun _ => true) wire_layouts b = Some (131, ex_fail_htlc)
  | None => False
  end.
Proof. vm_compute. reflexivity. Qed.

(* exact layouts ending in extension data exist among the real ones *)
Example ex_exact_layout :
  forallb exact_f [chan_id; FU 8; FVar16; FRest] = true /\
  ends_terminal [chan_id; FU 8; FVar16; FRest] = true.
Proof. split; reflexivity. Qed.

(* a normalising field: Stfu's bool byte 2 decodes as false and re-encodes as 0 *)
Example ex_bool_normalises :
  decode (fun _ => true) [FBool] [2] = Some [VN 0] /\ encode [FBool] [VN 0] = Some [0].
Proof. split; reflexivity. Qed.

(* ---- TLV-carrying messages (generated descriptions of Gen/GenWire.v) ---- *)
From LV Require Import Wire.MsgModel Gen.GenWire.

(* hypotheses of C10_tlvmsg_roundtrip are satisfiable: a QueryChannelRange
   value with its known record, a ChannelUpdate1 value with the max-htlc flag
   set, the conditional field and the inbound-fee record *)
Example ex_tlvmsg_valid :
  let v := ([VB (repeat 7 32); VN 5; VN 6], [], [(1, [1; 2])]) in
  tm_ok msg_QueryChannelRange = true /\
  valid_tv (fun _ => true) msg_QueryChannelRange v = true /\
  complete_tv msg_QueryChannelRange v = true.
Proof. vm_compute. auto. Qed.

Example ex_tlvmsg_cond_valid :
  let v := ([VB (repeat 1 64); VB (repeat 2 32); VN 99; VN 1000; VN 1; VN 0; VN 40; VN 1; VN 2; VN 3],
            [VN 123456], [(55555, [0; 0; 0; 1; 0; 0; 0; 2])]) in
  tm_ok msg_ChannelUpdate1 = true /\
  valid_tv (fun _ => true) msg_ChannelUpdate1 v = true /\
  complete_tv msg_ChannelUpdate1 v = true /\
  match encode_tm msg_ChannelUpdate1 v with
  | Some e => decode_tm (fun _ => true) msg_ChannelUpdate1 e = Some v /\ length e = 148%nat
  | None => False
  end.
Proof. vm_compute. auto. Qed.

(* hypotheses of C10_tlvmsg_fixpoint / _loss_exactly_unknown: an accepted
   QueryChannelRange whose known feature record has a leading zero byte
   (normalised) and which carries an unknown odd record (dropped by Encode) *)
Example ex_tlvmsg_loss :
  let b := repeat 7 32 ++ [0; 0; 0; 5; 0; 0; 0; 6] ++ [1; 2; 0; 9] ++ [3; 1; 255] in
  decode_tm (fun _ => true) msg_QueryChannelRange b =
    Some ([VB (repeat 7 32); VN 5; VN 6], [], [(1, [9]); (3, [255])]) /\
  out_recs msg_QueryChannelRange [(1, [9]); (3, [255])] = [(1, [9])].
Proof. vm_compute. auto. Qed.

(* a Merge message keeps the unknown record; the always-produced record of
   OpenChannel (upfront shutdown script, type 0) is inserted by Decode *)
Example ex_tlvmsg_merge_keeps :
  out_recs msg_UpdateFulfillHTLC [(3, [255]); (65537, [1])] = [(3, [255]); (65537, [1])] /\
  ensure_all (always_types (tm_known msg_OpenChannel)) [(1, [2])] = [(0, []); (1, [2])].
Proof. vm_compute. auto. Qed.

(* ---- C10c: messages and failure codes added by the third work package ---- *)

(* C10_optmsg_roundtrip / _fixpoint are not vacuous: ChannelReestablish without its tail,
   and with the data-loss-protect fields, a DynHeight record and a two-entry LocalNonces map *)
Definition ex_entry (k : N) : bytes := repeat k 32 ++ repeat 2 66.

Example ex_optmsg_valid :
  let v0 : ovalue := ([VB (repeat 7 32); VN 5; VN 6], None) in
  let v1 : ovalue := ([VB (repeat 7 32); VN 5; VN 6],
                      Some ([VB (repeat 9 32); VB (repeat 2 33)], [],
                            [(20, [0; 0; 0; 0; 0; 0; 0; 9]); (22, ex_entry 1 ++ ex_entry 3)])) in
  om_ok opt_ChannelReestablish = true /\
  valid_ov (fun _ => true) opt_ChannelReestablish v0 = true /\
  valid_ov (fun _ => true) opt_ChannelReestablish v1 = true /\
  complete_ov opt_ChannelReestablish v1 = true /\
  match encode_om opt_ChannelReestablish v1 with
  | Some e => decode_om (fun _ => true) opt_ChannelReestablish e = Some v1 /\ length e = 321%nat
  | None => False
  end.
Proof. vm_compute. repeat split; reflexivity. Qed.

(* the LocalNonces map is re-encoded sorted by txid; a duplicate txid and a 17th entry are
   rejected (decodeLocalNoncesData) *)
Example ex_nonce_map :
  rk_norm RKNonceMap (ex_entry 3 ++ ex_entry 1) = ex_entry 1 ++ ex_entry 3 /\
  rk_check (fun _ => true) RKNonceMap (ex_entry 3 ++ ex_entry 1) = true /\
  rk_check (fun _ => true) RKNonceMap (ex_entry 3 ++ ex_entry 3) = false /\
  rk_check (fun _ => true) RKNonceMap (concat (map ex_entry (map N.of_nat (seq 0 16)))) = true /\
  rk_check (fun _ => true) RKNonceMap (concat (map ex_entry (map N.of_nat (seq 0 17)))) = false /\
  rk_check (fun _ => true) RKNonceMap (ex_entry 3 ++ [0]) = false.
Proof. vm_compute. repeat split; reflexivity. Qed.

(* ClosingComplete: regular and taproot signatures exclude each other *)
Example ex_closing_excl :
  let pre := repeat 7 32 ++ [0; 0] ++ [0; 0] ++ repeat 0 8 ++ repeat 0 4 in
  let sig := 1 :: 64 :: repeat 5 64 in
  let tap := 5 :: 98 :: repeat 1 98 in
  (exists v, decode_tm (fun _ => true) msg_ClosingComplete (pre ++ sig) = Some v) /\
  (exists v, decode_tm (fun _ => true) msg_ClosingComplete (pre ++ tap) = Some v) /\
  decode_tm (fun _ => true) msg_ClosingComplete (pre ++ sig ++ tap) = None.
Proof. vm_compute. repeat split; eauto. Qed.

(* finding C10-F2 at message level: DynPropose accepts a dust-limit record (type 0, a BigSize
   integer) announcing 3 bytes while its value takes one; the re-encoding announces 1 *)
Example ex_dyn_bigsize_claim :
  let b := repeat 7 32 ++ [0; 3; 5] ++ [8; 2; 0; 9] in
  match decode_tm (fun _ => true) msg_DynPropose b with
  | Some v => encode_tm msg_DynPropose v = Some (repeat 7 32 ++ [0; 1; 5] ++ [8; 2; 0; 9])
  | None => False
  end.
Proof. vm_compute. reflexivity. Qed.

(* C10_failure_update_roundtrip is not vacuous: FeeInsufficient with an embedded update *)
Example ex_failure_update :
  let upd : tvalue :=
    ([VB (repeat 1 64); VB (repeat 2 32); VN 99; VN 1000; VN 1; VN 0; VN 40; VN 1; VN 2; VN 3],
     [VN 123456], [(55555, [0; 0; 0; 1; 0; 0; 0; 2])]) in
  let v : ovalue := ([VN 777], Some upd) in
  tm_ok gen_upd = true /\
  valid_fd (fun _ => true) gen_upd (FDUpd failupd_FailFeeInsufficient) v = true /\
  match encode_failure_g gen_upd gen_fdescs 4108 v with
  | Some p => decode_failure_g (fun _ => true) gen_upd gen_fdescs p = Some (4108, v) /\
              length p = 260%nat
  | None => False
  end.
Proof. vm_compute. repeat split; reflexivity. Qed.

(* the update may come without its 0x0102 type prefix, and a claimed length beyond the
   input is cut by the reader; TemporaryChannelFailure may carry no update at all *)
Example ex_failure_update_compat :
  read_fmessage (fun _ => true) gen_upd gen_fdescs [16; 7; 0; 0] = Some (4103, ([], None)) /\
  read_fmessage (fun _ => true) gen_upd gen_fdescs [16; 14; 0; 0] = None /\
  (exists v, read_fmessage (fun _ => true) gen_upd gen_fdescs
               ([16; 14; 0; 200] ++ repeat 3 64 ++ repeat 2 32 ++ repeat 0 32) = Some (4110, v)).
Proof. vm_compute. repeat split; eauto. Qed.

(* EOF-tolerant payload: IncorrectDetails with no payload is amount 0, height 0 and
   re-encodes to 12 bytes; a partly present field is an error *)
Example ex_eof_payload :
  decode_fd (fun _ => true) gen_upd (FDEof faileof_FailIncorrectDetails) [] =
    Some ([VN 0; VN 0; VB []], None) /\
  encode_fd gen_upd (FDEof faileof_FailIncorrectDetails) ([VN 0; VN 0; VB []], None) =
    Some (repeat 0 12) /\
  decode_fd (fun _ => true) gen_upd (FDEof faileof_FailIncorrectDetails) [0; 0; 0] = None /\
  decode_fd (fun _ => true) gen_upd (FDEof faileof_FailIncorrectDetails) (repeat 1 8) =
    Some ([VN 72340172838076673; VN 0; VB []], None).
Proof. vm_compute. repeat split; reflexivity. Qed.

(* node_announcement addresses: padding dropped, IPv4-mapped tcp6 becomes tcp4, an unknown
   descriptor type keeps the rest opaque, a cut descriptor is an error; alias must be UTF-8 *)
Example ex_addrs :
  addrs_parse ([0] ++ [2] ++ repeat 0 10 ++ [255; 255; 10; 0; 0; 1; 37; 7] ++ [9; 1; 2]) =
    Some ([1; 10; 0; 0; 1; 37; 7] ++ [9; 1; 2]) /\
  addrs_parse [1; 10; 0; 0] = None /\
  utf8_valid [104; 195; 169; 0] = true /\ utf8_valid [192; 128] = false /\
  utf8_valid [237; 160; 128] = false /\ utf8_valid [244; 144; 128; 128] = false /\
  utf8_valid [226; 130] = false.
Proof. vm_compute. repeat split; reflexivity. Qed.
