(* Non-vacuity of the hypotheses of the C10 theorems. *)
From Coq Require Import List NArith Bool Lia.
From LV Require Import Wire.Model Wire.Proofs Wire.Props.
Import ListNotations.
Local Open Scope N_scope.

Definition ex_ks : kinds := [(2, KFixed 8); (4, KTrunc 8); (6, KVar); (14, KBool)].
Definition ex_rs : list tlv_record :=
  [(1, [7; 7]); (2, [0; 0; 0; 0; 0; 0; 1; 2]); (4, [9]); (6, []); (14, [1]);
   (65536, [1; 2; 3]); (two64 - 1, [])].

Example ex_no_bigsize : no_bigsize ex_ks.
Proof. cbn. exact I. Qed.

Example ex_canonical : canonical_records ex_ks true ex_rs.
Proof.
  split.
  - cbn. unfold two64. repeat split; lia.
  - unfold ex_rs. repeat (apply Forall_cons || apply Forall_nil);
      unfold record_ok; cbn; unfold two64, max_record_size;
      (split; [lia|split; [lia|]]); auto.
    split; [lia|exact I].
Qed.

(* the theorem applies to it and the model really decodes it *)
Example ex_stream_accepted :
  decode_stream ex_ks true (encode_stream ex_rs) = Ok ex_rs.
Proof. vm_compute. reflexivity. Qed.

(* a non-canonical stream (types out of order) is rejected *)
Example ex_stream_rejected :
  decode_stream ex_ks true [3; 0; 1; 0] = Err EStreamNotCanonical.
Proof. vm_compute. reflexivity. Qed.

Example ex_bigsize_noncanonical : bigsize_dec [253; 0; 252] = Err EVarIntNotCanonical.
Proof. vm_compute. reflexivity. Qed.

(* layouts: a valid UpdateFailHTLC value and its round trip *)
Definition ex_fail_htlc : list fval :=
  [VB (repeat 7 32); VN 5; VB [1; 2; 3]; VB [1; 1; 9]].

Example ex_layout_valid :
  valid_vs (fun _ => true) [chan_id; FU 8; FVar16; FRest] ex_fail_htlc = true.
Proof. vm_compute. reflexivity. Qed.

Example ex_message_roundtrip :
  match write_message wire_layouts 131 ex_fail_htlc with
  | Some b => read_message (fun _ => true) wire_layouts b = Some (131, ex_fail_htlc)
  | None => False
  end.
Proof. vm_compute. reflexivity. Qed.

(* exact layouts ending in extension data exist among the real ones *)
Example ex_exact_layout :
  forallb exact_f [chan_id; FU 8; FVar16; FRest] = true /\
  ends_terminal [chan_id; FU 8; FVar16; FRest] = true.
Proof. split; reflexivity. Qed.

(* a normalising field: Stfu's bool byte 2 decodes as false and re-encodes as 0 *)
Example ex_bool_normalises :
  decode (fun _ => true) [FBool] [2] = Some [VN 0] /\ encode [FBool] [VN 0] = Some [0].
Proof. split; reflexivity. Qed.

(* ---- TLV-carrying messages (generated descriptions of Gen/GenWire.v) ---- *)
From LV Require Import Wire.MsgModel Gen.GenWire.

(* hypotheses of C10_tlvmsg_roundtrip are satisfiable: a QueryChannelRange
   value with its known record, a ChannelUpdate1 value with the max-htlc flag
   set, the conditional field and the inbound-fee record *)
Example ex_tlvmsg_valid :
  let v := ([VB (repeat 7 32); VN 5; VN 6], [], [(1, [1; 2])]) in
  tm_ok msg_QueryChannelRange = true /\
  valid_tv (fun _ => true) msg_QueryChannelRange v = true /\
  complete_tv msg_QueryChannelRange v = true.
Proof. vm_compute. auto. Qed.

Example ex_tlvmsg_cond_valid :
  let v := ([VB (repeat 1 64); VB (repeat 2 32); VN 99; VN 1000; VN 1; VN 0; VN 40; VN 1; VN 2; VN 3],
            [VN 123456], [(55555, [0; 0; 0; 1; 0; 0; 0; 2])]) in
  tm_ok msg_ChannelUpdate1 = true /\
  valid_tv (fun _ => true) msg_ChannelUpdate1 v = true /\
  complete_tv msg_ChannelUpdate1 v = true /\
  match encode_tm msg_ChannelUpdate1 v with
  | Some e => decode_tm (fun _ => true) msg_ChannelUpdate1 e = Some v /\ length e = 148%nat
  | None => False
  end.
Proof. vm_compute. auto. Qed.

(* hypotheses of C10_tlvmsg_fixpoint / _loss_exactly_unknown: an accepted
   QueryChannelRange whose known feature record has a leading zero byte
   (normalised) and which carries an unknown odd record (dropped by Encode) *)
Example ex_tlvmsg_loss :
  let b := repeat 7 32 ++ [0; 0; 0; 5; 0; 0; 0; 6] ++ [1; 2; 0; 9] ++ [3; 1; 255] in
  decode_tm (fun _ => true) msg_QueryChannelRange b =
    Some ([VB (repeat 7 32); VN 5; VN 6], [], [(1, [9]); (3, [255])]) /\
  out_recs msg_QueryChannelRange [(1, [9]); (3, [255])] = [(1, [9])].
Proof. vm_compute. auto. Qed.

(* a Merge message keeps the unknown record; the always-produced record of
   OpenChannel (upfront shutdown script, type 0) is inserted by Decode *)
Example ex_tlvmsg_merge_keeps :
  out_recs msg_UpdateFulfillHTLC [(3, [255]); (65537, [1])] = [(3, [255]); (65537, [1])] /\
  ensure_all (always_types (tm_known msg_OpenChannel)) [(1, [2])] = [(0, []); (1, [2])].
Proof. vm_compute. auto. Qed.
