(* Executable model of lnd's wire codecs (C10).  Definitions only.
     tlv/varint.go      ReadVarInt / WriteVarInt            -> bigsize_dec / bigsize_enc
     tlv/stream.go      Stream.decode (Decode / DecodeP2P)  -> dec_loop / decode_stream
                        Stream.Encode                       -> encode_stream
     tlv/primitive.go, truncated.go   value decoders        -> dec_value
     lnwire/lnwire.go   ReadElement / WriteElement          -> dec_f / enc_f
     lnwire/message.go  ReadMessage / WriteMessage          -> read_message / write_message
   A byte string is a list of N; well-formed = every element < 256. *)
From Coq Require Import List NArith Bool.
Import ListNotations.
Local Open Scope N_scope.

Definition bytes := list N.
Definition wf_bytes (b : bytes) : Prop := Forall (fun x => x < 256) b.
Definition wf_bytesb (b : bytes) : bool := forallb (fun x => x <? 256) b.
Definition blen (b : bytes) : N := N.of_nat (length b).

Inductive err :=
| EEOF                  (* io.EOF *)
| EUnexpectedEOF        (* io.ErrUnexpectedEOF *)
| EVarIntNotCanonical   (* tlv.ErrVarIntNotCanonical *)
| EStreamNotCanonical   (* tlv.ErrStreamNotCanonical *)
| ERecordTooLarge       (* tlv.ErrRecordTooLarge *)
| ETypeLen              (* tlv.ErrTypeForDecoding: wrong length for a known record *)
| ENotMinimal           (* tlv.ErrTUintNotMinimal *)
| ECorrupt              (* DBool: "corrupted data" *)
| EOutOfFuel.           (* never returned: see Proofs.dec_loop_fuel *)

Inductive res (A : Type) := Ok (a : A) | Err (e : err).
Arguments Ok {A} a.
Arguments Err {A} e.

Definition two64 : N := 18446744073709551616.
Definition two63 : N := 9223372036854775808.
Definition max_record_size : N := 65535.       (* tlv.MaxRecordSize *)
Definition max_msg_body : N := 65533.          (* lnwire.MaxMsgBody *)

(* ---------------------------------------------------------------- *)
(* big-endian fixed width *)

Fixpoint be_dec_acc (bs : bytes) (acc : N) : N :=
  match bs with [] => acc | b :: r => be_dec_acc r (acc * 256 + b) end.
Definition be_dec (bs : bytes) : N := be_dec_acc bs 0.

(* k bytes, most significant first (binary.BigEndian.PutUintK of the value
   truncated to k bytes, as Go's uintK(val) conversion does) *)
Fixpoint be_enc (k : nat) (v : N) : bytes :=
  match k with
  | O => []
  | S k' => be_enc k' (v / 256) ++ [v mod 256]
  end.

(* io.ReadFull of n bytes: None = not enough input *)
Definition take (n : N) (b : bytes) : option (bytes * bytes) :=
  if blen b <? n then None
  else Some (firstn (N.to_nat n) b, skipn (N.to_nat n) b).

Definition read_be (k : nat) (b : bytes) : option (N * bytes) :=
  match take (N.of_nat k) b with
  | None => None
  | Some (h, t) => Some (be_dec h, t)
  end.

(* ---------------------------------------------------------------- *)
(* BigSize (tlv/varint.go) *)

Definition bigsize_enc (v : N) : bytes :=
  if v <? 253 then [v]
  else if v <=? 65535 then 253 :: be_enc 2 v
  else if v <=? 4294967295 then 254 :: be_enc 4 v
  else 255 :: be_enc 8 v.

Definition bigsize_dec (b : bytes) : res (N * bytes) :=
  match b with
  | [] => Err EEOF
  | d :: r =>
    if d <? 253 then Ok (d, r)
    else if d =? 253 then
      match read_be 2 r with
      | None => Err EUnexpectedEOF
      | Some (v, r') => if v <? 253 then Err EVarIntNotCanonical else Ok (v, r')
      end
    else if d =? 254 then
      match read_be 4 r with
      | None => Err EUnexpectedEOF
      | Some (v, r') => if v <=? 65535 then Err EVarIntNotCanonical else Ok (v, r')
      end
    else
      match read_be 8 r with
      | None => Err EUnexpectedEOF
      | Some (v, r') => if v <=? 4294967295 then Err EVarIntNotCanonical else Ok (v, r')
      end
  end.

(* ---------------------------------------------------------------- *)
(* TLV stream (tlv/stream.go) *)

(* decoder attached to a known record type *)
Inductive vkind :=
| KFixed (k : N)      (* DUint8/16/32/64, DBytes32/33/64: l must equal k *)
| KTrunc (k : N)      (* DTUint16/32/64: l <= k and no leading zero byte *)
| KVar                (* DVarBytes *)
| KBool               (* DBool: l = 1, byte 0 or 1 *)
| KBigSize.           (* DBigSize: reads one varint, IGNORES l *)

Definition kinds := list (N * vkind).

Fixpoint lookup_kind (ks : kinds) (t : N) : option vkind :=
  match ks with
  | [] => None
  | (t', k) :: r => if t =? t' then Some k else lookup_kind r t
  end.

Definition tlv_record := (N * bytes)%type.

Definition take_value (l : N) (r : bytes) : res (bytes * bytes) :=
  match take l r with
  | None => Err EUnexpectedEOF
  | Some x => Ok x
  end.

(* rec.decoder(r, val, buf, length) / io.CopyN(discard, r, int64(length)).
   Returns (value bytes, remaining input). *)
Definition dec_value (k : option vkind) (p2p : bool) (l : N) (r : bytes)
  : res (bytes * bytes) :=
  match k with
  | None =>
    (* unknown type: io.CopyN(w, r, int64(length)).  On the non-p2p path a
       length >= 2^63 converts to a negative int64 and CopyN copies nothing
       and reports success. *)
    if negb p2p && (two63 <=? l) then Ok ([], r) else take_value l r
  | Some (KFixed n) => if l =? n then take_value l r else Err ETypeLen
  | Some (KTrunc n) =>
    if l <=? n then
      match take_value l r with
      | Err e => Err e
      | Ok (v, r') =>
        match v with
        | 0 :: _ => Err ENotMinimal
        | _ => Ok (v, r')
        end
      end
    else Err ETypeLen
  | Some KVar => take_value l r
  | Some KBool =>
    if l =? 1 then
      match take_value l r with
      | Err e => Err e
      | Ok (v, r') =>
        match v with
        | [x] => if x <=? 1 then Ok (v, r') else Err ECorrupt
        | _ => Err ECorrupt
        end
      end
    else Err ETypeLen
  | Some KBigSize =>
    match bigsize_dec r with
    | Err EEOF => Err EUnexpectedEOF
    | Err e => Err e
    | Ok (v, r') => Ok (bigsize_enc v, r')
    end
  end.

Definition no_eof {A} (x : res A) : res A :=
  match x with Err EEOF => Err EUnexpectedEOF | _ => x end.

(* the for-loop of Stream.decode; min/overflow are the Go variables
   (min wraps at 2^64 exactly as `min = typ + 1` on a uint64 does) *)
Fixpoint dec_loop (fuel : nat) (ks : kinds) (p2p : bool) (min : N) (overflow : bool)
         (b : bytes) : res (list tlv_record) :=
  match fuel with
  | O => Err EOutOfFuel
  | S f =>
    match bigsize_dec b with
    | Err EEOF => Ok []
    | Err e => Err e
    | Ok (t, r1) =>
      if overflow || (t <? min) then Err EStreamNotCanonical else
      match no_eof (bigsize_dec r1) with
      | Err e => Err e
      | Ok (l, r2) =>
        if p2p && (max_record_size <? l) then Err ERecordTooLarge else
        match no_eof (dec_value (lookup_kind ks t) p2p l r2) with
        | Err e => Err e
        | Ok (v, r3) =>
          match dec_loop f ks p2p ((t + 1) mod two64) (t =? two64 - 1) r3 with
          | Ok rs => Ok ((t, v) :: rs)
          | Err e => Err e
          end
        end
      end
    end
  end.

Definition decode_stream (ks : kinds) (p2p : bool) (b : bytes) : res (list tlv_record) :=
  dec_loop (S (length b)) ks p2p 0 false b.

(* Stream.Encode: type, length, value of every record in order *)
Definition enc_record (r : tlv_record) : bytes :=
  bigsize_enc (fst r) ++ bigsize_enc (blen (snd r)) ++ snd r.

Definition encode_stream (rs : list tlv_record) : bytes := concat (map enc_record rs).

(* ExtraOpaqueData handling of the messages that parse known records out of
   the extension data and re-pack on Encode (ChannelReady, ChannelUpdate1, …):
   Decode = ExtractRecords(known…) keeping the raw bytes;
   Encode = EncodeMessageExtraData(&ExtraData, known…) = PackRecords, which
   REPLACES ExtraData by the encoding of the known records only. *)
Definition is_known (ks : kinds) (r : tlv_record) : bool :=
  match lookup_kind ks (fst r) with Some _ => true | None => false end.

Definition extra_reencode (ks : kinds) (extra : bytes) : option bytes :=
  match decode_stream ks true extra with
  | Ok rs => Some (encode_stream (filter (is_known ks) rs))
  | Err _ => None
  end.

(* --- the specification side: what "canonical" means --- *)

(* strictly increasing, first element >= lb *)
Fixpoint sorted_from (lb : N) (rs : list tlv_record) : Prop :=
  match rs with
  | [] => True
  | (t, _) :: r => lb <= t /\ sorted_from (t + 1) r
  end.

Definition value_ok (k : option vkind) (v : bytes) : Prop :=
  match k with
  | None => True
  | Some (KFixed n) => blen v = n
  | Some (KTrunc n) => blen v <= n /\ (match v with 0 :: _ => False | _ => True end)
  | Some KVar => True
  | Some KBool => v = [0] \/ v = [1]
  | Some KBigSize => exists n, n < two64 /\ v = bigsize_enc n
  end.

Definition len_bound (p2p : bool) : N := if p2p then max_record_size else two63 - 1.

Definition record_ok (ks : kinds) (p2p : bool) (r : tlv_record) : Prop :=
  fst r < two64 /\ blen (snd r) <= len_bound p2p /\ value_ok (lookup_kind ks (fst r)) (snd r).

Definition canonical_records (ks : kinds) (p2p : bool) (rs : list tlv_record) : Prop :=
  sorted_from 0 rs /\ Forall (record_ok ks p2p) rs.

Fixpoint no_bigsize (ks : kinds) : Prop :=
  match ks with
  | [] => True
  | (_, KBigSize) :: _ => False
  | _ :: r => no_bigsize r
  end.

(* executable versions, used by the checker and reflected in Proofs.v *)
Fixpoint sorted_fromb (lb : N) (rs : list tlv_record) : bool :=
  match rs with
  | [] => true
  | (t, _) :: r => (lb <=? t) && sorted_fromb (t + 1) r
  end.

(* ---------------------------------------------------------------- *)
(* lnwire element codecs and message layouts *)

Inductive fkind :=
| FU (k : nat)        (* uint8/16/32/64, MilliSatoshi, Amount, FailCode, ShortChannelID: k bytes BE *)
| FBytes (n : nat)    (* fixed raw bytes: ChannelID, hashes, Sig (64), [33]byte *)
| FPoint              (* *btcec.PublicKey: 33 bytes accepted iff on_curve *)
| FVar16              (* u16 length + bytes: PingPayload, ErrorData, OpaqueReason, … *)
| FBool               (* 1 byte; ReadElement sets true only for 1: normalising *)
| FFeat               (* RawFeatureVector: u16 length + bytes, re-encoded minimally *)
| FVar16Max (m : N)   (* DeliveryAddress: u16 length, rejected when > m, then the bytes *)
| FArr16 (n : nat)    (* []Sig: u16 count, then count elements of n raw bytes each *)
| FAlias              (* NodeAlias: 32 bytes accepted iff utf8.ValidString *)
| FAddrs              (* []net.Addr: u16 byte length + address descriptors, re-encoded from the
                         parsed addresses (padding descriptors dropped, IPv4-mapped tcp6 -> tcp4) *)
| FBigSize            (* tlv.ReadVarInt / WriteVarInt: a BigSize integer, minimal encodings only *)
| FScids              (* encodeShortChanIDs / decodeShortChanIDs with the PLAIN encoding: u16 n;
                         n = 0: no ids; else n bytes = encoding byte 0 ++ 8-byte ids, strictly
                         increasing.  Encode always writes the encoding byte (n = 8*count + 1), so
                         the empty list `00 00` re-encodes as `00 01 00`.  zlib (encoding byte 1)
                         is NOT modelled: dec_f rejects it and props/c10.py keeps such inputs out
                         of the model comparison (they stay under the Go-side predicates). *)
| FRest               (* ExtraOpaqueData read with io.ReadAll: all remaining bytes *)
| FTlvRest.           (* ExtraOpaqueData + ValidateTLV (DecodeP2P with no known records) *)

Inductive fval := VN (n : N) | VB (b : bytes).

Definition layout := list fkind.

Fixpoint beq (a b : bytes) : bool :=
  match a, b with
  | [], [] => true
  | x :: a', y :: b' => (x =? y) && beq a' b'
  | _, _ => false
  end.

(* unicode/utf8.ValidString: `need` continuation bytes outstanding, the next one in lo..hi
   (the first continuation byte of E0/ED/F0/F4 has a narrower range: no overlong forms,
   no surrogates, nothing above U+10FFFF) *)
Fixpoint utf8_from (b : bytes) (need : nat) (lo hi : N) : bool :=
  match b with
  | [] => match need with O => true | _ => false end
  | x :: r =>
    match need with
    | S n => (lo <=? x) && (x <=? hi) && utf8_from r n 128 191
    | O =>
      if x <? 128 then utf8_from r 0 128 191
      else if x <? 194 then false
      else if x <? 224 then utf8_from r 1 128 191
      else if x =? 224 then utf8_from r 2 160 191
      else if x =? 237 then utf8_from r 2 128 159
      else if x <? 240 then utf8_from r 2 128 191
      else if x =? 240 then utf8_from r 3 144 191
      else if x <? 244 then utf8_from r 3 128 191
      else if x =? 244 then utf8_from r 3 128 143
      else false
    end
  end.

Definition utf8_valid (b : bytes) : bool := utf8_from b 0 128 191.

(* ---- address descriptors of node_announcement (lnwire.ReadAddress / WriteNetAddrs) ----
   0 padding (skipped, not kept); 1 tcp4: 4+2 bytes; 2 tcp6: 16+2 bytes (net.IP.To4() turns
   an IPv4-mapped address ::ffff:a.b.c.d into a tcp4 descriptor on re-encode); 3 onion v2:
   10+2; 4 onion v3: 35+2; 5 dns: u8 length, hostname, 2-byte port; any other type: the rest
   of the address bytes, kept opaque.  Result: the re-encoding of the parsed addresses;
   None = a descriptor is cut short. *)
Definition v4_mapped (h : bytes) : bool :=
  beq (firstn 12 h) [0; 0; 0; 0; 0; 0; 0; 0; 0; 0; 255; 255].

Fixpoint addrs_norm (fuel : nat) (b : bytes) : option bytes :=
  match fuel with
  | O => None
  | S f =>
    match b with
    | [] => Some []
    | t :: r =>
      let fixed n :=
        match take n r with
        | Some (h, r') =>
          match addrs_norm f r' with Some x => Some (t :: h ++ x) | None => None end
        | None => None
        end in
      if t =? 0 then addrs_norm f r
      else if t =? 1 then fixed 6
      else if t =? 2 then
        match take 18 r with
        | Some (h, r') =>
          match addrs_norm f r' with
          | Some x => Some ((if v4_mapped h then 1 :: skipn 12 h else 2 :: h) ++ x)
          | None => None
          end
        | None => None
        end
      else if t =? 3 then fixed 12
      else if t =? 4 then fixed 37
      else if t =? 5 then
        match r with
        | l :: r1 =>
          match take (l + 2) r1 with
          | Some (h, r') =>
            match addrs_norm f r' with Some x => Some (5 :: l :: h ++ x) | None => None end
          | None => None
          end
        | [] => None
        end
      else Some b
    end
  end.

Definition addrs_parse (b : bytes) : option bytes := addrs_norm (S (length b)) b.

(* short channel ids: k chunks of 8 bytes, each (as a big-endian number = ToUint64) strictly
   greater than the one before *)
Fixpoint ids_inc (k : nat) (prev : option N) (b : bytes) : bool :=
  match k with
  | O => true
  | S k' =>
    let x := be_dec (firstn 8 b) in
    (match prev with Some p => p <? x | None => true end) && ids_inc k' (Some x) (skipn 8 b)
  end.

Definition scids_ok (ids : bytes) : bool :=
  Nat.eqb (Nat.modulo (length ids) 8) 0 && ids_inc (Nat.div (length ids) 8) None ids.

Fixpoint strip0 (b : bytes) : bytes :=
  match b with
  | 0 :: r => strip0 r
  | _ => b
  end.

Section Fields.
  (* btcec.ParsePubKey accepts these 33 bytes (oracle; no hypothesis needed) *)
  Variable on_curve : bytes -> bool.

  Definition is_terminal (k : fkind) : bool :=
    match k with FRest | FTlvRest => true | _ => false end.

  (* terminal (rest-of-message) fields only in last position *)
  Fixpoint lay_ok (L : layout) : bool :=
    match L with
    | [] => true
    | [k] => true
    | k :: r => negb (is_terminal k) && lay_ok r
    end.

  Definition tlv_valid (b : bytes) : bool :=
    match decode_stream [] true b with Ok _ => true | Err _ => false end.

  Definition valid_f (k : fkind) (v : fval) : bool :=
    match k, v with
    | FU n, VN x => x <? 256 ^ N.of_nat n
    | FBytes n, VB b => wf_bytesb b && Nat.eqb (length b) n
    | FPoint, VB b => wf_bytesb b && Nat.eqb (length b) 33 && on_curve b
    | FVar16, VB b => wf_bytesb b && (blen b <=? 65535)
    | FBool, VN x => x <=? 1
    | FFeat, VB b => wf_bytesb b && (blen b <=? 65535) &&
                     (match b with 0 :: _ => false | _ => true end)
    | FVar16Max m, VB b => wf_bytesb b && (blen b <=? m) && (blen b <=? 65535)
    | FArr16 n, VB b => wf_bytesb b && negb (Nat.eqb n 0) &&
                        (blen b mod N.of_nat n =? 0) && (blen b / N.of_nat n <=? 65535)
    | FAlias, VB b => wf_bytesb b && Nat.eqb (length b) 32 && utf8_valid b
    | FAddrs, VB b => wf_bytesb b && (blen b <=? 65535) &&
                      (match addrs_parse b with Some b' => beq b' b | None => false end)
    | FBigSize, VN x => x <? two64
    | FScids, VB b => wf_bytesb b && (blen b + 1 <=? 65535) && scids_ok b
    | FRest, VB b => wf_bytesb b
    | FTlvRest, VB b => wf_bytesb b && tlv_valid b
    | _, _ => false
    end.

  Definition enc_f (k : fkind) (v : fval) : option bytes :=
    match k, v with
    | FU n, VN x => Some (be_enc n x)
    | FBytes n, VB b => if Nat.eqb (length b) n then Some b else None
    | FPoint, VB b => if Nat.eqb (length b) 33 then Some b else None
    | FVar16, VB b => if blen b <=? 65535 then Some (be_enc 2 (blen b) ++ b) else None
    | FBool, VN x => Some [if x =? 0 then 0 else 1]
    | FFeat, VB b => if blen b <=? 65535 then Some (be_enc 2 (blen b) ++ b) else None
    | FVar16Max _, VB b => if blen b <=? 65535 then Some (be_enc 2 (blen b) ++ b) else None
    | FArr16 n, VB b =>
      if blen b / N.of_nat n <=? 65535 then Some (be_enc 2 (blen b / N.of_nat n) ++ b) else None
    | FAlias, VB b => if Nat.eqb (length b) 32 then Some b else None
    | FAddrs, VB b => if blen b <=? 65535 then Some (be_enc 2 (blen b) ++ b) else None
    | FBigSize, VN x => Some (bigsize_enc x)
    | FScids, VB b =>
      if blen b + 1 <=? 65535 then Some (be_enc 2 (blen b + 1) ++ 0 :: b) else None
    | FRest, VB b => Some b
    | FTlvRest, VB b => Some b
    | _, _ => None
    end.

  Definition dec_f (k : fkind) (b : bytes) : option (fval * bytes) :=
    match k with
    | FU n =>
      match read_be n b with Some (x, r) => Some (VN x, r) | None => None end
    | FBytes n =>
      match take (N.of_nat n) b with Some (h, r) => Some (VB h, r) | None => None end
    | FPoint =>
      match take 33 b with
      | Some (h, r) => if on_curve h then Some (VB h, r) else None
      | None => None
      end
    | FVar16 =>
      match read_be 2 b with
      | Some (l, r) =>
        match take l r with Some (h, r') => Some (VB h, r') | None => None end
      | None => None
      end
    | FBool =>
      match b with
      | x :: r => Some (VN (if x =? 1 then 1 else 0), r)
      | [] => None
      end
    | FFeat =>
      match read_be 2 b with
      | Some (l, r) =>
        match take l r with Some (h, r') => Some (VB (strip0 h), r') | None => None end
      | None => None
      end
    | FVar16Max m =>
      match read_be 2 b with
      | Some (l, r) =>
        if m <? l then None else
        match take l r with Some (h, r') => Some (VB h, r') | None => None end
      | None => None
      end
    | FArr16 n =>
      match n with
      | O => None
      | _ =>
        match read_be 2 b with
        | Some (c, r) =>
          match take (c * N.of_nat n) r with Some (h, r') => Some (VB h, r') | None => None end
        | None => None
        end
      end
    | FAlias =>
      match take 32 b with
      | Some (h, r) => if utf8_valid h then Some (VB h, r) else None
      | None => None
      end
    | FAddrs =>
      match read_be 2 b with
      | Some (l, r) =>
        match take l r with
        | Some (h, r') =>
          match addrs_parse h with Some v => Some (VB v, r') | None => None end
        | None => None
        end
      | None => None
      end
    | FBigSize =>
      match bigsize_dec b with Ok (v, r) => Some (VN v, r) | Err _ => None end
    | FScids =>
      match read_be 2 b with
      | Some (n, r) =>
        if n =? 0 then Some (VB [], r) else
        match take n r with
        | Some (e :: ids, r') =>
          if (e =? 0) && scids_ok ids then Some (VB ids, r') else None
        | _ => None
        end
      | None => None
      end
    | FRest => Some (VB b, [])
    | FTlvRest => if tlv_valid b then Some (VB b, []) else None
    end.

  (* Encode method: fields in order *)
  Fixpoint encode (L : layout) (vs : list fval) : option bytes :=
    match L, vs with
    | [], [] => Some []
    | k :: L', v :: vs' =>
      match enc_f k v, encode L' vs' with
      | Some a, Some b => Some (a ++ b)
      | _, _ => None
      end
    | _, _ => None
    end.

  (* Decode method: ReadElements in order; bytes left over after the last
     field are ignored (ReadMessage does not check that the reader is drained) *)
  Fixpoint decode (L : layout) (b : bytes) : option (list fval) :=
    match L with
    | [] => Some []
    | k :: L' =>
      match dec_f k b with
      | Some (v, r) =>
        match decode L' r with
        | Some vs => Some (v :: vs)
        | None => None
        end
      | None => None
      end
    end.

  Fixpoint valid_vs (L : layout) (vs : list fval) : bool :=
    match L, vs with
    | [], [] => true
    | k :: L', v :: vs' => valid_f k v && valid_vs L' vs'
    | _, _ => false
    end.

  (* every field is an exact (non-normalising) codec *)
  Definition exact_f (k : fkind) : bool :=
    match k with FBool | FFeat | FAddrs | FScids => false | _ => true end.

  (* re-encoding a decoded value of this field never takes more bytes than were read *)
  Definition nogrow_f (k : fkind) : bool :=
    match k with FScids => false | _ => true end.

  (* the layout ends with a rest-of-message field: nothing is ignored *)
  Fixpoint ends_terminal (L : layout) : bool :=
    match L with
    | [] => false
    | [k] => is_terminal k
    | _ :: r => ends_terminal r
    end.

  (* ---- message framing (lnwire/message.go) ---- *)
  Definition msg_table := list (N * layout).

  Fixpoint lookup_layout (T : msg_table) (t : N) : option layout :=
    match T with
    | [] => None
    | (t', L) :: r => if t =? t' then Some L else lookup_layout r t
    end.

  (* WriteMessage: 2-byte type, payload, MaxMsgBody check *)
  Definition write_message (T : msg_table) (t : N) (vs : list fval) : option bytes :=
    match lookup_layout T t with
    | None => None
    | Some L =>
      match encode L vs with
      | None => None
      | Some p => if max_msg_body <? blen p then None else Some (be_enc 2 t ++ p)
      end
    end.

  (* ReadMessage *)
  Definition read_message (T : msg_table) (b : bytes) : option (N * list fval) :=
    match read_be 2 b with
    | None => None
    | Some (t, r) =>
      match lookup_layout T t with
      | None => None
      | Some L =>
        match decode L r with
        | Some vs => Some (t, vs)
        | None => None
        end
      end
    end.
End Fields.

(* hand-written from the Encode/Decode methods of lnwire (see notes/C10.md) *)
Definition scid := FU 8.          (* 3+3+2 bytes, big endian = one 8-byte BE integer *)
Definition chan_id := FBytes 32.
Definition sig64 := FBytes 64.

Definition wire_layouts : msg_table := [
  (1,   [chan_id; FVar16]);                                   (* Warning *)
  (2,   [chan_id; FBool; FRest]);                             (* Stfu *)
  (17,  [chan_id; FVar16]);                                   (* Error *)
  (18,  [FU 2; FVar16]);                                      (* Ping *)
  (19,  [FVar16]);                                            (* Pong *)
  (131, [chan_id; FU 8; FVar16; FRest]);                      (* UpdateFailHTLC *)
  (134, [chan_id; FU 4; FRest]);                              (* UpdateFee *)
  (135, [chan_id; FU 8; FBytes 32; FU 2; FRest]);             (* UpdateFailMalformedHTLC *)
  (256, [sig64; sig64; sig64; sig64; FFeat; FBytes 32; scid;
         FBytes 33; FBytes 33; FBytes 33; FBytes 33; FTlvRest]); (* ChannelAnnouncement1 *)
  (259, [chan_id; scid; sig64; sig64; FRest]);                (* AnnounceSignatures1 *)
  (262, [FBytes 32; FU 1; FRest]);                            (* ReplyShortChanIDsEnd *)
  (32768, [FRest])                                            (* Custom (first custom type) *)
].
