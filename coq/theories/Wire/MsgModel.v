(* C10: lnwire messages of the shape "fixed fields ++ TLV extension".  Definitions only.

     Decode:  ReadElements(fixed ...)                       -> dec_rest pre
              [if c.Flags.HasX() { ReadElements(more ...) }] -> dec_rest cond-part
              var tlvRecords ExtraOpaqueData; ReadElements(r, &tlvRecords)   (io.ReadAll)
              tlvRecords.ExtractRecords(known ...)           -> decode_stream known true
                (or ParseAndExtractCustomRecords(tlvRecords, known ...))
     Encode:  WriteX(w, c.F) ... ++
              Repack: EncodeMessageExtraData(&c.ExtraData, produced ...) = PackRecords of
                      the KNOWN records only (unknown records are dropped: finding C10-F1)
              Merge:  MergeAndEncode(known, c.ExtraData, c.CustomRecords) = all records

   The value of such a message is (fixed field values, conditional field values,
   records of the extension stream in order, known records normalised the way
   their typed Go value re-encodes). *)
From Coq Require Import List NArith Bool.
From LV Require Import Wire.Model.
Import ListNotations.
Local Open Scope N_scope.

(* decoder/encoder pair attached to a known record of an lnwire message *)
Inductive rk :=
| RKFixed (n : N)   (* static record of n raw bytes (DUint16/32/64, DShortChannelID, feeDecoder, …) *)
| RKVar             (* tlv.DVarBytes (DeliveryAddress) *)
| RKFeat            (* feature bits (ChannelType, QueryOptions): any length, re-encoded minimally *)
| RKScalar          (* PartialSig: 32 bytes read into a ModNScalar (reduced mod n) *)
| RKSigNonce        (* PartialSigWithNonce: 32-byte scalar ++ 66-byte nonce (two curve points) *)
| RKNonce           (* Musig2Nonce: 66 bytes = two compressed curve points *)
| RKPoint.          (* tlv.DPubKey: 33 bytes accepted iff on_curve *)

Definition rk_vkind (k : rk) : vkind :=
  match k with
  | RKFixed n => KFixed n
  | RKVar | RKFeat => KVar
  | RKScalar => KFixed 32
  | RKSigNonce => KFixed 98
  | RKNonce => KFixed 66
  | RKPoint => KFixed 33
  end.

(* secp256k1 group order *)
Definition secp_n : N :=
  115792089237316195423570985008687907852837564279074904382605163141518161494337.

(* ModNScalar.SetBytes then .Bytes(): the 256-bit value reduced mod n *)
Definition modn32 (v : bytes) : bytes := be_enc 32 (be_dec v mod secp_n).

(* what Encode writes for a known record whose wire value was v *)
Definition rk_norm (k : rk) (v : bytes) : bytes :=
  match k with
  | RKFeat => strip0 v
  | RKScalar => modn32 v
  | RKSigNonce => modn32 (firstn 32 v) ++ skipn 32 v
  | _ => v
  end.

(* validity checks of the decoder beyond the length (ParsePubKey) *)
Definition rk_check (oc : bytes -> bool) (k : rk) (v : bytes) : bool :=
  match k with
  | RKPoint => oc v
  | RKNonce => oc (firstn 33 v) && oc (skipn 33 v)
  | RKSigNonce => let t := skipn 32 v in oc (firstn 33 t) && oc (skipn 33 t)
  | _ => true
  end.

(* known record of a message: TLV type, codec, produced unconditionally by Encode
   (e.g. `recordProducers := []tlv.RecordProducer{&o.UpfrontShutdownScript}`) *)
Record krec := { kr_type : N; kr_kind : rk; kr_always : bool }.

Inductive tmode :=
| Repack     (* EncodeMessageExtraData: Encode writes the known records only *)
| Merge.     (* MergeAndEncode: Encode writes known ++ extra ++ custom records *)

Record tlvmsg := {
  tm_pre : layout;                       (* ReadElements before the optional part *)
  tm_cond : option (nat * N * layout);   (* (i, mask, L): the fields L are present iff
                                            field i of tm_pre (an integer) has a bit of mask set *)
  tm_known : list krec;
  tm_mode : tmode }.

Definition tvalue := (list fval * list fval * list tlv_record)%type.

Definition tm_kinds (M : tlvmsg) : kinds :=
  map (fun k => (kr_type k, rk_vkind (kr_kind k))) (tm_known M).

Fixpoint lookup_rk (ks : list krec) (t : N) : option rk :=
  match ks with
  | [] => None
  | k :: r => if t =? kr_type k then Some (kr_kind k) else lookup_rk r t
  end.

Definition rec_norm (ks : list krec) (r : tlv_record) : tlv_record :=
  match lookup_rk ks (fst r) with
  | Some k => (fst r, rk_norm k (snd r))
  | None => r
  end.

Definition rec_check (oc : bytes -> bool) (ks : list krec) (r : tlv_record) : bool :=
  match lookup_rk ks (fst r) with
  | Some k => rk_check oc k (snd r)
  | None => true
  end.

Definition rec_known (ks : list krec) (r : tlv_record) : bool :=
  match lookup_rk ks (fst r) with Some _ => true | None => false end.

(* insert the empty record of type t unless a record of type t is present
   (rs sorted by type) *)
Fixpoint ensure (t : N) (rs : list tlv_record) : list tlv_record :=
  match rs with
  | [] => [(t, [])]
  | (t', v) :: r =>
    if t <? t' then (t, []) :: rs
    else if t =? t' then rs
    else (t', v) :: ensure t r
  end.

Definition always_types (ks : list krec) : list N :=
  map kr_type (filter kr_always ks).

Definition ensure_all (ts : list N) (rs : list tlv_record) : list tlv_record :=
  fold_right ensure rs ts.

(* does field i of vs (an integer) have a bit of mask set? *)
Definition flag_set (vs : list fval) (i : nat) (mask : N) : bool :=
  match nth_error vs i with
  | Some (VN x) => negb (N.land x mask =? 0)
  | _ => false
  end.

Fixpoint dec_rest (oc : bytes -> bool) (L : layout) (b : bytes)
  : option (list fval * bytes) :=
  match L with
  | [] => Some ([], b)
  | k :: L' =>
    match dec_f oc k b with
    | Some (v, r) =>
      match dec_rest oc L' r with
      | Some (vs, r') => Some (v :: vs, r')
      | None => None
      end
    | None => None
    end
  end.

Fixpoint beq (a b : bytes) : bool :=
  match a, b with
  | [], [] => true
  | x :: a', y :: b' => (x =? y) && beq a' b'
  | _, _ => false
  end.

Section Msg.
  Variable oc : bytes -> bool.      (* btcec.ParsePubKey accepts these 33 bytes *)

  (* the records Encode writes *)
  Definition out_recs (M : tlvmsg) (rs : list tlv_record) : list tlv_record :=
    match tm_mode M with
    | Repack => filter (rec_known (tm_known M)) rs
    | Merge => rs
    end.

  Definition decode_cond (M : tlvmsg) (vs : list fval) (b : bytes)
    : option (list fval * bytes) :=
    match tm_cond M with
    | Some (i, mask, Lc) => if flag_set vs i mask then dec_rest oc Lc b else Some ([], b)
    | None => Some ([], b)
    end.

  Definition decode_tm (M : tlvmsg) (b : bytes) : option tvalue :=
    match dec_rest oc (tm_pre M) b with
    | None => None
    | Some (vs, r1) =>
      match decode_cond M vs r1 with
      | None => None
      | Some (cs, r2) =>
        match decode_stream (tm_kinds M) true r2 with
        | Err _ => None
        | Ok rs =>
          if forallb (rec_check oc (tm_known M)) rs
          then Some (vs, cs, ensure_all (always_types (tm_known M))
                                        (map (rec_norm (tm_known M)) rs))
          else None
        end
      end
    end.

  Definition encode_cond (M : tlvmsg) (vs cs : list fval) : option bytes :=
    match tm_cond M with
    | Some (i, mask, Lc) => if flag_set vs i mask then encode Lc cs
                            else match cs with [] => Some [] | _ => None end
    | None => match cs with [] => Some [] | _ => None end
    end.

  Definition encode_tm (M : tlvmsg) (v : tvalue) : option bytes :=
    match v with
    | (vs, cs, rs) =>
      match encode (tm_pre M) vs, encode_cond M vs cs with
      | Some e1, Some e2 => Some (e1 ++ e2 ++ encode_stream (out_recs M rs))
      | _, _ => None
      end
    end.

  (* ---- executable validity of a message value ---- *)
  Definition value_okb (k : vkind) (v : bytes) : bool :=
    match k with
    | KFixed n => blen v =? n
    | KTrunc n => (blen v <=? n) && (match v with 0 :: _ => false | _ => true end)
    | KVar => true
    | KBool => match v with [x] => x <=? 1 | _ => false end
    | KBigSize => false       (* not used by any modelled message: excluded *)
    end.

  Definition rec_okb (M : tlvmsg) (r : tlv_record) : bool :=
    (fst r <? two64) && (blen (snd r) <=? max_record_size) && wf_bytesb (snd r) &&
    (match lookup_rk (tm_known M) (fst r) with
     | Some k => value_okb (rk_vkind k) (snd r) && rk_check oc k (snd r) &&
                 (* normalised: the value is what Encode would write *)
                 beq (rk_norm k (snd r)) (snd r)
     | None => true
     end).

  Definition has_type (t : N) (rs : list tlv_record) : bool :=
    existsb (fun r => fst r =? t) rs.

  Definition valid_cond (M : tlvmsg) (vs cs : list fval) : bool :=
    match tm_cond M with
    | Some (i, mask, Lc) => if flag_set vs i mask then valid_vs oc Lc cs
                            else match cs with [] => true | _ => false end
    | None => match cs with [] => true | _ => false end
    end.

  (* a decoded-form value: what Decode can return *)
  Definition valid_tv (M : tlvmsg) (v : tvalue) : bool :=
    match v with
    | (vs, cs, rs) =>
      valid_vs oc (tm_pre M) vs && valid_cond M vs cs &&
      sorted_fromb 0 rs && forallb (rec_okb M) rs &&
      forallb (fun t => has_type t rs) (always_types (tm_known M))
    end.

  (* a value Encode represents completely: in Repack mode every record is known *)
  Definition complete_tv (M : tlvmsg) (v : tvalue) : bool :=
    match v with
    | (_, _, rs) =>
      match tm_mode M with
      | Repack => forallb (rec_known (tm_known M)) rs
      | Merge => true
      end
    end.

  (* side conditions on the message description (computed for every generated
     message in Gen/GenWire.v) *)
  Definition nonterminal (L : layout) : bool := forallb (fun k => negb (is_terminal k)) L.

  Definition tm_ok (M : tlvmsg) : bool :=
    nonterminal (tm_pre M) &&
    (match tm_cond M with Some (_, _, Lc) => nonterminal Lc | None => true end) &&
    (* unconditionally produced records are var-bytes records (their empty value is valid) *)
    forallb (fun t => (t <? two64) &&
                      match lookup_rk (tm_known M) t with Some RKVar => true | _ => false end)
            (always_types (tm_known M)).

  (* bytes added by the unconditionally produced records *)
  Definition always_overhead (M : tlvmsg) : nat :=
    (10 * length (always_types (tm_known M)))%nat.
End Msg.

(* boolean equality of layouts (comparison of generated and hand-written ones) *)
Definition fkind_eqb (a b : fkind) : bool :=
  match a, b with
  | FU x, FU y | FBytes x, FBytes y | FArr16 x, FArr16 y => Nat.eqb x y
  | FVar16Max x, FVar16Max y => x =? y
  | FPoint, FPoint | FVar16, FVar16 | FBool, FBool | FFeat, FFeat
  | FRest, FRest | FTlvRest, FTlvRest => true
  | _, _ => false
  end.

Fixpoint layout_eqb (a b : layout) : bool :=
  match a, b with
  | [], [] => true
  | x :: a', y :: b' => fkind_eqb x y && layout_eqb a' b'
  | _, _ => false
  end.

(* ---- message table and framing ---- *)
Definition tmsg_table := list (N * tlvmsg).

Fixpoint lookup_tm (T : tmsg_table) (t : N) : option tlvmsg :=
  match T with
  | [] => None
  | (t', M) :: r => if t =? t' then Some M else lookup_tm r t
  end.

Definition read_tmessage (oc : bytes -> bool) (T : tmsg_table) (b : bytes)
  : option (N * tvalue) :=
  match read_be 2 b with
  | None => None
  | Some (t, r) =>
    match lookup_tm T t with
    | None => None
    | Some M =>
      match decode_tm oc M r with
      | Some v => Some (t, v)
      | None => None
      end
    end
  end.

Definition write_tmessage (T : tmsg_table) (t : N) (v : tvalue)
  : option bytes :=
  match lookup_tm T t with
  | None => None
  | Some M =>
    match encode_tm M v with
    | None => None
    | Some p => if max_msg_body <? blen p then None else Some (be_enc 2 t ++ p)
    end
  end.

(* ---- onion failure packets (lnwire/onion_error.go) ----
   DecodeFailureMessage / EncodeFailureMessage = 2-byte failure code, then the
   payload layout of that code: the shape of read_message / write_message over
   a table of failure codes.
   DecodeFailure: u16 length, message, u16 pad length, padding, nothing after
   it, length + pad length >= 256.  EncodeFailure: message of at most 256 bytes,
   padded with zeros to exactly 256. *)
Definition failure_len : N := 256.       (* lnwire.FailureMessageLength *)

Definition decode_failure (oc : bytes -> bool) (F : msg_table) (b : bytes)
  : option (N * list fval) :=
  match read_be 2 b with
  | None => None
  | Some (fl, r) =>
    match take fl r with
    | None => None
    | Some (d, r1) =>
      match read_be 2 r1 with
      | None => None
      | Some (pl, r2) =>
        match take pl r2 with
        | None => None
        | Some (_, r3) =>
          match r3 with
          | _ :: _ => None
          | [] => if fl + pl <? failure_len then None else read_message oc F d
          end
        end
      end
    end
  end.

Definition encode_failure (F : msg_table) (code : N) (vs : list fval) : option bytes :=
  match write_message F code vs with
  | None => None
  | Some m =>
    if failure_len <? blen m then None
    else Some (be_enc 2 (blen m) ++ m ++ be_enc 2 (failure_len - blen m) ++
               repeat 0 (N.to_nat (failure_len - blen m)))
  end.

(* ---- feature vectors ----
   A RawFeatureVector is a set of FeatureBit (uint16) = a number n < 2^65536 = 256^8192;
   its wire form is the minimal big-endian byte string of n (SerializeSize = highest
   bit / 8 + 1, at most 8192 bytes): feat_of_N k n for any width k with n < 256^k. *)
Definition feat_of_N (k : nat) (n : N) : bytes := strip0 (be_enc k n).
