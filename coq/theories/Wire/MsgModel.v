(* C10: lnwire messages of the shape "fixed fields ++ TLV extension".  Definitions only.

     Decode:  ReadElements(fixed ...)                       -> dec_rest pre
              [if c.Flags.HasX() { ReadElements(more ...) }] -> dec_rest cond-part
              var tlvRecords ExtraOpaqueData; ReadElements(r, &tlvRecords)   (io.ReadAll)
              tlvRecords.ExtractRecords(known ...)           -> decode_stream known true
                (or ParseAndExtractCustomRecords(tlvRecords, known ...))
     Encode:  WriteX(w, c.F) ... ++
              Repack: EncodeMessageExtraData(&c.ExtraData, produced ...) = PackRecords of
                      the KNOWN records only (unknown records are dropped: finding C10-F1)
              Merge:  MergeAndEncode(known, c.ExtraData, c.CustomRecords) = all records

   The value of such a message is (fixed field values, conditional field values,
   records of the extension stream in order, known records normalised the way
   their typed Go value re-encodes). *)
From Coq Require Import List NArith Bool.
From LV Require Import Wire.Model.
Import ListNotations.
Local Open Scope N_scope.

(* decoder/encoder pair attached to a known record of an lnwire message *)
Inductive rk :=
| RKFixed (n : N)   (* static record of n raw bytes (DUint16/32/64, DShortChannelID, feeDecoder, …) *)
| RKVar             (* tlv.DVarBytes (DeliveryAddress) *)
| RKFeat            (* feature bits (ChannelType, QueryOptions): any length, re-encoded minimally *)
| RKScalar          (* PartialSig: 32 bytes read into a ModNScalar (reduced mod n) *)
| RKSigNonce        (* PartialSigWithNonce: 32-byte scalar ++ 66-byte nonce (two curve points) *)
| RKNonce           (* Musig2Nonce: 66 bytes = two compressed curve points *)
| RKPoint           (* tlv.DPubKey: 33 bytes accepted iff on_curve *)
| RKBigSize         (* tlv.BigSizeT / MilliSatoshi records (tlv.DBigSize): one BigSize integer; the
                       decoder IGNORES the announced record length (finding C10-F2); Encode
                       writes the minimal encoding under its true length *)
| RKNonceMap.       (* LocalNoncesData: at most 16 entries of 32-byte txid ++ 66-byte nonce
                       (two curve points), txids distinct; Encode writes them sorted by txid *)

Definition rk_vkind (k : rk) : vkind :=
  match k with
  | RKFixed n => KFixed n
  | RKVar | RKFeat => KVar
  | RKScalar => KFixed 32
  | RKSigNonce => KFixed 98
  | RKNonce => KFixed 66
  | RKPoint => KFixed 33
  | RKNonceMap => KVar
  | RKBigSize => KBigSize
  end.

(* secp256k1 group order *)
Definition secp_n : N :=
  115792089237316195423570985008687907852837564279074904382605163141518161494337.

(* ModNScalar.SetBytes then .Bytes(): the 256-bit value reduced mod n *)
Definition modn32 (v : bytes) : bytes := be_enc 32 (be_dec v mod secp_n).

(* ---- LocalNoncesData (lnwire/local_nonces.go): a map txid -> nonce ----
   decodeLocalNoncesData: record length divisible by 98, at most 16 entries, every
   nonce two curve points, no txid twice.  encodeLocalNoncesData: entries sorted by
   txid (bytes.Compare).  entry = 32-byte txid ++ 66-byte nonce. *)
Definition nonce_entry_len : nat := 98.
Definition nonce_max_entries : N := 16.

(* bytes.Compare(a, b) <= 0 *)
Fixpoint lex_leb (a b : bytes) : bool :=
  match a, b with
  | [], _ => true
  | _ :: _, [] => false
  | x :: a', y :: b' => if x <? y then true else if y <? x then false else lex_leb a' b'
  end.

Definition key_leb (x y : bytes) : bool := lex_leb (firstn 32 x) (firstn 32 y).

Fixpoint insert_e (x : bytes) (l : list bytes) : list bytes :=
  match l with
  | [] => [x]
  | y :: l' => if key_leb x y then x :: l else y :: insert_e x l'
  end.

Fixpoint isort_e (l : list bytes) : list bytes :=
  match l with
  | [] => []
  | x :: l' => insert_e x (isort_e l')
  end.

(* the first k chunks of n bytes *)
Fixpoint entries (k n : nat) (b : bytes) : list bytes :=
  match k with
  | O => []
  | S k' => firstn n b :: entries k' n (skipn n b)
  end.

Definition nonce_entries (v : bytes) : list bytes :=
  entries (Nat.div (length v) nonce_entry_len) nonce_entry_len v.

Definition nonce_norm (v : bytes) : bytes :=
  if Nat.eqb (Nat.modulo (length v) nonce_entry_len) 0
  then concat (isort_e (nonce_entries v)) else v.

Definition same_key (x y : bytes) : bool := beq (firstn 32 x) (firstn 32 y).

Fixpoint keys_distinct (l : list bytes) : bool :=
  match l with
  | [] => true
  | x :: l' => negb (existsb (same_key x) l') && keys_distinct l'
  end.

Definition nonce_entry_ok (oc : bytes -> bool) (e : bytes) : bool :=
  oc (firstn 33 (skipn 32 e)) && oc (skipn 65 e).

Definition nonce_check (oc : bytes -> bool) (v : bytes) : bool :=
  Nat.eqb (Nat.modulo (length v) nonce_entry_len) 0 &&
  (N.of_nat (Nat.div (length v) nonce_entry_len) <=? nonce_max_entries) &&
  forallb (nonce_entry_ok oc) (nonce_entries v) && keys_distinct (nonce_entries v).

(* what Encode writes for a known record whose wire value was v *)
Definition rk_norm (k : rk) (v : bytes) : bytes :=
  match k with
  | RKFeat => strip0 v
  | RKScalar => modn32 v
  | RKSigNonce => modn32 (firstn 32 v) ++ skipn 32 v
  | RKNonceMap => nonce_norm v
  | _ => v
  end.

(* validity checks of the decoder beyond the length (ParsePubKey) *)
Definition rk_check (oc : bytes -> bool) (k : rk) (v : bytes) : bool :=
  match k with
  | RKPoint => oc v
  | RKNonce => oc (firstn 33 v) && oc (skipn 33 v)
  | RKSigNonce => let t := skipn 32 v in oc (firstn 33 t) && oc (skipn 33 t)
  | RKNonceMap => nonce_check oc v
  | _ => true
  end.

(* known record of a message: TLV type, codec, produced unconditionally by Encode
   (e.g. `recordProducers := []tlv.RecordProducer{&o.UpfrontShutdownScript}`) *)
Record krec := { kr_type : N; kr_kind : rk; kr_always : bool }.

Inductive tmode :=
| Repack     (* EncodeMessageExtraData: Encode writes the known records only *)
| Merge.     (* MergeAndEncode: Encode writes known ++ extra ++ custom records *)

Record tlvmsg := {
  tm_pre : layout;                       (* ReadElements before the optional part *)
  tm_cond : option (nat * N * layout);   (* (i, mask, L): the fields L are present iff
                                            field i of tm_pre (an integer) has a bit of mask set *)
  tm_known : list krec;
  tm_mode : tmode;
  tm_excl : list (list N * list N) }.    (* (A, B): Decode rejects a message carrying a record
                                            with type in A and one with type in B
                                            (ClosingComplete: regular vs taproot signatures) *)

Definition tvalue := (list fval * list fval * list tlv_record)%type.

Definition tm_kinds (M : tlvmsg) : kinds :=
  map (fun k => (kr_type k, rk_vkind (kr_kind k))) (tm_known M).

Fixpoint lookup_rk (ks : list krec) (t : N) : option rk :=
  match ks with
  | [] => None
  | k :: r => if t =? kr_type k then Some (kr_kind k) else lookup_rk r t
  end.

Definition rec_norm (ks : list krec) (r : tlv_record) : tlv_record :=
  match lookup_rk ks (fst r) with
  | Some k => (fst r, rk_norm k (snd r))
  | None => r
  end.

Definition rec_check (oc : bytes -> bool) (ks : list krec) (r : tlv_record) : bool :=
  match lookup_rk ks (fst r) with
  | Some k => rk_check oc k (snd r)
  | None => true
  end.

Definition rec_known (ks : list krec) (r : tlv_record) : bool :=
  match lookup_rk ks (fst r) with Some _ => true | None => false end.

Definition memN (t : N) (l : list N) : bool := existsb (N.eqb t) l.

Definition has_any (A : list N) (rs : list tlv_record) : bool :=
  existsb (fun r => memN (fst r) A) rs.

Definition excl_ok (X : list (list N * list N)) (rs : list tlv_record) : bool :=
  forallb (fun ab => negb (has_any (fst ab) rs && has_any (snd ab) rs)) X.

(* insert the empty record of type t unless a record of type t is present
   (rs sorted by type) *)
Fixpoint ensure (t : N) (rs : list tlv_record) : list tlv_record :=
  match rs with
  | [] => [(t, [])]
  | (t', v) :: r =>
    if t <? t' then (t, []) :: rs
    else if t =? t' then rs
    else (t', v) :: ensure t r
  end.

Definition always_types (ks : list krec) : list N :=
  map kr_type (filter kr_always ks).

Definition ensure_all (ts : list N) (rs : list tlv_record) : list tlv_record :=
  fold_right ensure rs ts.

(* does field i of vs (an integer) have a bit of mask set? *)
Definition flag_set (vs : list fval) (i : nat) (mask : N) : bool :=
  match nth_error vs i with
  | Some (VN x) => negb (N.land x mask =? 0)
  | _ => false
  end.

Fixpoint dec_rest (oc : bytes -> bool) (L : layout) (b : bytes)
  : option (list fval * bytes) :=
  match L with
  | [] => Some ([], b)
  | k :: L' =>
    match dec_f oc k b with
    | Some (v, r) =>
      match dec_rest oc L' r with
      | Some (vs, r') => Some (v :: vs, r')
      | None => None
      end
    | None => None
    end
  end.

Section Msg.
  Variable oc : bytes -> bool.      (* btcec.ParsePubKey accepts these 33 bytes *)

  (* the records Encode writes *)
  Definition out_recs (M : tlvmsg) (rs : list tlv_record) : list tlv_record :=
    match tm_mode M with
    | Repack => filter (rec_known (tm_known M)) rs
    | Merge => rs
    end.

  Definition decode_cond (M : tlvmsg) (vs : list fval) (b : bytes)
    : option (list fval * bytes) :=
    match tm_cond M with
    | Some (i, mask, Lc) => if flag_set vs i mask then dec_rest oc Lc b else Some ([], b)
    | None => Some ([], b)
    end.

  Definition decode_tm (M : tlvmsg) (b : bytes) : option tvalue :=
    match dec_rest oc (tm_pre M) b with
    | None => None
    | Some (vs, r1) =>
      match decode_cond M vs r1 with
      | None => None
      | Some (cs, r2) =>
        match decode_stream (tm_kinds M) true r2 with
        | Err _ => None
        | Ok rs =>
          if forallb (rec_check oc (tm_known M)) rs
          then let rs' := ensure_all (always_types (tm_known M))
                                     (map (rec_norm (tm_known M)) rs) in
               if excl_ok (tm_excl M) rs' then Some (vs, cs, rs') else None
          else None
        end
      end
    end.

  Definition encode_cond (M : tlvmsg) (vs cs : list fval) : option bytes :=
    match tm_cond M with
    | Some (i, mask, Lc) => if flag_set vs i mask then encode Lc cs
                            else match cs with [] => Some [] | _ => None end
    | None => match cs with [] => Some [] | _ => None end
    end.

  Definition encode_tm (M : tlvmsg) (v : tvalue) : option bytes :=
    match v with
    | (vs, cs, rs) =>
      match encode (tm_pre M) vs, encode_cond M vs cs with
      | Some e1, Some e2 => Some (e1 ++ e2 ++ encode_stream (out_recs M rs))
      | _, _ => None
      end
    end.

  (* ---- executable validity of a message value ---- *)
  Definition value_okb (k : vkind) (v : bytes) : bool :=
    match k with
    | KFixed n => blen v =? n
    | KTrunc n => (blen v <=? n) && (match v with 0 :: _ => false | _ => true end)
    | KVar => true
    | KBool => match v with [x] => x <=? 1 | _ => false end
    | KBigSize => match bigsize_dec v with Ok (_, []) => true | _ => false end
    end.

  Definition rec_okb (M : tlvmsg) (r : tlv_record) : bool :=
    (fst r <? two64) && (blen (snd r) <=? max_record_size) && wf_bytesb (snd r) &&
    (match lookup_rk (tm_known M) (fst r) with
     | Some k => value_okb (rk_vkind k) (snd r) && rk_check oc k (snd r) &&
                 (* normalised: the value is what Encode would write *)
                 beq (rk_norm k (snd r)) (snd r)
     | None => true
     end).

  Definition has_type (t : N) (rs : list tlv_record) : bool :=
    existsb (fun r => fst r =? t) rs.

  Definition valid_cond (M : tlvmsg) (vs cs : list fval) : bool :=
    match tm_cond M with
    | Some (i, mask, Lc) => if flag_set vs i mask then valid_vs oc Lc cs
                            else match cs with [] => true | _ => false end
    | None => match cs with [] => true | _ => false end
    end.

  (* a decoded-form value: what Decode can return *)
  Definition valid_tv (M : tlvmsg) (v : tvalue) : bool :=
    match v with
    | (vs, cs, rs) =>
      valid_vs oc (tm_pre M) vs && valid_cond M vs cs &&
      sorted_fromb 0 rs && forallb (rec_okb M) rs &&
      forallb (fun t => has_type t rs) (always_types (tm_known M)) &&
      excl_ok (tm_excl M) rs
    end.

  (* a value Encode represents completely: in Repack mode every record is known *)
  Definition complete_tv (M : tlvmsg) (v : tvalue) : bool :=
    match v with
    | (_, _, rs) =>
      match tm_mode M with
      | Repack => forallb (rec_known (tm_known M)) rs
      | Merge => true
      end
    end.

  (* side conditions on the message description (computed for every generated
     message in Gen/GenWire.v) *)
  Definition nonterminal (L : layout) : bool := forallb (fun k => negb (is_terminal k)) L.

  Definition tm_ok (M : tlvmsg) : bool :=
    nonterminal (tm_pre M) &&
    (match tm_cond M with Some (_, _, Lc) => nonterminal Lc | None => true end) &&
    (* unconditionally produced records are var-bytes records (their empty value is valid) *)
    forallb (fun t => (t <? two64) &&
                      match lookup_rk (tm_known M) t with Some RKVar => true | _ => false end)
            (always_types (tm_known M)).

  (* bytes added by the unconditionally produced records *)
  Definition always_overhead (M : tlvmsg) : nat :=
    (10 * length (always_types (tm_known M)))%nat.
End Msg.

(* boolean equality of layouts (comparison of generated and hand-written ones) *)
Definition fkind_eqb (a b : fkind) : bool :=
  match a, b with
  | FU x, FU y | FBytes x, FBytes y | FArr16 x, FArr16 y => Nat.eqb x y
  | FVar16Max x, FVar16Max y => x =? y
  | FPoint, FPoint | FVar16, FVar16 | FBool, FBool | FFeat, FFeat
  | FAlias, FAlias | FAddrs, FAddrs | FBigSize, FBigSize | FScids, FScids
  | FRest, FRest | FTlvRest, FTlvRest => true
  | _, _ => false
  end.

Fixpoint layout_eqb (a b : layout) : bool :=
  match a, b with
  | [], [] => true
  | x :: a', y :: b' => fkind_eqb x y && layout_eqb a' b'
  | _, _ => false
  end.

(* ---- message table and framing ---- *)
Definition tmsg_table := list (N * tlvmsg).

Fixpoint lookup_tm (T : tmsg_table) (t : N) : option tlvmsg :=
  match T with
  | [] => None
  | (t', M) :: r => if t =? t' then Some M else lookup_tm r t
  end.

Definition read_tmessage (oc : bytes -> bool) (T : tmsg_table) (b : bytes)
  : option (N * tvalue) :=
  match read_be 2 b with
  | None => None
  | Some (t, r) =>
    match lookup_tm T t with
    | None => None
    | Some M =>
      match decode_tm oc M r with
      | Some v => Some (t, v)
      | None => None
      end
    end
  end.

Definition write_tmessage (T : tmsg_table) (t : N) (v : tvalue)
  : option bytes :=
  match lookup_tm T t with
  | None => None
  | Some M =>
    match encode_tm M v with
    | None => None
    | Some p => if max_msg_body <? blen p then None else Some (be_enc 2 t ++ p)
    end
  end.

(* ---- messages with an optional tail (ChannelReestablish) ----
   Decode: ReadElements(fixed ...); io.ReadFull of the first tail field: io.EOF (no
   byte left) => the message ends here (ExtraData empty); otherwise the tail = the
   remaining fixed fields (data-loss-protect secret and point) ++ TLV extension, i.e.
   a tlvmsg.  Encode: the tail is written iff its marker field is non-nil. *)
Record optmsg := { om_pre : layout; om_tail : tlvmsg }.

Definition ovalue := (list fval * option tvalue)%type.

Definition decode_om (oc : bytes -> bool) (W : optmsg) (b : bytes) : option ovalue :=
  match dec_rest oc (om_pre W) b with
  | None => None
  | Some (vs, []) => Some (vs, None)
  | Some (vs, r) =>
    match decode_tm oc (om_tail W) r with
    | Some tv => Some (vs, Some tv)
    | None => None
    end
  end.

Definition encode_om (W : optmsg) (v : ovalue) : option bytes :=
  match encode (om_pre W) (fst v) with
  | None => None
  | Some e1 =>
    match snd v with
    | None => Some e1
    | Some tv =>
      match encode_tm (om_tail W) tv with
      | Some e2 => Some (e1 ++ e2)
      | None => None
      end
    end
  end.

(* the first field of the tail occupies at least one byte: a present tail is never
   mistaken for an absent one *)
Definition starts_nonempty (L : layout) : bool :=
  match L with
  | FU (S _) :: _ | FBytes (S _) :: _ | FPoint :: _ => true
  | _ => false
  end.

Definition om_ok (W : optmsg) : bool :=
  nonterminal (om_pre W) && tm_ok (om_tail W) && starts_nonempty (tm_pre (om_tail W)).

Definition valid_ov (oc : bytes -> bool) (W : optmsg) (v : ovalue) : bool :=
  valid_vs oc (om_pre W) (fst v) &&
  match snd v with None => true | Some tv => valid_tv oc (om_tail W) tv end.

Definition complete_ov (W : optmsg) (v : ovalue) : bool :=
  match snd v with None => true | Some tv => complete_tv (om_tail W) tv end.

(* what survives a re-encode *)
Definition out_tv (M : tlvmsg) (tv : tvalue) : tvalue :=
  match tv with (vs, cs, rs) => (vs, cs, out_recs M rs) end.

Definition out_ov (W : optmsg) (v : ovalue) : ovalue :=
  (fst v, option_map (out_tv (om_tail W)) (snd v)).

Definition omsg_table := list (N * optmsg).

Fixpoint lookup_om (T : omsg_table) (t : N) : option optmsg :=
  match T with
  | [] => None
  | (t', W) :: r => if t =? t' then Some W else lookup_om r t
  end.

Definition read_omessage (oc : bytes -> bool) (T : omsg_table) (b : bytes)
  : option (N * ovalue) :=
  match read_be 2 b with
  | None => None
  | Some (t, r) =>
    match lookup_om T t with
    | None => None
    | Some W =>
      match decode_om oc W r with
      | Some v => Some (t, v)
      | None => None
      end
    end
  end.

Definition write_omessage (T : omsg_table) (t : N) (v : ovalue) : option bytes :=
  match lookup_om T t with
  | None => None
  | Some W =>
    match encode_om W v with
    | None => None
    | Some p => if max_msg_body <? blen p then None else Some (be_enc 2 t ++ p)
    end
  end.

(* ---- onion failure packets (lnwire/onion_error.go) ----
   DecodeFailureMessage / EncodeFailureMessage = 2-byte failure code, then the
   payload layout of that code: the shape of read_message / write_message over
   a table of failure codes.
   DecodeFailure: u16 length, message, u16 pad length, padding, nothing after
   it, length + pad length >= 256.  EncodeFailure: message of at most 256 bytes,
   padded with zeros to exactly 256. *)
Definition failure_len : N := 256.       (* lnwire.FailureMessageLength *)

(* the framing alone: DecodeFailure's length / padding checks, EncodeFailure's padding *)
Definition unframe_failure (b : bytes) : option bytes :=
  match read_be 2 b with
  | None => None
  | Some (fl, r) =>
    match take fl r with
    | None => None
    | Some (d, r1) =>
      match read_be 2 r1 with
      | None => None
      | Some (pl, r2) =>
        match take pl r2 with
        | None => None
        | Some (_, r3) =>
          match r3 with
          | _ :: _ => None
          | [] => if fl + pl <? failure_len then None else Some d
          end
        end
      end
    end
  end.

Definition frame_failure (m : bytes) : option bytes :=
  if failure_len <? blen m then None
  else Some (be_enc 2 (blen m) ++ m ++ be_enc 2 (failure_len - blen m) ++
             repeat 0 (N.to_nat (failure_len - blen m))).

Definition decode_failure (oc : bytes -> bool) (F : msg_table) (b : bytes)
  : option (N * list fval) :=
  match unframe_failure b with
  | None => None
  | Some d => read_message oc F d
  end.

Definition encode_failure (F : msg_table) (code : N) (vs : list fval) : option bytes :=
  match write_message F code vs with
  | None => None
  | Some m => frame_failure m
  end.

(* ---- failure codes that embed a channel_update (lnwire/onion_error.go) ----
   payload = fixed fields, u16 length, then parseChannelUpdateCompatibilityMode on the
   next `length` bytes -- FEWER when the input is shorter (io.LimitReader) --: at least two
   bytes must be there (Peek(2)); if they are 0x0102 (MsgChannelUpdate) they are skipped;
   the rest is a ChannelUpdate1 body (U, a tlvmsg).  Bytes after the update are ignored.
   Encode (writeOnionErrorChanUpdate = WriteMessage into a buffer): length = 2 + |body|,
   the type 0x0102, the body.  uf_opt: length 0 means "no update" and Encode writes
   length 0 for a nil update (FailTemporaryChannelFailure). *)
Record updfail := { uf_pre : layout; uf_opt : bool }.

Definition decode_uf (oc : bytes -> bool) (U : tlvmsg) (F : updfail) (b : bytes)
  : option ovalue :=
  match dec_rest oc (uf_pre F) b with
  | None => None
  | Some (vs, r) =>
    match read_be 2 r with
    | None => None
    | Some (len, r1) =>
      if uf_opt F && (len =? 0) then Some (vs, None) else
      match firstn (N.to_nat len) r1 with
      | a :: b' :: u' =>
        let body := if (a * 256 + b' =? 258) then u' else a :: b' :: u' in
        match decode_tm oc U body with
        | Some tv => Some (vs, Some tv)
        | None => None
        end
      | _ => None
      end
    end
  end.

Definition encode_uf (U : tlvmsg) (F : updfail) (v : ovalue) : option bytes :=
  match encode (uf_pre F) (fst v) with
  | None => None
  | Some e1 =>
    match snd v with
    | None => if uf_opt F then Some (e1 ++ [0; 0]) else None
    | Some tv =>
      match encode_tm U tv with
      | None => None
      | Some e2 =>
        if max_msg_body <? blen e2 then None
        else Some (e1 ++ be_enc 2 (blen e2 + 2) ++ [1; 2] ++ e2)
      end
    end
  end.

(* ---- EOF-tolerant payload (FailIncorrectDetails): fields tacked on over time; when no
   byte is left before a field (io.EOF, nothing read) Decode stops and the remaining fields
   keep their zero values; a partly present field is an error.  Encode writes every field. *)
Definition zero_of (k : fkind) : fval :=
  match k with FU _ | FBool | FBigSize => VN 0 | _ => VB [] end.

Fixpoint decode_eof (oc : bytes -> bool) (L : layout) (b : bytes) : option (list fval) :=
  match L with
  | [] => Some []
  | k :: L' =>
    match b with
    | [] => Some (map zero_of (k :: L'))
    | _ =>
      match dec_f oc k b with
      | Some (v, r) =>
        match decode_eof oc L' r with Some vs => Some (v :: vs) | None => None end
      | None => None
      end
    end
  end.

(* fixed-width integers, then the extension data *)
Fixpoint eof_ok (L : layout) : bool :=
  match L with
  | [] => true
  | [FRest] => true
  | FU (S _) :: L' => eof_ok L'
  | _ => false
  end.

(* payload description of a failure code *)
Inductive fdesc :=
| FDPlain (L : layout)
| FDUpd (F : updfail)
| FDEof (L : layout).

Definition decode_fd (oc : bytes -> bool) (U : tlvmsg) (D : fdesc) (b : bytes) : option ovalue :=
  match D with
  | FDPlain L => match decode oc L b with Some vs => Some (vs, None) | None => None end
  | FDUpd F => decode_uf oc U F b
  | FDEof L => match decode_eof oc L b with Some vs => Some (vs, None) | None => None end
  end.

Definition encode_fd (U : tlvmsg) (D : fdesc) (v : ovalue) : option bytes :=
  match D with
  | FDPlain L => match snd v with None => encode L (fst v) | Some _ => None end
  | FDUpd F => encode_uf U F v
  | FDEof L => match snd v with None => encode L (fst v) | Some _ => None end
  end.

Definition fd_ok (D : fdesc) : bool :=
  match D with
  | FDPlain L => lay_ok L
  | FDUpd F => nonterminal (uf_pre F)
  | FDEof L => eof_ok L
  end.

Definition valid_fd (oc : bytes -> bool) (U : tlvmsg) (D : fdesc) (v : ovalue) : bool :=
  match D with
  | FDPlain L | FDEof L =>
    valid_vs oc L (fst v) && match snd v with None => true | Some _ => false end
  | FDUpd F =>
    valid_vs oc (uf_pre F) (fst v) &&
    match snd v with
    | None => uf_opt F
    | Some tv => valid_tv oc U tv && complete_tv U tv
    end
  end.

Definition ftable := list (N * fdesc).

Fixpoint lookup_fd (T : ftable) (c : N) : option fdesc :=
  match T with
  | [] => None
  | (c', D) :: r => if c =? c' then Some D else lookup_fd r c
  end.

(* DecodeFailureMessage / EncodeFailureMessage (no size check of their own) *)
Definition read_fmessage (oc : bytes -> bool) (U : tlvmsg) (T : ftable) (b : bytes)
  : option (N * ovalue) :=
  match read_be 2 b with
  | None => None
  | Some (c, r) =>
    match lookup_fd T c with
    | None => None
    | Some D => match decode_fd oc U D r with Some v => Some (c, v) | None => None end
    end
  end.

Definition write_fmessage (U : tlvmsg) (T : ftable) (c : N) (v : ovalue) : option bytes :=
  match lookup_fd T c with
  | None => None
  | Some D => match encode_fd U D v with Some p => Some (be_enc 2 c ++ p) | None => None end
  end.

Definition decode_failure_g (oc : bytes -> bool) (U : tlvmsg) (T : ftable) (b : bytes)
  : option (N * ovalue) :=
  match unframe_failure b with
  | None => None
  | Some d => read_fmessage oc U T d
  end.

Definition encode_failure_g (U : tlvmsg) (T : ftable) (c : N) (v : ovalue) : option bytes :=
  match write_fmessage U T c v with
  | None => None
  | Some m => frame_failure m
  end.

(* ---- feature vectors ----
   A RawFeatureVector is a set of FeatureBit (uint16) = a number n < 2^65536 = 256^8192;
   its wire form is the minimal big-endian byte string of n (SerializeSize = highest
   bit / 8 + 1, at most 8192 bytes): feat_of_N k n for any width k with n < 256^k. *)
Definition feat_of_N (k : nat) (n : N) : bytes := strip0 (be_enc k n).

(* ---- default-elided records (pure-TLV gossip v2 messages: ChannelUpdate2, ChannelAnnouncement2) ----
   AllRecords writes such a record only when a test on its value holds (`c.F.Val != defaultX`,
   `!c.DisabledFlags.Val.IsEnabled()`, `!c.ChainHash.Val.IsEqual(genesis)`); Decode stores a
   default when the record is absent.  Abstractly, for a record whose value is a number:
   emit = the encoder's test, d = the decoder's default. *)
Definition el_encode (emit : N -> bool) (v : N) : option N := if emit v then Some v else None.
Definition el_decode (d : N) (w : option N) : N := match w with Some v => v | None => d end.

(* the shape of an elision test as the translator reads it from the source *)
Inductive etest :=
| ENe (c : N)        (* record written iff value <> c *)
| ENeGenesis         (* record written iff value <> mainnet genesis hash (a 32-byte constant) *)
| EUnknown.          (* any other test: not of a shape known to mean "value <> default" *)

Inductive edefault :=
| DConst (c : N)     (* Decode stores c when the record is absent (0 = the Go zero value) *)
| DGenesis.

(* one elision site: message type, record type, encoder test, decoder default *)
Record elision := { el_msg : N; el_type : N; el_test : etest; el_default : edefault }.

Definition etest_fn (t : etest) (v : N) : bool :=
  match t with ENe c => negb (v =? c) | _ => true end.

(* encoder test and decoder default agree *)
Definition elision_ok (e : elision) : bool :=
  match el_test e, el_default e with
  | ENe c, DConst d => c =? d
  | ENeGenesis, DGenesis => true
  | _, _ => false
  end.
