(* C10 bridge (tie T1): the size limits REGENERATED from the lnd tree
   (Gen/GenConsts.v: lnwire.MaxMsgBody, tlv.MaxRecordSize) equal the limits of
   the hand-written model Wire/Model.v that the C10 theorems are stated about.
   A source edit of either constant changes the generated side and breaks a
   lemma here. *)
From Coq Require Import ZArith NArith.
From LV Require Import Gen.GenConsts Wire.Model.
Local Open Scope Z_scope.

Lemma gen_max_msg_body_eq : lnwire_MaxMsgBody = Z.of_N max_msg_body.
Proof. reflexivity. Qed.

Lemma gen_max_record_size_eq : tlv_MaxRecordSize = Z.of_N max_record_size.
Proof. reflexivity. Qed.
