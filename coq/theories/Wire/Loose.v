(* C10: exact characterisation of what DecodeP2P accepts for ANY set of known
   record decoders, including DBigSize (which ignores the announced length):
   the announced length of a BigSize record is unconstrained (<= 65535), every
   other record's announced length is the length of its value. *)
From Coq Require Import List NArith Bool Lia Arith.
From Coq Require Import ZifyBool ZifyN ZifyNat.
From LV Require Import Wire.Model Wire.Proofs.
Import ListNotations.
Local Open Scope N_scope.

(* a record together with the length its header announces *)
Definition enc_record_claimed (r : tlv_record) (l : N) : bytes :=
  bigsize_enc (fst r) ++ bigsize_enc l ++ snd r.

Fixpoint encode_stream_claimed (rs : list tlv_record) (ls : list N) : bytes :=
  match rs, ls with
  | r :: rs', l :: ls' => enc_record_claimed r l ++ encode_stream_claimed rs' ls'
  | _, _ => []
  end.

Definition claimed_ok (ks : kinds) (r : tlv_record) (l : N) : Prop :=
  fst r < two64 /\ l <= max_record_size /\
  value_ok (lookup_kind ks (fst r)) (snd r) /\
  (lookup_kind ks (fst r) <> Some KBigSize -> l = blen (snd r)).

Lemma dec_value_spec_any k l r v r' :
  wf_bytes r -> dec_value k true l r = Ok (v, r') ->
  r = v ++ r' /\ value_ok k v /\ (k <> Some KBigSize -> blen v = l).
Proof.
  intros Hw. destruct k as [[n|n| | |]|].
  5:{ cbn [dec_value value_ok].
      destruct (bigsize_dec r) as [[x t]|e] eqn:E; [|destruct e; discriminate].
      intros H; inversion H; subst. apply bigsize_dec_spec in E; [|assumption].
      destruct E as (-> & Hx & _). split; [reflexivity|]. split; [exists x; auto|congruence]. }
  all: intros H; apply dec_value_spec in H; try discriminate;
    destruct H as (-> & Hl & Hv); auto.
Qed.

Lemma dec_value_enc_any k l v r :
  value_ok k v -> l <= max_record_size -> (k <> Some KBigSize -> l = blen v) ->
  dec_value k true l (v ++ r) = Ok (v, r).
Proof.
  intros Hv Hl Hk. destruct k as [[n|n| | |]|].
  5:{ cbn [dec_value value_ok] in *. destruct Hv as (x & Hx & ->).
      rewrite bigsize_dec_enc by assumption. reflexivity. }
  all: rewrite Hk by discriminate; apply dec_value_enc; [assumption|];
    rewrite <- Hk by discriminate; exact Hl.
Qed.

Lemma dec_loop_sound_any ks :
  forall fuel min ov b rs,
  wf_bytes b -> dec_loop fuel ks true min ov b = Ok rs ->
  exists ls, b = encode_stream_claimed rs ls /\
             sorted_from (lbnd min ov) rs /\ Forall2 (claimed_ok ks) rs ls.
Proof.
  induction fuel as [|f IH]; intros min ov b rs Hw; [discriminate|].
  cbn [dec_loop].
  destruct (bigsize_dec b) as [[t r1]|e] eqn:E1.
  2:{ destruct e; try discriminate. intros H; inversion H; subst.
      apply bigsize_dec_eof in E1. subst. exists []. repeat split; constructor. }
  apply bigsize_dec_spec in E1; [|assumption]. destruct E1 as (-> & Ht & Hw1).
  destruct (ov || (t <? min)) eqn:Eo; [discriminate|].
  apply orb_false_iff in Eo. destruct Eo as [-> Emin]. apply N.ltb_ge in Emin.
  destruct (no_eof (bigsize_dec r1)) as [[l r2]|e] eqn:E2; [|discriminate].
  apply no_eof_ok in E2. apply bigsize_dec_spec in E2; [|assumption].
  destruct E2 as (-> & Hl & Hw2).
  cbn [andb]. destruct (N.ltb_spec max_record_size l) as [|Hmax]; [discriminate|].
  destruct (no_eof (dec_value (lookup_kind ks t) true l r2)) as [[v r3]|e] eqn:E3; [|discriminate].
  apply no_eof_ok in E3. apply dec_value_spec_any in E3; [|assumption].
  destruct E3 as (-> & Hvok & Hlen). apply wf_app in Hw2. destruct Hw2 as [Hwv Hw3].
  destruct (dec_loop f ks true ((t + 1) mod two64) (t =? two64 - 1) r3) as [rs'|e] eqn:E4;
    [|discriminate].
  intros H; inversion H; subst rs. apply IH in E4; [|assumption].
  destruct E4 as (ls & -> & Hs & Hf).
  exists (l :: ls). split; [|split].
  - cbn [encode_stream_claimed]. unfold enc_record_claimed. cbn [fst snd].
    rewrite <- !app_assoc. reflexivity.
  - cbn [sorted_from lbnd]. split; [assumption|].
    replace (t + 1) with (lbnd ((t + 1) mod two64) (t =? two64 - 1)); [assumption|].
    unfold lbnd. destruct (N.eqb_spec t (two64 - 1)) as [Heq|Hne].
    + subst. reflexivity.
    + apply N.mod_small. unfold two64 in *. lia.
  - constructor; [|assumption]. unfold claimed_ok. cbn [fst snd].
    repeat split; auto. intros Hk. symmetry. apply Hlen. assumption.
Qed.

Lemma enc_claimed_len r l : (2 <= length (enc_record_claimed r l))%nat.
Proof.
  unfold enc_record_claimed. rewrite !app_length.
  pose proof (bigsize_enc_len (fst r)) as H1. pose proof (bigsize_enc_len l) as H2.
  unfold blen in *. lia.
Qed.

Lemma dec_loop_complete_any ks :
  forall rs ls fuel min ov,
  Forall2 (claimed_ok ks) rs ls -> sorted_from (lbnd min ov) rs ->
  (length (encode_stream_claimed rs ls) < fuel)%nat ->
  dec_loop fuel ks true min ov (encode_stream_claimed rs ls) = Ok rs.
Proof.
  induction rs as [|[t v] rs IH]; intros ls fuel min ov Hf Hs Hfuel.
  - inversion Hf; subst. destruct fuel; [lia|]. reflexivity.
  - inversion Hf as [|? l ? ls' Hr Hf']; subst.
    destruct fuel as [|f]; [lia|].
    destruct Hr as (Ht & Hl & Hv & Hk). cbn [fst snd] in *. destruct Hs as [Hlb Hs'].
    cbn [encode_stream_claimed] in *. pose proof (enc_claimed_len (t, v) l) as Hlen2.
    unfold enc_record_claimed in *. cbn [fst snd] in *.
    rewrite <- !app_assoc. cbn [dec_loop].
    rewrite bigsize_dec_enc by assumption.
    assert (Eo : ov || (t <? min) = false).
    { unfold lbnd in Hlb. destruct ov; [lia|]. cbn. apply N.ltb_ge. assumption. }
    rewrite Eo.
    rewrite bigsize_dec_enc by (unfold max_record_size, two64 in *; lia). cbn [no_eof andb].
    destruct (N.ltb_spec max_record_size l) as [|_]; [lia|].
    rewrite dec_value_enc_any by assumption. cbn [no_eof].
    rewrite IH; [reflexivity|assumption| |].
    + replace (lbnd ((t + 1) mod two64) (t =? two64 - 1)) with (t + 1); [assumption|].
      unfold lbnd. destruct (N.eqb_spec t (two64 - 1)) as [Heq|Hne].
      * subst. reflexivity.
      * symmetry. apply N.mod_small. unfold two64 in *. lia.
    + rewrite !app_length in *. lia.
Qed.

Theorem tlv_p2p_accepts_exactly ks b rs :
  wf_bytes b ->
  (decode_stream ks true b = Ok rs <->
   exists ls, b = encode_stream_claimed rs ls /\ sorted_from 0 rs /\
              Forall2 (claimed_ok ks) rs ls).
Proof.
  intros Hw. unfold decode_stream. split.
  - intros H. apply dec_loop_sound_any in H; [|assumption]. exact H.
  - intros (ls & -> & Hs & Hf). apply dec_loop_complete_any; auto.
Qed.
