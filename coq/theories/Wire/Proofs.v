(* Lemmas for C10 (BigSize, TLV stream, layouts). *)
From Coq Require Import List NArith Bool Lia Arith.
From Coq Require Import ZifyBool ZifyN ZifyNat.
From LV Require Import Wire.Model.
Import ListNotations.
Local Open Scope N_scope.

(* ------------------------------------------------------------------ *)
(* bytes *)

Lemma wf_app a b : wf_bytes (a ++ b) <-> wf_bytes a /\ wf_bytes b.
Proof. unfold wf_bytes. apply Forall_app. Qed.

Lemma wf_bytesb_spec b : wf_bytesb b = true <-> wf_bytes b.
Proof.
  unfold wf_bytesb, wf_bytes. rewrite forallb_forall, Forall_forall.
  split; intros H x Hx; specialize (H x Hx); lia.
Qed.

Lemma blen_app a b : blen (a ++ b) = blen a + blen b.
Proof. unfold blen. rewrite app_length. lia. Qed.

Lemma blen_cons x b : blen (x :: b) = 1 + blen b.
Proof. unfold blen. cbn [length]. lia. Qed.

Lemma blen_nil : blen [] = 0.
Proof. reflexivity. Qed.

(* ---- take ---- *)

Lemma take_app (v r : bytes) : take (blen v) (v ++ r) = Some (v, r).
Proof.
  unfold take. rewrite blen_app.
  destruct (N.ltb_spec (blen v + blen r) (blen v)); [lia|].
  unfold blen. rewrite Nat2N.id.
  rewrite firstn_app, Nat.sub_diag, firstn_all, firstn_O, app_nil_r.
  rewrite skipn_app, Nat.sub_diag, skipn_all, skipn_O. reflexivity.
Qed.

Lemma take_spec n b h t : take n b = Some (h, t) -> b = h ++ t /\ blen h = n.
Proof.
  unfold take. destruct (N.ltb_spec (blen b) n) as [|Hle]; [discriminate|].
  intros E. inversion E; subst. split.
  - symmetry. apply firstn_skipn.
  - unfold blen in *. rewrite firstn_length. lia.
Qed.

Lemma take_none n b : take n b = None <-> blen b < n.
Proof.
  unfold take. destruct (N.ltb_spec (blen b) n); split; intros; try discriminate; try lia; auto.
Qed.

(* ---- big endian ---- *)

Lemma be_dec_acc_app a b acc :
  be_dec_acc (a ++ b) acc = be_dec_acc b (be_dec_acc a acc).
Proof. revert acc. induction a; intros; cbn; auto. Qed.

Lemma be_dec_snoc a x : be_dec (a ++ [x]) = be_dec a * 256 + x.
Proof. unfold be_dec. rewrite be_dec_acc_app. reflexivity. Qed.

Lemma be_enc_length k v : length (be_enc k v) = k.
Proof. revert v. induction k; intros; cbn; auto. rewrite app_length, IHk. cbn. lia. Qed.

Lemma be_enc_wf k v : wf_bytes (be_enc k v).
Proof.
  revert v. induction k; intros; cbn. constructor.
  apply wf_app. split; auto. constructor; [|constructor].
  apply N.mod_lt. lia.
Qed.

Lemma be_dec_enc k v : be_dec (be_enc k v) = v mod 256 ^ N.of_nat k.
Proof.
  revert v. induction k; intros v.
  - cbn. rewrite N.mod_1_r. reflexivity.
  - cbn [be_enc]. rewrite be_dec_snoc, IHk.
    rewrite Nat2N.inj_succ, N.pow_succ_r'.
    assert (Hp : 256 ^ N.of_nat k <> 0) by (apply N.pow_nonzero; lia).
    rewrite (N.mod_mul_r v 256 (256 ^ N.of_nat k)); [lia | lia | assumption].
Qed.

Lemma be_dec_bound b : wf_bytes b -> be_dec b < 256 ^ blen b.
Proof.
  induction b using rev_ind; intros Hw.
  - cbn. lia.
  - apply wf_app in Hw. destruct Hw as [Ha Hx]. inversion Hx; subst.
    rewrite be_dec_snoc, blen_app. specialize (IHb Ha).
    replace (blen [x]) with 1 by reflexivity.
    rewrite N.pow_add_r, N.pow_1_r. nia.
Qed.

Lemma be_enc_dec b : wf_bytes b -> be_enc (length b) (be_dec b) = b.
Proof.
  induction b using rev_ind; intros Hw.
  - reflexivity.
  - apply wf_app in Hw. destruct Hw as [Ha Hx]. inversion Hx; subst.
    rewrite app_length. cbn [length]. rewrite Nat.add_1_r. cbn [be_enc].
    rewrite be_dec_snoc.
    replace ((be_dec b * 256 + x) / 256) with (be_dec b)
      by (apply N.div_unique with x; lia).
    replace ((be_dec b * 256 + x) mod 256) with x
      by (apply N.mod_unique with (be_dec b); lia).
    rewrite IHb by assumption. reflexivity.
Qed.

Lemma read_be_app k v r :
  read_be k (be_enc k v ++ r) = Some (v mod 256 ^ N.of_nat k, r).
Proof.
  unfold read_be.
  replace (N.of_nat k) with (blen (be_enc k v)) at 1
    by (unfold blen; rewrite be_enc_length; reflexivity).
  rewrite take_app, be_dec_enc. reflexivity.
Qed.

Lemma read_be_spec k b v r :
  wf_bytes b -> read_be k b = Some (v, r) ->
  b = be_enc k v ++ r /\ v < 256 ^ N.of_nat k /\ wf_bytes r.
Proof.
  unfold read_be. intros Hw. destruct (take (N.of_nat k) b) as [[h t]|] eqn:E; [|discriminate].
  intros H. inversion H; subst. apply take_spec in E. destruct E as [-> Hl].
  apply wf_app in Hw. destruct Hw as [Hh Ht].
  assert (length h = k) by (unfold blen in Hl; lia). subst k.
  rewrite be_enc_dec by assumption. repeat split; auto.
  apply be_dec_bound. assumption.
Qed.

(* ------------------------------------------------------------------ *)
(* BigSize *)

Lemma pow2 : 256 ^ N.of_nat 2 = 65536. Proof. reflexivity. Qed.
Lemma pow4 : 256 ^ N.of_nat 4 = 4294967296. Proof. reflexivity. Qed.
Lemma pow8 : 256 ^ N.of_nat 8 = two64. Proof. reflexivity. Qed.

Lemma bigsize_dec_enc v r :
  v < two64 -> bigsize_dec (bigsize_enc v ++ r) = Ok (v, r).
Proof.
  intros Hv. unfold bigsize_enc.
  destruct (N.ltb_spec v 253) as [H1|H1].
  { cbn [app bigsize_dec]. destruct (N.ltb_spec v 253); [reflexivity|lia]. }
  destruct (N.leb_spec v 65535) as [H2|H2].
  { cbn [app bigsize_dec]. change (253 <? 253) with false. change (253 =? 253) with true.
    cbn match. rewrite read_be_app, pow2, N.mod_small by lia.
    destruct (N.ltb_spec v 253); [lia|reflexivity]. }
  destruct (N.leb_spec v 4294967295) as [H3|H3].
  { cbn [app bigsize_dec]. change (254 <? 253) with false. change (254 =? 253) with false.
    change (254 =? 254) with true. cbn match.
    rewrite read_be_app, pow4, N.mod_small by lia.
    destruct (N.leb_spec v 65535); [lia|reflexivity]. }
  cbn [app bigsize_dec]. change (255 <? 253) with false. change (255 =? 253) with false.
  change (255 =? 254) with false. cbn match.
  rewrite read_be_app, pow8, N.mod_small by lia.
  destruct (N.leb_spec v 4294967295); [lia|reflexivity].
Qed.

Lemma bigsize_dec_spec b v r :
  wf_bytes b -> bigsize_dec b = Ok (v, r) ->
  b = bigsize_enc v ++ r /\ v < two64 /\ wf_bytes r.
Proof.
  intros Hw. destruct b as [|d b']; [discriminate|].
  inversion Hw as [|? ? Hd Hw']; subst. cbn [bigsize_dec].
  destruct (N.ltb_spec d 253) as [H1|H1].
  { intros E; inversion E; subst. unfold bigsize_enc.
    destruct (N.ltb_spec v 253); [|lia]. repeat split; auto. unfold two64. lia. }
  destruct (N.eqb_spec d 253) as [->|H2].
  { destruct (read_be 2 b') as [[x t]|] eqn:E; [|discriminate].
    apply read_be_spec in E; [|assumption]. destruct E as (-> & Hx & Ht). rewrite pow2 in Hx.
    destruct (N.ltb_spec x 253) as [|H3]; [discriminate|].
    intros E; inversion E; subst. unfold bigsize_enc.
    destruct (N.ltb_spec v 253); [lia|]. destruct (N.leb_spec v 65535); [|lia].
    repeat split; auto. unfold two64. lia. }
  destruct (N.eqb_spec d 254) as [->|H3].
  { destruct (read_be 4 b') as [[x t]|] eqn:E; [|discriminate].
    apply read_be_spec in E; [|assumption]. destruct E as (-> & Hx & Ht). rewrite pow4 in Hx.
    destruct (N.leb_spec x 65535) as [|H4]; [discriminate|].
    intros E; inversion E; subst. unfold bigsize_enc.
    destruct (N.ltb_spec v 253); [lia|]. destruct (N.leb_spec v 65535); [lia|].
    destruct (N.leb_spec v 4294967295); [|lia].
    repeat split; auto. unfold two64. lia. }
  assert (d = 255) by lia. subst d.
  destruct (read_be 8 b') as [[x t]|] eqn:E; [|discriminate].
  apply read_be_spec in E; [|assumption]. destruct E as (-> & Hx & Ht). rewrite pow8 in Hx.
  destruct (N.leb_spec x 4294967295) as [|H4]; [discriminate|].
  intros E; inversion E; subst. unfold bigsize_enc.
  destruct (N.ltb_spec v 253); [lia|]. destruct (N.leb_spec v 65535); [lia|].
  destruct (N.leb_spec v 4294967295); [lia|].
  repeat split; auto.
Qed.

Lemma bigsize_enc_wf v : v < two64 -> wf_bytes (bigsize_enc v).
Proof.
  intros Hv. unfold bigsize_enc.
  destruct (v <? 253) eqn:E1.
  { constructor; [lia|constructor]. }
  destruct (v <=? 65535); [constructor; [lia|apply be_enc_wf]|].
  destruct (v <=? 4294967295); constructor; try lia; apply be_enc_wf.
Qed.

Lemma bigsize_enc_len v : 1 <= blen (bigsize_enc v) <= 9.
Proof.
  unfold bigsize_enc, blen.
  destruct (v <? 253); [cbn; lia|].
  destruct (v <=? 65535); [cbn [length]; rewrite be_enc_length; lia|].
  destruct (v <=? 4294967295); cbn [length]; rewrite be_enc_length; lia.
Qed.

Lemma bigsize_enc_nonnil v : bigsize_enc v <> [].
Proof.
  pose proof (bigsize_enc_len v) as H. destruct (bigsize_enc v); [cbn in H; lia|discriminate].
Qed.

Lemma bigsize_dec_not_eof v r : v < two64 -> bigsize_dec (bigsize_enc v ++ r) <> Err EEOF.
Proof. intros Hv. rewrite bigsize_dec_enc by assumption. discriminate. Qed.

Lemma bigsize_dec_eof b : bigsize_dec b = Err EEOF -> b = [].
Proof.
  destruct b as [|d b']; [reflexivity|]. cbn [bigsize_dec].
  destruct (d <? 253); [discriminate|].
  destruct (d =? 253). { destruct (read_be 2 b') as [[x t]|]; [destruct (x <? 253)|]; discriminate. }
  destruct (d =? 254). { destruct (read_be 4 b') as [[x t]|]; [destruct (x <=? 65535)|]; discriminate. }
  destruct (read_be 8 b') as [[x t]|]; [destruct (x <=? 4294967295)|]; discriminate.
Qed.

(* ------------------------------------------------------------------ *)
(* TLV stream *)

Definition lbnd (min : N) (ov : bool) : N := if ov then two64 else min.

Lemma no_eof_ok {A} (x : res A) y : no_eof x = Ok y -> x = Ok y.
Proof. destruct x as [a|e]; cbn; [auto|destruct e; discriminate]. Qed.

Lemma take_value_ok l r v r' :
  take_value l r = Ok (v, r') -> r = v ++ r' /\ blen v = l.
Proof.
  unfold take_value. destruct (take l r) as [[h t]|] eqn:E; [|discriminate].
  intros H; inversion H; subst. apply take_spec in E. exact E.
Qed.

Lemma take_value_app v r : take_value (blen v) (v ++ r) = Ok (v, r).
Proof. unfold take_value. rewrite take_app. reflexivity. Qed.

Lemma lookup_no_bigsize ks t : no_bigsize ks -> lookup_kind ks t <> Some KBigSize.
Proof.
  induction ks as [|[t' k] ks IH]; cbn; [discriminate|].
  intros H. destruct (t =? t').
  - destruct k; cbn in H; try discriminate. contradiction.
  - apply IH. destruct k; auto. contradiction.
Qed.

(* what an accepted value looks like (p2p path) *)
Lemma dec_value_spec k l r v r' :
  k <> Some KBigSize ->
  dec_value k true l r = Ok (v, r') ->
  r = v ++ r' /\ blen v = l /\ value_ok k v.
Proof.
  intros Hk. destruct k as [[n|n| | |]|]; cbn [dec_value negb andb value_ok].
  - destruct (N.eqb_spec l n) as [Hln|Hln]; [|discriminate]. intros H. apply take_value_ok in H.
    destruct H; subst. auto.
  - destruct (N.leb_spec l n) as [Hln|Hln]; [|discriminate].
    destruct (take_value l r) as [[v0 r0]|] eqn:E; [|discriminate].
    apply take_value_ok in E. destruct E as [-> <-].
    destruct v0 as [|x v0]; [intros H; inversion H; subst; auto|].
    destruct x; [discriminate|]. intros H; inversion H; subst. auto.
  - intros H. apply take_value_ok in H. destruct H; subst. auto.
  - destruct (N.eqb_spec l 1) as [Hl1|Hl1]; [|discriminate].
    destruct (take_value l r) as [[v0 r0]|] eqn:E; [|discriminate].
    apply take_value_ok in E. destruct E as [-> <-].
    destruct v0 as [|x [|y v0]]; try discriminate.
    destruct (N.leb_spec x 1) as [Hx|Hx]; [|discriminate]. intros H; inversion H; subst.
    repeat split; auto. assert (x = 0 \/ x = 1) as [->| ->] by lia; auto.
  - congruence.
  - intros H. apply take_value_ok in H. destruct H; subst. auto.
Qed.

Lemma dec_value_enc k p2p v r :
  value_ok k v -> blen v <= len_bound p2p ->
  dec_value k p2p (blen v) (v ++ r) = Ok (v, r).
Proof.
  intros Hv Hl. destruct k as [[n|n| | |]|]; cbn [dec_value value_ok] in *.
  - subst n. rewrite N.eqb_refl. apply take_value_app.
  - destruct Hv as [Hn Hz]. destruct (N.leb_spec (blen v) n); [|lia].
    rewrite take_value_app. destruct v as [|x v]; [reflexivity|].
    destruct x; [contradiction|reflexivity].
  - apply take_value_app.
  - destruct Hv as [-> | ->]; rewrite take_value_app; reflexivity.
  - destruct Hv as (n & Hn & ->). rewrite bigsize_dec_enc by assumption. reflexivity.
  - destruct p2p; cbn [negb andb].
    + apply take_value_app.
    + unfold len_bound in Hl. destruct (N.leb_spec two63 (blen v)); [unfold two63 in *; lia|].
      apply take_value_app.
Qed.

Lemma enc_record_cons t v rs :
  encode_stream ((t, v) :: rs) =
  bigsize_enc t ++ bigsize_enc (blen v) ++ v ++ encode_stream rs.
Proof.
  unfold encode_stream, enc_record. cbn [map concat fst snd]. rewrite <- !app_assoc. reflexivity.
Qed.

(* accepted => canonical *)
Lemma dec_loop_sound ks : no_bigsize ks ->
  forall fuel min ov b rs,
  wf_bytes b -> dec_loop fuel ks true min ov b = Ok rs ->
  b = encode_stream rs /\ sorted_from (lbnd min ov) rs /\ Forall (record_ok ks true) rs.
Proof.
  intros Hks. induction fuel as [|f IH]; intros min ov b rs Hw; [discriminate|].
  cbn [dec_loop].
  destruct (bigsize_dec b) as [[t r1]|e] eqn:E1.
  2:{ destruct e; try discriminate. intros H; inversion H; subst.
      apply bigsize_dec_eof in E1. subst. repeat split; constructor. }
  apply bigsize_dec_spec in E1; [|assumption]. destruct E1 as (-> & Ht & Hw1).
  destruct (ov || (t <? min)) eqn:Eo; [discriminate|].
  apply orb_false_iff in Eo. destruct Eo as [-> Emin]. apply N.ltb_ge in Emin.
  destruct (no_eof (bigsize_dec r1)) as [[l r2]|e] eqn:E2; [|discriminate].
  apply no_eof_ok in E2. apply bigsize_dec_spec in E2; [|assumption].
  destruct E2 as (-> & Hl & Hw2).
  cbn [andb]. destruct (N.ltb_spec max_record_size l) as [|Hmax]; [discriminate|].
  destruct (no_eof (dec_value (lookup_kind ks t) true l r2)) as [[v r3]|e] eqn:E3; [|discriminate].
  apply no_eof_ok in E3. apply dec_value_spec in E3; [|apply lookup_no_bigsize; assumption].
  destruct E3 as (-> & Hlen & Hvok). apply wf_app in Hw2. destruct Hw2 as [Hwv Hw3].
  destruct (dec_loop f ks true ((t + 1) mod two64) (t =? two64 - 1) r3) as [rs'|e] eqn:E4;
    [|discriminate].
  intros H; inversion H; subst rs. apply IH in E4; [|assumption].
  destruct E4 as (-> & Hs & Hf).
  split; [|split].
  - rewrite enc_record_cons. rewrite Hlen. reflexivity.
  - cbn [sorted_from lbnd]. split; [assumption|].
    replace (t + 1) with (lbnd ((t + 1) mod two64) (t =? two64 - 1)); [assumption|].
    unfold lbnd. destruct (N.eqb_spec t (two64 - 1)).
    + subst. reflexivity.
    + apply N.mod_small. unfold two64 in *. lia.
  - constructor; [|assumption]. unfold record_ok. cbn [fst snd len_bound].
    rewrite Hlen. repeat split; auto.
Qed.

(* canonical => accepted, and the records come back *)
Lemma dec_loop_complete ks p2p :
  forall rs fuel min ov,
  Forall (record_ok ks p2p) rs -> sorted_from (lbnd min ov) rs ->
  (length (encode_stream rs) < fuel)%nat ->
  dec_loop fuel ks p2p min ov (encode_stream rs) = Ok rs.
Proof.
  induction rs as [|[t v] rs IH]; intros fuel min ov Hf Hs Hfuel.
  - destruct fuel; [lia|]. reflexivity.
  - destruct fuel as [|f]; [lia|].
    inversion Hf as [|? ? Hr Hf']; subst. destruct Hr as (Ht & Hl & Hv). cbn [fst snd] in *.
    destruct Hs as [Hlb Hs'].
    assert (Hl64 : blen v < two64).
    { unfold len_bound, max_record_size, two63, two64 in *. destruct p2p; lia. }
    rewrite enc_record_cons in *. cbn [dec_loop].
    rewrite bigsize_dec_enc by assumption.
    assert (Eo : ov || (t <? min) = false).
    { unfold lbnd in Hlb. destruct ov; [lia|]. cbn. apply N.ltb_ge. assumption. }
    rewrite Eo. rewrite bigsize_dec_enc by assumption. cbn [no_eof].
    assert (Ep : p2p && (max_record_size <? blen v) = false).
    { destruct p2p; [|reflexivity]. cbn. apply N.ltb_ge. exact Hl. }
    rewrite Ep. rewrite dec_value_enc by assumption. cbn [no_eof].
    rewrite IH; [reflexivity|assumption| |].
    + replace (lbnd ((t + 1) mod two64) (t =? two64 - 1)) with (t + 1); [assumption|].
      unfold lbnd. destruct (N.eqb_spec t (two64 - 1)).
      * subst. reflexivity.
      * symmetry. apply N.mod_small. unfold two64 in *. lia.
    + rewrite !app_length in Hfuel.
      pose proof (bigsize_enc_len t) as H1. unfold blen in H1. lia.
Qed.

Lemma encode_stream_wf ks p2p rs :
  Forall (record_ok ks p2p) rs -> Forall (fun r => wf_bytes (snd r)) rs ->
  wf_bytes (encode_stream rs).
Proof.
  induction rs as [|[t v] rs IH]; intros Hf Hw; [constructor|].
  inversion Hf as [|? ? Hr Hf']; inversion Hw as [|? ? Hv Hw']; subst.
  destruct Hr as (Ht & Hl & _). cbn [fst snd] in *.
  rewrite enc_record_cons. rewrite !wf_app. repeat split; auto.
  - apply bigsize_enc_wf; assumption.
  - apply bigsize_enc_wf. unfold len_bound, max_record_size, two63, two64 in *. destruct p2p; lia.
Qed.

(* ---- totality: fuel |b|+1 always suffices ---- *)

Lemma read_be_shorter k b x t : read_be k b = Some (x, t) -> (length t <= length b)%nat.
Proof.
  unfold read_be. destruct (take (N.of_nat k) b) as [[h t']|] eqn:E; [|discriminate].
  intros H; inversion H; subst. apply take_spec in E. destruct E as [-> _].
  rewrite app_length. lia.
Qed.

Lemma bigsize_dec_shorter b v r : bigsize_dec b = Ok (v, r) -> (length r < length b)%nat.
Proof.
  destruct b as [|d b']; [discriminate|]. cbn [bigsize_dec length].
  destruct (d <? 253). { intros H; inversion H; subst. lia. }
  destruct (d =? 253).
  { destruct (read_be 2 b') as [[x t]|] eqn:E; [|discriminate]. apply read_be_shorter in E.
    destruct (x <? 253); [discriminate|]. intros H; inversion H; subst. lia. }
  destruct (d =? 254).
  { destruct (read_be 4 b') as [[x t]|] eqn:E; [|discriminate]. apply read_be_shorter in E.
    destruct (x <=? 65535); [discriminate|]. intros H; inversion H; subst. lia. }
  destruct (read_be 8 b') as [[x t]|] eqn:E; [|discriminate]. apply read_be_shorter in E.
  destruct (x <=? 4294967295); [discriminate|]. intros H; inversion H; subst. lia.
Qed.

Lemma take_value_shorter l r v r' :
  take_value l r = Ok (v, r') -> (length v + length r' = length r)%nat.
Proof. intros H. apply take_value_ok in H. destruct H as [-> _]. rewrite app_length. lia. Qed.

Lemma dec_value_shorter k p2p l r v r' :
  dec_value k p2p l r = Ok (v, r') -> (length r' <= length r)%nat.
Proof.
  destruct k as [[n|n| | |]|]; cbn [dec_value].
  - destruct (l =? n); [|discriminate]. intros H. apply take_value_shorter in H. lia.
  - destruct (l <=? n); [|discriminate].
    destruct (take_value l r) as [[v0 r0]|] eqn:E; [|discriminate].
    apply take_value_shorter in E. destruct v0 as [|x v0].
    + intros H; inversion H; subst. lia.
    + destruct x; [discriminate|]. intros H; inversion H; subst. lia.
  - intros H. apply take_value_shorter in H. lia.
  - destruct (l =? 1); [|discriminate].
    destruct (take_value l r) as [[v0 r0]|] eqn:E; [|discriminate].
    apply take_value_shorter in E. destruct v0 as [|x [|y v0]]; try discriminate.
    destruct (x <=? 1); [|discriminate]. intros H; inversion H; subst. lia.
  - destruct (bigsize_dec r) as [[x t]|e] eqn:E; [|destruct e; discriminate].
    apply bigsize_dec_shorter in E. intros H; inversion H; subst. lia.
  - destruct (negb p2p && (two63 <=? l)).
    + intros H; inversion H; subst. lia.
    + intros H. apply take_value_shorter in H. lia.
Qed.

Lemma bigsize_dec_no_fuel b : bigsize_dec b <> Err EOutOfFuel.
Proof.
  destruct b as [|d b']; [discriminate|]. cbn [bigsize_dec].
  destruct (d <? 253); [discriminate|].
  destruct (d =? 253). { destruct (read_be 2 b') as [[x t]|]; [destruct (x <? 253)|]; discriminate. }
  destruct (d =? 254). { destruct (read_be 4 b') as [[x t]|]; [destruct (x <=? 65535)|]; discriminate. }
  destruct (read_be 8 b') as [[x t]|]; [destruct (x <=? 4294967295)|]; discriminate.
Qed.

Lemma take_value_no_fuel l r : take_value l r <> Err EOutOfFuel.
Proof. unfold take_value. destruct (take l r) as [[? ?]|]; discriminate. Qed.

Lemma dec_value_no_fuel k p2p l r : dec_value k p2p l r <> Err EOutOfFuel.
Proof.
  destruct k as [[n|n| | |]|]; cbn [dec_value].
  - destruct (l =? n); [apply take_value_no_fuel|discriminate].
  - destruct (l <=? n); [|discriminate].
    pose proof (take_value_no_fuel l r) as H.
    destruct (take_value l r) as [[[|[|?] ?] ?]|e]; try discriminate. exact H.
  - apply take_value_no_fuel.
  - destruct (l =? 1); [|discriminate].
    pose proof (take_value_no_fuel l r) as H.
    destruct (take_value l r) as [[[|x [|? ?]] ?]|e]; try discriminate; [|exact H].
    destruct (x <=? 1); discriminate.
  - pose proof (bigsize_dec_no_fuel r) as H.
    destruct (bigsize_dec r) as [[? ?]|e]; [discriminate|].
    destruct e; try discriminate. contradiction.
  - destruct (negb p2p && (two63 <=? l)); [discriminate|apply take_value_no_fuel].
Qed.

Lemma dec_loop_fuel ks p2p :
  forall fuel min ov b, (length b < fuel)%nat ->
  dec_loop fuel ks p2p min ov b <> Err EOutOfFuel.
Proof.
  induction fuel as [|f IH]; intros min ov b Hf; [lia|]. cbn [dec_loop].
  pose proof (bigsize_dec_no_fuel b) as N1.
  destruct (bigsize_dec b) as [[t r1]|e] eqn:E1.
  2:{ destruct e; try discriminate. contradiction. }
  apply bigsize_dec_shorter in E1.
  destruct (ov || (t <? min)); [discriminate|].
  pose proof (bigsize_dec_no_fuel r1) as N2.
  destruct (bigsize_dec r1) as [[l r2]|e] eqn:E2; cbn [no_eof].
  2:{ destruct e; try discriminate. contradiction. }
  apply bigsize_dec_shorter in E2.
  destruct (p2p && (max_record_size <? l)); [discriminate|].
  pose proof (dec_value_no_fuel (lookup_kind ks t) p2p l r2) as N3.
  destruct (dec_value (lookup_kind ks t) p2p l r2) as [[v r3]|e] eqn:E3; cbn [no_eof].
  2:{ destruct e; try discriminate. contradiction. }
  apply dec_value_shorter in E3.
  specialize (IH ((t + 1) mod two64) (t =? two64 - 1) r3).
  destruct (dec_loop f ks p2p ((t + 1) mod two64) (t =? two64 - 1) r3) as [rs|e] eqn:E4;
    [discriminate|].
  intros H; inversion H; subst. apply IH; [lia|reflexivity].
Qed.

(* ------------------------------------------------------------------ *)
(* element codecs and layouts *)

Lemma strip0_wf b : wf_bytes b -> wf_bytes (strip0 b).
Proof.
  induction b as [|x b IH]; intros Hw; [exact Hw|].
  inversion Hw; subst. cbn [strip0]. destruct x; [auto|exact Hw].
Qed.

Lemma strip0_len b : (length (strip0 b) <= length b)%nat.
Proof.
  induction b as [|x b IH]; [cbn; lia|]. cbn [strip0]. destruct x; cbn [length]; lia.
Qed.

Lemma strip0_head b : match strip0 b with 0 :: _ => false | _ => true end = true.
Proof.
  induction b as [|x b IH]; [reflexivity|]. cbn [strip0]. destruct x; [exact IH|reflexivity].
Qed.

Lemma strip0_id b : match b with 0 :: _ => false | _ => true end = true -> strip0 b = b.
Proof. destruct b as [|x b]; [reflexivity|]. destruct x; [discriminate|reflexivity]. Qed.

Lemma beq_spec a b : beq a b = true <-> a = b.
Proof.
  revert b. induction a as [|x a IH]; intros [|y b]; cbn; split; try discriminate; auto.
  - intros H. apply andb_true_iff in H. destruct H as [H1 H2]. apply N.eqb_eq in H1.
    apply IH in H2. subst. reflexivity.
  - intros H. inversion H; subst. rewrite N.eqb_refl. apply IH. reflexivity.
Qed.

Lemma wf_firstn n b : wf_bytes b -> wf_bytes (firstn n b).
Proof. intros H. rewrite <- (firstn_skipn n b) in H. apply wf_app in H. tauto. Qed.

Lemma wf_skipn n b : wf_bytes b -> wf_bytes (skipn n b).
Proof. intros H. rewrite <- (firstn_skipn n b) in H. apply wf_app in H. tauto. Qed.

(* ---- node_announcement address descriptors ---- *)
Lemma addrs_norm_props : forall f b v, wf_bytes b -> addrs_norm f b = Some v ->
  wf_bytes v /\ (length v <= length b)%nat /\
  forall f', (length v < f')%nat -> addrs_norm f' v = Some v.
Proof.
  induction f as [|f IH]; intros b v Hw; [discriminate|]. cbn [addrs_norm].
  destruct b as [|t r].
  { intros H; injection H as <-. split; [constructor|]. split; [lia|].
    intros [|f'] Hf; [cbn in Hf; lia|reflexivity]. }
  inversion Hw as [|? ? Ht Hr]; subst.
  (* descriptors with a fixed-size payload that is kept as it is *)
  assert (Hfixed : forall n, (t =? 0) = false ->
            (forall f' x, addrs_norm (S f') (t :: x) =
               match take n x with
               | Some (h, r') => match addrs_norm f' r' with Some y => Some (t :: h ++ y) | None => None end
               | None => None end) ->
            match take n r with
            | Some (h, r') => match addrs_norm f r' with Some x => Some (t :: h ++ x) | None => None end
            | None => None end = Some v ->
            wf_bytes v /\ (length v <= length (t :: r))%nat /\
            forall f', (length v < f')%nat -> addrs_norm f' v = Some v).
  { intros n E0 Hstep. destruct (take n r) as [[h r']|] eqn:Et; [|discriminate].
    destruct (addrs_norm f r') as [x|] eqn:Ex; [|discriminate]. intros H; injection H as <-.
    apply take_spec in Et. destruct Et as [-> Hl]. apply wf_app in Hr. destruct Hr as [Hh Hr'].
    destruct (IH r' x Hr' Ex) as (Hwx & Hlx & Hix). split.
    { constructor; [assumption|]. apply wf_app. split; assumption. }
    split; [cbn [length]; rewrite !app_length; lia|].
    intros [|f'] Hf; [cbn in Hf; lia|]. rewrite Hstep, <- Hl, take_app, Hix; [reflexivity|].
    cbn [length] in Hf. rewrite app_length in Hf. lia. }
  destruct (t =? 0) eqn:E0.
  { intros H. destruct (IH r v Hr H) as (Hwv & Hlv & Hiv). split; [assumption|].
    split; [cbn [length]; lia|assumption]. }
  destruct (t =? 1) eqn:E1.
  { apply N.eqb_eq in E1. subst t. apply Hfixed; [reflexivity|]. intros; reflexivity. }
  destruct (t =? 2) eqn:E2.
  { apply N.eqb_eq in E2. subst t.
    destruct (take 18 r) as [[h r']|] eqn:Et; [|discriminate].
    remember (skipn 12 h) as s4 eqn:Es4.
    destruct (addrs_norm f r') as [x|] eqn:Ex; [|discriminate]. intros H; injection H as <-.
    apply take_spec in Et. destruct Et as [-> Hl]. apply wf_app in Hr. destruct Hr as [Hh Hr'].
    destruct (IH r' x Hr' Ex) as (Hwx & Hlx & Hix).
    assert (Hlh : length h = 18%nat) by (unfold blen in Hl; lia).
    assert (Hls : length s4 = 6%nat) by (rewrite Es4, skipn_length; lia).
    assert (Hws : wf_bytes s4) by (rewrite Es4; apply wf_skipn; assumption).
    assert (Hs : blen s4 = 6) by (unfold blen; lia).
    clear Es4.
    destruct (v4_mapped h) eqn:Em.
    - split.
      { apply wf_app. split; [|assumption]. apply Forall_cons; [lia|assumption]. }
      split.
      { cbn [length app]. rewrite !app_length. lia. }
      intros [|f'] Hf; [cbn in Hf; lia|]. cbn [app addrs_norm N.eqb Pos.eqb].
      rewrite <- Hs, take_app, Hix; [reflexivity|].
      cbn [length app] in Hf. rewrite app_length in Hf. lia.
    - split.
      { apply wf_app. split; [|assumption]. apply Forall_cons; [lia|assumption]. }
      split.
      { cbn [length app]. rewrite !app_length. lia. }
      intros [|f'] Hf; [cbn in Hf; lia|]. cbn [app addrs_norm N.eqb Pos.eqb].
      rewrite <- Hl, take_app, Hix, Em; [reflexivity|].
      cbn [length app] in Hf. rewrite app_length in Hf. lia. }
  destruct (t =? 3) eqn:E3.
  { apply N.eqb_eq in E3. subst t. apply Hfixed; [reflexivity|]. intros; reflexivity. }
  destruct (t =? 4) eqn:E4.
  { apply N.eqb_eq in E4. subst t. apply Hfixed; [reflexivity|]. intros; reflexivity. }
  destruct (t =? 5) eqn:E5.
  { apply N.eqb_eq in E5. subst t. destruct r as [|l r1]; [discriminate|].
    destruct (take (l + 2) r1) as [[h r']|] eqn:Et; [|discriminate].
    destruct (addrs_norm f r') as [x|] eqn:Ex; [|discriminate]. intros H; injection H as <-.
    inversion Hr as [|? ? Hl8 Hr1]; subst.
    apply take_spec in Et. destruct Et as [-> Hl]. apply wf_app in Hr1. destruct Hr1 as [Hh Hr'].
    destruct (IH r' x Hr' Ex) as (Hwx & Hlx & Hix). split.
    { constructor; [lia|]. constructor; [assumption|]. apply wf_app. split; assumption. }
    split; [cbn [length]; rewrite !app_length; lia|].
    intros [|f'] Hf; [cbn in Hf; lia|]. cbn [addrs_norm N.eqb Pos.eqb].
    rewrite <- Hl, take_app, Hix; [reflexivity|].
    cbn [length] in Hf. rewrite app_length in Hf. lia. }
  intros H; injection H as <-. split; [assumption|]. split; [lia|].
  intros [|f'] Hf; [cbn in Hf; lia|]. cbn [addrs_norm]. rewrite E0, E1, E2, E3, E4, E5. reflexivity.
Qed.

Lemma addrs_parse_props b v : wf_bytes b -> addrs_parse b = Some v ->
  wf_bytes v /\ (length v <= length b)%nat /\ addrs_parse v = Some v.
Proof.
  unfold addrs_parse. intros Hw H. destruct (addrs_norm_props _ _ _ Hw H) as (H1 & H2 & H3).
  split; [assumption|]. split; [assumption|]. apply H3. lia.
Qed.

Section FieldProofs.
  Variable on_curve : bytes -> bool.
  Notation valid_f := (valid_f on_curve).
  Notation dec_f := (dec_f on_curve).
  Notation decode := (decode on_curve).
  Notation valid_vs := (valid_vs on_curve).

  Lemma take_len_app (n : nat) (h r : bytes) :
    length h = n -> take (N.of_nat n) (h ++ r) = Some (h, r).
  Proof. intros <-. apply take_app. Qed.

  (* L1: a valid value of a non-terminal field decodes back, whatever follows *)
  Lemma field_roundtrip k v :
    valid_f k v = true -> is_terminal k = false ->
    exists e, enc_f k v = Some e /\ forall r, dec_f k (e ++ r) = Some (v, r).
  Proof.
    intros Hv Ht. destruct k; try discriminate; destruct v as [x|b]; try discriminate;
      cbn [valid_f enc_f] in *.
    - (* FU *) apply N.ltb_lt in Hv. eexists; split; [reflexivity|]. intros r.
      cbn [Model.dec_f]. rewrite read_be_app, N.mod_small by assumption. reflexivity.
    - (* FBytes *) apply andb_true_iff in Hv. destruct Hv as [_ Hl]. apply Nat.eqb_eq in Hl.
      rewrite Hl, Nat.eqb_refl. eexists; split; [reflexivity|]. intros r.
      cbn [Model.dec_f]. rewrite take_len_app by assumption. reflexivity.
    - (* FPoint *) apply andb_true_iff in Hv. destruct Hv as [Hv Hc].
      apply andb_true_iff in Hv. destruct Hv as [_ Hl]. apply Nat.eqb_eq in Hl.
      rewrite Hl. cbn [Nat.eqb]. eexists; split; [reflexivity|]. intros r.
      cbn [Model.dec_f]. change 33 with (N.of_nat 33).
      rewrite take_len_app by assumption. rewrite Hc. reflexivity.
    - (* FVar16 *) apply andb_true_iff in Hv. destruct Hv as [_ Hl]. rewrite Hl.
      apply N.leb_le in Hl. eexists; split; [reflexivity|]. intros r.
      cbn [Model.dec_f]. rewrite <- app_assoc, read_be_app, pow2, N.mod_small by lia.
      rewrite take_app. reflexivity.
    - (* FBool *) apply N.leb_le in Hv. eexists; split; [reflexivity|]. intros r.
      cbn [Model.dec_f app]. assert (x = 0 \/ x = 1) as [-> | ->] by lia; reflexivity.
    - (* FFeat *) apply andb_true_iff in Hv. destruct Hv as [Hv Hh].
      apply andb_true_iff in Hv. destruct Hv as [_ Hl]. rewrite Hl.
      apply N.leb_le in Hl. eexists; split; [reflexivity|]. intros r.
      cbn [Model.dec_f]. rewrite <- app_assoc, read_be_app, pow2, N.mod_small by lia.
      rewrite take_app, strip0_id by assumption. reflexivity.
    - (* FVar16Max *) apply andb_true_iff in Hv. destruct Hv as [Hv Hl].
      apply andb_true_iff in Hv. destruct Hv as [_ Hm]. rewrite Hl.
      apply N.leb_le in Hl. apply N.leb_le in Hm. eexists; split; [reflexivity|]. intros r.
      cbn [Model.dec_f]. rewrite <- app_assoc, read_be_app, pow2, N.mod_small by lia.
      destruct (N.ltb_spec m (blen b)); [lia|]. rewrite take_app. reflexivity.
    - (* FArr16 *) apply andb_true_iff in Hv. destruct Hv as [Hv Hc].
      apply andb_true_iff in Hv. destruct Hv as [Hv Hmod].
      apply andb_true_iff in Hv. destruct Hv as [_ Hn0].
      rewrite Hc. apply N.leb_le in Hc. apply N.eqb_eq in Hmod.
      apply negb_true_iff in Hn0. apply Nat.eqb_neq in Hn0.
      eexists; split; [reflexivity|]. intros r.
      cbn [Model.dec_f]. destruct n as [|n']; [contradiction|].
      rewrite <- app_assoc, read_be_app, pow2, N.mod_small by lia.
      assert (Hx : blen b / N.of_nat (S n') * N.of_nat (S n') = blen b).
      { pose proof (N.div_mod (blen b) (N.of_nat (S n'))) as Hd. lia. }
      rewrite Hx, take_app. reflexivity.
    - (* FAlias *) apply andb_true_iff in Hv. destruct Hv as [Hv Hc].
      apply andb_true_iff in Hv. destruct Hv as [_ Hl]. apply Nat.eqb_eq in Hl.
      rewrite Hl. cbn [Nat.eqb]. eexists; split; [reflexivity|]. intros r.
      cbn [Model.dec_f]. change 32 with (N.of_nat 32).
      rewrite take_len_app by assumption. rewrite Hc. reflexivity.
    - (* FAddrs *) apply andb_true_iff in Hv. destruct Hv as [Hv Hp].
      apply andb_true_iff in Hv. destruct Hv as [_ Hl]. rewrite Hl.
      apply N.leb_le in Hl. eexists; split; [reflexivity|]. intros r.
      cbn [Model.dec_f]. rewrite <- app_assoc, read_be_app, pow2, N.mod_small by lia.
      rewrite take_app. destruct (addrs_parse b) as [b'|]; [|discriminate].
      apply beq_spec in Hp. subst b'. reflexivity.
    - (* FBigSize *) apply N.ltb_lt in Hv. eexists; split; [reflexivity|]. intros r.
      cbn [Model.dec_f]. rewrite bigsize_dec_enc by assumption. reflexivity.
    - (* FScids *) apply andb_true_iff in Hv. destruct Hv as [Hv Hs].
      apply andb_true_iff in Hv. destruct Hv as [_ Hl]. rewrite Hl. apply N.leb_le in Hl.
      eexists; split; [reflexivity|]. intros r.
      cbn [Model.dec_f]. rewrite <- app_assoc, read_be_app, pow2, N.mod_small by lia.
      assert (Hz : (blen b + 1 =? 0) = false) by (apply N.eqb_neq; lia). rewrite Hz.
      replace (blen b + 1) with (blen (0 :: b)) by (unfold blen; cbn [length]; lia).
      rewrite take_app. cbn [N.eqb andb]. rewrite Hs. reflexivity.
  Qed.

  (* terminal fields swallow the rest *)
  Lemma field_roundtrip_terminal k v :
    valid_f k v = true -> is_terminal k = true ->
    exists e, enc_f k v = Some e /\ dec_f k e = Some (v, []).
  Proof.
    intros Hv Ht. destruct k; try discriminate; destruct v as [x|b]; try discriminate;
      cbn [valid_f enc_f Model.dec_f] in *.
    - eexists; split; reflexivity.
    - apply andb_true_iff in Hv. destruct Hv as [_ Hv]. eexists; split; [reflexivity|]. rewrite Hv. reflexivity.
  Qed.

  (* L2: whatever a field decoder returns is valid, and re-encodes no longer *)
  Lemma field_dec_valid k b v r :
    nogrow_f k = true -> wf_bytes b -> dec_f k b = Some (v, r) ->
    valid_f k v = true /\ wf_bytes r /\
    exists e, enc_f k v = Some e /\ (length e + length r <= length b)%nat /\
              (exact_f k = true -> b = e ++ r).
  Proof.
    intros Hng Hw. destruct k; cbn [Model.dec_f].
    - (* FU *) destruct (read_be k b) as [[x t]|] eqn:E; [|discriminate].
      intros H; inversion H; subst. apply read_be_spec in E; [|assumption].
      destruct E as (-> & Hx & Ht). cbn [valid_f enc_f]. split; [apply N.ltb_lt; assumption|].
      split; [assumption|]. eexists; split; [reflexivity|]. split; [rewrite app_length; lia|auto].
    - (* FBytes *) destruct (take (N.of_nat n) b) as [[h t]|] eqn:E; [|discriminate].
      intros H; inversion H; subst. apply take_spec in E. destruct E as [-> Hl].
      apply wf_app in Hw. destruct Hw as [Hh Ht].
      assert (length h = n) by (unfold blen in Hl; lia).
      cbn [valid_f enc_f]. split.
      { apply andb_true_iff. split; [apply wf_bytesb_spec; assumption|apply Nat.eqb_eq; assumption]. }
      split; [assumption|]. rewrite (proj2 (Nat.eqb_eq _ _) H0).
      eexists; split; [reflexivity|]. split; [rewrite app_length; lia|auto].
    - (* FPoint *) destruct (take 33 b) as [[h t]|] eqn:E; [|discriminate].
      destruct (on_curve h) eqn:Ec; [|discriminate].
      intros H; inversion H; subst. apply take_spec in E. destruct E as [-> Hl].
      apply wf_app in Hw. destruct Hw as [Hh Ht].
      assert (length h = 33%nat) by (unfold blen in Hl; lia).
      cbn [valid_f enc_f]. split.
      { rewrite Ec, (proj2 (wf_bytesb_spec _) Hh), (proj2 (Nat.eqb_eq _ _) H0). reflexivity. }
      split; [assumption|]. rewrite (proj2 (Nat.eqb_eq _ _) H0).
      eexists; split; [reflexivity|]. split; [rewrite app_length; lia|auto].
    - (* FVar16 *) destruct (read_be 2 b) as [[l t]|] eqn:E; [|discriminate].
      apply read_be_spec in E; [|assumption]. destruct E as (-> & Hl & Ht). rewrite pow2 in Hl.
      destruct (take l t) as [[h t']|] eqn:E2; [|discriminate].
      intros H; inversion H; subst. apply take_spec in E2. destruct E2 as [-> Hlen].
      apply wf_app in Ht. destruct Ht as [Hh Ht'].
      cbn [valid_f enc_f]. assert (Hle : (blen h <=? 65535) = true) by (apply N.leb_le; lia).
      rewrite Hle. split.
      { rewrite (proj2 (wf_bytesb_spec _) Hh). reflexivity. }
      split; [assumption|]. eexists; split; [reflexivity|]. rewrite Hlen.
      split; [rewrite !app_length, be_enc_length; lia|]. intros _. rewrite <- app_assoc. reflexivity.
    - (* FBool *) destruct b as [|x t]; [discriminate|]. intros H; inversion H; subst.
      inversion Hw; subst. cbn [valid_f enc_f]. split; [destruct (x =? 1); reflexivity|].
      split; [assumption|]. eexists; split; [reflexivity|]. split; [cbn; lia|discriminate].
    - (* FFeat *) destruct (read_be 2 b) as [[l t]|] eqn:E; [|discriminate].
      apply read_be_spec in E; [|assumption]. destruct E as (-> & Hl & Ht). rewrite pow2 in Hl.
      destruct (take l t) as [[h t']|] eqn:E2; [|discriminate].
      intros H; inversion H; subst. apply take_spec in E2. destruct E2 as [-> Hlen].
      apply wf_app in Ht. destruct Ht as [Hh Ht'].
      pose proof (strip0_len h) as Hs.
      cbn [valid_f enc_f].
      assert (Hle : (blen (strip0 h) <=? 65535) = true).
      { apply N.leb_le. unfold blen in *. lia. }
      rewrite Hle. split.
      { rewrite (proj2 (wf_bytesb_spec _) (strip0_wf _ Hh)), strip0_head. reflexivity. }
      split; [assumption|]. eexists; split; [reflexivity|].
      split; [rewrite !app_length, !be_enc_length; lia|discriminate].
    - (* FVar16Max *) destruct (read_be 2 b) as [[l t]|] eqn:E; [|discriminate].
      apply read_be_spec in E; [|assumption]. destruct E as (-> & Hl & Ht). rewrite pow2 in Hl.
      destruct (N.ltb_spec m l) as [|Hml]; [discriminate|].
      destruct (take l t) as [[h t']|] eqn:E2; [|discriminate].
      intros H; inversion H; subst. apply take_spec in E2. destruct E2 as [-> Hlen].
      apply wf_app in Ht. destruct Ht as [Hh Ht'].
      cbn [valid_f enc_f]. assert (Hle : (blen h <=? 65535) = true) by (apply N.leb_le; lia).
      rewrite Hle. split.
      { rewrite (proj2 (wf_bytesb_spec _) Hh). cbn [andb]. rewrite andb_true_r.
        apply N.leb_le. lia. }
      split; [assumption|]. eexists; split; [reflexivity|]. rewrite Hlen.
      split; [rewrite !app_length, be_enc_length; lia|]. intros _. rewrite <- app_assoc. reflexivity.
    - (* FArr16 *) destruct n as [|n']; [discriminate|].
      destruct (read_be 2 b) as [[c t]|] eqn:E; [|discriminate].
      apply read_be_spec in E; [|assumption]. destruct E as (-> & Hc & Ht). rewrite pow2 in Hc.
      destruct (take (c * N.of_nat (S n')) t) as [[h t']|] eqn:E2; [|discriminate].
      intros H; inversion H; subst. apply take_spec in E2. destruct E2 as [-> Hlen].
      apply wf_app in Ht. destruct Ht as [Hh Ht'].
      assert (Hn : N.of_nat (S n') <> 0) by lia.
      assert (Hdiv : blen h / N.of_nat (S n') = c) by (rewrite Hlen; apply N.div_mul; assumption).
      assert (Hmod : blen h mod N.of_nat (S n') = 0) by (rewrite Hlen; apply N.mod_mul; assumption).
      cbn [valid_f enc_f]. rewrite Hdiv, Hmod.
      assert (Hle : (c <=? 65535) = true) by (apply N.leb_le; lia).
      rewrite Hle. split.
      { rewrite (proj2 (wf_bytesb_spec _) Hh). reflexivity. }
      split; [assumption|]. eexists; split; [reflexivity|].
      split; [rewrite !app_length, be_enc_length; lia|]. intros _. rewrite <- app_assoc. reflexivity.
    - (* FAlias *) destruct (take 32 b) as [[h t]|] eqn:E; [|discriminate].
      destruct (utf8_valid h) eqn:Ec; [|discriminate].
      intros H; inversion H; subst. apply take_spec in E. destruct E as [-> Hl].
      apply wf_app in Hw. destruct Hw as [Hh Ht].
      assert (length h = 32%nat) by (unfold blen in Hl; lia).
      cbn [valid_f enc_f]. split.
      { rewrite Ec, (proj2 (wf_bytesb_spec _) Hh), (proj2 (Nat.eqb_eq _ _) H0). reflexivity. }
      split; [assumption|]. rewrite (proj2 (Nat.eqb_eq _ _) H0).
      eexists; split; [reflexivity|]. split; [rewrite app_length; lia|auto].
    - (* FAddrs *) destruct (read_be 2 b) as [[l t]|] eqn:E; [|discriminate].
      apply read_be_spec in E; [|assumption]. destruct E as (-> & Hl & Ht). rewrite pow2 in Hl.
      destruct (take l t) as [[h t']|] eqn:E2; [|discriminate].
      destruct (addrs_parse h) as [v0|] eqn:E3; [|discriminate].
      intros H; inversion H; subst. apply take_spec in E2. destruct E2 as [-> Hlen].
      apply wf_app in Ht. destruct Ht as [Hh Ht'].
      destruct (addrs_parse_props h v0 Hh E3) as (Hwv & Hlv & Hiv).
      cbn [valid_f enc_f].
      assert (Hle : (blen v0 <=? 65535) = true) by (apply N.leb_le; unfold blen in *; lia).
      rewrite Hle, Hiv, (proj2 (beq_spec _ _) eq_refl). split.
      { rewrite (proj2 (wf_bytesb_spec _) Hwv). reflexivity. }
      split; [assumption|]. eexists; split; [reflexivity|].
      split; [rewrite !app_length, !be_enc_length; lia|discriminate].
    - (* FBigSize *) destruct (bigsize_dec b) as [[x t]|e] eqn:E; [|discriminate].
      intros H; inversion H; subst. apply bigsize_dec_spec in E; [|assumption].
      destruct E as (-> & Hx & Ht). cbn [valid_f enc_f]. split; [apply N.ltb_lt; assumption|].
      split; [assumption|]. eexists; split; [reflexivity|]. split; [rewrite app_length; lia|auto].
    - (* FScids *) discriminate Hng.
    - (* FRest *) intros H; inversion H; subst. cbn [valid_f enc_f].
      split; [apply wf_bytesb_spec; assumption|]. split; [constructor|].
      eexists; split; [reflexivity|]. split; [cbn; lia|]. intros _. rewrite app_nil_r. reflexivity.
    - (* FTlvRest *) destruct (tlv_valid b) eqn:Et; [|discriminate].
      intros H; inversion H; subst. cbn [valid_f enc_f].
      split; [rewrite Et, (proj2 (wf_bytesb_spec _) Hw); reflexivity|]. split; [constructor|].
      eexists; split; [reflexivity|]. split; [cbn; lia|]. intros _. rewrite app_nil_r. reflexivity.
  Qed.

  (* ... for every field kind; the short-channel-id list may grow by one byte (the empty
     list `00 00` re-encodes with its encoding byte: `00 01 00`) *)
  Lemma field_dec_valid_any k b v r :
    wf_bytes b -> dec_f k b = Some (v, r) ->
    valid_f k v = true /\ wf_bytes r /\
    exists e, enc_f k v = Some e /\
              (nogrow_f k = true -> (length e + length r <= length b)%nat) /\
              (exact_f k = true -> b = e ++ r).
  Proof.
    intros Hw Hd. destruct (nogrow_f k) eqn:Hng.
    { destruct (field_dec_valid k b v r Hng Hw Hd) as (H1 & H2 & e & H3 & H4 & H5).
      split; [assumption|]. split; [assumption|]. exists e. auto. }
    destruct k; try discriminate Hng. cbn [Model.dec_f] in Hd.
    destruct (read_be 2 b) as [[n t]|] eqn:E; [|discriminate].
    apply read_be_spec in E; [|assumption]. destruct E as (-> & Hn & Ht). rewrite pow2 in Hn.
    destruct (N.eqb_spec n 0) as [->|Hn0].
    - injection Hd as <- <-. split; [reflexivity|]. split; [assumption|].
      eexists; split; [reflexivity|]. split; discriminate.
    - destruct (take n t) as [[[|e ids] r']|] eqn:E2; try discriminate.
      destruct ((e =? 0) && scids_ok ids) eqn:Ec; [|discriminate]. injection Hd as <- <-.
      apply andb_true_iff in Ec. destruct Ec as [_ Hs].
      apply take_spec in E2. destruct E2 as [-> Hlen]. apply wf_app in Ht. destruct Ht as [Hh Hr].
      inversion Hh as [|? ? _ Hids]; subst.
      assert (Hle : (blen ids + 1 <=? 65535) = true).
      { apply N.leb_le. unfold blen in *. cbn [length] in Hn. lia. }
      cbn [valid_f enc_f]. rewrite Hle, Hs, (proj2 (wf_bytesb_spec _) Hids).
      split; [reflexivity|]. split; [assumption|]. eexists; split; [reflexivity|].
      split; discriminate.
  Qed.

  Lemma dec_f_terminal_rest k b v r :
    is_terminal k = true -> dec_f k b = Some (v, r) -> r = [].
  Proof.
    destruct k; try discriminate; intros _; cbn [Model.dec_f].
    - intros H; inversion H; reflexivity.
    - destruct (tlv_valid b); [|discriminate]. intros H; inversion H; reflexivity.
  Qed.

  (* Decode keeping the unread rest *)
  Fixpoint decode_rest (L : layout) (b : bytes) : option (list fval * bytes) :=
    match L with
    | [] => Some ([], b)
    | k :: L' =>
      match dec_f k b with
      | Some (v, r) =>
        match decode_rest L' r with
        | Some (vs, r') => Some (v :: vs, r')
        | None => None
        end
      | None => None
      end
    end.

  Lemma decode_decode_rest L b :
    decode L b = match decode_rest L b with Some (vs, _) => Some vs | None => None end.
  Proof.
    revert b. induction L as [|k L IH]; intros b; [reflexivity|]. cbn [Model.decode decode_rest].
    destruct (dec_f k b) as [[v r]|]; [|reflexivity]. rewrite IH.
    destruct (decode_rest L r) as [[vs r']|]; reflexivity.
  Qed.

  Definition nonterm (L : layout) : bool := forallb (fun k => negb (is_terminal k)) L.

  Lemma layout_roundtrip_rest L : lay_ok L = true ->
    forall vs, valid_vs L vs = true ->
    exists b, encode L vs = Some b /\ decode_rest L b = Some (vs, []) /\
              (nonterm L = true -> forall r, decode_rest L (b ++ r) = Some (vs, r)).
  Proof.
    induction L as [|k L IH]; intros Hok vs Hv.
    - destruct vs; [|discriminate]. exists []. repeat split; auto.
    - destruct vs as [|v vs]; [discriminate|]. cbn [Model.valid_vs] in Hv.
      apply andb_true_iff in Hv. destruct Hv as [Hvk Hvs].
      destruct (is_terminal k) eqn:Et.
      + (* terminal: must be last *)
        assert (L = []) as ->.
        { destruct L; [reflexivity|]. cbn [lay_ok] in Hok. rewrite Et in Hok. discriminate. }
        destruct vs; [|discriminate].
        destruct (field_roundtrip_terminal k v Hvk Et) as (e & He & Hd).
        exists e. cbn [Model.encode decode_rest nonterm forallb]. rewrite He, app_nil_r, Hd, Et.
        repeat split; auto. discriminate.
      + assert (HokL : lay_ok L = true).
        { destruct L; [reflexivity|]. cbn [lay_ok] in Hok. rewrite Et in Hok. exact Hok. }
        destruct (field_roundtrip k v Hvk Et) as (e & He & Hd).
        destruct (IH HokL vs Hvs) as (b' & Hb' & Hd0 & Hdr).
        exists (e ++ b'). cbn [Model.encode]. rewrite He, Hb'. split; [reflexivity|].
        cbn [decode_rest]. split.
        * rewrite Hd, Hd0. reflexivity.
        * cbn [nonterm forallb]. rewrite Et. cbn [negb andb]. intros Hn r.
          rewrite <- app_assoc, Hd, (Hdr Hn). reflexivity.
  Qed.

  Lemma decode_rest_valid L : forall b vs r,
    wf_bytes b -> decode_rest L b = Some (vs, r) ->
    valid_vs L vs = true /\
    exists e, encode L vs = Some e /\
              (forallb nogrow_f L = true -> (length e + length r <= length b)%nat) /\
              (forallb exact_f L = true -> b = e ++ r).
  Proof.
    induction L as [|k L IH]; intros b vs r Hw.
    - intros H; inversion H; subst. split; [reflexivity|]. exists []. repeat split; auto; cbn; lia.
    - cbn [decode_rest]. destruct (dec_f k b) as [[v r1]|] eqn:E; [|discriminate].
      destruct (decode_rest L r1) as [[vs' r']|] eqn:E2; [|discriminate].
      intros H; inversion H; subst.
      destruct (field_dec_valid_any k b v r1 Hw E) as (Hv & Hw1 & e1 & He1 & Hl1 & Hx1).
      destruct (IH r1 vs' r Hw1 E2) as (Hvs & e2 & He2 & Hl2 & Hx2).
      cbn [Model.valid_vs Model.encode]. rewrite Hv, Hvs, He1, He2. split; [reflexivity|].
      exists (e1 ++ e2). split; [reflexivity|]. split.
      { cbn [forallb]. intros Hng. apply andb_true_iff in Hng. destruct Hng as [Hk HL].
        specialize (Hl1 Hk). specialize (Hl2 HL). rewrite app_length. lia. }
      cbn [forallb]. intros Hex. apply andb_true_iff in Hex. destruct Hex as [Hk HL].
      rewrite (Hx1 Hk), (Hx2 HL), app_assoc. reflexivity.
  Qed.

  Lemma decode_rest_terminal L : ends_terminal L = true ->
    forall b vs r, decode_rest L b = Some (vs, r) -> r = [].
  Proof.
    induction L as [|k L IH]; [discriminate|]. intros He b vs r. cbn [decode_rest].
    destruct (dec_f k b) as [[v r1]|] eqn:E; [|discriminate].
    destruct (decode_rest L r1) as [[vs' r']|] eqn:E2; [|discriminate].
    intros H; inversion H; subst. destruct L as [|k' L'].
    - cbn [ends_terminal] in He. apply (dec_f_terminal_rest _ _ _ _ He) in E. subst.
      cbn in E2. inversion E2; reflexivity.
    - apply (IH He _ _ _ E2).
  Qed.

  Theorem layout_roundtrip L vs :
    lay_ok L = true -> valid_vs L vs = true ->
    exists b, encode L vs = Some b /\ decode L b = Some vs.
  Proof.
    intros Hok Hv. destruct (layout_roundtrip_rest L Hok vs Hv) as (b & Hb & Hd & _).
    exists b. split; [assumption|]. rewrite decode_decode_rest, Hd. reflexivity.
  Qed.

  Theorem layout_fixpoint L b vs :
    lay_ok L = true -> wf_bytes b -> decode L b = Some vs ->
    exists b', encode L vs = Some b' /\ decode L b' = Some vs /\
               (forallb nogrow_f L = true -> (length b' <= length b)%nat).
  Proof.
    intros Hok Hw Hd. rewrite decode_decode_rest in Hd.
    destruct (decode_rest L b) as [[vs0 r]|] eqn:E; [|discriminate]. inversion Hd; subst vs0.
    destruct (decode_rest_valid L b vs r Hw E) as (Hv & e & He & Hl & _).
    destruct (layout_roundtrip L vs Hok Hv) as (b' & Hb' & Hd').
    rewrite He in Hb'. inversion Hb'; subst b'. exists e. repeat split; auto.
    intros Hng. specialize (Hl Hng). lia.
  Qed.

  Theorem layout_canonical L b vs :
    forallb exact_f L = true -> ends_terminal L = true -> wf_bytes b ->
    decode L b = Some vs -> encode L vs = Some b.
  Proof.
    intros Hex Het Hw Hd. rewrite decode_decode_rest in Hd.
    destruct (decode_rest L b) as [[vs0 r]|] eqn:E; [|discriminate]. inversion Hd; subst vs0.
    destruct (decode_rest_valid L b vs r Hw E) as (_ & e & He & _ & Hx).
    apply (decode_rest_terminal L Het) in E. subst r.
    rewrite (Hx Hex), app_nil_r. exact He.
  Qed.

  (* ---- framing ---- *)
  Theorem write_size T t vs b : write_message T t vs = Some b -> blen b <= 65535.
  Proof.
    unfold write_message. destruct (lookup_layout T t) as [L|]; [|discriminate].
    destruct (encode L vs) as [p|]; [|discriminate].
    destruct (N.ltb_spec max_msg_body (blen p)) as [|Hle]; [discriminate|].
    intros H; inversion H; subst. clear H. unfold blen in *. cbn [length].
    unfold max_msg_body in Hle. lia.
  Qed.

  Theorem message_roundtrip T t L vs b :
    lookup_layout T t = Some L -> lay_ok L = true -> t < 65536 ->
    valid_vs L vs = true ->
    write_message T t vs = Some b -> read_message on_curve T b = Some (t, vs).
  Proof.
    intros HL Hok Ht Hv. unfold write_message, read_message. rewrite HL.
    destruct (layout_roundtrip L vs Hok Hv) as (p & Hp & Hd). rewrite Hp.
    destruct (max_msg_body <? blen p); [discriminate|]. intros H. injection H as <-.
    change ((t / 256) mod 256 :: t mod 256 :: p) with (be_enc 2 t ++ p).
    rewrite read_be_app, pow2, N.mod_small by assumption. rewrite HL, Hd. reflexivity.
  Qed.
End FieldProofs.
