(* Lemmas for the "fixed fields ++ TLV extension" message model (C10). *)
From Coq Require Import List NArith Bool Lia Arith.
From Coq Require Import ZifyBool ZifyN ZifyNat.
From LV Require Import Wire.Model Wire.Proofs Wire.MsgModel.
Import ListNotations.
Local Open Scope N_scope.

(* ------------------------------------------------------------------ *)
(* small list / bytes facts *)

Lemma beq_spec a b : beq a b = true <-> a = b.
Proof.
  revert b. induction a as [|x a IH]; intros [|y b]; cbn; split; try discriminate; auto.
  - intros H. apply andb_true_iff in H. destruct H as [H1 H2]. apply N.eqb_eq in H1.
    apply IH in H2. subst. reflexivity.
  - intros H. inversion H; subst. rewrite N.eqb_refl. apply IH. reflexivity.
Qed.

Lemma firstn_app_len {A} (a b : list A) n : length a = n -> firstn n (a ++ b) = a.
Proof.
  intros <-. rewrite firstn_app, Nat.sub_diag, firstn_all, firstn_O, app_nil_r. reflexivity.
Qed.

Lemma skipn_app_len {A} (a b : list A) n : length a = n -> skipn n (a ++ b) = b.
Proof.
  intros <-. rewrite skipn_app, Nat.sub_diag, skipn_all, skipn_O. reflexivity.
Qed.

Lemma wf_firstn n b : wf_bytes b -> wf_bytes (firstn n b).
Proof. intros H. rewrite <- (firstn_skipn n b) in H. apply wf_app in H. tauto. Qed.

Lemma wf_skipn n b : wf_bytes b -> wf_bytes (skipn n b).
Proof. intros H. rewrite <- (firstn_skipn n b) in H. apply wf_app in H. tauto. Qed.

Lemma filter_all {A} (f : A -> bool) l : forallb f l = true -> filter f l = l.
Proof.
  induction l as [|x l IH]; cbn; [reflexivity|]. intros H. apply andb_true_iff in H.
  destruct H as [-> H]. rewrite IH by assumption. reflexivity.
Qed.

Lemma filter_idem {A} (f : A -> bool) l : filter f (filter f l) = filter f l.
Proof.
  induction l as [|x l IH]; cbn; [reflexivity|]. destruct (f x) eqn:E; cbn; [rewrite E, IH|]; auto.
Qed.

Lemma forallb_filter {A} (f : A -> bool) l : forallb f (filter f l) = true.
Proof. induction l as [|x l IH]; cbn; [reflexivity|]. destruct (f x) eqn:E; cbn; [rewrite E|]; auto. Qed.

Lemma forallb_filter_sub {A} (f g : A -> bool) l :
  forallb g l = true -> forallb g (filter f l) = true.
Proof.
  induction l as [|x l IH]; cbn; [reflexivity|]. intros H. apply andb_true_iff in H.
  destruct H as [H1 H2]. destruct (f x); cbn; [rewrite H1|]; auto.
Qed.

(* ------------------------------------------------------------------ *)
(* sortedness *)

Lemma sorted_fromb_spec rs : forall lb, sorted_fromb lb rs = true <-> sorted_from lb rs.
Proof.
  induction rs as [|[t v] rs IH]; intros lb; cbn; [tauto|].
  rewrite andb_true_iff, IH. rewrite N.leb_le. tauto.
Qed.

Lemma sorted_weaken rs lb lb' : lb' <= lb -> sorted_from lb rs -> sorted_from lb' rs.
Proof. destruct rs as [|[t v] rs]; cbn; [auto|]. intros H [H1 H2]. split; [lia|assumption]. Qed.

Lemma sorted_filter f rs : forall lb, sorted_from lb rs -> sorted_from lb (filter f rs).
Proof.
  induction rs as [|[t v] rs IH]; intros lb; cbn; [auto|]. intros [H1 H2].
  destruct (f (t, v)); cbn.
  - split; [assumption|apply IH; assumption].
  - apply IH. apply sorted_weaken with (t + 1); [lia|assumption].
Qed.

Lemma sorted_map_types (g : tlv_record -> tlv_record) rs :
  (forall r, fst (g r) = fst r) -> forall lb, sorted_from lb rs -> sorted_from lb (map g rs).
Proof.
  intros Hg. induction rs as [|[t v] rs IH]; intros lb; cbn; [auto|]. intros [H1 H2].
  specialize (Hg (t, v)). destruct (g (t, v)) as [t' v']. cbn in Hg. subst t'.
  split; [assumption|apply IH; assumption].
Qed.

Lemma has_type_cons t0 t v rs : has_type t0 ((t, v) :: rs) = (t =? t0) || has_type t0 rs.
Proof. reflexivity. Qed.

Lemma has_type_lb t rs : forall lb, sorted_from lb rs -> has_type t rs = true -> lb <= t.
Proof.
  induction rs as [|[t' v] rs IH]; intros lb; [discriminate|]. cbn [sorted_from].
  intros [H1 H2] H. rewrite has_type_cons in H.
  apply orb_true_iff in H. destruct H as [H|H].
  - apply N.eqb_eq in H. subst. assumption.
  - specialize (IH _ H2 H). lia.
Qed.

(* ---- ensure ---- *)

Lemma ensure_sorted t rs : forall lb, lb <= t -> sorted_from lb rs -> sorted_from lb (ensure t rs).
Proof.
  induction rs as [|[t' v] rs IH]; intros lb Hlb; cbn [ensure sorted_from].
  - intros _. split; [assumption|exact I].
  - intros [H1 H2]. destruct (N.ltb_spec t t').
    + cbn [sorted_from]. repeat split; try assumption; lia.
    + destruct (N.eqb_spec t t').
      * cbn [sorted_from]. split; assumption.
      * cbn [sorted_from]. split; [assumption|]. apply IH; [lia|assumption].
Qed.

Lemma ensure_forall (P : tlv_record -> Prop) t rs :
  P (t, []) -> Forall P rs -> Forall P (ensure t rs).
Proof.
  intros Hp. induction rs as [|[t' v] rs IH]; intros H; cbn [ensure].
  - constructor; [assumption|constructor].
  - inversion H; subst. destruct (t <? t'); [constructor; assumption|].
    destruct (t =? t'); [assumption|]. constructor; auto.
Qed.

Lemma ensure_has t rs : has_type t (ensure t rs) = true.
Proof.
  induction rs as [|[t' v] rs IH]; cbn [ensure].
  - rewrite has_type_cons, N.eqb_refl. reflexivity.
  - destruct (t <? t'); [rewrite has_type_cons, N.eqb_refl; reflexivity|].
    destruct (N.eqb_spec t t').
    + subst. rewrite has_type_cons, N.eqb_refl. reflexivity.
    + rewrite has_type_cons, IH. apply orb_true_r.
Qed.

Lemma ensure_keeps t t0 rs : has_type t0 rs = true -> has_type t0 (ensure t rs) = true.
Proof.
  induction rs as [|[t' v] rs IH]; cbn [ensure]; [discriminate|].
  intros H. destruct (t <? t'); [rewrite has_type_cons, H; apply orb_true_r|].
  destruct (t =? t'); [assumption|].
  rewrite has_type_cons in *. apply orb_true_iff in H. destruct H as [->|H]; [reflexivity|].
  rewrite (IH H). apply orb_true_r.
Qed.

Lemma ensure_id t rs : forall lb, sorted_from lb rs -> has_type t rs = true -> ensure t rs = rs.
Proof.
  induction rs as [|[t' v] rs IH]; intros lb; cbn [ensure sorted_from]; [discriminate|].
  intros [H1 H2] H. rewrite has_type_cons in H. apply orb_true_iff in H.
  destruct (N.ltb_spec t t') as [Hlt|Hge].
  - destruct H as [H|H]; [apply N.eqb_eq in H; lia|].
    pose proof (has_type_lb _ _ _ H2 H). lia.
  - destruct (N.eqb_spec t t'); [reflexivity|].
    destruct H as [H|H]; [apply N.eqb_eq in H; lia|]. rewrite (IH _ H2 H). reflexivity.
Qed.

Lemma ensure_all_sorted ts rs :
  sorted_from 0 rs -> sorted_from 0 (ensure_all ts rs).
Proof.
  intros H. unfold ensure_all. induction ts as [|t ts IH]; cbn [fold_right]; [assumption|].
  apply ensure_sorted; [lia|assumption].
Qed.

Lemma ensure_all_forall (P : tlv_record -> Prop) ts rs :
  Forall (fun t => P (t, [])) ts -> Forall P rs -> Forall P (ensure_all ts rs).
Proof.
  intros Hts H. unfold ensure_all. induction Hts as [|t ts Ht Hts IH]; cbn [fold_right]; [assumption|].
  apply ensure_forall; assumption.
Qed.

Lemma ensure_all_has ts rs t : In t ts -> has_type t (ensure_all ts rs) = true.
Proof.
  unfold ensure_all. induction ts as [|t' ts IH]; cbn [fold_right In]; [contradiction|]. intros [->|H].
  - apply ensure_has.
  - apply ensure_keeps. apply IH. assumption.
Qed.

Lemma ensure_all_id ts rs :
  sorted_from 0 rs -> forallb (fun t => has_type t rs) ts = true -> ensure_all ts rs = rs.
Proof.
  intros Hs. unfold ensure_all. induction ts as [|t ts IH]; cbn [fold_right forallb]; [reflexivity|].
  intros H. apply andb_true_iff in H. destruct H as [H1 H2]. rewrite IH by assumption.
  apply ensure_id with 0; assumption.
Qed.

(* ------------------------------------------------------------------ *)
(* known-record codecs *)

Lemma lookup_kind_tm ks t :
  lookup_kind (map (fun k => (kr_type k, rk_vkind (kr_kind k))) ks) t =
  option_map rk_vkind (lookup_rk ks t).
Proof.
  induction ks as [|k ks IH]; cbn; [reflexivity|]. destruct (t =? kr_type k); [reflexivity|exact IH].
Qed.

Lemma tm_kinds_no_bigsize ks :
  no_bigsize (map (fun k => (kr_type k, rk_vkind (kr_kind k))) ks).
Proof.
  induction ks as [|k ks IH]; cbn; [exact I|]. destruct (kr_kind k); cbn; assumption.
Qed.

Lemma value_okb_spec k v : value_ok (Some (rk_vkind k)) v <-> value_okb (rk_vkind k) v = true.
Proof.
  destruct k; cbn; try tauto; rewrite N.eqb_eq; tauto.
Qed.

Lemma secp_n_lt : secp_n < 256 ^ N.of_nat 32.
Proof. vm_compute. reflexivity. Qed.

Lemma modn32_len v : length (modn32 v) = 32%nat.
Proof. apply be_enc_length. Qed.

Lemma modn32_idem v : modn32 (modn32 v) = modn32 v.
Proof.
  unfold modn32. rewrite be_dec_enc.
  assert (Hn : secp_n <> 0) by discriminate.
  pose proof (N.mod_lt (be_dec v) secp_n Hn) as H. pose proof secp_n_lt as H2.
  rewrite (N.mod_small (be_dec v mod secp_n)) by lia.
  rewrite N.mod_mod by assumption. reflexivity.
Qed.

Section RK.
  Variable oc : bytes -> bool.

  (* what re-encoding a known record does to its wire value *)
  Lemma norm_props k v :
    wf_bytes v -> value_ok (Some (rk_vkind k)) v ->
    wf_bytes (rk_norm k v) /\ value_ok (Some (rk_vkind k)) (rk_norm k v) /\
    (length (rk_norm k v) <= length v)%nat /\
    rk_norm k (rk_norm k v) = rk_norm k v /\
    rk_check oc k (rk_norm k v) = rk_check oc k v.
  Proof.
    intros Hw Hv.
    assert (Hid : wf_bytes v /\ value_ok (Some (rk_vkind k)) v /\ (length v <= length v)%nat /\
                  v = v /\ rk_check oc k v = rk_check oc k v) by (repeat split; auto).
    destruct k; cbn [rk_norm rk_vkind rk_check value_ok] in *; try exact Hid; clear Hid.
    - (* RKFeat *) split; [apply strip0_wf; assumption|]. split; [exact I|].
      split; [apply strip0_len|]. split; [|reflexivity]. apply strip0_id. apply strip0_head.
    - (* RKScalar *) split; [apply be_enc_wf|].
      split; [unfold blen; rewrite modn32_len; reflexivity|].
      split; [rewrite modn32_len; unfold blen in Hv; lia|].
      split; [apply modn32_idem|reflexivity].
    - (* RKSigNonce *)
      assert (Hl : length v = 98%nat) by (unfold blen in Hv; lia).
      assert (Hs : length (skipn 32 v) = 66%nat) by (rewrite skipn_length; lia).
      split; [apply wf_app; split; [apply be_enc_wf|apply wf_skipn; assumption]|].
      split; [unfold blen; rewrite app_length, modn32_len, Hs; reflexivity|].
      split; [rewrite app_length, modn32_len, Hs; lia|].
      split.
      + rewrite (firstn_app_len _ _ 32%nat (modn32_len _)), (skipn_app_len _ _ 32%nat (modn32_len _)).
        rewrite modn32_idem. reflexivity.
      + rewrite (skipn_app_len _ _ 32%nat (modn32_len _)). reflexivity.
  Qed.
End RK.
